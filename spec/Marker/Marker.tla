------------------------------- MODULE Marker -------------------------------
(* C24.  vfs/atomicfs/marker.go over the crash model of vfs/mem_fs.go.              *)
(*                                                                                  *)
(* CrashFS sub-model (one directory; marker files are empty, the value lives in the  *)
(* file name `marker.<name>.<iter>.<value>`, so there is no file data to model):     *)
(*   children  = current directory entries          (memNode.children)               *)
(*   synced    = entries as of the last dir Sync    (memNode.syncedChildren)         *)
(*   a crash yields  synced \cup S  for any S \subseteq children  (memNode.CrashClone:*)
(*   an unsynced creation may or may not survive, an unsynced removal never takes    *)
(*   effect).                                                                        *)
(* A file is <<iter, value>>; value ids are positive integers, 0 = "no marker".      *)
(* Actions mirror the filesystem effects of Marker.Move / RemoveObsolete /           *)
(* LocateMarker one by one, in the code's order.                                     *)
EXTENDS Integers, FiniteSets, Sequences, TLC

CONSTANTS MaxMoves,            \* bound: number of Move calls in a behaviour
          MaxCrashes,          \* bound: crash + relocate steps the behaviour continues from
          MaxRemoveFails,      \* bound: injected Remove errors (old marker left behind => obsolete file)
          BugNoDirSync,        \* seeded bug: Move returns without syncing the directory
          BugSyncBeforeCreate, \* seeded bug: the directory is synced before the new file is created
          BugLowestIterWins    \* seeded bug: scanForMarker lets the lowest iteration win

VARIABLES children, synced,         \* CrashFS
          iter, cur, obsolete,      \* Marker.iter, Marker.filename, Marker.obsoleteFiles
          pc, newf, oldf,           \* in-flight call
          committed, inflight,      \* value of the last returned Move / value of the Move in progress (0 = none)
          moves, crashes, fails     \* bounds
mvars == <<children, synced, iter, cur, obsolete, pc, newf, oldf, committed, inflight, moves, crashes, fails>>

None == <<0, 0>>

(* ---- scanForMarker: highest iteration wins, every other file is obsolete ---- *)
Winner(files) == IF files = {} THEN None
                 ELSE IF BugLowestIterWins THEN CHOOSE f \in files : \A g \in files : f[1] <= g[1]
                 ELSE CHOOSE f \in files : \A g \in files : f[1] >= g[1]
Val(f) == f[2]
LocVal(files) == Val(Winner(files))

(* every state a crash at this moment can leave behind *)
CrashStates == {synced \cup S : S \in SUBSET (children \ synced)}

MInit == /\ children = {} /\ synced = {} /\ iter = 0 /\ cur = None /\ obsolete = {}
         /\ pc = "idle" /\ newf = None /\ oldf = None /\ committed = 0 /\ inflight = 0
         /\ moves = 0 /\ crashes = 0 /\ fails = 0

(* LocateMarker on a directory listing (a fresh process after a crash, or the initial open) *)
LocateOn(files) == /\ cur' = Winner(files) /\ iter' = Winner(files)[1] /\ obsolete' = files \ {Winner(files)}
                   /\ pc' = "idle" /\ newf' = None /\ oldf' = None

(* ---- Move(v): a.iter++; Create(dst); f.Sync; f.Close; Remove(old); dirFD.Sync ---- *)
CallMove(v) == /\ pc = "idle" /\ v > 0
               /\ iter' = iter + 1 /\ newf' = <<iter + 1, v>> /\ oldf' = cur /\ inflight' = v
               /\ pc' = (IF BugSyncBeforeCreate THEN "presync" ELSE "create")
               /\ moves' = moves + 1
               /\ UNCHANGED <<children, synced, cur, obsolete, committed, crashes, fails>>
PreSync == /\ pc = "presync" /\ synced' = children /\ pc' = "create"
           /\ UNCHANGED <<children, iter, cur, obsolete, newf, oldf, committed, inflight, moves, crashes, fails>>
Create == /\ pc = "create" /\ children' = children \cup {newf} /\ cur' = newf /\ pc' = "syncfile"
          /\ UNCHANGED <<synced, iter, obsolete, newf, oldf, committed, inflight, moves, crashes, fails>>
SyncFile == /\ pc = "syncfile" /\ pc' = "close"      \* empty file: no data to make durable
            /\ UNCHANGED <<children, synced, iter, cur, obsolete, newf, oldf, committed, inflight, moves, crashes, fails>>
CloseFile == /\ pc = "close" /\ pc' = (IF oldf # None THEN "remove" ELSE "syncdir")
             /\ UNCHANGED <<children, synced, iter, cur, obsolete, newf, oldf, committed, inflight, moves, crashes, fails>>
RemoveOld(ok) == /\ pc = "remove"
                 /\ (IF ok THEN children' = children \ {oldf} /\ obsolete' = obsolete /\ fails' = fails
                     ELSE children' = children /\ obsolete' = obsolete \cup {oldf} /\ fails' = fails + 1)
                 /\ pc' = "syncdir"
                 /\ UNCHANGED <<synced, iter, cur, newf, oldf, committed, inflight, moves, crashes>>
SyncDir == /\ pc = "syncdir"
           /\ synced' = (IF BugNoDirSync \/ BugSyncBeforeCreate THEN synced ELSE children)
           /\ pc' = "ret"
           /\ UNCHANGED <<children, iter, cur, obsolete, newf, oldf, committed, inflight, moves, crashes, fails>>
RetMove == /\ pc = "ret" /\ committed' = inflight /\ inflight' = 0 /\ pc' = "idle" /\ newf' = None /\ oldf' = None
           /\ UNCHANGED <<children, synced, iter, cur, obsolete, moves, crashes, fails>>

(* ---- RemoveObsolete: Remove each obsolete file; no sync ---- *)
CallRO == /\ pc = "idle" /\ pc' = "ro"
          /\ UNCHANGED <<children, synced, iter, cur, obsolete, newf, oldf, committed, inflight, moves, crashes, fails>>
RORemove(f, ok) == /\ pc = "ro" /\ f \in obsolete
                   /\ (IF ok THEN children' = children \ {f} /\ obsolete' = obsolete \ {f} /\ pc' = "ro" /\ fails' = fails
                       ELSE children' = children /\ obsolete' = obsolete /\ pc' = "roret" /\ fails' = fails + 1)
                   /\ UNCHANGED <<synced, iter, cur, newf, oldf, committed, inflight, moves, crashes>>
RetRO == /\ pc \in {"ro", "roret"} /\ (pc = "ro" => obsolete = {}) /\ pc' = "idle"
         /\ UNCHANGED <<children, synced, iter, cur, obsolete, newf, oldf, committed, inflight, moves, crashes, fails>>

(* ---- crash at any point, then a new process locates the marker on what survived ---- *)
Crash(st) == /\ st \in CrashStates
             /\ children' = st /\ synced' = st /\ LocateOn(st)
             /\ committed' = LocVal(st) /\ inflight' = 0 /\ crashes' = crashes + 1
             /\ UNCHANGED <<moves, fails>>

DoMove == moves < MaxMoves /\ CallMove(moves + 1)
DoRemoveOldFail == fails < MaxRemoveFails /\ RemoveOld(FALSE)
DoCallRO == obsolete # {} /\ CallRO
DoRORemove == \E f \in obsolete : RORemove(f, TRUE) \/ (fails < MaxRemoveFails /\ RORemove(f, FALSE))
DoCrash == crashes < MaxCrashes /\ \E st \in CrashStates : Crash(st)
MNext == \/ DoMove \/ PreSync \/ Create \/ SyncFile \/ CloseFile
         \/ RemoveOld(TRUE) \/ DoRemoveOldFail \/ SyncDir \/ RetMove
         \/ DoCallRO \/ DoRORemove \/ RetRO \/ DoCrash
Spec == MInit /\ [][MNext]_mvars

(* ---- C24 ---- *)
Allowed == {committed} \cup (IF inflight # 0 THEN {inflight} ELSE {})
(* any crash at any step of Move: old or new; after Move returned: new, in every crash state *)
Atomic == \A st \in CrashStates : LocVal(st) \in Allowed
(* obsolete files never shadow the newest one (live directory, between calls and during RemoveObsolete) *)
StaleNeverWins == pc \in {"idle", "ro", "roret"} => LocVal(children) = committed
ObsoleteLower == \A f \in obsolete : cur # None /\ f[1] < cur[1]
TypeOK == /\ synced \subseteq (children \cup synced) /\ iter >= 0 /\ committed >= 0
Done == moves = MaxMoves /\ pc = "idle" /\ obsolete = {}
=============================================================================
