------------------------------- MODULE Marker -------------------------------
(* C24.  vfs/atomicfs/marker.go over the crash model of vfs/mem_fs.go.              *)
(*                                                                                  *)
(* CrashFS sub-model (one directory; marker files are empty, the value lives in the  *)
(* file name `marker.<name>.<iter>.<value>`, so there is no file data to model):     *)
(*   children  = current directory entries          (memNode.children)               *)
(*   synced    = entries as of the last dir Sync    (memNode.syncedChildren)         *)
(*   a crash yields  synced \cup S  for any S \subseteq children  (memNode.CrashClone:*)
(*   an unsynced creation may or may not survive, an unsynced removal never takes    *)
(*   effect).                                                                        *)
(* A file is <<iter, value>>; value ids are positive integers, 0 = "no marker".      *)
(* Actions mirror the filesystem effects of Marker.Move / RemoveObsolete /           *)
(* LocateMarker one by one, in the code's order.                                     *)
(*                                                                                  *)
(* Faults (injected I/O errors, not crashes): every filesystem step of Move may     *)
(* return an error - Create (with the file not created, or created with the         *)
(* acknowledgement lost: "on a distributed filesystem an error doesn't guarantee    *)
(* that the file wasn't created"), the marker file's Sync, its Close, the Remove of *)
(* the old marker, the directory Sync (Move panics: the process can only die).      *)
(* A failed Move returns an error: "the current value of the marker may be the old  *)
(* value or the new value.  Callers may retry a Move error" - with the same value   *)
(* or with a different one.  The marker may also be re-located on the live          *)
(* directory (LocateMarker without a crash).                                        *)
EXTENDS Integers, FiniteSets, Sequences, TLC

CONSTANTS MaxMoves,            \* bound: number of Move calls in a behaviour
          MaxCrashes,          \* bound: crash + relocate steps the behaviour continues from
          MaxRemoveFails,      \* bound: injected Remove errors (old marker left behind => obsolete file)
          MaxFaults,           \* bound: injected Create / file Sync / Close / directory Sync errors
          BugNoDirSync,        \* seeded bug: Move returns without syncing the directory
          BugSyncBeforeCreate, \* seeded bug: the directory is synced before the new file is created
          BugLowestIterWins,   \* seeded bug: scanForMarker lets the lowest iteration win
          BugIterLate          \* seeded bug: Move commits iter/filename only after the new file was synced and closed

VARIABLES children, synced,         \* CrashFS
          iter, cur, obsolete,      \* Marker.iter, Marker.filename, Marker.obsoleteFiles
          pc, newf, oldf,           \* in-flight call
          committed, inflight,      \* value of the last returned Move / value of the Move in progress (0 = none)
          maybe,                    \* values of the Moves that returned an error since the last successful Move / restart
          lastfail,                 \* value of the last Move if it returned an error (a retry may reuse it), else 0
          moves, crashes, fails, faults   \* bounds
mvars == <<children, synced, iter, cur, obsolete, pc, newf, oldf, committed, inflight, maybe, lastfail, moves, crashes, fails, faults>>

None == <<0, 0>>

(* ---- scanForMarker: highest iteration wins, every other file is obsolete ---- *)
Better(f, g) == IF BugLowestIterWins THEN f[1] <= g[1] ELSE f[1] >= g[1]
Winners(files) == {f \in files : \A g \in files : Better(f, g)}
Winner(files) == IF files = {} THEN None ELSE CHOOSE f \in Winners(files) : TRUE
Val(f) == f[2]
LocVal(files) == Val(Winner(files))
(* every value a scan of `files` may return, whatever the order of the directory listing *)
LocVals(files) == IF files = {} THEN {0} ELSE {Val(f) : f \in Winners(files)}

(* every state a crash at this moment can leave behind *)
CrashStates == {synced \cup S : S \in SUBSET (children \ synced)}

MInit == /\ children = {} /\ synced = {} /\ iter = 0 /\ cur = None /\ obsolete = {}
         /\ pc = "idle" /\ newf = None /\ oldf = None /\ committed = 0 /\ inflight = 0
         /\ maybe = {} /\ lastfail = 0
         /\ moves = 0 /\ crashes = 0 /\ fails = 0 /\ faults = 0

(* LocateMarker on a directory listing (a fresh process after a crash, the initial open, or a re-locate) *)
LocateOn(files) == /\ cur' = Winner(files) /\ iter' = Winner(files)[1] /\ obsolete' = files \ {Winner(files)}
                   /\ pc' = "idle" /\ newf' = None /\ oldf' = None

(* ---- Move(v): a.iter++; Create(dst); a.filename = dst; f.Sync; f.Close; Remove(old); dirFD.Sync ---- *)
CallMove(v) == /\ pc = "idle" /\ v > 0
               /\ iter' = (IF BugIterLate THEN iter ELSE iter + 1)
               /\ newf' = <<iter + 1, v>> /\ oldf' = cur /\ inflight' = v
               /\ pc' = (IF BugSyncBeforeCreate THEN "presync" ELSE "create")
               /\ moves' = moves + 1
               /\ UNCHANGED <<children, synced, cur, obsolete, committed, maybe, lastfail, crashes, fails, faults>>
PreSync == /\ pc = "presync" /\ synced' = children /\ pc' = "create"
           /\ UNCHANGED <<children, iter, cur, obsolete, newf, oldf, committed, inflight, maybe, lastfail, moves, crashes, fails, faults>>
Create == /\ pc = "create" /\ children' = children \cup {newf}
          /\ cur' = (IF BugIterLate THEN cur ELSE newf) /\ pc' = "syncfile"
          /\ UNCHANGED <<synced, iter, obsolete, newf, oldf, committed, inflight, maybe, lastfail, moves, crashes, fails, faults>>
(* Create returns an error; `made`: the file exists nevertheless *)
CreateFail(made) == /\ pc = "create" /\ children' = (IF made THEN children \cup {newf} ELSE children)
                    /\ pc' = "reterr" /\ faults' = faults + 1
                    /\ UNCHANGED <<synced, iter, cur, obsolete, newf, oldf, committed, inflight, maybe, lastfail, moves, crashes, fails>>
(* empty file: no data to make durable; on error the file is closed and the error returned *)
SyncFile(ok) == /\ pc = "syncfile" /\ pc' = (IF ok THEN "close" ELSE "closeerr")
                /\ faults' = (IF ok THEN faults ELSE faults + 1)
                /\ UNCHANGED <<children, synced, iter, cur, obsolete, newf, oldf, committed, inflight, maybe, lastfail, moves, crashes, fails>>
CloseAfterErr == /\ pc = "closeerr" /\ pc' = "reterr"
                 /\ UNCHANGED <<children, synced, iter, cur, obsolete, newf, oldf, committed, inflight, maybe, lastfail, moves, crashes, fails, faults>>
CloseFile(ok) == /\ pc = "close"
                 /\ pc' = (IF ~ok THEN "reterr" ELSE IF oldf # None THEN "remove" ELSE "syncdir")
                 /\ cur' = (IF BugIterLate /\ ok THEN newf ELSE cur)
                 /\ iter' = (IF BugIterLate /\ ok THEN newf[1] ELSE iter)
                 /\ faults' = (IF ok THEN faults ELSE faults + 1)
                 /\ UNCHANGED <<children, synced, obsolete, newf, oldf, committed, inflight, maybe, lastfail, moves, crashes, fails>>
RemoveOld(ok) == /\ pc = "remove"
                 /\ (IF ok THEN children' = children \ {oldf} /\ obsolete' = obsolete /\ fails' = fails
                     ELSE children' = children /\ obsolete' = obsolete \cup {oldf} /\ fails' = fails + 1)
                 /\ pc' = "syncdir"
                 /\ UNCHANGED <<synced, iter, cur, newf, oldf, committed, inflight, maybe, lastfail, moves, crashes, faults>>
(* an error of the directory Sync makes Move panic: nothing but a crash follows *)
SyncDir(ok) == /\ pc = "syncdir"
               /\ synced' = (IF BugNoDirSync \/ BugSyncBeforeCreate \/ ~ok THEN synced ELSE children)
               /\ pc' = (IF ok THEN "ret" ELSE "dead")
               /\ faults' = (IF ok THEN faults ELSE faults + 1)
               /\ UNCHANGED <<children, iter, cur, obsolete, newf, oldf, committed, inflight, maybe, lastfail, moves, crashes, fails>>
RetMove == /\ pc = "ret" /\ committed' = inflight /\ inflight' = 0 /\ maybe' = {} /\ lastfail' = 0
           /\ pc' = "idle" /\ newf' = None /\ oldf' = None
           /\ UNCHANGED <<children, synced, iter, cur, obsolete, moves, crashes, fails, faults>>
RetMoveErr == /\ pc = "reterr" /\ maybe' = maybe \cup {inflight} /\ lastfail' = inflight /\ inflight' = 0
              /\ pc' = "idle" /\ newf' = None /\ oldf' = None
              /\ UNCHANGED <<children, synced, iter, cur, obsolete, committed, moves, crashes, fails, faults>>

(* ---- RemoveObsolete: Remove each obsolete file; no sync ---- *)
CallRO == /\ pc = "idle" /\ pc' = "ro"
          /\ UNCHANGED <<children, synced, iter, cur, obsolete, newf, oldf, committed, inflight, maybe, lastfail, moves, crashes, fails, faults>>
RORemove(f, ok) == /\ pc = "ro" /\ f \in obsolete
                   /\ (IF ok THEN children' = children \ {f} /\ obsolete' = obsolete \ {f} /\ pc' = "ro" /\ fails' = fails
                       ELSE children' = children /\ obsolete' = obsolete /\ pc' = "roret" /\ fails' = fails + 1)
                   /\ UNCHANGED <<synced, iter, cur, newf, oldf, committed, inflight, maybe, lastfail, moves, crashes, faults>>
RetRO == /\ pc \in {"ro", "roret"} /\ (pc = "ro" => obsolete = {}) /\ pc' = "idle"
         /\ UNCHANGED <<children, synced, iter, cur, obsolete, newf, oldf, committed, inflight, maybe, lastfail, moves, crashes, fails, faults>>

(* ---- LocateMarker again on the live directory (no crash: nothing becomes durable, nothing is decided) ---- *)
Relocate == /\ pc = "idle" /\ LocateOn(children)
            /\ UNCHANGED <<children, synced, committed, inflight, maybe, lastfail, moves, crashes, fails, faults>>

(* ---- crash at any point, then a new process locates the marker on what survived ---- *)
Crash(st) == /\ st \in CrashStates
             /\ children' = st /\ synced' = st /\ LocateOn(st)
             /\ committed' = LocVal(st) /\ inflight' = 0 /\ maybe' = {} /\ lastfail' = 0 /\ crashes' = crashes + 1
             /\ UNCHANGED <<moves, fails, faults>>

DoMove == moves < MaxMoves /\ (CallMove(moves + 1) \/ (lastfail # 0 /\ CallMove(lastfail)))
DoRemoveOldFail == fails < MaxRemoveFails /\ RemoveOld(FALSE)
DoFault == faults < MaxFaults /\ (CreateFail(TRUE) \/ CreateFail(FALSE) \/ SyncFile(FALSE) \/ CloseFile(FALSE) \/ SyncDir(FALSE))
DoCallRO == obsolete # {} /\ CallRO
DoRORemove == \E f \in obsolete : RORemove(f, TRUE) \/ (fails < MaxRemoveFails /\ RORemove(f, FALSE))
DoCrash == crashes < MaxCrashes /\ \E st \in CrashStates : Crash(st)
MNext == \/ DoMove \/ PreSync \/ Create \/ SyncFile(TRUE) \/ CloseFile(TRUE) \/ CloseAfterErr
         \/ RemoveOld(TRUE) \/ DoRemoveOldFail \/ SyncDir(TRUE) \/ DoFault \/ RetMove \/ RetMoveErr
         \/ DoCallRO \/ DoRORemove \/ RetRO \/ Relocate \/ DoCrash
Spec == MInit /\ [][MNext]_mvars

(* ---- C24 ---- *)
Live == {committed} \cup maybe
Allowed == Live \cup (IF inflight # 0 THEN {inflight} ELSE {})
(* any crash at any step of Move: old or new (or the value of a Move that returned an error since);  *)
(* after Move returned nil: new, in every crash state, whatever the order of the directory listing   *)
Atomic == \A st \in CrashStates : LocVals(st) \subseteq Allowed
(* obsolete files never shadow the newest one (live directory, between calls and during RemoveObsolete) *)
StaleNeverWins == pc \in {"idle", "ro", "roret"} => LocVals(children) \subseteq Live
ObsoleteLower == \A f \in obsolete : cur # None /\ f[1] < cur[1]
(* two marker files never carry the same iteration number (scanForMarker would depend on the listing order) *)
UniqueIter == \A f \in children, g \in children : f[1] = g[1] => f = g
TypeOK == /\ synced \subseteq (children \cup synced) /\ iter >= 0 /\ committed >= 0
Done == moves = MaxMoves /\ pc = "idle" /\ obsolete = {}
=============================================================================
