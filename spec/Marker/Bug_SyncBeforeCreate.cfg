SPECIFICATION Spec
CONSTANTS
  MaxMoves = 3
  MaxCrashes = 2
  MaxRemoveFails = 1
  BugNoDirSync = FALSE
  BugSyncBeforeCreate = TRUE
  BugLowestIterWins = FALSE
INVARIANT Atomic
INVARIANT StaleNeverWins
INVARIANT ObsoleteLower
INVARIANT TypeOK
CHECK_DEADLOCK FALSE
