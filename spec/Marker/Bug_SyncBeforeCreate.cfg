SPECIFICATION Spec
CONSTANTS
  MaxMoves = 3
  MaxCrashes = 2
  MaxRemoveFails = 1
  MaxFaults = 1
  BugNoDirSync = FALSE
  BugSyncBeforeCreate = TRUE
  BugLowestIterWins = FALSE
  BugIterLate = FALSE
INVARIANT Atomic
INVARIANT StaleNeverWins
INVARIANT ObsoleteLower
INVARIANT UniqueIter
INVARIANT TypeOK
CHECK_DEADLOCK FALSE
