----------------------------- MODULE MarkerTrace -----------------------------
(* Trace validation of real atomicfs.Marker executions over a crashable MemFS      *)
(* (driver: vfs/atomicfs/zz_verif_proto_marker_test.go) against Marker.tla.         *)
(*                                                                                  *)
(* Strict = TRUE : every logged filesystem operation (successful or with an injected*)
(*   error) must be the next step of the Marker protocol (internal vocabulary), the *)
(*   real MemFS's unsynced entries must equal the model's children \ synced, every  *)
(*   directory listing must equal the model's, and every ReadMarker on a crash      *)
(*   clone must equal the model's Locate on synced \cup keep.                       *)
(* Strict = FALSE: only the property's own vocabulary is asserted - ReadMarker on   *)
(*   every crash clone (op index n, survival subset keep) returns the value of the  *)
(*   last Move that returned nil, of a Move that returned an error since, or of the *)
(*   Move in progress, and so would a scan of the clone's directory in ANY listing  *)
(*   order (the listing is logged); between calls the live directory reads the last *)
(*   acknowledged value (or that of a Move that failed since), again for any        *)
(*   listing order.  Filesystem events are skipped.                                 *)
(* A rejection under Strict that Strict = FALSE accepts is drift, not a violation.  *)
EXTENDS Marker, Json

CONSTANTS Strict

Trace == ndJsonDeserialize("trace.ndjson")

VARIABLES l
vars == <<l, children, synced, iter, cur, obsolete, pc, newf, oldf, committed, inflight, maybe, lastfail, moves, crashes, fails, faults>>

Ev == Trace[l]
Is(o) == l <= Len(Trace) /\ Trace[l].op = o /\ l' = l + 1
FileSet(s) == {<<s[i][1], s[i][2]>> : i \in 1..Len(s)}
Keep == <<children, synced, iter, cur, obsolete, pc, newf, oldf, moves, crashes, fails, faults>>

TraceInit == l = 1 /\ MInit /\ TLCSet(1, 0)

(* a fresh process locates the marker on a directory holding exactly `files` (all durable) *)
Start == /\ Is("start")
         /\ children' = FileSet(Ev.files) /\ synced' = FileSet(Ev.files) /\ LocateOn(FileSet(Ev.files))
         /\ Ev.val \in LocVals(FileSet(Ev.files))
         /\ (Strict => Ev.val = LocVal(FileSet(Ev.files)))
         /\ committed' = Ev.val /\ inflight' = 0 /\ maybe' = {} /\ lastfail' = 0
         /\ moves' = 0 /\ crashes' = 0 /\ fails' = 0 /\ faults' = 0

Call == /\ Is("call")
        /\ (IF Strict
            THEN ((Ev.what = "move" /\ CallMove(Ev.v)) \/ (Ev.what = "removeobsolete" /\ CallRO))
            ELSE (/\ inflight' = (IF Ev.what = "move" THEN Ev.v ELSE inflight)
                  /\ UNCHANGED <<committed, maybe, lastfail>> /\ UNCHANGED Keep))

Fs == /\ Is("fs")
      /\ (IF Strict
          THEN \/ (Ev.kind = "create" /\ newf = <<Ev.it, Ev.v>> /\ Ev.ok /\ Create)
               \/ (Ev.kind = "create" /\ newf = <<Ev.it, Ev.v>> /\ ~Ev.ok /\ CreateFail(Ev.made))
               \/ (Ev.kind = "syncfile" /\ SyncFile(Ev.ok))
               \/ (Ev.kind = "close" /\ pc = "close" /\ CloseFile(Ev.ok))
               \/ (Ev.kind = "close" /\ pc = "closeerr" /\ CloseAfterErr)
               \/ (Ev.kind = "remove" /\ pc = "remove" /\ oldf = <<Ev.it, Ev.v>> /\ RemoveOld(Ev.ok))
               \/ (Ev.kind = "remove" /\ pc = "ro" /\ RORemove(<<Ev.it, Ev.v>>, Ev.ok))
               \/ (Ev.kind = "syncdir" /\ SyncDir(Ev.ok))
          ELSE UNCHANGED mvars)

(* Move returned nil / an error / panicked (directory Sync error: the marker is dead, only crash clones follow) *)
Ret == /\ Is("ret")
       /\ (IF Strict
           THEN \/ (Ev.what = "move" /\ Ev.ok /\ ~Ev.panic /\ RetMove)
                \/ (Ev.what = "move" /\ ~Ev.ok /\ ~Ev.panic /\ RetMoveErr)
                \/ (Ev.what = "move" /\ ~Ev.ok /\ Ev.panic /\ pc = "dead" /\ UNCHANGED mvars)
                \/ (Ev.what = "removeobsolete" /\ ~Ev.panic /\ RetRO /\ (Ev.ok <=> pc = "ro"))
           ELSE IF Ev.what = "move" /\ Ev.ok
                THEN (committed' = inflight /\ inflight' = 0 /\ maybe' = {} /\ lastfail' = 0 /\ UNCHANGED Keep)
                ELSE IF Ev.what = "move" /\ ~Ev.panic
                THEN (maybe' = maybe \cup {inflight} /\ lastfail' = inflight /\ inflight' = 0 /\ committed' = committed /\ UNCHANGED Keep)
                ELSE UNCHANGED mvars)

(* LocateMarker again on the live directory, between calls *)
Reloc == /\ Is("relocate")
         /\ Ev.val \in Live /\ LocVals(FileSet(Ev.files)) \subseteq Live          \* C24
         /\ (IF Strict
             THEN (FileSet(Ev.files) = children /\ Ev.val = LocVal(children) /\ Relocate)
             ELSE UNCHANGED mvars)

(* crash clone taken after filesystem op n with exactly `keep` of the unsynced entries surviving; ReadMarker = res *)
CrashRead == /\ Is("crashread")
             /\ Ev.res \in Allowed                                            \* C24
             /\ LocVals(FileSet(Ev.files)) \subseteq Allowed                  \* C24, for any listing order
             /\ (Strict => /\ FileSet(Ev.unsynced) = children \ synced      \* MemFS crash model = CrashFS
                           /\ FileSet(Ev.keep) \subseteq children \ synced
                           /\ FileSet(Ev.files) = synced \cup FileSet(Ev.keep)
                           /\ Ev.res = LocVal(synced \cup FileSet(Ev.keep)))
             /\ UNCHANGED mvars
(* ReadMarker on the live filesystem between calls *)
LiveRead == /\ Is("liveread") /\ Ev.res \in Live /\ LocVals(FileSet(Ev.files)) \subseteq Live
            /\ (Strict => (pc = "idle" /\ FileSet(Ev.files) = children /\ Ev.res = LocVal(children)))
            /\ UNCHANGED mvars

TraceNext == Start \/ Call \/ Fs \/ Ret \/ Reloc \/ CrashRead \/ LiveRead
TraceSpec == TraceInit /\ [][TraceNext]_vars

HWM == IF l - 1 > TLCGet(1) THEN TLCSet(1, l - 1) ELSE TRUE
TraceAccepted == PrintT(<<"HWM", TLCGet(1)>>) /\ TLCGet(1) = Len(Trace)
=============================================================================
