----------------------------- MODULE MarkerTrace -----------------------------
(* Trace validation of real atomicfs.Marker executions over a crashable MemFS      *)
(* (driver: vfs/atomicfs/zz_verif_proto_marker_test.go) against Marker.tla.         *)
(*                                                                                  *)
(* Strict = TRUE : every logged filesystem operation must be the next step of the   *)
(*   Marker protocol (internal vocabulary), the real MemFS's unsynced entries must  *)
(*   equal the model's children \ synced, and every ReadMarker on a crash clone must*)
(*   equal the model's Locate on synced \cup keep.                                  *)
(* Strict = FALSE: only the property's own vocabulary is asserted - ReadMarker on   *)
(*   every crash clone (op index n, survival subset keep) returns the value of the  *)
(*   last returned Move or of the Move in progress; between calls the live          *)
(*   directory reads the last returned value.  Filesystem events are skipped.       *)
(* A rejection under Strict that Strict = FALSE accepts is drift, not a violation.  *)
EXTENDS Marker, Json

CONSTANTS Strict

Trace == ndJsonDeserialize("trace.ndjson")

VARIABLES l
vars == <<l, children, synced, iter, cur, obsolete, pc, newf, oldf, committed, inflight, moves, crashes, fails>>

Ev == Trace[l]
Is(o) == l <= Len(Trace) /\ Trace[l].op = o /\ l' = l + 1
FileSet(s) == {<<s[i][1], s[i][2]>> : i \in 1..Len(s)}
Keep == <<children, synced, iter, cur, obsolete, pc, newf, oldf, moves, crashes, fails>>

TraceInit == l = 1 /\ MInit /\ TLCSet(1, 0)

(* a fresh process locates the marker on a directory holding exactly `files` (all durable) *)
Start == /\ Is("start")
         /\ children' = FileSet(Ev.files) /\ synced' = FileSet(Ev.files) /\ LocateOn(FileSet(Ev.files))
         /\ (Strict => Ev.val = LocVal(FileSet(Ev.files)))
         /\ committed' = Ev.val /\ inflight' = 0 /\ moves' = 0 /\ crashes' = 0 /\ fails' = 0

Call == /\ Is("call")
        /\ (IF Strict
            THEN ((Ev.what = "move" /\ CallMove(Ev.v)) \/ (Ev.what = "removeobsolete" /\ CallRO))
            ELSE (inflight' = (IF Ev.what = "move" THEN Ev.v ELSE inflight) /\ committed' = committed /\ UNCHANGED Keep))

Fs == /\ Is("fs")
      /\ (IF Strict
          THEN \/ (Ev.kind = "create" /\ newf = <<Ev.it, Ev.v>> /\ Create)
               \/ (Ev.kind = "syncfile" /\ SyncFile)
               \/ (Ev.kind = "close" /\ CloseFile)
               \/ (Ev.kind = "remove" /\ pc = "remove" /\ oldf = <<Ev.it, Ev.v>> /\ RemoveOld(Ev.ok))
               \/ (Ev.kind = "remove" /\ pc = "ro" /\ RORemove(<<Ev.it, Ev.v>>, Ev.ok))
               \/ (Ev.kind = "syncdir" /\ SyncDir)
          ELSE UNCHANGED mvars)

Ret == /\ Is("ret")
       /\ (IF Strict
           THEN ((Ev.what = "move" /\ Ev.ok /\ RetMove) \/ (Ev.what = "removeobsolete" /\ RetRO /\ (Ev.ok <=> pc = "ro")))
           ELSE ( /\ committed' = (IF Ev.what = "move" /\ Ev.ok THEN inflight ELSE committed)
                  /\ inflight' = (IF Ev.what = "move" /\ Ev.ok THEN 0 ELSE inflight)
                  /\ UNCHANGED Keep))

(* crash clone taken after filesystem op n with exactly `keep` of the unsynced entries surviving; ReadMarker = res *)
CrashRead == /\ Is("crashread")
             /\ Ev.res \in Allowed                                            \* C24
             /\ (Strict => /\ FileSet(Ev.unsynced) = children \ synced      \* MemFS crash model = CrashFS
                           /\ FileSet(Ev.keep) \subseteq children \ synced
                           /\ Ev.res = LocVal(synced \cup FileSet(Ev.keep)))
             /\ UNCHANGED mvars
(* ReadMarker on the live filesystem between calls *)
LiveRead == /\ Is("liveread") /\ Ev.res = committed
            /\ (Strict => (pc = "idle" /\ Ev.res = LocVal(children)))
            /\ UNCHANGED mvars

TraceNext == Start \/ Call \/ Fs \/ Ret \/ CrashRead \/ LiveRead
TraceSpec == TraceInit /\ [][TraceNext]_vars

HWM == IF l - 1 > TLCGet(1) THEN TLCSet(1, l - 1) ELSE TRUE
TraceAccepted == PrintT(<<"HWM", TLCGet(1)>>) /\ TLCGet(1) = Len(Trace)
=============================================================================
