SPECIFICATION Spec
CONSTANTS
  Threads = {"t1","t2"}
  Roles <- RolesPL
  NCommits = 1
  Q = 3
  K = 2
  MemCap = 1
  Readers = {"r1"}
  Bug = "FbBeforeSeq"
  Elide = "published"
INVARIANT NoFuture
INVARIANT PublishedImpliesApplied
CHECK_DEADLOCK TRUE
