------------------------------- MODULE Locks -------------------------------
(* Lock protocol of the DB's concurrent entry points (design-level part of   *)
(* C42): who takes which lock in which order, and who waits on which          *)
(* condition while holding what.  TLC's deadlock check decides whether any    *)
(* reachable state has every unfinished operation blocked.                    *)
(*   locks: commitPipeline.mu ("cmu"), DB.mu ("dmu"), the versionSet manifest *)
(*          log lock ("log": logLock/logUnlock, a flag + condition variable   *)
(*          under DB.mu), DB.readState RWMutex ("rs")                         *)
(*   waits: makeRoomForWrite -> maybeInduceWriteStall: d.mu.compact.cond.Wait *)
(*            until the flushable queue is below MemTableStopWritesThreshold  *)
(*          Flush(): <-flushed of the rotated memtable                        *)
(*          ingest: <-mem.flushed of an overlapping memtable, inside          *)
(*            AllocateSeqNum's apply (commit.mu already released), while later *)
(*            commits wait in publish for the ingest's sequence number         *)
(*          logLock: cond.Wait (releases DB.mu) while another edit is applied *)
(* The background flush is one looping job (d.mu.compact.flushing allows one   *)
(* flush at a time).                                                          *)
(* Operation scripts (db.go, ingest.go, compaction.go, version_set.go,        *)
(* read_state.go); a script is a sequence of atomic steps:                    *)
(*   <<"acq", L>>  block until lock L is free, take it                        *)
(*   <<"rel", L>>                                                             *)
(*   <<"stall">>   holding dmu (and cmu): if Len(queue) >= Stop then          *)
(*                 cond.Wait = release dmu, sleep until a flush finished,     *)
(*                 re-acquire dmu; else continue                              *)
(*   <<"rotate">>  append a memtable to the flushable queue (dmu+cmu held)    *)
(*   <<"waitflushed">>  block until the memtable rotated by this op is flushed*)
(*   <<"loglock">> / <<"logunlock">>  versionSet.logLock/logUnlock under dmu  *)
(*   <<"pub">>     commit publish: wait until every earlier sequenced op has  *)
(*                 applied (queue order), then mark self applied              *)
(*   <<"seqd">>    sequence number assigned (enqueue in the commit queue)     *)
(*   <<"applied">> mark self applied without waiting (AllocateSeqNum's publish*)
(*                 is the same loop; its own apply is what others wait for)   *)
EXTENDS Integers, Sequences, FiniteSets, TLC

CONSTANTS Ops,        \* operation ids
          Kind,       \* Ops -> script name      (cfg: Kind <- KindDef)
          Stop,       \* MemTableStopWritesThreshold (flushable queue length that stalls writers)
          Bug         \* "none" | "StallHoldsDmu" (write stall spins without cond.Wait releasing DB.mu)
                      \*        | "IngestWaitsUnderDmu" (ingest waits for the memtable flush with DB.mu held)

Locks == {"cmu", "dmu", "rs"}

\* ---- scripts ----
\* Commit of a batch that needs a memtable rotation (commitWrite slow path)
SCommitRotate == << <<"acq","cmu">>, <<"seqd">>, <<"acq","dmu">>, <<"stall">>, <<"rotate">>,
                    <<"acq","rs">>, <<"rel","rs">>,          \* updateReadStateLocked
                    <<"rel","dmu">>, <<"rel","cmu">>, <<"pub">> >>
\* Commit that fits into the mutable memtable
SCommit == << <<"acq","cmu">>, <<"seqd">>, <<"rel","cmu">>, <<"pub">> >>
\* newIter / getInternal: loadReadState
SRead == << <<"acq","rs">>, <<"rel","rs">> >>
\* DB.Flush: AsyncFlush under cmu+dmu, then wait for the flushed channel without locks
SFlushAPI == << <<"acq","cmu">>, <<"acq","dmu">>, <<"stall">>, <<"rotate">>, <<"acq","rs">>, <<"rel","rs">>,
                <<"rel","dmu">>, <<"rel","cmu">>, <<"waitflushed">> >>
\* Ingest overlapping the mutable memtable, not flushable-ingest: prepare (cmu held by AllocateSeqNum)
\* rotates under dmu; apply waits for the flush with no lock held, then logLock + version edit; then publish
SIngest == << <<"acq","cmu">>, <<"seqd">>, <<"acq","dmu">>, <<"stall">>, <<"rotate">>, <<"acq","rs">>, <<"rel","rs">>,
              <<"rel","dmu">>, <<"rel","cmu">>,
              <<"ingestwait">>,
              <<"acq","dmu">>, <<"loglock">>, <<"rel","dmu">>,     \* manifest write without DB.mu
              <<"acq","dmu">>, <<"acq","rs">>, <<"rel","rs">>, <<"logunlock">>, <<"rel","dmu">>,
              <<"applied">> >>
\* background flush job (one per rotated memtable; enabled while the queue has an immutable entry)
SFlushJob == << <<"acq","dmu">>, <<"pickflush">>, <<"rel","dmu">>,      \* write the sstable without DB.mu
                <<"acq","dmu">>, <<"loglock">>, <<"rel","dmu">>,
                <<"acq","dmu">>, <<"flushdone">>, <<"acq","rs">>, <<"rel","rs">>, <<"logunlock">>, <<"rel","dmu">> >>
\* the seeded variants
SIngestUnderDmu == << <<"acq","cmu">>, <<"seqd">>, <<"acq","dmu">>, <<"stall">>, <<"rotate">>, <<"acq","rs">>, <<"rel","rs">>,
              <<"ingestwait">>, <<"rel","dmu">>, <<"rel","cmu">>,
              <<"acq","dmu">>, <<"loglock">>, <<"rel","dmu">>,
              <<"acq","dmu">>, <<"acq","rs">>, <<"rel","rs">>, <<"logunlock">>, <<"rel","dmu">>, <<"applied">> >>

Script(o) == CASE Kind[o] = "commit" -> SCommit
               [] Kind[o] = "commitrot" -> SCommitRotate
               [] Kind[o] = "read" -> SRead
               [] Kind[o] = "flushapi" -> SFlushAPI
               [] Kind[o] = "ingest" -> (IF Bug = "IngestWaitsUnderDmu" THEN SIngestUnderDmu ELSE SIngest)
               [] Kind[o] = "flushjob" -> SFlushJob

VARIABLES ip,        \* Ops -> index of the next step (Len+1 = finished)
          holder,    \* Locks -> op or "free"
          logBusy,   \* manifest log lock flag
          qlen,      \* immutable entries in the flushable queue
          rotated,   \* Ops -> number of the immutable entry this op created (0 = none)
          made,      \* immutable entries created so far
          flushedN,  \* immutable entries flushed so far (they flush in order)
          picked,    \* Ops -> entry a flush job is working on
          seqOrder,  \* ops in sequence-number order (commit queue)
          appl       \* ops that marked themselves applied
vars == <<ip, holder, logBusy, qlen, rotated, made, flushedN, picked, seqOrder, appl>>

Init == /\ ip = [o \in Ops |-> 1] /\ holder = [l \in Locks |-> "free"] /\ logBusy = FALSE
        /\ qlen = 0 /\ rotated = [o \in Ops |-> 0] /\ made = 0 /\ flushedN = 0
        /\ picked = [o \in Ops |-> 0] /\ seqOrder = <<>> /\ appl = {}

Cur(o) == Script(o)[ip[o]]
Adv(o) == ip' = [ip EXCEPT ![o] = @ + 1]
Holds(o, l) == holder[l] = o

EarlierApplied(o) == \A i \in 1..Len(seqOrder) :
                        (\E j \in 1..Len(seqOrder) : seqOrder[j] = o /\ i < j) => seqOrder[i] \in appl

Step(o) ==
  /\ ip[o] <= Len(Script(o))
  /\ LET s == Cur(o) IN
     \/ /\ s[1] = "acq" /\ holder[s[2]] = "free"
        /\ holder' = [holder EXCEPT ![s[2]] = o] /\ Adv(o)
        /\ UNCHANGED <<logBusy, qlen, rotated, made, flushedN, picked, seqOrder, appl>>
     \/ /\ s[1] = "rel" /\ Holds(o, s[2])
        /\ holder' = [holder EXCEPT ![s[2]] = "free"]
        /\ (IF Kind[o] = "flushjob" /\ ip[o] = Len(Script(o)) THEN ip' = [ip EXCEPT ![o] = 1] ELSE Adv(o))   \* the flush job loops
        /\ UNCHANGED <<logBusy, qlen, rotated, made, flushedN, picked, seqOrder, appl>>
     \* maybeInduceWriteStall: cond.Wait releases DB.mu while asleep; modelled as: proceed only when not
     \* stalled, and while stalled DB.mu is given up (step "stall-sleep") and re-taken later
     \/ /\ s[1] = "stall" /\ Holds(o, "dmu") /\ qlen < Stop /\ Adv(o)
        /\ UNCHANGED <<holder, logBusy, qlen, rotated, made, flushedN, picked, seqOrder, appl>>
     \/ /\ s[1] = "stall" /\ Holds(o, "dmu") /\ qlen >= Stop /\ Bug # "StallHoldsDmu"   \* cond.Wait: unlock
        /\ holder' = [holder EXCEPT !["dmu"] = "free"]
        /\ UNCHANGED <<ip, logBusy, qlen, rotated, made, flushedN, picked, seqOrder, appl>>
     \/ /\ s[1] = "stall" /\ ~Holds(o, "dmu") /\ holder["dmu"] = "free" /\ qlen < Stop   \* woken: relock
        /\ holder' = [holder EXCEPT !["dmu"] = o]
        /\ UNCHANGED <<ip, logBusy, qlen, rotated, made, flushedN, picked, seqOrder, appl>>
     \/ /\ s[1] = "rotate" /\ Holds(o, "dmu") /\ Holds(o, "cmu")
        /\ qlen' = qlen + 1 /\ made' = made + 1 /\ rotated' = [rotated EXCEPT ![o] = made + 1] /\ Adv(o)
        /\ UNCHANGED <<holder, logBusy, flushedN, picked, seqOrder, appl>>
     \/ /\ s[1] \in {"waitflushed", "ingestwait"} /\ flushedN >= rotated[o] /\ Adv(o)
        /\ UNCHANGED <<holder, logBusy, qlen, rotated, made, flushedN, picked, seqOrder, appl>>
     \* logLock: while busy, cond.Wait (DB.mu released and re-acquired) -- same pattern as stall
     \/ /\ s[1] = "loglock" /\ Holds(o, "dmu") /\ ~logBusy /\ logBusy' = TRUE /\ Adv(o)
        /\ UNCHANGED <<holder, qlen, rotated, made, flushedN, picked, seqOrder, appl>>
     \/ /\ s[1] = "loglock" /\ Holds(o, "dmu") /\ logBusy
        /\ holder' = [holder EXCEPT !["dmu"] = "free"]
        /\ UNCHANGED <<ip, logBusy, qlen, rotated, made, flushedN, picked, seqOrder, appl>>
     \/ /\ s[1] = "loglock" /\ ~Holds(o, "dmu") /\ holder["dmu"] = "free" /\ ~logBusy
        /\ holder' = [holder EXCEPT !["dmu"] = o]
        /\ UNCHANGED <<ip, logBusy, qlen, rotated, made, flushedN, picked, seqOrder, appl>>
     \/ /\ s[1] = "logunlock" /\ Holds(o, "dmu") /\ logBusy' = FALSE /\ Adv(o)
        /\ UNCHANGED <<holder, qlen, rotated, made, flushedN, picked, seqOrder, appl>>
     \* a flush job takes the oldest unflushed immutable entry; with none it ends immediately
     \/ /\ s[1] = "pickflush" /\ Holds(o, "dmu")
        /\ (IF flushedN < made /\ \A p \in Ops : picked[p] # flushedN + 1
            THEN picked' = [picked EXCEPT ![o] = flushedN + 1] /\ Adv(o) /\ UNCHANGED holder
            ELSE picked' = picked /\ ip' = [ip EXCEPT ![o] = 1]
                 /\ holder' = [holder EXCEPT !["dmu"] = "free"])
        /\ UNCHANGED <<logBusy, qlen, rotated, made, flushedN, seqOrder, appl>>
     \/ /\ s[1] = "flushdone" /\ Holds(o, "dmu")
        /\ flushedN' = picked[o] /\ qlen' = qlen - 1 /\ Adv(o)
        /\ UNCHANGED <<holder, logBusy, rotated, made, picked, seqOrder, appl>>
     \/ /\ s[1] = "seqd" /\ Holds(o, "cmu") /\ seqOrder' = Append(seqOrder, o) /\ Adv(o)
        /\ UNCHANGED <<holder, logBusy, qlen, rotated, made, flushedN, picked, appl>>
     \/ /\ s[1] = "pub" /\ EarlierApplied(o) /\ appl' = appl \cup {o} /\ Adv(o)
        /\ UNCHANGED <<holder, logBusy, qlen, rotated, made, flushedN, picked, seqOrder>>
     \/ /\ s[1] = "applied" /\ EarlierApplied(o) /\ appl' = appl \cup {o} /\ Adv(o)
        /\ UNCHANGED <<holder, logBusy, qlen, rotated, made, flushedN, picked, seqOrder>>

\* a flush job only starts when there is something to flush (maybeScheduleFlush)
FlushJobGate(o) == Kind[o] = "flushjob" /\ ip[o] = 1 => flushedN < made

AllDone == \A o \in Ops : IF Kind[o] = "flushjob" THEN ip[o] = 1 /\ flushedN = made ELSE ip[o] > Len(Script(o))
Terminated == AllDone /\ UNCHANGED vars
Next == (\E o \in Ops : FlushJobGate(o) /\ Step(o)) \/ Terminated
Spec == Init /\ [][Next]_vars
FairSpec == Spec /\ \A o \in Ops : WF_vars(FlushJobGate(o) /\ Step(o))

\* every lock is released at the end; nobody finishes holding one
LocksReleased == AllDone => (\A l \in Locks : holder[l] = "free") /\ ~logBusy
\* lock order: DB.mu is never held while waiting for commitPipeline.mu
NoDmuThenCmu == \A o \in Ops : (ip[o] <= Len(Script(o)) /\ Cur(o) = <<"acq", "cmu">>) => ~Holds(o, "dmu")
Completion == <>AllDone

KindA == [o \in Ops |-> CASE o = "c1" -> "commitrot" [] o = "c2" -> "commit" [] o = "r1" -> "read"
                          [] o = "f1" -> "flushapi" [] o = "i1" -> "ingest" [] OTHER -> "flushjob"]
KindB == [o \in Ops |-> CASE o = "c1" -> "commitrot" [] o = "c2" -> "commitrot" [] o = "i1" -> "ingest"
                          [] o = "r1" -> "read" [] OTHER -> "flushjob"]
=============================================================================
