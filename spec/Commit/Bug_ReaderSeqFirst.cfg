SPECIFICATION Spec
CONSTANTS
  Threads = {"t1"}
  Roles <- RolesLL
  NCommits = 2
  Q = 3
  K = 2
  MemCap = 1
  Readers = {"r1"}
  Bug = "ReaderSeqFirst"
  Elide = "published"
INVARIANT ReadYourWrites
INVARIANT ReadAtomic
CHECK_DEADLOCK TRUE
