SPECIFICATION Spec
CONSTANTS
  Threads = {"t1","t2","t3"}
  Roles <- RolesPLA
  NCommits = 1
  Q = 4
  K = 2
  MemCap = 1
  Readers = {}
  Bug = "none"
  Elide = "published"
INVARIANT SeqContiguous
INVARIANT PublishedImpliesApplied
INVARIANT ReturnedVisible
INVARIANT ReadAtomic
INVARIANT NoFuture
INVARIANT ReadYourWrites
INVARIANT QueueSafe
INVARIANT AllocSeesPrior
INVARIANT FlushedImpliesApplied
PROPERTY VisMonotone
CHECK_DEADLOCK TRUE
