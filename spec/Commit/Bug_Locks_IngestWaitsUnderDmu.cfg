SPECIFICATION Spec
CONSTANTS
  Ops = {"c1", "c2", "r1", "f1", "i1", "j1"}
  Kind <- KindA
  Stop = 2
  Bug = "IngestWaitsUnderDmu"
INVARIANT LocksReleased
INVARIANT NoDmuThenCmu
CHECK_DEADLOCK TRUE
