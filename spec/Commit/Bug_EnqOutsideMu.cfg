SPECIFICATION Spec
CONSTANTS
  Threads = {"t1","t2"}
  Roles <- RolesPP
  NCommits = 1
  Q = 3
  K = 2
  MemCap = 2
  Readers = {}
  Bug = "EnqOutsideMu"
  Elide = "published"
INVARIANT QueueSafe
INVARIANT SeqContiguous
CHECK_DEADLOCK TRUE
