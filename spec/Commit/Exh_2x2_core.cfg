SPECIFICATION Spec
CONSTANTS
  Threads = {"t1","t2"}
  Roles <- RolesPP
  NCommits = 2
  Q = 3
  K = 2
  MemCap = 2
  Readers = {}
  Bug = "none"
  Elide = "published"
INVARIANT SeqContiguous
INVARIANT PublishedImpliesApplied
INVARIANT ReturnedVisible
INVARIANT ReadAtomic
INVARIANT NoFuture
INVARIANT ReadYourWrites
INVARIANT QueueSafe
INVARIANT AllocSeesPrior
INVARIANT FlushedImpliesApplied
PROPERTY VisMonotone
CHECK_DEADLOCK TRUE
