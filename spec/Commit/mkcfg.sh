cd /verif/spec/Commit
mk() { 
cat > $1.cfg <<EOF
SPECIFICATION Spec
CONSTANTS
  Threads = $2
  Roles <- $3
  NCommits = $4
  Q = $5
  K = $6
  MemCap = $7
  Readers = $8
  Bug = "$9"
  Elide = "${11:-published}"
${10}
CHECK_DEADLOCK TRUE
EOF
}
ALL=$'INVARIANT SeqContiguous\nINVARIANT PublishedImpliesApplied\nINVARIANT ReturnedVisible\nINVARIANT ReadAtomic\nINVARIANT NoFuture\nINVARIANT ReadYourWrites\nINVARIANT QueueSafe\nINVARIANT AllocSeesPrior\nINVARIANT FlushedImpliesApplied\nPROPERTY VisMonotone'
mk Exh_2x2_core   '{"t1","t2"}' RolesPP 2 3 2 2 '{}' none "$ALL"
mk Exh_PL_reader  '{"t1","t2"}' RolesPL 1 3 2 1 '{"r1"}' none "$ALL"
mk Exh_PA_reader  '{"t1","t2"}' RolesPA 1 3 2 1 '{"r1"}' none "$ALL"
mk Exh_PP_reader  '{"t1","t2"}' RolesPP 1 3 2 1 '{"r1"}' none "$ALL"
mk Exh_PLA        '{"t1","t2","t3"}' RolesPLA 1 4 2 1 '{}' none "$ALL"
mk Exh_L2_reader  '{"t1"}' RolesLL 2 3 2 1 '{"r1"}' none "$ALL"
mk Thor_2x2_reader '{"t1","t2"}' RolesPP 2 3 2 1 '{"r1"}' none "$ALL"
mk Thor_PLA_reader '{"t1","t2","t3"}' RolesPLA 1 4 2 1 '{"r1"}' none "$ALL"
mk Thor_PPP       '{"t1","t2","t3"}' RolesPP 1 4 2 2 '{}' none "$ALL"
mk Thor_PL2_reader '{"t1","t2"}' RolesPL 2 3 2 1 '{"r1"}' none "$ALL"
mk Bug_PublishEarly     '{"t1","t2"}' RolesPP 1 3 2 1 '{"r1"}' PublishEarly $'INVARIANT PublishedImpliesApplied\nINVARIANT ReadAtomic'
mk Bug_DequeueUnapplied '{"t1","t2"}' RolesPP 1 3 2 1 '{"r1"}' DequeueUnapplied $'INVARIANT PublishedImpliesApplied\nINVARIANT ReadAtomic'
mk Bug_StoreNotCAS      '{"t1","t2"}' RolesPP 1 3 2 2 '{}' StoreNotCAS $'PROPERTY VisMonotone\nINVARIANT ReturnedVisible'
mk Bug_EnqOutsideMu     '{"t1","t2"}' RolesPP 1 3 2 2 '{}' EnqOutsideMu $'INVARIANT QueueSafe\nINVARIANT SeqContiguous'
mk Bug_FbBeforeSeq      '{"t1","t2"}' RolesPL 1 3 2 1 '{"r1"}' FbBeforeSeq $'INVARIANT NoFuture\nINVARIANT PublishedImpliesApplied'
mk Bug_ReaderSeqFirst   '{"t1"}' RolesLL 2 3 2 1 '{"r1"}' ReaderSeqFirst $'INVARIANT ReadYourWrites\nINVARIANT ReadAtomic'
mk Bug_FlushIgnoresRefs '{"t1","t2"}' RolesPP 1 3 2 1 '{}' FlushIgnoresRefs $'INVARIANT FlushedImpliesApplied'
mk Bug_AllocNoWait      '{"t1","t2"}' RolesPA 1 3 2 1 '{}' AllocNoWait $'INVARIANT AllocSeesPrior'
cat > Live_PP.cfg <<'EOF'
SPECIFICATION FairSpec
CONSTANTS
  Threads = {"t1","t2"}
  Roles <- RolesPP
  NCommits = 1
  Q = 3
  K = 2
  MemCap = 1
  Readers = {"r1"}
  Bug = "none"
  Elide = "published"
PROPERTY Termination
CHECK_DEADLOCK TRUE
EOF
mk Lead_ElideUnpublished '{"t1"}' RolesLL 2 3 2 1 '{"r1"}' none $'INVARIANT ReadYourWrites' any
