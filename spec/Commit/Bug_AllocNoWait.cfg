SPECIFICATION Spec
CONSTANTS
  Threads = {"t1","t2"}
  Roles <- RolesPA
  NCommits = 1
  Q = 3
  K = 2
  MemCap = 1
  Readers = {}
  Bug = "AllocNoWait"
  Elide = "published"
INVARIANT AllocSeesPrior
CHECK_DEADLOCK TRUE
