---------------------------- MODULE CommitTrace ----------------------------
(* Trace validation (binding mode B) of the real commit pipeline against the *)
(* observable clauses of Commit.tla.  A trace is produced by the in-package  *)
(* stress driver harness/overlay/zz_verif_commit_stress_test.go: N committers *)
(* write batches that overwrite all K keys of one key group with one token    *)
(* (small, memtable-filling and large/flushable batches; ingests as           *)
(* AllocateSeqNum users), M readers scan / Get / read through snapshots.      *)
(* Happened-before facts come from one global atomic counter ("clock")        *)
(* incremented right before a commit starts, right after it returns and       *)
(* right before a reader is created; never from wall-clock time.              *)
(*                                                                            *)
(* Trace layout per DB lifetime: open; all commits sorted by sequence number; *)
(* the WAL records in append order; visibleSeqNum samples; the reads; reset.  *)
(*                                                                            *)
(* Correspondence with Commit.tla:                                            *)
(*   commit events  ~ AssignSeq (order/seq)  -> SeqContiguous       "seq"     *)
(*   wal events     ~ WriteWAL* (wal)        -> SeqContiguous       "wal"     *)
(*   vis events     ~ visSeq                 -> VisMonotone, ReturnedVisible, *)
(*                                              published values are batch    *)
(*                                              boundaries           "vis"    *)
(*   read events    ~ RLoadState;RLoadSeq;RScan                               *)
(*        -> ReadAtomic "atomic", NoFuture "nofuture", ReadYourWrites "ryw",  *)
(*           PublishedImpliesApplied as seen through a snapshot "snapexact"   *)
(* As in Commit.tla the reader loads the readState BEFORE visibleSeqNum, so    *)
(* neither equality with {b : seq+cnt <= s} nor a seqnum-prefix view is       *)
(* demanded of iterators and Gets; it IS demanded of snapshots, which load    *)
(* the readState after their sequence number was fixed.                       *)
EXTENDS Integers, Sequences, FiniteSets, TLC, Json

CONSTANTS Checked      \* the clauses asserted by this run

Trace == ndJsonDeserialize("trace.ndjson")

VARIABLES l,        \* next trace line
          meta,     \* the open event of the current DB lifetime
          nextSeq,  \* sequence number the next commit must carry
          toks,     \* tokens seen
          allc,     \* all commits so far, in sequence-number order: [seq, end, ret, tok]
          gc,       \* per key group: its commits in sequence-number order
          hist,     \* per key group: hist[g][n+1] = the group's K values after its first n commits
                    \*   (the sequential model: set -> <<tok>>, delete -> <<>>, merge -> old \o <<tok>>)
          walq,     \* commits that must appear in the WAL, in sequence-number order
          wi,       \* next expected index into walq
          visLast,  \* sampler thread -> last sampled visibleSeqNum
          bounds    \* legal values of visibleSeqNum: the initial one and every seq+cnt
vars == <<l, meta, nextSeq, toks, allc, gc, hist, walq, wi, visLast, bounds>>

Chk(c) == c \in Checked
Ev == Trace[l]
Is(o) == l <= Len(Trace) /\ Trace[l].op = o /\ l' = l + 1
NoMeta == [op |-> "none"]

TraceInit == /\ l = 1 /\ meta = NoMeta /\ nextSeq = 0 /\ toks = {} /\ allc = <<>> /\ gc = <<>> /\ hist = <<>>
             /\ walq = <<>> /\ wi = 1 /\ visLast = <<>> /\ bounds = {} /\ TLCSet(1, 0)

Groups == 0..(meta.G - 1)
EmptyGroup == [j \in 1..meta.K |-> <<>>]

Open == /\ Is("open") /\ meta = NoMeta
        /\ meta' = Ev /\ nextSeq' = Ev.logseq
        /\ Ev.vis = Ev.logseq
        /\ toks' = {} /\ allc' = <<>>
        /\ gc' = [g \in 0..(Ev.G - 1) |-> <<>>]
        /\ hist' = [g \in 0..(Ev.G - 1) |-> <<[j \in 1..Ev.K |-> <<>>]>>]
        /\ walq' = <<>> /\ wi' = 1 /\ visLast' = <<>> /\ bounds' = {Ev.vis}

\* end of a DB lifetime; every WAL-bound commit must have been seen in the WAL
Reset == /\ Is("reset") /\ meta # NoMeta
         /\ (Chk("wal") => wi = Len(walq) + 1)
         /\ meta' = NoMeta /\ nextSeq' = 0 /\ toks' = {} /\ allc' = <<>> /\ gc' = <<>> /\ hist' = <<>>
         /\ walq' = <<>> /\ wi' = 1 /\ visLast' = <<>> /\ bounds' = {}

(* ---- commits, in sequence-number order (Batch.SeqNum(), Batch.Count()) ---- *)
ApplyOps(st, ops, tok) ==
  [j \in 1..meta.K |-> IF ops[j] = 1 THEN <<tok>> ELSE IF ops[j] = 2 THEN <<>> ELSE Append(st[j], tok)]
InWal(kind) == kind \in {"plain", "large", "ingestf"}

Commit ==
  /\ Is("commit") /\ meta # NoMeta
  /\ Ev.tok \notin toks /\ Ev.grp \in Groups /\ Len(Ev.ops) = meta.K /\ Ev.cnt >= 1
  /\ Ev.start < Ev.ret
  \* C07: unique, contiguous sequence-number ranges
  /\ (Chk("seq") => Ev.seq = nextSeq)
  /\ (Chk("seq") => (Ev.kind \in {"plain", "large"} => Ev.cnt = meta.K))
  /\ nextSeq' = Ev.seq + Ev.cnt
  /\ toks' = toks \cup {Ev.tok}
  /\ LET c == [seq |-> Ev.seq, end |-> Ev.seq + Ev.cnt, ret |-> Ev.ret, tok |-> Ev.tok] IN
       /\ allc' = Append(allc, c)
       /\ gc' = [gc EXCEPT ![Ev.grp] = Append(@, c)]
       /\ walq' = IF InWal(Ev.kind) THEN Append(walq, [seq |-> Ev.seq, cnt |-> Ev.cnt]) ELSE walq
  /\ hist' = [hist EXCEPT ![Ev.grp] = Append(@, ApplyOps(@[Len(@)], Ev.ops, Ev.tok))]
  /\ bounds' = bounds \cup {Ev.seq + Ev.cnt}
  /\ UNCHANGED <<meta, wi, visLast>>

(* ---- WAL records in append order: must be exactly the WAL-bound commits in seqnum order ---- *)
Wal == /\ Is("wal") /\ meta # NoMeta
       /\ (Chk("wal") => (wi <= Len(walq) /\ walq[wi].seq = Ev.seq /\ walq[wi].cnt = Ev.cnt))
       /\ wi' = wi + 1
       /\ UNCHANGED <<meta, nextSeq, toks, allc, gc, hist, walq, visLast, bounds>>

(* ---- samples of visibleSeqNum ---- *)
ReturnedBefore(clock) == {i \in 1..Len(allc) : allc[i].ret < clock}
Vis == /\ Is("vis") /\ meta # NoMeta
       /\ (Chk("vis") =>
             \* monotone per sampling thread
             /\ (Ev.thr \in DOMAIN visLast => visLast[Ev.thr] <= Ev.v)
             \* only ever a batch boundary
             /\ Ev.v \in bounds
             \* covers every batch whose Commit had returned
             /\ \A i \in ReturnedBefore(Ev.begin) : allc[i].end <= Ev.v)
       /\ visLast' = [t \in DOMAIN visLast \cup {Ev.thr} |-> IF t = Ev.thr THEN Ev.v ELSE visLast[t]]
       /\ UNCHANGED <<meta, nextSeq, toks, allc, gc, hist, walq, wi, bounds>>

(* ---- reads ---- *)
\* number of the group's commits wholly below sequence number s (they are seqnum-ordered)
Below(g, s) == Cardinality({i \in 1..Len(gc[g]) : gc[g][i].end <= s})
\* the latest (in seqnum order) commit of the group that had returned before the reader began
LastReturned(g, clock) == LET R == {i \in 1..Len(gc[g]) : gc[g][i].ret < clock} IN
                          IF R = {} THEN 0 ELSE CHOOSE i \in R : \A j \in R : j <= i
\* the prefixes of the group's history a reader created at clock `begin`, reading at `s`, may observe
Window(g, begin, s, exact) ==
  LET n == Len(gc[g])
      hi == IF Chk("nofuture") THEN Below(g, s) ELSE n
      lo == IF exact /\ Chk("snapexact") THEN hi
            ELSE IF Chk("ryw") THEN LastReturned(g, begin) ELSE 0
  IN lo..hi
\* whole-batch observation: the K values of the group are those after SOME whole number of its commits
GroupOK(g, vals, begin, s, exact) ==
  IF Chk("atomic") THEN \E n \in Window(g, begin, s, exact) : vals = hist[g][n + 1]
  ELSE Window(g, begin, s, exact) # {}

Read ==
  /\ Is("read") /\ meta # NoMeta
  /\ (IF Ev.kind = "get"
      THEN \* one key; Ev.rseq = visibleSeqNum sampled after Get returned (an upper bound of its seqnum)
           \E n \in Window(Ev.grp, Ev.begin, Ev.rseq, FALSE) :
               (Chk("atomic") => Ev.obs[1][1] = hist[Ev.grp][n + 1][Ev.key + 1])
      ELSE \A g \in Groups : GroupOK(g, Ev.obs[g + 1], Ev.begin, Ev.rseq, Ev.kind \in {"snap", "quiesce"}))
  /\ UNCHANGED <<meta, nextSeq, toks, allc, gc, hist, walq, wi, visLast, bounds>>

\* an error, panic or hang reported by the driver is never a behaviour of the spec
TraceNext == Open \/ Reset \/ Commit \/ Wal \/ Vis \/ Read
TraceSpec == TraceInit /\ [][TraceNext]_vars

HWM == IF l - 1 > TLCGet(1) THEN TLCSet(1, l - 1) ELSE TRUE
TraceAccepted == PrintT(<<"HWM", TLCGet(1)>>) /\ TLCGet(1) = Len(Trace)
=============================================================================
