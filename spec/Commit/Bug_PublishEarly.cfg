SPECIFICATION Spec
CONSTANTS
  Threads = {"t1","t2"}
  Roles <- RolesPP
  NCommits = 1
  Q = 3
  K = 2
  MemCap = 1
  Readers = {"r1"}
  Bug = "PublishEarly"
  Elide = "published"
INVARIANT PublishedImpliesApplied
INVARIANT ReadAtomic
CHECK_DEADLOCK TRUE
