SPECIFICATION Spec
CONSTANTS
  Threads = {"t1","t2"}
  Roles <- RolesPP
  NCommits = 2
  Q = 3
  K = 2
  MemCap = 2
  Readers = {}
  Bug = "none"
  Elide = "published"
CHECK_DEADLOCK TRUE
