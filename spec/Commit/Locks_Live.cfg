SPECIFICATION FairSpec
CONSTANTS
  Ops = {"c1", "c2", "r1", "f1", "i1", "j1"}
  Kind <- KindA
  Stop = 1
  Bug = "none"
PROPERTY Completion
CHECK_DEADLOCK TRUE
