SPECIFICATION TraceSpec
CONSTANTS
  Checked = {"seq", "wal", "vis", "atomic", "nofuture", "ryw", "snapexact"}
CONSTRAINT HWM
POSTCONDITION TraceAccepted
CHECK_DEADLOCK FALSE
