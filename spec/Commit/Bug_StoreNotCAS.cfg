SPECIFICATION Spec
CONSTANTS
  Threads = {"t1","t2"}
  Roles <- RolesPP
  NCommits = 1
  Q = 3
  K = 2
  MemCap = 2
  Readers = {}
  Bug = "StoreNotCAS"
  Elide = "published"
PROPERTY VisMonotone
INVARIANT ReturnedVisible
CHECK_DEADLOCK TRUE
