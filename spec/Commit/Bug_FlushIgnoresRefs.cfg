SPECIFICATION Spec
CONSTANTS
  Threads = {"t1","t2"}
  Roles <- RolesPP
  NCommits = 1
  Q = 3
  K = 2
  MemCap = 1
  Readers = {}
  Bug = "FlushIgnoresRefs"
  Elide = "published"
INVARIANT FlushedImpliesApplied
CHECK_DEADLOCK TRUE
