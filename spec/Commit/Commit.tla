------------------------------- MODULE Commit -------------------------------
(* Pebble's commit pipeline, action-per-critical-section.                    *)
(*   commit.go : commitPipeline.Commit / prepare / publish / AllocateSeqNum, *)
(*               commitQueue.enqueue / dequeueApplied                        *)
(*   db.go     : commitWrite (mem.prepare, makeRoomForWrite/rotateMemtable,  *)
(*               large flushable batches), commitApply (mem.apply,           *)
(*               writerUnref), newIter/getInternal (loadReadState THEN       *)
(*               visibleSeqNum.Load), flush (readyForFlush: writerRefs = 0)  *)
(* Properties: C06 (ReadAtomic, PublishedImpliesApplied, NoFuture) and C07   *)
(* (SeqContiguous, VisMonotone, ReturnedVisible, ReadYourWrites, QueueSafe,  *)
(* AllocSeesPrior, FlushedImpliesApplied, deadlock freedom, Termination).    *)
(* A seeded bug is switched on by the constant Bug (see Bug_*.cfg).          *)
EXTENDS Integers, Sequences, FiniteSets, TLC

CONSTANTS Threads,      \* committer ids
          Roles,        \* Threads -> "plain" | "large" | "alloc"   (cfg: Roles <- RolesXYZ)
          NCommits,     \* commits per committer
          Q,            \* ring size (record.SyncConcurrency); semaphore is Q-1
          K,            \* keys (= sequence numbers) per batch
          MemCap,       \* batches a memtable can hold before mem.prepare returns ErrArenaFull
          Readers,      \* reader ids (each performs one read at an arbitrary moment)
          Elide,        \* which shadowed key versions a compaction may drop: "published" = only those shadowed
                        \*   by a PUBLISHED newer version (what the properties need); "any" = what
                        \*   compaction.go does today (it never consults visibleSeqNum) -- see Lead_ElideUnpublished.cfg
          Bug           \* "none" or the name of a seeded bug

Nil == <<>>
Batches == Threads \X (1..NCommits)
Keys == Batches \X (1..K)
SeqStart == 10          \* base.SeqNumStart

VARIABLES
  pc, cur,              \* per committer: program counter, index of the current commit
  mu,                   \* commitPipeline.mu holder ("free" = not held)
  sem,                  \* commitQueueSem occupancy
  head, tail, slots,    \* commitQueue: headTail (unpacked), slots
  eH,                   \* enqueue local: the head loaded at the start of enqueue
  enq,                  \* ghost: batches owned by the queue: from headTail.Add in enqueue to the successful CAS in dequeueApplied
  seq,                  \* Batch.SeqNum() (0 = unassigned)
  fbSeq,                \* flushableBatch.seqNum of a large batch (0 = unset)
  akeys,                \* keys of the batch applied to its memtable so far (mem.apply, one key per step)
  applied,              \* Batch.applied
  wg,                   \* Batch.commit WaitGroup counter
  logSeq, visSeq,       \* commitEnv.logSeqNum / visibleSeqNum
  order,                \* ghost: batches in sequence-number assignment order
  wal,                  \* ghost: batches in WAL append order
  dH, dT, dB,           \* dequeueApplied locals: loaded head, tail, slot value
  pB, pCur,             \* publish locals: batch being published, loaded visibleSeqNum
  returned,             \* batches whose Commit/AllocateSeqNum returned
  queue,                \* d.mu.mem.queue: sequence of [id, lsn, kind, b]; the last "mem" entry is mutable
  nmem,                 \* ghost: memtable id counter
  mcount,               \* batches prepared into the mutable memtable (arena usage)
  memOf,                \* batch -> id of the memtable it was prepared into (0 = none)
  wrefs,                \* memtable id -> writerRefs held by in-flight batches
  version,              \* keys present in the LSM version (flushed or ingested)
  flushedIds,           \* ghost: ids of flushed memtables
  rstate,               \* d.readState.val = [q |-> queue snapshot, v |-> version snapshot]
  allocSaw,             \* ghost: alloc batch -> TRUE iff every earlier batch was applied when prepare ran
  rpc, rRS, rSeq, rObs, rBefore   \* readers

cvars == <<pc, cur, mu, sem, head, tail, slots, eH, enq, seq, fbSeq, akeys, applied, wg, logSeq, visSeq,
           order, wal, dH, dT, dB, pB, pCur, returned>>
mvars == <<queue, nmem, mcount, memOf, wrefs, version, flushedIds, rstate, allocSaw>>
rvars == <<rpc, rRS, rSeq, rObs, rBefore>>
vars == <<cvars, mvars, rvars>>

B(t) == <<t, cur[t]>>
Role(t) == Roles[t]
IsLarge(b) == Roles[b[1]] = "large"
IsAlloc(b) == Roles[b[1]] = "alloc"
MaxMem == 1 + 2 * Cardinality(Batches)

MemEntry(id, lsn) == [id |-> id, lsn |-> lsn, kind |-> "mem", b |-> Nil]
FbEntry(id, lsn, b) == [id |-> id, lsn |-> lsn, kind |-> "fb", b |-> b]

Init ==
  /\ pc = [t \in Threads |-> "idle"] /\ cur = [t \in Threads |-> 1]
  /\ mu = "free" /\ sem = 0 /\ head = 0 /\ tail = 0
  /\ slots = [i \in 0..Q-1 |-> Nil] /\ enq = {} /\ eH = [t \in Threads |-> 0]
  /\ seq = [b \in Batches |-> 0] /\ fbSeq = [b \in Batches |-> 0]
  /\ akeys = [b \in Batches |-> 0]
  /\ applied = [b \in Batches |-> FALSE] /\ wg = [b \in Batches |-> 0]
  /\ logSeq = SeqStart /\ visSeq = SeqStart /\ order = <<>> /\ wal = <<>>
  /\ dH = [t \in Threads |-> 0] /\ dT = [t \in Threads |-> 0]
  /\ dB = [t \in Threads |-> Nil] /\ pB = [t \in Threads |-> Nil]
  /\ pCur = [t \in Threads |-> 0] /\ returned = {}
  /\ queue = <<MemEntry(1, SeqStart)>> /\ nmem = 1 /\ mcount = 0
  /\ memOf = [b \in Batches |-> 0] /\ wrefs = [i \in 1..MaxMem |-> 0]
  /\ version = {} /\ flushedIds = {}
  /\ rstate = [q |-> <<MemEntry(1, SeqStart)>>, v |-> {}]
  /\ allocSaw = [b \in Batches |-> TRUE]
  /\ rpc = [r \in Readers |-> "idle"] /\ rRS = [r \in Readers |-> Nil]
  /\ rSeq = [r \in Readers |-> 0] /\ rObs = [r \in Readers |-> {}]
  /\ rBefore = [r \in Readers |-> {}]

Goto(t, l) == pc' = [pc EXCEPT ![t] = l]

(* ------------------------------------------------------------------------ *)
(* Committers                                                                *)

\* Commit / AllocateSeqNum: p.commitQueueSem <- struct{}{}
AcquireSem(t) ==
  /\ pc[t] = "idle" /\ sem < Q - 1 /\ sem' = sem + 1
  /\ Goto(t, IF Bug = "EnqOutsideMu" THEN "enqStore" ELSE "lock")
  /\ eH' = [eH EXCEPT ![t] = IF Bug = "EnqOutsideMu" THEN head ELSE @]   \* enqueue: ptrs := q.headTail.Load()
  /\ UNCHANGED <<cur, mu, head, tail, slots, enq, seq, fbSeq, akeys, applied, wg, logSeq, visSeq, order, wal,
                 dH, dT, dB, pB, pCur, returned, mvars, rvars>>

\* prepare: b.commit.Add(1); p.mu.Lock()
Lock(t) ==
  /\ pc[t] = "lock" /\ mu = "free" /\ mu' = t
  /\ wg' = [wg EXCEPT ![B(t)] = 1]
  /\ Goto(t, IF Bug = "EnqOutsideMu" THEN "seq" ELSE "enqStore")
  \* enqueue: ptrs := q.headTail.Load() -- only the holder of p.mu moves head, so loading it here is exact
  /\ eH' = [eH EXCEPT ![t] = IF Bug = "EnqOutsideMu" THEN @ ELSE head]
  /\ UNCHANGED <<cur, sem, head, tail, slots, enq, seq, fbSeq, akeys, applied, logSeq, visSeq, order, wal,
                 dH, dT, dB, pB, pCur, returned, mvars, rvars>>

\* enqueue: for slot.Load() != nil { Gosched }; slot.Store(b)   (the spin is the guard)
EnqStore(t) ==
  /\ pc[t] = "enqStore" /\ slots[eH[t] % Q] = Nil
  /\ slots' = [slots EXCEPT ![eH[t] % Q] = B(t)] /\ Goto(t, "enqHead")
  /\ UNCHANGED <<eH, cur, mu, sem, head, tail, enq, seq, fbSeq, akeys, applied, wg, logSeq, visSeq, order, wal,
                 dH, dT, dB, pB, pCur, returned, mvars, rvars>>

\* enqueue: q.headTail.Add(1 << 32)
EnqHead(t) ==
  /\ pc[t] = "enqHead" /\ head' = head + 1 /\ enq' = enq \cup {B(t)}
  /\ Goto(t, IF Bug = "EnqOutsideMu" THEN "lock"
             ELSE IF Bug = "FbBeforeSeq" /\ Role(t) = "large" THEN "write" ELSE "seq")
  /\ UNCHANGED <<eH, cur, mu, sem, tail, slots, seq, fbSeq, akeys, applied, wg, logSeq, visSeq, order, wal,
                 dH, dT, dB, pB, pCur, returned, mvars, rvars>>

\* prepare / AllocateSeqNum: b.setSeqNum(p.env.logSeqNum.Add(n) - n)
AssignSeq(t) ==
  /\ pc[t] = "seq"
  /\ seq' = [seq EXCEPT ![B(t)] = logSeq] /\ logSeq' = logSeq + K
  /\ order' = Append(order, B(t))
  /\ Goto(t, IF Role(t) = "alloc" THEN "allocSpin"
             ELSE IF Bug = "FbBeforeSeq" /\ Role(t) = "large" THEN "unlock" ELSE "write")
  /\ UNCHANGED <<eH, cur, mu, sem, head, tail, slots, enq, fbSeq, akeys, applied, wg, visSeq, wal,
                 dH, dT, dB, pB, pCur, returned, mvars, rvars>>

\* rotateMemtable: new mutable memtable + updateReadStateLocked (DB.mu and commit.mu held)
\* ents = the entries appended to d.mu.mem.queue
Rotate(ents) ==
  /\ queue' = queue \o ents
  /\ rstate' = [q |-> queue \o ents, v |-> version]
  /\ nmem' = nmem + Len(ents)

\* commitWrite, small batch: mem.prepare(b) (writerRef) or, on ErrArenaFull, makeRoomForWrite; WAL append
WriteWALPlain(t) ==
  /\ pc[t] = "write" /\ Role(t) = "plain"
  /\ wal' = Append(wal, B(t))
  /\ (IF mcount < MemCap
      THEN /\ memOf' = [memOf EXCEPT ![B(t)] = queue[Len(queue)].id]
           /\ wrefs' = [wrefs EXCEPT ![queue[Len(queue)].id] = @ + 1]
           /\ mcount' = mcount + 1
           /\ UNCHANGED <<eH, queue, rstate, nmem>>
      ELSE /\ Rotate(<<MemEntry(nmem + 1, seq[B(t)])>>)
           /\ memOf' = [memOf EXCEPT ![B(t)] = nmem + 1]
           /\ wrefs' = [wrefs EXCEPT ![nmem + 1] = @ + 1]
           /\ mcount' = 1)
  /\ Goto(t, "unlock")
  /\ UNCHANGED <<eH, cur, mu, sem, head, tail, slots, enq, seq, fbSeq, akeys, applied, wg, logSeq, visSeq, order,
                 dH, dT, dB, pB, pCur, returned, version, flushedIds, allocSaw, rvars>>

\* commitWrite, large batch: b.flushable.setSeqNum(b.SeqNum()); WAL append;
\* makeRoomForWrite: queue the flushable batch (logSeqNum = b.SeqNum()), new memtable at seq+count
WriteWALLarge(t) ==
  /\ pc[t] = "write" /\ Role(t) = "large"
  /\ wal' = Append(wal, B(t))
  /\ fbSeq' = [fbSeq EXCEPT ![B(t)] = seq[B(t)]]
  /\ Rotate(<<FbEntry(nmem + 1, seq[B(t)], B(t)), MemEntry(nmem + 2, seq[B(t)] + K)>>)
  /\ mcount' = 0
  /\ Goto(t, IF Bug = "FbBeforeSeq" THEN "seq" ELSE "unlock")
  /\ UNCHANGED <<eH, cur, mu, sem, head, tail, slots, enq, seq, akeys, applied, wg, logSeq, visSeq, order,
                 dH, dT, dB, pB, pCur, returned, memOf, wrefs, version, flushedIds, allocSaw, rvars>>

\* AllocateSeqNum: for visibleSeqNum.Load() != logSeqNum { Gosched }   (the spin is the guard)
\* then prepare(seqNum) under p.mu: the ingest checks memtable overlap, which is only
\* meaningful if every earlier batch has been applied (allocSaw records that).
AllocPrepare(t) ==
  /\ pc[t] = "allocSpin"
  /\ (Bug = "AllocNoWait" \/ visSeq = seq[B(t)])
  /\ allocSaw' = [allocSaw EXCEPT ![B(t)] =
        \A b \in Batches : (seq[b] # 0 /\ seq[b] < seq[B(t)] /\ ~IsAlloc(b) /\ ~IsLarge(b)) => akeys[b] = K]
  /\ Goto(t, "unlock")
  /\ UNCHANGED <<eH, cur, mu, sem, head, tail, slots, enq, seq, fbSeq, akeys, applied, wg, logSeq, visSeq, order, wal,
                 dH, dT, dB, pB, pCur, returned, queue, nmem, mcount, memOf, wrefs, version, flushedIds, rstate, rvars>>

\* p.mu.Unlock()
Unlock(t) ==
  /\ pc[t] = "unlock" /\ mu' = "free"
  /\ Goto(t, IF Role(t) = "plain" THEN (IF Bug = "PublishEarly" THEN "mark" ELSE "apply")
             ELSE IF Role(t) = "alloc" THEN "allocApply" ELSE "mark")
  /\ UNCHANGED <<eH, cur, sem, head, tail, slots, enq, seq, fbSeq, akeys, applied, wg, logSeq, visSeq, order, wal,
                 dH, dT, dB, pB, pCur, returned, mvars, rvars>>

\* commitApply: mem.apply(b, seqNum), one skiplist insertion per step
ApplyKey(t) ==
  /\ pc[t] = "apply" /\ akeys' = [akeys EXCEPT ![B(t)] = @ + 1]
  /\ Goto(t, IF akeys[B(t)] + 1 = K THEN "unref" ELSE "apply")
  /\ UNCHANGED <<eH, cur, mu, sem, head, tail, slots, enq, seq, fbSeq, applied, wg, logSeq, visSeq, order, wal,
                 dH, dT, dB, pB, pCur, returned, mvars, rvars>>

\* commitApply: mem.writerUnref()
WriterUnref(t) ==
  /\ pc[t] = "unref" /\ wrefs' = [wrefs EXCEPT ![memOf[B(t)]] = @ - 1]
  /\ Goto(t, IF Bug = "PublishEarly" THEN "dqPtrs" ELSE "mark")
  /\ UNCHANGED <<eH, cur, mu, sem, head, tail, slots, enq, seq, fbSeq, akeys, applied, wg, logSeq, visSeq, order, wal,
                 dH, dT, dB, pB, pCur, returned, queue, nmem, mcount, memOf, version, flushedIds, rstate, allocSaw, rvars>>

\* AllocateSeqNum: apply(seqNum) = ingestApply: the version edit installs the table and a new readState
AllocApply(t) ==
  /\ pc[t] = "allocApply"
  /\ version' = version \cup {<<B(t), i>> : i \in 1..K}
  /\ rstate' = [q |-> queue, v |-> version \cup {<<B(t), i>> : i \in 1..K}]
  /\ Goto(t, "mark")
  /\ UNCHANGED <<eH, cur, mu, sem, head, tail, slots, enq, seq, fbSeq, akeys, applied, wg, logSeq, visSeq, order, wal,
                 dH, dT, dB, pB, pCur, returned, queue, nmem, mcount, memOf, wrefs, flushedIds, allocSaw, rvars>>

\* publish: b.applied.Store(true)
Mark(t) ==
  /\ pc[t] = "mark" /\ applied' = [applied EXCEPT ![B(t)] = TRUE]
  /\ Goto(t, IF Bug = "PublishEarly" /\ Role(t) = "plain" THEN "apply" ELSE "dqPtrs")
  /\ UNCHANGED <<eH, cur, mu, sem, head, tail, slots, enq, seq, fbSeq, akeys, wg, logSeq, visSeq, order, wal,
                 dH, dT, dB, pB, pCur, returned, mvars, rvars>>

\* dequeueApplied: ptrs := q.headTail.Load(); if tail == head return nil
DqPtrs(t) ==
  /\ pc[t] = "dqPtrs" /\ dH' = [dH EXCEPT ![t] = head] /\ dT' = [dT EXCEPT ![t] = tail]
  /\ Goto(t, IF head = tail THEN "wait" ELSE "dqSlot")
  /\ UNCHANGED <<eH, cur, mu, sem, head, tail, slots, enq, seq, fbSeq, akeys, applied, wg, logSeq, visSeq, order, wal,
                 dB, pB, pCur, returned, mvars, rvars>>

\* dequeueApplied: b := slot.Load(); if b == nil || !b.applied.Load() return nil
DqSlot(t) ==
  /\ pc[t] = "dqSlot" /\ dB' = [dB EXCEPT ![t] = slots[dT[t] % Q]]
  /\ Goto(t, IF slots[dT[t] % Q] = Nil THEN "wait"
             ELSE IF applied[slots[dT[t] % Q]] \/ Bug = "DequeueUnapplied" THEN "dqCAS" ELSE "wait")
  /\ UNCHANGED <<eH, cur, mu, sem, head, tail, slots, enq, seq, fbSeq, akeys, applied, wg, logSeq, visSeq, order, wal,
                 dH, dT, pB, pCur, returned, mvars, rvars>>

\* dequeueApplied: headTail.CompareAndSwap(ptrs, pack(head, tail+1))
DqCAS(t) ==
  /\ pc[t] = "dqCAS"
  /\ (IF head = dH[t] /\ tail = dT[t] THEN tail' = tail + 1 /\ enq' = enq \ {dB[t]} /\ Goto(t, "dqClear")
      ELSE tail' = tail /\ enq' = enq /\ Goto(t, "dqPtrs"))
  /\ UNCHANGED <<eH, cur, mu, sem, head, slots, seq, fbSeq, akeys, applied, wg, logSeq, visSeq, order, wal,
                 dH, dT, dB, pB, pCur, returned, mvars, rvars>>

\* dequeueApplied: slot.Store(nil); return b
DqClear(t) ==
  /\ pc[t] = "dqClear" /\ slots' = [slots EXCEPT ![dT[t] % Q] = Nil]
  /\ pB' = [pB EXCEPT ![t] = dB[t]] /\ Goto(t, "pubLoad")
  /\ UNCHANGED <<eH, cur, mu, sem, head, tail, enq, seq, fbSeq, akeys, applied, wg, logSeq, visSeq, order, wal,
                 dH, dT, dB, pCur, returned, mvars, rvars>>

\* publish: curSeqNum := visibleSeqNum.Load(); if newSeqNum <= curSeqNum break
PubLoad(t) ==
  /\ pc[t] = "pubLoad" /\ pCur' = [pCur EXCEPT ![t] = visSeq]
  /\ Goto(t, IF seq[pB[t]] + K <= visSeq THEN "done" ELSE "pubCAS")
  /\ UNCHANGED <<eH, cur, mu, sem, head, tail, slots, enq, seq, fbSeq, akeys, applied, wg, logSeq, visSeq, order, wal,
                 dH, dT, dB, pB, returned, mvars, rvars>>

\* publish: visibleSeqNum.CompareAndSwap(curSeqNum, newSeqNum)
PubCAS(t) ==
  /\ pc[t] = "pubCAS"
  /\ (IF Bug = "StoreNotCAS" \/ visSeq = pCur[t] THEN visSeq' = seq[pB[t]] + K /\ Goto(t, "done")
      ELSE visSeq' = visSeq /\ Goto(t, "pubLoad"))
  /\ UNCHANGED <<eH, cur, mu, sem, head, tail, slots, enq, seq, fbSeq, akeys, applied, wg, logSeq, order, wal,
                 dH, dT, dB, pB, pCur, returned, mvars, rvars>>

\* publish: t.commit.Done()
Done(t) ==
  /\ pc[t] = "done" /\ wg' = [wg EXCEPT ![pB[t]] = @ - 1] /\ Goto(t, "dqPtrs")
  /\ UNCHANGED <<eH, cur, mu, sem, head, tail, slots, enq, seq, fbSeq, akeys, applied, logSeq, visSeq, order, wal,
                 dH, dT, dB, pB, pCur, returned, mvars, rvars>>

\* publish: b.commit.Wait()
Wait(t) ==
  /\ pc[t] = "wait" /\ wg[B(t)] = 0 /\ Goto(t, "rel")
  /\ UNCHANGED <<eH, cur, mu, sem, head, tail, slots, enq, seq, fbSeq, akeys, applied, wg, logSeq, visSeq, order, wal,
                 dH, dT, dB, pB, pCur, returned, mvars, rvars>>

\* Commit: <-p.commitQueueSem; return
Release(t) ==
  /\ pc[t] = "rel" /\ sem' = sem - 1 /\ returned' = returned \cup {B(t)}
  /\ (IF cur[t] < NCommits THEN cur' = [cur EXCEPT ![t] = @ + 1] /\ Goto(t, "idle")
      ELSE cur' = cur /\ Goto(t, "fin"))
  /\ UNCHANGED <<eH, mu, head, tail, slots, enq, seq, fbSeq, akeys, applied, wg, logSeq, visSeq, order, wal,
                 dH, dT, dB, pB, pCur, mvars, rvars>>

Step(t) == AcquireSem(t) \/ Lock(t) \/ EnqStore(t) \/ EnqHead(t) \/ AssignSeq(t)
  \/ WriteWALPlain(t) \/ WriteWALLarge(t) \/ AllocPrepare(t) \/ Unlock(t)
  \/ ApplyKey(t) \/ WriterUnref(t) \/ AllocApply(t) \/ Mark(t)
  \/ DqPtrs(t) \/ DqSlot(t) \/ DqCAS(t) \/ DqClear(t) \/ PubLoad(t) \/ PubCAS(t) \/ Done(t)
  \/ Wait(t) \/ Release(t)

(* ------------------------------------------------------------------------ *)
(* Flush: the oldest queue entry, once immutable and readyForFlush()         *)
(* (memTable.writerRefs == 0), moves into the version; new readState.        *)
KeysOfEntry(e) ==
  IF e.kind = "fb" THEN {<<e.b, i>> : i \in 1..K}
  ELSE {k \in Keys : memOf[k[1]] = e.id /\ k[2] <= akeys[k[1]]}

Flush ==
  /\ Len(queue) > 1
  /\ (queue[1].kind = "mem" => (wrefs[queue[1].id] = 0 \/ Bug = "FlushIgnoresRefs"))
  /\ version' = version \cup KeysOfEntry(queue[1])
  /\ flushedIds' = flushedIds \cup {queue[1].id}
  /\ queue' = Tail(queue)
  /\ rstate' = [q |-> Tail(queue), v |-> version \cup KeysOfEntry(queue[1])]
  /\ UNCHANGED <<cvars, nmem, mcount, memOf, wrefs, allocSaw, rvars>>

\* Compaction: a key version shadowed inside the LSM by a newer version of the same user key is
\* dropped.  Batch <<t, c+1>> overwrites the K user keys of batch <<t, c>>.  No snapshot exists in
\* this model, and an iterator protects what it reads by pinning its readState, not by its seqnum.
SameKeyNewer(k2, k) == k2[1][1] = k[1][1] /\ k2[1][2] > k[1][2] /\ k2[2] = k[2]
Published(b) == seq[b] # 0 /\ seq[b] + K <= visSeq
Shadowed(S) == {k \in S : \E k2 \in S : SameKeyNewer(k2, k) /\ (Elide = "any" \/ Published(k2[1]))}
Compact ==
  /\ Shadowed(version) # {}
  /\ version' = version \ Shadowed(version)
  /\ rstate' = [q |-> queue, v |-> version \ Shadowed(version)]
  /\ UNCHANGED <<cvars, queue, nmem, mcount, memOf, wrefs, flushedIds, allocSaw, rvars>>

(* ------------------------------------------------------------------------ *)
(* Readers: newIter / getInternal                                            *)

\* readState := d.loadReadState()
RLoadState(r) ==
  /\ rpc[r] = "idle"
  /\ rRS' = [rRS EXCEPT ![r] = rstate]
  /\ rBefore' = [rBefore EXCEPT ![r] = returned]
  /\ rpc' = [rpc EXCEPT ![r] = IF Bug = "ReaderSeqFirst" THEN "scan" ELSE "seq"]
  /\ UNCHANGED <<cvars, mvars, rSeq, rObs>>

\* seqNum = d.mu.versions.visibleSeqNum.Load()
RLoadSeq(r) ==
  /\ rpc[r] = (IF Bug = "ReaderSeqFirst" THEN "idle" ELSE "seq")
  /\ rSeq' = [rSeq EXCEPT ![r] = visSeq]
  /\ (IF Bug = "ReaderSeqFirst"
      THEN rpc' = [rpc EXCEPT ![r] = "state"] /\ rBefore' = [rBefore EXCEPT ![r] = returned]
      ELSE rpc' = [rpc EXCEPT ![r] = "scan"] /\ UNCHANGED rBefore)
  /\ UNCHANGED <<cvars, mvars, rRS, rObs>>
RLoadStateLate(r) ==   \* only reachable under Bug = "ReaderSeqFirst"
  /\ rpc[r] = "state"
  /\ rRS' = [rRS EXCEPT ![r] = rstate]
  /\ rpc' = [rpc EXCEPT ![r] = "scan"]
  /\ UNCHANGED <<cvars, mvars, rSeq, rObs, rBefore>>

\* the keys an iterator over the captured readState returns at sequence number s:
\* memtables are trimmed from the end while logSeqNum >= s; every key is filtered by seqnum < s.
KeptMems(q, s) == LET J == {j \in 1..Len(q) : q[j].lsn < s} IN
                  IF J = {} THEN {} ELSE 1..(CHOOSE j \in J : \A i \in J : i <= j)
KeySeq(k) == (IF IsLarge(k[1]) THEN fbSeq[k[1]] ELSE seq[k[1]]) + k[2] - 1
Visible(rs, s) ==
  {k \in Keys :
     /\ KeySeq(k) < s
     /\ \/ k \in rs.v
        \/ \E j \in KeptMems(rs.q, s) :
              \/ (rs.q[j].kind = "mem" /\ memOf[k[1]] = rs.q[j].id /\ k[2] <= akeys[k[1]])
              \/ (rs.q[j].kind = "fb" /\ rs.q[j].b = k[1])}

RScan(r) ==
  /\ rpc[r] = "scan"
  /\ rObs' = [rObs EXCEPT ![r] = Visible(rRS[r], rSeq[r])]
  /\ rpc' = [rpc EXCEPT ![r] = "done"]
  /\ UNCHANGED <<cvars, mvars, rRS, rSeq, rBefore>>

\* the reader's result is judged in state "done"; then its locals are dropped
RFinish(r) ==
  /\ rpc[r] = "done"
  /\ rpc' = [rpc EXCEPT ![r] = "fin"]
  /\ rRS' = [rRS EXCEPT ![r] = Nil] /\ rSeq' = [rSeq EXCEPT ![r] = 0]
  /\ rObs' = [rObs EXCEPT ![r] = {}] /\ rBefore' = [rBefore EXCEPT ![r] = {}]
  /\ UNCHANGED <<cvars, mvars>>

RStep(r) == RLoadState(r) \/ RLoadSeq(r) \/ RLoadStateLate(r) \/ RScan(r) \/ RFinish(r)

AllDone == (\A t \in Threads : pc[t] = "fin") /\ (\A r \in Readers : rpc[r] = "fin")
Terminated == AllDone /\ UNCHANGED vars

Next == (\E t \in Threads : Step(t)) \/ Flush \/ Compact \/ (\E r \in Readers : RStep(r)) \/ Terminated
Spec == Init /\ [][Next]_vars
FairSpec == Spec /\ (\A t \in Threads : WF_vars(Step(t))) /\ (\A r \in Readers : WF_vars(RStep(r)))

(* ------------------------------------------------------------------------ *)
(* Properties                                                                *)

\* C07: every batch gets a unique contiguous range, in assignment order = WAL order
SeqContiguous ==
  /\ \A i \in 1..Len(order) : seq[order[i]] = SeqStart + (i - 1) * K
  /\ wal = SelectSeq(order, LAMBDA b : ~IsAlloc(b) /\ b \in {wal[j] : j \in 1..Len(wal)})
  /\ logSeq = SeqStart + Len(order) * K
\* C07: the published sequence number never decreases
VisMonotone == [][visSeq' >= visSeq]_vars
\* C06/C07: ... and never covers a batch that has not finished applying
\* the LSM version holds key i of batch b, or a newer version of the same user key
Covered(S, b, i) == <<b, i>> \in S \/ \E k2 \in S : SameKeyNewer(k2, <<b, i>>)
FullyApplied(b) ==
  IF IsAlloc(b) THEN \A i \in 1..K : Covered(version, b, i)
  ELSE IF IsLarge(b) THEN fbSeq[b] = seq[b] /\ ((\E j \in 1..Len(queue) : queue[j].kind = "fb" /\ queue[j].b = b /\ queue[j].lsn = seq[b])
                                                  \/ \A i \in 1..K : Covered(version, b, i))
  ELSE akeys[b] = K
PublishedImpliesApplied == \A b \in Batches : (seq[b] # 0 /\ seq[b] < visSeq) => FullyApplied(b)
\* C07: once Commit returns the batch is published
ReturnedVisible == \A b \in returned : seq[b] + K <= visSeq
\* C06: a reader sees every batch wholly or not at all
KeysOf(b) == {<<b, i>> : i \in 1..K}
ReadAtomic == \A r \in Readers : rpc[r] = "done" =>
                 \A b \in Batches : (rObs[r] \cap KeysOf(b)) \in {{}, KeysOf(b)}
\* C06: ... and nothing above its sequence number
NoFuture == \A r \in Readers : rpc[r] = "done" =>
                 \A k \in rObs[r] : seq[k[1]] # 0 /\ seq[k[1]] + K <= rSeq[r]
\* C07: a reader created after Commit returned sees the batch
\*      (it sees each of its user keys at that batch's version or a newer one)
ReadYourWrites == \A r \in Readers : rpc[r] = "done" =>
                 \A b \in rBefore[r] : \A i \in 1..K : Covered(rObs[r], b, i)
\* C07: the lock-free queue never loses or overwrites an owned slot; never more than Q-1 in flight
QueueSafe ==
  /\ \A b \in enq : \E i \in tail..(head - 1) : slots[i % Q] = b
  /\ head - tail <= Q - 1 /\ head >= tail
  /\ \A i \in 0..Q-1 : slots[i] # Nil => slots[i] \in Batches
\* C07 (AllocateSeqNum): prepare runs only after every earlier batch is applied
AllocSeesPrior == \A b \in Batches : allocSaw[b]
\* a flushed memtable contains every key of every batch prepared into it
FlushedImpliesApplied ==
  \A b \in Batches : (memOf[b] \in flushedIds) => \A i \in 1..K : Covered(version, b, i)
Termination == <>AllDone

Inv == /\ SeqContiguous /\ PublishedImpliesApplied /\ ReturnedVisible /\ ReadAtomic /\ NoFuture
       /\ ReadYourWrites /\ QueueSafe /\ AllocSeesPrior /\ FlushedImpliesApplied

\* role assignments for the cfg files
RolesPP == [t \in Threads |-> "plain"]
RolesLL == [t \in Threads |-> "large"]
RolesPL == [t \in Threads |-> IF t = "t1" THEN "plain" ELSE "large"]
RolesPA == [t \in Threads |-> IF t = "t1" THEN "plain" ELSE "alloc"]
RolesPLA == [t \in Threads |-> IF t = "t1" THEN "plain" ELSE IF t = "t2" THEN "large" ELSE "alloc"]
RolesPPA == [t \in Threads |-> IF t = "t3" THEN "alloc" ELSE "plain"]
RolesPPL == [t \in Threads |-> IF t = "t3" THEN "large" ELSE "plain"]
=============================================================================
