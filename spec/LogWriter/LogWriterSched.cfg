\* generator config: 6 records, blocks of 2, syncs on {1,2,4,5}, min-sync on, one failure allowed
SPECIFICATION SSpec
CONSTANTS
  N = 6
  C = 2
  SyncSet = {1, 2, 4, 5}
  MinSync = TRUE
  MaxFaults = 1
  Index = FALSE
  BugReadWrittenFirst = FALSE
  BugPopBeforeSync = FALSE
  BugIgnoreFErr = FALSE
INVARIANT ReleasedImpliesSynced
INVARIANT Emit
CHECK_DEADLOCK FALSE
