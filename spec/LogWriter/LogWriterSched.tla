--------------------------- MODULE LogWriterSched ---------------------------
(* Schedule generator: LogWriter plus a history of which thread moved.  Used  *)
(* with -simulate; every completed behaviour prints one interleaving string   *)
(* over P (the producer starts its next SyncRecord* call, or Close), F (the    *)
(* flusher passes its next gate: snapshotForPop, written.Load, Write, Sync,    *)
(* pop) and T (the min-sync-interval timer fires), plus the ordinal of the     *)
(* Write / Sync operation that failed (0 = none).  The Go driver forces the    *)
(* string onto the real goroutines through its gates.                          *)
EXTENDS LogWriter
VARIABLES sched, nW, nS, fW, fS
svars == <<sched, nW, nS, fW, fS>>

SInit == Init /\ sched = "" /\ nW = 0 /\ nS = 0 /\ fW = 0 /\ fS = 0

Quiet(A) == A /\ UNCHANGED svars
Tag(A, c) == A /\ sched' = sched \o c /\ UNCHANGED <<nW, nS, fW, fS>>
SWrite == FWrite /\ sched' = sched \o "F" /\ nW' = nW + 1
          /\ fW' = (IF curErr' /\ fW = 0 THEN nW + 1 ELSE fW) /\ UNCHANGED <<nS, fS>>
RealSync == snapH # snapT /\ ~curErr
SSync == FSync /\ sched' = (IF RealSync THEN sched \o "F" ELSE sched)
         /\ nS' = (IF RealSync THEN nS + 1 ELSE nS)
         /\ fS' = (IF RealSync /\ curErr' /\ fS = 0 THEN nS + 1 ELSE fS) /\ UNCHANGED <<nW, fW>>
SFinal == PFinalSync /\ nS' = nS + 1
          /\ fS' = (IF faults' > faults /\ fS = 0 THEN nS + 1 ELSE fS) /\ UNCHANGED <<sched, nW, fW>>
SPop == FPop /\ sched' = (IF snapH # snapT THEN sched \o "F" ELSE sched) /\ UNCHANGED <<nW, nS, fW, fS>>

SNext == \/ Tag(PEmit, "P") \/ Tag(PTrailer, "P")
         \/ Quiet(PQueueBlock) \/ Quiet(PPush) \/ Quiet(PSignal) \/ Quiet(PCloseLock) \/ SFinal
         \/ Quiet(FCheck) \/ Quiet(FWaitUnlock) \/ Quiet(FWake) \/ Quiet(FTake)
         \/ Tag(FSnap, "F") \/ Tag(FReadW, "F") \/ Quiet(FUnlock) \/ Tag(FPopErr, "F") \/ Quiet(FRelockErr)
         \/ SWrite \/ SSync \/ SPop \/ Quiet(FRelock) \/ Tag(TimerFire, "T")
SSpec == SInit /\ [][SNext]_<<vars, svars>>

Emit == Finished => PrintT(<<"SCHED", sched, fW, fS>>)
=============================================================================
