--------------------------- MODULE LogWriterTrace ---------------------------
(* Trace validation of the real record.LogWriter against the observable       *)
(* projection of LogWriter.tla.  The driver wraps the io.Writer/Syncer handed  *)
(* to the real LogWriter (events write / syncbegin / syncend, with injected    *)
(* failures) and every sync waiter logs its release.  All events are logged,   *)
(* so the search is a straight line.  Offsets are real byte offsets.           *)
(*                                                                             *)
(* Correspondence with LogWriter.tla:                                          *)
(*   Write      = FWrite (one event per Write call of flushBlock/flushPending) *)
(*   SyncBegin/SyncEnd = FSync, PFinalSync                                     *)
(*   Record     = PEmit..PPush of record i (end = offset returned by           *)
(*                SyncRecordGeneralized), Refused = it returned w.err         *)
(*   Released   = FPop / FPopErr / the external callback, as seen by waiter i  *)
(*   invariants ReleasedImpliesSynced, ErrorsOnlyAfterFault, AllReleasedAtEnd  *)
(*   are asserted on the events that can falsify them.                         *)
EXTENDS Integers, Sequences, FiniteSets, TLC, Json

Trace == ndJsonDeserialize("trace.ndjson")

VARIABLES l,        \* next trace line
          fileW,    \* length of the intact written prefix of the file
          fileS,    \* length of the prefix covered by a successful Sync
          syncAt,   \* fileW when the Sync in progress began
          broken,   \* a Write or Sync has failed: nothing later counts
          ends,     \* record index -> end offset (records accepted by the writer)
          syncreq,  \* records that requested a sync
          rel       \* records whose waiter was released
vars == <<l, fileW, fileS, syncAt, broken, ends, syncreq, rel>>

Ev == Trace[l]
Is(o) == l <= Len(Trace) /\ Trace[l].op = o /\ l' = l + 1

Clean == /\ fileW = 0 /\ fileS = 0 /\ syncAt = 0 /\ broken = FALSE
         /\ ends = <<>> /\ syncreq = {} /\ rel = {}
TraceInit == l = 1 /\ Clean /\ TLCSet(1, 0)

Reset == Is("reset") /\ fileW' = 0 /\ fileS' = 0 /\ syncAt' = 0 /\ broken' = FALSE
         /\ ends' = <<>> /\ syncreq' = {} /\ rel' = {}
Start == Is("start") /\ UNCHANGED <<fileW, fileS, syncAt, broken, ends, syncreq, rel>>

(* a failed write leaves a hole: the intact prefix stops growing for good *)
Write == Is("write")
         /\ fileW' = (IF Ev.err \/ broken THEN fileW ELSE fileW + Ev.len)
         /\ broken' = (broken \/ Ev.err)
         /\ UNCHANGED <<fileS, syncAt, ends, syncreq, rel>>
SyncBegin == Is("syncbegin") /\ syncAt' = fileW
             /\ UNCHANGED <<fileW, fileS, broken, ends, syncreq, rel>>
(* a successful Sync covers what was written when it began; a failed one poisons the file *)
SyncEnd == Is("syncend")
           /\ fileS' = (IF Ev.err \/ broken THEN fileS ELSE syncAt)
           /\ broken' = (broken \/ Ev.err)
           /\ UNCHANGED <<fileW, syncAt, ends, syncreq, rel>>

Record == Is("record") /\ Ev.i \notin DOMAIN ends
          /\ ends' = [x \in DOMAIN ends \cup {Ev.i} |-> IF x = Ev.i THEN Ev.end ELSE ends[x]]
          /\ syncreq' = (IF Ev.sync THEN syncreq \cup {Ev.i} ELSE syncreq)
          /\ UNCHANGED <<fileW, fileS, syncAt, broken, rel>>
(* SyncRecord* returned the sticky error: only possible after a failure *)
Refused == Is("refused") /\ broken
           /\ UNCHANGED <<fileW, fileS, syncAt, broken, ends, syncreq, rel>>

(* C20.  Ev.synced is the file's synced length as read by the waiter after its  *)
(* wake-up (monotone, so it can only over-approximate the value at release).    *)
(*  - consistency of the transport: it cannot exceed what the trace has synced  *)
(*  - ReleasedImpliesSynced: no error => the record and all earlier bytes synced *)
(*  - ErrorsOnlyAfterFault: an error is delivered only after a failed Write/Sync *)
Released == Is("released") /\ Ev.i \in syncreq /\ Ev.i \notin rel
            /\ Ev.synced <= fileS
            /\ (~Ev.err => Ev.synced >= ends[Ev.i])
            /\ (Ev.err => broken)
            /\ rel' = rel \cup {Ev.i}
            /\ UNCHANGED <<fileW, fileS, syncAt, broken, ends, syncreq>>

Closed == Is("closed") /\ UNCHANGED <<fileW, fileS, syncAt, broken, ends, syncreq, rel>>
(* AllReleasedAtEnd / ErrorsDelivered: after Close returned no waiter is still queued *)
End == Is("end") /\ Len(Ev.unreleased) = 0 /\ rel = syncreq
       /\ UNCHANGED <<fileW, fileS, syncAt, broken, ends, syncreq, rel>>

TraceNext == Reset \/ Start \/ Write \/ SyncBegin \/ SyncEnd \/ Record \/ Refused \/ Released \/ Closed \/ End
TraceSpec == TraceInit /\ [][TraceNext]_vars

HWM == IF l - 1 > TLCGet(1) THEN TLCSet(1, l - 1) ELSE TRUE
TraceAccepted == PrintT(<<"HWM", TLCGet(1)>>) /\ TLCGet(1) = Len(Trace)
=============================================================================
