---- MODULE LogWriter ----
(* WAL writer of record/log_writer.go: one producer (SyncRecord* calls, then  *)
(* Close), the flushLoop goroutine, the min-sync-interval timer, and the       *)
(* sync waiters.  Offsets are in abstract units: record i is one unit and ends  *)
(* at offset i; a block holds C units.  Action <-> code map:                    *)
(*   PEmit        emitFragment* (block.written.Store)                           *)
(*   PQueueBlock  queueBlock (lock, append to flusher.pending, Signal)          *)
(*   PPush        SyncRecordGeneralized: pendingSyncs.push                      *)
(*   PSignal      SyncRecordGeneralized: flusher.ready.Signal                   *)
(*   PTrailer     closeInternal: emitEOFTrailer                                 *)
(*   PCloseLock   closeInternal: f.close = true; Signal                         *)
(*   PFinalSync   closeInternal: <-f.closed; final Sync; (index mode) callback   *)
(*   FCheck       flushLoop inner loop (work? close? Wait)                      *)
(*   FWaitUnlock  flusherCond.Unlock inside cond.Wait (re-checks !q.empty())    *)
(*   FWake        cond.Wait returns, mutex re-acquired                          *)
(*   FTake        pending = f.pending; f.pending = nil                          *)
(*   FSnap        snap := f.pendingSyncs.snapshotForPop()                       *)
(*   FReadW       written := w.block.written.Load(); data = buf[flushed:written] *)
(*   FUnlock      fErr := f.err; f.Unlock()                                     *)
(*   FPopErr      fErr != nil branch: pendingSyncs.pop(snap, fErr), no I/O      *)
(*   FWrite       flushPending: flushBlock* + w.w.Write(data)                   *)
(*   FSync        flushPending: w.s.Sync() iff !snap.empty() and no error       *)
(*   FPop         flushPending: pendingSyncs.pop(snap, err)                     *)
(*   FRelock      f.Lock(); syncedOffset.Store; f.err = err; setBlocked+timer   *)
(*   TimerFire    afterFunc callback: clearBlocked; Signal                      *)
(* Index = TRUE selects pendingSyncsWithHighestSyncIndex (failover mode):       *)
(* qhead then holds the highest pushed sync index (0 = NoSyncIndex), a pop      *)
(* releases every waiter <= the snapshotted index through the external callback. *)
EXTENDS Integers, Sequences, FiniteSets, TLC
CONSTANTS N, C, SyncSet, MinSync, MaxFaults, Index, BugReadWrittenFirst, BugPopBeforeSync, BugIgnoreFErr
\* records 1..N, one unit each; blocks hold C units; SyncSet \subseteq 1..N request sync
VARIABLES ppc, rec, bw, bf, pending, qhead, qtail, blocked, timerArmed,
          fpc, lock, waiting, notified, snapH, snapT, pend, data, fErr, curErr, didSync,
          fileW, fileS, close, closed, released, werr, faults, writtenOff, syncedOff
vars == <<ppc, rec, bw, bf, pending, qhead, qtail, blocked, timerArmed,
          fpc, lock, waiting, notified, snapH, snapT, pend, data, fErr, curErr, didSync,
          fileW, fileS, close, closed, released, werr, faults, writtenOff, syncedOff>>
Waiters == SyncSet
\* the k-th pushed waiter (in order of records)
SyncSeq == LET F[i \in 0..N] == IF i = 0 THEN <<>> ELSE IF i \in SyncSet THEN Append(F[i-1], i) ELSE F[i-1] IN F[N]
Init ==
  /\ ppc = "emit" /\ rec = 1 /\ bw = 0 /\ bf = 0 /\ pending = <<>>
  /\ qhead = 0 /\ qtail = 0 /\ blocked = FALSE /\ timerArmed = FALSE
  /\ fpc = "check" /\ lock = "f" /\ waiting = FALSE /\ notified = FALSE
  /\ snapH = 0 /\ snapT = 0 /\ pend = <<>> /\ data = 0 /\ fErr = FALSE /\ curErr = FALSE /\ didSync = FALSE
  /\ fileW = 0 /\ fileS = 0 /\ close = FALSE /\ closed = FALSE
  /\ released = {} /\ werr = {} /\ faults = 0 /\ writtenOff = 0 /\ syncedOff = 0
QEmptyRaw == IF Index THEN qhead = 0 ELSE qhead = qtail
QEmptyEff == blocked \/ QEmptyRaw
Signal == IF waiting /\ ~notified THEN notified' = TRUE ELSE notified' = notified
\* ---------------- producer ----------------
PEmit == ppc = "emit" /\ rec <= N /\ bw' = bw + 1
  /\ ppc' = (IF bw + 1 = C THEN "queueBlock" ELSE "push")
  /\ UNCHANGED <<rec, bf, pending, qhead, qtail, blocked, timerArmed, fpc, lock, waiting, notified, snapH, snapT, pend, data, fErr, curErr, didSync, fileW, fileS, close, closed, released, werr, faults, writtenOff, syncedOff>>
PQueueBlock == ppc = "queueBlock" /\ lock = "none"
  /\ pending' = Append(pending, bf) /\ bw' = 0 /\ bf' = 0 /\ Signal
  /\ ppc' = (IF rec > N THEN "closeLock" ELSE "push")
  /\ UNCHANGED <<rec, qhead, qtail, blocked, timerArmed, fpc, lock, waiting, snapH, snapT, pend, data, fErr, curErr, didSync, fileW, fileS, close, closed, released, werr, faults, writtenOff, syncedOff>>
PPush == ppc = "push"
  /\ (IF rec \in SyncSet THEN qhead' = (IF Index THEN rec ELSE qhead + 1) /\ ppc' = "signal" ELSE qhead' = qhead /\ ppc' = "emit")
  /\ rec' = (IF rec \in SyncSet THEN rec ELSE rec + 1)
  /\ UNCHANGED <<bw, bf, pending, qtail, blocked, timerArmed, fpc, lock, waiting, notified, snapH, snapT, pend, data, fErr, curErr, didSync, fileW, fileS, close, closed, released, werr, faults, writtenOff, syncedOff>>
PSignal == ppc = "signal" /\ Signal /\ rec' = rec + 1 /\ ppc' = "emit"
  /\ UNCHANGED <<bw, bf, pending, qhead, qtail, blocked, timerArmed, fpc, lock, waiting, snapH, snapT, pend, data, fErr, curErr, didSync, fileW, fileS, close, closed, released, werr, faults, writtenOff, syncedOff>>
\* Close: EOF trailer (one unit), then set close under lock, signal, wait closed, final sync
PTrailer == ppc = "emit" /\ rec > N /\ bw' = bw + 1
  /\ ppc' = (IF bw + 1 = C THEN "queueBlock" ELSE "closeLock")
  /\ UNCHANGED <<rec, bf, pending, qhead, qtail, blocked, timerArmed, fpc, lock, waiting, notified, snapH, snapT, pend, data, fErr, curErr, didSync, fileW, fileS, close, closed, released, werr, faults, writtenOff, syncedOff>>
PCloseLock == ppc = "closeLock" /\ lock = "none" /\ close' = TRUE /\ Signal /\ ppc' = "waitClosed"
  /\ UNCHANGED <<rec, bw, bf, pending, qhead, qtail, blocked, timerArmed, fpc, lock, waiting, snapH, snapT, pend, data, fErr, curErr, didSync, fileW, fileS, closed, released, werr, faults, writtenOff, syncedOff>>
PFinalSync == ppc = "waitClosed" /\ closed /\ ppc' = "done"
  /\ \E fail \in (IF ~fErr /\ faults < MaxFaults THEN {TRUE, FALSE} ELSE {FALSE}) :
       /\ faults' = (IF fail THEN faults + 1 ELSE faults)
       /\ fileS' = (IF fErr \/ fail THEN fileS ELSE fileW)
       /\ (IF Index THEN released' = SyncSet /\ werr' = (IF fErr \/ fail THEN werr \cup (SyncSet \ released) ELSE werr)
           ELSE released' = released /\ werr' = werr)
  /\ UNCHANGED <<rec, bw, bf, pending, qhead, qtail, blocked, timerArmed, fpc, lock, waiting, notified, snapH, snapT, pend, data, fErr, curErr, didSync, fileW, close, closed, writtenOff, syncedOff>>
\* ---------------- flusher ----------------
FCheck == fpc = "check" /\ lock = "f"
  /\ (IF Len(pending) > 0 \/ bw > bf \/ ~QEmptyEff THEN fpc' = "take" /\ UNCHANGED <<blocked, waiting, notified, closed, lock>>
     ELSE IF close THEN
        (IF ~QEmptyRaw THEN blocked' = FALSE /\ fpc' = "take" /\ UNCHANGED <<waiting, notified, closed, lock>>
        ELSE blocked' = FALSE /\ fpc' = "exit" /\ closed' = TRUE /\ lock' = "none" /\ UNCHANGED <<waiting, notified>>)
     ELSE (fpc' = "waitUnlock" /\ waiting' = TRUE /\ notified' = FALSE /\ UNCHANGED <<blocked, closed, lock>>))
  /\ UNCHANGED <<ppc, rec, bw, bf, pending, qhead, qtail, timerArmed, snapH, snapT, pend, data, fErr, curErr, didSync, fileW, fileS, close, released, werr, faults, writtenOff, syncedOff>>
FWaitUnlock == fpc = "waitUnlock" /\ lock' = "none" /\ fpc' = "waitBlock"
  /\ notified' = (IF ~QEmptyEff THEN TRUE ELSE notified)
  /\ UNCHANGED <<ppc, rec, bw, bf, pending, qhead, qtail, blocked, timerArmed, waiting, snapH, snapT, pend, data, fErr, curErr, didSync, fileW, fileS, close, closed, released, werr, faults, writtenOff, syncedOff>>
FWake == fpc = "waitBlock" /\ notified /\ lock = "none" /\ lock' = "f" /\ waiting' = FALSE /\ fpc' = "check"
  /\ UNCHANGED <<ppc, rec, bw, bf, pending, qhead, qtail, blocked, timerArmed, notified, snapH, snapT, pend, data, fErr, curErr, didSync, fileW, fileS, close, closed, released, werr, faults, writtenOff, syncedOff>>
\* take pending, snapshot syncQ, read written -- order is the crux
FTake == fpc = "take" /\ pend' = pending /\ pending' = <<>>
  /\ fpc' = (IF BugReadWrittenFirst THEN "readW" ELSE "snap")
  /\ UNCHANGED <<ppc, rec, bw, bf, qhead, qtail, blocked, timerArmed, lock, waiting, notified, snapH, snapT, data, fErr, curErr, didSync, fileW, fileS, close, closed, released, werr, faults, writtenOff, syncedOff>>
FSnap == fpc = "snap"
  /\ (IF blocked THEN snapH' = 0 /\ snapT' = 0 ELSE snapH' = qhead /\ snapT' = qtail)
  /\ fpc' = (IF BugReadWrittenFirst THEN "unlock" ELSE "readW")
  /\ UNCHANGED <<ppc, rec, bw, bf, pending, qhead, qtail, blocked, timerArmed, lock, waiting, notified, pend, data, fErr, curErr, didSync, fileW, fileS, close, closed, released, werr, faults, writtenOff, syncedOff>>
FReadW == fpc = "readW" /\ data' = bw - bf /\ bf' = bw
  /\ fpc' = (IF BugReadWrittenFirst THEN "snap" ELSE "unlock")
  /\ UNCHANGED <<ppc, rec, bw, pending, qhead, qtail, blocked, timerArmed, lock, waiting, notified, snapH, snapT, pend, fErr, curErr, didSync, fileW, fileS, close, closed, released, werr, faults, writtenOff, syncedOff>>
FUnlock == fpc = "unlock" /\ lock' = "none" /\ fpc' = (IF fErr THEN "popErr" ELSE "write")
  /\ UNCHANGED <<ppc, rec, bw, bf, pending, qhead, qtail, blocked, timerArmed, waiting, notified, snapH, snapT, pend, data, fErr, curErr, didSync, fileW, fileS, close, closed, released, werr, faults, writtenOff, syncedOff>>
PopSet == IF Index THEN {w \in SyncSet : w <= snapH} \ released ELSE {SyncSeq[k + 1] : k \in snapT..(snapH - 1)}
\* queue: tail moves past the popped slots; index: CompareAndSwap(snap, NoSyncIndex)
PopQ == IF Index THEN qtail' = qtail /\ qhead' = (IF qhead = snapH THEN 0 ELSE qhead)
        ELSE qhead' = qhead /\ qtail' = (IF snapH > snapT THEN snapH ELSE qtail)
FPopErr == fpc = "popErr" /\ released' = released \cup PopSet
  /\ werr' = (IF BugIgnoreFErr THEN werr ELSE werr \cup PopSet)
  /\ PopQ /\ fpc' = "relockErr"
  /\ UNCHANGED <<ppc, rec, bw, bf, pending, blocked, timerArmed, lock, waiting, notified, snapH, snapT, pend, data, fErr, curErr, didSync, fileW, fileS, close, closed, faults, writtenOff, syncedOff>>
FRelockErr == fpc = "relockErr" /\ lock = "none" /\ lock' = "f" /\ fpc' = "check"
  /\ UNCHANGED <<ppc, rec, bw, bf, pending, qhead, qtail, blocked, timerArmed, waiting, notified, snapH, snapT, pend, data, fErr, curErr, didSync, fileW, fileS, close, closed, released, werr, faults, writtenOff, syncedOff>>
SumPend == LET F[i \in 0..Len(pend)] == IF i = 0 THEN 0 ELSE F[i-1] + (C - pend[i]) IN F[Len(pend)]
FWrite == fpc = "write"
  /\ \E fail \in (IF faults < MaxFaults THEN {TRUE, FALSE} ELSE {FALSE}) :
       /\ faults' = (IF fail THEN faults + 1 ELSE faults)
       /\ curErr' = fail
       /\ fileW' = (IF fail THEN fileW ELSE fileW + SumPend + data)
  /\ writtenOff' = writtenOff + data
  /\ fpc' = (IF BugPopBeforeSync THEN "pop" ELSE "sync")
  /\ UNCHANGED <<ppc, rec, bw, bf, pending, qhead, qtail, blocked, timerArmed, lock, waiting, notified, snapH, snapT, pend, data, fErr, didSync, fileS, close, closed, released, werr, syncedOff>>
FSync == fpc = "sync"
  /\ (IF snapH = snapT THEN didSync' = FALSE /\ fileS' = fileS /\ faults' = faults /\ curErr' = curErr
     ELSE IF curErr THEN didSync' = FALSE /\ fileS' = fileS /\ faults' = faults /\ curErr' = curErr
     ELSE (\E fail \in (IF faults < MaxFaults THEN {TRUE, FALSE} ELSE {FALSE}) :
            /\ faults' = (IF fail THEN faults + 1 ELSE faults)
            /\ curErr' = fail /\ didSync' = TRUE
            /\ fileS' = (IF fail THEN fileS ELSE fileW)))
  /\ fpc' = (IF BugPopBeforeSync THEN "relock" ELSE "pop")
  /\ UNCHANGED <<ppc, rec, bw, bf, pending, qhead, qtail, blocked, timerArmed, lock, waiting, notified, snapH, snapT, pend, data, fErr, fileW, close, closed, released, werr, writtenOff, syncedOff>>
FPop == fpc = "pop" /\ released' = released \cup PopSet
  /\ werr' = (IF curErr THEN werr \cup PopSet ELSE werr)
  /\ PopQ
  /\ fpc' = (IF BugPopBeforeSync THEN "sync" ELSE "relock")
  /\ UNCHANGED <<ppc, rec, bw, bf, pending, blocked, timerArmed, lock, waiting, notified, snapH, snapT, pend, data, fErr, curErr, didSync, fileW, fileS, close, closed, faults, writtenOff, syncedOff>>
FRelock == fpc = "relock" /\ lock = "none" /\ lock' = "f" /\ fErr' = curErr
  /\ syncedOff' = (IF didSync /\ ~curErr THEN writtenOff ELSE syncedOff)
  /\ (IF curErr THEN blocked' = FALSE /\ timerArmed' = timerArmed
      ELSE IF didSync /\ MinSync THEN blocked' = TRUE /\ timerArmed' = TRUE
      ELSE blocked' = blocked /\ timerArmed' = timerArmed)
  /\ fpc' = "check"
  /\ UNCHANGED <<ppc, rec, bw, bf, pending, qhead, qtail, waiting, notified, snapH, snapT, pend, data, curErr, didSync, fileW, fileS, close, closed, released, werr, faults, writtenOff>>
TimerFire == timerArmed /\ timerArmed' = FALSE /\ blocked' = FALSE /\ Signal
  /\ UNCHANGED <<ppc, rec, bw, bf, pending, qhead, qtail, fpc, lock, waiting, snapH, snapT, pend, data, fErr, curErr, didSync, fileW, fileS, close, closed, released, werr, faults, writtenOff, syncedOff>>
Next == PEmit \/ PQueueBlock \/ PPush \/ PSignal \/ PTrailer \/ PCloseLock \/ PFinalSync
     \/ FCheck \/ FWaitUnlock \/ FWake \/ FTake \/ FSnap \/ FReadW \/ FUnlock \/ FPopErr \/ FRelockErr
     \/ FWrite \/ FSync \/ FPop \/ FRelock \/ TimerFire
Spec == Init /\ [][Next]_vars /\ WF_vars(Next)
\* record i ends at unit offset i
ReleasedImpliesSynced == \A w \in released : (w \notin werr) => fileS >= w
SyncedOffSound == syncedOff <= fileS
\* errors originate only in injected write/sync failures
ErrorsOnlyAfterFault == werr # {} => faults > 0
\* after the end every waiter whose bytes are not synced carries an error
ErrorsDelivered == (ppc = "done") => \A w \in Waiters : (w \in released /\ (fileS >= w \/ w \in werr))
Finished == ppc = "done"
AllReleasedAtEnd == Finished => released = Waiters
NoDeadlock == Finished \/ ENABLED Next
Termination == <>Finished
====
