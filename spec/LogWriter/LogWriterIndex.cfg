\* N records of one unit, blocks of C units, SyncSet = records that request a sync,
\* MinSync = min-sync-interval on, MaxFaults = injected write/sync failures,
\* Index = pendingSyncsWithHighestSyncIndex (failover mode) instead of syncQueue.
SPECIFICATION Spec
CONSTANTS
  N = 3
  C = 2
  SyncSet = {1, 3}
  MinSync = TRUE
  MaxFaults = 1
  Index = TRUE
  BugReadWrittenFirst = FALSE
  BugPopBeforeSync = FALSE
  BugIgnoreFErr = FALSE
INVARIANT ReleasedImpliesSynced
INVARIANT SyncedOffSound
INVARIANT ErrorsOnlyAfterFault
INVARIANT ErrorsDelivered
INVARIANT AllReleasedAtEnd
INVARIANT NoDeadlock
CHECK_DEADLOCK FALSE

