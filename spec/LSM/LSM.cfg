SPECIFICATION Spec
CONSTANTS
  NKeys = 2
  MaxSeq = 3
  MaxSnaps = 1
  MaxReaders = 1
  BugIgnoreSnaps = FALSE
  BugElideAnyStripe = FALSE
  BugPickNewest = FALSE
  BugIngestBelow = FALSE
  BugDeletePinned = FALSE
INVARIANT Refinement
INVARIANT ReaderStable
INVARIANT LevelInv
INVARIANT FilesLive
INVARIANT NoLeakPossible
CHECK_DEADLOCK FALSE
