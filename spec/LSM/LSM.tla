-------------------------------- MODULE LSM --------------------------------
(* Structure and maintenance of the LSM (C14, C15, C39 at design level):      *)
(* memtable, L0 files (ordered by age), L1; snapshots; flush; compaction of    *)
(* an age-closed set of L0 files with L1 (snapshot stripes, tombstone elision  *)
(* in the last stripe only when compacting into the bottom); ingestion of a    *)
(* table below the memtable when it overlaps nothing newer; readers that pin a *)
(* version; deletion of obsolete files.                                       *)
(*   Write            db.go commit path -> memtable                           *)
(*   Flush            compaction.go flush1                                    *)
(*   CompactL0        compaction_picker.go pick + compaction.go compact1      *)
(*                    (internal/compact.Iter = Compact below)                 *)
(*   Ingest           ingest.go ingestTargetLevel / flushable fallback        *)
(*   ReaderOpen/Close read_state.go loadReadState / unref                     *)
(*   DeleteObsolete   obsolete_files.go                                       *)
EXTENDS Integers, Sequences, FiniteSets, TLC

CONSTANTS NKeys, MaxSeq, MaxSnaps, MaxReaders,
          BugIgnoreSnaps,      \* compaction collapses across snapshot boundaries
          BugElideAnyStripe,   \* tombstones dropped outside the last stripe
          BugPickNewest,       \* L0 pick closed towards newer instead of older files
          BugIngestBelow,      \* ingested table placed in L1 under an overlapping newer L0 file
          BugDeletePinned      \* obsolete file removed while a reader's version still references it

UKeys == 1..NKeys
\* internal entry = <<key, seq, kind>>, kind in {"S","D"}; a SET's value is its seqnum
\* a file = [id, ents]
VARIABLES log, mem, l0, l1, snaps, nseq, nfile, readers, ondisk
vars == <<log, mem, l0, l1, snaps, nseq, nfile, readers, ondisk>>

Init == /\ log = <<>> /\ mem = {} /\ l0 = {} /\ l1 = {} /\ snaps = {} /\ nseq = 1 /\ nfile = 1
        /\ readers = {} /\ ondisk = {}

Max(Sx) == CHOOSE x \in Sx : \A y \in Sx : x >= y
MaxSeqOf(f) == Max({e[2] : e \in f.ents})
KeysOf(f) == {e[1] : e \in f.ents}
Live == {f.id : f \in l0 \cup l1}

(* ---- logical model: value of k for a reader at seqnum s (sees seq < s) ---- *)
LogGet(k, s) == LET idx == {i \in 1..Len(log) : i < s /\ log[i][1] = k} IN
                IF idx = {} THEN 0 ELSE LET i == Max(idx) IN IF log[i][2] = "S" THEN i ELSE 0

(* ---- LSM read in level order over a version [mem, l0, l1] ---- *)
NewestIn(ents, k, s) == LET c == {e \in ents : e[1] = k /\ e[2] < s} IN
                IF c = {} THEN <<>> ELSE CHOOSE e \in c : \A d \in c : d[2] <= e[2]
RECURSIVE ReadL0(_, _, _, _)
ReadL0(files, bottom, k, s) ==
  IF files = {} THEN NewestIn(UNION {f.ents : f \in bottom}, k, s) ELSE
     LET f == CHOOSE g \in files : \A h \in files : MaxSeqOf(h) <= MaxSeqOf(g)
         e == NewestIn(f.ents, k, s)
     IN IF e # <<>> THEN e ELSE ReadL0(files \ {f}, bottom, k, s)
VGet(m, f0, f1, k, s) == LET e0 == NewestIn(m, k, s)
                             e == IF e0 # <<>> THEN e0 ELSE ReadL0(f0, f1, k, s)
                         IN IF e = <<>> THEN 0 ELSE IF e[3] = "S" THEN e[2] ELSE 0

(* ---- compaction stream (the relation C17 binds to compact.Iter) ---- *)
Stripe(sq) == IF BugIgnoreSnaps THEN 0 ELSE Cardinality({s \in snaps : s <= sq})
Compact(entries, elide) ==
  LET keep == {e \in entries : \A d \in entries : (d[1] = e[1] /\ Stripe(d[2]) = Stripe(e[2])) => d[2] <= e[2]}
  IN {e \in keep : ~(elide /\ e[3] = "D" /\ (BugElideAnyStripe \/ Stripe(e[2]) = 0))}

(* ---- actions ---- *)
Write(k, kind) ==
  /\ nseq <= MaxSeq
  /\ log' = Append(log, <<k, kind>>) /\ mem' = mem \cup {<<k, nseq, kind>>} /\ nseq' = nseq + 1
  /\ UNCHANGED <<l0, l1, snaps, nfile, readers, ondisk>>
Flush ==
  /\ mem # {}
  /\ l0' = l0 \cup {[id |-> nfile, ents |-> Compact(mem, FALSE)]} /\ mem' = {}
  /\ ondisk' = ondisk \cup {nfile} /\ nfile' = nfile + 1
  /\ UNCHANGED <<log, l1, snaps, nseq, readers>>
Closed(F) == IF BugPickNewest THEN \A f \in F, g \in l0 : MaxSeqOf(g) > MaxSeqOf(f) => g \in F
             ELSE \A f \in F, g \in l0 : MaxSeqOf(g) < MaxSeqOf(f) => g \in F
CompactL0(F) ==
  /\ F # {} /\ F \subseteq l0 /\ Closed(F)
  /\ l1' = {[id |-> nfile, ents |-> Compact(UNION {f.ents : f \in F \cup l1}, TRUE)]}
  /\ l0' = l0 \ F
  /\ ondisk' = ondisk \cup {nfile} /\ nfile' = nfile + 1
  /\ UNCHANGED <<log, mem, snaps, nseq, readers>>
(* ingest one SET of key k: takes the next seqnum; goes to L1 when nothing newer-positioned *)
(* overlaps the key (memtable, L0), else to L0 (the real code: flushable / L0)              *)
Ingest(k) ==
  /\ nseq <= MaxSeq
  /\ LET ov == (\E e \in mem : e[1] = k) \/ (\E f \in l0 \cup l1 : k \in KeysOf(f))
         file == [id |-> nfile, ents |-> {<<k, nseq, "S">>}] IN
       /\ (IF ov /\ ~BugIngestBelow
           THEN (IF \E e \in mem : e[1] = k
                 THEN FALSE   \* would need a flushable ingest: modelled as "flush first" (not enabled)
                 ELSE l0' = l0 \cup {file} /\ l1' = l1)
           ELSE l1' = l1 \cup {file} /\ l0' = l0)
       /\ log' = Append(log, <<k, "S">>) /\ nseq' = nseq + 1
       /\ ondisk' = ondisk \cup {nfile} /\ nfile' = nfile + 1
  /\ UNCHANGED <<mem, snaps, readers>>
SnapOpen == Cardinality(snaps) < MaxSnaps /\ nseq \notin snaps /\ snaps' = snaps \cup {nseq}
            /\ UNCHANGED <<log, mem, l0, l1, nseq, nfile, readers, ondisk>>
SnapClose(s) == s \in snaps /\ snaps' = snaps \ {s} /\ UNCHANGED <<log, mem, l0, l1, nseq, nfile, readers, ondisk>>
(* a reader (iterator) pins the version it was created on and reads at its seqnum *)
ReaderOpen == /\ Cardinality(readers) < MaxReaders
              /\ readers' = readers \cup {[s |-> nseq, m |-> mem, f0 |-> l0, f1 |-> l1]}
              /\ UNCHANGED <<log, mem, l0, l1, snaps, nseq, nfile, ondisk>>
ReaderClose(r) == r \in readers /\ readers' = readers \ {r}
                  /\ UNCHANGED <<log, mem, l0, l1, snaps, nseq, nfile, ondisk>>
Pinned == UNION {{f.id : f \in r.f0 \cup r.f1} : r \in readers}
DeleteObsolete(id) ==
  /\ id \in ondisk /\ id \notin Live /\ (BugDeletePinned \/ id \notin Pinned)
  /\ ondisk' = ondisk \ {id}
  /\ UNCHANGED <<log, mem, l0, l1, snaps, nseq, nfile, readers>>

Next == \/ \E k \in UKeys, kind \in {"S", "D"} : Write(k, kind)
        \/ Flush \/ SnapOpen \/ ReaderOpen
        \/ \E F \in SUBSET l0 : CompactL0(F)
        \/ \E k \in UKeys : Ingest(k)
        \/ \E s \in snaps : SnapClose(s)
        \/ \E r \in readers : ReaderClose(r)
        \/ \E id \in ondisk : DeleteObsolete(id)
Spec == Init /\ [][Next]_vars

(* ---- properties ---- *)
(* C03/C14: latest state and every open snapshot read as the logical log says *)
Refinement == \A s \in snaps \cup {nseq} : \A k \in UKeys : VGet(mem, l0, l1, k, s) = LogGet(k, s)
(* C04/C14: a pinned reader keeps reading its view whatever happened since *)
ReaderStable == \A r \in readers : \A k \in UKeys : VGet(r.m, r.f0, r.f1, k, r.s) = LogGet(k, r.s)
(* C15: newer versions never below older ones *)
LevelInv == \A k \in UKeys :
   /\ \A f1 \in l1, f0 \in l0 : \A e \in f1.ents, d \in f0.ents : (e[1] = k /\ d[1] = k) => e[2] < d[2]
   /\ \A f0 \in l0, m \in mem : \A d \in f0.ents : (d[1] = k /\ m[1] = k) => d[2] < m[2]
   /\ \A f, g \in l0 : \A e \in f.ents, d \in g.ents :
          (e[1] = k /\ d[1] = k /\ MaxSeqOf(f) < MaxSeqOf(g)) => e[2] < d[2]
(* C39: every file of the current version and of every pinned version exists; *)
FilesLive == Live \cup Pinned \subseteq ondisk
(* ... and once nothing is pinned every obsolete file can go (DeleteObsolete is enabled for each) *)
NoLeakPossible == (readers = {}) => \A id \in ondisk \ Live : ENABLED DeleteObsolete(id)
=============================================================================
