\* scaled-down wire format: block 16 bytes, headers legacy/recyclable/walsync = 2/3/5,
\* up to 3 records of 0..14 bytes; Mode = c19
SPECIFICATION Spec
CONSTANTS
  B = 16
  HL = 2
  HR = 3
  HW = 5
  MaxSize = 14
  MaxRecs = 3
  Mode = "c19"
  ClaimLegacyOverlay = FALSE
  BugAcceptStaleLogNum = FALSE
  BugTrailerSameLogNum = FALSE
  BugReadAheadGE = FALSE
  BugNoReadAhead = FALSE
INVARIANT Inv
CHECK_DEADLOCK FALSE
