SPECIFICATION TraceSpec
CONSTANTS
  B = 32768
  HL = 7
  HR = 11
  HW = 19
  BugAcceptStaleLogNum = FALSE
  BugTrailerSameLogNum = FALSE
  BugReadAheadGE = FALSE
  BugNoReadAhead = FALSE
CONSTRAINT HWM
POSTCONDITION TraceAccepted
CHECK_DEADLOCK FALSE
