\* the real wire-format constants of record/record.go
SPECIFICATION Spec
CONSTANTS
  B = 32768
  HL = 7
  HR = 11
  HW = 19
  MaxRecs = 2
  BugAcceptStaleLogNum = FALSE
  BugTrailerSameLogNum = FALSE
  BugReadAheadGE = FALSE
  BugNoReadAhead = FALSE
INVARIANT EmitCase
CHECK_DEADLOCK FALSE
