\* scaled-down wire format: block 10 bytes, headers legacy/recyclable/walsync = 2/3/5,
\* up to 2 records of 0..7 bytes; Mode = c19
SPECIFICATION Spec
CONSTANTS
  B = 10
  HL = 2
  HR = 3
  HW = 5
  MaxSize = 7
  MaxRecs = 2
  Mode = "c19"
  ClaimLegacyOverlay = FALSE
  BugAcceptStaleLogNum = FALSE
  BugTrailerSameLogNum = FALSE
  BugReadAheadGE = FALSE
  BugNoReadAhead = FALSE
INVARIANT Inv
CHECK_DEADLOCK FALSE
