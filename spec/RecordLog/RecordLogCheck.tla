--------------------------- MODULE RecordLogCheck ---------------------------
(* Exhaustive design-level check of RecordLog with scaled-down constants: one  *)
(* initial state per case; the invariant is the property of that case.          *)
(*  Mode "c18": every format x size vector x closed? x cut point x tail          *)
(*  Mode "c19": walsync x size vector x sync points x damaged chunk x damage     *)
EXTENDS RecordLog
CONSTANTS MaxSize, MaxRecs, Mode, ClaimLegacyOverlay
VARIABLES phase, fmt, sizes, closed, tail, at, oldi, syncs, dmg
vars == <<phase, fmt, sizes, closed, tail, at, oldi, syncs, dmg>>

LogNum == 7
SizeVecs == UNION {[1..n -> 0..MaxSize] : n \in 0..MaxRecs}
MaxLen == (MaxRecs * (MaxSize + 3 * HW)) + 3 * B
(* older logs of the recycled file: longer than anything the new log writes *)
OldVec(i) == IF i = 1 THEN <<2 * B, B, 1, 2 * B>> ELSE <<3, 0, B - HW, 5, B + 1, 2 * B, 3>>
OldLay(f, i) == Layout(f, LogNum - i, OldVec(i), TRUE)
Promised(f, t) == t \in {"cut", "zero"} \/ f # "legacy" \/ ClaimLegacyOverlay

(* the written log is picked in the initial state, the mutilation in one step *)
(* (so that TLC's workers share the cases)                                   *)
Init18 ==
  /\ phase = "pick"
  /\ fmt \in {"legacy", "recyclable", "walsync"} /\ sizes \in SizeVecs /\ closed \in BOOLEAN
  /\ (fmt = "legacy" => closed)
  /\ tail = "cut" /\ oldi = 1 /\ at = 0 /\ syncs = {} /\ dmg = <<0, 0, "none">>
Next18 ==
  /\ phase = "pick" /\ phase' = "case"
  /\ tail' \in {"cut", "zero", "old"} /\ oldi' \in 1..2 /\ (tail' # "old" => oldi' = 1)
  /\ at' \in 0..Layout(fmt, LogNum, sizes, closed).len
  /\ UNCHANGED <<fmt, sizes, closed, syncs, dmg>>
Inv18 ==
  LET new == Layout(fmt, LogNum, sizes, closed)
      F == MkFile(new, at, tail, IF tail = "old" THEN OldLay(IF fmt = "legacy" THEN "legacy" ELSE fmt, oldi) ELSE NoOld)
  IN /\ (Promised(fmt, tail) => CleanPrefix(F))
     /\ (at = new.len => RoundTrip(new))

(* sync offset carried by the chunks of record k: file offset after the last synced record before k *)
SyncedBefore(k) == LET J == {j \in syncs : j < k} IN
  IF J = {} THEN 0 ELSE Recs("walsync", LogNum, SubSeq(sizes, 1, CHOOSE j \in J : \A x \in J : x <= j), 1, 0, <<>>).off
Init19 ==
  /\ phase = "pick"
  /\ fmt = "walsync" /\ sizes \in SizeVecs /\ Len(sizes) > 0 /\ closed = TRUE /\ tail = "cut" /\ oldi = 1 /\ at = 0
  /\ syncs \in SUBSET (1..Len(sizes)) /\ dmg = <<0, 0, "none">>
Next19 ==
  /\ phase = "pick" /\ phase' = "case"
  /\ LET lay == Layout("walsync", LogNum, sizes, TRUE) IN
     \E i \in 1..(Len(lay.chunks) - 1) :
        LET c == lay.chunks[i] IN
        \/ \E p \in 0..(c.hdr + c.len - 1) : dmg' = <<c.off + p, c.off + p + 1, "flip">>
        \/ dmg' = <<c.off, CEnd(c), "zero">>
        \/ dmg' = <<c.off, CEnd(c), "flip">>
  /\ UNCHANGED <<fmt, sizes, closed, tail, at, oldi, syncs>>
Inv19 ==
  LET lay0 == Layout("walsync", LogNum, sizes, TRUE)
      lay == WithSO(lay0, [i \in 1..Len(lay0.chunks) |-> IF lay0.chunks[i].pos = "EOF" THEN 0 ELSE SyncedBefore(lay0.chunks[i].rec)])
      F == Damaged(lay, dmg[1], dmg[2], dmg[3])
      c == CHOOSE c \in SeqToSet(lay.chunks) : c.off <= dmg[1] /\ dmg[1] < CEnd(c)
  IN CorruptionReported(F, c)

Init == IF Mode = "c18" THEN Init18 ELSE Init19
Inv == phase = "case" => (IF Mode = "c18" THEN Inv18 ELSE Inv19)
Next == IF Mode = "c18" THEN Next18 ELSE Next19
Spec == Init /\ [][Next]_vars
=============================================================================
