------------------------------ MODULE RecordLog ------------------------------
(* Wire format of record/record.go + record/log_writer.go and the Reader state  *)
(* machine, at chunk granularity.                                                *)
(*                                                                               *)
(*   Layout(fmt, sizes, closed)  = what Writer (legacy) / LogWriter (recyclable, *)
(*        walsync) put on disk: LogWriter.emitFragmentRecyclable /               *)
(*        emitFragmentSyncOffsets / emitEOFTrailer, Writer.Next / singleWriter.  *)
(*        Write / writePending.                                                  *)
(*   a File  = new layout cut at byte `at` + a tail (nothing | zeros | the bytes *)
(*        of an older, longer log of a recycled file) + at most one damaged      *)
(*        interval (C19).  Bytes are never materialised: the reader's questions  *)
(*        ("which header starts here", "is the payload intact", "are these bytes *)
(*        zero") are answered by interval arithmetic, so the same definitions    *)
(*        evaluate with B = 32768 as well as with B = 16.                        *)
(*   NextChunk / ReadLoop / ReadRec / RA = Reader.nextChunk / Reader.Next /      *)
(*        singleReader.Read / Reader.readAheadForCorruption, branch by branch.   *)
(*                                                                               *)
(* Conventions: payload bytes are never zero and never look like a valid header  *)
(* (the driver writes such payloads); a partially overwritten header is "garbage" *)
(* (-> ErrInvalidChunk).                                                          *)
EXTENDS Integers, Sequences, FiniteSets, TLC

CONSTANTS B, HL, HR, HW,
          BugAcceptStaleLogNum,   \* reader does not compare the chunk's log number
          BugTrailerSameLogNum,   \* EOF trailer written with logNum instead of logNum+1
          BugReadAheadGE,         \* read-ahead confirms corruption on syncOff >= invalidOffset
          BugNoReadAhead          \* reader never confirms corruption

Min(a, b) == IF a < b THEN a ELSE b
Max(a, b) == IF a > b THEN a ELSE b
Hdr(fmt) == CASE fmt = "legacy" -> HL [] fmt = "recyclable" -> HR [] OTHER -> HW
CEnd(c) == c.off + c.hdr + c.len

(* ------------------------------ Layout ---------------------------------- *)
(* one fragment per step: emitFragment* (and Writer: fillHeader/writeBlock)   *)
RECURSIVE Emit(_, _, _, _, _, _, _)
Emit(fmt, lognum, off, k, rem, first, acc) ==
  LET H == Hdr(fmt)
      i == off % B
      space == B - i - H
      last == space >= rem
      r == Min(rem, space)
      c == [off |-> off, hdr |-> H, len |-> r, fmt |-> fmt, lognum |-> lognum, so |-> 0, rec |-> k,
            pos |-> IF last THEN (IF first THEN "FULL" ELSE "LAST") ELSE (IF first THEN "FIRST" ELSE "MIDDLE")]
      j == off + H + r
      \* no room for another header: zero fill, next block (queueBlock / writeBlock)
      noff == IF B - (j - (off - i)) < H THEN (off - i) + B ELSE j
  IN IF rem - r > 0 THEN Emit(fmt, lognum, noff, k, rem - r, FALSE, Append(acc, c))
     ELSE [chunks |-> Append(acc, c), off |-> noff, end |-> j]

RECURSIVE Recs(_, _, _, _, _, _)
Recs(fmt, lognum, sizes, k, off, acc) ==
  IF k > Len(sizes) THEN [chunks |-> acc, off |-> off, end |-> (IF acc = <<>> THEN 0 ELSE CEnd(acc[Len(acc)]))]
  ELSE LET e == Emit(fmt, lognum, off, k, sizes[k], TRUE, acc) IN Recs(fmt, lognum, sizes, k + 1, e.off, e.chunks)

(* closed: LogWriter.Close appended the EOF trailer (a recyclable header, log  *)
(* number + 1).  Writer (legacy) has no trailer and does not write the final fill. *)
Layout(fmt, lognum, sizes, closed) ==
  LET r == Recs(fmt, lognum, sizes, 1, 0, <<>>) IN
  IF fmt = "legacy" THEN [chunks |-> r.chunks, len |-> r.end, lognum |-> lognum, fmt |-> fmt]
  ELSE IF closed THEN
     [chunks |-> Append(r.chunks, [off |-> r.off, hdr |-> HR, len |-> 0, fmt |-> "recyclable",
                                   lognum |-> (IF BugTrailerSameLogNum THEN lognum ELSE lognum + 1),
                                   so |-> 0, rec |-> 0, pos |-> "EOF"]),
      len |-> r.off + HR, lognum |-> lognum, fmt |-> fmt]
  ELSE [chunks |-> r.chunks, len |-> r.off, lognum |-> lognum, fmt |-> fmt]

(* sync offsets written into walsync headers: so[i] for chunk i *)
WithSO(lay, so) == [lay EXCEPT !.chunks = [i \in 1..Len(lay.chunks) |-> [lay.chunks[i] EXCEPT !.so = so[i]]]]

(* ------------------------------- File ----------------------------------- *)
(* F = [new, at, tail, old, dlo, dhi, dkind]                                  *)
(*  bytes [0, at) come from `new`; tail "cut": file ends at `at`;             *)
(*  "zero": zeros up to new.len; "old": bytes [at, old.len) of `old`.         *)
(*  damage: bytes [dlo, dhi) (inside the new region) are "flip" (garbage) or  *)
(*  "zero"; dlo = dhi means none.                                             *)
FileLen(F) == CASE F.tail = "cut" -> Min(F.at, F.new.len)
                [] F.tail = "zero" -> F.new.len
                [] OTHER -> Max(Min(F.at, F.new.len), F.old.len)
Cut(F) == Min(F.at, F.new.len)
Overlaps(a, b, c, d) == a < d /\ c < b /\ a < b /\ c < d
(* Zeroing bytes [p, end) of a header-only chunk changes nothing when those bytes *)
(* are zero anyway: the upper bytes of a small log number (field [HL, HR)) and of *)
(* the sync offset (field [HR, HW), little endian).                               *)
RECURSIVE Pow256(_)
Pow256(k) == IF k <= 0 THEN 1 ELSE IF k >= 3 THEN 16777216 ELSE 256 * Pow256(k - 1)
ZeroSafe(c, p) == /\ c.len = 0 /\ c.fmt # "legacy" /\ p >= HL + 1 /\ c.lognum < 256
                  /\ (c.fmt = "recyclable" \/ c.so < Pow256(Max(p, HR) - HR))
Survives(F, c) == F.tail = "zero" /\ c.off < Cut(F) /\ ZeroSafe(c, Cut(F) - c.off)
NewHdrOK(F, c) == (c.off + c.hdr <= Cut(F) \/ Survives(F, c)) /\ ~Overlaps(c.off, c.off + c.hdr, F.dlo, F.dhi)
NewFullOK(F, c) == (CEnd(c) <= Cut(F) \/ Survives(F, c)) /\ ~Overlaps(c.off, CEnd(c), F.dlo, F.dhi)
OldOK(F, c) == F.tail = "old" /\ c.off >= Cut(F)

SeqToSet(s) == {s[i] : i \in 1..Len(s)}
(* zero regions [a, b) *)
Gaps(lay) == {<<CEnd(lay.chunks[i]), (IF i = Len(lay.chunks) THEN lay.len ELSE lay.chunks[i + 1].off)>> : i \in 1..Len(lay.chunks)}
NonEmpty(S) == {g \in S : g[1] < g[2]}
ZeroRegions(F) == NonEmpty(
  {<<g[1], Min(g[2], Cut(F))>> : g \in Gaps(F.new)}
  \cup (IF F.tail = "zero" THEN {<<Cut(F), F.new.len>>} ELSE {})
  \cup (IF F.tail = "old" THEN {<<Max(g[1], Cut(F)), g[2]>> : g \in Gaps(F.old)} ELSE {})
  \cup (IF F.dkind = "zero" THEN {<<F.dlo, F.dhi>>} ELSE {}))
(* F.zr, F.ncs, F.ocs are ZeroRegions(F) and the chunk sets, computed once per file *)
RECURSIVE ZeroEnd(_, _)
ZeroEnd(F, o) == LET R == {g \in F.zr : g[1] <= o /\ o < g[2]} IN
                 IF R = {} THEN o ELSE ZeroEnd(F, (CHOOSE g \in R : \A h \in R : h[2] <= g[2])[2])

(* what the reader finds when it parses a header at absolute offset o *)
Win(F, o, nend) ==
  LET NC == {c \in F.ncs : c.off = o /\ NewHdrOK(F, c)}
      OC == IF F.tail = "old" THEN {c \in F.ocs : c.off = o /\ OldOK(F, c)} ELSE {}
      z == Min(ZeroEnd(F, o), nend)
  IN IF NC # {} THEN LET c == CHOOSE c \in NC : TRUE IN [k |-> IF NewFullOK(F, c) THEN "chunk" ELSE "hdronly", c |-> c, zend |-> o]
     ELSE IF OC # {} THEN [k |-> "chunk", c |-> CHOOSE c \in OC : TRUE, zend |-> o]
     ELSE IF z - o >= HL THEN [k |-> "zero", c |-> <<>>, zend |-> z]
     ELSE [k |-> "garbage", c |-> <<>>, zend |-> o]

(* ------------------------------ Reader ---------------------------------- *)
(* s = [blk, n, b, e]: Reader.blockNum, n, begin, end                        *)
Fail(kind, s, inv, o) == [st |-> kind, s |-> s, c |-> <<>>, inv |-> inv, o |-> o]
RECURSIVE NextChunk(_, _, _)
NextChunk(F, s, wf) ==
  IF s.e + HL <= s.n THEN
    LET o == s.blk * B + s.e
        nend == s.blk * B + s.n
        w == Win(F, o, nend)
        binv == s.blk * B + s.b
    IN CASE w.k = "zero" ->
              IF s.e + HR > s.n THEN NextChunk(F, [s EXCEPT !.e = s.n], wf)
              ELSE IF s.e + HW > s.n THEN
                   (IF w.zend >= nend THEN NextChunk(F, [s EXCEPT !.e = s.n], wf) ELSE Fail("ZERO", s, binv, o))
              ELSE Fail("ZERO", s, binv, o)
         [] w.k = "garbage" -> Fail("INV", s, binv, o)
         [] OTHER ->
              LET c == w.c
                  nb == s.e + c.hdr
                  ne == nb + c.len
              IN IF c.fmt # "legacy" /\ s.e + c.hdr > s.n THEN Fail("INV", s, binv, o)
                 ELSE IF c.fmt # "legacy" /\ c.lognum # F.new.lognum /\ ~BugAcceptStaleLogNum THEN
                      (IF c.lognum = F.new.lognum + 1 /\ wf THEN Fail("EOF", s, 0, o) ELSE Fail("INV", s, binv, o))
                 \* straddles the block / checksum mismatch (the trailer's CRC field is zero: never matches)
                 ELSE IF ne > s.n \/ w.k = "hdronly" \/ c.pos = "EOF" THEN Fail("INV", s, s.blk * B + nb, o)
                 ELSE IF wf /\ c.pos \notin {"FULL", "FIRST"} THEN NextChunk(F, [s EXCEPT !.b = nb, !.e = ne], wf)
                 ELSE [st |-> "ok", s |-> [s EXCEPT !.b = nb, !.e = ne], c |-> c, inv |-> 0, o |-> o]
  ELSE IF s.n < B /\ s.blk >= 0 THEN
    (IF ~wf \/ s.e # s.n THEN Fail("INV", s, s.blk * B + s.b, s.blk * B + s.e) ELSE Fail("EOF", s, 0, 0))
  ELSE LET start == (s.blk + 1) * B
           n2 == Min(B, FileLen(F) - start)
       IN IF n2 <= 0 THEN (IF wf THEN Fail("EOF", s, 0, 0) ELSE Fail("UEOF", s, s.blk * B + s.b, 0))
          ELSE NextChunk(F, [blk |-> s.blk + 1, n |-> n2, b |-> 0, e |-> 0], wf)

(* readAheadForCorruption: scan the following blocks from their starts *)
RECURSIVE RA(_, _, _, _)
RA(F, blk, e, inv) ==
  LET start == blk * B
      n == Min(B, FileLen(F) - start)
  IN IF n <= 0 THEN "UEOF"
     ELSE IF e + HL > n THEN RA(F, blk + 1, 0, inv)
     ELSE LET w == Win(F, start + e, start + n) IN
          IF w.k # "chunk" THEN RA(F, blk + 1, 0, inv)
          ELSE IF w.c.fmt # "legacy" /\ w.c.lognum # F.new.lognum THEN RA(F, blk + 1, 0, inv)
          ELSE IF w.c.pos = "EOF" THEN RA(F, blk + 1, 0, inv)
          ELSE IF w.c.fmt = "walsync" /\ (IF BugReadAheadGE THEN w.c.so >= inv ELSE w.c.so > inv) THEN "CORR"
          ELSE RA(F, blk, e + w.c.hdr + w.c.len, inv)

(* the terminal, with the invalid offset taken at the low / high end of the   *)
(* chunk in which parsing failed (the exact value depends on which header check *)
(* fires first; every such value lies in [chunk start, chunk end))            *)
(* Reader.invalidOffset is the payload start (begin) when the header parses and  *)
(* the checksum fails, so read-ahead needs a sync offset beyond the payload start: *)
(* for a header-only chunk (len = 0) that is beyond the END of the chunk.  A      *)
(* damaged empty record whose end equals the later sync offset is therefore not   *)
(* reported by the real Reader (reported to the lead as a finding; WAL batches    *)
(* are never empty).  MustBound is the bound the code can honour.                 *)
MustBound(c) == Max(CEnd(c) - 1, c.off + c.hdr)
ChunkAround(F, o) == {c \in F.ncs : c.off <= o /\ o < CEnd(c)}
Term(F, r, mode) ==
  IF r.st \in {"EOF", "UEOF"} THEN r.st
  ELSE IF BugNoReadAhead THEN "UEOF"
  ELSE LET A == ChunkAround(F, r.o)
           inv == IF A = {} THEN r.inv
                  ELSE LET c == CHOOSE c \in A : TRUE IN IF mode = "lo" THEN Min(r.inv, c.off) ELSE Max(r.inv, MustBound(c))
       IN RA(F, r.s.blk + 1, 0, inv)

(* record identity: index k when the parts are exactly the chunks of record k *)
(* of the new log, else -1 (partial, merged or foreign)                       *)
RecId(F, parts) ==
  LET k == parts[1].rec
      mine == SelectSeq(F.new.chunks, LAMBDA c : c.rec = k /\ c.pos # "EOF")
  IN IF k > 0 /\ parts = mine THEN k ELSE -1

RECURSIVE ReadLoop(_, _, _), ReadRec(_, _, _, _, _)
ReadLoop(F, s, recs) ==   \* Reader.Next
  LET r == NextChunk(F, [s EXCEPT !.b = s.e], TRUE) IN
  IF r.st = "ok" THEN ReadRec(F, r.s, r.c, <<r.c>>, recs)
  ELSE [recs |-> recs, lo |-> Term(F, r, "lo"), hi |-> Term(F, r, "hi"), st |-> r.st]
ReadRec(F, s, c, parts, recs) ==   \* singleReader.Read until r.last
  IF c.pos \in {"FULL", "LAST"} THEN ReadLoop(F, s, Append(recs, RecId(F, parts)))
  ELSE LET r == NextChunk(F, [s EXCEPT !.b = s.e], FALSE) IN
       IF r.st = "ok" THEN ReadRec(F, r.s, r.c, Append(parts, r.c), recs)
       ELSE [recs |-> recs, lo |-> Term(F, r, "lo"), hi |-> Term(F, r, "hi"), st |-> r.st]

Read(F) == ReadLoop(F, [blk |-> -1, n |-> 0, b |-> 0, e |-> 0], <<>>)

(* ----------------------------- Properties -------------------------------- *)
NoOld == [chunks |-> <<>>, len |-> 0, lognum |-> 0, fmt |-> "legacy"]
File0(new, at, tail, old, lo, hi, kind) ==
  [new |-> new, at |-> at, tail |-> tail, old |-> old, dlo |-> lo, dhi |-> hi, dkind |-> kind, zr |-> {}, ncs |-> {}, ocs |-> {}]
File(new, at, tail, old, lo, hi, kind) ==
  LET F == File0(new, at, tail, old, lo, hi, kind) IN
  [F EXCEPT !.zr = ZeroRegions(F), !.ncs = SeqToSet(new.chunks), !.ocs = SeqToSet(old.chunks)]
MkFile(new, at, tail, old) == File(new, at, tail, old, 0, 0, "none")
Damaged(new, lo, hi, kind) == File(new, new.len, "cut", NoOld, lo, hi, kind)
Upto(k) == [i \in 1..k |-> i]
NRecs(lay) == IF lay.chunks = <<>> THEN 0 ELSE
              LET c == lay.chunks[Len(lay.chunks)] IN IF c.pos # "EOF" THEN c.rec ELSE IF Len(lay.chunks) = 1 THEN 0 ELSE lay.chunks[Len(lay.chunks) - 1].rec
(* records all of whose chunks are intact, counted from the first *)
RECURSIVE IntactPrefix(_, _)
IntactPrefix(F, k) == IF k < NRecs(F.new) /\ \A c \in F.ncs : c.rec = k + 1 => NewFullOK(F, c)
                      THEN IntactPrefix(F, k + 1) ELSE k

(* C18: exact prefix, clean end *)
CleanPrefix(F) == LET r == Read(F) IN
  /\ r.recs = Upto(IntactPrefix(F, 0))
  /\ r.lo \in {"EOF", "UEOF"} /\ r.hi \in {"EOF", "UEOF"}
RoundTrip(lay) == LET r == Read(MkFile(lay, lay.len, "cut", NoOld)) IN
  r.recs = Upto(NRecs(lay)) /\ r.lo = "EOF" /\ r.hi = "EOF"

(* C19: chunk i of a walsync log is damaged *)
LaterProof(F, c, bound) ==   \* an intact chunk in a later block, reachable by the scan, promising sync beyond bound
  \E d \in F.ncs :
     /\ d.off \div B > c.off \div B /\ d.fmt = "walsync" /\ d.so > bound
     /\ \A x \in F.ncs : (x.off \div B = d.off \div B /\ x.off <= d.off) => NewFullOK(F, x)
CorruptionReported(F, c) == LET r == Read(F) IN
  /\ \A id \in SeqToSet(r.recs) : id > 0 /\ id < c.rec             \* the damaged chunk is never part of a returned record
  /\ r.recs = Upto(c.rec - 1)                                      \* everything before the damage is returned
  /\ (LaterProof(F, c, MustBound(c)) => (r.lo = "CORR" /\ r.hi = "CORR"))     \* synced damage is reported
  /\ (~LaterProof(F, c, c.off) => (r.lo = "UEOF" /\ r.hi = "UEOF"))            \* unsynced damage is an end of log
=============================================================================
