--------------------------- MODULE RecordLogExtra ---------------------------
(* Extra record-size vectors for the generator; overwritten per run by the    *)
(* engine with seeded random vectors.                                          *)
ExtraVecs == {}
=============================================================================
