------------------------- MODULE OpenCorruptionTrace -------------------------
(* C19 end to end: a real DB wrote a WAL (WAL-sync chunk format, real sync      *)
(* points), one chunk of a copy was damaged, the copy was reopened with the real *)
(* Open.  Event reopen{new: observed chunk headers, dlo, dhi, dkind, cls,        *)
(* present: indexes of the batches whose key is readable after a successful      *)
(* Open}.  Each batch is one WAL record.                                         *)
(*   synced damage (RecordLog!LaterProof)  => Open fails, marked ErrCorruption   *)
(*   damage no later sync offset covers    => Open succeeds with exactly the     *)
(*                                            batches before the damaged record  *)
(*   Open never succeeds with a batch at or after the damaged record             *)
EXTENDS RecordLog, Json
Trace == ndJsonDeserialize("trace.ndjson")
VARIABLES l
Ev == Trace[l]
Is(o) == l <= Len(Trace) /\ Trace[l].op = o /\ l' = l + 1

RECURSIVE Obs(_, _, _, _)
Obs(cl, i, k, acc) ==
  IF i > Len(cl) THEN acc
  ELSE LET x == cl[i]
           c == [off |-> x[1], hdr |-> x[2], len |-> x[3], pos |-> x[4], fmt |-> x[5], lognum |-> x[6], so |-> x[7],
                 rec |-> IF x[4] = "EOF" THEN 0 ELSE k]
       IN Obs(cl, i + 1, IF x[4] \in {"FULL", "LAST"} THEN k + 1 ELSE k, Append(acc, c))

TraceInit == l = 1 /\ TLCSet(1, 0)
Reset == Is("reset")
Reopen == Is("reopen") /\
  LET lay == [chunks |-> Obs(Ev.new, 1, 1, <<>>), len |-> Ev.newlen, lognum |-> Ev.lognum, fmt |-> "walsync"]
      F == Damaged(lay, Ev.dlo, Ev.dhi, Ev.dkind)
      c == CHOOSE c \in F.ncs : c.off <= Ev.dlo /\ Ev.dlo < CEnd(c)
  IN /\ (LaterProof(F, c, MustBound(c)) => Ev.cls = "corruption")
     /\ (~LaterProof(F, c, c.off) => Ev.cls = "ok")
     /\ (Ev.cls = "ok" => Ev.present = Upto(c.rec - 1))
     /\ Ev.cls \in {"ok", "corruption"}
TraceNext == Reset \/ Reopen
TraceSpec == TraceInit /\ [][TraceNext]_l
HWM == IF l - 1 > TLCGet(1) THEN TLCSet(1, l - 1) ELSE TRUE
TraceAccepted == PrintT(<<"HWM", TLCGet(1)>>) /\ TLCGet(1) = Len(Trace)
=============================================================================
