---------------------------- MODULE RecordLogGen ----------------------------
(* Mode-A generator, evaluated with the REAL constants (32768, 7, 11, 19):    *)
(* every record-size vector over the boundary classes of the format (plus the  *)
(* seeded extra vectors), its Layout, and the interesting mutilation points.   *)
(* One initial state per (format, vector, closed); the invariant prints it.    *)
EXTENDS RecordLog, Json, RecordLogExtra
CONSTANTS MaxRecs
VARIABLES fmt, sizes, closed
vars == <<fmt, sizes, closed>>

Classes(f) == LET H == Hdr(f) IN
  {0, 1, 40, B - 2 * H - 1, B - 2 * H, B - 2 * H + 1, B - H - 1, B - H, B - H + 1, B, 2 * B - 2 * H, 2 * B + 1}
Vecs(f) == UNION {[1..n -> Classes(f)] : n \in 1..MaxRecs} \cup ExtraVecs
Init == /\ fmt \in {"legacy", "recyclable", "walsync"} /\ sizes \in Vecs(fmt)
        /\ closed \in BOOLEAN /\ (fmt = "legacy" => closed)
Next == UNCHANGED vars
Spec == Init /\ [][Next]_vars

(* cut points: around every chunk start, header end and chunk end, around every *)
(* block boundary, and the end of the file                                      *)
Cuts(lay) ==
  LET pts == UNION {{c.off - 1, c.off, c.off + 1, c.off + 4, c.off + HL - 1, c.off + HL, c.off + c.hdr - 1, c.off + c.hdr,
                     c.off + c.hdr + 1, CEnd(c) - 1, CEnd(c), CEnd(c) + 1} : c \in SeqToSet(lay.chunks)}
             \cup UNION {{k * B - 1, k * B, k * B + 1, k * B + HL, k * B + HR, k * B + HW} : k \in 0..(lay.len \div B)}
             \cup {lay.len - 1, lay.len}
  IN {p \in pts : p >= 0 /\ p <= lay.len}

EmitCase == LET lay == Layout(fmt, 7, sizes, closed) IN
  PrintT(ToJson([fmt |-> fmt, sizes |-> sizes, closed |-> closed, len |-> lay.len,
                 chunks |-> [i \in 1..Len(lay.chunks) |-> <<lay.chunks[i].off, lay.chunks[i].hdr, lay.chunks[i].len, lay.chunks[i].rec>>],
                 cuts |-> Cuts(lay)]))
=============================================================================
