--------------------------- MODULE RecordLogTrace ---------------------------
(* Decides C18 / C19 on what the real record.Writer / LogWriter / Reader did.  *)
(* One case = five trace lines:                                                *)
(*   rcase    inputs (format, sizes, mutilation), the chunk headers the driver  *)
(*            found in the files the REAL writers produced, and what the REAL   *)
(*            Reader returned from the mutilated bytes                          *)
(*   rresult  the property, evaluated on the observed result (C18: exact clean  *)
(*            prefix, clean end; C19: synced damage reported, unsynced damage    *)
(*            is an end of log, no damaged chunk in a returned record)           *)
(*   rconform the observed result equals RecordLog!Read on the observed layout   *)
(*   rlayout  the observed layout equals RecordLog!Layout(fmt, sizes)            *)
(*   reset                                                                       *)
(* A rejection at rresult is a violation by the real code; at rconform/rlayout   *)
(* it is drift between the model and the code.                                   *)
EXTENDS RecordLog, Json

Trace == ndJsonDeserialize("trace.ndjson")
VARIABLES l, cs, F, pred
vars == <<l, cs, F, pred>>
Ev == Trace[l]
Is(o) == l <= Len(Trace) /\ Trace[l].op = o /\ l' = l + 1

(* observed chunk: <<off, hdr, len, pos, fmt, lognum, so>>; the record index is *)
(* the number of records completed before the chunk, plus one                   *)
RECURSIVE Obs(_, _, _, _)
Obs(cl, i, k, acc) ==
  IF i > Len(cl) THEN acc
  ELSE LET x == cl[i]
           c == [off |-> x[1], hdr |-> x[2], len |-> x[3], pos |-> x[4], fmt |-> x[5], lognum |-> x[6], so |-> x[7],
                 rec |-> IF x[4] = "EOF" THEN 0 ELSE k]
       IN Obs(cl, i + 1, IF x[4] \in {"FULL", "LAST"} THEN k + 1 ELSE k, Append(acc, c))
ObsLay(cl, flen, lognum, fmt) == [chunks |-> Obs(cl, 1, 1, <<>>), len |-> flen, lognum |-> lognum, fmt |-> fmt]

TermClass(t) == IF t \in {"INV", "ZERO"} THEN "CORR" ELSE t

TraceInit == l = 1 /\ cs = <<>> /\ F = <<>> /\ pred = <<>> /\ TLCSet(1, 0)
Reset == Is("reset") /\ cs' = <<>> /\ F' = <<>> /\ pred' = <<>>

Case == Is("rcase") /\ cs' = Ev
        /\ LET new == ObsLay(Ev.new, Ev.newlen, Ev.lognum, Ev.fmt)
               old == IF Ev.tail = "old" THEN ObsLay(Ev.old, Ev.oldlen, Ev.oldlog, Ev.fmt) ELSE NoOld
               f == File(new, IF Ev.dkind = "none" THEN Ev.at ELSE Ev.newlen, Ev.tail, old, Ev.dlo, Ev.dhi, Ev.dkind)
           IN F' = f /\ pred' = Read(f)

DamagedChunk == CHOOSE c \in F.ncs : c.off <= cs.dlo /\ cs.dlo < CEnd(c)
(* the property on the observed result *)
Result == Is("rresult") /\ UNCHANGED <<cs, F, pred>>
  /\ IF cs.dkind = "none" THEN
       /\ cs.recs = Upto(IntactPrefix(F, 0))                               \* exact clean prefix, nothing foreign
       /\ cs.term \in {"EOF", "UEOF"}                                      \* clean end or end-of-log error
       /\ ((cs.tail = "cut" /\ cs.at >= cs.newlen) => cs.term = "EOF")     \* an intact log ends cleanly
     ELSE
       LET c == DamagedChunk IN
       /\ cs.recs = Upto(c.rec - 1)                                       \* everything before the damage is returned
       /\ \A id \in SeqToSet(cs.recs) : id < c.rec                         \* a damaged chunk is never returned
       /\ (LaterProof(F, c, MustBound(c)) => TermClass(cs.term) = "CORR")  \* synced damage is reported
       /\ (~LaterProof(F, c, c.off) => cs.term = "UEOF")                   \* unsynced damage: end of log
       /\ cs.term \in {"UEOF", "INV", "ZERO"}

Conform == Is("rconform") /\ UNCHANGED <<cs, F, pred>>
  /\ cs.recs = pred.recs
  /\ (\/ TermClass(cs.term) \in {pred.lo, pred.hi}
      \/ (cs.dkind = "none" /\ ~(cs.tail = "cut" /\ cs.at >= cs.newlen) /\ {cs.term, pred.lo, pred.hi} \subseteq {"EOF", "UEOF"}))

(* the real writers laid the records out as RecordLog!Layout says *)
Proj(lay) == [i \in 1..Len(lay.chunks) |-> <<lay.chunks[i].off, lay.chunks[i].hdr, lay.chunks[i].len, lay.chunks[i].pos,
                                             lay.chunks[i].fmt, lay.chunks[i].lognum, lay.chunks[i].rec>>]
LayoutChk == Is("rlayout") /\ UNCHANGED <<cs, F, pred>>
  /\ LET m == Layout(cs.fmt, cs.lognum, cs.sizes, cs.closed) IN
     /\ m.len = F.new.len /\ Proj(m) = Proj(F.new)

TraceNext == Reset \/ Case \/ Result \/ Conform \/ LayoutChk
TraceSpec == TraceInit /\ [][TraceNext]_vars
HWM == IF l - 1 > TLCGet(1) THEN TLCSet(1, l - 1) ELSE TRUE
TraceAccepted == PrintT(<<"HWM", TLCGet(1)>>) /\ TLCGet(1) = Len(Trace)
=============================================================================
