SPECIFICATION Spec
CONSTANTS
  N = 3
  MaxFaults = 1
  BugCheckBeforeCreateRef = FALSE
  BugDeleteWithoutList = TRUE
  BugDropCloseError = FALSE
INVARIANT Safe
INVARIANT AttachedHaveRef
INVARIANT NoLeak
PROPERTY DeleteOnlyUnreferenced
CHECK_DEADLOCK FALSE
