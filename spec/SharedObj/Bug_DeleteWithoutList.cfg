SPECIFICATION Spec
CONSTANTS
  N = 3
  BugCheckBeforeCreateRef = FALSE
  BugDeleteWithoutList = TRUE
INVARIANT Safe
INVARIANT AttachedHaveRef
INVARIANT NoLeak
PROPERTY DeleteOnlyUnreferenced
CHECK_DEADLOCK FALSE
