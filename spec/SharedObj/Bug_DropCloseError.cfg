SPECIFICATION Spec
CONSTANTS
  N = 3
  MaxFaults = 1
  BugCheckBeforeCreateRef = FALSE
  BugDeleteWithoutList = FALSE
  BugDropCloseError = TRUE
INVARIANT Safe
INVARIANT NoLeak
PROPERTY DeleteOnlyUnreferenced
CHECK_DEADLOCK FALSE
