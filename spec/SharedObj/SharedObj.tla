------------------------------ MODULE SharedObj ------------------------------
(* C41.  Reference-marker protocol of shared remote objects:                         *)
(*   objstorage/objstorageprovider/remote.go          sharedUnref, sharedCreateRef    *)
(*   objstorage/objstorageprovider/remote_backing.go  AttachRemoteObjects             *)
(*   objstorage/objstorageprovider/shared_writable.go Finish (object, then own ref)   *)
(* One shared object in one remote.Storage.  Every action is ONE remote.Storage call  *)
(* of one provider (the granularity at which providers on different nodes interleave),*)
(* except GetBacking, which is local (RemoteObjectBacking + handle.Close: the handle  *)
(* is closed before the race so that isProtected does not mask it).                   *)
(* Providers: 0 created the object (object + own ref exist initially); provider p > 0 *)
(* attaches from a backing handed over by provider p-1 (chained), then removes.       *)
EXTENDS Integers, FiniteSets, TLC
CONSTANTS N,                        \* number of providers (2 or 3)
          BugCheckBeforeCreateRef,  \* seeded bug: origin's ref is checked before the own ref is created
          BugDeleteWithoutList      \* seeded bug: sharedUnref deletes the object without listing the other refs
Prov == 0..(N - 1)
From(p) == p - 1
VARIABLES obj,       \* the object exists in the store
          refs,      \* providers whose ref marker exists in the store
          pc,        \* per provider: idle, backed, check, latecreate, have, list, delobj, fu_del, fu_list, fu_delobj, gone, failed
          attached,  \* providers whose create/attach succeeded and that have not started removing
          listed     \* result of the provider's last List(refs)
vars == <<obj, refs, pc, attached, listed>>

Init == /\ obj = TRUE /\ refs = {0} /\ attached = {0} /\ listed = [p \in Prov |-> {}]
        /\ pc = [p \in Prov |-> IF p = 0 THEN "have" ELSE "idle"]

Goto(p, s) == pc' = [pc EXCEPT ![p] = s]

(* local: provider p-1 encodes the backing while it has the object and hands it to p *)
GetBacking(p) == /\ p # 0 /\ pc[p] = "idle" /\ From(p) \in attached
                 /\ Goto(p, "backed") /\ UNCHANGED <<obj, refs, attached, listed>>
(* AttachRemoteObjects: sharedCreateRef (CreateObject(own ref) + Close) ... *)
ACreateRef(p) == /\ pc[p] = "backed"
                 /\ refs' = (IF BugCheckBeforeCreateRef THEN refs ELSE refs \cup {p})
                 /\ Goto(p, "check") /\ UNCHANGED <<obj, attached, listed>>
(* ... then Size(origin's ref): found => success, else sharedUnref(own) and fail *)
ACheck(p) == /\ pc[p] = "check"
             /\ (IF From(p) \in refs
                 THEN (IF BugCheckBeforeCreateRef
                       THEN attached' = attached /\ Goto(p, "latecreate")
                       ELSE attached' = attached \cup {p} /\ Goto(p, "have"))
                 ELSE attached' = attached /\ Goto(p, "fu_del"))
             /\ UNCHANGED <<obj, refs, listed>>
ALate(p) == /\ pc[p] = "latecreate" /\ refs' = refs \cup {p} /\ attached' = attached \cup {p}
            /\ Goto(p, "have") /\ UNCHANGED <<obj, listed>>
(* Remove = sharedUnref: Delete(own ref); List(ref prefix); if none left Delete(object) *)
RDelRef(p) == /\ pc[p] \in {"have", "fu_del"}
              /\ refs' = refs \ {p} /\ attached' = attached \ {p}
              /\ Goto(p, IF BugDeleteWithoutList THEN (IF pc[p] = "have" THEN "delobj" ELSE "fu_delobj")
                         ELSE (IF pc[p] = "have" THEN "list" ELSE "fu_list"))
              /\ listed' = [listed EXCEPT ![p] = {}]
              /\ UNCHANGED obj
RList(p) == /\ pc[p] \in {"list", "fu_list"}
            /\ listed' = [listed EXCEPT ![p] = refs]
            /\ Goto(p, IF refs = {} THEN (IF pc[p] = "list" THEN "delobj" ELSE "fu_delobj")
                       ELSE (IF pc[p] = "list" THEN "gone" ELSE "failed"))
            /\ UNCHANGED <<obj, refs, attached>>
RDelObj(p) == /\ pc[p] \in {"delobj", "fu_delobj"}
              /\ obj' = FALSE
              /\ Goto(p, IF pc[p] = "delobj" THEN "gone" ELSE "failed")
              /\ UNCHANGED <<refs, attached, listed>>
Next == \E p \in Prov : GetBacking(p) \/ ACreateRef(p) \/ ACheck(p) \/ ALate(p) \/ RDelRef(p) \/ RList(p) \/ RDelObj(p)
Spec == Init /\ [][Next]_vars

(* C41: a provider whose attach succeeded (and that has not started removing) can still read the object; *)
(* the object is deleted only when nobody holds it *)
Safe == \A p \in attached : obj
DeleteOnlyUnreferenced == [][(obj /\ ~obj') => attached = {}]_vars
AttachedHaveRef == \A p \in attached : p \in refs
(* no garbage at the end: when everybody is done the object is gone *)
Finished == \A p \in Prov : pc[p] \in {"gone", "failed"}
NoLeak == Finished => (~obj /\ refs = {})
=============================================================================
