------------------------------ MODULE SharedObj ------------------------------
(* C41.  Reference-marker protocol of shared remote objects:                         *)
(*   objstorage/objstorageprovider/remote.go          sharedUnref, sharedCreateRef    *)
(*   objstorage/objstorageprovider/remote_backing.go  AttachRemoteObjects             *)
(*   objstorage/objstorageprovider/shared_writable.go Finish (object, then own ref)   *)
(*   objstorage/objstorageprovider/provider.go        Remove (may be retried on error)*)
(* One shared object in one remote.Storage.  Every action is ONE remote.Storage       *)
(* operation of one provider (the granularity at which providers on different nodes   *)
(* interleave; an upload = CreateObject + Write* + Close takes effect at Close),      *)
(* except GetBacking, which is local (RemoteObjectBacking + handle.Close: the handle  *)
(* is closed before the race so that isProtected does not mask it).                   *)
(* Providers: 0 creates the object (upload of the object, then of its own ref marker);*)
(* provider p > 0 attaches from a backing handed over by provider p-1 (chained), then *)
(* removes.                                                                           *)
(* Faults: every remote operation may FAIL (transient error, no effect on the store). *)
(* A failed upload surfaces at CreateObject, at Write (objects only: markers are      *)
(* empty) or at Close - three actions with the same effect on the store, so that      *)
(* every generated schedule names the call at which the real code gets the error.     *)
(* A failed operation must be reported by the API: Create/Attach whose marker upload  *)
(* failed does not succeed; Remove that failed may be called again.                   *)
EXTENDS Integers, FiniteSets, TLC
CONSTANTS N,                        \* number of providers (2 or 3)
          MaxFaults,                \* bound: failing remote operations in a behaviour
          BugCheckBeforeCreateRef,  \* seeded bug: origin's ref is checked before the own ref is created
          BugDeleteWithoutList,     \* seeded bug: sharedUnref deletes the object without listing the other refs
          BugDropCloseError         \* seeded bug: sharedCreateRef drops the error of the marker writer's Close
Prov == 0..(N - 1)
From(p) == p - 1
VARIABLES obj,       \* the object exists in the store
          refs,      \* providers whose ref marker exists in the store
          pc,        \* per provider: c_obj, c_ref (0) / idle, backed, check, latecreate (p > 0), have, list, delobj,
                     \*   fu_del, fu_list, fu_delobj, rfailed (Remove returned an error), gone, failed
          attached,  \* providers whose create/attach succeeded and that have not started removing
          listed,    \* result of the provider's last List(refs)
          faults     \* failed remote operations so far
vars == <<obj, refs, pc, attached, listed, faults>>

Init == /\ obj = FALSE /\ refs = {} /\ attached = {} /\ listed = [p \in Prov |-> {}] /\ faults = 0
        /\ pc = [p \in Prov |-> IF p = 0 THEN "c_obj" ELSE "idle"]

Goto(p, s) == pc' = [pc EXCEPT ![p] = s]

(* Create + Write + Finish on provider 0: upload of the object (takes effect at Close) ... *)
CCreateObj(p) == /\ pc[p] = "c_obj" /\ obj' = TRUE /\ Goto(p, "c_ref") /\ UNCHANGED <<refs, attached, listed, faults>>
(* ... then sharedCreateRef: upload of the own ref marker; Finish returns nil *)
CCreateRef(p) == /\ pc[p] = "c_ref" /\ refs' = refs \cup {p} /\ attached' = attached \cup {p}
                 /\ Goto(p, "have") /\ UNCHANGED <<obj, listed, faults>>
(* local: provider p-1 encodes the backing while it has the object and hands it to p *)
GetBacking(p) == /\ p # 0 /\ pc[p] = "idle" /\ From(p) \in attached
                 /\ Goto(p, "backed") /\ UNCHANGED <<obj, refs, attached, listed, faults>>
(* AttachRemoteObjects: sharedCreateRef (CreateObject(own ref) + Close) ... *)
ACreateRef(p) == /\ pc[p] = "backed"
                 /\ refs' = (IF BugCheckBeforeCreateRef THEN refs ELSE refs \cup {p})
                 /\ Goto(p, "check") /\ UNCHANGED <<obj, attached, listed, faults>>
(* ... then Size(origin's ref): found => success, else sharedUnref(own) and fail *)
ACheck(p) == /\ pc[p] = "check"
             /\ (IF From(p) \in refs
                 THEN (IF BugCheckBeforeCreateRef
                       THEN attached' = attached /\ Goto(p, "latecreate")
                       ELSE attached' = attached \cup {p} /\ Goto(p, "have"))
                 ELSE attached' = attached /\ Goto(p, "fu_del"))
             /\ UNCHANGED <<obj, refs, listed, faults>>
ALate(p) == /\ pc[p] = "latecreate" /\ refs' = refs \cup {p} /\ attached' = attached \cup {p}
            /\ Goto(p, "have") /\ UNCHANGED <<obj, listed, faults>>
(* Remove = sharedUnref: Delete(own ref); List(ref prefix); if none left Delete(object).  *)
(* "rfailed": an earlier Remove returned an error; the object is still in the provider's  *)
(* list and Remove is called again (Delete tolerates a missing marker).                   *)
RDelRef(p) == /\ pc[p] \in {"have", "fu_del", "rfailed"}
              /\ refs' = refs \ {p} /\ attached' = attached \ {p}
              /\ Goto(p, IF BugDeleteWithoutList THEN (IF pc[p] = "fu_del" THEN "fu_delobj" ELSE "delobj")
                         ELSE (IF pc[p] = "fu_del" THEN "fu_list" ELSE "list"))
              /\ listed' = [listed EXCEPT ![p] = {}]
              /\ UNCHANGED <<obj, faults>>
RList(p) == /\ pc[p] \in {"list", "fu_list"}
            /\ listed' = [listed EXCEPT ![p] = refs]
            /\ Goto(p, IF refs = {} THEN (IF pc[p] = "list" THEN "delobj" ELSE "fu_delobj")
                       ELSE (IF pc[p] = "list" THEN "gone" ELSE "failed"))
            /\ UNCHANGED <<obj, refs, attached, faults>>
RDelObj(p) == /\ pc[p] \in {"delobj", "fu_delobj"}
              /\ obj' = FALSE
              /\ Goto(p, IF pc[p] = "delobj" THEN "gone" ELSE "failed")
              /\ UNCHANGED <<refs, attached, listed, faults>>

(* ---- failing remote operations: no effect on the store, the error goes to the caller ---- *)
Uploading(p) == pc[p] \in {"c_obj", "c_ref", "backed", "latecreate"}
(* where the provider continues after the failure of its current operation *)
AfterFail(p) == CASE pc[p] \in {"c_obj", "c_ref", "backed", "latecreate"} -> "failed"  \* Finish / Attach return the error
                  [] pc[p] = "check" -> "fu_del"                                         \* Size(origin) failed: clean up, then fail
                  [] pc[p] \in {"have", "rfailed", "list", "delobj"} -> "rfailed"        \* Remove returns the error
                  [] OTHER -> "failed"                                                   \* clean-up of a failed attach: errors ignored
FailStep(p) == /\ faults < MaxFaults /\ faults' = faults + 1
               /\ Goto(p, AfterFail(p))
               /\ attached' = (IF pc[p] \in {"have", "rfailed"} THEN attached \ {p} ELSE attached)   \* Remove was called
               /\ UNCHANGED <<obj, refs, listed>>
FailCreate(p) == Uploading(p) /\ FailStep(p)                      \* CreateObject returns the error
FailWrite(p) == pc[p] = "c_obj" /\ FailStep(p)                    \* Write returns the error
(* Close returns the error.  BugDropCloseError: the marker upload's Close error is dropped, the caller goes on *)
FailClose(p) == /\ Uploading(p)
                /\ (IF BugDropCloseError /\ pc[p] \in {"c_ref", "backed"}
                    THEN /\ faults < MaxFaults /\ faults' = faults + 1
                         /\ Goto(p, IF pc[p] = "c_ref" THEN "have" ELSE "check")
                         /\ attached' = (IF pc[p] = "c_ref" THEN attached \cup {p} ELSE attached)
                         /\ UNCHANGED <<obj, refs, listed>>
                    ELSE FailStep(p))
Fail(p) == /\ pc[p] \in {"check", "have", "rfailed", "fu_del", "list", "fu_list", "delobj", "fu_delobj"} /\ FailStep(p)

Next == \E p \in Prov : \/ CCreateObj(p) \/ CCreateRef(p) \/ GetBacking(p) \/ ACreateRef(p) \/ ACheck(p) \/ ALate(p)
                        \/ RDelRef(p) \/ RList(p) \/ RDelObj(p)
                        \/ FailCreate(p) \/ FailWrite(p) \/ FailClose(p) \/ Fail(p)
Spec == Init /\ [][Next]_vars

(* C41: a provider whose create/attach succeeded (and that has not started removing) can still read the object; *)
(* the object is deleted only when nobody holds it *)
Safe == \A p \in attached : obj
DeleteOnlyUnreferenced == [][(obj /\ ~obj') => attached = {}]_vars
(* create/attach succeeds only with the provider's own marker in the store *)
AttachedHaveRef == \A p \in attached : p \in refs
(* no garbage at the end: when everybody is done (and no operation failed) the object is gone *)
Finished == \A p \in Prov : pc[p] \in {"gone", "failed"}
NoLeak == (Finished /\ faults = 0) => (~obj /\ refs = {})
=============================================================================
