--------------------------- MODULE SharedObjTrace ---------------------------
(* Validation of executions of real objstorage providers sharing one in-memory      *)
(* remote.Storage behind a blocking gate (driver:                                    *)
(* objstorage/objstorageprovider/zz_verif_proto_sharedobj_test.go).  The driver      *)
(* releases one remote.Storage operation at a time - in the order of a TLC-generated *)
(* schedule (forced; the schedule also says which operations FAIL and where an       *)
(* upload's error surfaces) or in seeded random order with seeded random failures    *)
(* (exploration) - and logs what the real code did.                                  *)
(* Strict = TRUE : every released operation must be the spec step of that provider   *)
(*   (same kind of store operation, same result, failing iff made to fail) and the   *)
(*   store contents afterwards must equal the spec's obj / refs; API returns must    *)
(*   match the spec's pc (a failed operation is reported by the API).                *)
(* Strict = FALSE: only C41's own vocabulary: a provider whose Create/Attach returned *)
(*   success and that has not called Remove can open and read the object, and its    *)
(*   own reference marker is in the store (obs).                                     *)
EXTENDS SharedObj, Json, Sequences

CONSTANTS Strict
Trace == ndJsonDeserialize("trace.ndjson")
VARIABLES l
tvars == <<l, obj, refs, pc, attached, listed, faults>>

Ev == Trace[l]
Is(o) == l <= Len(Trace) /\ Trace[l].op = o /\ l' = l + 1
ToSet(s) == {s[i] : i \in 1..Len(s)}

TraceInit == l = 1 /\ Init /\ TLCSet(1, 0)

Start == /\ Is("start") /\ Ev.n = N
         /\ obj' = FALSE /\ refs' = {} /\ attached' = {} /\ listed' = [p \in Prov |-> {}] /\ faults' = 0
         /\ pc' = [p \in Prov |-> IF p = 0 THEN "c_obj" ELSE "idle"]

(* API call begins.  backing: local step; create / attach / remove: the store operations follow as step events *)
Call == /\ Is("call")
        /\ (IF Strict
            THEN \/ (Ev.what = "backing" /\ GetBacking(Ev.p))
                 \/ (Ev.what = "create" /\ pc[Ev.p] = "c_obj" /\ UNCHANGED vars)
                 \/ (Ev.what = "attach" /\ pc[Ev.p] = "backed" /\ UNCHANGED vars)
                 \/ (Ev.what = "remove" /\ pc[Ev.p] \in {"have", "rfailed"} /\ UNCHANGED vars)
            ELSE ( /\ attached' = (IF Ev.what = "remove" THEN attached \ {Ev.p} ELSE attached)
                   /\ UNCHANGED <<obj, refs, pc, listed, faults>>))

(* one released remote.Storage operation of provider p, and the store contents right after it *)
StepKind(p) == CASE pc[p] = "c_obj" -> "createobj"
                 [] pc[p] \in {"c_ref", "backed", "latecreate"} -> "createref"
                 [] pc[p] = "check" -> "size"
                 [] pc[p] \in {"have", "fu_del", "rfailed"} -> "delref"
                 [] pc[p] \in {"list", "fu_list"} -> "list"
                 [] pc[p] \in {"delobj", "fu_delobj"} -> "delobj"
                 [] OTHER -> "none"
Step == /\ Is("step")
        /\ (IF Strict
            THEN /\ Ev.kind = StepKind(Ev.p) /\ Ev.closed
                 /\ (IF Ev.fail
                     THEN \/ (Ev.via = "create" /\ FailCreate(Ev.p))
                          \/ (Ev.via = "write" /\ FailWrite(Ev.p))
                          \/ (Ev.via = "close" /\ FailClose(Ev.p))
                          \/ (Ev.via = "fail" /\ Fail(Ev.p))
                     ELSE /\ (CCreateObj(Ev.p) \/ CCreateRef(Ev.p) \/ ACreateRef(Ev.p) \/ ACheck(Ev.p) \/ ALate(Ev.p)
                                \/ RDelRef(Ev.p) \/ RList(Ev.p) \/ RDelObj(Ev.p))
                          /\ (Ev.kind = "size" => (Ev.arg = From(Ev.p) /\ Ev.found = (From(Ev.p) \in refs)))
                          /\ (Ev.kind = "list" => ToSet(Ev.lst) = refs))
                 /\ (Ev.kind \in {"createref", "delref"} => Ev.arg = Ev.p)
                 /\ obj' = Ev.obj /\ refs' = ToSet(Ev.refs)
            ELSE UNCHANGED vars)

Ret == /\ Is("ret")
       /\ (IF Strict
           THEN /\ (Ev.what \in {"create", "attach"} => (IF Ev.ok THEN pc[Ev.p] = "have" /\ Ev.p \in attached ELSE pc[Ev.p] = "failed"))
                /\ (Ev.what = "remove" => (IF Ev.ok THEN pc[Ev.p] = "gone" ELSE pc[Ev.p] = "rfailed"))
                /\ UNCHANGED vars
           ELSE ( /\ attached' = (IF Ev.what \in {"create", "attach"} /\ Ev.ok THEN attached \cup {Ev.p} ELSE attached)
                  /\ UNCHANGED <<obj, refs, pc, listed, faults>>))

(* after every step: every provider the driver believes attached re-opens and reads the object *)
Obs == /\ Is("obs")
       /\ ToSet(Ev.tested) = attached
       /\ ToSet(Ev.tested) \subseteq ToSet(Ev.readable)          \* C41: still readable
       /\ ToSet(Ev.tested) \subseteq ToSet(Ev.refs)              \* C41: success was reported only with the own marker in the store
       /\ (Strict => (Ev.obj = obj /\ ToSet(Ev.refs) = refs))
       /\ (Strict => Safe)
       /\ UNCHANGED vars

(* end of one run: in Strict mode a fully released run leaves no garbage *)
End == /\ Is("end") /\ (Strict => (Ev.complete => NoLeak)) /\ UNCHANGED vars

(* the real providers could not follow the forced schedule: structural only *)
NoFollow == Is("nofollow") /\ ~Strict /\ UNCHANGED vars

TraceNext == Start \/ Call \/ Step \/ Ret \/ Obs \/ End \/ NoFollow
TraceSpec == TraceInit /\ [][TraceNext]_tvars
HWM == IF l - 1 > TLCGet(1) THEN TLCSet(1, l - 1) ELSE TRUE
TraceAccepted == PrintT(<<"HWM", TLCGet(1)>>) /\ TLCGet(1) = Len(Trace)
=============================================================================
