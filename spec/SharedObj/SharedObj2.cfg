SPECIFICATION Spec
CONSTANTS
  N = 2
  BugCheckBeforeCreateRef = FALSE
  BugDeleteWithoutList = FALSE
INVARIANT Safe
INVARIANT AttachedHaveRef
INVARIANT NoLeak
PROPERTY DeleteOnlyUnreferenced
CHECK_DEADLOCK FALSE
