SPECIFICATION Spec
CONSTANTS
  N = 2
  MaxFaults = 2
  BugCheckBeforeCreateRef = FALSE
  BugDeleteWithoutList = FALSE
  BugDropCloseError = FALSE
INVARIANT Safe
INVARIANT AttachedHaveRef
INVARIANT NoLeak
PROPERTY DeleteOnlyUnreferenced
CHECK_DEADLOCK FALSE
