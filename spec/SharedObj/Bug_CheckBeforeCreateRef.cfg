SPECIFICATION Spec
CONSTANTS
  N = 3
  BugCheckBeforeCreateRef = TRUE
  BugDeleteWithoutList = FALSE
INVARIANT Safe
INVARIANT AttachedHaveRef
INVARIANT NoLeak
PROPERTY DeleteOnlyUnreferenced
CHECK_DEADLOCK FALSE
