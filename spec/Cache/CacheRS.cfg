SPECIFICATION SpecRS
CONSTANTS
  NK = 1
  NV = 2
  Cap = 1
  MaxHold = 1
  Readers = 3
  BugStaleAfterDelete = FALSE
  BugGetNoAcquire = FALSE
  BugWakeAllOnError = FALSE
INVARIANT SingleFlight
INVARIANT OneTurn
INVARIANT RefsExact
CHECK_DEADLOCK FALSE
