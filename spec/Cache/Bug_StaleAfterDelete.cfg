SPECIFICATION Spec
CONSTANTS
  NK = 3
  NV = 3
  Cap = 2
  MaxHold = 1
  Readers = 0
  BugStaleAfterDelete = TRUE
  BugGetNoAcquire = FALSE
  BugWakeAllOnError = FALSE
  BugLeakOnCancel = FALSE
INVARIANT HitIsLatest
INVARIANT NoFreeWhileReferenced
INVARIANT RefsExact
INVARIANT SizeBound
INVARIANT SingleFlight
INVARIANT OneTurn
INVARIANT NoStaleRead
INVARIANT ReadEntryReleased
CHECK_DEADLOCK FALSE
