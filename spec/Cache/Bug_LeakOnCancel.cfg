SPECIFICATION SpecRS
CONSTANTS
  NK = 1
  NV = 2
  Cap = 1
  MaxHold = 1
  Readers = 3
  BugStaleAfterDelete = FALSE
  BugGetNoAcquire = FALSE
  BugWakeAllOnError = FALSE
  BugLeakOnCancel = TRUE
INVARIANT SingleFlight
INVARIANT OneTurn
INVARIANT NoStaleRead
CHECK_DEADLOCK FALSE
