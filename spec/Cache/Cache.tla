-------------------------------- MODULE Cache --------------------------------
(* C34.  internal/cache: block cache keyed by (handle, file, offset).                 *)
(*   cache.go      Handle.Get / Set / Delete / EvictFile / Close, GetWithReadHandle    *)
(*   clockpro.go   shard.get / set / delete / evictFile, eviction (policy abstracted:  *)
(*                 Evict may drop any entry at any time; Set evicts until it fits)     *)
(*   value.go      Value refcounting: acquire / Release / free                         *)
(*   read_shard.go single-flight reads: acquireReadEntry, waitForReadPermissionOrHandle,*)
(*                 setReadValue, setReadError, unrefAndTryRemoveFromMap; a waiter whose *)
(*                 context is cancelled leaves with the context's error               *)
(* Keys 1..NK: key k belongs to file FileOf(k) (one file per handle here).  Value ids  *)
(* 1..NV are allocated in order, each has size 1; Cap = capacity in values.            *)
EXTENDS Integers, FiniteSets, Sequences, TLC
CONSTANTS NK, NV, Cap, MaxHold, Readers,
          BugStaleAfterDelete,   \* seeded: Delete leaves the entry readable
          BugGetNoAcquire,       \* seeded: Get hands out a value without taking a reference
          BugWakeAllOnError,     \* seeded: a failed read releases every waiter as if a value had been set
          BugLeakOnCancel        \* seeded: a waiter whose context is cancelled keeps its reference on the read entry
Keys == 1..NK
Vals == 1..NV
FileOf(k) == (k + 1) \div 2
RK == 1                        \* the key the read-shard readers ask for
VARIABLES stored,    \* stored[k]: value id in the cache for k, 0 = none
          latest,    \* latest[k]: value most recently stored for exactly k and not since deleted/evicted-by-file, 0 = none
          holders,   \* holders[v]: references held by callers (Get results not yet released)
          refs,      \* refs[v]: the Value's reference count
          freed,     \* freed[v]: Value.free ran
          nextv,     \* next value id to allocate
          turn,      \* read shard for RK: reader holding the read turn, 0 = none
          waiters,   \* readers blocked in waitForReadPermissionOrHandle
          out,       \* out[r]: 0 = not finished, -1 = own read error, -2 = released without a value (bug),
                     \*   -3 = context cancelled while waiting, else value id received
          errs,      \* read errors + cancellations so far (bound)
          rec,       \* readEntry.refCount of RK's read entry (0 = no entry in the readMap)
          rev,       \* readEntry.mu.v: the value the entry still carries (0 = none)
          stale      \* history: some reader that arrived after an invalidation was handed the invalidated value
vars == <<stored, latest, holders, refs, freed, nextv, turn, waiters, out, errs, rec, rev, stale>>
RS == 1..Readers

Init == /\ stored = [k \in Keys |-> 0] /\ latest = [k \in Keys |-> 0]
        /\ holders = [v \in Vals |-> 0] /\ refs = [v \in Vals |-> 0] /\ freed = [v \in Vals |-> FALSE]
        /\ nextv = 1 /\ turn = 0 /\ waiters = {} /\ out = [r \in RS |-> 0] /\ errs = 0
        /\ rec = 0 /\ rev = 0 /\ stale = FALSE

InCache(v, st) == \E k \in Keys : st[k] = v
Count(st) == Cardinality({k \in Keys : st[k] # 0})
(* drop the cache's reference on every value that is in `old` but no longer in `new` *)
DropRefs(old, new, rf) == [v \in Vals |-> IF InCache(v, old) /\ ~InCache(v, new) THEN rf[v] - 1 ELSE rf[v]]
FreeZero(rf) == [v \in Vals |-> freed[v] \/ (rf[v] = 0 /\ refs[v] > 0)]
Replace(new, rf) == /\ stored' = new /\ refs' = DropRefs(stored, new, rf) /\ freed' = FreeZero(DropRefs(stored, new, rf))

(* Set(k, fresh value): Alloc (refs 1), shard.set acquires for the cache, caller releases; evicts others until it fits *)
Set(k) == /\ nextv <= NV
          /\ \E ev \in SUBSET (Keys \ {k}) :
               LET new == [j \in Keys |-> IF j = k THEN nextv ELSE IF j \in ev THEN 0 ELSE stored[j]] IN
               /\ Count(new) <= Cap
               /\ (Count([j \in Keys |-> IF j = k THEN nextv ELSE stored[j]]) <= Cap => ev = {})   \* evict only when needed
               /\ Replace(new, [refs EXCEPT ![nextv] = 1])
          /\ latest' = [latest EXCEPT ![k] = nextv] /\ nextv' = nextv + 1
          /\ UNCHANGED <<holders, turn, waiters, out, errs, rec, rev, stale>>
(* Get(k) hit: the caller receives stored[k] with a reference of its own *)
GetHit(k) == /\ stored[k] # 0 /\ holders[stored[k]] < MaxHold
             /\ holders' = [holders EXCEPT ![stored[k]] = @ + 1]
             /\ refs' = (IF BugGetNoAcquire THEN refs ELSE [refs EXCEPT ![stored[k]] = @ + 1])
             /\ UNCHANGED <<stored, latest, freed, nextv, turn, waiters, out, errs, rec, rev, stale>>
Release(v) == /\ holders[v] > 0
              /\ holders' = [holders EXCEPT ![v] = @ - 1]
              /\ refs' = [refs EXCEPT ![v] = @ - 1]
              /\ freed' = [freed EXCEPT ![v] = freed[v] \/ refs[v] = 1]
              /\ UNCHANGED <<stored, latest, nextv, turn, waiters, out, errs, rec, rev, stale>>
Delete(k) == /\ stored[k] # 0 \/ latest[k] # 0
             /\ (IF BugStaleAfterDelete THEN UNCHANGED <<stored, refs, freed>>
                 ELSE Replace([stored EXCEPT ![k] = 0], refs))
             /\ latest' = [latest EXCEPT ![k] = 0]
             /\ UNCHANGED <<holders, nextv, turn, waiters, out, errs, rec, rev, stale>>
EvictFile(f) == /\ \E k \in Keys : FileOf(k) = f /\ (stored[k] # 0 \/ latest[k] # 0)
                /\ Replace([k \in Keys |-> IF FileOf(k) = f THEN 0 ELSE stored[k]], refs)
                /\ latest' = [k \in Keys |-> IF FileOf(k) = f THEN 0 ELSE latest[k]]
                /\ UNCHANGED <<holders, nextv, turn, waiters, out, errs, rec, rev, stale>>
(* the replacement policy may drop any entry at any time (latest[k] stays: a later Get may only miss) *)
Evict(k) == /\ stored[k] # 0 /\ Replace([stored EXCEPT ![k] = 0], refs)
            /\ UNCHANGED <<latest, holders, nextv, turn, waiters, out, errs, rec, rev, stale>>

(* ---- read shard, key RK ---- *)
(* getWithReadEntry: a hit in the block map, else acquireReadEntry (refCount++) and waitForReadPermissionOrHandle *)
Arrive(r) == /\ out[r] = 0 /\ r # turn /\ r \notin waiters
             /\ (IF stored[RK] # 0
                 THEN /\ out' = [out EXCEPT ![r] = stored[RK]] /\ UNCHANGED <<turn, waiters, rec, stale>>     \* cache hit
                 ELSE IF rev # 0                                                                              \* the entry carries a value:
                 THEN /\ out' = [out EXCEPT ![r] = rev] /\ stale' = (stale \/ rev # latest[RK])               \*   handed out, unref
                      /\ UNCHANGED <<turn, waiters, rec>>
                 ELSE IF turn = 0 THEN turn' = r /\ rec' = rec + 1 /\ UNCHANGED <<waiters, out, stale>>        \* becomes the reader
                 ELSE waiters' = waiters \cup {r} /\ rec' = rec + 1 /\ UNCHANGED <<turn, out, stale>>)        \* waits
             /\ UNCHANGED <<stored, latest, holders, refs, freed, nextv, errs, rev>>
(* the turn holder's read succeeded: SetReadValue(fresh value): every waiter receives that value; the reader and   *)
(* every waiter drop their reference on the entry; the entry (and its value) stays while references are left      *)
RecAfterOK == rec - 1 - Cardinality(waiters)
ReadOK(r) == /\ turn = r /\ nextv <= NV
             /\ \E ev \in SUBSET (Keys \ {RK}) :
                  LET new == [j \in Keys |-> IF j = RK THEN nextv ELSE IF j \in ev THEN 0 ELSE stored[j]] IN
                  /\ Count(new) <= Cap
                  /\ (Count([j \in Keys |-> IF j = RK THEN nextv ELSE stored[j]]) <= Cap => ev = {})
                  /\ Replace(new, [refs EXCEPT ![nextv] = 1 + (IF RecAfterOK > 0 THEN 1 ELSE 0)])
             /\ latest' = [latest EXCEPT ![RK] = nextv] /\ nextv' = nextv + 1
             /\ out' = [x \in RS |-> IF x = r \/ x \in waiters THEN nextv ELSE out[x]]
             /\ turn' = 0 /\ waiters' = {}
             /\ rec' = RecAfterOK /\ rev' = (IF RecAfterOK > 0 THEN nextv ELSE 0)
             /\ UNCHANGED <<holders, errs, stale>>
(* the turn holder's read failed: SetReadError: it reports its own error; ONE waiter takes the turn *)
ReadErr(r) == /\ turn = r /\ errs < 2
              /\ errs' = errs + 1
              /\ (IF BugWakeAllOnError
                  THEN /\ out' = [x \in RS |-> IF x = r THEN -1 ELSE IF x \in waiters THEN -2 ELSE out[x]]
                       /\ turn' = 0 /\ waiters' = {} /\ rec' = rec - 1 - Cardinality(waiters)
                  ELSE IF waiters = {} THEN out' = [out EXCEPT ![r] = -1] /\ turn' = 0 /\ waiters' = waiters /\ rec' = rec - 1
                  ELSE \E w \in waiters : out' = [out EXCEPT ![r] = -1] /\ turn' = w /\ waiters' = waiters \ {w} /\ rec' = rec - 1)
              /\ UNCHANGED <<stored, latest, holders, refs, freed, nextv, rev, stale>>
(* a waiter's context is cancelled (or was cancelled before it started to wait): it returns the context's error and *)
(* drops its reference on the entry *)
Cancel(r) == /\ r \in waiters /\ errs < 2
             /\ errs' = errs + 1
             /\ out' = [out EXCEPT ![r] = -3] /\ waiters' = waiters \ {r}
             /\ rec' = (IF BugLeakOnCancel THEN rec ELSE rec - 1)
             /\ UNCHANGED <<stored, latest, holders, refs, freed, nextv, turn, rev, stale>>

Next == \/ \E k \in Keys : Set(k) \/ GetHit(k) \/ Delete(k) \/ Evict(k)
        \/ \E v \in Vals : Release(v)
        \/ \E f \in {FileOf(k) : k \in Keys} : EvictFile(f)
        \/ \E r \in RS : Arrive(r) \/ ReadOK(r) \/ ReadErr(r) \/ Cancel(r)
Spec == Init /\ [][Next]_vars
(* the read shard alone (schedule generation for mode C) *)
(* with cancelled waiters and an invalidation of the block (Delete) between the readers *)
NextRS == (\E r \in RS : Arrive(r) \/ ReadOK(r) \/ ReadErr(r) \/ Cancel(r)) \/ Delete(RK)
SpecRS == Init /\ [][NextRS]_vars

(* ---- C34 ---- *)
(* a hit is the value most recently stored for exactly that key; after Delete / EvictFile there is none *)
HitIsLatest == \A k \in Keys : stored[k] \in {0, latest[k]}
(* a value is never freed while referenced (by a caller or by the cache) *)
NoFreeWhileReferenced == \A v \in Vals : freed[v] => (holders[v] = 0 /\ ~InCache(v, stored))
RefsExact == \A v \in Vals : ~freed[v] => refs[v] = holders[v] + (IF InCache(v, stored) THEN 1 ELSE 0) + (IF rev = v THEN 1 ELSE 0)
SizeBound == Count(stored) <= Cap
(* single flight: every reader that got a value got the value some turn holder set; errors only to the reader that failed *)
SingleFlight == /\ \A r \in RS : out[r] # -2
                /\ \A r \in RS : out[r] > 0 => out[r] < nextv
OneTurn == turn = 0 => waiters = {}
(* a reader that arrives after Delete / EvictFile never receives the invalidated value through the read shard *)
NoStaleRead == ~stale
(* the read entry lives exactly as long as somebody is inside GetWithReadHandle / holds the turn *)
ReadEntryReleased == rec = (IF turn # 0 THEN 1 ELSE 0) + Cardinality(waiters)
=============================================================================
