SPECIFICATION Spec
CONSTANTS
  NK = 3
  NV = 3
  Cap = 2
  MaxHold = 1
  Readers = 2
  BugStaleAfterDelete = FALSE
  BugGetNoAcquire = FALSE
  BugWakeAllOnError = FALSE
  BugLeakOnCancel = FALSE
INVARIANT HitIsLatest
INVARIANT NoFreeWhileReferenced
INVARIANT RefsExact
INVARIANT SizeBound
INVARIANT SingleFlight
INVARIANT OneTurn
INVARIANT NoStaleRead
INVARIANT ReadEntryReleased
CHECK_DEADLOCK FALSE
