------------------------------ MODULE CacheTrace ------------------------------
(* Validation of executions of the real internal/cache (driver:                        *)
(* internal/cache/zz_verif_proto_cache_test.go).                                        *)
(* Mode B (sequential op sequences, TestVProtoCacheSeq): after EVERY op the driver logs *)
(*   present[k] = value id Peek returns for key k (0 = miss), held = [id, Value.refs()] *)
(*   for every value it holds a reference to, Cache.Size(), MaxSize(), and the number   *)
(*   of outstanding reservations.  The checks are C34's own vocabulary:                 *)
(*     hit = latest value stored for exactly that key (miss after Delete/EvictFile/     *)
(*     Close); refs >= references held by callers + the cache's own (Strict: equal);    *)
(*     size <= capacity when nothing is reserved.  Eviction is free: an entry may       *)
(*     disappear after any op (Cache!Evict), nothing may appear.                        *)
(*   Read turns: a GetWithReadHandle that returns a valid ReadHandle holds the turn for  *)
(*   its key (pt) until rhset / rherr, any number of ops later; meanwhile a              *)
(*   GetWithReadHandle for that key comes with a cancelled context and returns the       *)
(*   context's error (only then).  What any GetWithReadHandle returns is a miss (turn)   *)
(*   or the latest value stored for exactly that key - also after Delete / EvictFile.    *)
(* Mode C (read shard, TestVProtoCacheRS): TLC-generated schedules of Arrive / ReadOK / *)
(*   ReadErr / Cancel (a waiter's context is cancelled) / Delete over the readers of one *)
(*   block; the block read function is the gate.                                        *)
(*   Strict replays Cache.tla's actions; Strict = FALSE checks only that every reader   *)
(*   that got a value got the value of the successful read (a reader arriving later: the *)
(*   value most recently read and not deleted since), that a read error went only to the *)
(*   reader whose own read failed and a context error only to the cancelled reader.      *)
EXTENDS Cache, Json
CONSTANTS Strict, MaxK
Trace == ndJsonDeserialize("trace.ndjson")
VARIABLES l, st, lt, hold, li,  \* li: bytes of the most recently inserted value
          pt,                   \* pt[k]: a caller holds the read turn for key k (mode B)
          rl                    \* mode C: id of the value most recently read into the cache and not deleted since, 0 = none
SV == <<st, lt, hold, li, pt, rl>>
tvars == <<l, st, lt, hold, li, pt, rl, vars>>
Ev == Trace[l]
Is(o) == l <= Len(Trace) /\ Trace[l].op = o /\ l' = l + 1
TK == 1..MaxK
SeqSet(s) == {s[i] : i \in 1..Len(s)}
Zero == [k \in TK |-> 0]
NoTurns == [k \in TK |-> FALSE]

TraceInit == l = 1 /\ st = Zero /\ lt = Zero /\ hold = <<>> /\ li = 0 /\ pt = NoTurns /\ rl = 0 /\ Init /\ TLCSet(1, 0) /\ TLCSet(2, 0)

HoldOf(id) == IF id \in DOMAIN hold THEN hold[id] ELSE 0
HoldAdd(id, d) == [x \in (DOMAIN hold \cup {id}) |-> IF x = id THEN HoldOf(id) + d ELSE hold[x]]
(* observation after an op whose effect on the cache contents is `exp` (expected contents before free eviction) *)
ObsOK(e, exp, h) ==
    /\ \A k \in TK : e.present[k] \in {0, exp[k]}                                       \* nothing appears, anything may be evicted
    /\ \A i \in 1..Len(e.held) :
         LET id == e.held[i][1]  rf == e.held[i][2]
             want == (IF id \in DOMAIN h THEN h[id] ELSE 0) + (IF \E k \in TK : e.present[k] = id THEN 1 ELSE 0) IN
         /\ rf >= want /\ want >= 1                                                        \* never freed while referenced
         /\ (Strict => rf = want)
    \* accounted size within capacity.  shard.metaAdd evicts until size < capacity and THEN links the new entry, so right
    \* after an insertion (and until the next one) the size may exceed the capacity by less than the inserted value.
    /\ (e.resv = 0 => (e.size <= e.max \/ e.size < e.max + (IF e.op \in {"set", "rhset"} THEN e.vsize ELSE li)))
    \* the property's literal clause (size <= capacity after every completed op) is counted, not enforced: see KNOWN_FINDINGS (C34)
    /\ (IF e.resv = 0 /\ e.size > e.max THEN TLCSet(2, TLCGet(2) + 1) ELSE TRUE)
    /\ li' = (IF e.op \in {"set", "rhset"} THEN e.vsize ELSE li)
    /\ st' = [k \in TK |-> e.present[k]]

NewCache == Is("newcache") /\ st' = Zero /\ lt' = Zero /\ hold' = <<>> /\ li' = 0 /\ pt' = NoTurns /\ UNCHANGED <<rl, vars>>
SetOp == /\ Is("set") /\ ObsOK(Ev, [st EXCEPT ![Ev.k] = Ev.id], hold)
         /\ lt' = [lt EXCEPT ![Ev.k] = Ev.id] /\ UNCHANGED <<hold, pt, rl, vars>>
(* Get: a hit returns exactly what is stored (= latest), and the caller now holds a reference *)
GetOp == /\ Is("get")
         /\ Ev.res \in {0, lt[Ev.k]}                                                       \* C34: miss or the latest value for exactly this key
         /\ (Strict => Ev.res = st[Ev.k])
         /\ LET h2 == IF Ev.res # 0 THEN HoldAdd(Ev.res, 1) ELSE hold IN ObsOK(Ev, st, h2) /\ hold' = h2
         /\ UNCHANGED <<lt, pt, rl, vars>>
RelOp == /\ Is("rel") /\ HoldOf(Ev.id) > 0
         /\ LET h2 == HoldAdd(Ev.id, -1) IN ObsOK(Ev, st, h2) /\ hold' = h2
         /\ UNCHANGED <<lt, pt, rl, vars>>
DelOp == /\ Is("del") /\ ObsOK(Ev, [st EXCEPT ![Ev.k] = 0], hold)
         /\ lt' = [lt EXCEPT ![Ev.k] = 0] /\ UNCHANGED <<hold, pt, rl, vars>>
(* EvictFile / handle Close: every key of the file / handle is gone *)
DropKeys == /\ (Is("evictfile") \/ Is("closeh"))
            /\ ObsOK(Ev, [k \in TK |-> IF k \in SeqSet(Ev.ks) THEN 0 ELSE st[k]], hold)
            /\ lt' = [k \in TK |-> IF k \in SeqSet(Ev.ks) THEN 0 ELSE lt[k]] /\ UNCHANGED <<hold, pt, rl, vars>>
Other == /\ (Is("newh") \/ Is("reserve") \/ Is("unreserve")) /\ ObsOK(Ev, st, hold) /\ UNCHANGED <<lt, hold, pt, rl, vars>>
(* GetWithReadHandle (one caller at a time): a hit like Get; on a miss the caller gets the read turn - unless another   *)
(* caller holds it: then it would wait, its context is cancelled and it gets the context's error (nothing else).         *)
(* The turn is given back by rhset (SetReadValue) or rherr (SetReadError), possibly many ops later.                      *)
RhGet == /\ Is("rhget")
         /\ (IF Ev.err
             THEN Ev.cancelled /\ pt[Ev.k] /\ Ev.res = 0 /\ ~Ev.turn
             ELSE /\ Ev.res \in {0, lt[Ev.k]}                                             \* C34: a miss or the latest value of exactly this key
                  /\ (Strict => Ev.res = st[Ev.k])
                  /\ (Ev.turn <=> Ev.res = 0) /\ (Ev.turn => ~pt[Ev.k]))                 \* single flight: one turn per key
         /\ LET h2 == IF Ev.res # 0 THEN HoldAdd(Ev.res, 1) ELSE hold IN ObsOK(Ev, st, h2) /\ hold' = h2
         /\ pt' = [pt EXCEPT ![Ev.k] = pt[Ev.k] \/ Ev.turn]
         /\ UNCHANGED <<lt, rl, vars>>
RhSet == /\ Is("rhset") /\ pt[Ev.k] /\ ObsOK(Ev, [st EXCEPT ![Ev.k] = Ev.id], HoldAdd(Ev.id, 1))
         /\ hold' = HoldAdd(Ev.id, 1)          \* SetReadValue leaves the caller with its own reference
         /\ pt' = [pt EXCEPT ![Ev.k] = FALSE]
         /\ lt' = [lt EXCEPT ![Ev.k] = Ev.id] /\ UNCHANGED <<rl, vars>>
RhErr == /\ Is("rherr") /\ pt[Ev.k] /\ ObsOK(Ev, st, hold) /\ pt' = [pt EXCEPT ![Ev.k] = FALSE] /\ UNCHANGED <<lt, hold, rl, vars>>

(* ---- mode C: one read-shard episode on a fresh cache; ids restart at 1 ---- *)
RStart == /\ Is("rstart") /\ Ev.readers = Readers
          /\ stored' = [k \in Keys |-> 0] /\ latest' = [k \in Keys |-> 0]
          /\ holders' = [v \in Vals |-> 0] /\ refs' = [v \in Vals |-> 0] /\ freed' = [v \in Vals |-> FALSE]
          /\ nextv' = 1 /\ turn' = 0 /\ waiters' = {} /\ out' = [r \in RS |-> 0] /\ errs' = 0
          /\ rec' = 0 /\ rev' = 0 /\ stale' = FALSE
          /\ rl' = 0 /\ UNCHANGED <<st, lt, hold, li, pt>>
(* what the real readers reported since the previous scheduler action: rets = [[reader, code]...], code as Cache!out; *)
(* turns = readers that came back holding the read turn; blocked = readers still inside GetWithReadHandle *)
RsView(e) == /\ \A i \in 1..Len(e.rets) : out'[e.rets[i][1]] = e.rets[i][2]
             /\ {r \in RS : out'[r] # 0 /\ out[r] = 0} = {e.rets[i][1] : i \in 1..Len(e.rets)}
             /\ turn' = e.turn /\ waiters' = SeqSet(e.blocked)
(* a reader that arrives gets the read turn, waits, or receives the value most recently read and not deleted since *)
RArrive == /\ Is("arrive")
           /\ \A i \in 1..Len(Ev.rets) : Ev.rets[i] = <<Ev.r, rl>> /\ rl # 0               \* C34: never an invalidated value
           /\ (IF Strict THEN Arrive(Ev.r) /\ RsView(Ev) /\ ~stale' ELSE UNCHANGED vars)
           /\ UNCHANGED SV
ROk == /\ Is("readok")
       /\ \A i \in 1..Len(Ev.rets) : Ev.rets[i][2] = Ev.id                                \* C34: everybody released by this read got ITS value
       /\ (IF Strict THEN ReadOK(Ev.r) /\ nextv = Ev.id /\ RsView(Ev) ELSE UNCHANGED vars)
       /\ rl' = Ev.id /\ UNCHANGED <<st, lt, hold, li, pt>>
RErr == /\ Is("readerr")
        /\ \A i \in 1..Len(Ev.rets) : Ev.rets[i] = <<Ev.r, -1>>                             \* C34: the error goes to the reader whose read failed, only
        /\ (IF Strict THEN ReadErr(Ev.r) /\ RsView(Ev) ELSE UNCHANGED vars)
        /\ UNCHANGED SV
(* the context of a waiting reader is cancelled: that reader, and nobody else, returns the context's error *)
RCancel == /\ Is("cancel")
           /\ \A i \in 1..Len(Ev.rets) : Ev.rets[i] = <<Ev.r, -3>>                          \* C34
           /\ (IF Strict THEN Cancel(Ev.r) /\ RsView(Ev) ELSE UNCHANGED vars)
           /\ UNCHANGED SV
(* Delete of the block: nobody returns because of it *)
RDel == /\ Is("rdel") /\ Len(Ev.rets) = 0
        /\ (IF Strict THEN Delete(RK) /\ RsView(Ev) ELSE UNCHANGED vars)
        /\ rl' = 0 /\ UNCHANGED <<st, lt, hold, li, pt>>
NoFollow == Is("nofollow") /\ ~Strict /\ UNCHANGED <<SV, vars>>

TraceNext == NewCache \/ SetOp \/ GetOp \/ RelOp \/ DelOp \/ DropKeys \/ Other \/ RhGet \/ RhSet \/ RhErr
             \/ RStart \/ RArrive \/ ROk \/ RErr \/ RCancel \/ RDel \/ NoFollow
TraceSpec == TraceInit /\ [][TraceNext]_tvars
HWM == IF l - 1 > TLCGet(1) THEN TLCSet(1, l - 1) ELSE TRUE
TraceAccepted == PrintT(<<"HWM", TLCGet(1)>>) /\ PrintT(<<"OVERCAP", TLCGet(2)>>) /\ TLCGet(1) = Len(Trace)
=============================================================================
