------------------------------ MODULE CacheTrace ------------------------------
(* Validation of executions of the real internal/cache (driver:                        *)
(* internal/cache/zz_verif_proto_cache_test.go).                                        *)
(* Mode B (sequential op sequences, TestVProtoCacheSeq): after EVERY op the driver logs *)
(*   present[k] = value id Peek returns for key k (0 = miss), held = [id, Value.refs()] *)
(*   for every value it holds a reference to, Cache.Size(), MaxSize(), and the number   *)
(*   of outstanding reservations.  The checks are C34's own vocabulary:                 *)
(*     hit = latest value stored for exactly that key (miss after Delete/EvictFile/     *)
(*     Close); refs >= references held by callers + the cache's own (Strict: equal);    *)
(*     size <= capacity when nothing is reserved.  Eviction is free: an entry may       *)
(*     disappear after any op (Cache!Evict), nothing may appear.                        *)
(* Mode C (read shard, TestVProtoCacheRS): TLC-generated schedules of Arrive / ReadOK / *)
(*   ReadErr over the readers of one block; the block read function is the gate.        *)
(*   Strict replays Cache.tla's actions; Strict = FALSE checks only that every reader   *)
(*   that got a value got the value of the successful read and that an error went only  *)
(*   to the reader whose own read failed.                                               *)
EXTENDS Cache, Json
CONSTANTS Strict, MaxK
Trace == ndJsonDeserialize("trace.ndjson")
VARIABLES l, st, lt, hold, li   \* li: bytes of the most recently inserted value
tvars == <<l, st, lt, hold, li, vars>>
Ev == Trace[l]
Is(o) == l <= Len(Trace) /\ Trace[l].op = o /\ l' = l + 1
TK == 1..MaxK
SeqSet(s) == {s[i] : i \in 1..Len(s)}
Zero == [k \in TK |-> 0]

TraceInit == l = 1 /\ st = Zero /\ lt = Zero /\ hold = <<>> /\ li = 0 /\ Init /\ TLCSet(1, 0) /\ TLCSet(2, 0)

HoldOf(id) == IF id \in DOMAIN hold THEN hold[id] ELSE 0
HoldAdd(id, d) == [x \in (DOMAIN hold \cup {id}) |-> IF x = id THEN HoldOf(id) + d ELSE hold[x]]
(* observation after an op whose effect on the cache contents is `exp` (expected contents before free eviction) *)
ObsOK(e, exp, h) ==
    /\ \A k \in TK : e.present[k] \in {0, exp[k]}                                       \* nothing appears, anything may be evicted
    /\ \A i \in 1..Len(e.held) :
         LET id == e.held[i][1]  rf == e.held[i][2]
             want == (IF id \in DOMAIN h THEN h[id] ELSE 0) + (IF \E k \in TK : e.present[k] = id THEN 1 ELSE 0) IN
         /\ rf >= want /\ want >= 1                                                        \* never freed while referenced
         /\ (Strict => rf = want)
    \* accounted size within capacity.  shard.metaAdd evicts until size < capacity and THEN links the new entry, so right
    \* after an insertion (and until the next one) the size may exceed the capacity by less than the inserted value.
    /\ (e.resv = 0 => (e.size <= e.max \/ e.size < e.max + (IF e.op \in {"set", "rhset"} THEN e.vsize ELSE li)))
    \* the property's literal clause (size <= capacity after every completed op) is counted, not enforced: see KNOWN_FINDINGS (C34)
    /\ (IF e.resv = 0 /\ e.size > e.max THEN TLCSet(2, TLCGet(2) + 1) ELSE TRUE)
    /\ li' = (IF e.op \in {"set", "rhset"} THEN e.vsize ELSE li)
    /\ st' = [k \in TK |-> e.present[k]]

NewCache == Is("newcache") /\ st' = Zero /\ lt' = Zero /\ hold' = <<>> /\ li' = 0 /\ UNCHANGED vars
SetOp == /\ Is("set") /\ ObsOK(Ev, [st EXCEPT ![Ev.k] = Ev.id], hold)
         /\ lt' = [lt EXCEPT ![Ev.k] = Ev.id] /\ UNCHANGED <<hold, vars>>
(* Get: a hit returns exactly what is stored (= latest), and the caller now holds a reference *)
GetOp == /\ Is("get")
         /\ Ev.res \in {0, lt[Ev.k]}                                                       \* C34: miss or the latest value for exactly this key
         /\ (Strict => Ev.res = st[Ev.k])
         /\ LET h2 == IF Ev.res # 0 THEN HoldAdd(Ev.res, 1) ELSE hold IN ObsOK(Ev, st, h2) /\ hold' = h2
         /\ UNCHANGED <<lt, vars>>
RelOp == /\ Is("rel") /\ HoldOf(Ev.id) > 0
         /\ LET h2 == HoldAdd(Ev.id, -1) IN ObsOK(Ev, st, h2) /\ hold' = h2
         /\ UNCHANGED <<lt, vars>>
DelOp == /\ Is("del") /\ ObsOK(Ev, [st EXCEPT ![Ev.k] = 0], hold)
         /\ lt' = [lt EXCEPT ![Ev.k] = 0] /\ UNCHANGED <<hold, vars>>
(* EvictFile / handle Close: every key of the file / handle is gone *)
DropKeys == /\ (Is("evictfile") \/ Is("closeh"))
            /\ ObsOK(Ev, [k \in TK |-> IF k \in SeqSet(Ev.ks) THEN 0 ELSE st[k]], hold)
            /\ lt' = [k \in TK |-> IF k \in SeqSet(Ev.ks) THEN 0 ELSE lt[k]] /\ UNCHANGED <<hold, vars>>
Other == /\ (Is("newh") \/ Is("reserve") \/ Is("unreserve")) /\ ObsOK(Ev, st, hold) /\ UNCHANGED <<lt, hold, vars>>
(* sequential GetWithReadHandle: hit like Get; on a miss the caller has the turn and then sets a value or an error *)
RhGet == /\ Is("rhget")
         /\ Ev.res \in {0, lt[Ev.k]} /\ (Strict => Ev.res = st[Ev.k]) /\ (Ev.turn <=> Ev.res = 0)
         /\ LET h2 == IF Ev.res # 0 THEN HoldAdd(Ev.res, 1) ELSE hold IN ObsOK(Ev, st, h2) /\ hold' = h2
         /\ UNCHANGED <<lt, vars>>
RhSet == /\ Is("rhset") /\ ObsOK(Ev, [st EXCEPT ![Ev.k] = Ev.id], HoldAdd(Ev.id, 1))
         /\ hold' = HoldAdd(Ev.id, 1)          \* SetReadValue leaves the caller with its own reference
         /\ lt' = [lt EXCEPT ![Ev.k] = Ev.id] /\ UNCHANGED vars
RhErr == /\ Is("rherr") /\ ObsOK(Ev, st, hold) /\ UNCHANGED <<lt, hold, vars>>

(* ---- mode C: one read-shard episode on a fresh cache; ids restart at 1 ---- *)
RStart == /\ Is("rstart") /\ Ev.readers = Readers
          /\ stored' = [k \in Keys |-> 0] /\ latest' = [k \in Keys |-> 0]
          /\ holders' = [v \in Vals |-> 0] /\ refs' = [v \in Vals |-> 0] /\ freed' = [v \in Vals |-> FALSE]
          /\ nextv' = 1 /\ turn' = 0 /\ waiters' = {} /\ out' = [r \in RS |-> 0] /\ errs' = 0
          /\ UNCHANGED <<st, lt, hold, li>>
(* what the real readers reported since the previous scheduler action: rets = [[reader, code]...], code as Cache!out; *)
(* turns = readers that came back holding the read turn; blocked = readers still inside GetWithReadHandle *)
RsView(e) == /\ \A i \in 1..Len(e.rets) : out'[e.rets[i][1]] = e.rets[i][2]
             /\ {r \in RS : out'[r] # 0 /\ out[r] = 0} = {e.rets[i][1] : i \in 1..Len(e.rets)}
             /\ turn' = e.turn /\ waiters' = SeqSet(e.blocked)
RArrive == /\ Is("arrive")
           /\ (IF Strict THEN Arrive(Ev.r) /\ RsView(Ev) ELSE UNCHANGED vars)
           /\ UNCHANGED <<st, lt, hold, li>>
ROk == /\ Is("readok")
       /\ \A i \in 1..Len(Ev.rets) : Ev.rets[i][2] = Ev.id                                \* C34: everybody released by this read got ITS value
       /\ (IF Strict THEN ReadOK(Ev.r) /\ nextv = Ev.id /\ RsView(Ev) ELSE UNCHANGED vars)
       /\ UNCHANGED <<st, lt, hold, li>>
RErr == /\ Is("readerr")
        /\ \A i \in 1..Len(Ev.rets) : Ev.rets[i] = <<Ev.r, -1>>                             \* C34: the error goes to the reader whose read failed, only
        /\ (IF Strict THEN ReadErr(Ev.r) /\ RsView(Ev) ELSE UNCHANGED vars)
        /\ UNCHANGED <<st, lt, hold, li>>
NoFollow == Is("nofollow") /\ ~Strict /\ UNCHANGED <<st, lt, hold, li, vars>>

TraceNext == NewCache \/ SetOp \/ GetOp \/ RelOp \/ DelOp \/ DropKeys \/ Other \/ RhGet \/ RhSet \/ RhErr
             \/ RStart \/ RArrive \/ ROk \/ RErr \/ NoFollow
TraceSpec == TraceInit /\ [][TraceNext]_tvars
HWM == IF l - 1 > TLCGet(1) THEN TLCSet(1, l - 1) ELSE TRUE
TraceAccepted == PrintT(<<"HWM", TLCGet(1)>>) /\ PrintT(<<"OVERCAP", TLCGet(2)>>) /\ TLCGet(1) = Len(Trace)
=============================================================================
