------------------------------ MODULE KVGen ------------------------------
(* The logical model as a state machine: the nondeterministic environment    *)
(* (a single-threaded client) issues API calls; the model state evolves by   *)
(* the operators of KV.  Used three ways:                                     *)
(*   - KVSanity.cfg: exhaustive check of the model's own invariants (the      *)
(*     "never" clauses of C02, maximal defragmented spans of C08, ...);       *)
(*   - KVGen*.cfg: behaviour generation for model-based testing: hist is      *)
(*     printed as JSON and replayed on the real DB;                           *)
(*   - the action vocabulary equals the trace vocabulary of KVTrace.          *)
EXTENDS KV, Json

CONSTANTS MaxLen,      \* number of API calls per behaviour
          MaxSnaps, MaxIters,
          Classes,     \* op classes the generator may pick: SUBSET {"pt","rk","it","mt","sn","ig"}
          IterCls,     \* class label given to generated iterators
          Masks        \* generate masking iterators

VARIABLES cur, snaps, iters, hist, nval, nh, phase, sets, pois
vars == <<cur, snaps, iters, hist, nval, nh, phase, sets, pois>>

Init == /\ cur = EmptySt /\ snaps = <<>> /\ iters = <<>> /\ hist = <<>> /\ nval = 1 /\ nh = 1
        /\ phase = "w" /\ sets = [k \in Keys |-> 0] /\ pois = [k \in Keys |-> FALSE]

Log(e) == hist' = Append(hist, e)

(* ---- SingleDelete contract bookkeeping (W1 of the metamorphic key manager) ---- *)
TrackOp(op) ==
  CASE op.o = "set" -> /\ sets' = [sets EXCEPT ![op.k] = IF @ < 2 THEN @ + 1 ELSE 2] /\ pois' = pois
    [] op.o = "merge" -> /\ pois' = [pois EXCEPT ![op.k] = TRUE] /\ sets' = sets
    [] op.o \in {"del", "sdel"} -> /\ sets' = [sets EXCEPT ![op.k] = 0] /\ pois' = [pois EXCEPT ![op.k] = FALSE]
    [] op.o = "delr" -> /\ sets' = [k \in Keys |-> IF InR(k, op.a, op.b) THEN 0 ELSE sets[k]]
                        /\ pois' = [k \in Keys |-> IF InR(k, op.a, op.b) THEN FALSE ELSE pois[k]]
    [] OTHER -> UNCHANGED <<sets, pois>>

(* ---- writes: single-op batches keep the generator's branching small; the  ---- *)
(* ---- Go-side random driver covers multi-op batches                         ---- *)
PointOps == {[o |-> "set", k |-> k, v |-> nval] : k \in Keys}
            \cup {[o |-> "del", k |-> k] : k \in Keys}
            \cup {[o |-> "merge", k |-> k, v |-> nval] : k \in Keys}
            \cup {[o |-> "sdel", k |-> k] : k \in {x \in Keys : sets[x] <= 1 /\ ~pois[x]}}
RangeDelOps == {[o |-> "delr", a |-> a, b |-> b] : a \in Keys, b \in 1..R}
RkBounds == {<<PK(a), PK(b)>> : a \in Prefixes, b \in 1..P}
RkOps == {[o |-> "rkset", a |-> ab[1], b |-> ab[2], s |-> s, v |-> nval] : ab \in {x \in RkBounds : x[1] < x[2]}, s \in 0..S}
         \cup {[o |-> "rkunset", a |-> ab[1], b |-> ab[2], s |-> s] : ab \in {x \in RkBounds : x[1] < x[2]}, s \in 0..S}
         \cup {[o |-> "rkdel", a |-> ab[1], b |-> ab[2]] : ab \in {x \in RkBounds : x[1] < x[2]}}
UsesVal(op) == op.o \in {"set", "merge", "rkset"}

CommitOp(op) ==
  /\ cur' = ApplyOp(cur, op)
  /\ nval' = IF UsesVal(op) THEN nval + 1 ELSE nval
  /\ TrackOp(op)
  /\ Log([op |-> "commit", ops |-> <<op>>, sync |-> FALSE])
  /\ UNCHANGED <<snaps, iters, nh>>

(* an ingested table holding one point op (ingest == one batch, C36) *)
IngestOp(op) ==
  /\ cur' = ApplyOp(cur, op)
  /\ nval' = IF UsesVal(op) THEN nval + 1 ELSE nval
  /\ TrackOp(op)
  /\ Log([op |-> "ingest", tables |-> << <<op>> >>, ops |-> <<op>>])
  /\ UNCHANGED <<snaps, iters, nh>>

ExciseOp(a, b) ==
  /\ a < b
  /\ cur' = ExciseSt(cur, a, b)
  /\ sets' = [k \in Keys |-> IF InR(k, a, b) THEN 0 ELSE sets[k]]
  /\ pois' = [k \in Keys |-> IF InR(k, a, b) THEN FALSE ELSE pois[k]]
  /\ Log([op |-> "excise", a |-> a, b |-> b])
  \* classic snapshots are not protected from excise: the generator drops them first
  /\ snaps = <<>>
  /\ UNCHANGED <<snaps, iters, nval, nh>>

Maint(kind) == Log([op |-> "maint", kind |-> kind]) /\ UNCHANGED <<cur, snaps, iters, nval, nh, sets, pois>>

(* ---- snapshots: a snapshot IS a copy of the abstract state ---- *)
SnapOpen ==
  /\ Len(snaps) < MaxSnaps
  /\ snaps' = Append(snaps, [h |-> nh, view |-> cur])
  /\ nh' = nh + 1
  /\ Log([op |-> "snap", h |-> nh])
  /\ UNCHANGED <<cur, iters, nval, sets, pois>>

(* ---- iterators ---- *)
NewIterOn(src, view, lo, hi, m, kt) ==
  /\ Len(iters) < MaxIters /\ lo < hi
  /\ iters' = Append(iters, [h |-> nh, it |-> NewIt(view, lo, hi, m, kt)])
  /\ nh' = nh + 1
  /\ Log([op |-> "newiter", h |-> nh, src |-> src, cls |-> IterCls, lo |-> lo, hi |-> hi, mask |-> m, kt |-> kt, filter |-> (m > 0 /\ nh % 2 = 0)])
  /\ UNCHANGED <<cur, snaps, nval, sets, pois>>

IterDo(i, o, k) ==
  /\ i \in 1..Len(iters)
  /\ (o \in RelOps => iters[i].it.pos # -2)
  /\ LET r == IterStep(iters[i].it, o, k) IN
       /\ iters' = [iters EXCEPT ![i].it = r.it]
       /\ Log([op |-> "iter", h |-> iters[i].h, o |-> o, k |-> k])
  /\ UNCHANGED <<cur, snaps, nval, nh, sets, pois>>

IterSetBounds(i, lo, hi) ==
  /\ i \in 1..Len(iters) /\ lo < hi
  /\ iters' = [iters EXCEPT ![i].it.lo = lo, ![i].it.hi = hi, ![i].it.pos = -2, ![i].it.pfx = -1, ![i].it.err = FALSE, ![i].it.pa = ""]
  /\ Log([op |-> "setbounds", h |-> iters[i].h, lo |-> lo, hi |-> hi])
  /\ UNCHANGED <<cur, snaps, nval, nh, sets, pois>>

(* two-phase choice: first the op class, then its parameters, so that classes  *)
(* with big parameter spaces do not drown the others under uniform simulation *)
Pick == phase = "w" /\ \E c \in Classes : phase' = c /\ UNCHANGED <<cur, snaps, iters, hist, nval, nh, sets, pois>>
KTs == {0, 1, 2}
MaskVals == IF Masks THEN 0..S ELSE {0}
Do == /\ phase # "w" /\ phase' = "w"
      /\ \/ phase = "pt" /\ (\E op \in PointOps : CommitOp(op))
         \/ phase = "pt" /\ (\E op \in RangeDelOps : op.a < op.b /\ CommitOp(op))
         \/ phase = "rk" /\ (\E op \in RkOps : CommitOp(op))
         \/ phase = "ig" /\ (\E op \in {x \in PointOps : x.o \in {"set", "del", "merge"}} : IngestOp(op))
         \/ phase = "ig" /\ (\E ab \in RkBounds : ExciseOp(ab[1], ab[2]))
         \/ phase = "mt" /\ (\E kind \in {"flush", "compact"} : Maint(kind))
         \/ phase = "sn" /\ SnapOpen
         \/ phase = "sn" /\ (\E i \in 1..Len(snaps), lo \in 0..(R - 1), hi \in 1..R, kt \in KTs :
                                NewIterOn(snaps[i].h, snaps[i].view, lo, hi, 0, kt))
         \/ phase = "it" /\ (\E lo \in 0..(R - 1), hi \in 1..R, m \in MaskVals, kt \in KTs :
                                (m > 0 => kt = 2) /\ NewIterOn(0, cur, lo, hi, m, kt))
         \/ phase = "it" /\ (\E i \in 1..MaxIters, o \in {"first", "last", "next", "prev", "nextprefix", "next", "prev"} : IterDo(i, o, 0))
         \/ phase = "it" /\ (\E i \in 1..MaxIters, o \in {"seekge", "seeklt", "seekprefixge"}, k \in 0..(R - 1) : IterDo(i, o, k))
         \/ phase = "it" /\ (\E i \in 1..MaxIters, lo \in 0..(R - 1), hi \in 1..R : IterSetBounds(i, lo, hi))
Next == Len(hist) < MaxLen /\ (Pick \/ Do)
Spec == Init /\ [][Next]_vars

(* ---------------- invariants of the model itself ---------------- *)
(* C02 "never" clauses: a positioned iterator is inside its bounds, and inside its prefix in prefix mode *)
IterInside == \A i \in 1..Len(iters) : LET it == iters[i].it IN
   it.pos \in Keys => /\ it.pos >= it.lo /\ it.pos < it.hi
                      /\ (it.pfx >= 0 => PfxOf(it.pos) = it.pfx)
(* a position is a stop: a visible unmasked point or the clipped start of a span (C08) *)
IterAtStop == \A i \in 1..Len(iters) : LET it == iters[i].it IN
   it.pos \in Keys => (it.pos \in Stops(it) \/ Cover(it, it.pos) # {})
(* the result record is self-consistent *)
ResSane == \A i \in 1..Len(iters) : LET it == iters[i].it IN
   it.pos \in Keys => LET r == Res(it, it.pos) IN
      /\ r.valid /\ (r.hp \/ r.hr)
      /\ (r.hr => r.rs <= r.k /\ r.k < r.re /\ r.rkeys # {} /\ r.rs >= PLo(it) /\ r.re <= PHi(it))
      /\ (r.hp => r.v # <<>> /\ ~Masked(it, r.k))
      /\ (it.kt = 0 => ~r.hr) /\ (it.kt = 1 => ~r.hp)
(* C08: defragmented spans are disjoint and maximal *)
SpansOK == SpansWellFormed(cur.rks) /\ SpansMaximal(cur.rks)
(* C09: masking never hides a bare point, and hides nothing without a covering range key *)
MaskSane == \A i \in 1..Len(iters) : LET it == iters[i].it IN
   \A k \in Keys : Masked(it, k) => (SufOf(k) > 0 /\ it.view.rks[PfxOf(k)] # {} /\ it.mask > 0)
(* C03/C04: pinned views never change *)
ViewsStable == [][/\ \A i \in 1..Len(snaps) : i <= Len(snaps') => snaps'[i].view = snaps[i].view
                  /\ \A i \in 1..Len(iters) : i <= Len(iters') => iters'[i].it.view = iters[i].it.view]_vars
Inv == IterInside /\ IterAtStop /\ ResSane /\ SpansOK /\ MaskSane

(* behaviour output for model-based testing *)
Emit == (Len(hist) = MaxLen /\ phase = "w") => PrintT(ToJson(hist))
EmitInv == Emit \/ TRUE
View == <<cur, snaps, iters, phase, sets, pois, Len(hist)>>
=============================================================================
