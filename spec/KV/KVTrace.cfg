SPECIFICATION TraceSpec
CONSTANTS
  P = 3
  S = 3
  Checked = {"latest", "snap", "batch", "efos", "view", "pos", "rk", "mask", "batchleak", "reopen", "close", "ckpt", "scanint"}
CONSTRAINT HWM
POSTCONDITION TraceAccepted
CHECK_DEADLOCK FALSE
