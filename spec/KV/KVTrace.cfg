SPECIFICATION TraceSpec
CONSTANTS
  P = 3
  S = 3
  Checked = {"latest", "snap", "batch", "efos", "view", "pos", "rk", "mask", "batchleak", "crash10", "crash11", "reopen", "close"}
CONSTRAINT HWM
POSTCONDITION TraceAccepted
CHECK_DEADLOCK FALSE
