SPECIFICATION Spec
CONSTANTS
  P = 2
  S = 1
  MaxLen = 3
  MaxSnaps = 1
  MaxIters = 1
  Classes = {"pt", "rk", "it", "mt", "sn", "ig"}
  IterCls = "pos"
  Masks = TRUE
INVARIANT Inv
PROPERTY ViewsStable
VIEW View
CHECK_DEADLOCK FALSE
