----------------------------- MODULE KVTrace -----------------------------
(* Trace validation of real Pebble executions against the logical model KV.  *)
(* One action per event kind; every event is fully logged, so the search is  *)
(* a straight line.  Results are asserted only for event classes in Checked,  *)
(* so that each property's check decides its own vocabulary.                  *)
EXTENDS KV, Json

CONSTANTS Checked

Trace == ndJsonDeserialize("trace.ndjson")

VARIABLES l,      \* next trace line
          cur,    \* abstract state after the last committed entry
          hs,     \* open handles: id -> record
          base,   \* abstract state at the last acknowledged-durable point
          wents   \* entries committed since base (may be lost by a crash)
vars == <<l, cur, hs, base, wents>>

Chk(c) == c \in Checked
Ev == Trace[l]
Is(o) == l <= Len(Trace) /\ Trace[l].op = o /\ l' = l + 1
Has(h) == h \in DOMAIN hs
Put(h, r) == hs' = [x \in DOMAIN hs \cup {h} |-> IF x = h THEN r ELSE hs[x]]
Drop(h) == hs' = [x \in DOMAIN hs \ {h} |-> hs[x]]

TraceInit == l = 1 /\ cur = EmptySt /\ hs = <<>> /\ base = EmptySt /\ wents = <<>> /\ TLCSet(1, 0)

Reset == Is("reset") /\ cur' = EmptySt /\ hs' = <<>> /\ base' = EmptySt /\ wents' = <<>>

(* ---- the state a read source denotes ---- *)
View(src) == IF src = 0 THEN cur
             ELSE IF hs[src].t = "batch" THEN ApplyBatch(cur, hs[src].ops)
             ELSE hs[src].view
(* keys whose value through this source is unconstrained (classic snapshot inside a later excise) *)
Taint(src) == IF src # 0 /\ hs[src].t = "snap" THEN hs[src].taint ELSE {}

(* ---- writes ---- *)
Durable(e) == e.sync
Advance(e) ==
  /\ cur' = ApplyEntry(cur, e)
  /\ (IF Durable(e) THEN base' = ApplyEntry(cur, e) /\ wents' = <<>>
      ELSE base' = base /\ wents' = Append(wents, e))
TaintAll(a, b) ==
  [x \in DOMAIN hs |-> IF hs[x].t = "snap" THEN [hs[x] EXCEPT !.taint = @ \cup {k \in Keys : InR(k, a, b)}] ELSE hs[x]]
Commit == Is("commit") /\ Advance(Ev) /\ UNCHANGED hs
Ingest == Is("ingest") /\ Advance(Ev) /\ UNCHANGED hs
IngestExcise == Is("ingestexcise") /\ Advance(Ev) /\ hs' = TaintAll(Ev.a, Ev.b)
Excise == Is("excise") /\ Advance(Ev) /\ hs' = TaintAll(Ev.a, Ev.b)
(* committing an indexed batch: its ops are exactly what was logged through batchop *)
BatchCommit == Is("batchcommit") /\ Has(Ev.h) /\ hs[Ev.h].t = "batch"
               /\ Advance([op |-> "commit", ops |-> hs[Ev.h].ops, sync |-> Ev.sync]) /\ Drop(Ev.h)
(* Flush returned / everything so far acknowledged durable *)
DurablePoint == Is("durable") /\ base' = cur /\ wents' = <<>> /\ UNCHANGED <<cur, hs>>
Maint == Is("maint") /\ UNCHANGED <<cur, hs, base, wents>>

(* ---- handles ---- *)
Snap == Is("snap") /\ ~Has(Ev.h) /\ Put(Ev.h, [t |-> "snap", view |-> cur, taint |-> {}]) /\ UNCHANGED <<cur, base, wents>>
Efos == Is("efos") /\ ~Has(Ev.h) /\ Put(Ev.h, [t |-> "efos", view |-> cur, ranges |-> Ev.ranges]) /\ UNCHANGED <<cur, base, wents>>
BatchNew == Is("batchnew") /\ ~Has(Ev.h) /\ Put(Ev.h, [t |-> "batch", ops |-> <<>>]) /\ UNCHANGED <<cur, base, wents>>
BatchOp == Is("batchop") /\ Has(Ev.h) /\ hs[Ev.h].t = "batch"
           /\ Put(Ev.h, [hs[Ev.h] EXCEPT !.ops = Append(@, Ev.bop)]) /\ UNCHANGED <<cur, base, wents>>
Close == Is("close") /\ Has(Ev.h) /\ Drop(Ev.h) /\ UNCHANGED <<cur, base, wents>>

(* ---- point reads and full scans ---- *)
Get == Is("get") /\ (Ev.src = 0 \/ Has(Ev.src))
       /\ ((Chk(Ev.cls) /\ Ev.k \notin Taint(Ev.src)) => Ev.res = View(Ev.src).pts[Ev.k])
       /\ UNCHANGED <<cur, hs, base, wents>>
(* a scan logs the visited points in iteration order and the defragmented range-key spans *)
SpanSetOf(lg) == {<<x[1], x[2], ToSet(x[3])>> : x \in ToSet(lg)}
Scan == Is("scan") /\ (Ev.src = 0 \/ Has(Ev.src))
        /\ ((Chk(Ev.cls) /\ Taint(Ev.src) = {}) =>
              /\ Ev.pts = ScanPts(View(Ev.src))
              /\ SpanSetOf(Ev.rks) = Spans(View(Ev.src).rks))
        /\ UNCHANGED <<cur, hs, base, wents>>

(* ---- iterators ---- *)
ItView(src) == View(src)
NewIter == Is("newiter") /\ ~Has(Ev.h) /\ (Ev.src = 0 \/ Has(Ev.src))
           /\ Put(Ev.h, [t |-> "iter", cls |-> Ev.cls, src |-> Ev.src,
                         dbview |-> (IF Ev.src # 0 /\ hs[Ev.src].t = "batch" THEN cur ELSE View(Ev.src)),
                         free |-> (Taint(Ev.src) # {}),
                         it |-> NewIt(View(Ev.src), Ev.lo, Ev.hi, Ev.mask, Ev.kt)])
           /\ UNCHANGED <<cur, base, wents>>
IterOp == Is("iter") /\ Has(Ev.h) /\ hs[Ev.h].t = "iter"
          /\ LET r == IterStep(hs[Ev.h].it, Ev.o, Ev.k) IN
               /\ ((Chk(hs[Ev.h].cls) /\ ~hs[Ev.h].free) => (Ev.err = r.err /\ ResMatch(Ev.res, r.res)))
               /\ Put(Ev.h, [hs[Ev.h] EXCEPT !.it = r.it])
          /\ UNCHANGED <<cur, base, wents>>
SetBounds == Is("setbounds") /\ Has(Ev.h) /\ hs[Ev.h].t = "iter"
             /\ Put(Ev.h, [hs[Ev.h] EXCEPT !.it.lo = Ev.lo, !.it.hi = Ev.hi, !.it.pos = -2, !.it.pfx = -1, !.it.err = FALSE])
             /\ UNCHANGED <<cur, base, wents>>
(* SetOptions: new bounds/mask/key types; an indexed-batch iterator also refreshes its batch view *)
Refreshed(ih) == IF ih.src # 0 /\ Has(ih.src) /\ hs[ih.src].t = "batch"
                 THEN ApplyBatch(ih.dbview, hs[ih.src].ops) ELSE ih.it.view
SetOpts == Is("setopts") /\ Has(Ev.h) /\ hs[Ev.h].t = "iter"
           /\ Put(Ev.h, [hs[Ev.h] EXCEPT !.it = NewIt(Refreshed(hs[Ev.h]), Ev.lo, Ev.hi, Ev.mask, Ev.kt)])
           /\ UNCHANGED <<cur, base, wents>>
(* Clone keeps the pinned DB view; with refresh an indexed-batch iterator sees the batch as of now *)
CloneIt == Is("clone") /\ Has(Ev.from) /\ hs[Ev.from].t = "iter" /\ ~Has(Ev.h)
           /\ Put(Ev.h, [hs[Ev.from] EXCEPT !.cls = Ev.cls,
                  !.it = NewIt(IF Ev.refresh THEN Refreshed(hs[Ev.from]) ELSE hs[Ev.from].it.view,
                               Ev.lo, Ev.hi, Ev.mask, Ev.kt)])
           /\ UNCHANGED <<cur, base, wents>>

(* ---- crashes ---- *)
StOf(j) == [pts |-> [k \in Keys |-> j.pts[k + 1]], rks |-> [p \in Prefixes |-> ToSet(j.rks[p + 1])]]
RECURSIVE ApplyEntries(_, _, _, _)
ApplyEntries(st, es, i, n) == IF i > n THEN st ELSE ApplyEntries(ApplyEntry(st, es[i]), es, i + 1, n)
(* C11: the recovered state is the model state after some prefix of the not-yet-durable entries *)
IsPrefixState(st, es) == \E n \in 0..Len(es) : st = ApplyEntries(base, es, 1, n)
(* C10: it contains every acknowledged-durable entry (= base); the others may or may not be there *)
RECURSIVE ApplySub(_, _, _, _)
ApplySub(st, es, i, keep) == IF i > Len(es) THEN st
                             ELSE ApplySub(IF i \in keep THEN ApplyEntry(st, es[i]) ELSE st, es, i + 1, keep)
IsSuperOfAcked(st, es) == \E keep \in SUBSET (1..Len(es)) : st = ApplySub(base, es, 1, keep)
CrashOK(st, es) ==
  /\ Chk("crash11") => IsPrefixState(st, es)
  /\ (Chk("crash10") /\ ~Chk("crash11")) => IsSuperOfAcked(st, es)
(* a crash clone taken now (pend = entries in flight, not yet returned), reopened and dumped *)
CrashProbe == Is("crashprobe") /\ Ev.ok /\ CrashOK(StOf(Ev.state), wents \o Ev.pend)
              /\ UNCHANGED <<cur, hs, base, wents>>
(* the run itself continues from a crash: every handle is gone *)
Reopen == Is("reopen") /\ Ev.ok /\ CrashOK(StOf(Ev.state), wents \o Ev.pend)
          /\ cur' = StOf(Ev.state) /\ base' = StOf(Ev.state) /\ wents' = <<>> /\ hs' = <<>>
(* a clean close + reopen must preserve the state exactly *)
CleanReopen == Is("cleanreopen") /\ (Chk("reopen") => (Ev.ok /\ StOf(Ev.state) = cur))
               /\ base' = cur /\ wents' = <<>> /\ hs' = <<>> /\ UNCHANGED cur

(* Close of the DB after every handle was closed must succeed (C47) *)
CloseDB == Is("closedb") /\ (Chk("close") => Ev.ok) /\ UNCHANGED <<cur, hs, base, wents>>

TraceNext == \/ Reset \/ Commit \/ Ingest \/ IngestExcise \/ Excise \/ BatchCommit \/ DurablePoint \/ Maint
             \/ Snap \/ Efos \/ BatchNew \/ BatchOp \/ Close \/ Get \/ Scan
             \/ NewIter \/ IterOp \/ SetBounds \/ SetOpts \/ CloneIt
             \/ CrashProbe \/ Reopen \/ CleanReopen \/ CloseDB
TraceSpec == TraceInit /\ [][TraceNext]_vars

(* acceptance: high-water mark of consumed lines *)
HWM == IF l - 1 > TLCGet(1) THEN TLCSet(1, l - 1) ELSE TRUE
TraceAccepted == PrintT(<<"HWM", TLCGet(1)>>) /\ TLCGet(1) = Len(Trace)
=============================================================================
