----------------------------- MODULE KVTrace -----------------------------
(* Trace validation of real Pebble executions against the logical model KV.  *)
(* One action per event kind; every event is fully logged, so the search is  *)
(* a straight line.  Results are asserted only for event classes in Checked,  *)
(* so that each property's check decides its own vocabulary.                  *)
EXTENDS KV, Json

CONSTANTS Checked

Trace == ndJsonDeserialize("trace.ndjson")

VARIABLES l,      \* next trace line
          cur,    \* abstract state after the last committed entry
          hs,     \* open handles: id -> record
          base,   \* abstract state at the last point where everything was durable (Flush/Close/reopen)
          wents,  \* entries committed since base: [e |-> entry, acked |-> durability acknowledged]
          durn,   \* C13: smallest prefix length the last durable-only read is consistent with
          ver     \* C39: pinned physical table files, as pairs <<handle, file number>>
cv == <<base, wents, durn, ver>>
vars == <<l, cur, hs, base, wents, durn, ver>>

Chk(c) == c \in Checked
TrackCrash == Checked \cap {"crash10", "crash11", "crash12", "crash13", "crash22", "crash43", "crash40", "ckpt"} # {}
Ev == Trace[l]
Is(o) == l <= Len(Trace) /\ Trace[l].op = o /\ l' = l + 1
Has(h) == h \in DOMAIN hs
Put(h, r) == hs' = [x \in DOMAIN hs \cup {h} |-> IF x = h THEN r ELSE hs[x]]
Drop(h) == hs' = [x \in DOMAIN hs \ {h} |-> hs[x]]

TraceInit == /\ l = 1 /\ cur = EmptySt /\ hs = <<>> /\ base = EmptySt /\ wents = <<>> /\ durn = 0 /\ ver = {}
             /\ TLCSet(1, 0)

Reset == Is("reset") /\ cur' = EmptySt /\ hs' = <<>> /\ base' = EmptySt /\ wents' = <<>> /\ durn' = 0 /\ ver' = {}

(* ---- the state a read source denotes ---- *)
View(src) == IF src = 0 THEN cur
             ELSE IF hs[src].t = "batch" THEN ApplyBatch(cur, hs[src].ops)
             ELSE hs[src].view
(* keys whose value through this source is unconstrained (classic snapshot inside a later excise) *)
Taint(src) == IF src # 0 /\ hs[src].t = "snap" THEN hs[src].taint ELSE {}

(* ---- writes ---- *)
(* e.sync: the call acknowledged durability (Sync commit with the WAL enabled; ingest; excise) *)
Advance(e) ==
  /\ cur' = ApplyEntry(cur, e)
  /\ wents' = (IF TrackCrash THEN Append(wents, [e |-> e, acked |-> e.sync]) ELSE wents)
  /\ UNCHANGED <<base, durn, ver>>
TaintAll(a, b) ==
  [x \in DOMAIN hs |-> IF hs[x].t = "snap" THEN [hs[x] EXCEPT !.taint = @ \cup {k \in Keys : InR(k, a, b)}] ELSE hs[x]]
Commit == Is("commit") /\ Advance(Ev) /\ UNCHANGED hs
Ingest == Is("ingest") /\ Advance(Ev) /\ UNCHANGED hs
IngestExcise == Is("ingestexcise") /\ Advance(Ev) /\ hs' = TaintAll(Ev.a, Ev.b)
Excise == Is("excise") /\ Advance(Ev) /\ hs' = TaintAll(Ev.a, Ev.b)
(* committing an indexed batch: its ops are exactly what was logged through batchop *)
BatchCommit == Is("batchcommit") /\ Has(Ev.h) /\ hs[Ev.h].t = "batch"
               /\ Advance([op |-> "commit", ops |-> hs[Ev.h].ops, sync |-> Ev.sync]) /\ Drop(Ev.h)
(* Flush (or Close with the WAL enabled) returned: everything committed so far is durable (C12) *)
DurablePoint == Is("durable") /\ base' = cur /\ wents' = <<>> /\ durn' = 0 /\ UNCHANGED <<cur, hs, ver>>
(* SyncWait returned for an earlier ApplyNoSyncWait: entries up to index Ev.upto of the window are acked *)
SyncWait == Is("syncwait")
            /\ wents' = [i \in DOMAIN wents |-> IF i <= Ev.upto THEN [wents[i] EXCEPT !.acked = TRUE] ELSE wents[i]]
            /\ UNCHANGED <<cur, hs, base, durn, ver>>
Maint == Is("maint") /\ UNCHANGED <<cur, hs, cv>>

(* ---- handles ---- *)
Snap == Is("snap") /\ ~Has(Ev.h) /\ Put(Ev.h, [t |-> "snap", view |-> cur, taint |-> {}]) /\ UNCHANGED <<cur, cv>>
Efos == Is("efos") /\ ~Has(Ev.h) /\ Put(Ev.h, [t |-> "efos", view |-> cur, ranges |-> Ev.ranges]) /\ UNCHANGED <<cur, cv>>
BatchNew == Is("batchnew") /\ ~Has(Ev.h) /\ Put(Ev.h, [t |-> "batch", ops |-> <<>>]) /\ UNCHANGED <<cur, cv>>
BatchOp == Is("batchop") /\ Has(Ev.h) /\ hs[Ev.h].t = "batch"
           /\ Put(Ev.h, [hs[Ev.h] EXCEPT !.ops = Append(@, Ev.bop)]) /\ UNCHANGED <<cur, cv>>
Close == Is("close") /\ Has(Ev.h) /\ Drop(Ev.h) /\ UNCHANGED <<cur, cv>>

(* ---- point reads and full scans ---- *)
Get == Is("get") /\ (Ev.src = 0 \/ Has(Ev.src))
       /\ ((Chk(Ev.cls) /\ Ev.k \notin Taint(Ev.src)) => Ev.res = View(Ev.src).pts[Ev.k])
       /\ UNCHANGED <<cur, hs, cv>>
(* a scan logs the visited points in iteration order and the defragmented range-key spans *)
SpanSetOf(lg) == {<<x[1], x[2], ToSet(x[3])>> : x \in ToSet(lg)}
Scan == Is("scan") /\ (Ev.src = 0 \/ Has(Ev.src))
        /\ ((Chk(Ev.cls) /\ Taint(Ev.src) = {}) =>
              /\ Ev.pts = ScanPts(View(Ev.src))
              /\ SpanSetOf(Ev.rks) = Spans(View(Ev.src).rks))
        /\ UNCHANGED <<cur, hs, cv>>

(* a backward scan visits the same points in descending order and the same spans *)
Rev(s) == [i \in 1..Len(s) |-> s[Len(s) + 1 - i]]
RScan == Is("rscan") /\ (Ev.src = 0 \/ Has(Ev.src))
         /\ ((Chk(Ev.cls) /\ Taint(Ev.src) = {}) =>
               /\ Ev.pts = Rev(ScanPts(View(Ev.src)))
               /\ SpanSetOf(Ev.rks) = Spans(View(Ev.src).rks))
         /\ UNCHANGED <<cur, hs, cv>>

(* C43: under injected I/O faults a read returns an error or the right result, never a wrong result *)
FGet == Is("fget") /\ (Chk("fault") => (Ev.err \/ Ev.res = View(Ev.src).pts[Ev.k])) /\ UNCHANGED <<cur, hs, cv>>
FScan == Is("fscan")
         /\ (Chk("fault") => (Ev.err \/ (Ev.pts = ScanPts(View(Ev.src)) /\ SpanSetOf(Ev.rks) = Spans(View(Ev.src).rks))))
         /\ UNCHANGED <<cur, hs, cv>>

(* ---- iterators ---- *)
NewIter == Is("newiter") /\ ~Has(Ev.h) /\ (Ev.src = 0 \/ Has(Ev.src))
           /\ Put(Ev.h, [t |-> "iter", cls |-> Ev.cls, src |-> Ev.src,
                         dbview |-> (IF Ev.src # 0 /\ hs[Ev.src].t = "batch" THEN cur ELSE View(Ev.src)),
                         free |-> (Taint(Ev.src) # {}),
                         it |-> NewIt(View(Ev.src), Ev.lo, Ev.hi, Ev.mask, Ev.kt)])
           /\ UNCHANGED <<cur, cv>>
IterOp == Is("iter") /\ Has(Ev.h) /\ hs[Ev.h].t = "iter" /\ Ev.o \notin LimOps
          /\ LET r == IterStep(hs[Ev.h].it, Ev.o, Ev.k) IN
               /\ ((Chk(hs[Ev.h].cls) /\ ~hs[Ev.h].free) => (Ev.err = r.err /\ ResMatch(Ev.res, r.res)))
               /\ Put(Ev.h, [hs[Ev.h] EXCEPT !.it = r.it])
          /\ UNCHANGED <<cur, cv>>
IterLimOp == Is("iter") /\ Has(Ev.h) /\ hs[Ev.h].t = "iter" /\ Ev.o \in LimOps
          /\ LET r == IterStepLim(hs[Ev.h].it, Ev.o, Ev.k, Ev.lim, Ev.st, Ev.res, Ev.err) IN
               /\ ((Chk(hs[Ev.h].cls) /\ ~hs[Ev.h].free) => r.ok)
               /\ Put(Ev.h, [hs[Ev.h] EXCEPT !.it = r.it])
          /\ UNCHANGED <<cur, cv>>
SetBounds == Is("setbounds") /\ Has(Ev.h) /\ hs[Ev.h].t = "iter"
             /\ Put(Ev.h, [hs[Ev.h] EXCEPT !.it.lo = Ev.lo, !.it.hi = Ev.hi, !.it.pos = -2, !.it.pfx = -1, !.it.err = FALSE, !.it.pa = ""])
             /\ UNCHANGED <<cur, cv>>
(* SetOptions: new bounds/mask/key types; an indexed-batch iterator also refreshes its batch view *)
Refreshed(ih) == IF ih.src # 0 /\ Has(ih.src) /\ hs[ih.src].t = "batch"
                 THEN ApplyBatch(ih.dbview, hs[ih.src].ops) ELSE ih.it.view
SetOpts == Is("setopts") /\ Has(Ev.h) /\ hs[Ev.h].t = "iter"
           /\ Put(Ev.h, [hs[Ev.h] EXCEPT !.it = NewIt(Refreshed(hs[Ev.h]), Ev.lo, Ev.hi, Ev.mask, Ev.kt)])
           /\ UNCHANGED <<cur, cv>>
(* Clone keeps the pinned DB view; with refresh an indexed-batch iterator sees the batch as of now *)
CloneIt == Is("clone") /\ Has(Ev.from) /\ hs[Ev.from].t = "iter" /\ ~Has(Ev.h)
           /\ Put(Ev.h, [hs[Ev.from] EXCEPT !.cls = Ev.cls,
                  !.it = NewIt(IF Ev.refresh THEN Refreshed(hs[Ev.from]) ELSE hs[Ev.from].it.view,
                               Ev.lo, Ev.hi, Ev.mask, Ev.kt)])
           /\ UNCHANGED <<cur, cv>>

(* ---- crashes (C10-C13, C22, C38, C40, C43) ---- *)
StOf(j) == [pts |-> [k \in Keys |-> j.pts[k + 1]], rks |-> [p \in Prefixes |-> ToSet(j.rks[p + 1])]]
(* the window at a probe: entries since base plus the calls in flight (never acknowledged yet) *)
Win(pend) == wents \o [i \in 1..Len(pend) |-> [e |-> pend[i], acked |-> FALSE]]
RECURSIVE ApplyEntries(_, _, _, _)
ApplyEntries(st, es, i, n) == IF i > n THEN st ELSE ApplyEntries(ApplyEntry(st, es[i].e), es, i + 1, n)
AckedIdx(es) == {i \in 1..Len(es) : es[i].acked}
MaxAcked(es) == IF AckedIdx(es) = {} THEN 0 ELSE Max(AckedIdx(es))
(* C11: the model state after a prefix of the history (in sequence-number order) that holds every acknowledged entry *)
PrefixFrom(st, es, lo) == \E n \in lo..Len(es) : st = ApplyEntries(base, es, 1, n)
(* C10: every acknowledged entry is there; unacknowledged ones may or may not be *)
RECURSIVE ApplySub(_, _, _, _)
ApplySub(st, es, i, keep) == IF i > Len(es) THEN st
                             ELSE ApplySub(IF i \in keep THEN ApplyEntry(st, es[i].e) ELSE st, es, i + 1, keep)
SuperOfAcked(st, es) == \E opt \in SUBSET ((1..Len(es)) \ AckedIdx(es)) : st = ApplySub(base, es, 1, AckedIdx(es) \cup opt)
CrashOK(ev) ==
  LET st == StOf(ev.state)
      es == Win(ev.pend) IN
  /\ (Chk("crash10") \/ Chk("crash11") \/ Chk("crash12") \/ Chk("crash22") \/ Chk("crash43")) => ev.ok
  /\ Chk("crash11") => PrefixFrom(st, es, MaxAcked(es))
  /\ Chk("crash43") => PrefixFrom(st, es, MaxAcked(es))
  \* C12: Flush/Close reset base, so "everything before the Flush survives" is "the recovered state is base plus
  \* some of the later entries" (C12 does not promise a prefix: that is C11; an ingest may outlive an unflushed commit)
  /\ Chk("crash12") => SuperOfAcked(st, es)
  /\ Chk("crash10") => SuperOfAcked(st, es)
  /\ (Chk("crash13") /\ ev.dur) => (ev.ok /\ PrefixFrom(st, es, durn))
  (* C40: a crash during RatchetFormatMajorVersion recovers a version between the last one whose ratchet *)
  (* returned and the one in flight, with the same contents                                              *)
  /\ Chk("crash40") => (ev.ok /\ ev.fmv >= ev.fmvlo /\ ev.fmv <= ev.fmvhi /\ PrefixFrom(st, es, MaxAcked(es)))
(* C22: with the WAL disabled recovery builds no tables, so the recovered file set is a MANIFEST version: *)
(* the last installed one the driver saw, or the next one (its edit was in flight)                        *)
(* vallowed: the table sets of the last two versions described by the MANIFEST of the uncrashed store at   *)
(* the probe (decoded by the driver with the real VersionEdit decoder); only the last one at a quiescent  *)
(* point, i.e. once every installing call has returned.                                                    *)
VerOK(ev) == (Chk("crash22") /\ ev.hasfiles /\ ev.ok) =>
                 ToSet(ev.files) \in {ToSet(ev.vallowed[i]) : i \in DOMAIN ev.vallowed}
(* a crash clone taken now (pend = entries in flight, not yet returned), reopened and dumped *)
CrashProbe == Is("crashprobe") /\ CrashOK(Ev) /\ VerOK(Ev) /\ UNCHANGED <<cur, hs, cv>>
(* the run itself continues from a crash: every handle is gone *)
Reopen == Is("reopen") /\ Ev.ok /\ CrashOK(Ev) /\ VerOK(Ev)
          /\ cur' = StOf(Ev.state) /\ base' = StOf(Ev.state) /\ wents' = <<>> /\ hs' = <<>> /\ durn' = 0
          /\ ver' = {}
(* C13: an OnlyReadGuaranteedDurable iterator shows the model state after some prefix of the history *)
DurPrefixes(st) == {n \in 0..Len(wents) : st = ApplyEntries(base, wents, 1, n)}
DurRead == Is("durread")
           /\ (Chk("crash13") => DurPrefixes(StOf(Ev.state)) # {})
           /\ durn' = (IF DurPrefixes(StOf(Ev.state)) # {} THEN Min(DurPrefixes(StOf(Ev.state))) ELSE 0)
           /\ UNCHANGED <<cur, hs, base, wents, ver>>
(* a clean close + reopen must preserve the state exactly (C47) *)
Ratchet == Is("ratchet") /\ (Chk("crash40") => (Ev.ok /\ Ev.got = Ev.to /\ Ev.lowerrefused)) /\ UNCHANGED <<cur, hs, cv>>
(* a ratchet that FAILED (an injected I/O error): the version in force never goes down and never   *)
(* beyond the target; the retry that follows is an ordinary Ratchet event                           *)
RatchetFail == Is("ratchetfail") /\ (Chk("crash40") => (Ev.got >= Ev.from /\ Ev.got <= Ev.to)) /\ UNCHANGED <<cur, hs, cv>>
CleanReopen == Is("cleanreopen") /\ (Chk("reopen") => (Ev.ok /\ StOf(Ev.state) = cur))
               /\ (Chk("crash40") => (Ev.ok /\ StOf(Ev.state) = cur /\ Ev.fmv >= Ev.fmvlo))
               /\ base' = cur /\ wents' = <<>> /\ hs' = <<>> /\ durn' = 0 /\ UNCHANGED <<cur, ver>>
(* Close of the DB after every handle was closed must succeed and leak nothing (C47) *)
CloseDB == Is("closedb") /\ (Chk("close") => (Ev.ok /\ Ev.goroutines = 0 /\ Ev.openfiles = 0)) /\ UNCHANGED <<cur, hs, cv>>
(* a checkpoint opened as a DB: a consistent prefix containing everything durable at the call; *)
(* with flushed WAL everything visible at the call; with restricted spans the same inside the  *)
(* spans (what lies outside is unconstrained) (C38)                                            *)
InSpans(k, spans) == Len(spans) = 0 \/ \E i \in DOMAIN spans : InR(k, spans[i][1], spans[i][2])
RestrictSt(st, spans) == [pts |-> [k \in Keys |-> IF InSpans(k, spans) THEN st.pts[k] ELSE Absent],
                          rks |-> [p \in Prefixes |-> IF InSpans(PK(p), spans) THEN st.rks[p] ELSE {}]]
Checkpoint == Is("checkpoint")
              (* Ev.during: entries committed while the call was in progress (issued from inside it);   *)
              (* n0: entries committed when it began.  The checkpoint is the history up to some point   *)
              (* that is not before n0 (flushed WAL) / not before the last acknowledged entry among the *)
              (* first n0, and not after the call's return                                              *)
              /\ (Chk("ckpt") =>
                    /\ Ev.ok
                    /\ LET got == RestrictSt(StOf(Ev.state), Ev.spans)
                           n0 == IF Len(wents) >= Ev.during THEN Len(wents) - Ev.during ELSE 0
                           lo == IF Ev.flushwal THEN n0 ELSE MaxAcked(SubSeq(wents, 1, n0)) IN
                       \E n \in lo..Len(wents) : got = RestrictSt(ApplyEntries(base, wents, 1, n), Ev.spans))
              /\ UNCHANGED <<cur, hs, cv>>
(* C45: the internal keys ScanInternal produced for [a, b), written into an empty DB, give the   *)
(* source's visible state inside the span                                                        *)
ScanInt == Is("scanint") /\ (Ev.src = 0 \/ Has(Ev.src))
           /\ (Chk("scanint") =>
                 RestrictSt(StOf(Ev.state), <<<<Ev.a, Ev.b>>>>) = RestrictSt(View(Ev.src), <<<<Ev.a, Ev.b>>>>))
           /\ UNCHANGED <<cur, hs, cv>>
(* ---- physical structure (C15, C39) ---- *)
(* files: <<num, level, lo, hi, seqlo, seqhi>> (hi inclusive); keys: <<ukey, seq, height, level>>, height *)
(* orders positions: memtable queue > L0 sublevels (higher = newer) > L1 > ... > L6                      *)
LsmOK(ev) ==
  LET F == ToSet(ev.files)
      K == ToSet(ev.keys) IN
  (* files of one level >= 1 never overlap *)
  /\ \A f, g \in F : (f # g /\ f[2] = g[2] /\ f[2] >= 1) => (f[4] < g[3] \/ g[4] < f[3])
  (* a newer version of a user key is never in an older position *)
  /\ \A a, b \in K : (a[1] = b[1] /\ a[3] > b[3]) => a[2] > b[2]
  (* every key inside the LSM lies within the recorded bounds and sequence range of a table of its level *)
  /\ \A a \in K : a[4] >= 0 =>
        \E f \in F : f[2] = a[4] /\ f[3] <= a[1] /\ a[1] <= f[4] /\ f[5] <= a[2] /\ a[2] <= f[6]
Lsm == Is("lsm") /\ (Chk("lsm") => LsmOK(Ev))
       (* C39: a table file that was removed from the directory is never referenced by a version again *)
       /\ (Chk("c39") => {p[2] : p \in {q \in ver : q[1] = 0}} \cap ToSet(Ev.phys) = {})
       /\ UNCHANGED <<cur, hs, cv>>
Pin == Is("pin") /\ ver' = ver \cup {<<Ev.h, f>> : f \in ToSet(Ev.files)} /\ UNCHANGED <<cur, hs, base, wents, durn>>
Unpin == Is("unpin") /\ ver' = {p \in ver : p[1] # Ev.h} /\ UNCHANGED <<cur, hs, base, wents, durn>>
(* C39: a table file leaves the directory only when neither the current version nor a pinned one references it *)
(* (handle 0 in ver = "removed from the directory") *)
Removed == Is("removed")
           /\ (Chk("c39") => Ev.num \notin {p[2] : p \in {q \in ver : q[1] # 0}})
           /\ ver' = ver \cup {<<0, Ev.num>>}
           /\ UNCHANGED <<cur, hs, base, wents, durn>>
(* ... and with no handle open and deletions processed, the directory holds exactly the live files *)
(* Ev.pending: tables Pebble itself still counts as obsolete and not yet deleted.  The property's     *)
(* precondition "deletions have been processed" is observable only as pending = 0; with deletions     *)
(* still pending on a running store the directory may hold more than the live set, never less.        *)
(* After a reopen the listing is exact unconditionally ("reopening does not change this").            *)
DirList == Is("dirlist")
           /\ (Chk("c39") =>
                 /\ ToSet(Ev.live) \subseteq ToSet(Ev.ssts)
                 /\ ((Ev.pending = 0 \/ Ev.when = "reopened") => (ToSet(Ev.ssts) = ToSet(Ev.live) /\ Ev.blobs = Ev.liveblobs)))
           /\ UNCHANGED <<cur, hs, cv>>

(* free-form annotations *)
Note == Is("note") /\ UNCHANGED <<cur, hs, cv>>

TraceNext == \/ Reset \/ Commit \/ Ingest \/ IngestExcise \/ Excise \/ BatchCommit \/ DurablePoint \/ SyncWait \/ Maint
             \/ Snap \/ Efos \/ BatchNew \/ BatchOp \/ Close \/ Get \/ Scan \/ RScan \/ FGet \/ FScan
             \/ NewIter \/ IterOp \/ IterLimOp \/ SetBounds \/ SetOpts \/ CloneIt
             \/ CrashProbe \/ Reopen \/ DurRead \/ Lsm \/ Pin \/ Unpin \/ Removed \/ DirList \/ CleanReopen \/ CloseDB \/ Checkpoint \/ ScanInt \/ Ratchet \/ RatchetFail \/ Note
TraceSpec == TraceInit /\ [][TraceNext]_vars

(* acceptance: high-water mark of consumed lines *)
HWM == IF l - 1 > TLCGet(1) THEN TLCSet(1, l - 1) ELSE TRUE
TraceAccepted == PrintT(<<"HWM", TLCGet(1)>>) /\ TLCGet(1) = Len(Trace)
=============================================================================
