SPECIFICATION Spec
CONSTANTS
  P = 3
  S = 3
  MaxLen = 30
  MaxSnaps = 2
  MaxIters = 2
  Classes = {"pt", "rk", "it", "mt", "sn", "ig"}
  IterCls = "pos"
  Masks = TRUE
INVARIANT Inv
INVARIANT EmitInv
CHECK_DEADLOCK FALSE
