------------------------------- MODULE KV -------------------------------
(* The logical model of Pebble: what a user of the key-value API observes.  *)
(* Pure operators over an abstract state; the trace spec (KVTrace), the       *)
(* generator (KVGen) and the sanity model (KVSanity) all build on it.         *)
(*                                                                            *)
(* Keys are ranks 0..R-1 in comparer order.  A rank k stands for the user key *)
(* with prefix  k \div (S+1)  and, inside a prefix, first the bare key, then  *)
(* the suffixed versions with suffix S, S-1, .. 1 (testkeys order: larger     *)
(* suffix sorts first).  R stands for "past the last key".  Range-key bounds  *)
(* are bare prefix keys, i.e. ranks that are multiples of S+1 (or R).         *)
(* Values are integer ids; a point's value is the sequence of ids the default *)
(* (concatenating) merger would produce; <<>> = absent.                       *)
EXTENDS Integers, Sequences, FiniteSets, TLC

CONSTANTS P, S

R == P * (S + 1)
Keys == 0..(R - 1)
Prefixes == 0..(P - 1)
Absent == <<>>
PK(p) == p * (S + 1)
PfxOf(k) == k \div (S + 1)
SufOf(k) == IF k % (S + 1) = 0 THEN 0 ELSE S + 1 - (k % (S + 1))
Min(Sx) == CHOOSE x \in Sx : \A y \in Sx : x <= y
Max(Sx) == CHOOSE x \in Sx : \A y \in Sx : x >= y
ToSet(s) == {s[i] : i \in DOMAIN s}
InR(k, a, b) == k >= a /\ k < b

EmptySt == [pts |-> [k \in Keys |-> Absent], rks |-> [p \in Prefixes |-> {}]]

--------------------------------------------------------------------------
(* Writes.  An op is a record with field o and the fields of its kind.       *)
ApplyOp(st, op) ==
  CASE op.o = "set" -> [st EXCEPT !.pts[op.k] = <<op.v>>]
    [] op.o \in {"del", "sdel", "delsized"} -> [st EXCEPT !.pts[op.k] = Absent]
    [] op.o = "merge" -> [st EXCEPT !.pts[op.k] = @ \o <<op.v>>]
    [] op.o = "delr" -> [st EXCEPT !.pts = [k \in Keys |-> IF InR(k, op.a, op.b) THEN Absent ELSE st.pts[k]]]
    [] op.o = "rkset" -> [st EXCEPT !.rks = [p \in Prefixes |->
                            IF InR(PK(p), op.a, op.b) THEN {e \in st.rks[p] : e[1] # op.s} \cup {<<op.s, op.v>>}
                            ELSE st.rks[p]]]
    [] op.o = "rkunset" -> [st EXCEPT !.rks = [p \in Prefixes |->
                            IF InR(PK(p), op.a, op.b) THEN {e \in st.rks[p] : e[1] # op.s} ELSE st.rks[p]]]
    [] op.o = "rkdel" -> [st EXCEPT !.rks = [p \in Prefixes |-> IF InR(PK(p), op.a, op.b) THEN {} ELSE st.rks[p]]]
    [] op.o = "logdata" -> st

RECURSIVE ApplyOps(_, _, _)
ApplyOps(st, ops, i) == IF i > Len(ops) THEN st ELSE ApplyOps(ApplyOp(st, ops[i]), ops, i + 1)
ApplyBatch(st, ops) == ApplyOps(st, ops, 1)

(* Excise removes points and range keys inside [a, b); bounds are prefix keys. *)
ExciseSt(st, a, b) ==
  [pts |-> [k \in Keys |-> IF InR(k, a, b) THEN Absent ELSE st.pts[k]],
   rks |-> [p \in Prefixes |-> IF InR(PK(p), a, b) THEN {} ELSE st.rks[p]]]

(* An entry of the committed history. *)
ApplyEntry(st, e) ==
  CASE e.op \in {"commit", "ingest"} -> ApplyBatch(st, e.ops)
    [] e.op = "ingestexcise" -> ApplyBatch(ExciseSt(st, e.a, e.b), e.ops)
    [] e.op = "excise" -> ExciseSt(st, e.a, e.b)

--------------------------------------------------------------------------
(* Full scans *)
RECURSIVE ScanFrom(_, _)
ScanFrom(st, k) == IF k >= R THEN <<>>
                   ELSE IF st.pts[k] = Absent THEN ScanFrom(st, k + 1)
                   ELSE <<<<k, st.pts[k]>>>> \o ScanFrom(st, k + 1)
ScanPts(st) == ScanFrom(st, 0)

(* Defragmented spans of a range-key state: maximal runs of prefixes with   *)
(* equal non-empty sets; a span is <<startRank, endRank, set>>.              *)
SpanStartP(rks, p) == rks[p] # {} /\ (p = 0 \/ rks[p - 1] # rks[p])
SpanEndP(rks, p) == Min({q \in (p + 1)..P : q = P \/ rks[q] # rks[p]})
Spans(rks) == {<<PK(p), PK(SpanEndP(rks, p)), rks[p]>> : p \in {q \in Prefixes : SpanStartP(rks, q)}}
Clip(sp, lo, hi) == <<IF sp[1] < lo THEN lo ELSE sp[1], IF sp[2] > hi THEN hi ELSE sp[2], sp[3]>>

--------------------------------------------------------------------------
(* Iterators.  it = [view, lo, hi, mask, kt, pos, pfx, err, lim]             *)
(*   kt: 0 points only, 1 range keys only, 2 both                           *)
(*   pos: -2 unpositioned, -1 before first, R after last, else a rank       *)
(*   pfx: -1 or the prefix of prefix mode                                   *)
(*   mask: 0 = no masking, else the RangeKeyMasking suffix                  *)
WantPts(it) == it.kt \in {0, 2}
WantRks(it) == it.kt \in {1, 2}
(* hidden iff some covering range key r has  mask <= r < p  in suffix order, *)
(* i.e. numerically  SufOf(k) < r <= mask  (bare points and bare range keys   *)
(* take no part)                                                             *)
Masked(it, k) == it.kt = 2 /\ it.mask > 0 /\ SufOf(k) > 0
                 /\ \E e \in it.view.rks[PfxOf(k)] : e[1] > 0 /\ e[1] <= it.mask /\ SufOf(k) < e[1]
PLo(it) == IF it.pfx >= 0 /\ PK(it.pfx) > it.lo THEN PK(it.pfx) ELSE it.lo
PHi(it) == IF it.pfx >= 0 /\ PK(it.pfx + 1) < it.hi THEN PK(it.pfx + 1) ELSE it.hi
PSpans(it) == IF WantRks(it)
              THEN {c \in {Clip(sp, PLo(it), PHi(it)) : sp \in Spans(it.view.rks)} : c[1] < c[2]}
              ELSE {}
Cover(it, k) == {c \in PSpans(it) : c[1] <= k /\ k < c[2]}
VisPt(it, k) == WantPts(it) /\ it.view.pts[k] # Absent /\ ~Masked(it, k)
Stops(it) == {k \in Keys : k >= PLo(it) /\ k < PHi(it) /\ VisPt(it, k)} \cup {c[1] : c \in PSpans(it)}

NoRes == [valid |-> FALSE]
Res(it, p) ==
  IF p \in Keys THEN
    LET cv == Cover(it, p) IN
    IF cv = {} THEN [valid |-> TRUE, k |-> p, hp |-> TRUE, hr |-> FALSE, v |-> it.view.pts[p],
                     rs |-> -1, re |-> -1, rkeys |-> {}]
    ELSE LET c == CHOOSE x \in cv : TRUE IN
      [valid |-> TRUE, k |-> p, hp |-> VisPt(it, p), hr |-> TRUE,
       v |-> IF VisPt(it, p) THEN it.view.pts[p] ELSE <<>>,
       rs |-> c[1], re |-> c[2], rkeys |-> c[3]]
  ELSE NoRes

(* logged result (JSON) vs model result *)
ResMatch(lg, ex) ==
  /\ lg.valid = ex.valid
  /\ ex.valid => /\ lg.k = ex.k /\ lg.hp = ex.hp /\ lg.hr = ex.hr /\ lg.v = ex.v
                 /\ lg.rs = ex.rs /\ lg.re = ex.re /\ ToSet(lg.rkeys) = ex.rkeys

Clamp(it, k) == IF k < it.lo THEN it.lo ELSE IF k > it.hi THEN it.hi ELSE k
Fwd(it, from) == LET c == {k \in Stops(it) : k >= from} IN IF c = {} THEN R ELSE Min(c)
Bwd(it, below) == LET c == {k \in Stops(it) : k < below} IN IF c = {} THEN -1 ELSE Max(c)

AbsOps == {"first", "last", "seekge", "seeklt", "seekprefixge"}
RelOps == {"next", "prev", "nextprefix"}

(* The iterator after op o with argument k; deterministic.                   *)
IterStep(it0, o, k) ==
  LET abs == o \in AbsOps
      it1 == IF abs THEN [it0 EXCEPT !.err = FALSE,
                            !.pfx = (IF o = "seekprefixge" THEN PfxOf(IF k >= R THEN R - 1 ELSE k) ELSE -1)]
             ELSE it0
      kk == Clamp(it1, k)
      \* SeekPrefixGE with a key outside the bounds whose clamped key has another prefix is an error
      pfxErr == o = "seekprefixge" /\ kk # k /\ (kk >= R \/ PfxOf(kk) # it1.pfx)
      revInPfx == o = "prev" /\ it0.pfx >= 0
      sticky == ~abs /\ it0.err
      \* NextPrefix is an error when the upper bound is a suffixed key
      npErr == o = "nextprefix" /\ it0.hi < R /\ SufOf(it0.hi) # 0
      np == CASE o = "first" -> Fwd(it1, it1.lo)
              [] o = "last" -> Bwd(it1, it1.hi)
              [] o \in {"seekge", "seekprefixge"} ->
                    IF kk < PHi(it1) /\ kk >= PLo(it1) /\ Cover(it1, kk) # {} THEN kk
                    ELSE Fwd(it1, IF kk < PLo(it1) THEN PLo(it1) ELSE kk)
              [] o = "seeklt" -> Bwd(it1, kk)
              \* (pa: the iterator is paused at a limit and has not yielded pos yet)
              [] o = "next" -> IF it1.pa = "f" THEN it1.pos
                               ELSE IF it1.pos = R THEN R ELSE IF it1.pos = -1 THEN Fwd(it1, it1.lo) ELSE Fwd(it1, it1.pos + 1)
              [] o = "prev" -> IF it1.pa = "b" THEN it1.pos
                               ELSE IF it1.pos = -1 THEN -1 ELSE IF it1.pos = R THEN Bwd(it1, it1.hi) ELSE Bwd(it1, it1.pos)
              [] o = "nextprefix" -> IF it1.pfx >= 0 THEN R ELSE IF it1.pos = R THEN R
                                     ELSE IF it1.pos = -1 THEN Fwd(it1, it1.lo) ELSE Fwd(it1, PK(PfxOf(it1.pos) + 1))
      isErr == pfxErr \/ revInPfx \/ sticky \/ npErr
      fin == IF isErr THEN R ELSE np
  IN [it |-> [it1 EXCEPT !.pos = fin, !.err = isErr, !.pa = ""], err |-> isErr,
      res |-> IF isErr THEN NoRes ELSE Res(it1, np)]

NewIt(view, lo, hi, mask, kt) ==
  [view |-> view, lo |-> lo, hi |-> hi, mask |-> mask, kt |-> kt, pos |-> -2, pfx |-> -1, err |-> FALSE, pa |-> ""]

(* The *WithLimit variants (C02).  Limits are best effort: when the position the unlimited op would  *)
(* reach lies at or beyond the limit (or there is none) the iterator MAY pause (IterAtLimit) without *)
(* yielding it; it may equally return it (or report exhaustion).  It must never pause while the      *)
(* target lies before the limit.  st is the validity state the real iterator reported.               *)
LimOps == {"seekgel", "seekltl", "nextl", "prevl"}
BaseOf(o) == CASE o = "seekgel" -> "seekge" [] o = "seekltl" -> "seeklt" [] o = "nextl" -> "next" [] o = "prevl" -> "prev"
LimFwd(o) == o \in {"seekgel", "nextl"}
IterStepLim(it0, o, k, lim, st, lg, lgerr) ==
  LET r == IterStep(it0, BaseOf(o), k)
      beyond == ~r.res.valid \/ (LimFwd(o) /\ r.res.k >= lim) \/ (~LimFwd(o) /\ r.res.k < lim)
      ok == IF r.err THEN (lgerr /\ st = "exhausted")
            ELSE /\ ~lgerr
                 /\ CASE st = "valid" -> r.res.valid /\ ResMatch(lg, r.res)
                      [] st = "atlimit" -> beyond
                      [] st = "exhausted" -> ~r.res.valid
                      [] OTHER -> FALSE
      \* a relative limited step in prefix mode is an error ("cannot use limit with prefix iteration")
      pfxLim == o \in {"nextl", "prevl"} /\ it0.pfx >= 0
  IN IF pfxLim THEN [it |-> [it0 EXCEPT !.err = TRUE, !.pos = R, !.pa = ""], ok |-> (lgerr /\ st = "exhausted")]
     ELSE [it |-> IF st = "atlimit" /\ ~r.err THEN [r.it EXCEPT !.pa = IF LimFwd(o) THEN "f" ELSE "b"] ELSE r.it, ok |-> ok]

(* Sanity properties of the definitions, checked by KVSanity.cfg *)
SpansWellFormed(rks) ==
  \A a, b \in Spans(rks) : a # b => (a[2] <= b[1] \/ b[2] <= a[1])
SpansMaximal(rks) ==
  \A a, b \in Spans(rks) : a[2] = b[1] => a[3] # b[3]
=============================================================================
