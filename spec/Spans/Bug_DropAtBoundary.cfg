\* seeded bug of the reference operator: DropAtBoundary -- TLC must find Inv violated
SPECIFICATION Spec
CONSTANTS
  NB = 4
  NSeq = 2
  MaxSpans = 2
  MaxKeys = 1
  NLevels = 2
  Ops = {"frag", "trunc", "merge", "defrag"}
  BugMode = "DropAtBoundary"
  Emit = FALSE
INVARIANT Inv
CHECK_DEADLOCK FALSE
