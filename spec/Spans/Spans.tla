------------------------------- MODULE Spans -------------------------------
(* C32.  Spans [a, b) over integer boundaries 0..NB-1 carry keys            *)
(*   [s seqnum, t kind (19 RANGEKEYDEL, 20 RANGEKEYUNSET, 21 RANGEKEYSET),    *)
(*    x suffix, v value id (0 for kinds without a value)].                    *)
(* Cover(spans, u) is the set of keys of the spans covering the unit interval *)
(* [u, u+1); with integer bounds that is per-user-key coverage.  A key is its *)
(* whole record: a value or a suffix that does not travel with its key is a   *)
(* coverage change.                                                            *)
(* Declarative definitions of what fragmenting (keyspan.Fragmenter.Add /      *)
(* Truncate / Finish), truncating to bounds (keyspan.Truncate), merging       *)
(* levels (keyspanimpl.MergingIter), defragmenting (keyspan.DefragmentingIter *)
(* with a DefragmentMethod m: "internal" = keyspan.DefragmentInternal,        *)
(* "user" = rangekeystack.UserIteratorConfig.ShouldDefragment, which sees     *)
(* transformed spans: RANGEKEYSETs by ascending suffix, and whose observable  *)
(* key is (suffix, value)), and merging followed by defragmenting ("mdefrag": *)
(* the compaction's range-key input iterator, compaction.go) must preserve:   *)
(* Fragmented(in, out).  Generator + oracle, as CompactStream.                *)
EXTENDS Integers, Sequences, FiniteSets, TLC, Json

CONSTANTS NB,        \* boundaries 0..NB-1
          NSeq,      \* key seqnums 1..NSeq
          MaxSpans,  \* spans per case
          MaxKeys,   \* keys per span (1..MaxKeys)
          NLevels,   \* levels of a merge case
          Ops,       \* operations to generate: subset of {"frag","trunc","merge","defrag","mdefrag"}
          DSeqs, DKinds, DVals,   \* key pool of the already fragmented inputs (defrag, mdefrag): seqnums, kinds, value ids
          DMethods,  \* DefragmentMethods to generate: subset of {"internal", "user"}
          BugMode, Emit

Units == 0..(NB - 2)
ToSet(s) == {s[i] : i \in DOMAIN s}
(* the identity of a key: the whole record; under user iteration (spans transformed by          *)
(* UserIteratorConfig.Transform) sequence numbers are not observable: (suffix, value)            *)
UserView(in) == in.op = "defrag" /\ in.m = "user"
KeyId(in, k) == IF UserView(in) THEN <<k.x, k.v>> ELSE <<k.s, k.t, k.x, k.v>>
KeyIds(in, ks) == {KeyId(in, ks[j]) : j \in DOMAIN ks}
Cover(in, sp, u) == UNION {KeyIds(in, sp[i].ks) : i \in {j \in DOMAIN sp : sp[j].a <= u /\ u < sp[j].b}}
Trailer(k) == k.s * 256 + k.t
KeyOK(k) == k.t \in {19, 20, 21} /\ (k.t # 21 => k.v = 0) /\ (k.t = 19 => k.x = 0)
SpanOK(in, s) == /\ s.a >= 0 /\ s.a < s.b /\ s.b <= NB - 1 /\ s.ks # <<>>
                 /\ \A j \in DOMAIN s.ks : KeyOK(s.ks[j])
                 /\ IF UserView(in)
                    THEN \A j \in DOMAIN s.ks : /\ s.ks[j].t = 21                              \* sets only,
                                                 /\ (j > 1 => s.ks[j - 1].x < s.ks[j].x)        \* by suffix ascending, one per suffix
                    ELSE \A j \in 1..(Len(s.ks) - 1) : Trailer(s.ks[j]) > Trailer(s.ks[j + 1])  \* keys by trailer descending
(* sorted, non-overlapping, non-empty fragments *)
WellFormed(in, fr) == /\ \A i \in DOMAIN fr : SpanOK(in, fr[i])
                      /\ \A i \in 1..(Len(fr) - 1) : fr[i].b <= fr[i + 1].a

(* what every unit must be covered by after the operation *)
AllLevels(in) == UNION {{<<i, j>> : j \in DOMAIN in.levels[i]} : i \in DOMAIN in.levels}
MergedCover(in, u) == UNION {Cover(in, in.levels[i], u) : i \in DOMAIN in.levels}
Target(in, u) == IF in.op = "trunc" THEN (IF in.lo <= u /\ u < in.hi THEN Cover(in, in.levels[1], u) ELSE {})
                 ELSE IF in.op \in {"merge", "mdefrag"} THEN MergedCover(in, u)
                 ELSE Cover(in, in.levels[1], u)

(* preconditions: well-formed spans; key seqnums distinct over the whole case, except for defragmentation *)
(* whose input is an already fragmented list (per level) in which fragments may carry the same keys, or    *)
(* keys differing in one field only (one ingested table gives all its keys one seqnum); levels of an       *)
(* mdefrag case hold disjoint seqnums                                                                        *)
AllSeqs(in) == [p \in AllLevels(in) |-> {in.levels[p[1]][p[2]].ks[j].s : j \in DOMAIN in.levels[p[1]][p[2]].ks}]
LevelSeqs(in, i) == UNION {AllSeqs(in)[p] : p \in {q \in AllLevels(in) : q[1] = i}}
Fragd(in) == in.op \in {"defrag", "mdefrag"}
Pre(in) ==
  /\ in.op \in {"frag", "trunc", "merge", "defrag", "mdefrag"}
  /\ in.m \in (IF in.op = "defrag" THEN {"internal", "user"} ELSE {""})
  /\ \A p \in AllLevels(in) : SpanOK(in, in.levels[p[1]][p[2]])
  /\ (in.op \notin {"merge", "mdefrag"} => Len(in.levels) = 1)
  /\ (Fragd(in) => \A i \in DOMAIN in.levels : WellFormed(in, in.levels[i]))
  /\ (in.op = "mdefrag" => \A i, j \in DOMAIN in.levels : i # j => LevelSeqs(in, i) \cap LevelSeqs(in, j) = {})
  /\ (~Fragd(in) =>
        /\ \A p, r \in AllLevels(in) : p # r => AllSeqs(in)[p] \cap AllSeqs(in)[r] = {}
        (* Fragmenter.Add: spans arrive ordered by start key *)
        /\ \A i \in DOMAIN in.levels : \A j \in 1..(Len(in.levels[i]) - 1) : in.levels[i][j].a <= in.levels[i][j + 1].a)
  /\ (in.op = "trunc" => (0 <= in.lo /\ in.lo < in.hi /\ in.hi <= NB - 1))

FirstGE(fr, k) == LET S == {i \in DOMAIN fr : fr[i].b > k} IN IF S = {} THEN 0 ELSE CHOOSE i \in S : \A j \in S : i <= j
LastLT(fr, k) == LET S == {i \in DOMAIN fr : fr[i].a < k} IN IF S = {} THEN 0 ELSE CHOOSE i \in S : \A j \in S : i >= j
(* the fragment (index into fwd, 0 = none) a step in direction d = +1 / -1 must show after a seek that landed on i; *)
(* a seek that found nothing leaves the iterator beyond that end of the fragments                                   *)
AfterGE(n, i, d) == IF i = 0 THEN (IF d = 1 THEN 0 ELSE n) ELSE IF d = 1 THEN (IF i < n THEN i + 1 ELSE 0) ELSE i - 1
AfterLT(n, i, d) == IF i = 0 THEN (IF d = 1 THEN (IF n > 0 THEN 1 ELSE 0) ELSE 0) ELSE IF d = 1 THEN (IF i < n THEN i + 1 ELSE 0) ELSE i - 1
Fragmented(in, out) ==
  /\ ~out.err
  /\ WellFormed(in, out.fwd)
  /\ out.bwd = out.fwd                                           \* both iteration directions see the same fragments
  /\ \A u \in Units : Cover(in, out.fwd, u) = Target(in, u)      \* coverage preserved exactly (keys with suffix and value)
  \* seeks land on whole fragments of the forward iteration (index 0 = none, -1 = a span that is not one of them),
  \* and a step in either direction from there shows the neighbouring fragment
  /\ \A i \in DOMAIN out.seeks : LET q == out.seeks[i]  n == Len(out.fwd) IN
         /\ q.ge = FirstGE(out.fwd, q.k) /\ q.gn = AfterGE(n, q.ge, 1) /\ q.gp = AfterGE(n, q.ge, -1)
         /\ q.lt = LastLT(out.fwd, q.k) /\ q.ln = AfterLT(n, q.lt, 1) /\ q.lp = AfterLT(n, q.lt, -1)

(* ---- reference operator: unit-width fragments, defragmentation merges abutting equal fragments ---- *)
Max(S) == CHOOSE x \in S : \A y \in S : y <= x
KeysOf(in, u) ==   \* the key records covering u, newest first
  LET recs == UNION {ToSet(in.levels[p[1]][p[2]].ks) : p \in {q \in AllLevels(in) :
                       /\ in.levels[q[1]][q[2]].a <= u /\ u < in.levels[q[1]][q[2]].b
                       /\ (BugMode = "DropAtBoundary" => in.levels[q[1]][q[2]].a # u \/ u = 0)
                       /\ (BugMode = "MergeDropsLowerLevel" => q[1] = 1)}}
      F[S \in SUBSET recs] == IF S = {} THEN <<>>
                              ELSE LET m == CHOOSE r \in S : \A o \in S : Trailer(o) <= Trailer(r) IN <<m>> \o F[S \ {m}]
  IN F[recs]
InBounds(in, u) == in.op # "trunc" \/ (in.lo <= u /\ (u < in.hi \/ BugMode = "TruncKeepsBeyondEnd"))
RECURSIVE UnitFrags(_, _)
UnitFrags(in, u) == IF u > NB - 2 THEN <<>>
                    ELSE (IF InBounds(in, u) /\ KeysOf(in, u) # <<>> THEN <<[a |-> u, b |-> u + 1, ks |-> KeysOf(in, u)]>> ELSE <<>>)
                         \o UnitFrags(in, u + 1)
(* two abutting fragments are joined when their keys are the same, key by key; the joined fragment keeps the left keys *)
(* (keyspan.StaticDefragmentReducer).  Seeded bug DefragIgnoresValue: the values are not compared.                     *)
SameKeys(in, ka, kb) ==
  \/ BugMode = "DefragJoinsUnequal"
  \/ /\ Len(ka) = Len(kb)
     /\ \A j \in DOMAIN ka : IF BugMode = "DefragIgnoresValue" THEN [ka[j] EXCEPT !.v = 0] = [kb[j] EXCEPT !.v = 0]
                              ELSE KeyId(in, ka[j]) = KeyId(in, kb[j])
RECURSIVE Defrag(_, _)
Defrag(in, fr) == IF Len(fr) <= 1 THEN fr
              ELSE IF fr[1].b = fr[2].a /\ SameKeys(in, fr[1].ks, fr[2].ks)
                   THEN Defrag(in, <<[a |-> fr[1].a, b |-> fr[2].b, ks |-> fr[1].ks]>> \o Tail(Tail(fr)))
                   ELSE <<fr[1]>> \o Defrag(in, Tail(fr))
SpecOut(in) == LET f == IF in.op = "defrag" THEN Defrag(in, in.levels[1])
                        ELSE IF in.op = "mdefrag" THEN Defrag(in, UnitFrags(in, 0)) ELSE UnitFrags(in, 0)
               IN [fwd |-> f, bwd |-> f, seeks |-> <<>>, err |-> FALSE]

(* ---- input generator ---- *)
VARIABLES op, lv, par, ph
vars == <<op, lv, par, ph>>
NoPar == [lo |-> 0, hi |-> 0, cut |-> -1, m |-> ""]
(* keys of the spans given to the fragmenter: RANGEKEYSETs, distinct seqnums; the value is determined by the key *)
KeySeqs == {ks \in UNION {[1..n -> {[s |-> q, t |-> 21, x |-> x, v |-> q] : q \in 1..NSeq, x \in 0..1}] : n \in 1..MaxKeys} :
              \A j \in 1..(Len(ks) - 1) : ks[j].s > ks[j + 1].s}
(* keys of already fragmented inputs: every combination of seqnum, kind, suffix and value, so that two fragments may *)
(* differ in exactly one of them                                                                                      *)
DKeys == {[s |-> q, t |-> t, x |-> (IF t = 19 THEN 0 ELSE x), v |-> (IF t = 21 THEN v ELSE 0)] : q \in DSeqs, t \in DKinds, x \in 0..1, v \in DVals}
DKeySeqs(m) == {ks \in UNION {[1..n -> DKeys] : n \in 1..MaxKeys} :
                  IF m = "user" THEN \A j \in DOMAIN ks : ks[j].t = 21 /\ (j > 1 => ks[j - 1].x < ks[j].x)
                  ELSE \A j \in 1..(Len(ks) - 1) : Trailer(ks[j]) > Trailer(ks[j + 1])}
Used == UNION {UNION {{lv[i][j].ks[m].s : m \in DOMAIN lv[i][j].ks} : j \in DOMAIN lv[i]} : i \in DOMAIN lv}
NSpans == Len(lv[1]) + (IF Len(lv) > 1 THEN Len(lv[2]) ELSE 0) + (IF Len(lv) > 2 THEN Len(lv[3]) ELSE 0)
Init == op = "none" /\ lv = <<>> /\ par = NoPar /\ ph = "op"
ChooseOp(o, m) == /\ ph = "op" /\ op' = o /\ ph' = "spans" /\ par' = [NoPar EXCEPT !.m = m]
                  /\ lv' = IF o \in {"merge", "mdefrag"} THEN [i \in 1..NLevels |-> <<>>] ELSE << <<>> >>
(* spans are added level by level, within a level ordered by (a, b) *)
AddSpan(i, a, b, ks) ==
  /\ ph = "spans" /\ op \notin {"defrag", "mdefrag"} /\ NSpans < MaxSpans /\ a < b
  /\ \A j \in (i + 1)..Len(lv) : lv[j] = <<>>
  /\ (lv[i] # <<>> => (lv[i][Len(lv[i])].a < a \/ (lv[i][Len(lv[i])].a = a /\ lv[i][Len(lv[i])].b <= b)))
  /\ \A m \in DOMAIN ks : ks[m].s \notin Used
  /\ lv' = [lv EXCEPT ![i] = Append(@, [a |-> a, b |-> b, ks |-> ks])]
  /\ UNCHANGED <<op, par, ph>>
(* already fragmented input (a level): the next fragment starts at or after the previous end; the levels of an  *)
(* mdefrag case hold disjoint seqnums                                                                            *)
LvSeqs(i) == UNION {{lv[i][j].ks[m].s : m \in DOMAIN lv[i][j].ks} : j \in DOMAIN lv[i]}
AddFrag(i, a, b, ks) ==
  /\ ph = "spans" /\ op \in {"defrag", "mdefrag"} /\ NSpans < MaxSpans /\ a < b
  /\ \A j \in (i + 1)..Len(lv) : lv[j] = <<>>
  /\ (lv[i] # <<>> => lv[i][Len(lv[i])].b <= a)
  /\ \A j \in DOMAIN lv : j # i => \A m \in DOMAIN ks : ks[m].s \notin LvSeqs(j)
  /\ lv' = [lv EXCEPT ![i] = Append(@, [a |-> a, b |-> b, ks |-> ks])]
  /\ UNCHANGED <<op, par, ph>>
Finish(p) == /\ ph = "spans" /\ NSpans > 0 /\ ph' = "done" /\ par' = p /\ UNCHANGED <<op, lv>>
Pars == IF op = "trunc" THEN {[lo |-> l, hi |-> h, cut |-> -1, m |-> ""] : l \in 0..(NB - 2), h \in 1..(NB - 1)}
        ELSE IF op = "frag" THEN {[lo |-> 0, hi |-> 0, cut |-> c, m |-> ""] : c \in -1..(NB - 1)}
        ELSE {par}
Next == \/ \E o \in Ops : \E m \in (IF o = "defrag" THEN DMethods ELSE {""}) : ChooseOp(o, m)
        \/ /\ ph = "spans" /\ op \notin {"defrag", "mdefrag"}
           /\ \E i \in DOMAIN lv, a \in 0..(NB - 2), b \in 1..(NB - 1), ks \in KeySeqs : AddSpan(i, a, b, ks)
        \/ /\ ph = "spans" /\ op \in {"defrag", "mdefrag"}
           /\ \E i \in DOMAIN lv, a \in 0..(NB - 2), b \in 1..(NB - 1), ks \in DKeySeqs(par.m) : AddFrag(i, a, b, ks)
        \/ \E p \in Pars : (p.lo < p.hi \/ op # "trunc") /\ Finish(p)
Spec == Init /\ [][Next]_vars

Input == [op |-> op, levels |-> lv, lo |-> par.lo, hi |-> par.hi, cut |-> par.cut, m |-> par.m]
Inv == (ph = "done" /\ Pre(Input)) => Fragmented(Input, SpecOut(Input))
EmitInv == (Emit /\ ph = "done" /\ Pre(Input)) => PrintT(ToJson(Input))
=============================================================================
