------------------------------- MODULE Spans -------------------------------
(* C32.  Spans [a, b) over integer boundaries 0..NB-1 carry keys (seqnum s,   *)
(* suffix x).  Cover(spans, u) is the set of keys of the spans covering the   *)
(* unit interval [u, u+1); with integer bounds that is per-user-key coverage. *)
(* Declarative definitions of what fragmenting (keyspan.Fragmenter.Add /      *)
(* Truncate / Finish), truncating to bounds (keyspan.Truncate), merging       *)
(* levels (keyspanimpl.MergingIter) and defragmenting                         *)
(* (keyspan.DefragmentingIter with DefragmentInternal) must preserve:         *)
(* Fragmented(in, out).  Generator + oracle, as CompactStream.                *)
EXTENDS Integers, Sequences, FiniteSets, TLC, Json

CONSTANTS NB,        \* boundaries 0..NB-1
          NSeq,      \* key seqnums 1..NSeq
          MaxSpans,  \* spans per case
          MaxKeys,   \* keys per span (1..MaxKeys)
          NLevels,   \* levels of a merge case
          Ops,       \* operations to generate: subset of {"frag","trunc","merge","defrag"}
          BugMode, Emit

Units == 0..(NB - 2)
ToSet(s) == {s[i] : i \in DOMAIN s}
KeyId(k) == k.s * 10 + k.x
KeyIds(ks) == {KeyId(ks[j]) : j \in DOMAIN ks}
Cover(sp, u) == UNION {KeyIds(sp[i].ks) : i \in {j \in DOMAIN sp : sp[j].a <= u /\ u < sp[j].b}}
SpanOK(s) == s.a >= 0 /\ s.a < s.b /\ s.b <= NB - 1 /\ s.ks # <<>>
             /\ \A j \in 1..(Len(s.ks) - 1) : s.ks[j].s > s.ks[j + 1].s      \* keys by trailer descending
(* sorted, non-overlapping, non-empty fragments *)
WellFormed(fr) == /\ \A i \in DOMAIN fr : SpanOK(fr[i])
                  /\ \A i \in 1..(Len(fr) - 1) : fr[i].b <= fr[i + 1].a

(* what every unit must be covered by after the operation *)
AllLevels(in) == UNION {{<<i, j>> : j \in DOMAIN in.levels[i]} : i \in DOMAIN in.levels}
MergedCover(in, u) == UNION {Cover(in.levels[i], u) : i \in DOMAIN in.levels}
Target(in, u) == IF in.op = "trunc" THEN (IF in.lo <= u /\ u < in.hi THEN Cover(in.levels[1], u) ELSE {})
                 ELSE IF in.op = "merge" THEN MergedCover(in, u)
                 ELSE Cover(in.levels[1], u)

(* preconditions: well-formed spans; key seqnums distinct over the whole case, except for defragmentation *)
(* whose input is an already fragmented list in which abutting fragments may carry the same keys          *)
AllSeqs(in) == [p \in AllLevels(in) |-> {in.levels[p[1]][p[2]].ks[j].s : j \in DOMAIN in.levels[p[1]][p[2]].ks}]
Pre(in) ==
  /\ in.op \in {"frag", "trunc", "merge", "defrag"}
  /\ \A p \in AllLevels(in) : SpanOK(in.levels[p[1]][p[2]])
  /\ (in.op # "merge" => Len(in.levels) = 1)
  /\ (in.op = "defrag" => WellFormed(in.levels[1]))
  /\ (in.op # "defrag" =>
        /\ \A p, r \in AllLevels(in) : p # r => AllSeqs(in)[p] \cap AllSeqs(in)[r] = {}
        (* Fragmenter.Add: spans arrive ordered by start key *)
        /\ \A i \in DOMAIN in.levels : \A j \in 1..(Len(in.levels[i]) - 1) : in.levels[i][j].a <= in.levels[i][j + 1].a)
  /\ (in.op = "trunc" => (0 <= in.lo /\ in.lo < in.hi /\ in.hi <= NB - 1))

FirstGE(fr, k) == LET S == {i \in DOMAIN fr : fr[i].b > k} IN IF S = {} THEN 0 ELSE CHOOSE i \in S : \A j \in S : i <= j
LastLT(fr, k) == LET S == {i \in DOMAIN fr : fr[i].a < k} IN IF S = {} THEN 0 ELSE CHOOSE i \in S : \A j \in S : i >= j
Fragmented(in, out) ==
  /\ ~out.err
  /\ WellFormed(out.fwd)
  /\ out.bwd = out.fwd                                           \* both iteration directions see the same fragments
  /\ \A u \in Units : Cover(out.fwd, u) = Target(in, u)          \* coverage preserved exactly
  /\ \A i \in DOMAIN out.seeks : /\ out.seeks[i].ge = FirstGE(out.fwd, out.seeks[i].k)
                                 /\ out.seeks[i].lt = LastLT(out.fwd, out.seeks[i].k)

(* ---- reference operator: unit-width fragments, defragmentation merges abutting equal fragments ---- *)
Max(S) == CHOOSE x \in S : \A y \in S : y <= x
KeysOf(in, u) ==   \* the key records covering u, newest first
  LET recs == UNION {ToSet(in.levels[p[1]][p[2]].ks) : p \in {q \in AllLevels(in) :
                       /\ in.levels[q[1]][q[2]].a <= u /\ u < in.levels[q[1]][q[2]].b
                       /\ (BugMode = "DropAtBoundary" => in.levels[q[1]][q[2]].a # u \/ u = 0)
                       /\ (BugMode = "MergeDropsLowerLevel" => q[1] = 1)}}
      F[S \in SUBSET recs] == IF S = {} THEN <<>>
                              ELSE LET m == CHOOSE r \in S : \A o \in S : o.s <= r.s IN <<m>> \o F[S \ {m}]
  IN F[recs]
InBounds(in, u) == in.op # "trunc" \/ (in.lo <= u /\ (u < in.hi \/ BugMode = "TruncKeepsBeyondEnd"))
RECURSIVE UnitFrags(_, _)
UnitFrags(in, u) == IF u > NB - 2 THEN <<>>
                    ELSE (IF InBounds(in, u) /\ KeysOf(in, u) # <<>> THEN <<[a |-> u, b |-> u + 1, ks |-> KeysOf(in, u)]>> ELSE <<>>)
                         \o UnitFrags(in, u + 1)
RECURSIVE Defrag(_)
Defrag(fr) == IF Len(fr) <= 1 THEN fr
              ELSE IF fr[1].b = fr[2].a /\ (fr[1].ks = fr[2].ks \/ BugMode = "DefragJoinsUnequal")
                   THEN Defrag(<<[a |-> fr[1].a, b |-> fr[2].b, ks |-> fr[1].ks]>> \o Tail(Tail(fr)))
                   ELSE <<fr[1]>> \o Defrag(Tail(fr))
SpecOut(in) == LET f == IF in.op = "defrag" THEN Defrag(in.levels[1]) ELSE UnitFrags(in, 0)
               IN [fwd |-> f, bwd |-> f, seeks |-> <<>>, err |-> FALSE]

(* ---- input generator ---- *)
VARIABLES op, lv, par, ph
vars == <<op, lv, par, ph>>
NoPar == [lo |-> 0, hi |-> 0, cut |-> -1]
KeySeqs == {ks \in UNION {[1..n -> [s : 1..NSeq, x : 0..1]] : n \in 1..MaxKeys} : \A j \in 1..(Len(ks) - 1) : ks[j].s > ks[j + 1].s}
Used == UNION {UNION {{lv[i][j].ks[m].s : m \in DOMAIN lv[i][j].ks} : j \in DOMAIN lv[i]} : i \in DOMAIN lv}
NSpans == Len(lv[1]) + (IF Len(lv) > 1 THEN Len(lv[2]) ELSE 0) + (IF Len(lv) > 2 THEN Len(lv[3]) ELSE 0)
Init == op = "none" /\ lv = <<>> /\ par = NoPar /\ ph = "op"
ChooseOp(o) == /\ ph = "op" /\ op' = o /\ ph' = "spans" /\ par' = NoPar
               /\ lv' = IF o = "merge" THEN [i \in 1..NLevels |-> <<>>] ELSE << <<>> >>
(* spans are added level by level, within a level ordered by (a, b) *)
AddSpan(i, a, b, ks) ==
  /\ ph = "spans" /\ op # "defrag" /\ NSpans < MaxSpans /\ a < b
  /\ \A j \in (i + 1)..Len(lv) : lv[j] = <<>>
  /\ (lv[i] # <<>> => (lv[i][Len(lv[i])].a < a \/ (lv[i][Len(lv[i])].a = a /\ lv[i][Len(lv[i])].b <= b)))
  /\ \A m \in DOMAIN ks : ks[m].s \notin Used
  /\ lv' = [lv EXCEPT ![i] = Append(@, [a |-> a, b |-> b, ks |-> ks])]
  /\ UNCHANGED <<op, par, ph>>
(* defragmentation input: the next fragment starts at or after the previous end *)
AddFrag(a, b, ks) ==
  /\ ph = "spans" /\ op = "defrag" /\ Len(lv[1]) < MaxSpans /\ a < b
  /\ (lv[1] # <<>> => lv[1][Len(lv[1])].b <= a)
  /\ lv' = [lv EXCEPT ![1] = Append(@, [a |-> a, b |-> b, ks |-> ks])]
  /\ UNCHANGED <<op, par, ph>>
Finish(p) == /\ ph = "spans" /\ NSpans > 0 /\ ph' = "done" /\ par' = p /\ UNCHANGED <<op, lv>>
Pars == IF op = "trunc" THEN {[lo |-> l, hi |-> h, cut |-> -1] : l \in 0..(NB - 2), h \in 1..(NB - 1)}
        ELSE IF op = "frag" THEN {[lo |-> 0, hi |-> 0, cut |-> c] : c \in -1..(NB - 1)}
        ELSE {NoPar}
Next == \/ \E o \in Ops : ChooseOp(o)
        \/ \E i \in DOMAIN lv, a \in 0..(NB - 2), b \in 1..(NB - 1), ks \in KeySeqs : AddSpan(i, a, b, ks) \/ (i = 1 /\ AddFrag(a, b, ks))
        \/ \E p \in Pars : (p.lo < p.hi \/ op # "trunc") /\ Finish(p)
Spec == Init /\ [][Next]_vars

Input == [op |-> op, levels |-> lv, lo |-> par.lo, hi |-> par.hi, cut |-> par.cut]
Inv == (ph = "done" /\ Pre(Input)) => Fragmented(Input, SpecOut(Input))
EmitInv == (Emit /\ ph = "done" /\ Pre(Input)) => PrintT(ToJson(Input))
=============================================================================
