\* seeded bug of the reference operator: DefragIgnoresValue -- TLC must find Inv violated
SPECIFICATION Spec
CONSTANTS
  NB = 4
  NSeq = 2
  MaxSpans = 2
  MaxKeys = 1
  NLevels = 2
  Ops = {"defrag", "mdefrag"}
  DSeqs = {1, 2}
  DKinds = {20, 21}
  DVals = {1, 2}
  DMethods = {"internal", "user"}
  BugMode = "DefragIgnoresValue"
  Emit = FALSE
INVARIANT Inv
CHECK_DEADLOCK FALSE
