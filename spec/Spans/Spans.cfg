\* exhaustive small scope: 4 boundaries (3 unit intervals), <= 2 spans with 1 key each (seqnums 1..2,
\* 2 suffixes), 2 levels; every operation, every truncation bound / fragmenter cut point
SPECIFICATION Spec
CONSTANTS
  NB = 4
  NSeq = 2
  MaxSpans = 2
  MaxKeys = 1
  NLevels = 2
  Ops = {"frag", "trunc", "merge", "defrag"}
  BugMode = "none"
  Emit = FALSE
INVARIANT Inv
INVARIANT EmitInv
CHECK_DEADLOCK FALSE
