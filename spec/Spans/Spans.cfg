\* exhaustive small scope: 4 boundaries (3 unit intervals), <= 2 spans with 1 key each (seqnums 1..2,
\* 2 suffixes; fragmented inputs: keys over seqnums 1..2 x {UNSET, SET} x 2 suffixes x 2 values), 2 levels; every operation and DefragmentMethod, every truncation bound / fragmenter cut point
SPECIFICATION Spec
CONSTANTS
  NB = 4
  NSeq = 2
  MaxSpans = 2
  MaxKeys = 1
  NLevels = 2
  Ops = {"frag", "trunc", "merge", "defrag", "mdefrag"}
  DSeqs = {1, 2}
  DKinds = {20, 21}
  DVals = {1, 2}
  DMethods = {"internal", "user"}
  BugMode = "none"
  Emit = FALSE
INVARIANT Inv
INVARIANT EmitInv
CHECK_DEADLOCK FALSE
