----------------------------- MODULE SpansTrace -----------------------------
(* C32 binding: "in" = a case fed to the real keyspan code, "out" = the      *)
(* fragments it produced (forward and backward iteration, seeks).  TLC       *)
(* decides Pre(in) and Fragmented(in, out).                                   *)
EXTENDS Spans

Trace == ndJsonDeserialize("trace.ndjson")
VARIABLES l, cur, adm
tvars == <<l, cur, adm, op, lv, par, ph>>
None == [none |-> TRUE]
Ev == Trace[l]

TraceInit == l = 1 /\ cur = None /\ adm = FALSE /\ Init /\ TLCSet(1, 0) /\ TLCSet(2, 0)
In == /\ l <= Len(Trace) /\ Ev.op = "in" /\ cur = None
      /\ cur' = Ev.c /\ adm' = Pre(Ev.c) /\ l' = l + 1
      /\ (Ev.must => adm')
      /\ UNCHANGED vars
Out == /\ l <= Len(Trace) /\ Ev.op = "out" /\ cur # None
       /\ ((adm => Fragmented(cur, Ev.o)) = TRUE)
       /\ (IF adm THEN TRUE ELSE TLCSet(2, TLCGet(2) + 1))
       /\ cur' = None /\ adm' = FALSE /\ l' = l + 1
       /\ UNCHANGED vars
TraceNext == In \/ Out
TraceSpec == TraceInit /\ [][TraceNext]_tvars

HWM == IF l - 1 > TLCGet(1) THEN TLCSet(1, l - 1) ELSE TRUE
TraceAccepted == PrintT(<<"HWM", TLCGet(1)>>) /\ PrintT(<<"VACUOUS", TLCGet(2)>>) /\ TLCGet(1) = Len(Trace)
=============================================================================
