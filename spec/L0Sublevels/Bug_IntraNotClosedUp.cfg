\* seeded bug of the reference operators: IntraNotClosedUp -- TLC must find Inv violated
SPECIFICATION Spec
CONSTANTS
  NKeys = 3
  MaxFiles = 3
  Marks = {0, 1, 2}
  BugMode = "IntraNotClosedUp"
  Emit = FALSE
INVARIANT Inv
CHECK_DEADLOCK FALSE
