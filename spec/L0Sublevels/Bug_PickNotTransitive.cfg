\* seeded bug of the reference operators: PickNotTransitive -- TLC must find Inv violated
SPECIFICATION Spec
CONSTANTS
  NKeys = 3
  MaxFiles = 4
  Marks = {0}
  BugMode = "PickNotTransitive"
  Emit = FALSE
INVARIANT Inv
CHECK_DEADLOCK FALSE
