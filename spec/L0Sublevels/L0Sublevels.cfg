\* exhaustive small scope: 3 user keys, <= 3 L0 files (any ranges, flush groups), every compacting marking
SPECIFICATION Spec
CONSTANTS
  NKeys = 3
  MaxFiles = 3
  Marks = {0, 1, 2}
  BugMode = "none"
  Emit = FALSE
INVARIANT Inv
INVARIANT EmitInv
CHECK_DEADLOCK FALSE
