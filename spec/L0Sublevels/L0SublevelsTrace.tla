-------------------------- MODULE L0SublevelsTrace --------------------------
(* C16 binding: "in" = L0 files (with compacting marks) given to the real     *)
(* newL0Sublevels / addL0Files / PickBaseCompaction / PickIntraL0Compaction,  *)
(* "out" = sublevel assignment (batch and every incremental construction)     *)
(* and the picks.  TLC decides Pre(in) and L0Ok(in, out).                      *)
EXTENDS L0Sublevels

Trace == ndJsonDeserialize("trace.ndjson")
VARIABLES l, cur, adm
tvars == <<l, cur, adm, files, ph>>
None == [none |-> TRUE]
Ev == Trace[l]

TraceInit == l = 1 /\ cur = None /\ adm = FALSE /\ Init /\ TLCSet(1, 0) /\ TLCSet(2, 0) /\ TLCSet(3, 0)
NNotExec(in, o) == Cardinality({k \in DOMAIN o.picks : ~o.picks[k].none /\ NotExecuted(in, o.picks[k])})
In == /\ l <= Len(Trace) /\ Ev.op = "in" /\ cur = None
      /\ cur' = Ev.c /\ adm' = Pre(Ev.c) /\ l' = l + 1
      /\ (Ev.must => adm')
      /\ UNCHANGED vars
Out == /\ l <= Len(Trace) /\ Ev.op = "out" /\ cur # None
       /\ ((adm => L0Ok(cur, Ev.o)) = TRUE)
       /\ (IF adm THEN TLCSet(3, TLCGet(3) + NNotExec(cur, Ev.o)) ELSE TLCSet(2, TLCGet(2) + 1))
       /\ cur' = None /\ adm' = FALSE /\ l' = l + 1
       /\ UNCHANGED vars
TraceNext == In \/ Out
TraceSpec == TraceInit /\ [][TraceNext]_tvars

HWM == IF l - 1 > TLCGet(1) THEN TLCSet(1, l - 1) ELSE TRUE
TraceAccepted == PrintT(<<"HWM", TLCGet(1)>>) /\ PrintT(<<"VACUOUS", TLCGet(2)>>) /\ PrintT(<<"NOTEXECUTED", TLCGet(3)>>) /\ TLCGet(1) = Len(Trace)
=============================================================================
