---------------------------- MODULE L0Sublevels ----------------------------
(* C16.  An L0 file is [id, lo, hi, g, c]: user-key range [lo, hi]           *)
(* (inclusive, integer keys), seqnum group g (seqnums [2g-1, 2g]; files of   *)
(* one group come from one partitioned flush and are key-disjoint), and a     *)
(* compacting mark c (0 none, 1 compacting to Lbase, 2 intra-L0 compacting).  *)
(* L0 order (SortBySeqNum) is (g, id).  Declarative definitions of            *)
(*   Sublevel(f)  = 1 + max sublevel of the older files overlapping f         *)
(*                  (internal/manifest/l0_sublevels.go: addFileToSublevels),  *)
(*   SublevelsSound, IncrementalEqualsBatch (newL0Sublevels vs addL0Files),   *)
(*   PickClosed (PickBaseCompaction / PickIntraL0Compaction /                 *)
(*                extendCandidateToRectangle).                                *)
(* Generator + oracle, as CompactStream.                                      *)
EXTENDS Integers, Sequences, FiniteSets, TLC, Json

CONSTANTS NKeys,     \* user keys 0..NKeys-1
          MaxFiles,
          Marks,     \* compacting marks the generator uses (subset of {0,1,2})
          BugMode, Emit

ToSet(s) == {s[i] : i \in DOMAIN s}
Overlap(f, h) == f.lo <= h.hi /\ h.lo <= f.hi
Older(f, h) == f.g < h.g                       \* f strictly older than h (disjoint seqnum ranges)
SameAge(f, h) == f.g = h.g
Max(S) == CHOOSE x \in S : \A y \in S : y <= x

(* files is a sequence in L0 order; sublevels by position *)
RECURSIVE SubR(_, _)
SubR(files, i) ==   \* sublevel of files[i]
  LET below == {j \in 1..(i - 1) : Overlap(files[j], files[i]) /\ Older(files[j], files[i])}
  IN IF below = {} THEN 0
     ELSE IF BugMode = "SubMinNotMax" THEN 1 + (CHOOSE x \in {SubR(files, j) : j \in below} : \A y \in {SubR(files, j) : j \in below} : x <= y)
     ELSE 1 + Max({SubR(files, j) : j \in below})
Sublevel(files, i) == SubR(files, i)

(* preconditions *)
Pre(in) ==
  LET fs == in.files IN
  /\ \A i \in DOMAIN fs : fs[i].lo >= 0 /\ fs[i].lo <= fs[i].hi /\ fs[i].hi < NKeys /\ fs[i].g >= 1 /\ fs[i].c \in {0, 1, 2}
  /\ \A i, j \in DOMAIN fs : i < j => (fs[i].g < fs[j].g \/ (fs[i].g = fs[j].g /\ fs[i].id < fs[j].id))   \* L0 order
  /\ \A i, j \in DOMAIN fs : (i # j /\ SameAge(fs[i], fs[j])) => ~Overlap(fs[i], fs[j])                    \* one flush: disjoint
  (* files already compacting were themselves picked by closed picks: *)
  /\ \A i, j \in DOMAIN fs : (fs[i].c = 1 /\ fs[j].c # 1 /\ Overlap(fs[i], fs[j])) => Older(fs[i], fs[j])
  /\ \A j \in DOMAIN fs : fs[j].c # 2 =>
        LET pg == {i \in DOMAIN fs : fs[i].c = 2 /\ Overlap(fs[i], fs[j])}
        IN (\A i \in pg : Older(fs[i], fs[j])) \/ (\A i \in pg : Older(fs[j], fs[i]))

(* ---- the relation ---- *)
SubOf(in, sub, i) == LET S == {k \in DOMAIN sub : sub[k].id = in.files[i].id} IN IF Cardinality(S) = 1 THEN sub[CHOOSE k \in S : TRUE].sl ELSE -1
(* overlapping files land in distinct sublevels ordered by seqnum; files of one sublevel never overlap *)
SublevelsSound(in, sub) ==
  /\ Len(sub) = Len(in.files)
  /\ \A i \in DOMAIN in.files : SubOf(in, sub, i) >= 0
  /\ \A i, j \in DOMAIN in.files : (i # j /\ Overlap(in.files[i], in.files[j])) =>
        /\ SubOf(in, sub, i) # SubOf(in, sub, j)
        /\ (Older(in.files[i], in.files[j]) => SubOf(in, sub, i) < SubOf(in, sub, j))
SublevelsAsDefined(in, sub) == \A i \in DOMAIN in.files : SubOf(in, sub, i) = Sublevel(in.files, i)
(* every incremental construction gives the same assignment as building from scratch *)
IncrementalEqualsBatch(out) == \A v \in DOMAIN out.inc : ToSet(out.inc[v]) = ToSet(out.sub)

FileById(in, id) == LET S == {i \in DOMAIN in.files : in.files[i].id = id} IN IF S = {} THEN 0 ELSE CHOOSE i \in S : TRUE
(* executing the pick keeps the level invariant: for every file left behind, the picked files overlapping it are *)
(* all older than it (they may sink below it), or -- intra-L0 only -- all newer (the output stays above it)       *)
PickSet(in, p) == {FileById(in, p.ids[k]) : k \in DOMAIN p.ids}
PickClosed(in, p) ==
  LET P == PickSet(in, p)
      fs == in.files IN
  /\ p.ids # <<>> /\ 0 \notin P /\ Cardinality(P) = Len(p.ids)
  /\ \A i \in P : fs[i].c = 0                                             \* never a file that is already compacting
  /\ (p.kind = "intra" => \A i \in P : 2 * fs[i].g < p.eu)                 \* only flushed seqnums (LargestSeqNum < earliestUnflushed)
  /\ \A j \in (DOMAIN fs) \ P :
        LET pg == {i \in P : Overlap(fs[i], fs[j])}
        IN \/ \A i \in pg : Older(fs[i], fs[j])
           \/ (p.kind = "intra" /\ \A i \in pg : Older(fs[j], fs[i]))
(* Observed on the unchanged tree (2026-09): baseCompactionUsingSeed stacks the files of the seed interval above   *)
(* the seed without looking at IsCompacting, so PickBaseCompaction can return a candidate that contains            *)
(* intra-L0-compacting files.  pebble never executes such a candidate: compaction_picker.go pickL0 drops it when   *)
(* setupInputs sees a compacting input ("TODO(radu): investigate why this happens").  The trace spec therefore     *)
(* treats a base candidate holding an intra-L0-compacting file as NOT EXECUTED (counted in TLCGet(3)); it must     *)
(* still hold no file that is compacting to Lbase.  Every other pick must satisfy PickClosed.                      *)
NotExecuted(in, p) == p.kind = "base" /\ 0 \notin PickSet(in, p) /\ \E i \in PickSet(in, p) : in.files[i].c = 2
PickOK(in, p) == IF NotExecuted(in, p) THEN \A i \in PickSet(in, p) : in.files[i].c # 1 ELSE PickClosed(in, p)
L0Ok(in, out) ==
  /\ ~out.err
  /\ SublevelsSound(in, out.sub)
  /\ SublevelsAsDefined(in, out.sub)
  /\ IncrementalEqualsBatch(out)
  /\ \A k \in DOMAIN out.picks : out.picks[k].none \/ PickOK(in, out.picks[k])

(* ---- reference operators ---- *)
SpecSub(in) == [i \in DOMAIN in.files |-> [id |-> in.files[i].id, sl |-> Sublevel(in.files, i)]]
(* reference base pick: a seed file and, transitively, every older file overlapping a picked one *)
RECURSIVE DownClose(_, _)
DownClose(fs, P) ==
  LET more == {j \in DOMAIN fs : j \notin P /\ \E i \in P : Overlap(fs[i], fs[j]) /\ Older(fs[j], fs[i])}
  IN IF more = {} \/ BugMode = "PickNotTransitive" THEN P \cup (IF BugMode = "PickNotTransitive" THEN {j \in more : \E i \in P : i = Max(P) /\ Overlap(fs[i], fs[j])} ELSE {})
     ELSE DownClose(fs, P \cup more)
RECURSIVE IdSeq(_, _)
IdSeq(fs, P) == IF P = {} THEN <<>> ELSE LET m == CHOOSE i \in P : \A j \in P : i <= j IN <<fs[m].id>> \o IdSeq(fs, P \ {m})
BasePick(in, seed) ==
  LET P == DownClose(in.files, {seed})
      ok == BugMode = "PickCompacting" \/ \A i \in P : in.files[i].c = 0
  IN [kind |-> "base", md |-> 1, eu |-> 0, none |-> ~ok, ids |-> IF ok THEN IdSeq(in.files, P) ELSE <<>>]
(* reference intra-L0 pick: a seed file and, transitively, every NEWER flushed file overlapping a picked one *)
RECURSIVE UpClose(_, _, _)
UpClose(fs, P, eu) ==
  LET more == {j \in DOMAIN fs : j \notin P /\ \E i \in P : Overlap(fs[i], fs[j]) /\ Older(fs[i], fs[j])}
  IN IF more = {} THEN P
     ELSE IF BugMode = "IntraNotClosedUp" THEN P \cup {Max(more)}      \* jumps to the newest, leaving files in between
     ELSE UpClose(fs, P \cup more, eu)
IntraPick(in, seed, eu) ==
  LET P == UpClose(in.files, {seed}, eu)
      ok == (\A i \in P : in.files[i].c = 0 /\ 2 * in.files[i].g < eu)
            (* files too new to be picked (or compacting) must not be sandwiched *)
            /\ (BugMode = "IntraNotClosedUp" \/
                \A j \in (DOMAIN in.files) \ P : LET pg == {i \in P : Overlap(in.files[i], in.files[j])}
                                                 IN (\A i \in pg : Older(in.files[i], in.files[j])) \/ (\A i \in pg : Older(in.files[j], in.files[i])))
  IN [kind |-> "intra", md |-> 1, eu |-> eu, none |-> ~ok, ids |-> IF ok THEN IdSeq(in.files, P) ELSE <<>>]
MaxG(in) == IF in.files = <<>> THEN 0 ELSE Max({in.files[i].g : i \in DOMAIN in.files})
RECURSIVE PicksFrom(_, _)
PicksFrom(in, i) == IF i > Len(in.files) THEN <<>>
                    ELSE <<BasePick(in, i), IntraPick(in, i, 2 * MaxG(in) + 1), IntraPick(in, i, 2 * MaxG(in) - 1)>> \o PicksFrom(in, i + 1)
SpecOut(in) == [sub |-> SpecSub(in), inc |-> <<SpecSub(in)>>, picks |-> PicksFrom(in, 1), err |-> FALSE]

(* ---- input generator: files in L0 order, then a compacting marking ---- *)
VARIABLES files, ph
vars == <<files, ph>>
Init == files = <<>> /\ ph = "files"
AddFile(lo, hi, newg) ==
  /\ ph = "files" /\ Len(files) < MaxFiles /\ lo <= hi
  /\ LET g == IF files = <<>> THEN 1 ELSE files[Len(files)].g + (IF newg THEN 1 ELSE 0)
         f == [id |-> Len(files) + 1, lo |-> lo, hi |-> hi, g |-> g, c |-> 0]
     IN /\ (files # <<>> /\ ~newg => files[Len(files)].hi < lo)      \* same flush: to the right of the previous file
        /\ files' = Append(files, f)
  /\ UNCHANGED ph
Mark(m) == /\ ph = "files" /\ files # <<>> /\ ph' = "done"
           /\ files' = [i \in DOMAIN files |-> [files[i] EXCEPT !.c = m[i]]]
Next == \/ \E lo \in 0..(NKeys - 1), hi \in 0..(NKeys - 1), ng \in BOOLEAN : AddFile(lo, hi, ng)
        \/ \E m \in [DOMAIN files -> Marks] : Mark(m)
Spec == Init /\ [][Next]_vars
Input == [files |-> files]
Inv == (ph = "done" /\ Pre(Input)) => L0Ok(Input, SpecOut(Input))
EmitInv == (Emit /\ ph = "done" /\ Pre(Input)) => PrintT(ToJson(Input))
=============================================================================
