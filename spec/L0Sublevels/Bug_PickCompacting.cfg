\* seeded bug of the reference operators: PickCompacting -- TLC must find Inv violated
SPECIFICATION Spec
CONSTANTS
  NKeys = 3
  MaxFiles = 3
  Marks = {0, 1, 2}
  BugMode = "PickCompacting"
  Emit = FALSE
INVARIANT Inv
CHECK_DEADLOCK FALSE
