\* seeded bug of the reference operators: SubMinNotMax -- TLC must find Inv violated
SPECIFICATION Spec
CONSTANTS
  NKeys = 3
  MaxFiles = 4
  Marks = {0}
  BugMode = "SubMinNotMax"
  Emit = FALSE
INVARIANT Inv
CHECK_DEADLOCK FALSE
