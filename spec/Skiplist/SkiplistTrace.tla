---------------------------- MODULE SkiplistTrace ----------------------------
(* Validation of recorded executions of the real arenaskl.Skiplist under real         *)
(* goroutines (driver: internal/arenaskl/zz_verif_proto_skl_test.go,                  *)
(* TestVProtoSkiplistExplore) against the quiescent / ordered-subset properties of    *)
(* Skiplist.tla (the very operators its invariants are built from).                   *)
(* Events of one round (keys are integer ranks in internal-key order):                *)
(*   adds  {list: [[thread, key, res, st, tick]...]}   res 1 = nil, 0 = ErrRecordExists,*)
(*         -1 = other; st = ticket taken before the call, tick = ticket after return   *)
(*   scan  {asc, seq, lo, hi}  a concurrent reader's traversal; lo = completion        *)
(*         tickets issued before it started, hi = start tickets issued when it ended   *)
(*   final {fwd, bwd, lv, blv}  traversals at quiescence: Iterator forward/backward,   *)
(*         and every level's next / prev chain                                         *)
EXTENDS Skiplist, Json

CONSTANTS Strict   \* TRUE: forced/explored hook runs must follow Skiplist.tla step by step; FALSE: results and traversals only

Trace == ndJsonDeserialize("trace.ndjson")
VARIABLES l, A
tvars == <<l, A, vars>>
Ev == Trace[l]
Is(o) == l <= Len(Trace) /\ Trace[l].op = o /\ l' = l + 1

TraceInit == l = 1 /\ A = <<>> /\ Init /\ TLCSet(1, 0)   \* the model's own variables are idle here

Adds == Is("adds") /\ A' = Ev.list /\ UNCHANGED vars
AllK == {A[i][2] : i \in 1..Len(A)}
OkCount(k) == Cardinality({i \in 1..Len(A) : A[i][2] = k /\ A[i][3] = 1})
ExCount(k) == Cardinality({i \in 1..Len(A) : A[i][2] = k /\ A[i][3] = 0})
(* keys whose successful Add returned before ticket lo was read *)
CompletedBefore(lo) == {A[i][2] : i \in {j \in 1..Len(A) : A[j][3] = 1 /\ A[j][5] <= lo}}
(* keys whose Add had started when start-ticket hi was read *)
StartedBy(hi) == {A[i][2] : i \in {j \in 1..Len(A) : A[j][4] <= hi}}

(* concurrent readers only ever see an ordered subset (forward scans also hold every completed insert) *)
Scan == /\ Is("scan")
        /\ ReaderOK(Ev.seq, Ev.asc, StartedBy(Ev.hi), IF Ev.asc THEN CompletedBefore(Ev.lo) ELSE {})
        /\ UNCHANGED <<A, vars>>

(* quiescence *)

FinalCond(e) ==
         /\ QuiescentOK(e.fwd, e.bwd, AllK)
         /\ Len(e.lv) = Len(e.blv) /\ Len(e.lv) >= 1
         /\ e.lv[1] = e.fwd
         /\ \A i \in 1..Len(e.lv) : LevelOK(e.lv[i], e.blv[i], Elems(e.lv[i]))
         /\ \A i \in 1..(Len(e.lv) - 1) : Elems(e.lv[i + 1]) \subseteq Elems(e.lv[i])
         /\ \A k \in AllK : OkCount(k) = 1 /\ OkCount(k) + ExCount(k) = Cardinality({i \in 1..Len(A) : A[i][2] = k})

Final == Is("final") /\ FinalCond(Ev) /\ UNCHANGED <<A, vars>>

(* sequential probe rounds (one Inserter): every rejected round is reported, the trace continues.       *)
(* reason "dupok": the only thing wrong is that a repeated Add of a present key returned nil and the key *)
(* is linked more than once (the list is still sorted non-strictly, complete, and backward = reverse).   *)
SortedNonStrict(s) == \A i \in 1..(Len(s) - 1) : s[i] <= s[i + 1]
DupOnly(e) == /\ SortedNonStrict(e.fwd) /\ Elems(e.fwd) = AllK /\ e.bwd = Rev(e.fwd)
              /\ \A k \in AllK : OkCount(k) >= 1 /\ OkCount(k) = Cardinality({i \in 1..Len(e.fwd) : e.fwd[i] = k})
PAdds == Is("padds") /\ A' = Ev.list /\ UNCHANGED vars
PFinal == /\ Is("pfinal")
          /\ (IF FinalCond(Ev) THEN TRUE ELSE PrintT(<<"PROBE-REJECT", Ev.id, IF DupOnly(Ev) THEN "dupok" ELSE "other">>))
          /\ UNCHANGED <<A, vars>>

(* ---- mode C: runs through internal/verifhook Points (driver TestVProtoSkiplistHooks).                      *)
(* sstart: K goroutines are parked at their first Point.  step: the scheduler released thread t, which was   *)
(* parked at Point `site` (= the spec's pc), and the real list afterwards has these per-level forward /      *)
(* backward key chains and height.  ret: Add returned.  The run ends with the ordinary adds / final events.   *)
ResetModel == /\ nxt' = [lv \in Levels |-> [n \in Nodes |-> IF n = HeadN THEN TailN ELSE -1]]
              /\ prv' = [lv \in Levels |-> [n \in Nodes |-> IF n = TailN THEN HeadN ELSE -1]]
              /\ hgt' = 1
              /\ pc' = [t \in Threads |-> "findtop"] /\ lvl' = [t \in Threads |-> 0] /\ lh' = [t \in Threads |-> 0]
              /\ sp' = [t \in Threads |-> [lv \in Levels |-> HeadN]] /\ sn' = [t \in Threads |-> [lv \in Levels |-> TailN]]
              /\ tnp' = [t \in Threads |-> -1] /\ fnd' = [t \in Threads |-> FALSE] /\ res' = [t \in Threads |-> "none"]
              /\ rpos' = HeadN /\ rseq' = <<>> /\ rdir' = "done"
SStart == /\ Is("sstart") /\ Ev.k = K /\ A' = <<>>
          /\ (IF Strict THEN ResetModel ELSE UNCHANGED vars)
RECURSIVE FwdListP(_, _, _)
FwdListP(lv, n, fuel) == IF n = TailN \/ n = -1 \/ fuel = 0 THEN <<>> ELSE <<n>> \o FwdListP(lv, nxt'[lv][n], fuel - 1)
RECURSIVE BwdListP(_, _, _)
BwdListP(lv, n, fuel) == IF n = HeadN \/ n = -1 \/ fuel = 0 THEN <<>> ELSE <<n>> \o BwdListP(lv, prv'[lv][n], fuel - 1)
(* the chains of the model's NEXT state equal the logged real chains (e is the current event, not primed) *)
ChainsMatchNext(fw, bw, h) ==
    /\ \A lv \in Levels : KeysOfSeq(FwdListP(lv, nxt'[lv][HeadN], K + 2)) = fw[lv + 1]
                         /\ KeysOfSeq(BwdListP(lv, prv'[lv][TailN], K + 2)) = bw[lv + 1]
    /\ hgt' = h
HStep == /\ Is("step")
         /\ (IF Strict THEN (pc[Ev.t] = Ev.site /\ Step(Ev.t) /\ ChainsMatchNext(Trace[l].fw, Trace[l].bw, Trace[l].hgt)) ELSE UNCHANGED vars)
         /\ UNCHANGED A
HRet == /\ Is("ret")
        /\ (Strict => (pc[Ev.t] = "done" /\ res[Ev.t] = Ev.res))
        /\ UNCHANGED <<A, vars>>
NoFollow == Is("nofollow") /\ ~Strict /\ UNCHANGED <<A, vars>>

TraceNext == Adds \/ Scan \/ Final \/ PAdds \/ PFinal \/ SStart \/ HStep \/ HRet \/ NoFollow
TraceSpec == TraceInit /\ [][TraceNext]_tvars
HWM == IF l - 1 > TLCGet(1) THEN TLCSet(1, l - 1) ELSE TRUE
TraceAccepted == PrintT(<<"HWM", TLCGet(1)>>) /\ TLCGet(1) = Len(Trace)
=============================================================================
