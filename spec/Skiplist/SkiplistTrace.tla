---------------------------- MODULE SkiplistTrace ----------------------------
(* Validation of recorded executions of the real arenaskl.Skiplist under real         *)
(* goroutines (driver: internal/arenaskl/zz_verif_proto_skl_test.go,                  *)
(* TestVProtoSkiplistExplore) against the quiescent / ordered-subset properties of    *)
(* Skiplist.tla (the very operators its invariants are built from).                   *)
(* Events of one round (keys are integer ranks in internal-key order):                *)
(*   adds  {list: [[thread, key, res, st, tick]...]}   res 1 = nil, 0 = ErrRecordExists,*)
(*         -1 = other; st = ticket taken before the call, tick = ticket after return   *)
(*   scan  {asc, seq, lo, hi}  a concurrent reader's traversal; lo = completion        *)
(*         tickets issued before it started, hi = start tickets issued when it ended   *)
(*   final {fwd, bwd, lv, blv}  traversals at quiescence: Iterator forward/backward,   *)
(*         and every level's next / prev chain                                         *)
EXTENDS Skiplist, Json

Trace == ndJsonDeserialize("trace.ndjson")
VARIABLES l, A
tvars == <<l, A>>
Ev == Trace[l]
Is(o) == l <= Len(Trace) /\ Trace[l].op = o /\ l' = l + 1

TraceInit == l = 1 /\ A = <<>> /\ TLCSet(1, 0)

Adds == Is("adds") /\ A' = Ev.list
AllK == {A[i][2] : i \in 1..Len(A)}
OkCount(k) == Cardinality({i \in 1..Len(A) : A[i][2] = k /\ A[i][3] = 1})
ExCount(k) == Cardinality({i \in 1..Len(A) : A[i][2] = k /\ A[i][3] = 0})
(* keys whose successful Add returned before ticket lo was read *)
CompletedBefore(lo) == {A[i][2] : i \in {j \in 1..Len(A) : A[j][3] = 1 /\ A[j][5] <= lo}}
(* keys whose Add had started when start-ticket hi was read *)
StartedBy(hi) == {A[i][2] : i \in {j \in 1..Len(A) : A[j][4] <= hi}}

(* concurrent readers only ever see an ordered subset (forward scans also hold every completed insert) *)
Scan == /\ Is("scan")
        /\ ReaderOK(Ev.seq, Ev.asc, StartedBy(Ev.hi), IF Ev.asc THEN CompletedBefore(Ev.lo) ELSE {})
        /\ UNCHANGED A

(* quiescence *)
Final == /\ Is("final")
         /\ QuiescentOK(Ev.fwd, Ev.bwd, AllK)
         /\ Len(Ev.lv) = Len(Ev.blv) /\ Len(Ev.lv) >= 1
         /\ Ev.lv[1] = Ev.fwd
         /\ \A i \in 1..Len(Ev.lv) : LevelOK(Ev.lv[i], Ev.blv[i], Elems(Ev.lv[i]))
         /\ \A i \in 1..(Len(Ev.lv) - 1) : Elems(Ev.lv[i + 1]) \subseteq Elems(Ev.lv[i])
         /\ \A k \in AllK : OkCount(k) = 1 /\ OkCount(k) + ExCount(k) = Cardinality({i \in 1..Len(A) : A[i][2] = k})
         /\ UNCHANGED A

TraceNext == Adds \/ Scan \/ Final
TraceSpec == TraceInit /\ [][TraceNext]_tvars
HWM == IF l - 1 > TLCGet(1) THEN TLCSet(1, l - 1) ELSE TRUE
TraceAccepted == PrintT(<<"HWM", TLCGet(1)>>) /\ TLCGet(1) = Len(Trace)
=============================================================================
