------------------------------ MODULE Skiplist ------------------------------
(* C30.  internal/arenaskl/skl.go: lock-free skiplist insertion.                      *)
(* Thread t runs one Add of key KeyOf[t] with tower height Heights[t] (node id = t).   *)
(* One action per atomic step of the code:                                             *)
(*   FindTop      findSplice: listHeight := s.Height()                                 *)
(*   FindLevel    findSplice: the walk along one level (atomic abstraction of the      *)
(*                next-pointer loads of that level), top-down, starting at the prev of *)
(*                the level above; levels >= listHeight get the nil splice (head,tail) *)
(*   NewNode      newNode: allocate, CAS s.height up                                   *)
(*   ReadNP       addInternal: nextPrevOffset := next.prevOffset(i)                    *)
(*   ReadPN       addInternal: prevNextOffset := prev.nextOffset(i)                    *)
(*   Help         addInternal: next.casPrevOffset(i, nextPrevOffset, prevOffset)       *)
(*   CasNext      addInternal: prev.casNextOffset(i, nextOffset, ndOffset)             *)
(*   CasPrev      addInternal: next.casPrevOffset(i, prevOffset, ndOffset)             *)
(*   Refind       findSpliceForLevel after a failed CAS (atomic walk from prev)        *)
(* Readers: RFwd / RBwd walk level 0 one pointer load per step.                        *)
EXTENDS Integers, Sequences, FiniteSets, TLC
CONSTANTS K, Heights, KeyOf, MaxLevel, Readers, BugNoHelp, BugPrevBeforeNext

HeadN == 0
TailN == K + 1
Nodes == 0..(K + 1)
Levels == 0..(MaxLevel - 1)
Threads == 1..K
HeightsDef == <<2, 1, 2>>
KeysDistinct == <<1, 2, 3>>
KeysDup == <<1, 2, 1>>
HeightsDef4 == <<2, 1, 2, 1>>
KeysDef4 == <<2, 1, 3, 2>>

VARIABLES nxt, prv,      \* links: nxt[l][n], prv[l][n]  (-1 = not initialised)
          hgt,           \* s.height
          pc, lvl, lh,   \* per thread: program counter, current level, listHeight read by findSplice
          sp, sn,        \* per thread: splice prev / next per level
          tnp,           \* per thread: nextPrevOffset read in ReadNP
          fnd, res,      \* per thread: findSplice found flag; result "none" | "ok" | "exists"
          rpos, rseq, rdir  \* reader: current node, nodes returned so far, "fwd" | "bwd" | "done"
vars == <<nxt, prv, hgt, pc, lvl, lh, sp, sn, tnp, fnd, res, rpos, rseq, rdir>>
rvars == <<rpos, rseq, rdir>>

Key(n) == IF n = HeadN THEN -1 ELSE IF n = TailN THEN 1000000 ELSE KeyOf[n]

(* ---- generic list properties, used for the model's invariants AND for real traversals (SkiplistTrace) ---- *)
SortedAsc(s) == \A i \in 1..(Len(s) - 1) : s[i] < s[i + 1]
SortedDesc(s) == \A i \in 1..(Len(s) - 1) : s[i] > s[i + 1]
Rev(s) == [i \in 1..Len(s) |-> s[Len(s) + 1 - i]]
Elems(s) == {s[i] : i \in 1..Len(s)}
(* quiescence: forward = sorted set of inserted keys, backward = its reverse *)
QuiescentOK(fwd, bwd, keys) == SortedAsc(fwd) /\ Elems(fwd) = keys /\ Len(fwd) = Cardinality(keys) /\ bwd = Rev(fwd)
(* a level is a sorted sub-list holding exactly the keys whose tower reaches it *)
LevelOK(fwd, bwd, members) == SortedAsc(fwd) /\ Elems(fwd) = members /\ Len(fwd) = Cardinality(members) /\ bwd = Rev(fwd)
(* a concurrent reader sees an ordered subset that holds everything completed before it started *)
ReaderOK(seq, asc, mayHave, mustHave) == (IF asc THEN SortedAsc(seq) ELSE SortedDesc(seq)) /\ Elems(seq) \subseteq mayHave /\ mustHave \subseteq Elems(seq)
(* every key is inserted by exactly one Add; the other Adds of that key report ErrRecordExists *)
ResultsOK(oks, exists, keys) == \A k \in keys : oks[k] = 1 /\ exists[k] >= 0

Init == /\ nxt = [l \in Levels |-> [n \in Nodes |-> IF n = HeadN THEN TailN ELSE -1]]
        /\ prv = [l \in Levels |-> [n \in Nodes |-> IF n = TailN THEN HeadN ELSE -1]]
        /\ hgt = 1
        /\ pc = [t \in Threads |-> "findtop"] /\ lvl = [t \in Threads |-> 0] /\ lh = [t \in Threads |-> 0]
        /\ sp = [t \in Threads |-> [l \in Levels |-> HeadN]] /\ sn = [t \in Threads |-> [l \in Levels |-> TailN]]
        /\ tnp = [t \in Threads |-> -1] /\ fnd = [t \in Threads |-> FALSE] /\ res = [t \in Threads |-> "none"]
        /\ rpos = HeadN /\ rseq = <<>> /\ rdir = (IF Readers > 0 THEN "fwd" ELSE "done")

(* walk level l from node `from` to the bracket of key k: <<prev, next, found>> *)
RECURSIVE Walk(_, _, _)
Walk(l, from, k) == LET n == nxt[l][from] IN
                    IF n = TailN \/ Key(n) > k THEN <<from, n, FALSE>>
                    ELSE IF Key(n) = k THEN <<from, n, TRUE>>
                    ELSE Walk(l, n, k)
Goto(t, p) == pc' = [pc EXCEPT ![t] = p]

FindTop(t) == /\ pc[t] = "findtop"
              /\ lh' = [lh EXCEPT ![t] = hgt] /\ lvl' = [lvl EXCEPT ![t] = hgt - 1]
              /\ Goto(t, "find")
              /\ UNCHANGED <<nxt, prv, hgt, sp, sn, tnp, fnd, res>> /\ UNCHANGED rvars
FindLevel(t) == /\ pc[t] = "find"
                /\ LET l == lvl[t]
                       from == IF l = lh[t] - 1 THEN HeadN ELSE sp[t][l + 1]
                       w == Walk(l, from, KeyOf[t]) IN
                   /\ sp' = [sp EXCEPT ![t][l] = w[1]] /\ sn' = [sn EXCEPT ![t][l] = w[2]]
                   /\ fnd' = [fnd EXCEPT ![t] = fnd[t] \/ w[3]]
                   /\ (IF l > 0 THEN lvl' = [lvl EXCEPT ![t] = l - 1] /\ Goto(t, "find") /\ res' = res
                       ELSE IF fnd[t] \/ w[3] THEN lvl' = lvl /\ Goto(t, "done") /\ res' = [res EXCEPT ![t] = "exists"]
                       ELSE lvl' = lvl /\ Goto(t, "newnode") /\ res' = res)
                /\ UNCHANGED <<nxt, prv, hgt, lh, tnp>> /\ UNCHANGED rvars
NewNode(t) == /\ pc[t] = "newnode"
              /\ hgt' = (IF Heights[t] > hgt THEN Heights[t] ELSE hgt)
              /\ lvl' = [lvl EXCEPT ![t] = 0]
              /\ Goto(t, IF BugPrevBeforeNext THEN "casPrevFirst" ELSE "readNP")
              /\ UNCHANGED <<nxt, prv, lh, sp, sn, tnp, fnd, res>> /\ UNCHANGED rvars
ReadNP(t) == /\ pc[t] = "readNP"
             /\ LET l == lvl[t] IN
                /\ tnp' = [tnp EXCEPT ![t] = prv[l][sn[t][l]]]
                /\ Goto(t, IF prv[l][sn[t][l]] # sp[t][l] /\ ~BugNoHelp THEN "readPN" ELSE "casNext")
             /\ UNCHANGED <<nxt, prv, hgt, lvl, lh, sp, sn, fnd, res>> /\ UNCHANGED rvars
ReadPN(t) == /\ pc[t] = "readPN"
             /\ LET l == lvl[t] IN Goto(t, IF nxt[l][sp[t][l]] = sn[t][l] THEN "help" ELSE "casNext")
             /\ UNCHANGED <<nxt, prv, hgt, lvl, lh, sp, sn, tnp, fnd, res>> /\ UNCHANGED rvars
Help(t) == /\ pc[t] = "help"
           /\ LET l == lvl[t] IN
              prv' = (IF prv[l][sn[t][l]] = tnp[t] THEN [prv EXCEPT ![l][sn[t][l]] = sp[t][l]] ELSE prv)
           /\ Goto(t, "casNext")
           /\ UNCHANGED <<nxt, hgt, lvl, lh, sp, sn, tnp, fnd, res>> /\ UNCHANGED rvars
NextLevel(t, l) == IF l + 1 < Heights[t]
                   THEN lvl' = [lvl EXCEPT ![t] = l + 1] /\ Goto(t, IF BugPrevBeforeNext THEN "casPrevFirst" ELSE "readNP") /\ res' = res
                   ELSE lvl' = lvl /\ Goto(t, "done") /\ res' = [res EXCEPT ![t] = "ok"]
CasNext(t) == /\ pc[t] = "casNext"
              /\ LET l == lvl[t] IN
                 IF nxt[l][sp[t][l]] = sn[t][l]
                 THEN /\ nxt' = [nxt EXCEPT ![l][sp[t][l]] = t, ![l][t] = sn[t][l]]
                      /\ (IF BugPrevBeforeNext
                          THEN prv' = prv /\ NextLevel(t, l)
                          ELSE prv' = [prv EXCEPT ![l][t] = sp[t][l]] /\ Goto(t, "casPrev") /\ lvl' = lvl /\ res' = res)
                      /\ UNCHANGED <<hgt, lh, sp, sn, tnp, fnd>>
                 ELSE /\ Goto(t, "refind")
                      /\ UNCHANGED <<nxt, prv, hgt, lvl, lh, sp, sn, tnp, fnd, res>>
              /\ UNCHANGED rvars
CasPrev(t) == /\ pc[t] = "casPrev"
              /\ LET l == lvl[t] IN
                 /\ prv' = (IF prv[l][sn[t][l]] = sp[t][l] THEN [prv EXCEPT ![l][sn[t][l]] = t] ELSE prv)
                 /\ NextLevel(t, l)
              /\ UNCHANGED <<nxt, hgt, lh, sp, sn, tnp, fnd>> /\ UNCHANGED rvars
(* seeded bug: the prev link of next is CASed (and the node's own prev set) before the next link of prev *)
CasPrevFirst(t) == /\ pc[t] = "casPrevFirst"
                   /\ LET l == lvl[t] IN
                      prv' = (IF prv[l][sn[t][l]] = sp[t][l] THEN [prv EXCEPT ![l][sn[t][l]] = t, ![l][t] = sp[t][l]]
                              ELSE [prv EXCEPT ![l][t] = sp[t][l]])
                   /\ Goto(t, "casNext")
                   /\ UNCHANGED <<nxt, hgt, lvl, lh, sp, sn, tnp, fnd, res>> /\ UNCHANGED rvars
Refind(t) == /\ pc[t] = "refind"
             /\ LET l == lvl[t]
                    w == Walk(l, sp[t][l], KeyOf[t]) IN
                /\ sp' = [sp EXCEPT ![t][l] = w[1]] /\ sn' = [sn EXCEPT ![t][l] = w[2]]
                /\ (IF w[3] THEN Goto(t, "done") /\ res' = [res EXCEPT ![t] = "exists"]
                    ELSE Goto(t, IF BugPrevBeforeNext THEN "casPrevFirst" ELSE "readNP") /\ res' = res)
             /\ UNCHANGED <<nxt, prv, hgt, lvl, lh, tnp, fnd>> /\ UNCHANGED rvars
Step(t) == FindTop(t) \/ FindLevel(t) \/ NewNode(t) \/ ReadNP(t) \/ ReadPN(t) \/ Help(t) \/ CasNext(t) \/ CasPrev(t)
           \/ CasPrevFirst(t) \/ Refind(t)

(* a reader: forward over level 0, then backward over level 0, one pointer load per step *)
RFwd == /\ rdir = "fwd"
        /\ LET n == nxt[0][rpos] IN
           IF n = TailN THEN rdir' = "chk" /\ rpos' = rpos /\ rseq' = rseq
           ELSE rpos' = n /\ rseq' = Append(rseq, Key(n)) /\ rdir' = rdir
        /\ UNCHANGED <<nxt, prv, hgt, pc, lvl, lh, sp, sn, tnp, fnd, res>>
RTurn == /\ rdir = "chk" /\ rdir' = "bwd" /\ rpos' = TailN /\ rseq' = <<>>
         /\ UNCHANGED <<nxt, prv, hgt, pc, lvl, lh, sp, sn, tnp, fnd, res>>
RBwd == /\ rdir = "bwd"
        /\ LET n == prv[0][rpos] IN
           IF n = HeadN THEN rdir' = "done" /\ rpos' = rpos /\ rseq' = rseq
           ELSE rpos' = n /\ rseq' = Append(rseq, Key(n)) /\ rdir' = rdir
        /\ UNCHANGED <<nxt, prv, hgt, pc, lvl, lh, sp, sn, tnp, fnd, res>>
Next == (\E t \in Threads : Step(t)) \/ RFwd \/ RTurn \/ RBwd
Spec == Init /\ [][Next]_vars

(* ---- C30 ---- *)
RECURSIVE FwdList(_, _, _)
FwdList(l, n, fuel) == IF n = TailN \/ n = -1 \/ fuel = 0 THEN <<>> ELSE <<n>> \o FwdList(l, nxt[l][n], fuel - 1)
RECURSIVE BwdList(_, _, _)
BwdList(l, n, fuel) == IF n = HeadN \/ n = -1 \/ fuel = 0 THEN <<>> ELSE <<n>> \o BwdList(l, prv[l][n], fuel - 1)
Fwd(l) == FwdList(l, nxt[l][HeadN], K + 2)
Bwd(l) == BwdList(l, prv[l][TailN], K + 2)
KeysOfSeq(s) == [i \in 1..Len(s) |-> Key(s[i])]
Done == {t \in Threads : pc[t] = "done"}
OkThreads == {t \in Threads : res[t] = "ok"}
AllKeys == {KeyOf[t] : t \in Threads}
(* at every state a forward walk at any level is sorted and holds only linked nodes; *)
(* a completed insert is on level 0 *)
ReadersSeeOrderedSubset == \A l \in Levels : SortedAsc(KeysOfSeq(Fwd(l))) /\ Elems(Fwd(l)) \subseteq Threads
NoLoss == \A t \in OkThreads : t \in Elems(Fwd(0))
(* the modelled reader's own view *)
ReaderView == /\ (rdir \in {"fwd", "chk"} => ReaderOK(rseq, TRUE, AllKeys, {}))
              /\ (rdir \in {"bwd", "done"} => ReaderOK(rseq, FALSE, AllKeys, {}))
Quiescent == Done = Threads
FinalOK == Quiescent =>
    /\ QuiescentOK(KeysOfSeq(Fwd(0)), KeysOfSeq(Bwd(0)), AllKeys)
    /\ \A l \in Levels : LevelOK(KeysOfSeq(Fwd(l)), KeysOfSeq(Bwd(l)), {KeyOf[t] : t \in {u \in OkThreads : l < Heights[u]}})
    /\ \A k \in AllKeys : Cardinality({t \in OkThreads : KeyOf[t] = k}) = 1
    /\ \A t \in Threads : res[t] \in {"ok", "exists"}
=============================================================================
