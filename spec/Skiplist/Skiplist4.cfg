SPECIFICATION Spec
CONSTANTS
  K = 4
  Heights <- HeightsDef4
  KeyOf <- KeysDef4
  MaxLevel = 2
  Readers = 0
  BugNoHelp = FALSE
  BugPrevBeforeNext = FALSE
INVARIANT ReadersSeeOrderedSubset
INVARIANT NoLoss
INVARIANT ReaderView
INVARIANT FinalOK
CHECK_DEADLOCK FALSE
