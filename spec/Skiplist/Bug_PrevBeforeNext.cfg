SPECIFICATION Spec
CONSTANTS
  K = 3
  Heights <- HeightsDef
  KeyOf <- KeysDistinct
  MaxLevel = 2
  Readers = 0
  BugNoHelp = FALSE
  BugPrevBeforeNext = TRUE
INVARIANT ReadersSeeOrderedSubset
INVARIANT NoLoss
INVARIANT ReaderView
INVARIANT FinalOK
CHECK_DEADLOCK FALSE
