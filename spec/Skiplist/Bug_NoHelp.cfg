SPECIFICATION Spec
CONSTANTS
  K = 3
  Heights <- HeightsDef
  KeyOf <- KeysDistinct
  MaxLevel = 2
  Readers = 0
  BugNoHelp = TRUE
  BugPrevBeforeNext = FALSE
INVARIANT ReadersSeeOrderedSubset
INVARIANT NoLoss
INVARIANT ReaderView
INVARIANT FinalOK
CHECK_DEADLOCK FALSE
