---------------------------- MODULE Durability ----------------------------
(* The storage protocol behind C10-C12 and C22: write-ahead log, memtable    *)
(* rotation, flush to a table, MANIFEST edit, WAL deletion, crash, recovery. *)
(* Actions follow the order of filesystem effects in the code:               *)
(*   Commit/WALSync      commit.go, record/log_writer.go (write, then fsync   *)
(*                       before a Sync waiter is released)                    *)
(*   Rotate              db.go makeRoomForWrite/rotateWAL: create the next    *)
(*                       WAL, fsync the directory, switch                     *)
(*   FlushWrite/FlushSync/FlushDirSync   compaction.go flush1 -> sstable      *)
(*                       writer: write, fsync file, fsync directory           *)
(*   ManifestWrite/ManifestSync/Install  version_set.go UpdateVersionLocked:  *)
(*                       append the edit (new table, minUnflushedLogNum),     *)
(*                       fsync, then install in memory                        *)
(*   DeleteWAL           obsolete_files.go: only logs < minUnflushedLogNum of *)
(*                       the installed version                                *)
(*   Crash/Recover       vfs.MemFS.CrashClone semantics + open.go/recovery.go *)
(* Entries are the integers 1..N in commit order.                             *)
EXTENDS Integers, Sequences, FiniteSets, TLC

CONSTANTS N,                  \* number of commits
          MaxRot,             \* max memtable rotations
          BugAckBeforeSync,   \* Sync waiter released before the fsync
          BugDelWALEarly,     \* WAL removed once the edit is written, before it is synced
          BugNoSSTSync,       \* MANIFEST edit synced while the table file is not
          BugNoWALDirSync     \* next WAL used without fsync of the directory

VARIABLES n,        \* entries committed so far
          acked,    \* largest entry acknowledged durable (Sync commit returned / Flush returned)
          wals,     \* num -> [recs, synced (length), dirsynced, removed]
          curWal,   \* number of the WAL receiving writes
          mems,     \* queue of memtables: [wal, ents]
          flush,    \* "idle" or record describing the in-flight flush
          tables,   \* id -> [ents, synced, dirsynced]
          manifest, \* sequence of edits [table, minlog]
          mansynced,\* synced prefix length of the MANIFEST
          installed,\* number of edits installed in memory
          pcw,      \* committer: "idle" | "written" (sync pending)
          crashed, rec  \* after Crash: the recovered entry set or "fail"
vars == <<n, acked, wals, curWal, mems, flush, tables, manifest, mansynced, installed, pcw, crashed, rec>>

Max(S) == IF S = {} THEN 0 ELSE CHOOSE x \in S : \A y \in S : x >= y
Range(s) == {s[i] : i \in DOMAIN s}

Init == /\ n = 0 /\ acked = 0 /\ curWal = 1
        /\ wals = [i \in {1} |-> [recs |-> <<>>, synced |-> 0, dirsynced |-> TRUE, removed |-> FALSE]]
        /\ mems = <<[wal |-> 1, ents |-> {}]>>
        /\ flush = [st |-> "idle"] /\ tables = <<>> /\ manifest = <<>> /\ mansynced = 0 /\ installed = 0
        /\ pcw = "idle" /\ crashed = FALSE /\ rec = {}

MinUnflushed == IF installed = 0 THEN 1 ELSE manifest[installed].minlog

(* ---- commits ---- *)
CommitWrite(sync) ==
  /\ ~crashed /\ pcw = "idle" /\ n < N
  /\ n' = n + 1
  /\ wals' = [wals EXCEPT ![curWal].recs = Append(@, n + 1)]
  /\ mems' = [mems EXCEPT ![Len(mems)].ents = @ \cup {n + 1}]
  /\ pcw' = (IF sync THEN "written" ELSE "idle")
  /\ acked' = (IF sync /\ BugAckBeforeSync THEN n + 1 ELSE acked)
  /\ UNCHANGED <<curWal, flush, tables, manifest, mansynced, installed, crashed, rec>>
WALSync ==
  /\ ~crashed /\ pcw = "written"
  /\ wals' = [wals EXCEPT ![curWal].synced = Len(wals[curWal].recs)]
  /\ acked' = Max({acked, n})
  /\ pcw' = "idle"
  /\ UNCHANGED <<n, curWal, mems, flush, tables, manifest, mansynced, installed, crashed, rec>>

(* ---- memtable rotation: new WAL (create, directory fsync), new mutable memtable ---- *)
Rotate ==
  /\ ~crashed /\ pcw = "idle" /\ curWal <= MaxRot /\ mems[Len(mems)].ents # {}
  /\ curWal' = curWal + 1
  /\ wals' = [i \in DOMAIN wals \cup {curWal + 1} |->
                IF i = curWal + 1 THEN [recs |-> <<>>, synced |-> 0, dirsynced |-> ~BugNoWALDirSync, removed |-> FALSE]
                ELSE IF i = curWal THEN [wals[i] EXCEPT !.synced = Len(wals[i].recs)]  \* LogWriter.Close: trailer + fsync before the next WAL is created
                ELSE wals[i]]
  /\ mems' = Append(mems, [wal |-> curWal + 1, ents |-> {}])
  /\ UNCHANGED <<n, acked, flush, tables, manifest, mansynced, installed, pcw, crashed, rec>>

(* ---- flush of the oldest immutable memtable ---- *)
FlushWrite ==
  /\ ~crashed /\ flush.st = "idle" /\ Len(mems) > 1
  /\ LET id == Len(tables) + 1 IN
       /\ tables' = Append(tables, [ents |-> mems[1].ents, synced |-> FALSE, dirsynced |-> FALSE])
       /\ flush' = [st |-> "written", table |-> id, minlog |-> mems[2].wal]
  /\ UNCHANGED <<n, acked, wals, curWal, mems, manifest, mansynced, installed, pcw, crashed, rec>>
FlushSync ==
  /\ ~crashed /\ flush.st = "written"
  /\ tables' = (IF BugNoSSTSync THEN tables ELSE [tables EXCEPT ![flush.table].synced = TRUE, ![flush.table].dirsynced = TRUE])
  /\ flush' = [flush EXCEPT !.st = "synced"]
  /\ UNCHANGED <<n, acked, wals, curWal, mems, manifest, mansynced, installed, pcw, crashed, rec>>
ManifestWrite ==
  /\ ~crashed /\ flush.st = "synced"
  /\ manifest' = Append(manifest, [table |-> flush.table, minlog |-> flush.minlog])
  /\ flush' = [flush EXCEPT !.st = "edit"]
  /\ UNCHANGED <<n, acked, wals, curWal, mems, tables, mansynced, installed, pcw, crashed, rec>>
ManifestSync ==
  /\ ~crashed /\ flush.st = "edit"
  /\ mansynced' = Len(manifest)
  /\ flush' = [flush EXCEPT !.st = "editsynced"]
  /\ UNCHANGED <<n, acked, wals, curWal, mems, tables, manifest, installed, pcw, crashed, rec>>
(* install: the memtable leaves the queue; Flush() returning acknowledges everything in it *)
Install ==
  /\ ~crashed /\ flush.st = (IF BugDelWALEarly THEN "edit" ELSE "editsynced")
  /\ installed' = Len(manifest)
  /\ acked' = Max({acked} \cup mems[1].ents)
  /\ mems' = Tail(mems)
  /\ flush' = [st |-> "idle"]
  /\ UNCHANGED <<n, wals, curWal, tables, manifest, mansynced, pcw, crashed, rec>>
DeleteWAL(i) ==
  /\ ~crashed /\ i \in DOMAIN wals /\ ~wals[i].removed /\ i < MinUnflushed
  /\ wals' = [wals EXCEPT ![i].removed = TRUE]
  /\ UNCHANGED <<n, acked, curWal, mems, flush, tables, manifest, mansynced, installed, pcw, crashed, rec>>

(* ---- crash + recovery ---- *)
(* what survives: MANIFEST prefix >= synced length; per WAL a record prefix >= synced length (a  *)
(* removed WAL is gone - removal of a synced entry needs a directory fsync to be durable, but a   *)
(* surviving stale WAL below minUnflushed is ignored anyway); a WAL whose directory entry was     *)
(* never synced may be missing; table files need data and directory entry synced to be readable   *)
RecoverWith(mlen, wlen, wpresent) ==
  LET edits == SubSeq(manifest, 1, mlen)
      tabs == {edits[i].table : i \in 1..mlen}
      minlog == IF mlen = 0 THEN 1 ELSE edits[mlen].minlog
      tabOK == \A t \in tabs : tables[t].synced /\ tables[t].dirsynced
      fromTabs == UNION {tables[t].ents : t \in tabs}
      (* WAL replay: logs >= minlog in order; a missing or short non-final log ends the replay (strict tail) *)
      logs == {i \in DOMAIN wals : i >= minlog}
      RECURSIVE Replay(_)
      Replay(i) == IF i \notin logs THEN {}
                   ELSE IF ~wpresent[i] THEN {}
                   ELSE IF wlen[i] < Len(wals[i].recs) THEN {wals[i].recs[j] : j \in 1..wlen[i]}
                   ELSE {wals[i].recs[j] : j \in 1..wlen[i]} \cup Replay(i + 1)
  IN IF tabOK THEN fromTabs \cup Replay(minlog) ELSE {-1}

Crash ==
  /\ ~crashed
  /\ \E mlen \in mansynced..Len(manifest) :
     \E wlen \in [DOMAIN wals -> 0..N] :
     \E wpresent \in [DOMAIN wals -> BOOLEAN] :
       /\ \A i \in DOMAIN wals : /\ wlen[i] >= wals[i].synced /\ wlen[i] <= Len(wals[i].recs)
                                 /\ (wals[i].dirsynced /\ ~wals[i].removed => wpresent[i])
       /\ rec' = RecoverWith(mlen, wlen, wpresent)
  /\ crashed' = TRUE
  /\ UNCHANGED <<n, acked, wals, curWal, mems, flush, tables, manifest, mansynced, installed, pcw>>

Next == \/ \E s \in BOOLEAN : CommitWrite(s)
        \/ WALSync \/ Rotate \/ FlushWrite \/ FlushSync \/ ManifestWrite \/ ManifestSync \/ Install
        \/ \E i \in 1..(MaxRot + 1) : DeleteWAL(i)
        \/ Crash
Spec == Init /\ [][Next]_vars

(* ---- properties ---- *)
(* C22: recovery never finds a MANIFEST naming an unreadable table *)
OpenSucceeds == crashed => -1 \notin rec
(* C10/C12: everything acknowledged (Sync commit returned, Flush returned) is recovered *)
AckedRecovered == crashed => (1..acked) \subseteq rec
(* C11: the recovered entries are a prefix of the commit order: nothing later survives an earlier loss *)
PrefixRecovered == (crashed /\ -1 \notin rec) => \E m \in 0..n : rec = 1..m
(* a WAL is only ever removed when every entry in it is in a durable installed table *)
WALRemovedOnlyIfFlushed ==
  \A i \in DOMAIN wals : wals[i].removed =>
     Range(wals[i].recs) \subseteq UNION {tables[manifest[j].table].ents : j \in 1..mansynced}
=============================================================================
