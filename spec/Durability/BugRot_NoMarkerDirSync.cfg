SPECIFICATION Spec
CONSTANTS
  MaxEdits = 4
  RotateAt = {2, 3}
  BugMarkerBeforeSync = FALSE
  BugNoManifestDirSync = FALSE
  BugNoMarkerDirSync = TRUE
INVARIANT MarkerNeverDangling
INVARIANT Atomic
INVARIANT Durable
CHECK_DEADLOCK FALSE
