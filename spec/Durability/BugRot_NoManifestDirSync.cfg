SPECIFICATION Spec
CONSTANTS
  MaxEdits = 4
  RotateAt = {2, 3}
  BugMarkerBeforeSync = FALSE
  BugNoManifestDirSync = TRUE
  BugNoMarkerDirSync = FALSE
INVARIANT MarkerNeverDangling
INVARIANT Atomic
INVARIANT Durable
CHECK_DEADLOCK FALSE
