------------------------------ MODULE ObjSync ------------------------------
(* The object provider's "skip redundant directory syncs" protocol            *)
(* (objstorage/objstorageprovider/vfs.go: localSync, objChangeCounter,        *)
(* objChangeCounterLastSync).  Jobs (flush, compaction, ingest) create table  *)
(* files and then call Sync(); Sync fsyncs the directory unless nothing       *)
(* changed since the last completed sync WAS LAUNCHED:                        *)
(*     lock; if counter = lastSync then unlock, return;                       *)
(*           snap := counter; unlock                                          *)
(*     fsync(dir)                       -- without the lock                    *)
(*     lock; if lastSync < snap then lastSync := snap; unlock                 *)
(* What C10/C12 need from it: when Sync returns, the directory entry of every *)
(* object created before the call is durable.                                 *)
(* BugCurrentCounter: the bookkeeping step records the CURRENT counter instead *)
(* of the snapshot (seeded/C10_objsync_counter, seeded/C12_objsync_counter):  *)
(* an object created by another job between the fsync and the bookkeeping is  *)
(* marked synced, and that job's own Sync is skipped.                          *)
EXTENDS Integers, FiniteSets

CONSTANTS Procs, MaxObjs, BugCurrentCounter, BugNoGuard

VARIABLES counter,   \* objChangeCounter: number of creations so far (object ids are 1..counter)
          lastSync,  \* objChangeCounterLastSync
          durable,   \* object ids whose directory entry is durable
          pc,        \* per job: "idle" | "fsync" | "book"
          snap,      \* per job: counter value captured when its sync was launched
          need,      \* per job: ids that existed when its Sync was called
          ok         \* FALSE once a Sync returned with a needed entry not durable
vars == <<counter, lastSync, durable, pc, snap, need, ok>>

Init == /\ counter = 0 /\ lastSync = 0 /\ durable = {}
        /\ pc = [p \in Procs |-> "idle"] /\ snap = [p \in Procs |-> 0] /\ need = [p \in Procs |-> {}]
        /\ ok = TRUE

Create(p) == /\ pc[p] = "idle" /\ counter < MaxObjs
             /\ counter' = counter + 1
             /\ UNCHANGED <<lastSync, durable, pc, snap, need, ok>>

(* Sync called: either skipped at once, or the sync is launched *)
SyncCall(p) ==
  /\ pc[p] = "idle"
  /\ IF counter = lastSync
     THEN /\ ok' = (ok /\ (1..counter) \subseteq durable)      \* returns immediately
          /\ UNCHANGED <<pc, snap, need>>
     ELSE /\ pc' = [pc EXCEPT ![p] = "fsync"]
          /\ snap' = [snap EXCEPT ![p] = counter]
          /\ need' = [need EXCEPT ![p] = 1..counter]
          /\ ok' = ok
  /\ UNCHANGED <<counter, lastSync, durable>>

Fsync(p) == /\ pc[p] = "fsync"
            /\ durable' = 1..counter          \* every entry present now becomes durable
            /\ pc' = [pc EXCEPT ![p] = "book"]
            /\ UNCHANGED <<counter, lastSync, snap, need, ok>>

Book(p) == /\ pc[p] = "book"
           /\ lastSync' = (IF BugCurrentCounter THEN (IF BugNoGuard \/ lastSync < snap[p] THEN counter ELSE lastSync)
                           ELSE IF lastSync < snap[p] THEN snap[p] ELSE lastSync)
           /\ ok' = (ok /\ need[p] \subseteq durable)          \* Sync returns
           /\ pc' = [pc EXCEPT ![p] = "idle"]
           /\ UNCHANGED <<counter, durable, snap, need>>

(* a crash loses nothing that is durable; entries never become non-durable *)
Next == \E p \in Procs : Create(p) \/ SyncCall(p) \/ Fsync(p) \/ Book(p)
Spec == Init /\ [][Next]_vars

(* every returned Sync found what it needed durable *)
SyncMakesDurable == ok
(* the bookkeeping never claims more than what is durable *)
LastSyncSound == (1..lastSync) \subseteq durable
TypeOK == /\ counter \in 0..MaxObjs /\ lastSync \in 0..MaxObjs /\ durable \subseteq 1..MaxObjs
          /\ \A p \in Procs : pc[p] \in {"idle", "fsync", "book"}
=============================================================================
