---------------------------- MODULE ManifestRot ----------------------------
(* MANIFEST updates and rotation (C22), following version_set.go                *)
(* UpdateVersionLocked:                                                        *)
(*   without rotation:  WriteEdit -> SyncManifest -> Install                   *)
(*   with rotation:     CreateManifest (new file with a snapshot record of the *)
(*                      version BEFORE the edit) -> SyncDir -> WriteEdit (to   *)
(*                      the new file) -> SyncManifest -> MarkerCreate (atomic  *)
(*                      marker: new marker file) -> MarkerSyncDir -> Install   *)
(* Versions are numbers: version v = the result of v edits.                    *)
(* Crash model (vfs.MemFS): a file exists after a crash if its directory entry *)
(* was synced, or by chance; its contents are the synced prefix plus, by       *)
(* chance, more; the marker in force is the newest marker file that exists.    *)
EXTENDS Integers, Sequences, FiniteSets, TLC

CONSTANTS MaxEdits,            \* number of version updates
          RotateAt,            \* set of edit numbers at which the MANIFEST is rotated
          BugMarkerBeforeSync, \* marker moved before the new MANIFEST's contents are synced
          BugNoManifestDirSync,\* no directory sync between creating the MANIFEST and creating the marker
          BugNoMarkerDirSync   \* the update returns before the marker's directory entry is synced

VARIABLES mans,      \* manifest id -> [base, haveSnap, snapSynced, edits, syncedEdits, dirsynced]
          cur,       \* manifest being written
          markers,   \* sequence of marker files: [man, dirsynced]
          pc, v,     \* updater program counter; installed version
          returned,  \* highest version whose update returned
          crashed, rec
vars == <<mans, cur, markers, pc, v, returned, crashed, rec>>

Init == /\ mans = [i \in {1} |-> [base |-> 0, haveSnap |-> TRUE, snapSynced |-> TRUE, edits |-> 0, syncedEdits |-> 0, dirsynced |-> TRUE]]
        /\ cur = 1 /\ markers = <<[man |-> 1, dirsynced |-> TRUE]>>
        /\ pc = "idle" /\ v = 0 /\ returned = 0 /\ crashed = FALSE /\ rec = 0

Rotating == (v + 1) \in RotateAt
Start == /\ ~crashed /\ pc = "idle" /\ v < MaxEdits
         /\ pc' = (IF Rotating THEN "create" ELSE "write")
         /\ UNCHANGED <<mans, cur, markers, v, returned, crashed, rec>>
(* createManifest: new file, snapshot of version v written (not yet synced) *)
CreateManifest ==
  /\ ~crashed /\ pc = "create"
  /\ LET id == cur + 1 IN
       /\ mans' = [i \in DOMAIN mans \cup {id} |->
                     IF i = id THEN [base |-> v, haveSnap |-> TRUE, snapSynced |-> FALSE, edits |-> 0, syncedEdits |-> 0, dirsynced |-> FALSE]
                     ELSE mans[i]]
       /\ cur' = id
  /\ pc' = (IF BugMarkerBeforeSync THEN "marker" ELSE "syncdir")
  /\ UNCHANGED <<markers, v, returned, crashed, rec>>
SyncDir ==
  /\ ~crashed /\ pc = "syncdir"
  /\ mans' = (IF BugNoManifestDirSync THEN mans ELSE [mans EXCEPT ![cur].dirsynced = TRUE])
  /\ pc' = "write"
  /\ UNCHANGED <<cur, markers, v, returned, crashed, rec>>
WriteEdit ==
  /\ ~crashed /\ pc = "write"
  /\ mans' = [mans EXCEPT ![cur].edits = @ + 1]
  /\ pc' = "sync"
  /\ UNCHANGED <<cur, markers, v, returned, crashed, rec>>
SyncManifest ==
  /\ ~crashed /\ pc = "sync"
  /\ mans' = [mans EXCEPT ![cur].syncedEdits = mans[cur].edits, ![cur].snapSynced = TRUE]
  /\ pc' = (IF markers[Len(markers)].man # cur THEN "marker" ELSE "install")
  /\ UNCHANGED <<cur, markers, v, returned, crashed, rec>>
MarkerCreate ==
  /\ ~crashed /\ pc = "marker"
  /\ markers' = Append(markers, [man |-> cur, dirsynced |-> FALSE])
  /\ pc' = (IF BugMarkerBeforeSync THEN "syncdir" ELSE "markerdir")
  /\ UNCHANGED <<mans, cur, v, returned, crashed, rec>>
MarkerSyncDir ==
  /\ ~crashed /\ pc = "markerdir"
  /\ markers' = (IF BugNoMarkerDirSync THEN markers
                 ELSE [markers EXCEPT ![Len(markers)].dirsynced = TRUE])
  \* (a directory sync makes every entry of the directory durable, the new MANIFEST's too)
  /\ mans' = (IF BugNoMarkerDirSync THEN mans ELSE [mans EXCEPT ![cur].dirsynced = TRUE])
  /\ pc' = "install"
  /\ UNCHANGED <<cur, v, returned, crashed, rec>>
Install ==
  /\ ~crashed /\ pc = "install"
  /\ v' = v + 1 /\ returned' = v + 1 /\ pc' = "idle"
  /\ UNCHANGED <<mans, cur, markers, crashed, rec>>

(* with BugMarkerBeforeSync the order is create -> marker -> syncdir -> write -> sync -> install *)
Crash ==
  /\ ~crashed
  /\ \E mk \in 1..Len(markers) :
       \* the marker in force: the newest surviving marker file; one whose entry is synced always survives
       /\ \A j \in (mk + 1)..Len(markers) : ~markers[j].dirsynced
       /\ LET m == markers[mk].man IN
          \E present \in BOOLEAN, snapOK \in BOOLEAN, ne \in 0..MaxEdits :
            /\ (mans[m].dirsynced => present)
            /\ (mans[m].snapSynced => snapOK)
            /\ ne >= mans[m].syncedEdits /\ ne <= mans[m].edits
            /\ rec' = IF present /\ snapOK THEN mans[m].base + ne ELSE -1
  /\ crashed' = TRUE
  /\ UNCHANGED <<mans, cur, markers, pc, v, returned>>

Next == Start \/ CreateManifest \/ SyncDir \/ WriteEdit \/ SyncManifest \/ MarkerCreate \/ MarkerSyncDir \/ Install \/ Crash
Spec == Init /\ [][Next]_vars

(* the marker never names a missing or incomplete MANIFEST *)
MarkerNeverDangling == crashed => rec # -1
(* a crash recovers the version before or after the edit in flight *)
Atomic == (crashed /\ rec # -1) => rec \in {v, v + 1}
(* ... and every update that returned is included *)
Durable == (crashed /\ rec # -1) => rec >= returned
=============================================================================
