SPECIFICATION Spec
CONSTANTS
  N = 3
  MaxRot = 2
  BugAckBeforeSync = FALSE
  BugDelWALEarly = FALSE
  BugNoSSTSync = FALSE
  BugNoWALDirSync = TRUE
INVARIANT OpenSucceeds
INVARIANT AckedRecovered
INVARIANT PrefixRecovered
INVARIANT WALRemovedOnlyIfFlushed
CHECK_DEADLOCK FALSE
