SPECIFICATION Spec
CONSTANTS
  Procs = {p1, p2, p3}
  MaxObjs = 4
  BugCurrentCounter = TRUE
  BugNoGuard = TRUE
INVARIANT TypeOK
INVARIANT SyncMakesDurable
INVARIANT LastSyncSound
CHECK_DEADLOCK FALSE
