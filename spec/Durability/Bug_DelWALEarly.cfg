SPECIFICATION Spec
CONSTANTS
  N = 3
  MaxRot = 2
  BugAckBeforeSync = FALSE
  BugDelWALEarly = TRUE
  BugNoSSTSync = FALSE
  BugNoWALDirSync = FALSE
INVARIANT OpenSucceeds
INVARIANT AckedRecovered
INVARIANT PrefixRecovered
INVARIANT WALRemovedOnlyIfFlushed
CHECK_DEADLOCK FALSE
