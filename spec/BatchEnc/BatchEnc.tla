------------------------------ MODULE BatchEnc ------------------------------
(* C31.  A batch is a sequence of ops over the key universe of KV (ranks).    *)
(* Its MEANING is KV!ApplyBatch.  This module adds the abstract wire form     *)
(* (batchrepr: header {seqnum, count} + one record per op, in call order),    *)
(* the sequence-number assignment made when a batch is applied (memTable.apply *)
(* and newFlushableBatch in batch.go / mem_table.go) and the internal          *)
(* iteration order a memtable / a flushable batch must present for it.         *)
(* Pure operators only; BatchEncGen is the state machine, BatchEncTrace the    *)
(* trace spec.                                                                 *)
(*                                                                            *)
(* op records (same vocabulary as KV!ApplyOp, logdata carries a payload id):  *)
(*   [o:"set",k,v] [o:"del",k] [o:"sdel",k] [o:"delsized",k,sz] [o:"merge",k,v] *)
(*   [o:"delr",a,b] [o:"rkset",a,b,s,v] [o:"rkunset",a,b,s] [o:"rkdel",a,b]    *)
(*   [o:"logdata",v]                                                           *)
EXTENDS KV

PointKinds == {"set", "del", "sdel", "delsized", "merge"}
RkKinds == {"rkset", "rkunset", "rkdel"}
AllKinds == PointKinds \cup RkKinds \cup {"delr", "logdata"}

IsPt(op) == op.o \in PointKinds
IsRd(op) == op.o = "delr"
IsRk(op) == op.o \in RkKinds
IsLog(op) == op.o = "logdata"

(* Batch.Count(): every record except LogData *)
CountOf(ops) == Cardinality({i \in DOMAIN ops : ~IsLog(ops[i])})
NumRd(ops) == Cardinality({i \in DOMAIN ops : IsRd(ops[i])})
NumRk(ops) == Cardinality({i \in DOMAIN ops : IsRk(ops[i])})

(* index of record i among the records that consume a sequence number:       *)
(* memTable.apply does seqNum-- for LogData; newFlushableBatch `continue`s    *)
(* before index++                                                             *)
Idx(ops, i) == Cardinality({j \in 1..(i - 1) : ~IsLog(ops[j])})

(* the value payload of an internal entry: value id, or the size of a DELSIZED *)
PayloadOf(op) == CASE op.o \in {"set", "merge", "rkset"} -> op.v
                   [] op.o = "delsized" -> op.sz
                   [] OTHER -> 0

(* point entries in internal-key order: user key ascending, then seqnum (=idx) descending *)
PtEnt(ops, i) == <<ops[i].k, Idx(ops, i), ops[i].o, PayloadOf(ops[i])>>
RECURSIVE PtList(_, _, _)
PtList(ops, k, i) ==
  IF k >= R THEN <<>>
  ELSE IF i = 0 THEN PtList(ops, k + 1, Len(ops))
  ELSE (IF IsPt(ops[i]) /\ ops[i].k = k THEN <<PtEnt(ops, i)>> ELSE <<>>) \o PtList(ops, k, i - 1)
ExpFwd(ops) == PtList(ops, 0, Len(ops))
Rev(s) == [i \in 1..Len(s) |-> s[Len(s) + 1 - i]]
One(s) == IF s = <<>> THEN <<>> ELSE <<s[1]>>
(* SeekGE(k) / SeekLT(k) for every rank k = 0..R-1, as 0- or 1-element sequences *)
ExpSeekGE(ops) == [k1 \in 1..R |-> One(SelectSeq(ExpFwd(ops), LAMBDA e : e[1] >= k1 - 1))]
ExpSeekLT(ops) == [k1 \in 1..R |-> One(Rev(SelectSeq(ExpFwd(ops), LAMBDA e : e[1] < k1 - 1)))]

(* fragments of the span ops of one class: between consecutive boundaries, the *)
(* covering ops by descending seqnum; a fragment is <<a, b, <<<<idx,o,s,v>>..>>>> *)
SpanIdx(ops, cls) == {i \in DOMAIN ops : IF cls = "rd" THEN IsRd(ops[i]) ELSE IsRk(ops[i])}
Bounds(ops, cls) == UNION {{ops[i].a, ops[i].b} : i \in SpanIdx(ops, cls)}
SufFld(op) == IF op.o \in {"rkset", "rkunset"} THEN op.s ELSE 0
SpanKey(ops, i) == <<Idx(ops, i), ops[i].o, SufFld(ops[i]), PayloadOf(ops[i])>>
RECURSIVE KeysDesc(_, _, _)
KeysDesc(ops, I, i) == IF i = 0 THEN <<>>
                       ELSE (IF i \in I THEN <<SpanKey(ops, i)>> ELSE <<>>) \o KeysDesc(ops, I, i - 1)
CoverIdx(ops, cls, x, y) == {i \in SpanIdx(ops, cls) : ops[i].a <= x /\ y <= ops[i].b}
RECURSIVE FragsFrom(_, _, _)
FragsFrom(ops, cls, x) ==
  LET later == {y \in Bounds(ops, cls) : y > x} IN
  IF later = {} THEN <<>>
  ELSE LET y == Min(later)
           I == CoverIdx(ops, cls, x, y) IN
       (IF I = {} THEN <<>> ELSE <<<<x, y, KeysDesc(ops, I, Len(ops))>>>>) \o FragsFrom(ops, cls, y)
ExpFrags(ops, cls) == IF Bounds(ops, cls) = {} THEN <<>> ELSE FragsFrom(ops, cls, Min(Bounds(ops, cls)))

(* everything an internal iteration of the batch's ops must show *)
ExpIter(ops) == [fwd |-> ExpFwd(ops), bwd |-> Rev(ExpFwd(ops)), sge |-> ExpSeekGE(ops), slt |-> ExpSeekLT(ops), fl |-> ExpFwd(ops),
                 rd |-> ExpFrags(ops, "rd"), rk |-> ExpFrags(ops, "rk")]

(* the meaning of a set of sequence-numbered records: apply in seqnum order   *)
(* (recs: sequence of [seq, op]; LogData records carry seq = -1)              *)
RECURSIVE BySeq(_, _, _)
BySeq(recs, s, hi) == IF s > hi THEN <<>>
                      ELSE SelectSeq([i \in DOMAIN recs |-> recs[i]], LAMBDA r : r.seq = s) \o BySeq(recs, s + 1, hi)
MeaningOf(st, recs, lo, hi) == LET rs == BySeq(recs, lo, hi) IN ApplyBatch(st, [i \in DOMAIN rs |-> rs[i].op])

(* the pre-state a batch meets in the DB *)
FullPre == [k \in 1..R |-> [o |-> "set", k |-> k - 1, v |-> 100 + k - 1]]
           \o <<[o |-> "rkset", a |-> 0, b |-> R, s |-> 1, v |-> 200]>>
PreOps(pre) == IF pre = "full" THEN FullPre ELSE <<>>
=============================================================================
