\* seeded bug FlushableIndexesLogData: must be caught
SPECIFICATION Spec
CONSTANTS
  P = 2
  S = 1
  MaxOps = 2
  Kinds = {"set", "del", "delr", "rkset", "logdata"}
  Pres = {"empty"}
  Bug = "FlushableIndexesLogData"
  Emit = FALSE
INVARIANT RoundTrip
INVARIANT SeqInRange
INVARIANT Meaning
INVARIANT SameAsMem
INVARIANT IterSane
CHECK_DEADLOCK FALSE
