---------------------------- MODULE BatchWireGen ----------------------------
(* C31 malformed-input design model and input generator.                      *)
(*   build  : a writer (Batch.Set/Delete/Merge/LogData/SingleDelete/           *)
(*            DeleteRange: batch.go) appends n records; the earlier ones come  *)
(*            from the small pool Pre, the last one from the full product of   *)
(*            kinds x key lengths x value lengths (lengths around the one-byte  *)
(*            varint limit 127/128 and the fast-path limit of DecodeStr, and    *)
(*            with 2-, 3-, 4-byte prefixes);                                   *)
(*   damage : then at most one defect, as storage or a peer can cause it:      *)
(*            the tail cut by 1..MaxCut bytes; only a part of the header left;  *)
(*            a declared length off by a few bytes either way, or huge; a kind  *)
(*            byte that is no batch kind; the header count off by one; a        *)
(*            length prefix in a non-minimal encoding.                         *)
(* Invariants (design level, on the decoder of BatchWire):                     *)
(*   NoPanic        no byte string makes the decoder read outside it            *)
(*   ValidRoundTrip an undamaged batch decodes to the records written           *)
(*   TruncPrefix    a cut batch decodes to a prefix of the records and, unless  *)
(*                  the cut is at a record boundary, to an error                *)
(*   FastSlowAgree  the fast path of DecodeStr is a shortcut, not a different   *)
(*                  decoder                                                     *)
(* With Emit every finished case is printed as JSON (its bytes run-length       *)
(* encoded + the transports to drive): the inputs of the Go driver (mode A).    *)
EXTENDS BatchWire, Json

CONSTANTS RecKinds,   \* kinds of the last record
          KLens, VLens, \* its key / value lengths
          PreKinds, PreKLens, PreVLens,   \* the same for the records before it
          MaxRecs,    \* records per batch
          MaxCut,     \* bytes cut from the tail: 1..MaxCut
          Over, Under, \* declared length = written length + d (d in Over) or - d (d in Under)
          Huge,       \* absolute declared lengths (TLC integers: below 2^31)
          BadKinds,   \* kind bytes that are no batch kind
          Damage,     \* classes of defects to generate
          Emit

VARIABLES n, recs, cnt, cut, mut, phase
vars == <<n, recs, cnt, cut, mut, phase>>

HasV(k) == k \in ValueKinds
Rec(k, kl, vl) == [kb |-> k, hv |-> HasV(k), kl |-> kl, kd |-> kl, kp |-> FALSE,
                   vl |-> IF HasV(k) THEN vl ELSE 0, vd |-> IF HasV(k) THEN vl ELSE 0, vp |-> FALSE]
(* DeleteRange needs start < end: keys are 'a'.., values 'b'.. *)
Sane(k, vl) == k = 15 => vl >= 1
Pool(kinds, kls, vls) == {Rec(k, kl, vl) : k \in kinds, kl \in kls, vl \in (IF vls = {} THEN {0} ELSE vls)}
LastPool == {r \in Pool(RecKinds, KLens, VLens) : Sane(r.kb, r.vl)}
PrePool == {r \in Pool(PreKinds, PreKLens, PreVLens) : Sane(r.kb, r.vl)}

Init == /\ n \in 1..MaxRecs /\ recs = <<>> /\ cnt = 0 /\ cut = 0 /\ mut = "" /\ phase = "build"

AddRec == /\ phase = "build" /\ Len(recs) < n
          /\ \E r \in (IF Len(recs) + 1 < n THEN PrePool ELSE LastPool) :
               /\ recs' = Append(recs, r)
               /\ cnt' = IF r.kb \in Uncounted THEN cnt ELSE cnt + 1
          /\ UNCHANGED <<n, cut, mut, phase>>
Built == /\ phase = "build" /\ Len(recs) = n /\ phase' = "damage" /\ UNCHANGED <<n, recs, cnt, cut, mut>>

Full == HeaderOf(cnt) \o RecsOf(recs, 1)
Done(m) == mut' = m /\ phase' = "done" /\ UNCHANGED n
(* the last record may be damaged in every way, the earlier ones in a few *)
None == /\ phase = "damage" /\ Done("none") /\ UNCHANGED <<recs, cnt, cut>>
Cut == /\ phase = "damage" /\ "cut" \in Damage
       /\ \E t \in 1..MaxCut : t <= WLen(Full) /\ cut' = t
       /\ Done("cut") /\ UNCHANGED <<recs, cnt>>
HdrCut == /\ phase = "damage" /\ "hdr" \in Damage
          /\ \E h \in {0, 5, 11, 12} : cut' = WLen(Full) - h
          /\ Done("hdr") /\ UNCHANGED <<recs, cnt>>
Decl(i, len) == IF i = n THEN {len + d : d \in Over} \cup {len - d : d \in Under} \cup Huge ELSE {len + 1, len - 1}
DeclSet(i) == Decl(i, recs[i].kl)
DeclSetV(i) == Decl(i, recs[i].vl)
KeyLen == /\ phase = "damage" /\ "len" \in Damage
          /\ \E i \in 1..n : \E d \in DeclSet(i) : d >= 0 /\ d # recs[i].kl /\ recs' = [recs EXCEPT ![i].kd = d]
          /\ Done("klen") /\ UNCHANGED <<cnt, cut>>
ValLen == /\ phase = "damage" /\ "len" \in Damage
          /\ \E i \in 1..n : recs[i].hv /\ \E d \in DeclSetV(i) : d >= 0 /\ d # recs[i].vl /\ recs' = [recs EXCEPT ![i].vd = d]
          /\ Done("vlen") /\ UNCHANGED <<cnt, cut>>
Kind == /\ phase = "damage" /\ "kind" \in Damage
        /\ \E i \in 1..n : \E b \in (IF i = n THEN BadKinds ELSE {x \in BadKinds : x > KindMax}) : recs' = [recs EXCEPT ![i].kb = b]
        /\ Done("kind") /\ UNCHANGED <<cnt, cut>>
Count == /\ phase = "damage" /\ "count" \in Damage
         /\ \E d \in {-1, 1} : cnt + d >= 0 /\ cnt' = cnt + d
         /\ Done("count") /\ UNCHANGED <<recs, cut>>
Pad == /\ phase = "damage" /\ "pad" \in Damage
       /\ \/ recs' = [recs EXCEPT ![n].kp = TRUE]
          \/ recs[n].hv /\ recs' = [recs EXCEPT ![n].vp = TRUE]
       /\ Done("pad") /\ UNCHANGED <<cnt, cut>>

Next == AddRec \/ Built \/ None \/ Cut \/ HdrCut \/ KeyLen \/ ValLen \/ Kind \/ Count \/ Pad
Spec == Init /\ [][Next]_vars

(* ---------------- the design-level properties ---------------- *)
W == WireOf([recs |-> recs, cnt |-> cnt, cut |-> cut])
RECURSIVE DecFromT(_, _, _, _)
(* the decoder with the fast path switched off: every length prefix through the general path *)
GenStr(w, p) == LET vr == Varint(w, p) IN
                IF ~vr.ok \/ vr.v > WLen(w) - (p + vr.n) THEN Fail
                ELSE [st |-> "ok", at |-> p + vr.n, len |-> vr.v, next |-> p + vr.n + vr.v, amb |-> vr.amb]
DecFromT(w, p, acc, x) ==
  IF p >= WLen(w) THEN [st |-> "end", recs |-> acc]
  ELSE LET kind == ByteAt(w, p) IN
       IF kind > KindMax THEN [st |-> "err", recs |-> acc]
       ELSE LET ks == GenStr(w, p + 1) IN
            IF ks.st # "ok" THEN [st |-> "err", recs |-> acc]
            ELSE IF kind \notin ValueKinds THEN DecFromT(w, ks.next, Append(acc, <<kind, ks.len, -1>> \o Ends(w, ks) \o <<-1, -1>>), x)
                 ELSE LET vs == GenStr(w, ks.next) IN
                      IF vs.st # "ok" THEN [st |-> "err", recs |-> acc]
                      ELSE DecFromT(w, vs.next, Append(acc, <<kind, ks.len, vs.len>> \o Ends(w, ks) \o Ends(w, vs)), x)
RefDec(w) == IF WLen(w) <= HeaderLen THEN [st |-> "end", recs |-> <<>>] ELSE DecFromT(w, HeaderLen, <<>>, 0)

EndsOf(fill, len) == IF len = 0 THEN <<-1, -1>> ELSE <<fill, fill>>
Written == [i \in 1..Len(recs) |-> <<recs[i].kb, recs[i].kl, IF recs[i].hv THEN recs[i].vl ELSE -1>> \o EndsOf(KeyFill, recs[i].kl)
                                     \o (IF recs[i].hv THEN EndsOf(ValFill, recs[i].vl) ELSE <<-1, -1>>)]
IsPrefix(s, t) == Len(s) <= Len(t) /\ \A i \in DOMAIN s : s[i] = t[i]
AtDone == phase = "done"
NoPanic == AtDone => Dec(W).st # "panic"
ValidRoundTrip == (AtDone /\ mut = "none") =>
                    /\ Dec(W) = [st |-> "end", recs |-> Written, amb |-> FALSE]
                    /\ ~Malformed(W) /\ ~CountOff(W)
                    /\ \A via \in ReaderVias \cup DBVias : ExpectRes(W, via) = {"ok"}
(* record boundaries of the undamaged bytes: positions at which a reader stands between two records *)
RECURSIVE Bounds(_, _)
Bounds(i, p) == IF i > Len(recs) THEN {p} ELSE {p} \cup Bounds(i + 1, p + WLen(RecOf(recs[i])))
TruncPrefix == (AtDone /\ mut \in {"cut", "hdr"}) =>
                 /\ IsPrefix(Dec(W).recs, Written)
                 /\ (Dec(W).st = "end" <=> (WLen(W) <= HeaderLen \/ WLen(W) \in Bounds(1, HeaderLen)))
FastSlowAgree == (AtDone /\ ~Dec(W).amb) => (Dec(W).st = RefDec(W).st /\ Dec(W).recs = RefDec(W).recs)

(* the transports to drive: DB.Apply commits after decoding, and the commit pipeline deliberately panics on a count *)
(* mismatch found while applying (commit.go), so it is driven only where decoding fails or the count is right        *)
ViasOf(w) == (ReaderVias \cup DBVias) \ (IF ~Malformed(w) /\ CountOff(w) THEN {"db_apply"} ELSE {})
SetToSeq(S) == LET F[T \in SUBSET S] == IF T = {} THEN <<>> ELSE LET x == CHOOSE y \in T : TRUE IN <<x>> \o F[T \ {x}] IN F[S]
EmitCase == (Emit /\ AtDone) => PrintT(ToJson([mut |-> mut, w |-> W, vias |-> SetToSeq(ViasOf(W))]))
EmitInv == EmitCase \/ TRUE
=============================================================================
