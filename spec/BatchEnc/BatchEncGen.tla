---------------------------- MODULE BatchEncGen ----------------------------
(* C31 design model and input generator.                                      *)
(*   gen phase   : a client builds a Batch by API calls (Batch.Set, Delete,    *)
(*                 DeleteSized, SingleDelete, Merge, DeleteRange, RangeKeySet/ *)
(*                 Unset/Delete, LogData: batch.go), one record appended per   *)
(*                 call, b.count incremented except for LogData;               *)
(*   ship phase  : the batch travels through one transport, step by step:      *)
(*       "repr"  Batch.Repr (stores b.count in the header) ; Batch.SetRepr on  *)
(*               a fresh or a reused Batch (count := header count)             *)
(*       "apply" Batch.Apply of the ops split into consecutive part-batches    *)
(*               (data appended, count += part.Count(), range-del / range-key  *)
(*               counters updated by scanning the appended records)            *)
(*       "mem"   memTable.apply: record i gets seqnum base+Idx(i), LogData     *)
(*               none; the final seqnum must equal base+count                  *)
(*       "fb"    newFlushableBatch + setSeqNum: entry index -> seqnum          *)
(*   invariants  : what arrives decodes to the ops issued, with the right      *)
(*                 count and counters; the sequence-numbered records mean      *)
(*                 KV!ApplyBatch(state, ops); seqnums stay inside the          *)
(*                 allocated range; flushable batch and memtable present the   *)
(*                 same internal iteration.                                    *)
(* With Emit the finished batches are printed as JSON: the inputs replayed on  *)
(* the real code by the Go drivers (mode A).                                   *)
EXTENDS BatchEnc, Json

CONSTANTS MaxOps,   \* records per batch
          Kinds,    \* op kinds the client may use
          Pres,     \* pre-states: SUBSET {"empty", "full"}
          Bug,      \* "none" or one seeded bad variant
          Emit

Base == 10          \* sequence number the commit pipeline hands to the batch

VARIABLES ops, pre, sets, pois, nval, phase,
          tr,       \* transport under way ("" before)
          src,      \* the built batch: [recs, count, hdr]  (hdr = count field of the header, stale until Repr)
          dst,      \* the receiving Batch: [recs, count, nrd, nrk]
          cut,      \* apply: number of records of src already shipped
          out       \* the finished transport's observation, or NoOut
vars == <<ops, pre, sets, pois, nval, phase, tr, src, dst, cut, out>>

NoOut == [t |-> "none"]
EmptyB == [recs |-> <<>>, count |-> 0, nrd |-> 0, nrk |-> 0]

Init == /\ ops = <<>> /\ pre \in Pres /\ nval = 1 /\ phase = "pick" /\ tr = ""
        /\ sets = [k \in Keys |-> IF pre = "full" THEN 1 ELSE 0] /\ pois = [k \in Keys |-> FALSE]
        /\ src = [recs |-> <<>>, count |-> 0, hdr |-> 0] /\ dst = EmptyB /\ cut = 0 /\ out = NoOut

(* ---- SingleDelete contract (at most one SET since the last delete, no MERGE) ---- *)
TrackOp(op) ==
  CASE op.o = "set" -> /\ sets' = [sets EXCEPT ![op.k] = IF @ < 2 THEN @ + 1 ELSE 2] /\ pois' = pois
    [] op.o = "merge" -> /\ pois' = [pois EXCEPT ![op.k] = TRUE] /\ sets' = sets
    [] op.o \in {"del", "sdel", "delsized"} -> /\ sets' = [sets EXCEPT ![op.k] = 0] /\ pois' = [pois EXCEPT ![op.k] = FALSE]
    [] op.o = "delr" -> /\ sets' = [k \in Keys |-> IF InR(k, op.a, op.b) THEN 0 ELSE sets[k]]
                        /\ pois' = [k \in Keys |-> IF InR(k, op.a, op.b) THEN FALSE ELSE pois[k]]
    [] OTHER -> UNCHANGED <<sets, pois>>

RkBounds == {<<PK(a), PK(b)>> : a \in Prefixes, b \in 1..P}
OpsOf(kind) ==
  CASE kind = "set" -> {[o |-> "set", k |-> k, v |-> nval] : k \in Keys}
    [] kind = "merge" -> {[o |-> "merge", k |-> k, v |-> nval] : k \in Keys}
    [] kind = "del" -> {[o |-> "del", k |-> k] : k \in Keys}
    [] kind = "delsized" -> {[o |-> "delsized", k |-> k, sz |-> k + 3] : k \in Keys}
    [] kind = "sdel" -> {[o |-> "sdel", k |-> k] : k \in {x \in Keys : sets[x] <= 1 /\ ~pois[x]}}
    [] kind = "delr" -> {[o |-> "delr", a |-> a, b |-> b] : a \in Keys, b \in {x \in 1..R : TRUE}}
    [] kind = "rkset" -> {[o |-> "rkset", a |-> ab[1], b |-> ab[2], s |-> s, v |-> nval] : ab \in RkBounds, s \in 0..S}
    [] kind = "rkunset" -> {[o |-> "rkunset", a |-> ab[1], b |-> ab[2], s |-> s] : ab \in RkBounds, s \in 0..S}
    [] kind = "rkdel" -> {[o |-> "rkdel", a |-> ab[1], b |-> ab[2]] : ab \in RkBounds}
    [] kind = "logdata" -> {[o |-> "logdata", v |-> nval]}
UsesVal(op) == op.o \in {"set", "merge", "rkset", "logdata"}
WellFormed(op) == (op.o \in {"delr", "rkset", "rkunset", "rkdel"}) => op.a < op.b

(* ---- gen phase: first the kind, then its parameters (uniform simulation) ---- *)
Pick == /\ phase = "pick" /\ Len(ops) < MaxOps
        /\ \E c \in Kinds : phase' = c
        /\ UNCHANGED <<ops, pre, sets, pois, nval, tr, src, dst, cut, out>>
(* Batch.<Op>: append the record; count++ unless LogData *)
Add == /\ phase \in Kinds
       /\ \E op \in OpsOf(phase) :
            /\ WellFormed(op)
            /\ ops' = Append(ops, op)
            /\ src' = [src EXCEPT !.recs = Append(@, op), !.count = IF IsLog(op) THEN @ ELSE @ + 1]
            /\ nval' = IF UsesVal(op) THEN nval + 1 ELSE nval
            /\ TrackOp(op)
       /\ phase' = "pick"
       /\ UNCHANGED <<pre, tr, dst, cut, out>>
Finish == /\ phase = "pick" /\ Len(ops) >= 1
          /\ phase' = "built"
          /\ UNCHANGED <<ops, pre, sets, pois, nval, tr, src, dst, cut, out>>

(* ---- ship phase ---- *)
Choose == /\ phase = "built"
          /\ \E t \in {"repr", "apply", "mem", "fb"} : tr' = t
          \* SetRepr may be called on a reused Batch object that still has a count
          /\ \E c0 \in {0, 1} : dst' = [EmptyB EXCEPT !.count = IF tr' = "repr" THEN c0 ELSE 0]
          /\ phase' = "ship"
          /\ UNCHANGED <<ops, pre, sets, pois, nval, src, cut, out>>

(* Batch.Repr: batchrepr.SetCount(b.data, b.Count()) *)
Repr == /\ phase = "ship" /\ tr = "repr" /\ src.hdr # src.count
        /\ src' = [src EXCEPT !.hdr = src.count]
        /\ UNCHANGED <<ops, pre, sets, pois, nval, phase, tr, dst, cut, out>>
(* Batch.SetRepr: b.data = data; b.count = header count *)
SetRepr == /\ phase = "ship" /\ tr = "repr" /\ src.hdr = src.count
           /\ LET d == [recs |-> src.recs,
                        count |-> IF Bug = "SetReprKeepsCount" THEN dst.count + src.hdr ELSE src.hdr,
                        nrd |-> NumRd(src.recs), nrk |-> NumRk(src.recs)] IN
                /\ dst' = d
                /\ out' = [t |-> "batch", recs |-> d.recs, count |-> d.count, nrd |-> d.nrd, nrk |-> d.nrk]
           /\ phase' = "done"
           /\ UNCHANGED <<ops, pre, sets, pois, nval, tr, src, cut>>

(* Batch.Apply(part): the next n records of the ops, built as their own Batch *)
ApplyPart == /\ phase = "ship" /\ tr = "apply" /\ cut < Len(src.recs)
             /\ \E n \in 1..(Len(src.recs) - cut) :
                  LET part == SubSeq(src.recs, cut + 1, cut + n)
                      \* part.Count() is the in-memory count; its header count is stale (0) until Repr()
                      pc == IF Bug = "ApplyCountFromHeader" THEN 0 ELSE CountOf(part) IN
                    /\ dst' = [recs |-> dst.recs \o part, count |-> dst.count + pc,
                               nrd |-> dst.nrd + NumRd(part),
                               nrk |-> dst.nrk + (IF Bug = "ApplyRkMiscount" THEN 0 ELSE NumRk(part))]
                    /\ cut' = cut + n
             /\ UNCHANGED <<ops, pre, sets, pois, nval, phase, tr, src, out>>
ApplyDone == /\ phase = "ship" /\ tr = "apply" /\ cut = Len(src.recs)
             /\ out' = [t |-> "batch", recs |-> dst.recs, count |-> dst.count, nrd |-> dst.nrd, nrk |-> dst.nrk]
             /\ phase' = "done"
             /\ UNCHANGED <<ops, pre, sets, pois, nval, tr, src, dst, cut>>

(* memTable.apply(batch, Base): seqNum++ per record, seqNum-- for LogData; the *)
(* final seqNum must be Base + batch.Count()                                  *)
SeqRecs(recs, countsLog) ==
  [i \in DOMAIN recs |-> [seq |-> IF IsLog(recs[i]) THEN -1
                                  ELSE Base + (IF countsLog THEN i - 1 ELSE Idx(recs, i)),
                          op |-> recs[i]]]
MemApply == /\ phase = "ship" /\ tr = "mem"
            /\ out' = [t |-> "seq", recs |-> SeqRecs(src.recs, FALSE), count |-> src.count]
            /\ phase' = "done"
            /\ UNCHANGED <<ops, pre, sets, pois, nval, tr, src, dst, cut>>
(* newFlushableBatch: index++ per record, `continue` (no index++) for LogData; *)
(* setSeqNum adds the base to the tombstone / range-key fragments              *)
Flushable == /\ phase = "ship" /\ tr = "fb"
             /\ out' = [t |-> "seq", recs |-> SeqRecs(src.recs, Bug = "FlushableIndexesLogData"), count |-> src.count]
             /\ phase' = "done"
             /\ UNCHANGED <<ops, pre, sets, pois, nval, tr, src, dst, cut>>

Next == Pick \/ Add \/ Finish \/ Choose \/ Repr \/ SetRepr \/ ApplyPart \/ ApplyDone \/ MemApply \/ Flushable
Spec == Init /\ [][Next]_vars

(* ---------------- the property ---------------- *)
St0 == ApplyBatch(EmptySt, PreOps(pre))
(* what arrives decodes to what was issued: kinds, keys, values, count, span counters *)
RoundTrip == out.t = "batch" =>
               /\ out.recs = ops
               /\ out.count = CountOf(ops)
               /\ out.nrd = NumRd(ops) /\ out.nrk = NumRk(ops)
(* sequence numbers stay inside [Base, Base+count) and are pairwise distinct *)
SeqInRange == out.t = "seq" =>
               /\ \A i \in DOMAIN out.recs : ~IsLog(out.recs[i].op) =>
                     (out.recs[i].seq >= Base /\ out.recs[i].seq < Base + out.count)
               /\ \A i, j \in DOMAIN out.recs : (i # j /\ out.recs[i].seq >= 0) => out.recs[i].seq # out.recs[j].seq
(* the meaning of the sequence-numbered records is ApplyBatch *)
Meaning == out.t = "seq" => MeaningOf(St0, out.recs, Base, Base + Len(out.recs)) = ApplyBatch(St0, ops)
(* a flushable batch and a memtable present the same internal entries *)
SameAsMem == (out.t = "seq" /\ tr = "fb") => out.recs = SeqRecs(src.recs, FALSE)
(* the expected-iteration operators are consistent: as many entries as point records, *)
(* ordered by key then descending seqnum; fragments disjoint, ordered and non-empty   *)
IterSane == phase = "built" =>
   LET e == ExpIter(ops) IN
     /\ Len(e.fwd) = Cardinality({i \in DOMAIN ops : IsPt(ops[i])})
     /\ \A i \in 1..(Len(e.fwd) - 1) : e.fwd[i][1] < e.fwd[i + 1][1] \/ (e.fwd[i][1] = e.fwd[i + 1][1] /\ e.fwd[i][2] > e.fwd[i + 1][2])
     /\ \A c \in {"rd", "rk"} : LET f == ExpFrags(ops, c) IN
          /\ \A i \in DOMAIN f : f[i][1] < f[i][2] /\ f[i][3] # <<>>
          /\ \A i \in 1..(Len(f) - 1) : f[i][2] <= f[i + 1][1]
          /\ \A k \in Keys : (\E i \in SpanIdx(ops, c) : InR(k, ops[i].a, ops[i].b)) <=> (\E i \in DOMAIN f : InR(k, f[i][1], f[i][2]))
Inv == RoundTrip /\ SeqInRange /\ Meaning /\ SameAsMem /\ IterSane

EmitCase == (Emit /\ phase = "built") => PrintT(ToJson([pre |-> pre, ops |-> ops]))
EmitInv == EmitCase \/ TRUE
=============================================================================
