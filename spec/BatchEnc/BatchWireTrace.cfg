SPECIFICATION TraceSpec
CONSTANTS
  WBug = "none"
CONSTRAINT HWM
POSTCONDITION TraceAccepted
CHECK_DEADLOCK FALSE
