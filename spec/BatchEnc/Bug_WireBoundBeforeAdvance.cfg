\* seeded bug BoundBeforeAdvance of the decoder (DecodeStr): must be caught
SPECIFICATION Spec
CONSTANTS
  WBug = "BoundBeforeAdvance"
  RecKinds = {0, 1, 2, 3, 7, 15}
  KLens = {1, 127, 128, 16384}
  VLens = {0, 1, 127, 128, 300, 16384}
  PreKinds = {1}
  PreKLens = {1}
  PreVLens = {300}
  MaxRecs = 2
  MaxCut = 7
  Over = {1, 2, 3, 4, 5, 6}
  Under = {1, 2}
  Huge = {268435456, 2147483647}
  BadKinds = {4, 17, 25, 30, 31, 64, 255}
  Damage = {"cut", "hdr", "len", "kind", "count", "pad"}
  Emit = FALSE
INVARIANT NoPanic
INVARIANT ValidRoundTrip
INVARIANT TruncPrefix
INVARIANT FastSlowAgree
CHECK_DEADLOCK FALSE
