--------------------------- MODULE BatchWireTrace ---------------------------
(* C31, malformed input: trace validation of the real batchrepr.Reader,       *)
(* Batch.SetRepr, Batch.Apply, DB.Apply and WAL replay against BatchWire.      *)
(* The Go driver (internal/verif/encdrv, c31mal_test.go) expands the           *)
(* TLC-generated run-length encoded bytes, hands them to each transport inside *)
(* a recover(), and records what came back; every result is decided here.      *)
(*                                                                            *)
(*  mcase{id, mut, w, vias}   the bytes under test (w: [[b, n], ..] runs)      *)
(*  mal{via, res, recs, cnt}  res: "ok" | "err" | "panic" | "hang" (no answer in   *)
(*                            time); for the reader                            *)
(*                            transports the records read before the stop,     *)
(*                            [kind, klen, vlen, first/last key byte,          *)
(*                            first/last value byte], and for breader          *)
(*                            Batch.Count() (cnt, else -1)                     *)
EXTENDS BatchWire, Json

Trace == ndJsonDeserialize("trace.ndjson")

VARIABLES l, w, d, vias
vars == <<l, w, d, vias>>

Ev == Trace[l]
Is(o) == l <= Len(Trace) /\ Trace[l].op = o /\ l' = l + 1
NoCase == <<>>

TraceInit == l = 1 /\ w = NoCase /\ d = [st |-> "end", recs |-> <<>>, amb |-> FALSE] /\ vias = {} /\ TLCSet(1, 0)

(* a new case / file starts only when every transport of the previous case has reported *)
Reset == Is("reset") /\ vias = {} /\ w' = NoCase /\ UNCHANGED <<d, vias>>
(* a case: the bytes; the decoder of the spec runs once over them *)
MCase == /\ Is("mcase") /\ vias = {}
         /\ w' = Ev.w /\ d' = Dec(Ev.w) /\ vias' = {Ev.vias[i] : i \in DOMAIN Ev.vias}
(* one transport's answer: never a panic; an error exactly when the bytes are malformed for that transport; *)
(* the reader transports deliver exactly the records before the defect                                      *)
Mal == /\ Is("mal")
       /\ Ev.via \in vias
       /\ Ev.res # "panic"
       /\ Ev.res \in ExpectResD(w, d, Ev.via)
       /\ (Ev.via \in ReaderVias /\ ~d.amb) => Ev.recs = ExpectRecsD(w, d, Ev.via)
       /\ (Ev.via = "breader" /\ Ev.cnt >= 0) => Ev.cnt = HdrCount(w)
       /\ vias' = vias \ {Ev.via}
       /\ UNCHANGED <<w, d>>
Note == Is("note") /\ UNCHANGED <<w, d, vias>>

TraceNext == Reset \/ MCase \/ Mal \/ Note
TraceSpec == TraceInit /\ [][TraceNext]_vars

HWM == IF l - 1 > TLCGet(1) THEN TLCSet(1, l - 1) ELSE TRUE
TraceAccepted == PrintT(<<"HWM", TLCGet(1)>>) /\ TLCGet(1) = Len(Trace)
=============================================================================
