--------------------------- MODULE BatchEncTrace ---------------------------
(* C31: trace validation of the real pebble.Batch / batchrepr / memtable /   *)
(* flushable-batch / WAL-replay code against BatchEnc.  The Go drivers        *)
(* (internal/verif/encdrv, and in package pebble zz_verif_enc_flushable_test)  *)
(* only execute and record; every observation is decided here.                *)
(*                                                                            *)
(*  case{id, pre, ops}      a generated batch and the pre-state it meets      *)
(*  dec{via, dec, count, hdr}  the ops decoded with the real batchrepr.Reader  *)
(*                          after transport `via`, Batch.Count() and the      *)
(*                          count stored in the header of Repr()              *)
(*  state{via, cfg, large, state}  the visible state of a real DB (or of an   *)
(*                          indexed batch over it) holding pre, after the     *)
(*                          batch arrived through `via`                       *)
(*  fb{fb, mem}             internal iteration (First/Next, Last/Prev,        *)
(*                          SeekGE/SeekLT of every key, range-del and range-  *)
(*                          key fragments; seqnums relative to the batch's    *)
(*                          base) of newFlushableBatch(batch) and of a        *)
(*                          memtable that applied the same batch              *)
EXTENDS BatchEnc, Json

Trace == ndJsonDeserialize("trace.ndjson")

VARIABLES l, pre, ops
vars == <<l, pre, ops>>

Ev == Trace[l]
Is(o) == l <= Len(Trace) /\ Trace[l].op = o /\ l' = l + 1

TraceInit == l = 1 /\ pre = "empty" /\ ops = <<>> /\ TLCSet(1, 0)

Reset == Is("reset") /\ pre' = "empty" /\ ops' = <<>>
Case == Is("case") /\ pre' = Ev.pre /\ ops' = Ev.ops

(* kinds, keys, values and count round-trip *)
Dec == /\ Is("dec") /\ ops # <<>> /\ Ev.err = ""
       /\ Ev.dec = ops
       /\ Ev.count = CountOf(ops)
       /\ Ev.hdr = CountOf(ops)
       /\ UNCHANGED <<pre, ops>>

(* the batch means ApplyBatch wherever it arrives *)
StOf(j) == [pts |-> [k \in Keys |-> j.pts[k + 1]], rks |-> [p \in Prefixes |-> ToSet(j.rks[p + 1])]]
State == /\ Is("state") /\ ops # <<>> /\ Ev.err = ""
         /\ StOf(Ev.state) = ApplyBatch(ApplyBatch(EmptySt, PreOps(pre)), ops)
         /\ UNCHANGED <<pre, ops>>

(* a flushable batch iterates identically to a memtable holding it, and both as the ops prescribe *)
FB == /\ Is("fb") /\ ops # <<>> /\ Ev.err = ""
      /\ Ev.fb = Ev.mem
      /\ Ev.fb = ExpIter(ops)
      /\ UNCHANGED <<pre, ops>>

Note == Is("note") /\ UNCHANGED <<pre, ops>>

TraceNext == Reset \/ Case \/ Dec \/ State \/ FB \/ Note
TraceSpec == TraceInit /\ [][TraceNext]_vars

HWM == IF l - 1 > TLCGet(1) THEN TLCSet(1, l - 1) ELSE TRUE
TraceAccepted == PrintT(<<"HWM", TLCGet(1)>>) /\ TLCGet(1) = Len(Trace)
=============================================================================
