\* exhaustive design check: 2 prefixes x (bare + 1 suffix) = 4 user keys, batches of <= 2 records
\* of every kind, both pre-states, every transport with every split into Apply parts
SPECIFICATION Spec
CONSTANTS
  P = 2
  S = 1
  MaxOps = 2
  Kinds = {"set", "del", "sdel", "delsized", "merge", "delr", "rkset", "rkunset", "rkdel", "logdata"}
  Pres = {"empty", "full"}
  Bug = "none"
  Emit = FALSE
INVARIANT RoundTrip
INVARIANT SeqInRange
INVARIANT Meaning
INVARIANT SameAsMem
INVARIANT IterSane
CHECK_DEADLOCK FALSE
