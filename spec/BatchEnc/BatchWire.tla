------------------------------ MODULE BatchWire ------------------------------
(* C31, clause "decoding arbitrary bytes through the batch reader, SetRepr,    *)
(* Apply or WAL replay returns an error instead of panicking".                 *)
(*                                                                            *)
(* The wire form of a batch (batchrepr): a 12-byte header {seqnum: 8 bytes,    *)
(* count: 4 bytes little endian} followed by records                          *)
(*     kind byte | varint32 key length | key bytes                            *)
(*               [ | varint32 value length | value bytes ]   (kinds with value) *)
(* A byte string is kept run-length encoded, <<[b |-> byte, n |-> count], ..>>, *)
(* so that strings of 16 KiB or 2 MiB (3- and 4-byte length prefixes) cost the  *)
(* same as short ones.                                                         *)
(*                                                                            *)
(* Dec(w) is the decoder, written in the steps of batchrepr.Reader.Next and    *)
(* batchrepr.DecodeStr (fast path when at most 128 bytes remain: a one-byte    *)
(* length; general path: up to five varint bytes, THEN the bound check against *)
(* what remains after the prefix).  An access outside the byte string is the   *)
(* outcome "panic".  Expect(w, via) is what each transport of the real code    *)
(* must report for the bytes w.  Pure operators; BatchWireGen is the generator *)
(* and design model, BatchWireTrace the trace spec.                            *)
EXTENDS Integers, Sequences, FiniteSets, TLC

CONSTANT WBug     \* "none", or a seeded bad variant of the decoder ("BoundBeforeAdvance", "FastPathOffByOne")

HeaderLen == 12
KindMax == 30                                  \* base.InternalKeyKindMax
(* kinds whose record carries a second string (Reader.Next) *)
ValueKinds == {1, 2, 15, 19, 20, 21, 23, 24, 26}
(* kinds Batch.SetRepr (refreshMemTableSize) and Batch.Apply accept in a batch that belongs to a DB *)
DBBatchKinds == {0, 1, 2, 3, 7, 15, 18, 19, 20, 21, 22, 23, 24, 26}
(* kinds that consume no sequence number / are not counted (LogData) *)
Uncounted == {3}
(* ingest-family kinds: explicit assertions (panics) guard them in Apply, memTable.apply and WAL replay; *)
(* they are outside the judged domain and are never generated                                            *)
IngestKinds == {22, 24, 26}

RECURSIVE SumN(_, _)
SumN(w, i) == IF i > Len(w) THEN 0 ELSE w[i].n + SumN(w, i + 1)
WLen(w) == SumN(w, 1)
RECURSIVE ByteAtR(_, _, _)
ByteAtR(w, i, p) == IF p < w[i].n THEN w[i].b ELSE ByteAtR(w, i + 1, p - w[i].n)
ByteAt(w, p) == ByteAtR(w, 1, p)               \* 0 <= p < WLen(w)
(* the first len bytes of w *)
RECURSIVE TakeR(_, _, _)
TakeR(w, i, len) == IF len <= 0 \/ i > Len(w) THEN <<>>
                    ELSE IF w[i].n <= len THEN <<w[i]>> \o TakeR(w, i + 1, len - w[i].n)
                    ELSE <<[b |-> w[i].b, n |-> len]>>
Take(w, len) == TakeR(w, 1, len)

(* ---- writer side: canonical and padded varints, header, records ---- *)
RECURSIVE VarintBytes(_)
VarintBytes(v) == IF v < 128 THEN <<v>> ELSE <<128 + (v % 128)>> \o VarintBytes(v \div 128)
(* a non-minimal encoding of v: one more continuation byte than needed *)
PaddedVarint(v) == LET c == VarintBytes(v) IN [i \in 1..Len(c) |-> IF i = Len(c) THEN 128 + c[i] ELSE c[i]] \o <<0>>
Runs(bytes) == [i \in DOMAIN bytes |-> [b |-> bytes[i], n |-> 1]]
Fill(b, n) == IF n > 0 THEN <<[b |-> b, n |-> n]>> ELSE <<>>
LE4(c) == <<c % 256, (c \div 256) % 256, (c \div 65536) % 256, (c \div 16777216) % 256>>
HeaderOf(cnt) == <<[b |-> 0, n |-> 8]>> \o Runs(LE4(cnt))
KeyFill == 97      \* 'a'
ValFill == 98      \* 'b'
(* a written record: kb = the kind byte on the wire, hv = a value string was written, kl/vl = bytes actually written, *)
(* kd/vd = the lengths declared in the prefixes, kp/vp = the prefix is padded (non-minimal)                          *)
StrOf(decl, pad, fill, len) == Runs(IF pad THEN PaddedVarint(decl) ELSE VarintBytes(decl)) \o Fill(fill, len)
RecOf(r) == <<[b |-> r.kb, n |-> 1]>> \o StrOf(r.kd, r.kp, KeyFill, r.kl)
            \o (IF r.hv THEN StrOf(r.vd, r.vp, ValFill, r.vl) ELSE <<>>)
RECURSIVE RecsOf(_, _)
RecsOf(rs, i) == IF i > Len(rs) THEN <<>> ELSE RecOf(rs[i]) \o RecsOf(rs, i + 1)
(* the bytes of a case: header + records, minus `cut` bytes at the tail *)
WireOf(c) == LET full == HeaderOf(c.cnt) \o RecsOf(c.recs, 1) IN Take(full, WLen(full) - c.cut)

(* ---- reader side ---- *)
(* varint32 at p, general path of DecodeStr: the first byte without continuation bit among five ends it (the code   *)
(* reads up to 5 bytes unconditionally, which is safe there because more than 128 bytes remain).  amb: the prefix is *)
(* not the minimal encoding or overflows 32 bits -- the fast and the general path legitimately differ on those        *)
Varint(w, p) ==
  LET L == WLen(w)
      avail == IF L - p < 5 THEN L - p ELSE 5
      ends == {i \in 1..avail : ByteAt(w, p + i - 1) < 128}
  IN IF ends = {} THEN [ok |-> FALSE, n |-> 0, v |-> 0, amb |-> avail = 5]
     ELSE LET n == CHOOSE i \in ends : \A j \in ends : i <= j
              val[i \in 0..n] == IF i = 0 THEN 0 ELSE val[i - 1] + (ByteAt(w, p + i - 1) % 128) * (128 ^ (i - 1))
              \* TLC integers are 32-bit: a fifth byte above 7 (a length of 2^31 or more) saturates
              big == n = 5 /\ ByteAt(w, p + 4) > 7
          IN [ok |-> TRUE, n |-> n, v |-> IF big THEN 2147483647 ELSE val[n],
              amb |-> (n > 1 /\ ByteAt(w, p + n - 1) = 0) \/ (n = 5 /\ ByteAt(w, p + 4) > 15)]
Fail == [st |-> "fail", next |-> 0, len |-> 0, at |-> 0, amb |-> FALSE]
(* DecodeStr(data) with data = w[p..]: [st "ok"/"fail"/"panic", at = start of the string, len, next = first byte after it] *)
DecodeStr(w, p) ==
  LET rem == WLen(w) - p IN
  IF rem <= 128 THEN
     \* fast path: a valid length is one byte
     LET lim == IF WBug = "FastPathOffByOne" THEN rem + 1 ELSE rem IN
     IF rem = 0 \/ ByteAt(w, p) >= lim THEN [Fail EXCEPT !.amb = rem > 0 /\ ByteAt(w, p) >= 128 /\ Varint(w, p).amb]
     ELSE IF p + 1 + ByteAt(w, p) > WLen(w) THEN [Fail EXCEPT !.st = "panic"]
     ELSE [st |-> "ok", at |-> p + 1, len |-> ByteAt(w, p), next |-> p + 1 + ByteAt(w, p), amb |-> FALSE]
  ELSE
     LET vr == Varint(w, p) IN
     IF ~vr.ok THEN [Fail EXCEPT !.amb = TRUE]      \* five continuation bytes: the code takes the fifth as it is
     ELSE LET q == p + vr.n
              room == IF WBug = "BoundBeforeAdvance" THEN WLen(w) - p ELSE WLen(w) - q IN
          IF vr.v > room THEN [Fail EXCEPT !.amb = vr.amb]
          ELSE IF q + vr.v > WLen(w) THEN [Fail EXCEPT !.st = "panic"]       \* slice bounds out of range
          ELSE [st |-> "ok", at |-> q, len |-> vr.v, next |-> q + vr.v, amb |-> vr.amb]
(* first and last byte of a decoded string (-1: empty) *)
Ends(w, s) == IF s.len = 0 THEN <<-1, -1>> ELSE <<ByteAt(w, s.at), ByteAt(w, s.at + s.len - 1)>>
(* Reader.Next from p on: the records [kind, klen, vlen (-1: none), k0, k1, v0, v1] read before the end / the error *)
RECURSIVE DecFrom(_, _, _, _)
DecFrom(w, p, acc, amb) ==
  IF p >= WLen(w) THEN [st |-> "end", recs |-> acc, amb |-> amb]
  ELSE LET kind == ByteAt(w, p) IN
       IF kind > KindMax THEN [st |-> "err", recs |-> acc, amb |-> amb]
       ELSE LET ks == DecodeStr(w, p + 1) IN
            IF ks.st # "ok" THEN [st |-> IF ks.st = "panic" THEN "panic" ELSE "err", recs |-> acc, amb |-> amb \/ ks.amb]
            ELSE IF kind \notin ValueKinds
                 THEN DecFrom(w, ks.next, Append(acc, <<kind, ks.len, -1>> \o Ends(w, ks) \o <<-1, -1>>), amb \/ ks.amb)
                 ELSE LET vs == DecodeStr(w, ks.next) IN
                      IF vs.st # "ok" THEN [st |-> IF vs.st = "panic" THEN "panic" ELSE "err", recs |-> acc, amb |-> amb \/ ks.amb \/ vs.amb]
                      ELSE DecFrom(w, vs.next, Append(acc, <<kind, ks.len, vs.len>> \o Ends(w, ks) \o Ends(w, vs)), amb \/ ks.amb \/ vs.amb)
(* batchrepr.Read: nothing to read unless more than a header is there *)
Dec(w) == IF WLen(w) <= HeaderLen THEN [st |-> "end", recs |-> <<>>, amb |-> FALSE] ELSE DecFrom(w, HeaderLen, <<>>, FALSE)
HdrCount(w) == ByteAt(w, 8) + 256 * ByteAt(w, 9) + 65536 * ByteAt(w, 10) + 16777216 * ByteAt(w, 11)
Counted(recs) == Cardinality({i \in DOMAIN recs : recs[i][1] \notin Uncounted})

(* ---- what every transport must report for the bytes w ---- *)
(* res: "ok" | "err" (never "panic"); for the reader transports also the records read before the stop.             *)
(*  reader         batchrepr.Read(w) + Next until !ok                                                              *)
(*  breader        new(Batch).SetRepr(w) (needs a whole header), then Batch.Reader() + Next; Count() = header count  *)
(*  setrepr_db     db.NewBatch().SetRepr(w): decodes every record (refreshMemTableSize)                             *)
(*  apply_db       db.NewBatch().Apply(src) / apply_indexed  db.NewIndexedBatch().Apply(src), src holding w         *)
(*  db_apply       db.Apply(src): decodes before committing (generated only where a commit cannot follow a defect)   *)
(*  replay[_tiny]  pebble.Open over a WAL whose intact record holds w (normal / large-batch path)                    *)
ReaderVias == {"reader", "breader"}
DBVias == {"setrepr_db", "apply_db", "apply_indexed", "db_apply", "replay", "replay_tiny"}
BadKindIn(recs) == \E i \in DOMAIN recs : recs[i][1] \notin DBBatchKinds
(* d = Dec(w) throughout (computed once per byte string) *)
MalformedD(w, d) == WLen(w) < HeaderLen \/ d.st = "err" \/ BadKindIn(d.recs)
CountOffD(w, d) == WLen(w) >= HeaderLen /\ d.st = "end" /\ Counted(d.recs) # HdrCount(w)
Malformed(w) == MalformedD(w, Dec(w))
CountOff(w) == CountOffD(w, Dec(w))
(* WAL replay never decodes a batch whose header count is 0: wal.Reader skips it as a LogData-only batch (wal/reader.go) *)
ReplaySkips(w) == WLen(w) >= HeaderLen /\ HdrCount(w) = 0
(* the set of admissible results *)
ExpectResD(w, d, via) ==
  IF d.amb THEN {"ok", "err"}                                    \* non-minimal / overflowing length prefix: either, never a panic
  ELSE CASE via = "reader" -> {IF d.st = "end" THEN "ok" ELSE "err"}
         [] via = "breader" -> {IF WLen(w) >= HeaderLen /\ d.st = "end" THEN "ok" ELSE "err"}
         [] via \in {"setrepr_db", "apply_db", "apply_indexed"} -> {IF MalformedD(w, d) THEN "err" ELSE "ok"}
         [] via \in {"db_apply", "replay", "replay_tiny"} ->
              IF via # "db_apply" /\ ReplaySkips(w) THEN {"ok"}
              ELSE IF MalformedD(w, d) THEN {"err"}
              ELSE IF CountOffD(w, d) THEN {"ok", "err"}          \* memTable.apply reports it, newFlushableBatch only an excess
              ELSE {"ok"}
ExpectRes(w, via) == ExpectResD(w, Dec(w), via)
ExpectRecsD(w, d, via) == IF via = "breader" /\ WLen(w) < HeaderLen THEN <<>> ELSE d.recs
=============================================================================
