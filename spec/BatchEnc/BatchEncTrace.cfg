SPECIFICATION TraceSpec
CONSTANTS
  P = 3
  S = 2
CONSTRAINT HWM
POSTCONDITION TraceAccepted
CHECK_DEADLOCK FALSE
