---------------------------- MODULE KeyOrderTab ----------------------------
(* C35, cockroach columnar key schema: generator of sstable contents.  A     *)
(* table is a strictly increasing (in the intended order) sequence of        *)
(* cockroach keys; each step appends one of the next few keys of the         *)
(* universe, so tables are dense in versions of one roachpb key (where the   *)
(* KeySeeker's suffix search decides) and span several prefixes.  With Emit  *)
(* the finished table is printed together with every key of the universe as  *)
(* a seek probe; the Go driver writes it with sstable.NewRawWriter and the    *)
(* cockroachkvs.KeySchema, seeks with the real columnar iterator, and         *)
(* KeyOrderTrace decides every result.                                        *)
EXTENDS KeyOrder, Json

CONSTANTS Alphabet, MaxPLen, W, L, MaxKeys, Emit

VARIABLES kinds, tab
vars == <<kinds, tab>>

(* roachpb keys are non-empty here, as in the repository's own key generator (cockroachkvs/test_utils.go), *)
(* and the explicit zero timestamp (8 or 12 zero bytes; the encoders write no version for it) is left out:   *)
(* the columnar schema cannot tell it from "no version"                                                      *)
UT(ks) == {x \in KeysOf("crdb", Alphabet, MaxPLen, W, L) : x.v.t \in ks /\ x.p # <<>>
                                                              /\ ~(x.v.t = "mvcc" /\ x.v.w = 0 /\ x.v.l = 0)}
(* blocks of MVCC versions only / lock-table versions only take the KeySeeker's fast paths *)
Init == kinds \in {{"none", "mvcc"}, {"none", "lock"}, {"mvcc"}, {"lock"}} /\ tab = <<>>
Between(x, y) == {z \in UT(kinds) : Cmp(x, z) < 0 /\ Cmp(z, y) < 0}
Add == /\ Len(tab) < MaxKeys
       /\ \E x \in UT(kinds) :
            /\ (tab # <<>> => (Cmp(tab[Len(tab)], x) < 0 /\ Cardinality(Between(tab[Len(tab)], x)) < 3))
            /\ tab' = Append(tab, x)
       /\ UNCHANGED kinds
Spec == Init /\ [][Add]_vars

(* the seek model of a sorted table *)
GEIdx(t, k) == {i \in DOMAIN t : Cmp(t[i], k) >= 0}
LTIdx(t, k) == {i \in DOMAIN t : Cmp(t[i], k) < 0}
MinOf(Sx) == CHOOSE x \in Sx : \A y \in Sx : x <= y
MaxOf(Sx) == CHOOSE x \in Sx : \A y \in Sx : x >= y
SeekGE(t, k) == IF GEIdx(t, k) = {} THEN <<>> ELSE <<t[MinOf(GEIdx(t, k))]>>
SeekLT(t, k) == IF LTIdx(t, k) = {} THEN <<>> ELSE <<t[MaxOf(LTIdx(t, k))]>>
StrictlySorted(t) == \A i \in 1..(Len(t) - 1) : Cmp(t[i], t[i + 1]) < 0

(* design-level sanity of the seek model: the two seeks partition the table at k *)
SeekSane == /\ StrictlySorted(tab)
            /\ \A k \in UT(kinds) :
                 /\ Cardinality(GEIdx(tab, k)) + Cardinality(LTIdx(tab, k)) = Len(tab)
                 /\ (SeekGE(tab, k) # <<>> /\ SeekLT(tab, k) # <<>>) => Cmp(SeekLT(tab, k)[1], SeekGE(tab, k)[1]) < 0
Done == Len(tab) = MaxKeys \/ (Len(tab) >= 2 /\ ~\E x \in UT(kinds) : Cmp(tab[Len(tab)], x) < 0)
EmitTab == (Emit /\ Done) => PrintT(ToJson([tab |-> tab, probes |-> UT(kinds)]))
EmitInv == EmitTab \/ TRUE
=============================================================================
