SPECIFICATION TraceSpec
CONSTANTS
  Bug = "none"
CONSTRAINT HWM
POSTCONDITION TraceAccepted
CHECK_DEADLOCK FALSE
