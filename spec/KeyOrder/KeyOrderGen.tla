---------------------------- MODULE KeyOrderGen ----------------------------
(* C35 design check and input generator.  Every pair (a, b) of a small        *)
(* structured universe is one initial state: the laws of the Comparer         *)
(* contract are checked on the intended order (with every third key c for     *)
(* transitivity), and with Emit the pair is printed with the predicted        *)
(* Compare / Equal / Split results: the inputs the Go driver encodes with the *)
(* real encoders and feeds to the real comparers (mode A).  One step picks a  *)
(* third key: triples for the transitivity check of the real Compare.         *)
EXTENDS KeyOrder, Json

CONSTANTS Fams,        \* SUBSET {"bytes", "testkeys", "crdb"}
          Alphabet,    \* byte values of prefixes
          MaxPLen,     \* prefix length bound
          W, L,        \* wall times 0..W (testkeys timestamps 1..W+1), logicals 0..L
          TripleFams,  \* families for which the third key is picked
          SamePfxFams, \* families whose triples share one prefix (where the suffix order decides)
          Emit

VARIABLES fam, a, b, c
vars == <<fam, a, b, c>>

U(f) == KeysOf(f, Alphabet, IF f = "bytes" THEN MaxPLen + 1 ELSE MaxPLen, W, L)
NoKey == [p |-> <<>>, v |-> [t |-> "unset", w |-> 0, l |-> 0, f |-> 0]]

Init == /\ fam \in Fams /\ a \in U(fam) /\ b \in U(fam) /\ Comparable(a, b) /\ c = NoKey
PickC == /\ c = NoKey /\ fam \in TripleFams
         /\ (fam \in SamePfxFams => a.p = b.p)
         /\ c' \in {x \in U(fam) : Comparable(a, x) /\ Comparable(b, x) /\ (fam \in SamePfxFams => x.p = a.p)}
         /\ UNCHANGED <<fam, a, b>>
Next == PickC
Spec == Init /\ [][Next]_vars

(* ---- the laws, on the intended order ---- *)
LawAntisym == Antisym(a, b) /\ Cmp(a, a) = 0
LawEqual == EqualIffSame(a, b)
LawSplit1 == SplitLaw1(a)
LawSplit2 == SplitLaw2(a, b)
LawSplit3 == SplitLaw3(a, b)
LawTrans == c = NoKey => \A x \in U(fam) : (Comparable(a, x) /\ Comparable(b, x)) => Trans(a, b, x)
(* the immediate successor prefix p.0 is a prefix key above p with no prefix of the universe in between *)
LawImmSucc == LET k == [p |-> Append(a.p, 0), v |-> NoV] IN
              a.v.t = "none" => (Cmp(a, k) < 0 /\ \A x \in U(fam) : x.v.t = "none" => ~(Cmp(a, x) < 0 /\ Cmp(x, k) < 0))

EmitPair == (Emit /\ c = NoKey) =>
   PrintT(ToJson([fam |-> fam, a |-> a, b |-> b, c |-> NoKey, cmp |-> Cmp(a, b), eq |-> Eq(a, b), spa |-> SplitOf(fam, a), spb |-> SplitOf(fam, b)]))
EmitTriple == (Emit /\ c # NoKey) =>
   PrintT(ToJson([fam |-> fam, a |-> a, b |-> b, c |-> c, cmp |-> Cmp(a, b), eq |-> Eq(a, b), spa |-> SplitOf(fam, a), spb |-> SplitOf(fam, b)]))
EmitInv == (EmitPair /\ EmitTriple) \/ TRUE
=============================================================================
