\* exhaustive design check: prefixes over 3 byte values (0x00, 'a', 0xff) of length <= 1 (bytes: <= 2),
\* testkeys timestamps 1..3 with/without "_synthetic", cockroach wall 0..2, logical 0..1 in every
\* length variant, 4 lock-table versions: every pair, every third key for transitivity
SPECIFICATION Spec
CONSTANTS
  Bug = "none"
  Fams = {"bytes", "testkeys", "crdb"}
  Alphabet = {0, 97, 255}
  MaxPLen = 1
  W = 2
  L = 1
  TripleFams = {}
  SamePfxFams = {"testkeys", "crdb"}
  Emit = FALSE
INVARIANT LawAntisym
INVARIANT LawEqual
INVARIANT LawSplit1
INVARIANT LawSplit2
INVARIANT LawSplit3
INVARIANT LawTrans
INVARIANT LawImmSucc
CHECK_DEADLOCK FALSE
