------------------------------ MODULE KeyOrder ------------------------------
(* C35.  The INTENDED total order on structured user keys of the three       *)
(* comparers shipped with Pebble, stated on the structure of a key and not   *)
(* on its bytes:                                                              *)
(*                                                                            *)
(*   key == [p |-> prefix, v |-> version]                                     *)
(*     p : sequence of byte values (the prefix bytes; for cockroachkvs the    *)
(*         roachpb key WITHOUT the 0x00 sentinel)                             *)
(*     v : [t, w, l, f]                                                       *)
(*         t = "none"                      no suffix (w = l = f = 0)          *)
(*         t = "ts"    (testkeys)          "@w", f = 1: with the ignorable    *)
(*                                          "_synthetic" tail                 *)
(*         t = "mvcc"  (cockroachkvs)      wall time w, logical l; f = encoded *)
(*                                          version length 8 (wall only,      *)
(*                                          l = 0), 12 (wall+logical, l may   *)
(*                                          be 0) or 13 (+ synthetic byte)    *)
(*         t = "lock"  (cockroachkvs)      lock-table version: strength w,    *)
(*                                          txn id l; f = 17                  *)
(*                                                                            *)
(*   fam "bytes"    base.DefaultComparer: bytewise on p; no versions          *)
(*   fam "testkeys" internal/testkeys: p ascending (bytewise), bare key       *)
(*                  first, then suffixes by DESCENDING integer; "_synthetic"  *)
(*                  does not matter for keys, only for range-key suffixes     *)
(*   fam "crdb"     cockroachkvs: roachpb key ascending, empty version first, *)
(*                  then MVCC timestamps DESCENDING by (wall, logical); the   *)
(*                  synthetic byte and the zero-logical length variant do not *)
(*                  matter (cockroachkvs.go: normalizeVersionForCompare);     *)
(*                  lock-table versions among themselves descending by their  *)
(*                  bytes (strength, txn id).  MVCC versus lock-table version *)
(*                  under one roachpb key is not a documented case: such      *)
(*                  pairs are not generated.                                  *)
EXTENDS Integers, Sequences, FiniteSets, TLC

CONSTANTS Bug   \* "none", or a seeded wrong variant of the order (self-test of the laws)

Sign(x) == IF x < 0 THEN -1 ELSE IF x > 0 THEN 1 ELSE 0
NoV == [t |-> "none", w |-> 0, l |-> 0, f |-> 0]

(* bytewise order on sequences of byte values *)
RECURSIVE LexFrom(_, _, _)
LexFrom(a, b, i) ==
  IF i > Len(a) /\ i > Len(b) THEN 0
  ELSE IF i > Len(a) THEN -1
  ELSE IF i > Len(b) THEN 1
  ELSE IF a[i] # b[i] THEN Sign(a[i] - b[i])
  ELSE LexFrom(a, b, i + 1)
Lex(a, b) == LexFrom(a, b, 1)

(* what a version denotes: the encoded form f does not matter *)
Denote(v) == <<v.t, v.w, v.l>>
Mixed(u, v) == {u.t, v.t} = {"mvcc", "lock"}

(* the point-suffix order (Comparer.ComparePointSuffixes; the tie-break of Compare) *)
VCmp(u, v) ==
  IF u.t = "none" \/ v.t = "none"
  THEN (IF Bug = "BareLast"
        THEN Sign((IF v.t = "none" THEN 0 ELSE 1) - (IF u.t = "none" THEN 0 ELSE 1))
        ELSE Sign((IF u.t = "none" THEN 0 ELSE 1) - (IF v.t = "none" THEN 0 ELSE 1)))
  ELSE IF Bug = "SyntheticOneSide" /\ u.t = "mvcc" /\ u.f # 13 /\ v.f = 13 /\ u.w = v.w /\ u.l = v.l THEN -1
  ELSE IF Bug = "ZeroLogicalDistinct" /\ u.t = "mvcc" /\ u.w = v.w /\ u.l = 0 /\ v.l = 0 /\ u.f # v.f THEN Sign(v.f - u.f)
  ELSE IF u.w # v.w THEN Sign(v.w - u.w)          \* larger wall time / timestamp / strength first
  ELSE Sign(v.l - u.l)                            \* then larger logical / txn id first

Cmp(a, b) ==
  IF Bug = "SuffixBeforePrefix"
  THEN (IF VCmp(a.v, b.v) # 0 THEN VCmp(a.v, b.v) ELSE Lex(a.p, b.p))
  ELSE (IF Lex(a.p, b.p) # 0 THEN Lex(a.p, b.p) ELSE VCmp(a.v, b.v))
Eq(a, b) == Cmp(a, b) = 0
Pfx(a) == [p |-> a.p, v |-> NoV]
(* Split point in bytes: the cockroach prefix includes the 0x00 sentinel *)
SplitOf(fam, a) == Len(a.p) + (IF fam = "crdb" THEN 1 ELSE 0)

(* ---- universes ---- *)
RECURSIVE SeqsUpTo(_, _)
SeqsUpTo(A, n) == IF n = 0 THEN {<<>>} ELSE SeqsUpTo(A, n - 1) \cup {Append(s, x) : s \in SeqsUpTo(A, n - 1), x \in A}
PrefixesOf(fam, A, n) == IF fam = "crdb" THEN SeqsUpTo(A, n) ELSE SeqsUpTo(A, n) \ {<<>>}
VersionsOf(fam, W, L) ==
  {NoV} \cup
  (CASE fam = "bytes" -> {}
     [] fam = "testkeys" -> {[t |-> "ts", w |-> w, l |-> 0, f |-> f] : w \in 1..(W + 1), f \in {0, 1}}
     [] fam = "crdb" -> {[t |-> "mvcc", w |-> w, l |-> 0, f |-> 8] : w \in 0..W}
                        \cup {[t |-> "mvcc", w |-> w, l |-> l, f |-> f] : w \in 0..W, l \in 0..L, f \in {12, 13}}
                        \cup {[t |-> "lock", w |-> s, l |-> x, f |-> 17] : s \in 1..2, x \in 0..1})
KeysOf(fam, A, n, W, L) == {[p |-> p, v |-> v] : p \in PrefixesOf(fam, A, n), v \in VersionsOf(fam, W, L)}
Comparable(a, b) == ~(a.p = b.p /\ Mixed(a.v, b.v))

(* ---- the Comparer contract (internal/base/comparer.go), as laws of the order ---- *)
Antisym(a, b) == Cmp(a, b) = -Cmp(b, a)
EqualIffSame(a, b) == Eq(a, b) <=> (a.p = b.p /\ Denote(a.v) = Denote(b.v))
(* Split law 1: a bare prefix sorts before every key with that prefix and a suffix *)
SplitLaw1(a) == a.v.t # "none" => Cmp(Pfx(a), a) < 0
(* Split law 2: prefixes order keys before suffixes do *)
SplitLaw2(a, b) == /\ (Cmp(a, b) <= 0 => Cmp(Pfx(a), Pfx(b)) <= 0)
                   /\ (Cmp(Pfx(a), Pfx(b)) < 0 => Cmp(a, b) < 0)
(* Split law 3: with equal prefixes the suffix order decides *)
SplitLaw3(a, b) == Cmp(Pfx(a), Pfx(b)) = 0 => Cmp(a, b) = VCmp(a.v, b.v)
Trans(a, b, c) == (Cmp(a, b) <= 0 /\ Cmp(b, c) <= 0) => Cmp(a, c) <= 0
=============================================================================
