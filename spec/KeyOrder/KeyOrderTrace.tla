--------------------------- MODULE KeyOrderTrace ---------------------------
(* C35: the real comparers (base.DefaultComparer, testkeys.Comparer,          *)
(* cockroachkvs.Comparer) against the intended order KeyOrder.  The Go driver *)
(* (internal/verif/encdrv) encodes every generated structured key with the    *)
(* real encoders, calls the real functions and records; TLC decides.          *)
(*                                                                            *)
(*  pair{fam,a,b,cmp,cmpba,eq,spa,spb,psfx,rsfx,rsfxba,abbr}                  *)
(*        Compare(a,b), Compare(b,a), Equal(a,b), Split(a), Split(b),         *)
(*        ComparePointSuffixes / CompareRangeSuffixes of the two suffixes     *)
(*        (both directions for the latter), sign of                           *)
(*        AbbreviatedKey(a) - AbbreviatedKey(b)                               *)
(*  triple{fam,a,b,c,ab,bc,ac}   three real Compare results                   *)
(*  sep{fam,a,b,ok,k,ka,kb}      k = Separator(a,b) decoded (ok: it decodes   *)
(*        to a valid structured key), ka = Compare(a,k), kb = Compare(k,b)    *)
(*  succ{fam,a,ok,k,ka}          k = Successor(a)                             *)
(*  isucc{fam,a,ok,k,ka,ksplit}  k = ImmediateSuccessor(a), a a prefix key;   *)
(*        ksplit: Split(k) = len(k)                                           *)
(*  table{keys} / scan{res} / seek{o,k,res}   a columnar sstable written with  *)
(*        cockroachkvs.KeySchema, its full scan and SeekGE/SeekLT results     *)
(*  every event carries n, its number in the file: no observation can be      *)
(*  dropped unnoticed                                                         *)
EXTENDS KeyOrder, Json

Trace == ndJsonDeserialize("trace.ndjson")
VARIABLES l,    \* next trace line
          cnt,  \* events of the current trace file consumed so far (every event carries its number n)
          tab   \* keys of the current cockroach columnar sstable
vars == <<l, cnt, tab>>
Ev == Trace[l]
IsOp(o) == l <= Len(Trace) /\ Trace[l].op = o /\ l' = l + 1
IsN(o) == IsOp(o) /\ Ev.n = cnt + 1 /\ cnt' = cnt + 1
Is(o) == IsN(o) /\ UNCHANGED tab
TraceInit == l = 1 /\ cnt = 0 /\ tab = <<>> /\ TLCSet(1, 0)

Reset == IsOp("reset") /\ cnt' = 0 /\ tab' = <<>>
Note == IsOp("note") /\ UNCHANGED <<cnt, tab>>

Pair == /\ Is("pair") /\ Ev.err = ""
        /\ Comparable(Ev.a, Ev.b)
        \* the predicted order, Equal and Split point
        /\ Ev.cmp = Cmp(Ev.a, Ev.b)
        /\ Ev.eq = Eq(Ev.a, Ev.b)
        /\ Ev.spa = SplitOf(Ev.fam, Ev.a) /\ Ev.spb = SplitOf(Ev.fam, Ev.b)
        \* laws of the real functions among themselves
        /\ Ev.cmpba = -Ev.cmp
        /\ (Ev.eq <=> Ev.cmp = 0)
        \* suffix comparers: the point one is the tie-break of Compare; the range one may only be stricter
        /\ (~Mixed(Ev.a.v, Ev.b.v) =>
              /\ Ev.psfx = VCmp(Ev.a.v, Ev.b.v)
              /\ (VCmp(Ev.a.v, Ev.b.v) # 0 => Ev.rsfx = VCmp(Ev.a.v, Ev.b.v)))
        /\ (Ev.a.v = Ev.b.v => Ev.rsfx = 0)
        /\ Ev.rsfxba = -Ev.rsfx
        \* AbbreviatedKey is order-consistent
        /\ (Ev.abbr < 0 => Cmp(Ev.a, Ev.b) < 0) /\ (Ev.abbr > 0 => Cmp(Ev.a, Ev.b) > 0)

Triple == /\ Is("triple") /\ Ev.err = ""
          /\ Ev.ab = Cmp(Ev.a, Ev.b) /\ Ev.bc = Cmp(Ev.b, Ev.c) /\ Ev.ac = Cmp(Ev.a, Ev.c)
          /\ ((Ev.ab <= 0 /\ Ev.bc <= 0) => Ev.ac <= 0)

(* a <= Separator(a, b) < b for a < b, in the intended order and by the real Compare *)
Sep == /\ Is("sep") /\ Ev.err = ""
       /\ Cmp(Ev.a, Ev.b) < 0
       /\ (Ev.ok => (/\ Cmp(Ev.a, Ev.k) <= 0 /\ Cmp(Ev.k, Ev.b) < 0
                     /\ Ev.ka <= 0 /\ Ev.kb < 0))
Succ == /\ Is("succ") /\ Ev.err = ""
        /\ (Ev.ok => (Cmp(Ev.a, Ev.k) <= 0 /\ Ev.ka <= 0))
(* ImmediateSuccessor(prefix) is the smallest prefix key greater: p.0x00 *)
ISucc == /\ Is("isucc") /\ Ev.err = ""
         /\ Ev.a.v = NoV
         /\ Ev.ok /\ Ev.k = [p |-> Append(Ev.a.p, 0), v |-> NoV]
         /\ Ev.ka < 0 /\ Ev.ksplit

(* ---- the cockroach columnar key schema (cockroachKeyWriter / cockroachKeySeeker) ---- *)
(* table{keys}: the keys handed, in this order, to sstable.RawWriter.Add of a columnar table written with cockroachkvs.KeySchema *)
StrictlySorted(t) == \A i \in 1..(Len(t) - 1) : Cmp(t[i], t[i + 1]) < 0
Table == /\ IsN("table") /\ Ev.err = ""
         /\ StrictlySorted(Ev.keys)
         /\ tab' = Ev.keys
(* scan{res}: First/Next over the table materialises the keys written, up to the comparer's own equivalences *)
(* (the columnar schema stores wall and logical time, not the synthetic byte or the zero-logical length variant) *)
SameKey(x, y) == x.p = y.p /\ Denote(x.v) = Denote(y.v)
SameSeq(s, t) == Len(s) = Len(t) /\ \A i \in DOMAIN s : SameKey(s[i], t[i])
Scan == /\ Is("scan") /\ Ev.err = "" /\ SameSeq(Ev.res, tab)
(* seek{o,k,res}: SeekGE / SeekLT of a universe key lands on the first key >= k / the last key < k in the intended order *)
GEIdx(k) == {i \in DOMAIN tab : Cmp(tab[i], k) >= 0}
LTIdx(k) == {i \in DOMAIN tab : Cmp(tab[i], k) < 0}
MinOf(Sx) == CHOOSE x \in Sx : \A y \in Sx : x <= y
MaxOf(Sx) == CHOOSE x \in Sx : \A y \in Sx : x >= y
Seek == /\ Is("seek") /\ Ev.err = ""
        /\ \A i \in DOMAIN tab : Comparable(tab[i], Ev.k)
        /\ SameSeq(Ev.res, IF Ev.o = "ge"
                     THEN (IF GEIdx(Ev.k) = {} THEN <<>> ELSE <<tab[MinOf(GEIdx(Ev.k))]>>)
                     ELSE (IF LTIdx(Ev.k) = {} THEN <<>> ELSE <<tab[MaxOf(LTIdx(Ev.k))]>>))

TraceNext == Reset \/ Note \/ Pair \/ Triple \/ Sep \/ Succ \/ ISucc \/ Table \/ Scan \/ Seek
TraceSpec == TraceInit /\ [][TraceNext]_vars
HWM == IF l - 1 > TLCGet(1) THEN TLCSet(1, l - 1) ELSE TRUE
TraceAccepted == PrintT(<<"HWM", TLCGet(1)>>) /\ TLCGet(1) = Len(Trace)
=============================================================================
