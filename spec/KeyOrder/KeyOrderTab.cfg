\* exhaustive for tables of <= 3 keys over the small cockroach universe
SPECIFICATION Spec
CONSTANTS
  Bug = "none"
  Alphabet = {0, 97}
  MaxPLen = 1
  W = 1
  L = 1
  MaxKeys = 3
  Emit = FALSE
INVARIANT SeekSane
CHECK_DEADLOCK FALSE
