\* seeded wrong order ZeroLogicalDistinct: must violate LawEqual
SPECIFICATION Spec
CONSTANTS
  Bug = "ZeroLogicalDistinct"
  Fams = {"bytes", "testkeys", "crdb"}
  Alphabet = {0, 97, 255}
  MaxPLen = 1
  W = 2
  L = 1
  TripleFams = {}
  SamePfxFams = {"testkeys", "crdb"}
  Emit = FALSE
INVARIANT LawAntisym
INVARIANT LawEqual
INVARIANT LawSplit1
INVARIANT LawSplit2
INVARIANT LawSplit3
INVARIANT LawTrans
INVARIANT LawImmSucc
CHECK_DEADLOCK FALSE
