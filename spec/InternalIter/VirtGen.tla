------------------------------ MODULE VirtGen ------------------------------
(* Virtual tables and synthetic transforms as filter/map on the list model    *)
(* (C29): design-level check that Virtual(L, vp) has the properties the       *)
(* property statement names, over every small table and every parameter       *)
(* combination permitted by the documented preconditions.                     *)
(*   Add        RawWriter.Add                                                 *)
(*   Choose     manifest.TableMetadata{Virtual bounds, SyntheticPrefixAndSuffix, *)
(*              SyntheticSeqNum} -> sstable.ReadEnv.Virtual / IterTransforms  *)
EXTENDS InternalIter
CONSTANTS MaxN, Seqs
VARIABLES L, vp, phase
vars == <<L, vp, phase>>

Init == L = <<>> /\ vp = NoVirt /\ phase = "build"
Add(k, s) == /\ phase = "build" /\ Len(L) < MaxN
             /\ LET e == <<k, s, 1, Len(L) + 1>> IN CanAdd(L, e) /\ L' = Append(L, e)
             /\ UNCHANGED <<vp, phase>>
(* documented preconditions: synthetic suffix (transforms.go: one key per prefix, *)
(* new suffix sorts before every existing one); synthetic seqnum (ingested tables *)
(* hold at most one version of a user key)                                        *)
SeqPre(sseq) == sseq > 0 => \A i, j \in 1..Len(L) : i # j => L[i][1] # L[j][1]
Choose(vlo, vhi, incl, ssuf, sseq) ==
  /\ phase = "build" /\ (vlo < vhi \/ (incl /\ vlo = vhi))
  /\ (ssuf > 0 => SuffixPre(L, ssuf)) /\ SeqPre(sseq)
  /\ vp' = [vlo |-> vlo, vhi |-> vhi, vhiincl |-> incl, ssuf |-> ssuf, sseq |-> sseq]
  /\ phase' = "virt" /\ UNCHANGED L
Next == \/ \E k \in UKeys, s \in 1..Seqs : Add(k, s)
        \/ \E vlo \in 0..(R - 1), vhi \in 0..R, incl \in BOOLEAN, ssuf \in 0..S, sseq \in {0, Seqs + 1} :
              (incl => vhi < R) /\ Choose(vlo, vhi, incl, ssuf, sseq)
Spec == Init /\ [][Next]_vars

V == Virtual(L, vp)
MKey(e) == IF vp.ssuf > 0 THEN KeyOf(PfxOf(e[1]), vp.ssuf) ELSE e[1]
Span == InBounds(L, vp.vlo, vp.vhi)
Inv == phase = "virt" =>
  /\ Sorted(V)
  /\ \A i \in 1..Len(V) : InVirt(vp, V[i][1])                                  \* only keys inside the virtual bounds
  /\ Len(V) = Cardinality({i \in 1..Len(L) : InVirt(vp, MKey(L[i]))})          \* every key inside them
  /\ (vp.ssuf > 0 => \A i \in 1..Len(V) : SufOf(V[i][1]) = vp.ssuf)            \* exactly the transformed entries
  /\ (vp.sseq > 0 => \A i \in 1..Len(V) : V[i][2] = vp.sseq)
  /\ \A i \in 1..Len(V) : \E j \in 1..Len(L) : /\ PfxOf(V[i][1]) = PfxOf(L[j][1]) /\ V[i][3] = L[j][3] /\ V[i][4] = L[j][4]
                                               /\ (vp.ssuf = 0 => V[i][1] = L[j][1]) /\ (vp.sseq = 0 => V[i][2] = L[j][2])
  /\ Virtual(L, NoVirt) = L
  \* CopySpan: the exact span and the whole input are both acceptable outputs; losing an entry of the span is not
  /\ CopySpanOK(L, Span, vp.vlo, vp.vhi) /\ CopySpanOK(L, L, vp.vlo, vp.vhi)
  /\ (Len(Span) > 0 => ~CopySpanOK(L, Tail(Span), vp.vlo, vp.vhi))
=============================================================================
