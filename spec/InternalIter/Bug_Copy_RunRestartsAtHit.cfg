SPECIFICATION Spec
CONSTANTS
  MaxB = 5
  Sizes = {1, 2, 4}
  Target = 3
  Bug = "RunRestartsAtHit"
INVARIANT Inv
CHECK_DEADLOCK FALSE
