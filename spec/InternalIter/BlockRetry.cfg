SPECIFICATION Spec
CONSTANTS
  N = 5
  Bug = "none"
INVARIANT Inv
CHECK_DEADLOCK FALSE
