SPECIFICATION Spec
CONSTANTS
  N = 5
  Bug = "ErrorNotSticky"
INVARIANT Inv
CHECK_DEADLOCK FALSE
