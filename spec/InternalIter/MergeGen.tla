----------------------------- MODULE MergeGen -----------------------------
(* Multi-level layouts for merged internal iteration (C33).                   *)
(*   Write*      builds the content of NL levels (level 1 = newest), newest   *)
(*               write first; the generator's enabling condition is the LSM   *)
(*               level invariant (version.CheckOrdering / DESIGN C15)         *)
(*   Finish      splits every level into files (range tombstones fragmented   *)
(*               and clipped to their file, as compactions write them) and    *)
(*               opens a mergingIter over one levelIter per level             *)
(*               (db.go: constructPointIter / constructPointIterV2)           *)
(*   Op          one positioning call of mergingIter (merging_iter.go) /      *)
(*               mergingIterV2 (merging_iter_v2.go)                           *)
(*   SetBounds   mergingIter.SetBounds on the same iterator (forwarded to     *)
(*               every levelIter and its open table iterator): reuse          *)
(* Properties: the mechanism's per-level deletion rule (isNextEntryDeleted /  *)
(* isPrevEntryDeleted: a visible tombstone of a higher level deletes, one of  *)
(* the same level only if newer) equals the declarative rule "shadowed by a   *)
(* newer visible tombstone" on every layout satisfying the level invariant.   *)
EXTENDS InternalIter, Json

CONSTANTS NL, MaxW, Kinds, MaxOps, Emit

VARIABLES pts, rds, nw, seq, phase, splits, snap, it, hist, nops
vars == <<pts, rds, nw, seq, phase, splits, snap, it, hist, nops>>

Lv == 1..NL
Init == /\ pts = [i \in Lv |-> {}] /\ rds = [i \in Lv |-> {}] /\ nw = 0 /\ seq = MaxW + 1 /\ phase = "build"
        /\ splits = [i \in Lv |-> 0] /\ snap = MaxW + 2 /\ it = NewIt(0, R) /\ hist = <<>> /\ nops = 0

(* ---- set form of the level invariant (files are a partition of a level) ---- *)
SeqsAtS(Px, T, k) == {e[2] : e \in {x \in Px : x[1] = k}} \cup {t[3] : t \in {x \in T : x[1] <= k /\ k < x[2]}}
LOrder(PP, TT) == \A i, j \in Lv : i < j => \A k \in UKeys :
                      \A si \in SeqsAtS(PP[i], TT[i], k), sj \in SeqsAtS(PP[j], TT[j], k) : si > sj
LDistinct(PP) == \A i, j \in Lv : \A e1 \in PP[i], e2 \in PP[j] : (e1[1] = e2[1] /\ e1[2] = e2[2]) => e1 = e2
Pre(PP, TT) == LDistinct(PP) /\ (Bug = "NoLevelInvariant" \/ LOrder(PP, TT))

(* writes arrive newest first; a write may share the sequence number of the previous *)
(* one (ingested tables give all their keys one sequence number)                     *)
WritePoint(i, k, kd, s) ==
  /\ phase = "build" /\ nw < MaxW /\ s \in {seq, seq - 1} /\ s >= 1
  /\ LET np == [pts EXCEPT ![i] = @ \cup {<<k, s, kd, IF kd \in {0, 7} THEN 0 ELSE nw + 1>>}] IN
       Pre(np, rds) /\ pts' = np
  /\ seq' = s /\ nw' = nw + 1
  /\ UNCHANGED <<rds, phase, splits, snap, it, hist, nops>>
WriteRd(i, a, b, s) ==
  /\ phase = "build" /\ nw < MaxW /\ a < b /\ s \in {seq, seq - 1} /\ s >= 1
  /\ LET nr == [rds EXCEPT ![i] = @ \cup {<<a, b, s>>}] IN Pre(pts, nr) /\ rds' = nr
  /\ seq' = s /\ nw' = nw + 1
  /\ UNCHANGED <<pts, phase, splits, snap, it, hist, nops>>

(* ---- file form ---- *)
RECURSIVE AscSeq(_), DescSeq(_)
AscSeq(Sx) == IF Sx = {} THEN <<>> ELSE LET m == Min(Sx) IN <<m>> \o AscSeq(Sx \ {m})
DescSeq(Sx) == IF Sx = {} THEN <<>> ELSE LET m == Max(Sx) IN <<m>> \o DescSeq(Sx \ {m})
(* keyspan.Fragmenter: split overlapping tombstones at every endpoint *)
Fragment(T) == LET ep == AscSeq({t[1] : t \in T} \cup {t[2] : t \in T})
                   segs == [i \in 1..(Len(ep) - 1) |->
                              <<ep[i], ep[i + 1], DescSeq({t[3] : t \in {x \in T : x[1] <= ep[i] /\ ep[i + 1] <= x[2]}})>>]
               IN SelectSeq(segs, LAMBDA f : Len(f[3]) > 0)
LevelFiles(Pset, T, sp) ==
  LET cuts == IF sp = 0 THEN <<0, R>> ELSE <<0, sp, R>>
      files == [j \in 1..(Len(cuts) - 1) |->
                  [pts |-> SetToSortedSeq({e \in Pset : e[1] >= cuts[j] /\ e[1] < cuts[j + 1]}),
                   rd |-> ClipFrags(Fragment(T), cuts[j], cuts[j + 1])]]
  IN SelectSeq(files, LAMBDA f : Len(f.pts) + Len(f.rd) > 0)
Form(sps) == [i \in Lv |-> LevelFiles(pts[i], rds[i], sps[i])]
Cur == Form(splits)
ML == MergedVisible(Cur, snap)

Finish(sps, sn) ==
  /\ phase = "build" /\ (Emit => nw = MaxW)
  /\ splits' = sps /\ snap' = sn
  /\ phase' = (IF Emit THEN "open" ELSE "done")
  /\ hist' = (IF Emit THEN <<[op |-> "levels", snap |-> sn, levels |-> Form(sps)]>> ELSE <<>>)   \* only generator configs use hist
  /\ UNCHANGED <<pts, rds, nw, seq, nops, it>>
OpenIt(lo, hi) ==
  /\ phase = "open" /\ lo < hi
  /\ it' = NewIt(lo, hi) /\ phase' = "pick"
  /\ hist' = Append(hist, [op |-> "open", h |-> 1, t |-> "pt", lo |-> lo, hi |-> hi])
  /\ UNCHANGED <<pts, rds, nw, seq, splits, snap, nops>>

RelEnabled == \E o \in RelOps : Enabled(it, o, 0)
Pick == /\ phase = "pick" /\ nops < MaxOps
        /\ phase' \in {"abs"} \cup (IF RelEnabled THEN {"rel"} ELSE {}) \cup (IF it.st # "unpos" THEN {"sb"} ELSE {})
        /\ UNCHANGED <<pts, rds, nw, seq, splits, snap, it, hist, nops>>
SetBounds(lo, hi) ==
  /\ phase = "sb" /\ SetBOK(lo, hi)
  /\ it' = SetB(it, lo, hi)
  /\ hist' = Append(hist, [op |-> "setb", h |-> 1, lo |-> lo, hi |-> hi])
  /\ nops' = nops + 1 /\ phase' = "pick"
  /\ UNCHANGED <<pts, rds, nw, seq, splits, snap>>
Op(o, k) ==
  /\ \/ phase = "rel" /\ o \in RelOps
     \/ phase = "abs" /\ o \in AbsOps
  /\ Enabled(it, o, k)
  /\ it' = Step(ML, it, o, k).it
  /\ hist' = Append(hist, [op |-> "it", h |-> 1, o |-> o, k |-> k, f |-> 0])
  /\ nops' = nops + 1 /\ phase' = "pick"
  /\ UNCHANGED <<pts, rds, nw, seq, splits, snap>>

Next == \/ \E i \in Lv, k \in UKeys, kd \in Kinds, s \in 1..(MaxW + 1) : WritePoint(i, k, kd, s)
        \/ \E i \in Lv, a \in UKeys, b \in 1..R, s \in 1..(MaxW + 1) : WriteRd(i, a, b, s)
        \/ \E sps \in [Lv -> {0, R \div 3, R \div 2}], sn \in (IF Emit THEN 1..(MaxW + 2) ELSE {2, MaxW + 1, MaxW + 2}) : Finish(sps, sn)
        \/ \E lo \in 0..(R - 1), hi \in 1..R : OpenIt(lo, hi) \/ SetBounds(lo, hi)
        \/ Pick
        \/ \E o \in {"first", "last", "next", "prev", "nextprefix"} : Op(o, 0)
        \/ \E o \in KeyOps, k \in 0..R : Op(o, k)
Spec == Init /\ [][Next]_vars

--------------------------------------------------------------------------
Done == phase # "build"
(* The invariants are stated over cur = the layout in file form, ms = its merged   *)
(* visible set; Inv binds them once per state (LET values are memoised by TLC).   *)
(* the generated layout satisfies the level invariant in file form *)
LayoutInvOf(cur) == Bug # "NoLevelInvariant" => LevelInvariant(cur)
(* mechanism rule = declarative rule *)
RuleInvOf(cur, ms) == ByLevelSet(cur, snap) = ms
(* stated without the operators the seeded bugs live in *)
WitnessInvOf(cur, ms) ==
  LET ar == AllRds(cur) IN
  \A e \in AllPts(cur) :
     (e \in ms) <=> (e[2] < snap /\ ~\E t \in ar : t[3] < snap /\ t[3] > e[2] /\ t[1] <= e[1] /\ e[1] < t[2])
(* splitting a level into files changes nothing *)
SplitInvOf(ms) == ms = MergedSet(Form([i \in Lv |-> 0]), snap)
SortedInvOf(ms) == Sorted(SetToSortedSeq(ms))
Inv == Done => LET cur == Cur
                   ms == MergedSet(cur, snap)
               IN LayoutInvOf(cur) /\ RuleInvOf(cur, ms) /\ WitnessInvOf(cur, ms) /\ SplitInvOf(ms) /\ SortedInvOf(ms)
LayoutInv == Done => LayoutInvOf(Cur)
RuleInv == Done => RuleInvOf(Cur, MergedSet(Cur, snap))
WitnessInv == Done => WitnessInvOf(Cur, MergedSet(Cur, snap))
SplitInv == Done => SplitInvOf(MergedSet(Cur, snap))
SortedInv == Done => SortedInvOf(MergedSet(Cur, snap))

EmitInv == (Emit /\ phase = "pick" /\ nops = MaxOps) => PrintT(ToJson(hist))
View == <<pts, rds, nw, seq, phase, splits, snap, it>>
=============================================================================
