SPECIFICATION Spec
CONSTANTS
  P = 3
  S = 2
  Bug = "none"
  MaxN = 5
  Seqs = 3
  Kinds = {0, 1, 2}
  MaxOps = 12
  Emit = TRUE
INVARIANT Inv
INVARIANT EmitInv
CHECK_DEADLOCK FALSE
