SPECIFICATION Spec
CONSTANTS
  P = 2
  S = 1
  Bug = "ReuseUpperInclusive"
  MaxN = 2
  Seqs = 1
  Kinds = {1}
  MaxOps = 1000000
  Emit = FALSE
INVARIANT Inv
VIEW View
CHECK_DEADLOCK FALSE
