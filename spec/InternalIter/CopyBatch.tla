------------------------------ MODULE CopyBatch ------------------------------
(* C29, CopySpan clause: "the output contains every entry of the input inside *)
(* the requested span".  CopySpan (sstable/copier.go) does not copy entries   *)
(* but whole data blocks, and it does so through two nested mechanisms whose  *)
(* behaviour depends on dimensions a small table never reaches:               *)
(*   - the block cache: blocks found in the cache are added one by one        *)
(*     (addDataBlock); maximal runs of blocks NOT in the cache are handed to  *)
(*     copyDataBlocks;                                                        *)
(*   - the size of such a run: RawColumnWriter.copyDataBlocks reads a run in  *)
(*     batches of at most Target bytes (readSizeTarget = 256 KiB), always at  *)
(*     least one block per batch.                                             *)
(* This module states the mechanism over block sizes and cache states and     *)
(* checks that every block of the span is copied exactly once, in order, for  *)
(* every input in a small scope.  It names the dimensions the C29 driver has  *)
(* to generate on the real code: runs of cold blocks longer than the read     *)
(* target (once and several times), single blocks larger than the target,     *)
(* runs broken by cache hits.                                                 *)
(*   Copy     the loop of CopySpan over the intersecting index entries        *)
(*   Batches  the loop of RawColumnWriter.copyDataBlocks                      *)
(* Bug = "ExtraIncrement": the batching loop advances once more after every   *)
(* batch (the first block of every batch but the first is dropped).           *)
(* Bug = "RunRestartsAtHit": the run of cold blocks is not reset after a hit. *)
EXTENDS Integers, Sequences, FiniteSets, TLC

CONSTANTS MaxB,    \* at most MaxB data blocks in the table
          Sizes,   \* possible on-disk sizes of a block (trailer included)
          Target,  \* the read size target of one batch
          Bug

VARIABLES sizes,   \* sizes[i]: size of block i
          cached,  \* the blocks present in the block cache
          lo, hi   \* the blocks lo..hi intersect the span
vars == <<sizes, cached, lo, hi>>

RECURSIVE Sum(_, _, _)
Sum(run, i, j) == IF i > j THEN 0 ELSE sizes[run[i]] + Sum(run, i + 1, j)

(* copyDataBlocks(run): for i := 0; i < len(blocks); { start := i; for i++; i < len(blocks) &&   *)
(* end(blocks[i]) - off(blocks[start]) <= readSizeTarget; i++ {}; readAndFlushBlocks(start, i-1) } *)
RECURSIVE Batches(_, _)
Batches(run, i) ==
  IF i > Len(run) THEN <<>>
  ELSE LET fit == {j \in i..Len(run) : \A m \in (i + 1)..j : Sum(run, i, m) <= Target}
           j == CHOOSE x \in fit : \A y \in fit : y <= x
       IN SubSeq(run, i, j) \o Batches(run, IF Bug = "ExtraIncrement" THEN j + 2 ELSE j + 1)
Flush(run) == IF Len(run) = 0 THEN <<>> ELSE Batches(run, 1)

(* CopySpan: cache miss -> the block joins the current run; cache hit -> the run is copied, *)
(* then the cached block is added                                                           *)
RECURSIVE Copy(_, _)
Copy(i, run) ==
  IF i > hi THEN Flush(run)
  ELSE IF i \notin cached THEN Copy(i + 1, Append(run, i))
  ELSE Flush(run) \o <<i>> \o Copy(i + 1, IF Bug = "RunRestartsAtHit" THEN run ELSE <<>>)

Init == /\ \E n \in 1..MaxB : sizes \in [1..n -> Sizes]
        /\ cached \in SUBSET DOMAIN sizes
        /\ lo \in DOMAIN sizes /\ hi \in DOMAIN sizes /\ lo <= hi
Next == UNCHANGED vars
Spec == Init /\ [][Next]_vars

(* every block of the span exactly once, in order *)
Inv == Copy(lo, <<>>) = [i \in 1..(hi - lo + 1) |-> lo + i - 1]
=============================================================================
