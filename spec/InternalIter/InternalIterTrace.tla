------------------------- MODULE InternalIterTrace -------------------------
(* Trace validation of the real sstable writers/readers (C25, C27, C29) and   *)
(* of the real mergingIter/levelIter stack (C33) against InternalIter.        *)
(* The Go drivers only execute and record; every logged result is decided     *)
(* here.  One action per event kind, every event fully logged: the search is  *)
(* a straight line, acceptance = high-water mark of consumed lines.           *)
(*                                                                            *)
(*  table{pts, rd, rk}         the entries/fragments handed to the real       *)
(*                             RawWriter (Add / EncodeSpan) of the next table *)
(*  levels{levels, snap}       the files handed to the real levelIters under  *)
(*                             one mergingIter reading at snapshot snap       *)
(*  virt{vlo,vhi,vhiincl,      the table is read as a virtual table / with    *)
(*       ssuf,sseq}            synthetic suffix / seqnum from now on          *)
(*  open{h, t, lo, hi}         Reader.NewPointIter / NewRawRangeDelIter /     *)
(*                             NewRawRangeKeyIter / newMergingIter            *)
(*  setb{h, lo, hi}            InternalIterator.SetBounds on the open point   *)
(*                             iterator h (the same real iterator is reused)  *)
(*  it{h, o, k, f, res}        one positioning call and what it returned      *)
(*  fit{h, o, k, res}          same for a keyspan.FragmentIterator            *)
(*  copyspan{a, b, warm, out}  CopySpan(table, [a, b)) and the entries read   *)
(*                             back from its output; warm: the keys whose     *)
(*                             blocks were in the block cache (the output may *)
(*                             not depend on it: the field is not consulted)  *)
(*  corrupt{off, pat, open, res}  the table bytes were altered at off; the    *)
(*                             whole script since table{} was re-run; res[i]  *)
(*                             is step i's result, <<-1>> for an error.  The  *)
(*                             scripts keep using an iterator after it has    *)
(*                             reported an error (BlockRetry.tla): the steps  *)
(*                             after an error are held to the same rule       *)
EXTENDS InternalIter, Json

CONSTANTS KeepExp    \* TRUE: remember every step's outcome set for corrupt{} events

Trace == ndJsonDeserialize("trace.ndjson")

VARIABLES l,      \* next trace line
          L,      \* point entries of the current table / merged levels
          FD, FK, \* range-del and range-key fragments of the current table
          vp,     \* virtual/transform parameters in force
          hs,     \* open iterators: id -> [t, list, it]
          exp     \* outcome sets of the steps since table{} (KeepExp only)
vars == <<l, L, FD, FK, vp, hs, exp>>

Ev == Trace[l]
Is(o) == l <= Len(Trace) /\ Trace[l].op = o /\ l' = l + 1
Has(h) == h \in DOMAIN hs
Put(h, r) == hs' = [x \in DOMAIN hs \cup {h} |-> IF x = h THEN r ELSE hs[x]]

TraceInit == /\ l = 1 /\ L = <<>> /\ FD = <<>> /\ FK = <<>> /\ vp = NoVirt /\ hs = <<>> /\ exp = <<>>
             /\ TLCSet(1, 0) /\ TLCSet(2, 0)

Reset == Is("reset") /\ L' = <<>> /\ FD' = <<>> /\ FK' = <<>> /\ vp' = NoVirt /\ hs' = <<>> /\ exp' = <<>>

(* RawWriter.Add x n, EncodeSpan x m, Close *)
Table == /\ Is("table")
         /\ Sorted(Ev.pts) /\ FragsOK(Ev.rd) /\ FragsOK(Ev.rk)
         /\ L' = Ev.pts /\ FD' = Ev.rd /\ FK' = Ev.rk /\ vp' = NoVirt /\ hs' = <<>> /\ exp' = <<>>

(* files of every level -> levelIter per level -> mergingIter *)
Levels == /\ Is("levels")
          /\ LevelInvariant(Ev.levels)
          /\ L' = MergedVisible(Ev.levels, Ev.snap)
          /\ FD' = <<>> /\ FK' = <<>> /\ vp' = NoVirt /\ hs' = <<>> /\ exp' = <<>>

Virt == /\ Is("virt")
        /\ vp' = [vlo |-> Ev.vlo, vhi |-> Ev.vhi, vhiincl |-> Ev.vhiincl, ssuf |-> Ev.ssuf, sseq |-> Ev.sseq]
        /\ (Ev.ssuf > 0 => SuffixPre(L, Ev.ssuf))
        /\ hs' = <<>> /\ UNCHANGED <<L, FD, FK, exp>>

SeqOfFrag(f, sseq) == <<f[1], f[2], [j \in 1..Len(f[3]) |-> <<IF sseq > 0 THEN sseq ELSE f[3][j][1], f[3][j][2],
                                                            IF vp.ssuf > 0 /\ f[3][j][3] > 0 THEN vp.ssuf ELSE f[3][j][3], f[3][j][4]>>]>>
VFrags(F) == LET c == ClipFrags(F, vp.vlo, VUp(vp)) IN [i \in 1..Len(c) |-> SeqOfFrag(c[i], vp.sseq)]
Open == /\ Is("open") /\ ~Has(Ev.h)
        /\ Put(Ev.h, [t |-> Ev.t,
                      list |-> (CASE Ev.t = "pt" -> Virtual(L, vp)
                                  [] Ev.t = "rd" -> VFrags(FD)
                                  [] Ev.t = "rk" -> VFrags(FK)),
                      it |-> (IF Ev.t = "pt" THEN NewItV(Ev.lo, Ev.hi, vp) ELSE NewFt)])
        /\ UNCHANGED <<L, FD, FK, vp, exp>>
Close == /\ Is("close") /\ Has(Ev.h)
         /\ hs' = [x \in DOMAIN hs \ {Ev.h} |-> hs[x]]
         /\ UNCHANGED <<L, FD, FK, vp, exp>>

Remember(out) == exp' = IF KeepExp THEN Append(exp, out) ELSE exp
OOC == PrintT(<<"OOCLINE", l>>) /\ TLCSet(2, TLCGet(2) + 1)

(* the real iterator object is kept and re-bound; the model's iterator is a new one *)
SetBounds == /\ Is("setb") /\ Has(Ev.h) /\ hs[Ev.h].t = "pt"
             /\ (IF SetBOK(Ev.lo, Ev.hi)
                 THEN Put(Ev.h, [hs[Ev.h] EXCEPT !.it = SetBV(hs[Ev.h].it, Ev.lo, Ev.hi, vp)])
                 ELSE (OOC /\ Put(Ev.h, [hs[Ev.h] EXCEPT !.it.st = "undef"])))
             /\ UNCHANGED <<L, FD, FK, vp, exp>>

(* one positioning call on a point iterator.  A call outside the documented     *)
(* caller contract is the generator's fault, not the code's: it is accepted,    *)
(* counted (the run is then inconclusive) and leaves the iterator undefined.    *)
IterOp == /\ Is("it") /\ Has(Ev.h) /\ hs[Ev.h].t = "pt"
          /\ LET h == hs[Ev.h] IN
             IF Enabled(h.it, Ev.o, Ev.k) /\ (Ev.f = 1 => TSUNLegal(h.list, h.it, Ev.o, Ev.k))
             THEN LET r == Step(h.list, h.it, Ev.o, Ev.k) IN
                    /\ Ev.res \in r.out
                    /\ Put(Ev.h, [h EXCEPT !.it = r.it])
                    /\ Remember(r.out)
             ELSE /\ OOC /\ Put(Ev.h, [h EXCEPT !.it.st = "undef"]) /\ Remember({Ev.res})
          /\ UNCHANGED <<L, FD, FK, vp>>

(* the keys of a fragment are compared as a set: their order inside a fragment is an   *)
(* encoding detail (rowblk regroups them; a synthetic seqnum makes trailers equal)     *)
FragMatch(res, f) == IF f = Nil THEN res = Nil
                     ELSE /\ Len(res) = 3 /\ res[1] = f[1] /\ res[2] = f[2]
                          /\ Len(res[3]) = Len(f[3]) /\ ToSet(res[3]) = ToSet(f[3])
FragOp == /\ Is("fit") /\ Has(Ev.h) /\ hs[Ev.h].t \in {"rd", "rk"}
          /\ LET h == hs[Ev.h] IN
             IF FEnabled(h.it, Ev.o)
             THEN LET r == FStep(h.list, h.it, Ev.o, Ev.k) IN
                    /\ \E f \in r.out : FragMatch(Ev.res, f)
                    /\ Put(Ev.h, [h EXCEPT !.it = r.ft])
                    /\ Remember(r.out)
             ELSE /\ OOC /\ Put(Ev.h, [h EXCEPT !.it.st = "unpos"]) /\ Remember({Ev.res})
          /\ UNCHANGED <<L, FD, FK, vp>>

(* C29: CopySpan output holds every input entry inside [a, b) and only input entries *)
CopySpan == /\ Is("copyspan")
            /\ CopySpanOK(L, Ev.out, Ev.a, Ev.b)
            /\ UNCHANGED <<L, FD, FK, vp, hs, exp>>

(* C27: after Corrupt(off, pat) every step returns the model's result or an error; this   *)
(* includes every step made on an iterator after one of its earlier steps returned an     *)
(* error (same call retried, relative step, re-bound and sought again): exp[i] is what    *)
(* the step returns on the unaltered table, whatever happened before it                   *)
Err == <<-1>>
Corrupt == /\ Is("corrupt")
           /\ \/ Ev.open # "ok"
              \/ /\ Len(Ev.res) = Len(exp)
                 /\ \A i \in 1..Len(exp) : Ev.res[i] = Err \/ Ev.res[i] \in exp[i]
           /\ UNCHANGED <<L, FD, FK, vp, hs, exp>>

TraceNext == Reset \/ Table \/ Levels \/ Virt \/ Open \/ Close \/ SetBounds \/ IterOp \/ FragOp \/ CopySpan \/ Corrupt
TraceSpec == TraceInit /\ [][TraceNext]_vars

HWM == IF l - 1 > TLCGet(1) THEN TLCSet(1, l - 1) ELSE TRUE
TraceAccepted == /\ PrintT(<<"OOC", TLCGet(2)>>) /\ PrintT(<<"HWM", TLCGet(1)>>)
                 /\ TLCGet(1) = Len(Trace)
=============================================================================
