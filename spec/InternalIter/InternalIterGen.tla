-------------------------- MODULE InternalIterGen --------------------------
(* The sstable write/read API as a state machine over the list model:         *)
(*   Add(e)      mirrors RawWriter.Add (rowblk_writer.go / colblk_writer.go): *)
(*               entries arrive in strictly increasing internal key order     *)
(*   Finish      mirrors RawWriter.Close + NewReader + Reader.NewPointIter    *)
(*               with bounds [lo, hi)                                         *)
(*   Op(o, k)    mirrors one positioning call of singleLevelIterator /        *)
(*               twoLevelIterator (reader_iter_single_lvl.go, _two_lvl.go),   *)
(*               issued only inside the documented caller contract            *)
(*   SetBounds(lo, hi)  mirrors singleLevelIterator.SetBounds on the same     *)
(*               iterator (reuse: pebble.Iterator.SetBounds, levelIter moving *)
(*               to bounds of the next scan).  Generator configs pick its     *)
(*               shape first: the window moves forward (lo' >= hi: the code's *)
(*               boundsCmp > 0 path that keeps the loaded block), backward    *)
(*               (hi' <= lo: boundsCmp < 0), or anywhere                      *)
(* Used three ways: exhaustive check of the model's own properties            *)
(* (InternalIterGen.cfg), seeded-bug self tests (Bug_*.cfg), and generation   *)
(* of scripts for the Go driver (simulation; hist printed as JSON).           *)
EXTENDS InternalIter, Json

CONSTANTS MaxN,     \* entries per table
          Seqs,     \* sequence numbers 1..Seqs
          Kinds,    \* point kinds (numeric InternalKeyKind)
          MaxOps,   \* positioning calls per behaviour
          Emit      \* TRUE: print complete behaviours (generator configs)

VARIABLES L, it, phase, hist, last, nops, target
vars == <<L, it, phase, hist, last, nops, target>>

NoLast == [o |-> "none", k |-> 0, res |-> Nil, from |-> Nil, fromst |-> "unpos", f |-> FALSE]
(* generator configs fix the table size first and pick the op class (relative /  *)
(* absolute) in a separate step, so that uniform simulation does not drown      *)
(* long tables and Next/Prev under the many seek keys                           *)
Init == /\ L = <<>> /\ it = NewIt(0, R) /\ phase = "build" /\ hist = <<>> /\ last = NoLast /\ nops = 0
        /\ target \in (IF Emit THEN 0..MaxN ELSE {0})

ValOf(kd, n) == IF kd \in {0, 7} THEN 0 ELSE n
Add(k, s, kd) ==
  /\ phase = "build" /\ Len(L) < MaxN /\ (Emit => Len(L) < target)
  /\ LET e == <<k, s, kd, ValOf(kd, Len(L) + 1)>> IN CanAdd(L, e) /\ L' = Append(L, e)
  /\ UNCHANGED <<it, phase, hist, last, nops, target>>

Finish(lo, hi) ==
  /\ phase = "build" /\ lo < hi /\ (Emit => Len(L) = target)
  /\ phase' = (IF Emit THEN "pick" ELSE "iter") /\ it' = NewIt(lo, hi)
  /\ hist' = <<[op |-> "table", pts |-> L, rd |-> <<>>, rk |-> <<>>],
               [op |-> "open", h |-> 1, t |-> "pt", lo |-> lo, hi |-> hi]>>
  /\ UNCHANGED <<L, last, nops, target>>

RelEnabled == \E o \in RelOps : Enabled(it, o, 0)
(* re-bounding is offered once the iterator has been positioned under its bounds *)
Pick == /\ phase = "pick" /\ nops < MaxOps
        /\ phase' \in {"abs"} \cup (IF RelEnabled THEN {"rel"} ELSE {}) \cup (IF it.st # "unpos" THEN {"sb"} ELSE {})
        /\ UNCHANGED <<L, it, hist, last, nops, target>>
PickSB == /\ phase = "sb"
          /\ phase' \in {"sba"} \cup (IF it.hi < R THEN {"sbf"} ELSE {}) \cup (IF it.lo > 0 THEN {"sbb"} ELSE {})
          /\ UNCHANGED <<L, it, hist, last, nops, target>>

SetBounds(lo, hi) ==
  /\ \/ phase = "iter"
     \/ phase = "sba"
     \/ phase = "sbf" /\ lo >= it.hi
     \/ phase = "sbb" /\ hi <= it.lo
  /\ nops < MaxOps
  /\ SetBOK(lo, hi)
  /\ it' = SetB(it, lo, hi)
  /\ last' = NoLast
  /\ hist' = Append(hist, [op |-> "setb", h |-> 1, lo |-> lo, hi |-> hi])
  /\ nops' = nops + 1
  /\ phase' = (IF phase = "iter" THEN "iter" ELSE "pick")
  /\ UNCHANGED <<L, target>>

Op(o, k, f) ==
  /\ \/ phase = "iter"
     \/ phase = "rel" /\ o \in RelOps
     \/ phase = "abs" /\ o \in AbsOps
  /\ nops < MaxOps
  /\ Enabled(it, o, k)
  /\ (f => TSUNLegal(L, it, o, k))
  /\ LET r == Step(L, it, o, k) IN
       /\ it' = r.it
       /\ \E res \in r.out :
            last' = [o |-> o, k |-> k, res |-> res, f |-> f, fromst |-> it.st,
                     from |-> IF it.st = "at" THEN L[it.pos] ELSE Nil]
  /\ hist' = Append(hist, [op |-> "it", h |-> 1, o |-> o, k |-> k, f |-> (IF f THEN 1 ELSE 0)])
  /\ nops' = nops + 1
  /\ phase' = (IF phase = "iter" THEN "iter" ELSE "pick")
  /\ UNCHANGED <<L, target>>

Next == \/ \E k \in UKeys, s \in 1..Seqs, kd \in Kinds : Add(k, s, kd)
        \/ \E lo \in 0..(R - 1), hi \in 1..R : Finish(lo, hi)
        \/ Pick \/ PickSB
        \/ \E lo \in 0..(R - 1), hi \in 1..R : SetBounds(lo, hi)
        \/ \E o \in {"first", "last", "next", "prev", "nextprefix"} : Op(o, 0, FALSE)
        \/ \E o \in KeyOps, k \in 0..R, f \in BOOLEAN : Op(o, k, f)
Spec == Init /\ [][Next]_vars

--------------------------------------------------------------------------
(* Properties of the model itself (C25's clauses in declarative form).       *)
InRange(e) == e[1] >= it.lo /\ e[1] < it.hi
Cands == {L[i] : i \in {j \in 1..Len(L) : InRange(L[j])}}
IsMin(e, Sx) == e \in Sx /\ \A y \in Sx \ {e} : ELess(e, y)
IsMax(e, Sx) == e \in Sx /\ \A y \in Sx \ {e} : ELess(y, e)
MinOrNil(res, Sx) == IF Sx = {} THEN res = Nil ELSE IsMin(res, Sx)
MaxOrNil(res, Sx) == IF Sx = {} THEN res = Nil ELSE IsMax(res, Sx)

(* never outside the bounds, never outside the prefix in prefix mode *)
InBoundsInv == (phase # "build" /\ it.st = "at") => InRange(L[it.pos])
PrefixInv == (phase # "build" /\ it.st = "at" /\ it.pfx >= 0) => PfxOf(L[it.pos][1]) = it.pfx
(* every call returns what its specification in internal/base/iterator.go says *)
ResultInv ==
  CASE last.o = "first" -> MinOrNil(last.res, Cands)
    [] last.o = "last" -> MaxOrNil(last.res, Cands)
    [] last.o = "seekge" -> MinOrNil(last.res, {e \in Cands : e[1] >= last.k})
    [] last.o = "seeklt" -> MaxOrNil(last.res, {e \in Cands : e[1] < last.k})
    [] last.o = "seekprefixge" ->
          LET c == {e \in Cands : e[1] >= last.k} IN
          IF \E e \in c : IsMin(e, c) /\ PfxOf(e[1]) = PfxOf(last.k) THEN IsMin(last.res, c)
          ELSE last.res = Nil \/ IsMin(last.res, c)
    [] last.o = "next" /\ last.fromst = "at" /\ it.pfx < 0 -> MinOrNil(last.res, {e \in Cands : ELess(last.from, e)})
    [] last.o = "next" /\ last.fromst = "at" /\ it.pfx >= 0 ->
          LET c == {e \in Cands : ELess(last.from, e)} IN
          IF \E e \in c : IsMin(e, c) /\ PfxOf(e[1]) = it.pfx THEN IsMin(last.res, c)
          ELSE last.res = Nil \/ IsMin(last.res, c)
    [] last.o = "next" /\ last.fromst = "before" -> MinOrNil(last.res, Cands)
    [] last.o = "prev" /\ last.fromst = "at" -> MaxOrNil(last.res, {e \in Cands : ELess(e, last.from)})
    [] last.o = "prev" /\ last.fromst = "after" -> MaxOrNil(last.res, Cands)
    [] last.o = "nextprefix" -> MinOrNil(last.res, {e \in Cands : PfxOf(e[1]) > PfxOf(last.from[1])})
    [] OTHER -> TRUE

(* a full scan in either direction returns exactly the entries inside the bounds *)
RECURSIVE FwdRest(_, _), BwdRest(_, _)
FwdRest(i, n) == IF i.st # "at" \/ n = 0 THEN <<>> ELSE <<L[i.pos]>> \o FwdRest(Step(L, i, "next", 0).it, n - 1)
BwdRest(i, n) == IF i.st # "at" \/ n = 0 THEN <<>> ELSE <<L[i.pos]>> \o BwdRest(Step(L, i, "prev", 0).it, n - 1)
Rev(s) == [i \in 1..Len(s) |-> s[Len(s) + 1 - i]]
ScanInv == phase # "build" =>
  /\ FwdRest(Step(L, NewIt(it.lo, it.hi), "seekge", it.lo).it, MaxN + 1) = InBounds(L, it.lo, it.hi)
  /\ Rev(BwdRest(Step(L, NewIt(it.lo, it.hi), "seeklt", it.hi).it, MaxN + 1)) = InBounds(L, it.lo, it.hi)
SortedInv == Sorted(L)
Inv == SortedInv /\ InBoundsInv /\ PrefixInv /\ ResultInv /\ ScanInv

(* generator output *)
EmitInv == (Emit /\ phase = "pick" /\ nops = MaxOps) => PrintT(ToJson(hist))
View == <<L, it, phase, last>>
=============================================================================
