----------------------------- MODULE BlockRetry -----------------------------
(* C27, "operations continue on the same iterator after an error".            *)
(*                                                                            *)
(* A table is the key list 1..N cut into data blocks; one block is unreadable *)
(* (its checksum does not match).  The statement: on ONE iterator, used for   *)
(* any sequence of positioning calls, every result is the result of the list  *)
(* model or an error - also the results of the calls made AFTER an error was  *)
(* reported (the same seek retried, a seek elsewhere and back, Next/Prev).    *)
(* A one-shot read of a corrupted table cannot tell a reader that keeps state *)
(* across a failed block load from one that does not; the call sequences of   *)
(* this module can, and the C27 driver replays their shape (anchor in another *)
(* block, seek, the same seek again, a relative step, the seek again, re-bind *)
(* and seek) on the real iterators over every corrupted table.                *)
(*                                                                            *)
(* The mechanism mirrors sstable/reader_iter_single_lvl.go:                   *)
(*   s.ix   index iterator: the block it points at (a block is named by the   *)
(*          index of its last key = its separator), 0 = invalid               *)
(*   s.bh   i.dataBH: the handle recorded by the last loadDataBlock           *)
(*   s.dblk the block whose bytes i.data holds                                *)
(*   s.dpos position of i.data (an index of the list), 0 = not Valid()        *)
(*   s.err  i.err # nil                                                       *)
(*   Load       loadDataBlock   (fast path "already at the block we want")    *)
(*   SkipFwd/SkipBwd  skipForward / skipBackward                              *)
(*   SeekGE/SeekLT/First/Last/Next/Prev   the methods of the same names       *)
(* Bounds, filters and prefix mode are not part of this mechanism model (they *)
(* are in InternalIter.tla, which the real results are compared with).        *)
(* Bug = "StaleBlockKept": a failed block read does not invalidate i.data.    *)
(* Bug = "ErrorNotSticky": Next/Prev after an error step from the old block.  *)
EXTENDS Integers, Sequences, FiniteSets, TLC

CONSTANTS N,     \* the table holds the keys 1..N
          Bug

VARIABLES cuts,  \* the block boundaries: a block ends after key c for c in cuts (and after N)
          bad,   \* the unreadable block (0: none)
          s,     \* the mechanism
          m,     \* the list model's iterator: [st, pos]
          res,   \* what the mechanism returned: a key, Nil or Err
          want   \* what the list model returns
vars == <<cuts, bad, s, m, res, want>>

Nil == 0
Err == -1
Min(Sx) == CHOOSE x \in Sx : \A y \in Sx : x <= y
Max(Sx) == CHOOSE x \in Sx : \A y \in Sx : x >= y
Min2(a, b) == IF a < b THEN a ELSE b
Max2(a, b) == IF a > b THEN a ELSE b

Ends == cuts \cup {N}
BlockOf(i) == Min({e \in Ends : e >= i})
FirstOf(b) == LET lo == {e \in Ends : e < b} IN IF lo = {} THEN 1 ELSE Max(lo) + 1
NextBlk(b) == LET hi == {e \in Ends : e > b} IN IF b = 0 \/ hi = {} THEN 0 ELSE Min(hi)
PrevBlk(b) == LET lo == {e \in Ends : e < b} IN IF b = 0 \/ lo = {} THEN 0 ELSE Max(lo)

(* loadDataBlock: the block at the index position becomes the block of i.data *)
Load(t) ==
  IF t.ix = 0 THEN [s |-> [t EXCEPT !.dpos = 0], ok |-> FALSE]
  ELSE IF t.bh = t.ix /\ t.dpos # 0 THEN [s |-> t, ok |-> TRUE]                 \* "We're already at the data block we want to load"
  ELSE IF t.ix = bad                                                            \* readDataBlock fails
       THEN [s |-> [t EXCEPT !.bh = t.ix, !.err = TRUE,
                             !.dpos = IF Bug = "StaleBlockKept" THEN t.dpos ELSE 0], ok |-> FALSE]
  ELSE [s |-> [t EXCEPT !.bh = t.ix, !.dblk = t.ix, !.dpos = 0], ok |-> TRUE]
Fail(t) == [s |-> t, res |-> IF t.err THEN Err ELSE Nil]
At(t, p) == [s |-> [t EXCEPT !.dpos = p], res |-> p]

SkipFwd(t) == LET l == Load([t EXCEPT !.ix = NextBlk(t.ix), !.dpos = 0])
              IN IF l.ok THEN At(l.s, FirstOf(l.s.dblk)) ELSE Fail(l.s)
SkipBwd(t) == LET l == Load([t EXCEPT !.ix = PrevBlk(t.ix), !.dpos = 0])
              IN IF l.ok THEN At(l.s, l.s.dblk) ELSE Fail(l.s)

(* i.data.SeekGE / SeekLT inside the block that i.data holds *)
InGE(b, k) == IF k <= b THEN Max2(k, FirstOf(b)) ELSE 0
InLT(b, k) == IF FirstOf(b) < k THEN Min2(k - 1, b) ELSE 0

SeekGE(t, k) == LET l == Load([t EXCEPT !.err = FALSE, !.ix = IF k > N THEN 0 ELSE BlockOf(k)])
                IN IF ~l.ok THEN Fail(l.s)
                   ELSE LET p == InGE(l.s.dblk, k) IN IF p # 0 THEN At(l.s, p) ELSE SkipFwd(l.s)
SeekLT(t, k) == LET l == Load([t EXCEPT !.err = FALSE, !.ix = IF k > N THEN N ELSE BlockOf(k)])   \* index.SeekGE, else index.Last
                IN IF ~l.ok THEN Fail(l.s)
                   ELSE LET p == InLT(l.s.dblk, k) IN IF p # 0 THEN At(l.s, p) ELSE SkipBwd(l.s)
First(t) == LET l == Load([t EXCEPT !.err = FALSE, !.ix = Min(Ends)])
            IN IF l.ok THEN At(l.s, FirstOf(l.s.dblk)) ELSE Fail(l.s)
Last(t) == LET l == Load([t EXCEPT !.err = FALSE, !.ix = N])
           IN IF l.ok THEN At(l.s, l.s.dblk) ELSE Fail(l.s)
(* "Once an error is encountered, the iterator must be re-seeked": Next/Prev return nil, Error() stays set *)
Next(t) == IF t.err /\ Bug # "ErrorNotSticky" THEN Fail(t)
           ELSE IF t.dpos # 0 /\ t.dpos < t.dblk THEN At(t, t.dpos + 1) ELSE SkipFwd(t)
Prev(t) == IF t.err /\ Bug # "ErrorNotSticky" THEN Fail(t)
           ELSE IF t.dpos # 0 /\ t.dpos > FirstOf(t.dblk) THEN At(t, t.dpos - 1) ELSE SkipBwd(t)

(* the list model (InternalIter.tla restricted to the list 1..N without bounds) *)
MAt(p) == IF p >= 1 /\ p <= N THEN [m |-> [st |-> "at", pos |-> p], res |-> p]
          ELSE [m |-> [st |-> "out", pos |-> 0], res |-> Nil]
Ops == {"first", "last", "seekge", "seeklt", "next", "prev"}
Enabled(o) == IF o \in {"next", "prev"} THEN m.st = "at" ELSE TRUE
Model(o, k) == CASE o = "first" -> MAt(1)
                 [] o = "last" -> MAt(N)
                 [] o = "seekge" -> MAt(k)
                 [] o = "seeklt" -> MAt(k - 1)
                 [] o = "next" -> MAt(m.pos + 1)
                 [] o = "prev" -> MAt(m.pos - 1)
Mech(o, k) == CASE o = "first" -> First(s)
                [] o = "last" -> Last(s)
                [] o = "seekge" -> SeekGE(s, k)
                [] o = "seeklt" -> SeekLT(s, k)
                [] o = "next" -> Next(s)
                [] o = "prev" -> Prev(s)

Init == /\ cuts \in SUBSET (1..(N - 1))
        /\ bad \in (cuts \cup {N, 0})
        /\ s = [ix |-> 0, bh |-> 0, dblk |-> 0, dpos |-> 0, err |-> FALSE]
        /\ m = [st |-> "unpos", pos |-> 0]
        /\ res = Nil /\ want = Nil
Call(o, k) == /\ Enabled(o)
              /\ LET r == Mech(o, k)
                     w == Model(o, k)
                 IN s' = r.s /\ res' = r.res /\ m' = w.m /\ want' = w.res
              /\ UNCHANGED <<cuts, bad>>
Step == \E o \in Ops, k \in 1..(N + 1) : (o \in {"seekge", "seeklt"} \/ k = 1) /\ Call(o, k)
Spec == Init /\ [][Step]_vars

(* never wrong data: the model's result, or an error (only if a block is unreadable) *)
NeverWrong == res = want \/ (res = Err /\ bad # 0)
(* an error is reported only by a call that needed the unreadable block, or by a relative   *)
(* step after such a call (not vacuous: a mechanism answering Err everywhere is rejected)   *)
NoSpuriousError == res = Err => (s.bh = bad /\ s.err)
Inv == NeverWrong /\ NoSpuriousError
=============================================================================
