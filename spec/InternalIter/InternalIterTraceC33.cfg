SPECIFICATION TraceSpec
CONSTANTS
  P = 4
  S = 2
  Bug = "none"
  KeepExp = FALSE
CONSTRAINT HWM
POSTCONDITION TraceAccepted
CHECK_DEADLOCK FALSE
