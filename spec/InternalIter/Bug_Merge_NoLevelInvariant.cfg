SPECIFICATION Spec
CONSTANTS
  P = 2
  S = 0
  Bug = "NoLevelInvariant"
  NL = 2
  MaxW = 2
  Kinds = {1}
  MaxOps = 0
  Emit = FALSE
INVARIANT Inv
VIEW View
CHECK_DEADLOCK FALSE
