SPECIFICATION TraceSpec
CONSTANTS
  P = 3
  S = 2
  Bug = "none"
  KeepExp = TRUE
CONSTRAINT HWM
POSTCONDITION TraceAccepted
CHECK_DEADLOCK FALSE
