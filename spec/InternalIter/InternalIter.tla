---------------------------- MODULE InternalIter ----------------------------
(* Declarative model of Pebble's *internal* iteration: a table (or a merged   *)
(* set of levels) is a sorted list of internal keys; every positioning call   *)
(* of base.InternalIterator (internal/base/iterator.go) is a function of that *)
(* list, the bounds and the previous position.  Range deletions and range     *)
(* keys are lists of fragments (keyspan.FragmentIterator).  Virtual tables    *)
(* and synthetic prefix/suffix/seqnum are filter/map on the list; merging of  *)
(* levels is a filter (range-deletion shadowing) on the union.                *)
(*                                                                            *)
(* User keys are ranks 0..R-1 in comparer order, R = P*(S+1): rank k is the   *)
(* key with prefix  k \div (S+1)  and inside a prefix first the bare key,     *)
(* then suffixes S, S-1, .., 1 (testkeys order: larger suffix sorts first).   *)
(* R itself is "a key after every key".  The Go drivers own rank<->bytes.     *)
(* An entry is the tuple <<k, seq, kind, v>>: kind is the numeric             *)
(* base.InternalKeyKind, v a value id (0 = the empty value).                  *)
(* Internal key order (base.InternalCompare): user key ascending, then        *)
(* trailer = (seq<<8 | kind) descending.                                      *)
(*                                                                            *)
(* Bug selects one seeded defect for the Bug_*.cfg self tests ("none" else).  *)
EXTENDS Integers, Sequences, FiniteSets, TLC

CONSTANTS P, S, Bug

R == P * (S + 1)
UKeys == 0..(R - 1)
PK(p) == p * (S + 1)
PfxOf(k) == k \div (S + 1)
SufOf(k) == IF k % (S + 1) = 0 THEN 0 ELSE S + 1 - (k % (S + 1))
KeyOf(p, s) == IF s = 0 THEN PK(p) ELSE PK(p) + (S + 1 - s)
Nil == <<>>
Min(Sx) == CHOOSE x \in Sx : \A y \in Sx : x <= y
Max(Sx) == CHOOSE x \in Sx : \A y \in Sx : x >= y
Min2(a, b) == IF a < b THEN a ELSE b
Max2(a, b) == IF a > b THEN a ELSE b
ToSet(s) == {s[i] : i \in DOMAIN s}

--------------------------------------------------------------------------
(* ---- the sorted list ---- *)
ELess(a, b) == \/ a[1] < b[1]
               \/ a[1] = b[1] /\ (a[2] > b[2] \/ (a[2] = b[2] /\ a[3] > b[3]))
Sorted(L) == \A i \in 1..(Len(L) - 1) : ELess(L[i], L[i + 1])
(* what RawWriter.Add demands of its caller (rowblk_writer.go/colblk_writer.go: *)
(* "keys must be added in strictly increasing internal key order")             *)
CanAdd(L, e) == IF Len(L) = 0 THEN TRUE ELSE ELess(L[Len(L)], e)

(* first index whose user key is >= k (Len+1 if none); last index whose user key is < k (0 if none) *)
GEIdx(L, k) == LET c == {i \in 1..Len(L) : L[i][1] >= k} IN IF c = {} THEN Len(L) + 1 ELSE Min(c)
LTIdx(L, k) == LET c == {i \in 1..Len(L) : IF Bug = "SeekLTInclusive" THEN L[i][1] <= k ELSE L[i][1] < k}
               IN IF c = {} THEN 0 ELSE Max(c)

RECURSIVE SetToSortedSeq(_)
SetToSortedSeq(Sx) == IF Sx = {} THEN <<>>
                      ELSE LET m == CHOOSE x \in Sx : \A y \in Sx \ {x} : ELess(x, y)
                           IN <<m>> \o SetToSortedSeq(Sx \ {m})

--------------------------------------------------------------------------
(* ---- point iterator: singleLevelIterator / twoLevelIterator              ---- *)
(* ---- (sstable/reader_iter_single_lvl.go, reader_iter_two_lvl.go), and    ---- *)
(* ---- mergingIter (merging_iter.go) over the merged list                  ---- *)
(* it = [lo, hi, st, pos, pfx, fwd, sk, sko]                                     *)
(*   lo/hi : bounds as ranks; lo = 0 and hi = R mean "no bound"                  *)
(*   st    : "unpos" | "at" (pos is an index of L) | "before" (a reverse call    *)
(*           returned nil) | "after" (a forward call returned nil) | "undef"     *)
(*           (prefix iteration ended: only absolute positioning is allowed)      *)
(*   pfx   : -1, or the prefix of prefix-iteration mode (set by SeekPrefixGE)    *)
(*   fwd   : the last call was a forward call                                    *)
(*   sko/sk: kind and key of the seek that a TrySeekUsingNext flag may refer to  *)
(*   slo/shi: the caller's own bounds.  They differ from lo/hi only over a virtual   *)
(*           table, where lo/hi are the caller's bounds intersected with the table's *)
(*           bounds (VirtualReaderParams.ConstrainBounds): the caller (levelIter)    *)
(*           seeks a file only with keys that do not lie beyond the file's bounds in *)
(*           the direction of the seek                                               *)
(*   rb    : the iterator was re-bound with SetBounds since it was created (used only   *)
(*           by the seeded bug ReuseUpperInclusive: the model itself does not depend on *)
(*           it - reuse of an iterator is not observable)                               *)
NewIt(lo, hi) == [lo |-> lo, hi |-> hi, slo |-> lo, shi |-> hi, st |-> "unpos", pos |-> 0, pfx |-> -1, fwd |-> TRUE, sk |-> 0, sko |-> "none",
                  rb |-> FALSE]

(* InternalIterator.SetBounds(lower, upper) on an iterator that is being reused            *)
(* (singleLevelIterator.SetBounds, mergingIter.SetBounds, levelIter.SetBounds): "the       *)
(* result of Next and Prev will be undefined until the iterator has been repositioned      *)
(* with SeekGE, SeekPrefixGE, SeekLT, First, or Last".  Whatever the implementation keeps  *)
(* across the call (loaded block, boundsCmp for monotonically moving bounds, the file a    *)
(* levelIter has open) must not be observable: the re-bound iterator is a new iterator.    *)
(* TrySeekUsingNext may not refer to a seek made under the previous bounds.                *)
SetBOK(lo, hi) == lo >= 0 /\ hi <= R /\ lo < hi
SetB(it, lo, hi) == [NewIt(lo, hi) EXCEPT !.rb = TRUE]

UpOK(L, it, i) == i <= Len(L) /\ i >= 1 /\ (IF Bug = "UpperInclusive" \/ (Bug = "ReuseUpperInclusive" /\ it.rb)
                                             THEN L[i][1] <= it.hi ELSE L[i][1] < it.hi)
LoOK(L, it, i) == i >= 1 /\ i <= Len(L) /\ (IF Bug = "LowerExclusive" THEN L[i][1] > it.lo ELSE L[i][1] >= it.lo)

FwdTo(L, it, i) == IF UpOK(L, it, i)
                   THEN [it |-> [it EXCEPT !.st = "at", !.pos = i, !.fwd = TRUE], out |-> {L[i]}]
                   ELSE [it |-> [it EXCEPT !.st = "after", !.pos = 0, !.fwd = TRUE], out |-> {Nil}]
BwdTo(L, it, i) == IF LoOK(L, it, i)
                   THEN [it |-> [it EXCEPT !.st = "at", !.pos = i, !.fwd = FALSE], out |-> {L[i]}]
                   ELSE [it |-> [it EXCEPT !.st = "before", !.pos = 0, !.fwd = FALSE], out |-> {Nil}]
(* prefix iteration: a key of the prefix must be returned exactly; once the      *)
(* prefix is exhausted the iterator may return nil (bloom filter, strict prefix  *)
(* iteration) or the next key of another prefix ("the iterator may return keys   *)
(* not matching the prefix")                                                     *)
PfxTo(L, it, i, p) ==
  IF UpOK(L, it, i) /\ (PfxOf(L[i][1]) = p \/ Bug = "PrefixNoCheck")
  THEN [it |-> [it EXCEPT !.st = "at", !.pos = i, !.pfx = p, !.fwd = TRUE], out |-> {L[i]}]
  ELSE [it |-> [it EXCEPT !.st = "undef", !.pos = 0, !.pfx = p, !.fwd = TRUE],
        out |-> {Nil} \cup (IF UpOK(L, it, i) THEN {L[i]} ELSE {})]

AbsOps == {"first", "last", "seekge", "seeklt", "seekprefixge"}
RelOps == {"next", "prev", "nextprefix"}
KeyOps == {"seekge", "seeklt", "seekprefixge"}

(* the documented caller contract of base.InternalIterator *)
Enabled(it, o, k) ==
  CASE o = "first" -> it.slo = 0
    [] o = "last" -> it.shi = R
    [] o = "seekge" -> k >= it.slo /\ k <= it.hi
    [] o = "seekprefixge" -> k >= it.slo /\ k <= it.hi /\ k < R
    [] o = "seeklt" -> k >= it.lo /\ k <= it.shi
    [] o = "next" -> (it.pfx < 0 /\ it.st \in {"at", "before"}) \/ (it.pfx >= 0 /\ it.st = "at")
    [] o = "prev" -> it.pfx < 0 /\ it.st \in {"at", "after"}
    [] o = "nextprefix" -> it.pfx < 0 /\ it.st = "at" /\ it.fwd
    [] OTHER -> FALSE

Step(L, it, o, k) ==
  LET a == [it EXCEPT !.pfx = -1, !.sko = (IF o \in {"seekge", "seekprefixge"} THEN o ELSE "none"), !.sk = k]
      r == [it EXCEPT !.sko = (IF o = "next" THEN it.sko ELSE "none")]
  IN CASE o = "first" -> FwdTo(L, a, GEIdx(L, a.lo))
       [] o = "last" -> BwdTo(L, a, LTIdx(L, a.hi))
       [] o = "seekge" -> FwdTo(L, a, GEIdx(L, Max2(k, a.lo)))
       [] o = "seeklt" -> BwdTo(L, a, LTIdx(L, Min2(k, a.hi)))
       [] o = "seekprefixge" -> PfxTo(L, a, GEIdx(L, Max2(k, a.lo)), PfxOf(k))
       [] o = "next" -> IF r.pfx >= 0 THEN PfxTo(L, r, r.pos + 1, r.pfx)
                        ELSE IF r.st = "before" THEN FwdTo(L, r, GEIdx(L, r.lo))
                        ELSE FwdTo(L, r, r.pos + 1)
       [] o = "prev" -> IF r.st = "after" THEN BwdTo(L, r, LTIdx(L, r.hi)) ELSE BwdTo(L, r, r.pos - 1)
       \* Prev is documented as valid after a SeekGE or Next that returned nil, not after an
       \* exhausted NextPrefix (its succKey may lie beyond the upper bound): only absolute
       \* positioning is allowed then
       [] o = "nextprefix" -> LET q == FwdTo(L, r, GEIdx(L, IF Bug = "NextPrefixOffByOne" THEN L[r.pos][1] + 1
                                                             ELSE PK(PfxOf(L[r.pos][1]) + 1)))
                              IN IF q.it.st = "after" THEN [it |-> [q.it EXCEPT !.st = "undef"], out |-> q.out] ELSE q

(* base.SeekGEFlags.TrySeekUsingNext may be passed iff the caller did nothing    *)
(* that moved the iterator beyond the first key an honest seek would find        *)
TSUNLegal(L, it, o, k) ==
  /\ o \in {"seekge", "seekprefixge"} /\ it.sko = o /\ k >= it.sk
  /\ \/ it.st = "after" /\ ~UpOK(L, it, GEIdx(L, Max2(k, it.lo)))    \* exhausted, and the honest seek finds nothing either
     \/ it.st = "at" /\ GEIdx(L, Max2(k, it.lo)) >= it.pos

(* the entries inside [lo, hi): what a full scan must return, in both directions *)
InBounds(L, lo, hi) == SelectSeq(L, LAMBDA e : e[1] >= lo /\ e[1] < hi)

--------------------------------------------------------------------------
(* ---- fragment iterators: keyspan.FragmentIterator over the range-del or  ---- *)
(* ---- range-key block (rowblk.NewFragmentIter / colblk.NewKeyspanIter)    ---- *)
(* a fragment is <<a, b, keys>>, keys a sequence of <<seq, kind, suffix, v>>     *)
(* in trailer-descending order; fragments are non-empty, ordered, disjoint       *)
FragsOK(F) == /\ \A i \in 1..Len(F) : F[i][1] < F[i][2] /\ Len(F[i][3]) > 0
              /\ \A i \in 1..(Len(F) - 1) : F[i][2] <= F[i + 1][1]
SpGE(F, k) == LET c == {i \in 1..Len(F) : F[i][2] > k} IN IF c = {} THEN Len(F) + 1 ELSE Min(c)
SpLT(F, k) == LET c == {i \in 1..Len(F) : F[i][1] < k} IN IF c = {} THEN 0 ELSE Max(c)
NewFt == [st |-> "unpos", pos |-> 0]
FEnabled(ft, o) == CASE o = "next" -> ft.st \in {"at", "before"}
                     [] o = "prev" -> ft.st \in {"at", "after"}
                     [] OTHER -> TRUE
FLand(F, i, fwd) == IF i >= 1 /\ i <= Len(F) THEN [ft |-> [st |-> "at", pos |-> i], out |-> {F[i]}]
                    ELSE [ft |-> [st |-> (IF fwd THEN "after" ELSE "before"), pos |-> 0], out |-> {Nil}]
FStep(F, ft, o, k) ==
  CASE o = "first" -> FLand(F, 1, TRUE)
    [] o = "last" -> FLand(F, Len(F), FALSE)
    [] o = "seekge" -> FLand(F, SpGE(F, k), TRUE)
    [] o = "seeklt" -> FLand(F, SpLT(F, k), FALSE)
    [] o = "next" -> IF ft.st = "before" THEN FLand(F, 1, TRUE) ELSE FLand(F, ft.pos + 1, TRUE)
    [] o = "prev" -> IF ft.st = "after" THEN FLand(F, Len(F), FALSE) ELSE FLand(F, ft.pos - 1, FALSE)

(* keyspan.Truncate to [lo, hi) *)
ClipFrag(f, lo, hi) == <<Max2(f[1], lo), Min2(f[2], hi), f[3]>>
RECURSIVE ClipFrags(_, _, _)
ClipFrags(F, lo, hi) == IF Len(F) = 0 THEN <<>>
                        ELSE LET c == ClipFrag(F[1], lo, hi)
                             IN (IF c[1] < c[2] THEN <<c>> ELSE <<>>) \o ClipFrags(Tail(F), lo, hi)

--------------------------------------------------------------------------
(* ---- virtual tables and synthetic transforms (sstable/virtual,           ---- *)
(* ---- sstable/blockiter/transforms.go, manifest.TableMetadata)            ---- *)
(* vp = [vlo, vhi, vhiincl, ssuf, sseq]                                          *)
(*   [vlo, vhi) or [vlo, vhi] : virtual bounds (user key ranks)                  *)
(*   ssuf : 0 or the synthetic suffix (precondition: one key per prefix, the     *)
(*          new suffix sorts before every existing suffix of its prefix)         *)
(*   sseq : 0 or the synthetic sequence number                                   *)
(* A synthetic *prefix* is a monotone bijection of user keys: it is the identity *)
(* on ranks; the driver applies and strips the bytes.                            *)
NoVirt == [vlo |-> 0, vhi |-> R, vhiincl |-> FALSE, ssuf |-> 0, sseq |-> 0]
InVirt(vp, k) == k >= vp.vlo /\ (k < vp.vhi \/ (vp.vhiincl /\ k = vp.vhi))
MapEntry(vp, e) == <<IF vp.ssuf > 0 /\ Bug # "SuffixNotApplied" THEN KeyOf(PfxOf(e[1]), vp.ssuf) ELSE e[1],
                     IF vp.sseq > 0 THEN vp.sseq ELSE e[2], e[3], e[4]>>
RECURSIVE MapSeq(_, _)
MapSeq(vp, L) == IF Len(L) = 0 THEN <<>> ELSE <<MapEntry(vp, L[1])>> \o MapSeq(vp, Tail(L))
(* filter by the virtual bounds on the *physical* keys' transformed form: the    *)
(* bounds of a virtual table are expressed in logical (transformed) keys         *)
Virtual(L, vp) == SelectSeq(MapSeq(vp, L), LAMBDA e : InVirt(vp, e[1])
                                                      \/ (Bug = "VirtLowerIgnored" /\ e[1] < vp.vhi))
(* documented preconditions of a synthetic suffix *)
SuffixPre(L, ssuf) == /\ \A i, j \in 1..Len(L) : i # j => PfxOf(L[i][1]) # PfxOf(L[j][1])
                      /\ \A i \in 1..Len(L) : SufOf(L[i][1]) > 0 /\ SufOf(L[i][1]) < ssuf
(* the iterator bounds an sstable iterator effectively uses over a virtual table *)
(* (VirtualReaderParams.ConstrainBounds); an inclusive upper bound is rank + 1   *)
VUp(vp) == IF vp.vhiincl THEN vp.vhi + 1 ELSE vp.vhi
NewItV(lo, hi, vp) == [NewIt(Max2(lo, vp.vlo), Min2(hi, VUp(vp))) EXCEPT !.slo = lo, !.shi = hi]
(* SetBounds on an iterator over a virtual table constrains the new bounds the same way *)
SetBV(it, lo, hi, vp) == [NewItV(lo, hi, vp) EXCEPT !.rb = TRUE]

(* CopySpan (sstable/copier.go): output contains every input entry inside the    *)
(* span and only input entries, in order                                         *)
RECURSIVE IsSubSeq(_, _)
IsSubSeq(A, B) == IF Len(A) = 0 THEN TRUE ELSE IF Len(B) = 0 THEN FALSE
                  ELSE IF A[1] = B[1] THEN IsSubSeq(Tail(A), Tail(B)) ELSE IsSubSeq(A, Tail(B))
CopySpanOK(In, Out, a, b) == /\ IsSubSeq(Out, In)
                             /\ IsSubSeq(InBounds(In, a, b), Out)

--------------------------------------------------------------------------
(* ---- merged iteration over levels (merging_iter.go, level_iter.go)       ---- *)
(* levels: sequence (newest first) of levels; a level: sequence of files in key  *)
(* order; a file: [pts |-> sorted entries, rd |-> fragments <<a, b, <<seq>>>>]   *)
(* with one seqnum list per fragment (trailer-descending)                        *)
FilePts(f) == ToSet(f.pts)
FileRds(f) == UNION {{<<f.rd[i][1], f.rd[i][2], f.rd[i][3][j]>> : j \in 1..Len(f.rd[i][3])} : i \in 1..Len(f.rd)}
LevelPts(lv) == UNION {FilePts(lv[i]) : i \in 1..Len(lv)}
LevelRds(lv) == UNION {FileRds(lv[i]) : i \in 1..Len(lv)}
AllPts(levels) == UNION {LevelPts(levels[i]) : i \in 1..Len(levels)}
AllRds(levels) == UNION {LevelRds(levels[i]) : i \in 1..Len(levels)}
(* a range tombstone t = <<a, b, seq>> visible at snap shadows older keys in [a,b) *)
Shadows(t, e, snap) == /\ t[3] < snap /\ t[1] <= e[1] /\ e[1] < t[2]
                       /\ (IF Bug = "RangeDelLE" THEN t[3] >= e[2] ELSE t[3] > e[2])
(* mergingIter.findNextEntry/findPrevEntry also skip keys invisible at snap (InternalKV.Visible) *)
VisibleAt(e, snap) == Bug = "SnapshotIgnored" \/ e[2] < snap
MergedSet(levels, snap) == {e \in AllPts(levels) : VisibleAt(e, snap) /\ ~\E t \in AllRds(levels) : Shadows(t, e, snap)}
MergedVisible(levels, snap) == SetToSortedSeq(MergedSet(levels, snap))

(* the mechanism's own rule (mergingIter.isNextEntryDeleted / isPrevEntryDeleted): *)
(* a key of level j is deleted by a tombstone of a *higher* level i < j when the   *)
(* tombstone is visible, and by a tombstone of its own level when the tombstone    *)
(* is visible and newer than the key                                               *)
(* The mechanism sees a level's tombstones as fragments (keyspan.Span with several   *)
(* keys, newest first): Span.VisibleAt(snap) = some key is visible; Span.CoversAt(snap, *)
(* seq) = the newest *visible* key is newer than seq.  Bug CoversNewest compares with   *)
(* the newest key whether visible or not (Span.Covers).                                 *)
LevelFrags(lv) == UNION {{lv[a].rd[i] : i \in 1..Len(lv[a].rd)} : a \in 1..Len(lv)}
SpanHas(f, k) == f[1] <= k /\ k < f[2]
SpanVisibleAt(f, snap) == \E i \in 1..Len(f[3]) : f[3][i] < snap
SpanCoversAt(f, snap, s) == \E i \in 1..Len(f[3]) : f[3][i] < snap /\ f[3][i] > s
SpanCovers(f, s) == f[3][1] > s
ByLevelSet(levels, snap) ==
  UNION {{e \in LevelPts(levels[j]) : VisibleAt(e, snap) /\
            ~ \/ \E i \in 1..(j - 1) : \E f \in LevelFrags(levels[i]) : SpanHas(f, e[1]) /\ SpanVisibleAt(f, snap)
              \/ \E f \in LevelFrags(levels[j]) : /\ SpanHas(f, e[1]) /\ SpanVisibleAt(f, snap)
                                                     /\ (IF Bug = "CoversNewest" THEN SpanCovers(f, e[2])
                                                         ELSE SpanCoversAt(f, snap, e[2]))} : j \in 1..Len(levels)}

(* LSM level invariant (internal/manifest: CheckOrdering / the "level invariant"   *)
(* of DESIGN C15) on this input form: files of a level are ordered and disjoint;   *)
(* for every user key, what a higher level holds about it (points and tombstones)  *)
(* is newer than what lower levels hold                                            *)
FileLo(f) == Min({e[1] : e \in FilePts(f)} \cup {t[1] : t \in FileRds(f)})
FileHiX(f) == Max({e[1] + 1 : e \in FilePts(f)} \cup {t[2] : t \in FileRds(f)})
FileNonEmpty(f) == Len(f.pts) + Len(f.rd) > 0
SeqsAt(lv, k) == {e[2] : e \in {x \in LevelPts(lv) : x[1] = k}} \cup {t[3] : t \in {x \in LevelRds(lv) : x[1] <= k /\ k < x[2]}}
LevelInvariant(levels) ==
  /\ \A i \in 1..Len(levels) : \A a \in 1..Len(levels[i]) :
        /\ FileNonEmpty(levels[i][a]) /\ Sorted(levels[i][a].pts) /\ FragsOK(levels[i][a].rd)
        /\ a < Len(levels[i]) => FileHiX(levels[i][a]) <= FileLo(levels[i][a + 1])
  /\ \A i, j \in 1..Len(levels) : i < j => \A k \in UKeys :
        \A si \in SeqsAt(levels[i], k), sj \in SeqsAt(levels[j], k) : si > sj
  /\ \A e1, e2 \in AllPts(levels) : (e1[1] = e2[1] /\ e1[2] = e2[2]) => e1 = e2
=============================================================================
