SPECIFICATION Spec
CONSTANTS
  P = 2
  S = 0
  Bug = "CoversNewest"
  NL = 1
  MaxW = 3
  Kinds = {1}
  MaxOps = 0
  Emit = FALSE
INVARIANT Inv
VIEW View
CHECK_DEADLOCK FALSE
