SPECIFICATION Spec
CONSTANTS
  P = 2
  S = 1
  Bug = "NextPrefixOffByOne"
  MaxN = 3
  Seqs = 2
  Kinds = {0, 1}
  MaxOps = 1000000
  Emit = FALSE
INVARIANT Inv
VIEW View
CHECK_DEADLOCK FALSE
