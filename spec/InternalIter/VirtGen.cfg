SPECIFICATION Spec
CONSTANTS
  P = 2
  S = 2
  Bug = "none"
  MaxN = 3
  Seqs = 2
INVARIANT Inv
CHECK_DEADLOCK FALSE
