SPECIFICATION Spec
CONSTANTS
  N = 5
  Bug = "StaleBlockKept"
INVARIANT Inv
CHECK_DEADLOCK FALSE
