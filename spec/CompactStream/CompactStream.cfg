\* exhaustive small scope: 2 user keys, seqnums 1..3, all point kinds, <= 1 range deletion,
\* <= 1 range key, snapshot subsets of {2,3}, every elision / bottommost configuration
SPECIFICATION Spec
CONSTANTS
  NK = 2
  N = 3
  NSfx = 2
  MaxPts = 3
  MaxRD = 1
  MaxRK = 0
  Kinds = {0, 1, 2, 7, 18, 23}
  DszCls = {1, 2}
  SnapSet = {2, 3}
  BugMode = "none"
  Emit = FALSE
INVARIANT Inv
INVARIANT Inv2
INVARIANT EmitInv
CHECK_DEADLOCK FALSE
