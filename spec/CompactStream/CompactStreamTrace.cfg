SPECIFICATION TraceSpec
CONSTANTS
  NK = 3
  N = 6
  NSfx = 2
  MaxPts = 0
  MaxRD = 0
  MaxRK = 0
  Kinds = {}
  DszCls = {}
  SnapSet = {}
  BugMode = "none"
  Emit = FALSE
CONSTRAINT HWM
POSTCONDITION TraceAccepted
CHECK_DEADLOCK FALSE
