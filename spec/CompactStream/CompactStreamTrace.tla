------------------------- MODULE CompactStreamTrace -------------------------
(* C17 binding: every case of the trace is an input fed to the real          *)
(* compact.Iter (line "in") and what it emitted (line "out").  TLC decides    *)
(* Pre(in) (contract admissibility) and Compacted(in, out).                   *)
(* A case whose input is not admissible is vacuous (counted in TLCGet(2));    *)
(* inputs that TLC itself generated carry must = TRUE and have to be          *)
(* admissible.                                                                *)
EXTENDS CompactStream

Trace == ndJsonDeserialize("trace.ndjson")
VARIABLES l, cur, adm
tvars == <<l, cur, adm, ch, rds, rks, ph, conf>>
None == [none |-> TRUE]
Ev == Trace[l]

TraceInit == l = 1 /\ cur = None /\ adm = FALSE /\ Init /\ TLCSet(1, 0) /\ TLCSet(2, 0)
In == /\ l <= Len(Trace) /\ Ev.op = "in" /\ cur = None
      /\ cur' = Ev.c /\ adm' = Pre(Ev.c) /\ l' = l + 1
      /\ (Ev.must => adm')
      /\ UNCHANGED vars
Out == /\ l <= Len(Trace) /\ Ev.op = "out" /\ cur # None
       /\ ((adm => Compacted(cur, Ev.o)) = TRUE)
       /\ (IF adm THEN TRUE ELSE TLCSet(2, TLCGet(2) + 1))
       /\ cur' = None /\ adm' = FALSE /\ l' = l + 1
       /\ UNCHANGED vars
TraceNext == In \/ Out
TraceSpec == TraceInit /\ [][TraceNext]_tvars

HWM == IF l - 1 > TLCGet(1) THEN TLCSet(1, l - 1) ELSE TRUE
TraceAccepted == PrintT(<<"HWM", TLCGet(1)>>) /\ PrintT(<<"VACUOUS", TLCGet(2)>>) /\ TLCGet(1) = Len(Trace)
=============================================================================
