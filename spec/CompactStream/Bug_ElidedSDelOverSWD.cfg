\* seeded bug of SpecCompact: ElidedSDelOverSWD (an elided SINGLEDEL consumes a SETWITHDEL like a plain SET:
\* older versions beneath the collapsed DEL are resurrected) -- TLC must find Inv violated
SPECIFICATION Spec
CONSTANTS
  NK = 1
  N = 3
  NSfx = 1
  MaxPts = 3
  MaxRD = 0
  MaxRK = 0
  Kinds = {0, 1, 7, 18}
  DszCls = {1}
  SnapSet = {2, 3}
  BugMode = "ElidedSDelOverSWD"
  Emit = FALSE
INVARIANT Inv
CHECK_DEADLOCK FALSE
