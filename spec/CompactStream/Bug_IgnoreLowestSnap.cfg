\* seeded bug of SpecCompact: IgnoreLowestSnap -- TLC must find Inv violated
SPECIFICATION Spec
CONSTANTS
  NK = 1
  N = 3
  NSfx = 1
  MaxPts = 3
  MaxRD = 0
  MaxRK = 0
  Kinds = {0, 1, 2}
  DszCls = {1}
  SnapSet = {2, 3}
  BugMode = "IgnoreLowestSnap"
  Emit = FALSE
INVARIANT Inv
CHECK_DEADLOCK FALSE
