--------------------------- MODULE CompactStream ---------------------------
(* C17.  A compaction input is a sorted stream of internal keys (points,     *)
(* range deletions, range keys) plus the compaction's configuration          *)
(* (snapshots, tombstone elision, bottommost flag).  Restricted to seqnums   *)
(* visible at a view s, a stream denotes for every user key a TRANSFORMER    *)
(* of whatever lies in lower levels:                                         *)
(*    SET v -> const v      DEL/DELSIZED/SINGLEDEL/covering RANGEDEL ->      *)
(*    const absent          MERGE m -> below \o m         nothing -> id      *)
(*    SETWITHDEL v -> const v: the kind an earlier flush/compaction wrote     *)
(*    when a SET landed on a DEL of its stripe; later compactions receive it  *)
(*    as INPUT with arbitrary older versions (live SETs included) beneath it, *)
(*    in the same stream or in the lower levels: it closes a SINGLEDEL's W1   *)
(*    region like a DEL, and a SINGLEDEL above it is const absent for all of  *)
(*    them.                                                                   *)
(* Compacted(in, out) says: out and in are equal as transformers of every    *)
(* contract-admissible lower state at every snapshot and at latest, out is   *)
(* strictly ordered, seqnums are zeroed only in the bottom stripe, and       *)
(* tombstones disappear only where elision is allowed.                       *)
(*                                                                           *)
(* The module is generator and oracle:                                       *)
(*   - Compacted/Pre are the oracle used by CompactStreamTrace on the        *)
(*     outputs of the real compact.Iter (internal/compact/iterator.go,       *)
(*     spans.go, tombstone_elision.go, snapshots.go);                        *)
(*   - the state machine below enumerates inputs (AddPt/AddRd/AddRk/Finish)  *)
(*     and, when Emit, prints every contract-admissible complete input as    *)
(*     JSON for the Go driver;                                               *)
(*   - SpecCompact is the reference compaction (what LSM.tla's               *)
(*     PickAndCompact uses); Inv checks Compacted(in, SpecCompact(in)) on    *)
(*     every enumerated input; BugMode switches on known-bad variants.       *)
EXTENDS Integers, Sequences, FiniteSets, TLC, Json

CONSTANTS NK,      \* user keys 0..NK-1 (span bounds 0..NK)
          N,       \* sequence numbers 1..N
          NSfx,    \* range-key suffixes 0..NSfx-1
          MaxPts, MaxRD, MaxRK,  \* at most that many points / range dels / range keys
          Kinds,   \* point kinds the generator uses
          DszCls,  \* size classes of generated DELSIZED (0 none, 1 exact, 2 wrong)
          SnapSet, \* snapshot seqnums the generator draws subsets from
          BugMode, \* "none" or the name of a seeded bug of SpecCompact
          Emit     \* print every admissible complete input

(* internal key kinds, numbered as in internal/base/internal.go *)
KDel == 0   KSet == 1   KMerge == 2   KSDel == 7   KRangeDel == 15   KSWD == 18
KRkDel == 19   KRkUnset == 20   KRkSet == 21   KDSz == 23
PointKinds == {KDel, KSet, KMerge, KSDel, KSWD, KDSz}
Tomb(t) == t \in {KDel, KSDel, KDSz}
IsSetK(t) == t \in {KSet, KSWD}

Keys == 0..(NK - 1)
Sfx == 0..(NSfx - 1)
Inf == 100000
MarkSeq == 999         \* span markers are logged with this seqnum (SeqNumMax)
Absent == <<>>         \* a value is a non-empty sequence of operand ids
B == 77                \* id of "some value in a lower level"
ToSet(s) == {s[i] : i \in DOMAIN s}

(* ------------------------------------------------------------------------ *)
(* A stream st has st.pts (sequence of [k, s, t, v]), st.rds (sequence of    *)
(* [a, b, ss]: range deletion fragment [a,b) with seqnums ss), st.rks        *)
(* (sequence of [a, b, ks]: range-key fragment with keys [s, t, x, v]).      *)
(* ------------------------------------------------------------------------ *)
RdAt(st, k, q) == \E i \in DOMAIN st.rds :
                     /\ st.rds[i].a <= k /\ k < st.rds[i].b
                     /\ \E j \in DOMAIN st.rds[i].ss : st.rds[i].ss[j] = q
PtAt(st, k, q) == {i \in DOMAIN st.pts : st.pts[i].k = k /\ st.pts[i].s = q}
ApplyPt(e, acc) == IF IsSetK(e.t) THEN e.v ELSE IF e.t = KMerge THEN acc \o e.v ELSE Absent

(* Accs(st, k, below)[v] = value of user key k at view v (sees seq < v; zeroed seqnums always) above the *)
(* lower state `below`, for v = 1..N+1 (N+1 = latest); one ascending pass over the seqnums.              *)
(* KPts / KRds: (indices of) the points of user key k and the seqnums of the range deletions covering it *)
KPts(st, k) == {i \in DOMAIN st.pts : st.pts[i].k = k}
KRds(st, k) == {q \in 0..N : RdAt(st, k, q)}
Step(pts, kp, kr, q, acc) ==
  LET a1 == IF q \in kr THEN Absent ELSE acc   \* a RANGEDEL#q deletes seq < q, not the point at q
      ps == {i \in kp : pts[i].s = q}
  IN IF ps = {} THEN a1 ELSE ApplyPt(pts[CHOOSE i \in ps : TRUE], a1)
RECURSIVE AccsR(_, _, _, _, _, _)
AccsR(pts, kp, kr, q, acc, res) ==
  IF q > N THEN res
  ELSE LET a2 == Step(pts, kp, kr, q, acc) IN AccsR(pts, kp, kr, q + 1, a2, Append(res, a2))
Accs(st, k, below) == AccsR(st.pts, KPts(st, k), KRds(st, k), 0, below, <<>>)
Eval(st, k, s, below) == Accs(st, k, below)[IF s > N THEN N + 1 ELSE s]

(* range keys covering user key k: the concatenated key lists of the covering fragments *)
RECURSIVE RkCoverR(_, _, _)
RkCoverR(rk, k, i) == IF i > Len(rk) THEN <<>>
                      ELSE (IF rk[i].a <= k /\ k < rk[i].b THEN rk[i].ks ELSE <<>>) \o RkCoverR(rk, k, i + 1)
RkCover(st, k) == RkCoverR(st.rks, k, 1)
RkAt(st, k, q) == {kk \in ToSet(RkCover(st, k)) : kk.s = q}
RkStep(cov, x, q, acc) ==
  LET a1 == IF \E i \in DOMAIN cov : cov[i].s = q /\ cov[i].t = KRkDel THEN Absent ELSE acc
      mine == {i \in DOMAIN cov : cov[i].s = q /\ cov[i].t # KRkDel /\ cov[i].x = x}
  IN IF mine = {} THEN a1
     ELSE LET kk == cov[CHOOSE i \in mine : TRUE] IN IF kk.t = KRkSet THEN kk.v ELSE Absent
RECURSIVE RkAccsR(_, _, _, _, _)
RkAccsR(cov, x, q, acc, res) ==
  IF q > N THEN res
  ELSE LET a2 == RkStep(cov, x, q, acc) IN RkAccsR(cov, x, q + 1, a2, Append(res, a2))
RkAccs(st, k, x, below) == RkAccsR(RkCover(st, k), x, 0, below, <<>>)
RkEval(st, k, x, s, below) == RkAccs(st, k, x, below)[IF s > N THEN N + 1 ELSE s]

(* ------------------------------------------------------------------------ *)
(* Preconditions (the documented contracts)                                  *)
(* ------------------------------------------------------------------------ *)
(* SINGLEDEL (W1): between a SINGLEDEL and the next older DEL / DELSIZED /    *)
(* SINGLEDEL / covering RANGEDEL the key was SET at most once and never      *)
(* MERGEd.  A SETWITHDEL is a SET sitting directly on a DEL.  If the stream   *)
(* ends before such a barrier the history continues in the lower levels.     *)
RECURSIVE Walk(_, _, _, _, _)
Walk(in, k, q, sets, merges) ==
  IF q = 0 THEN [sets |-> sets, merges |-> merges, open |-> TRUE]
  ELSE LET ps == PtAt(in, k, q)
           e == in.pts[CHOOSE i \in ps : TRUE]
       IN IF ps # {} /\ Tomb(e.t) THEN [sets |-> sets, merges |-> merges, open |-> FALSE]
          ELSE IF ps # {} /\ e.t = KSWD THEN [sets |-> sets + 1, merges |-> merges, open |-> FALSE]
          ELSE LET s2 == IF ps # {} /\ e.t = KSet THEN sets + 1 ELSE sets
                   m2 == IF ps # {} /\ e.t = KMerge THEN merges + 1 ELSE merges
               IN IF RdAt(in, k, q) THEN [sets |-> s2, merges |-> m2, open |-> FALSE]
                  ELSE Walk(in, k, q - 1, s2, m2)
SDels(in, k) == {i \in DOMAIN in.pts : in.pts[i].k = k /\ in.pts[i].t = KSDel}
Region(in, i) == Walk(in, in.pts[i].k, in.pts[i].s - 1, 0, 0)
SDelContract(in) == \A k \in Keys : \A i \in SDels(in, k) : Region(in, i).sets <= 1 /\ Region(in, i).merges = 0
(* a SINGLEDEL that meets the stream's oldest SET: a live SET in lower levels would break W1 *)
SDelForcesEmpty(in, k) == \E i \in SDels(in, k) : Region(in, i).open /\ Region(in, i).sets = 1

InUse(seqOfKeys, k) == \E i \in DOMAIN seqOfKeys : seqOfKeys[i] = k
ElideK(in, k) == in.elide = 1 /\ ~InUse(in.inuse, k)      \* point / RANGEDEL elision asserts: nothing below k
RkElideK(in, k) == in.elide = 1 /\ ~InUse(in.rkinuse, k)
Below(in, k) == IF ElideK(in, k) \/ SDelForcesEmpty(in, k) THEN {Absent} ELSE {Absent, <<B>>}
RkBelow(in, k) == IF RkElideK(in, k) THEN {Absent} ELSE {Absent, <<B>>}

Trailer(e) == e.s * 256 + e.t
KeyLess(e, f) == e.k < f.k \/ (e.k = f.k /\ Trailer(e) > Trailer(f))
SpansSorted(sp) == /\ \A i \in DOMAIN sp : sp[i].a < sp[i].b /\ sp[i].a >= 0 /\ sp[i].b <= NK
                   /\ \A i \in 1..(Len(sp) - 1) : sp[i].b <= sp[i + 1].a

WellFormedIn(in) ==
  /\ \A i \in DOMAIN in.pts : in.pts[i].k \in Keys /\ in.pts[i].s \in 1..N /\ in.pts[i].t \in PointKinds
  /\ \A i \in 1..(Len(in.pts) - 1) : KeyLess(in.pts[i], in.pts[i + 1]) /\ (in.pts[i].k = in.pts[i + 1].k => in.pts[i].s > in.pts[i + 1].s)
  /\ \A i \in DOMAIN in.rds : in.rds[i].a < in.rds[i].b /\ in.rds[i].a >= 0 /\ in.rds[i].b <= NK /\ \A j \in DOMAIN in.rds[i].ss : in.rds[i].ss[j] \in 1..N
  /\ \A i \in DOMAIN in.rks : in.rks[i].a < in.rks[i].b /\ in.rks[i].a >= 0 /\ in.rks[i].b <= NK
                               /\ \A j \in DOMAIN in.rks[i].ks : in.rks[i].ks[j].s \in 1..N
  /\ \A i \in 1..(Len(in.snaps) - 1) : in.snaps[i] < in.snaps[i + 1]
  /\ \A i \in DOMAIN in.snaps : in.snaps[i] \in 1..(N + 1)
  /\ in.elide \in {0, 1}
  (* compaction.go isBottommostDataLayer: only when both elisions elide everything *)
  /\ in.bottom => (in.elide = 1 /\ in.inuse = <<>> /\ in.rkinuse = <<>>)
Pre(in) == WellFormedIn(in) /\ SDelContract(in)

(* ------------------------------------------------------------------------ *)
(* The relation between input and output of a compaction                     *)
(* ------------------------------------------------------------------------ *)
Views(in) == ToSet(in.snaps) \cup {N + 1}    \* view N+1 sees everything: the latest state
MinSnap(in) == IF in.snaps = <<>> THEN Inf ELSE in.snaps[1]
OutPts(out) == SelectSeq(out.seq, LAMBDA e : e.t \in PointKinds)
OutSt(out) == [pts |-> OutPts(out), rds |-> out.rds, rks |-> out.rks]

PointsPreserved(in, o) ==
  \A k \in Keys :
    LET pi == KPts(in, k)  ri == KRds(in, k)  po == KPts(o, k)  ro == KRds(o, k) IN
    (pi # {} \/ ri # {} \/ po # {} \/ ro # {}) =>
      \A b \in Below(in, k) :
        LET ai == AccsR(in.pts, pi, ri, 0, b, <<>>)  ao == AccsR(o.pts, po, ro, 0, b, <<>>) IN \A s \in Views(in) : ao[s] = ai[s]
RangeKeysPreserved(in, o) ==
  (in.rks # <<>> \/ o.rks # <<>>) =>
  \A k \in Keys :
    LET ci == RkCover(in, k)  co == RkCover(o, k) IN
    (ci # <<>> \/ co # <<>>) =>
      \A x \in Sfx : \A b \in RkBelow(in, k) :
        LET ai == RkAccsR(ci, x, 0, b, <<>>)  ao == RkAccsR(co, x, 0, b, <<>>) IN \A s \in Views(in) : ao[s] = ai[s]
(* the emitted key sequence (points and span markers) is strictly increasing in internal-key order *)
StrictlyOrdered(out) == \A i \in 1..(Len(out.seq) - 1) : KeyLess(out.seq[i], out.seq[i + 1])
SpanKeysOrdered(out) ==
  /\ SpansSorted(out.rds) /\ SpansSorted(out.rks)
  /\ \A i \in DOMAIN out.rds : out.rds[i].ss # <<>> /\ \A j \in 1..(Len(out.rds[i].ss) - 1) : out.rds[i].ss[j] > out.rds[i].ss[j + 1]
  /\ \A i \in DOMAIN out.rks : out.rks[i].ks # <<>> /\ \A j \in 1..(Len(out.rks[i].ks) - 1) : Trailer(out.rks[i].ks[j]) >= Trailer(out.rks[i].ks[j + 1])
(* every output point carries the (key, seqnum) of an input point, or seqnum 0 *)
OutFromIn(in, o) == \A i \in DOMAIN o.pts : o.pts[i].k \in Keys /\ (o.pts[i].s = 0 \/ PtAt(in, o.pts[i].k, o.pts[i].s) # {})
(* a zeroed seqnum: only with the bottommost flag, only on data of the bottom stripe *)
SeqZeroOnlyInBottomStripe(in, o) ==
  \A i \in DOMAIN o.pts : o.pts[i].s = 0 => (in.bottom /\ \A j \in DOMAIN o.pts[i].v : o.pts[i].v[j] < MinSnap(in))
(* where elision is not allowed, whatever the input deletes the output deletes too.  Named clause of C17; *)
(* it is the <<B>> half of PointsPreserved / RangeKeysPreserved, so Compacted does not evaluate it again; *)
(* the design configs check Compacted => TombstonesDroppedOnlyIfElide as a separate invariant (Inv2).     *)
TombstonesDroppedOnlyIfElide(in, o) ==
  /\ \A k \in Keys : \A s \in Views(in) : (<<B>> \in Below(in, k) /\ Eval(in, k, s, <<B>>) = Absent) => Eval(o, k, s, <<B>>) = Absent
  /\ \A k \in Keys : \A x \in Sfx : \A s \in Views(in) :
        (<<B>> \in RkBelow(in, k) /\ RkEval(in, k, x, s, <<B>>) = Absent) => RkEval(o, k, x, s, <<B>>) = Absent

Compacted(in, out) ==
  LET o == OutSt(out) IN
  /\ ~out.err
  /\ StrictlyOrdered(out)
  /\ SpanKeysOrdered(out)
  /\ OutFromIn(in, o)
  /\ SeqZeroOnlyInBottomStripe(in, o)
  /\ PointsPreserved(in, o)
  /\ RangeKeysPreserved(in, o)

(* ------------------------------------------------------------------------ *)
(* SpecCompact: the reference compaction (mirrors Iter.Next, setNext,        *)
(* mergeNext, singleDeleteNext, skipDueToSingleDeleteElision,                *)
(* RangeDelSpanCompactor.Compact, RangeKeySpanCompactor.Compact)             *)
(* ------------------------------------------------------------------------ *)
TrueStripe(in, q) == Cardinality({i \in DOMAIN in.snaps : in.snaps[i] <= q})
Stripe(in, q) == IF BugMode = "IgnoreSnaps" THEN 0
                 ELSE IF BugMode = "IgnoreLowestSnap" /\ TrueStripe(in, q) > 0 THEN TrueStripe(in, q) - 1
                 ELSE TrueStripe(in, q)
NStripes(in) == Len(in.snaps) + 1
RdSeqs(in, k) == {q \in 1..N : RdAt(in, k, q)}
(* nextInStripeHelper: a point visibly covered by a RANGEDEL of its own stripe is skipped *)
Covered(in, e) == \E r \in RdSeqs(in, e.k) : r > e.s /\ Stripe(in, r) = Stripe(in, e.s)
StripePts(in, k, j) == SelectSeq(in.pts, LAMBDA e : e.k = k /\ Stripe(in, e.s) = j /\ ~Covered(in, e))

RECURSIVE MergeDown(_, _, _)
MergeDown(es, i, v) == IF i > Len(es) THEN [v |-> v, t |-> KMerge]
                       ELSE IF es[i].t = KMerge THEN MergeDown(es, i + 1, es[i].v \o v)
                       ELSE IF IsSetK(es[i].t) THEN [v |-> es[i].v \o v, t |-> KSet]
                       ELSE [v |-> v, t |-> KSWD]
DropT(c) == c.el /\ (c.last \/ BugMode = "ElideAnyStripe")
ZeroS(c) == c.bot /\ (c.last \/ BugMode = "ZeroAnyStripe")
Pt(k, s, t, v) == [k |-> k, s |-> s, t |-> t, v |-> v]
RECURSIVE Collapse(_, _)
RECURSIVE SDelRun(_, _, _)
SDelRun(e, rest, c) ==
  IF rest = <<>> THEN (IF DropT(c) THEN <<>> ELSE <<Pt(e.k, e.s, KSDel, <<>>)>>)
  ELSE LET x == rest[1] IN
       (* SETWITHDEL = a SET with a collapsed DEL beneath it: the SINGLEDEL must act as a full DEL for  *)
       (* whatever lies beneath (older versions in this stripe, the lower levels).  Seeded bug            *)
       (* ElidedSDelOverSWD: the elision path (skipDueToSingleDeleteElision) treats it like a plain SET.  *)
       IF x.t \in {KDel, KDSz} \/ (x.t = KSWD /\ ~(BugMode = "ElidedSDelOverSWD" /\ DropT(c)))
       THEN (IF DropT(c) THEN <<>> ELSE <<Pt(e.k, e.s, KDel, <<>>)>>)
       ELSE IF x.t = KSDel THEN SDelRun(e, Tail(rest), c)
       ELSE (* SET or MERGE: both disappear, the rest is processed afresh *)
            IF BugMode = "SDelTwo" /\ Len(rest) >= 2 THEN Collapse(Tail(Tail(rest)), c)
            ELSE Collapse(Tail(rest), c)
Collapse(es, c) ==
  IF es = <<>> THEN <<>>
  ELSE LET e == es[1] IN
       IF IsSetK(e.t) THEN <<Pt(e.k, IF ZeroS(c) THEN 0 ELSE e.s, IF Len(es) > 1 /\ Tomb(es[2].t) THEN KSWD ELSE e.t, e.v)>>
       ELSE IF e.t \in {KDel, KDSz} THEN (IF DropT(c) THEN <<>> ELSE <<Pt(e.k, e.s, KDel, <<>>)>>)
       ELSE IF e.t = KMerge THEN
            LET m == MergeDown(es, 2, e.v) IN
            <<Pt(e.k, IF ZeroS(c) THEN 0 ELSE e.s, IF ZeroS(c) /\ m.t = KMerge THEN KSet ELSE m.t, m.v)>>
       ELSE SDelRun(e, Tail(es), c)

RECURSIVE KeyOut(_, _, _)
KeyOut(in, k, j) == IF j < 0 THEN <<>>
                    ELSE Collapse(StripePts(in, k, j), [last |-> (j = 0), el |-> ElideK(in, k), bot |-> in.bottom]) \o KeyOut(in, k, j - 1)
RECURSIVE AllKeysOut(_, _)
AllKeysOut(in, k) == IF k >= NK THEN <<>> ELSE KeyOut(in, k, NStripes(in) - 1) \o AllKeysOut(in, k + 1)

Max(S) == CHOOSE x \in S : \A y \in S : y <= x
RECURSIVE DescSeq(_)
DescSeq(S) == IF S = {} THEN <<>> ELSE <<Max(S)>> \o DescSeq(S \ {Max(S)})
(* RANGEDELs: the newest of each stripe survives; the bottom stripe's is elided when allowed (unit fragments) *)
RdKeep(in, u) == {q \in RdSeqs(in, u) :
                    /\ \A r \in RdSeqs(in, u) : Stripe(in, r) = Stripe(in, q) => r <= q
                    /\ ~(ElideK(in, u) /\ (Stripe(in, q) = 0 \/ BugMode = "ElideAnyStripe"))}
RECURSIVE RdOut(_, _)
RdOut(in, u) == IF u >= NK THEN <<>>
                ELSE (IF RdKeep(in, u) = {} THEN <<>> ELSE <<[a |-> u, b |-> u + 1, ss |-> DescSeq(RdKeep(in, u))]>>) \o RdOut(in, u + 1)
(* range keys: per stripe, keys above the newest RANGEKEYDEL, newest per suffix, plus that DEL; *)
(* UNSET/DEL of the bottom stripe elided when allowed                                            *)
RkAll(in, u) == UNION {RkAt(in, u, q) : q \in 1..N}
RkKeep(in, u) == {kk \in RkAll(in, u) :
   LET j == Stripe(in, kk.s)
       same == {c \in RkAll(in, u) : Stripe(in, c.s) = j}
   IN /\ ~\E d \in same : d.t = KRkDel /\ d.s > kk.s
      /\ (kk.t # KRkDel => ~\E c \in same : c.t # KRkDel /\ c.x = kk.x /\ c.s > kk.s)
      /\ ~(kk.t \in {KRkDel, KRkUnset} /\ RkElideK(in, u) /\ (j = 0 \/ BugMode = "ElideAnyStripe"))}
RECURSIVE RkSeq(_)
RkSeq(S) == IF S = {} THEN <<>>
            ELSE LET m == CHOOSE c \in S : \A d \in S : Trailer(d) <= Trailer(c) IN <<m>> \o RkSeq(S \ {m})
RECURSIVE RkOut(_, _)
RkOut(in, u) == IF u >= NK THEN <<>>
                ELSE (IF RkKeep(in, u) = {} THEN <<>> ELSE <<[a |-> u, b |-> u + 1, ks |-> RkSeq(RkKeep(in, u))]>>) \o RkOut(in, u + 1)

SpecCompact(in) == [seq |-> AllKeysOut(in, 0), rds |-> RdOut(in, 0), rks |-> RkOut(in, 0), err |-> FALSE]

(* ------------------------------------------------------------------------ *)
(* Input generator                                                           *)
(* ------------------------------------------------------------------------ *)
VARIABLES ch,    \* ch[q]: what was written at seqnum q (a point option or none)
          rds, rks, ph, conf
vars == <<ch, rds, rks, ph, conf>>

NoneOpt == [k |-> 0, t |-> -1, z |-> 0]
PtOpts == {[k |-> k, t |-> t, z |-> z] : k \in Keys, t \in Kinds, z \in DszCls \cup {0}}
Opts == {NoneOpt} \cup PtOpts
GoodOpt(o) == IF o.t = KDSz THEN o.z \in DszCls ELSE o.z = 0
NPts(c) == Cardinality({q \in DOMAIN c : c[q].t # -1})

RECURSIVE PtsOf(_, _, _)
PtsOf(c, k, s) == IF k >= NK THEN <<>>
                  ELSE IF s < 1 THEN PtsOf(c, k + 1, N)
                  ELSE (IF c[s].t # -1 /\ c[s].k = k THEN <<[k |-> k, s |-> s, t |-> c[s].t, v |-> <<s>>, z |-> c[s].z]>> ELSE <<>>)
                       \o PtsOf(c, k, s - 1)
Bounds == {<<a, b>> : a \in 0..NK, b \in 0..NK}
RkSeqsUsed == {rks[i].ks[1].s : i \in DOMAIN rks}
SpanLess(p, r) == p.a < r.a \/ (p.a = r.a /\ p.b < r.b) \/ (p.a = r.a /\ p.b = r.b /\ p.q < r.q)

Init == ch = <<>> /\ rds = <<>> /\ rks = <<>> /\ ph = "pts" /\ conf = [none |-> TRUE]
AddPt(o) == /\ ph = "pts" /\ Len(ch) < N /\ GoodOpt(o)
            /\ (o.t # -1 => NPts(ch) < MaxPts)
            /\ ch' = Append(ch, o)
            /\ ph' = IF Len(ch) + 1 = N THEN "spans" ELSE "pts"
            /\ UNCHANGED <<rds, rks, conf>>
AddRd(a, b, q) == /\ ph = "spans" /\ rks = <<>> /\ Len(rds) < MaxRD /\ a < b
                  /\ \A i \in DOMAIN rds : rds[i].ss[1] # q
                  /\ (rds # <<>> => SpanLess([a |-> rds[Len(rds)].a, b |-> rds[Len(rds)].b, q |-> rds[Len(rds)].ss[1]], [a |-> a, b |-> b, q |-> q]))
                  /\ rds' = Append(rds, [a |-> a, b |-> b, ss |-> <<q>>])
                  /\ UNCHANGED <<ch, rks, ph, conf>>
AddRk(a, b, q, t, x) == /\ ph = "spans" /\ Len(rks) < MaxRK /\ a < b /\ q \notin RkSeqsUsed
                        /\ (t = KRkDel => x = 0)
                        /\ (rks # <<>> => rks[Len(rks)].ks[1].s < q)
                        /\ rks' = Append(rks, [a |-> a, b |-> b, ks |-> <<[s |-> q, t |-> t, x |-> x, v |-> IF t = KRkSet THEN <<q>> ELSE <<>>]>>])
                        /\ UNCHANGED <<ch, rds, ph, conf>>
SnapSeqs == {DescSeq(S) : S \in SUBSET SnapSet}
Rev(s) == [i \in 1..Len(s) |-> s[Len(s) + 1 - i]]
InUseSeqs == {Rev(DescSeq(S)) : S \in SUBSET Keys}
Confs == {[snaps |-> Rev(sn), elide |-> 0, inuse |-> <<>>, rkinuse |-> <<>>, bottom |-> FALSE] : sn \in SnapSeqs}
         \cup {[snaps |-> Rev(sn), elide |-> 1, inuse |-> iu, rkinuse |-> iu, bottom |-> FALSE] : sn \in SnapSeqs, iu \in InUseSeqs}
         \cup {[snaps |-> Rev(sn), elide |-> 1, inuse |-> <<>>, rkinuse |-> <<>>, bottom |-> TRUE] : sn \in SnapSeqs}
Finish(c) == /\ ph = "spans" /\ ph' = "done" /\ conf' = c /\ UNCHANGED <<ch, rds, rks>>

Next == \/ \E o \in Opts : AddPt(o)
        \/ \E bd \in Bounds, q \in 1..N : AddRd(bd[1], bd[2], q)
        \/ \E bd \in Bounds, q \in 1..N, t \in {KRkDel, KRkUnset, KRkSet}, x \in Sfx : AddRk(bd[1], bd[2], q, t, x)
        \/ \E c \in Confs : Finish(c)
Spec == Init /\ [][Next]_vars

Input == [pts |-> PtsOf(ch, 0, N), rds |-> rds, rks |-> rks, snaps |-> conf.snaps, elide |-> conf.elide,
          inuse |-> conf.inuse, rkinuse |-> conf.rkinuse, bottom |-> conf.bottom]

(* design-level property: the reference compaction satisfies the relation on every admissible input *)
Inv == (ph = "done" /\ Pre(Input)) => Compacted(Input, SpecCompact(Input))
Inv2 == (ph = "done" /\ Pre(Input) /\ Compacted(Input, SpecCompact(Input)))
          => TombstonesDroppedOnlyIfElide(Input, OutSt(SpecCompact(Input)))
EmitInv == (Emit /\ ph = "done" /\ Pre(Input)) => PrintT(ToJson(Input))
=============================================================================
