---------------------------- MODULE FailoverTrace ----------------------------
(* Decides C21 on real executions of wal.failoverWriter + wal.Scan +           *)
(* virtualWALReader under TLC-generated schedules (Failover.tla behaviours).    *)
(* Events: fwrote (WriteRecord returned), freleased (a sync waiter woke up),    *)
(* fclosed, fcrash (logged BEFORE the crash clone is taken, so a release logged  *)
(* earlier happened before the crash), fstop, fwaiters (sync waiters still not   *)
(* signalled after Close returned), fread (the logical log as read).            *)
(* fwrote covers n consecutive records i..i+n-1 with sequence numbers            *)
(* seq, seq+count, ... (n = 1 except in the scaled many-record schedules); its   *)
(* sync flag belongs to the last of them.  fgrow (the ring buffer doubled)       *)
(* is informational.                                                             *)
(* The fread action carries Failover.tla's invariants ExactlyOnceInOrder,        *)
(* NothingForeign, AckedSyncedPresent, NoHoles, CleanCloseComplete.              *)
EXTENDS Integers, Sequences, FiniteSets, TLC, Json
Trace == ndJsonDeserialize("trace.ndjson")
VARIABLES l, wrote, wroteSet, real, relOK, ended, closedOK   \* real = indexes of records with count > 0; wroteSet = Range(wrote)
vars == <<l, wrote, wroteSet, real, relOK, ended, closedOK>>
Ev == Trace[l]
Is(o) == l <= Len(Trace) /\ Trace[l].op = o /\ l' = l + 1
Range(s) == {s[i] : i \in 1..Len(s)}

TraceInit == l = 1 /\ wrote = <<>> /\ wroteSet = {} /\ real = {} /\ relOK = {} /\ ended = FALSE /\ closedOK = FALSE /\ TLCSet(1, 0)
Reset == Is("reset") /\ wrote' = <<>> /\ wroteSet' = {} /\ real' = {} /\ relOK' = {} /\ ended' = FALSE /\ closedOK' = FALSE
Skip == (Is("fstart") \/ Is("fswitch") \/ Is("fgrow")) /\ UNCHANGED <<wrote, wroteSet, real, relOK, ended, closedOK>>
(* records with count = 0 are LogData-only batches: written to the log, never replayed *)
Wrote == Is("fwrote") /\ wrote' = (IF Ev.count > 0 THEN wrote \o [k \in 1..Ev.n |-> Ev.seq + (k - 1) * Ev.count] ELSE wrote)
         /\ wroteSet' = (IF Ev.count > 0 THEN wroteSet \cup {Ev.seq + (k - 1) * Ev.count : k \in 1..Ev.n} ELSE wroteSet)
         /\ real' = (IF Ev.count > 0 THEN real \cup (Ev.i..(Ev.i + Ev.n - 1)) ELSE real)
         /\ UNCHANGED <<relOK, ended, closedOK>>
(* only releases seen before the crash / stop point count as acknowledgements *)
Released == Is("freleased")
            /\ relOK' = (IF ~ended /\ ~Ev.err /\ Ev.i \in real THEN relOK \cup {Ev.seq} ELSE relOK)
            /\ UNCHANGED <<wrote, wroteSet, real, ended, closedOK>>
Closed == Is("fclosed") /\ closedOK' = (IF ended THEN closedOK ELSE ~Ev.err) /\ UNCHANGED <<wrote, wroteSet, real, relOK, ended>>
Crash == Is("fcrash") /\ ended' = TRUE /\ UNCHANGED <<wrote, wroteSet, real, relOK, closedOK>>
Stop == Is("fstop") /\ ended' = TRUE /\ UNCHANGED <<wrote, wroteSet, real, relOK, closedOK>>
(* Close has returned (popAll ran): every sync waiter must have been signalled *)
Waiters == Is("fwaiters") /\ Ev.pending = 0 /\ UNCHANGED <<wrote, wroteSet, real, relOK, ended, closedOK>>

IsPrefix(s, t) == Len(s) <= Len(t) /\ \A i \in 1..Len(s) : s[i] = t[i]
Read == Is("fread") /\ UNCHANGED <<wrote, wroteSet, real, relOK, ended, closedOK>>
  \* (the quantified checks are written "= TRUE": TLC then evaluates them as expressions instead of unfolding a
  \*  20000-fold conjunction of the action, which does not terminate in reasonable time on the many-record runs)
  /\ (\A i \in 1..(Len(Ev.seqs) - 1) : Ev.seqs[i] < Ev.seqs[i + 1]) = TRUE \* exactly once, in order
  /\ Range(Ev.seqs) \subseteq wroteSet                                   \* nothing foreign (negative = foreign bytes)
  /\ Ev.term # "BADBATCH"                                                \* ... and no intact record that is not a batch (never written)
  /\ relOK \subseteq Range(Ev.seqs)                                      \* acknowledged-synced batches present
  /\ IsPrefix(Ev.seqs, wrote) = TRUE                                     \* no holes
  /\ ((~Ev.crashed /\ closedOK) => (Ev.seqs = wrote /\ Ev.term = "EOF")) \* clean close: everything, clean end

TraceNext == Reset \/ Skip \/ Wrote \/ Released \/ Closed \/ Crash \/ Stop \/ Waiters \/ Read
TraceSpec == TraceInit /\ [][TraceNext]_vars
HWM == IF l - 1 > TLCGet(1) THEN TLCSet(1, l - 1) ELSE TRUE
TraceAccepted == PrintT(<<"HWM", TLCGet(1)>>) /\ TLCGet(1) = Len(Trace)
=============================================================================
