---------------------------- MODULE FailoverTrace ----------------------------
(* Decides C21 on real executions of wal.failoverWriter + wal.Scan +           *)
(* virtualWALReader under TLC-generated schedules (Failover.tla behaviours).    *)
(* Events: fwrote (WriteRecord returned), freleased (a sync waiter woke up),    *)
(* fclosed, fcrash (logged BEFORE the crash clone is taken, so a release logged  *)
(* earlier happened before the crash), fstop, fread (the logical log as read).  *)
(* The fread action carries Failover.tla's invariants ExactlyOnceInOrder,        *)
(* NothingForeign, AckedSyncedPresent, NoHoles, CleanCloseComplete.              *)
EXTENDS Integers, Sequences, FiniteSets, TLC, Json
Trace == ndJsonDeserialize("trace.ndjson")
VARIABLES l, wrote, real, relOK, ended, closedOK   \* real = indexes of records with count > 0
vars == <<l, wrote, real, relOK, ended, closedOK>>
Ev == Trace[l]
Is(o) == l <= Len(Trace) /\ Trace[l].op = o /\ l' = l + 1
Range(s) == {s[i] : i \in 1..Len(s)}

TraceInit == l = 1 /\ wrote = <<>> /\ real = {} /\ relOK = {} /\ ended = FALSE /\ closedOK = FALSE /\ TLCSet(1, 0)
Reset == Is("reset") /\ wrote' = <<>> /\ real' = {} /\ relOK' = {} /\ ended' = FALSE /\ closedOK' = FALSE
Skip == (Is("fstart") \/ Is("fswitch")) /\ UNCHANGED <<wrote, real, relOK, ended, closedOK>>
(* records with count = 0 are LogData-only batches: written to the log, never replayed *)
Wrote == Is("fwrote") /\ wrote' = (IF Ev.count > 0 THEN Append(wrote, Ev.seq) ELSE wrote)
         /\ real' = (IF Ev.count > 0 THEN real \cup {Ev.i} ELSE real)
         /\ UNCHANGED <<relOK, ended, closedOK>>
(* only releases seen before the crash / stop point count as acknowledgements *)
Released == Is("freleased")
            /\ relOK' = (IF ~ended /\ ~Ev.err /\ Ev.i \in real THEN relOK \cup {Ev.seq} ELSE relOK)
            /\ UNCHANGED <<wrote, real, ended, closedOK>>
Closed == Is("fclosed") /\ closedOK' = (IF ended THEN closedOK ELSE ~Ev.err) /\ UNCHANGED <<wrote, real, relOK, ended>>
Crash == Is("fcrash") /\ ended' = TRUE /\ UNCHANGED <<wrote, real, relOK, closedOK>>
Stop == Is("fstop") /\ ended' = TRUE /\ UNCHANGED <<wrote, real, relOK, closedOK>>

IsPrefix(s, t) == Len(s) <= Len(t) /\ \A i \in 1..Len(s) : s[i] = t[i]
Read == Is("fread") /\ UNCHANGED <<wrote, real, relOK, ended, closedOK>>
  /\ \A i \in 1..(Len(Ev.seqs) - 1) : Ev.seqs[i] < Ev.seqs[i + 1]        \* exactly once, in order
  /\ Range(Ev.seqs) \subseteq Range(wrote)                               \* nothing foreign (negative = foreign bytes)
  /\ relOK \subseteq Range(Ev.seqs)                                      \* acknowledged-synced batches present
  /\ IsPrefix(Ev.seqs, wrote)                                            \* no holes
  /\ ((~Ev.crashed /\ closedOK) => (Ev.seqs = wrote /\ Ev.term = "EOF")) \* clean close: everything, clean end

TraceNext == Reset \/ Skip \/ Wrote \/ Released \/ Closed \/ Crash \/ Stop \/ Read
TraceSpec == TraceInit /\ [][TraceNext]_vars
HWM == IF l - 1 > TLCGet(1) THEN TLCSet(1, l - 1) ELSE TRUE
TraceAccepted == PrintT(<<"HWM", TLCGet(1)>>) /\ TLCGet(1) = Len(Trace)
=============================================================================
