SPECIFICATION TraceSpec
CONSTRAINT HWM
POSTCONDITION TraceAccepted
CHECK_DEADLOCK FALSE
