\* schedule generator (-simulate): behaviours of Failover.tla, printed when the logical log has been read
SPECIFICATION Spec
CONSTANTS
  N = 6
  W = 4
  SyncSet = {2, 3, 5, 6}
  MaxFaults = 1
  BugDedupLT = FALSE
  BugNoReplay = FALSE
  BugPopBeyondSync = FALSE
  GenMode = TRUE
INVARIANT Inv
INVARIANT EmitJson
CHECK_DEADLOCK FALSE
