\* schedule generator (-simulate): behaviours of Failover.tla (ring of QCap slots, doubling), printed when the logical log has been read
SPECIFICATION Spec
CONSTANTS
  N = 6
  W = 4
  SyncSet = {2, 3, 5, 6}
  QCap = 2
  MaxFaults = 1
  BugDedupLT = FALSE
  BugNoReplay = FALSE
  BugPopBeyondSync = FALSE
  BugGrowCopyUnwrapped = FALSE
  BugReclaimAfterPut = FALSE
  GenMode = TRUE
INVARIANT Inv
INVARIANT EmitJson
CHECK_DEADLOCK FALSE
