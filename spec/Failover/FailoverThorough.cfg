\* N records, at most W physical log writers (segments), SyncSet = records requesting sync,
\* MaxFaults = injected create/write/sync failures
SPECIFICATION Spec
CONSTANTS
  N = 4
  W = 3
  SyncSet = {2, 4}
  MaxFaults = 1
  BugDedupLT = FALSE
  BugNoReplay = FALSE
  BugPopBeyondSync = FALSE
  GenMode = FALSE
VIEW view
INVARIANT Inv
CHECK_DEADLOCK FALSE
