\* N records, at most W physical log writers (segments), SyncSet = records requesting sync,
\* MaxFaults = injected create/write/sync failures, QCap = initial ring capacity (doubles when full)
SPECIFICATION Spec
CONSTANTS
  N = 4
  W = 3
  SyncSet = {2, 4}
  QCap = 1
  MaxFaults = 1
  BugDedupLT = FALSE
  BugNoReplay = FALSE
  BugPopBeyondSync = FALSE
  BugGrowCopyUnwrapped = FALSE
  BugReclaimAfterPut = FALSE
  GenMode = FALSE
VIEW view
INVARIANT Inv
CHECK_DEADLOCK FALSE
