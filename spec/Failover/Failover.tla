------------------------------ MODULE Failover ------------------------------
(* WAL failover: wal/failover_writer.go (failoverWriter, recordQueue),          *)
(* record.LogWriter in external-sync-queue mode (abstracted), a crash of the     *)
(* MemFS crash model, and wal/reader.go (virtualWALReader).                      *)
(*                                                                               *)
(* Records 1..N are written in order; record i carries sequence number i.         *)
(* Action <-> code:                                                               *)
(*   WriteRecord   failoverWriter.WriteRecord: recordQueue.push, then             *)
(*                 SyncRecordGeneralized on the current LogWriter (if any)        *)
(*   SwitchStart   switchToNewDir: reserve slot nextWriterIndex, start async work *)
(*   CreateFile(w) logCreator (file create in the writer's directory)             *)
(*   DirSync(w)    dir.Sync; then, under ww.mu: if still the latest writer and    *)
(*                 not closed, snapshotAndSwitchWriter replays [tail, head) into  *)
(*                 the new LogWriter, else the LogWriter is closed unused         *)
(*   Flush(w)      LogWriter flush loop: Write of queued records to the file      *)
(*   Sync(w)       flush loop: Sync + ExternalSyncQueueCallback = doneSyncCallback *)
(*                 -> recordQueue.pop(index): waiters <= index released           *)
(*   Fail(w)       a Write/Sync of the file fails: the LogWriter is dead,         *)
(*                 doneSyncCallback(err) pops nothing                             *)
(*   CloseStart / CloseWriter(w) / CloseDone   failoverWriter.Close: every        *)
(*                 created LogWriter is closed (flush + sync); the last one with   *)
(*                 CloseWithLastQueuedRecord; then popAll(err)                    *)
(*   Crash         MemFS crash clone: per file, synced data survives, any prefix  *)
(*                 of the unsynced data may survive; a file whose directory entry  *)
(*                 was not synced may be missing                                  *)
(*   ReadLogical   wal.Scan + virtualWALReader: segments in logNameIndex order,   *)
(*                 per segment the readable prefix, dedup by lastSeqNum           *)
EXTENDS Integers, Sequences, FiniteSets, TLC

CONSTANTS N,            \* records
          W,            \* physical log writers (segments) at most
          SyncSet,      \* records that request a sync
          MaxFaults,
          BugDedupLT,       \* reader skips only seqnum < lastSeqNum
          BugNoReplay,      \* a switch does not replay the queued records into the new writer
          BugPopBeyondSync, \* doneSync pops every queued sync request, not only the synced ones
          GenMode           \* schedule generation (-simulate): one crash outcome, no crash before half the records

VARIABLES next, qtail, wr, nwi, cur, released, relerr, closing, closed, closeErr, faults, phase, disk, out, hist
vars == <<next, qtail, wr, nwi, cur, released, relerr, closing, closed, closeErr, faults, phase, disk, out, hist>>
view == <<next, qtail, wr, nwi, cur, released, relerr, closing, closed, closeErr, faults, phase, disk, out>>

Writers == 0..(W - 1)
NoWriter == [st |-> "none", q |-> <<>>, written |-> 0, synced |-> 0, failed |-> FALSE, cl |-> FALSE]
Max(S) == CHOOSE x \in S : \A y \in S : y <= x
Range(s) == {s[i] : i \in 1..Len(s)}
FromTo(a, b) == [i \in 1..(b - a + 1) |-> a + i - 1]
H(e) == hist' = Append(hist, e)

Init ==
  /\ next = 1 /\ qtail = 1 /\ wr = [w \in Writers |-> NoWriter] /\ nwi = 0 /\ cur = -1
  /\ released = {} /\ relerr = {} /\ closing = FALSE /\ closed = FALSE /\ closeErr = FALSE
  /\ faults = 0 /\ phase = "run" /\ disk = [w \in Writers |-> -1] /\ out = <<>> /\ hist = <<>>

Running == phase = "run"

WriteRecord ==
  /\ Running /\ ~closing /\ next <= N
  /\ wr' = (IF cur >= 0 /\ ~wr[cur].failed THEN [wr EXCEPT ![cur].q = Append(@, next)] ELSE wr)
  /\ next' = next + 1 /\ H(<<"W", next>>)
  /\ UNCHANGED <<qtail, nwi, cur, released, relerr, closing, closed, closeErr, faults, phase, disk, out>>

SwitchStart ==
  /\ Running /\ ~closed /\ nwi < W
  /\ (IF GenMode /\ nwi >= 2 THEN wr[nwi - 1].st \in {"ready", "createfailed"} ELSE TRUE)
  /\ wr' = [wr EXCEPT ![nwi].st = "creating"] /\ nwi' = nwi + 1 /\ H(<<"SW", nwi>>)
  /\ UNCHANGED <<next, qtail, cur, released, relerr, closing, closed, closeErr, faults, phase, disk, out>>

CreateFile(w) ==
  /\ Running /\ wr[w].st = "creating"
  /\ \E fail \in (IF faults < MaxFaults THEN {TRUE, FALSE} ELSE {FALSE}) :
       /\ faults' = (IF fail THEN faults + 1 ELSE faults)
       /\ wr' = [wr EXCEPT ![w].st = IF fail THEN "createfailed" ELSE "created"]
       /\ H(<<IF fail THEN "CRF" ELSE "CR", w>>)
  /\ UNCHANGED <<next, qtail, nwi, cur, released, relerr, closing, closed, closeErr, phase, disk, out>>

DirSync(w) ==
  /\ Running /\ wr[w].st = "created"
  /\ (IF w + 1 = nwi /\ ~closed
      THEN /\ wr' = [wr EXCEPT ![w].st = "ready", ![w].q = IF BugNoReplay THEN <<>> ELSE FromTo(qtail, next - 1)]
           /\ cur' = w
      ELSE /\ wr' = [wr EXCEPT ![w].st = "unused", ![w].cl = TRUE]
           /\ cur' = cur)
  /\ H(<<"DS", w>>)
  /\ UNCHANGED <<next, qtail, nwi, released, relerr, closing, closed, closeErr, faults, phase, disk, out>>

Live(w) == wr[w].st = "ready" /\ ~wr[w].failed /\ ~wr[w].cl

(* the flush loop writes some of the records queued on this LogWriter *)
Flush(w) ==
  /\ Running /\ Live(w) /\ wr[w].written < Len(wr[w].q)
  /\ \E k \in (wr[w].written + 1)..Len(wr[w].q) : wr' = [wr EXCEPT ![w].written = k]
  /\ H(<<"FL", w>>)
  /\ UNCHANGED <<next, qtail, nwi, cur, released, relerr, closing, closed, closeErr, faults, phase, disk, out>>

SyncReq(w, upto) == {wr[w].q[i] : i \in 1..upto} \cap SyncSet \cap {r \in 1..N : r >= qtail}
Sync(w) ==
  /\ Running /\ Live(w) /\ wr[w].written > wr[w].synced
  /\ LET S == SyncReq(w, IF BugPopBeyondSync THEN Len(wr[w].q) ELSE wr[w].written) IN
     /\ S # {}
     /\ wr' = [wr EXCEPT ![w].synced = wr[w].written]
     /\ qtail' = Max({qtail, Max(S) + 1})
     /\ released' = released \cup {r \in SyncSet : qtail <= r /\ r <= Max(S)}
  /\ H(<<"SY", w>>)
  /\ UNCHANGED <<next, nwi, cur, relerr, closing, closed, closeErr, faults, phase, disk, out>>

Fail(w) ==
  /\ Running /\ Live(w) /\ faults < MaxFaults /\ Len(wr[w].q) > wr[w].synced
  /\ wr' = [wr EXCEPT ![w].failed = TRUE] /\ faults' = faults + 1 /\ H(<<"FAIL", w>>)
  /\ UNCHANGED <<next, qtail, nwi, cur, released, relerr, closing, closed, closeErr, phase, disk, out>>

CloseStart ==
  /\ Running /\ ~closing /\ nwi > 0 /\ (GenMode => (2 * next > N /\ cur >= 0)) /\ closing' = TRUE /\ H(<<"CLOSE", 0>>)
  /\ UNCHANGED <<next, qtail, wr, nwi, cur, released, relerr, closed, closeErr, faults, phase, disk, out>>

(* LogWriter.Close: flush everything, sync; the last writer also reports the last queued record *)
CloseWriter(w) ==
  /\ Running /\ closing /\ ~closed /\ Live(w)
  /\ wr' = [wr EXCEPT ![w].written = Len(wr[w].q), ![w].synced = Len(wr[w].q), ![w].cl = TRUE]
  /\ (IF w + 1 = nwi
      THEN qtail' = next /\ released' = released \cup {r \in SyncSet : qtail <= r /\ r < next}
      ELSE qtail' = qtail /\ released' = released)
  /\ H(<<"CLW", w>>)
  /\ UNCHANGED <<next, nwi, cur, relerr, closing, closed, closeErr, faults, phase, disk, out>>

LastDone == LET l == nwi - 1 IN wr[l].cl \/ wr[l].failed \/ wr[l].st = "createfailed"
CloseDone ==
  /\ Running /\ closing /\ ~closed /\ LastDone
  /\ closed' = TRUE
  /\ closeErr' = (wr[nwi - 1].failed \/ wr[nwi - 1].st = "createfailed")
  \* popAll(err): with an error the remaining waiters are released with it
  /\ relerr' = (IF wr[nwi - 1].failed \/ wr[nwi - 1].st = "createfailed"
                THEN relerr \cup {r \in SyncSet : qtail <= r /\ r < next} ELSE relerr)
  /\ H(<<"CLOSED", 0>>)
  /\ UNCHANGED <<next, qtail, wr, nwi, cur, released, closing, faults, phase, disk, out>>

HasFile(w) == wr[w].st \in {"created", "ready", "unused"}
(* crash: synced data survives, any prefix of written-but-unsynced data may;   *)
(* the file itself may be missing while its directory entry is unsynced         *)
Crash ==
  /\ Running /\ phase' = "crashed"
  /\ (GenMode => (2 * next > N /\ cur >= 0))
  /\ disk' \in (IF GenMode THEN {[w \in Writers |-> IF wr[w].st \in {"ready", "unused"} THEN wr[w].synced ELSE -1]}
                ELSE [Writers -> -1..N])
  /\ \A w \in Writers :
       IF ~HasFile(w) THEN disk'[w] = -1
       ELSE IF wr[w].st = "created" THEN disk'[w] \in {-1, 0}
       ELSE wr[w].synced <= disk'[w] /\ disk'[w] <= wr[w].written
  /\ H(<<"CRASH", 0>>)
  /\ UNCHANGED <<next, qtail, wr, nwi, cur, released, relerr, closing, closed, closeErr, faults, out>>

(* a clean stop: everything written is readable *)
Stop ==
  /\ Running /\ closed /\ phase' = "crashed"
  /\ disk' = [w \in Writers |-> IF HasFile(w) THEN wr[w].written ELSE -1]
  /\ H(<<"STOP", 0>>)
  /\ UNCHANGED <<next, qtail, wr, nwi, cur, released, relerr, closing, closed, closeErr, faults, out>>

(* virtualWALReader over the surviving segments *)
RECURSIVE Merge(_, _, _, _)
Merge(w, i, last, acc) ==
  IF w >= W THEN acc
  ELSE IF disk[w] < 0 \/ i > disk[w] THEN Merge(w + 1, 1, last, acc)
  ELSE LET r == wr[w].q[i] IN
       IF (IF BugDedupLT THEN r < last ELSE r <= last) THEN Merge(w, i + 1, last, acc)
       ELSE Merge(w, i + 1, r, Append(acc, r))
ReadLogical ==
  /\ phase = "crashed" /\ phase' = "read" /\ out' = Merge(0, 1, 0, <<>>)
  /\ H(<<"READ", 0>>)
  /\ UNCHANGED <<next, qtail, wr, nwi, cur, released, relerr, closing, closed, closeErr, faults, disk>>

Next == \/ WriteRecord \/ SwitchStart \/ CloseStart \/ CloseDone \/ Crash \/ Stop \/ ReadLogical
        \/ \E w \in Writers : CreateFile(w) \/ DirSync(w) \/ Flush(w) \/ Sync(w) \/ Fail(w) \/ CloseWriter(w)
Spec == Init /\ [][Next]_vars

(* ------------------------------- C21 ------------------------------------ *)
Read == phase = "read"
ExactlyOnceInOrder == Read => \A i \in 1..(Len(out) - 1) : out[i] < out[i + 1]
NothingForeign == Read => Range(out) \subseteq 1..(next - 1)
AckedSyncedPresent == Read => released \subseteq Range(out)
NoHoles == Read => Range(out) = 1..Len(out)
CleanCloseComplete == (Read /\ closed /\ ~closeErr /\ hist[Len(hist) - 1][1] = "STOP") => out = FromTo(1, next - 1)
(* a waiter is released only once its record is synced in some segment *)
ReleasedIsSynced == \A r \in released : \E w \in Writers : \E i \in 1..wr[w].synced : wr[w].q[i] = r
Inv == /\ ExactlyOnceInOrder /\ NothingForeign /\ AckedSyncedPresent /\ NoHoles /\ CleanCloseComplete
       /\ (BugPopBeyondSync \/ ReleasedIsSynced)

(* generator: print the schedule of a finished behaviour *)
EmitSched == Read => PrintT(<<"SCHED", hist>>)
=============================================================================
