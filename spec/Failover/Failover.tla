------------------------------ MODULE Failover ------------------------------
(* WAL failover: wal/failover_writer.go (failoverWriter, recordQueue),          *)
(* record.LogWriter in external-sync-queue mode (abstracted), a crash of the     *)
(* MemFS crash model, and wal/reader.go (virtualWALReader).                      *)
(*                                                                               *)
(* Records 1..N are written in order; record i carries sequence number i.         *)
(* Action <-> code:                                                               *)
(*   WriteRecord   failoverWriter.WriteRecord: recordQueue.push, then             *)
(*                 SyncRecordGeneralized on the current LogWriter (if any).       *)
(*                 recordQueue is an explicit ring: qbuf (qcap slots, 0 = zero    *)
(*                 entry), absolute indices head = next-1 and tail = qtail-1      *)
(*                 taken modulo qcap; push doubles a full ring and re-slots the   *)
(*                 live entries [tail, head) (i%n -> i%m), zeroes the slots of    *)
(*                 [lastTailObservedByProducer, tail) and then stores the entry   *)
(*                 at head%m (this order only).  The consumers (pop) and the switch snapshot read the   *)
(*                 entries back from the slots, so a misplaced / zeroed entry is  *)
(*                 replayed as an empty record and its waiter is never released.  *)
(*   SwitchStart   switchToNewDir: reserve slot nextWriterIndex, start async work *)
(*   CreateFile(w) logCreator (file create in the writer's directory)             *)
(*   DirSync(w)    dir.Sync; then, under ww.mu: if still the latest writer and    *)
(*                 not closed, snapshotAndSwitchWriter replays [tail, head) into  *)
(*                 the new LogWriter, else the LogWriter is closed unused         *)
(*   Flush(w)      LogWriter flush loop: Write of queued records to the file      *)
(*   Sync(w)       flush loop: Sync + ExternalSyncQueueCallback = doneSyncCallback *)
(*                 -> recordQueue.pop(index): waiters <= index released           *)
(*   Fail(w)       a Write/Sync of the file fails: the LogWriter is dead,         *)
(*                 doneSyncCallback(err) pops nothing                             *)
(*   CloseStart / CloseWriter(w) / CloseDone   failoverWriter.Close: every        *)
(*                 created LogWriter is closed (flush + sync); the last one with   *)
(*                 CloseWithLastQueuedRecord; then popAll(err)                    *)
(*   Crash         MemFS crash clone: per file, synced data survives, any prefix  *)
(*                 of the unsynced data may survive; a file whose directory entry  *)
(*                 was not synced may be missing                                  *)
(*   ReadLogical   wal.Scan + virtualWALReader: segments in logNameIndex order,   *)
(*                 per segment the readable prefix, dedup by lastSeqNum           *)
EXTENDS Integers, Sequences, FiniteSets, TLC

CONSTANTS N,            \* records
          W,            \* physical log writers (segments) at most
          SyncSet,      \* records that request a sync
          MaxFaults,
          QCap,         \* initial capacity of the recordQueue ring (code: initialBufferLen = 8192)
          BugDedupLT,       \* reader skips only seqnum < lastSeqNum
          BugNoReplay,      \* a switch does not replay the queued records into the new writer
          BugPopBeyondSync, \* doneSync pops every queued sync request, not only the synced ones
          BugGrowCopyUnwrapped, \* growth copies slot j to slot j (copy(new, old)) instead of re-slotting i%n -> i%m
          BugReclaimAfterPut,   \* the reclaim loop runs after the new entry is stored and may zero it: queue exactly
                                \* full, a pop, a push (the order of wal/failover_writer.go before fix af7513dfb)
          GenMode           \* schedule generation (-simulate): one crash outcome, no crash before half the records

VARIABLES next, qtail, qcap, qbuf, qlast, wr, nwi, cur, released, relerr, closing, closed, closeErr, faults, phase, disk, out, bad, hist
ring == <<qcap, qbuf, qlast>>
vars == <<next, qtail, ring, wr, nwi, cur, released, relerr, closing, closed, closeErr, faults, phase, disk, out, bad, hist>>
view == <<next, qtail, ring, wr, nwi, cur, released, relerr, closing, closed, closeErr, faults, phase, disk, out, bad>>

Writers == 0..(W - 1)
NoWriter == [st |-> "none", q |-> <<>>, written |-> 0, synced |-> 0, failed |-> FALSE, cl |-> FALSE]
Max(S) == CHOOSE x \in S : \A y \in S : y <= x
Range(s) == {s[i] : i \in 1..Len(s)}
FromTo(a, b) == [i \in 1..(b - a + 1) |-> a + i - 1]
H(e) == hist' = Append(hist, e)

(* ---- recordQueue ring: record r has queue index r - 1; index i lives in slot (i % capacity) ---- *)
Slot(i, m) == (i % m) + 1
QHead == next - 1
QTail == qtail - 1
Entry(i) == qbuf[Slot(i, qcap)]
Entries(a, b) == {Entry(i) : i \in a..b}
Snapshot == [k \in 1..(QHead - QTail) |-> Entry(QTail + k - 1)]          \* snapshotAndSwitchWriter
PushFull == QHead - QTail = qcap
PushCap == IF PushFull THEN 2 * qcap ELSE qcap
Grown == LET m == 2 * qcap IN
  IF BugGrowCopyUnwrapped THEN [j \in 1..m |-> IF j <= qcap THEN qbuf[j] ELSE 0]
  ELSE [j \in 1..m |-> IF \E i \in QTail..(QHead - 1) : Slot(i, m) = j
                       THEN qbuf[Slot(CHOOSE i \in QTail..(QHead - 1) : Slot(i, m) = j, qcap)] ELSE 0]
Pushed == LET m == PushCap
              b0 == IF PushFull THEN Grown ELSE qbuf
              zero(b) == [j \in 1..m |-> IF \E i \in qlast..(QTail - 1) : Slot(i, m) = j THEN 0 ELSE b[j]]
              put(b) == [b EXCEPT ![Slot(QHead, m)] = next]
          IN IF BugReclaimAfterPut THEN zero(put(b0)) ELSE put(zero(b0))

Init ==
  /\ qcap = QCap /\ qbuf = [j \in 1..QCap |-> 0] /\ qlast = 0 /\ bad = FALSE
  /\ next = 1 /\ qtail = 1 /\ wr = [w \in Writers |-> NoWriter] /\ nwi = 0 /\ cur = -1
  /\ released = {} /\ relerr = {} /\ closing = FALSE /\ closed = FALSE /\ closeErr = FALSE
  /\ faults = 0 /\ phase = "run" /\ disk = [w \in Writers |-> -1] /\ out = <<>> /\ hist = <<>>

Running == phase = "run"

WriteRecord ==
  /\ Running /\ ~closing /\ next <= N
  /\ qbuf' = Pushed /\ qcap' = PushCap /\ qlast' = QTail
  /\ wr' = (IF cur >= 0 /\ ~wr[cur].failed THEN [wr EXCEPT ![cur].q = Append(@, next)] ELSE wr)
  /\ next' = next + 1
  /\ hist' = hist \o (IF PushFull THEN << <<"GROW", QTail>> >> ELSE <<>>) \o << <<"W", next>> >>
  /\ UNCHANGED <<qtail, nwi, cur, released, relerr, closing, closed, closeErr, faults, phase, disk, out, bad>>

SwitchStart ==
  /\ Running /\ ~closed /\ nwi < W
  /\ (IF GenMode /\ nwi >= 2 THEN wr[nwi - 1].st \in {"ready", "createfailed"} ELSE TRUE)
  /\ wr' = [wr EXCEPT ![nwi].st = "creating"] /\ nwi' = nwi + 1 /\ H(<<"SW", nwi>>)
  /\ UNCHANGED <<next, ring, qtail, cur, released, relerr, closing, closed, closeErr, faults, phase, disk, out, bad>>

CreateFile(w) ==
  /\ Running /\ wr[w].st = "creating"
  /\ \E fail \in (IF faults < MaxFaults THEN {TRUE, FALSE} ELSE {FALSE}) :
       /\ faults' = (IF fail THEN faults + 1 ELSE faults)
       /\ wr' = [wr EXCEPT ![w].st = IF fail THEN "createfailed" ELSE "created"]
       /\ H(<<IF fail THEN "CRF" ELSE "CR", w>>)
  /\ UNCHANGED <<next, ring, qtail, nwi, cur, released, relerr, closing, closed, closeErr, phase, disk, out, bad>>

DirSync(w) ==
  /\ Running /\ wr[w].st = "created"
  /\ (IF w + 1 = nwi /\ ~closed
      THEN /\ wr' = [wr EXCEPT ![w].st = "ready", ![w].q = IF BugNoReplay THEN <<>> ELSE Snapshot]
           /\ cur' = w
      ELSE /\ wr' = [wr EXCEPT ![w].st = "unused", ![w].cl = TRUE]
           /\ cur' = cur)
  /\ H(<<"DS", w>>)
  /\ UNCHANGED <<next, ring, qtail, nwi, released, relerr, closing, closed, closeErr, faults, phase, disk, out, bad>>

Live(w) == wr[w].st = "ready" /\ ~wr[w].failed /\ ~wr[w].cl

(* the flush loop writes some of the records queued on this LogWriter *)
Flush(w) ==
  /\ Running /\ Live(w) /\ wr[w].written < Len(wr[w].q)
  /\ \E k \in (wr[w].written + 1)..Len(wr[w].q) : wr' = [wr EXCEPT ![w].written = k]
  /\ H(<<"FL", w>>)
  /\ UNCHANGED <<next, ring, qtail, nwi, cur, released, relerr, closing, closed, closeErr, faults, phase, disk, out, bad>>

SyncReq(w, upto) == {wr[w].q[i] : i \in 1..upto} \cap SyncSet \cap {r \in 1..N : r >= qtail}
Sync(w) ==
  /\ Running /\ Live(w) /\ wr[w].written > wr[w].synced
  /\ LET S == SyncReq(w, IF BugPopBeyondSync THEN Len(wr[w].q) ELSE wr[w].written) IN
     /\ S # {}
     /\ wr' = [wr EXCEPT ![w].synced = wr[w].written]
     /\ qtail' = Max({qtail, Max(S) + 1})
     /\ released' = released \cup (Entries(QTail, Max(S) - 1) \cap SyncSet)    \* pop(index): Done of the entries found in the slots
  /\ H(<<"SY", w>>)
  /\ UNCHANGED <<next, ring, nwi, cur, relerr, closing, closed, closeErr, faults, phase, disk, out, bad>>

Fail(w) ==
  /\ Running /\ Live(w) /\ faults < MaxFaults /\ Len(wr[w].q) > wr[w].synced
  /\ wr' = [wr EXCEPT ![w].failed = TRUE] /\ faults' = faults + 1 /\ H(<<"FAIL", w>>)
  /\ UNCHANGED <<next, ring, qtail, nwi, cur, released, relerr, closing, closed, closeErr, phase, disk, out, bad>>

CloseStart ==
  /\ Running /\ ~closing /\ nwi > 0 /\ (GenMode => (2 * next > N /\ cur >= 0)) /\ closing' = TRUE /\ H(<<"CLOSE", 0>>)
  /\ UNCHANGED <<next, ring, qtail, wr, nwi, cur, released, relerr, closed, closeErr, faults, phase, disk, out, bad>>

(* LogWriter.Close: flush everything, sync; the last writer also reports the last queued record *)
CloseWriter(w) ==
  /\ Running /\ closing /\ ~closed /\ Live(w)
  /\ wr' = [wr EXCEPT ![w].written = Len(wr[w].q), ![w].synced = Len(wr[w].q), ![w].cl = TRUE]
  /\ (IF w + 1 = nwi
      THEN qtail' = next /\ released' = released \cup (Entries(QTail, QHead - 1) \cap SyncSet)
      ELSE qtail' = qtail /\ released' = released)
  /\ H(<<"CLW", w>>)
  /\ UNCHANGED <<next, ring, nwi, cur, relerr, closing, closed, closeErr, faults, phase, disk, out, bad>>

LastDone == LET l == nwi - 1 IN wr[l].cl \/ wr[l].failed \/ wr[l].st = "createfailed"
CloseDone ==
  /\ Running /\ closing /\ ~closed /\ LastDone
  /\ closed' = TRUE
  /\ closeErr' = (wr[nwi - 1].failed \/ wr[nwi - 1].st = "createfailed")
  \* popAll(err): with an error the remaining waiters are released with it
  /\ relerr' = (IF wr[nwi - 1].failed \/ wr[nwi - 1].st = "createfailed"
                THEN relerr \cup (Entries(QTail, QHead - 1) \cap SyncSet) ELSE relerr)
  /\ H(<<"CLOSED", 0>>)
  /\ UNCHANGED <<next, ring, qtail, wr, nwi, cur, released, closing, faults, phase, disk, out, bad>>

HasFile(w) == wr[w].st \in {"created", "ready", "unused"}
(* crash: synced data survives, any prefix of written-but-unsynced data may;   *)
(* the file itself may be missing while its directory entry is unsynced         *)
Crash ==
  /\ Running /\ phase' = "crashed"
  /\ (GenMode => (2 * next > N /\ cur >= 0))
  /\ disk' \in (IF GenMode THEN {[w \in Writers |-> IF wr[w].st \in {"ready", "unused"} THEN wr[w].synced ELSE -1]}
                ELSE [Writers -> -1..N])
  /\ \A w \in Writers :
       IF ~HasFile(w) THEN disk'[w] = -1
       ELSE IF wr[w].st = "created" THEN disk'[w] \in {-1, 0}
       ELSE wr[w].synced <= disk'[w] /\ disk'[w] <= wr[w].written
  /\ H(<<"CRASH", 0>>)
  /\ UNCHANGED <<next, ring, qtail, wr, nwi, cur, released, relerr, closing, closed, closeErr, faults, out, bad>>

(* a clean stop: everything written is readable *)
Stop ==
  /\ Running /\ closed /\ phase' = "crashed"
  /\ disk' = [w \in Writers |-> IF HasFile(w) THEN wr[w].written ELSE -1]
  /\ H(<<"STOP", 0>>)
  /\ UNCHANGED <<next, ring, qtail, wr, nwi, cur, released, relerr, closing, closed, closeErr, faults, out, bad>>

(* virtualWALReader over the surviving segments; result <<records, bad>>.  An empty   *)
(* record (entry 0) is no batch: the reader stops with "invalid batch" (corruption).   *)
RECURSIVE Merge(_, _, _, _)
Merge(w, i, last, acc) ==
  IF w >= W THEN <<acc, FALSE>>
  ELSE IF disk[w] < 0 \/ i > disk[w] THEN Merge(w + 1, 1, last, acc)
  ELSE LET r == wr[w].q[i] IN
       IF r = 0 THEN <<acc, TRUE>>
       ELSE IF (IF BugDedupLT THEN r < last ELSE r <= last) THEN Merge(w, i + 1, last, acc)
       ELSE Merge(w, i + 1, r, Append(acc, r))
ReadLogical ==
  /\ phase = "crashed" /\ phase' = "read"
  /\ LET m == Merge(0, 1, 0, <<>>) IN out' = m[1] /\ bad' = m[2]
  /\ H(<<"READ", 0>>)
  /\ UNCHANGED <<next, ring, qtail, wr, nwi, cur, released, relerr, closing, closed, closeErr, faults, disk>>

Next == \/ WriteRecord \/ SwitchStart \/ CloseStart \/ CloseDone \/ Crash \/ Stop \/ ReadLogical
        \/ \E w \in Writers : CreateFile(w) \/ DirSync(w) \/ Flush(w) \/ Sync(w) \/ Fail(w) \/ CloseWriter(w)
Spec == Init /\ [][Next]_vars

(* ------------------------------- C21 ------------------------------------ *)
Read == phase = "read"
ExactlyOnceInOrder == Read => \A i \in 1..(Len(out) - 1) : out[i] < out[i + 1]
NothingForeign == Read => (Range(out) \subseteq 1..(next - 1) /\ ~bad)
AckedSyncedPresent == Read => released \subseteq Range(out)
NoHoles == Read => Range(out) = 1..Len(out)
CleanCloseComplete == (Read /\ closed /\ ~closeErr /\ hist[Len(hist) - 1][1] = "STOP") => out = FromTo(1, next - 1)
(* a waiter is released only once its record is synced in some segment *)
ReleasedIsSynced == \A r \in released : \E w \in Writers : \E i \in 1..wr[w].synced : wr[w].q[i] = r
(* once Close has returned every sync waiter has been signalled (pop / popAll found its Done) *)
AllWaitersReleased == closed => (SyncSet \cap 1..(next - 1)) \subseteq (released \cup relerr)
Inv == /\ AllWaitersReleased /\ ExactlyOnceInOrder /\ NothingForeign /\ AckedSyncedPresent /\ NoHoles /\ CleanCloseComplete
       /\ (BugPopBeyondSync \/ ReleasedIsSynced)

(* generator: print the schedule of a finished behaviour *)
EmitSched == Read => PrintT(<<"SCHED", hist>>)
=============================================================================
