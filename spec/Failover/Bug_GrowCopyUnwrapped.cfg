\* N records, at most W physical log writers (segments), SyncSet = records requesting sync,
\* MaxFaults = injected create/write/sync failures, QCap = initial ring capacity (doubles when full)
SPECIFICATION Spec
CONSTANTS
  N = 3
  W = 2
  SyncSet = {1, 3}
  QCap = 1
  MaxFaults = 0
  BugDedupLT = FALSE
  BugNoReplay = FALSE
  BugPopBeyondSync = FALSE
  BugGrowCopyUnwrapped = TRUE
  BugReclaimAfterPut = FALSE
  GenMode = FALSE
VIEW view
INVARIANT Inv
CHECK_DEADLOCK FALSE
