\* N records, at most W physical log writers (segments), SyncSet = records requesting sync,
\* MaxFaults = injected create/write/sync failures
SPECIFICATION Spec
CONSTANTS
  N = 3
  W = 3
  SyncSet = {1, 3}
  MaxFaults = 0
  BugDedupLT = FALSE
  BugNoReplay = FALSE
  BugPopBeyondSync = TRUE
  GenMode = FALSE
VIEW view
INVARIANT Inv
CHECK_DEADLOCK FALSE
