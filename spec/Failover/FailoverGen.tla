----------------------------- MODULE FailoverGen -----------------------------
(* Schedule generator: behaviours of Failover.tla (-simulate, GenMode), printed *)
(* as one JSON line when the logical log has been read.                         *)
EXTENDS Failover, Json
EmitJson == Read => PrintT(ToJson(hist))
=============================================================================
