SPECIFICATION Spec
CONSTANTS
  GenCat <- CatBlob
  GenLevels = {6}
  GenBlobIds = {1, 2}
  MaxEdits = 2
  MaxTabOps = 1
  GenMarks = FALSE
  BugMode = "AccBlobReplaceLost"
  Emit = FALSE
INVARIANT Inv
CHECK_DEADLOCK FALSE
