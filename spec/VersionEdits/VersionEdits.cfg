\* exhaustive: 3 physical tables (points / points+range keys / range keys only) over levels {0,5,6},
\* every base placement, <= 2 edits with <= 2 table operations (add / delete / move) each
\* (69853 distinct states; the engine generates further scopes: excise/virtual backings, blob files, marks, 3-4 edits)
SPECIFICATION Spec
CONSTANTS
  GenCat <- CatPhys3
  GenLevels = {0, 5, 6}
  GenBlobIds = {}
  MaxEdits = 2
  MaxTabOps = 2
  GenMarks = FALSE
  BugMode = "none"
  Emit = FALSE
INVARIANT Inv
INVARIANT GenValid
INVARIANT NormalForm
INVARIANT Declarative
CHECK_DEADLOCK FALSE
