SPECIFICATION Spec
CONSTANTS
  GenCat <- CatPhys2
  GenLevels = {0, 6}
  GenBlobIds = {}
  MaxEdits = 3
  MaxTabOps = 2
  GenMarks = FALSE
  BugMode = "AccMoveByNumber"
  Emit = FALSE
INVARIANT Inv
INVARIANT Declarative
CHECK_DEADLOCK FALSE
