SPECIFICATION Spec
CONSTANTS
  GenCat <- CatPhys2
  GenLevels = {0, 6}
  GenBlobIds = {}
  MaxEdits = 2
  MaxTabOps = 1
  GenMarks = TRUE
  BugMode = "AccMarkSurvivesDelete"
  Emit = FALSE
INVARIANT Inv
CHECK_DEADLOCK FALSE
