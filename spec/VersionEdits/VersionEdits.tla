---------------------------- MODULE VersionEdits ----------------------------
(* C23.  A version is                                                         *)
(*   lv : level (index 1..7 = pebble level 0..6) |-> set of table numbers,    *)
(*   bl : set of <<blob file id, physical blob file num>>   (BlobFileSet),    *)
(*   mk : set of <<level, table>> marked for compaction,                      *)
(*   bk : set of live virtual backings (disk file nums).                      *)
(* A version edit (internal/manifest/version_edit.go VersionEdit) is          *)
(*   del, add : sets of <<level, table>>   (a move = del at l + add at l'),   *)
(*   cb, rb   : created / removed backings, nb, db : new / deleted blob files,*)
(*   mk       : tables marked for compaction,                                 *)
(* plus transport-only fields (comparer, log numbers, next file num, last     *)
(* seqnum, excise records) that do not change the version.                    *)
(*   Apply(v, e)        mirrors BulkVersionEdit.Apply of one accumulated edit *)
(*   ApplySeq(v, es)    one edit at a time (the live DB: UpdateVersionLocked) *)
(*   Accumulate(es)     mirrors BulkVersionEdit.Accumulate (manifest replay)  *)
(* Property: SeqPre(v, es) => ApplySeq(v, es) = Apply(v, Accumulate(es)).     *)
(* A catalog (cat) gives every table number its static metadata:              *)
(*   [n, b (backing disk file num, 0 = physical), lo, hi (user keys), sl, sh  *)
(*    (seqnums), sz, ct, rk (0 points, 1 points+range keys, 2 range keys),    *)
(*    rkk (1 = no RANGEKEYSETs), refs (<<blob id, value size>>..), rd, sp]    *)
(* Generator + oracle, as L0Sublevels.                                        *)
EXTENDS Integers, Sequences, FiniteSets, TLC, Json

CONSTANTS GenCat,      \* generator: catalog (sequence of table records)
          GenLevels,   \* generator: pebble levels used (subset of 0..6)
          GenBlobIds,  \* generator: blob file ids
          MaxEdits, MaxTabOps, GenMarks,   \* generator bounds (GenMarks: BOOLEAN)
          BugMode, Emit

NLv == 7
ToSet(s) == {s[i] : i \in DOMAIN s}
Tab(cat, n) == cat[CHOOSE i \in DOMAIN cat : cat[i].n = n]
Nums(cat) == {cat[i].n : i \in DOMAIN cat}
Back(cat, n) == Tab(cat, n).b                \* 0 = physical
RefIds(cat, n) == {r[1] : r \in ToSet(Tab(cat, n).refs)}
Ids(bl) == {x[1] : x \in bl}
Phys(bl) == {x[2] : x \in bl}
AtLevel(S, l) == {x[2] : x \in {y \in S : y[1] = l}}

(* ------------------------------ Apply ------------------------------------ *)
(* BulkVersionEdit.Apply: per level remove the deleted tables, insert the     *)
(* added ones; blob files: remove Deleted (by id) then insert Added; marks:   *)
(* drop those of deleted tables, add the bulk's.  Backings are applied by the *)
(* version set from AddedFileBacking / RemovedFileBacking.                    *)
DelAt(e, l) ==
  LET d == AtLevel(e.del, l)
  IN IF BugMode = "ApplyRemovesOnePerLevel" /\ d # {} THEN {CHOOSE x \in d : \A y \in d : x <= y} ELSE d
Apply(v, e) ==
  [lv |-> [i \in 1..NLv |-> (v.lv[i] \ DelAt(e, i - 1)) \cup AtLevel(e.add, i - 1)],
   bl |-> {x \in v.bl : x[1] \notin Ids(e.db)} \cup e.nb,
   mk |-> (v.mk \ e.del) \cup e.mk,
   bk |-> (v.bk \ e.rb) \cup e.cb]
RECURSIVE ApplySeqR(_, _, _)
ApplySeqR(v, es, i) == IF i > Len(es) THEN v ELSE ApplySeqR(Apply(v, es[i]), es, i + 1)
ApplySeq(v, es) == ApplySeqR(v, es, 1)

(* ---------------------------- Accumulate --------------------------------- *)
EmptyBulk == [del |-> {}, add |-> {}, cb |-> {}, rb |-> {}, nb |-> {}, db |-> {}, mk |-> {}, err |-> FALSE]
AccStep(b, e) ==
  LET nb1  == {x \in b.nb : x[1] \notin Ids(e.nb)} \cup e.nb             \* Added[id] = physical (overwrites)
      res  == {d \in e.db : d \in nb1}                                   \* deletion resolved against an accumulated addition
      nb2  == IF BugMode = "AccBlobReplaceLost" THEN {x \in nb1 : x[1] \notin Ids(e.db)} ELSE nb1 \ res
      db2  == {x \in b.db : x[1] \notin Ids(e.db \ res)} \cup (e.db \ res)
      del2 == IF BugMode = "AccKeepsAddedThenDeleted" THEN b.del \cup e.del
              ELSE b.del \cup {d \in e.del : d \notin b.add}
      add1 == CASE BugMode = "AccKeepsAddedThenDeleted" -> b.add
                [] BugMode = "AccSetDifference" -> b.add     \* deletions subtracted at the end (see Accumulate)
                [] OTHER -> b.add \ e.del
      add2 == IF BugMode = "AccMoveByNumber" THEN {a \in add1 \cup e.add : a[2] \notin {d[2] : d \in e.del}}   \* adds first, deletes by number
              ELSE add1 \cup e.add
      mk2  == IF BugMode = "AccMarkSurvivesDelete" THEN b.mk \cup e.mk ELSE (b.mk \ e.del) \cup e.mk
      cbA  == b.cb \cup e.cb
  IN [del |-> del2, add |-> add2, nb |-> nb2, db |-> db2, mk |-> mk2,
      cb |-> cbA \ e.rb, rb |-> b.rb \cup (e.rb \ cbA),
      err |-> b.err \/ (e.add \cap del2 # {})]       \* "file deleted L.n before it was inserted"
RECURSIVE AccR(_, _, _)
AccR(b, es, i) == IF i > Len(es) THEN b ELSE AccR(AccStep(b, es[i]), es, i + 1)
AllDel(es) == UNION {es[i].del : i \in DOMAIN es}
Accumulate(es) ==
  LET b == AccR(EmptyBulk, es, 1)
  IN IF BugMode = "AccSetDifference" THEN [b EXCEPT !.add = b.add \ AllDel(es)] ELSE b

(* ---------------------------- validity ----------------------------------- *)
LevelOf(v, n) == {l \in 0..(NLv - 1) : n \in v.lv[l + 1]}
Present(v) == UNION {v.lv[i] : i \in 1..NLv}
Disjoint(a, b) == a.hi < b.lo \/ b.hi < a.lo
(* a version the real Apply accepts: a table in one level only; L1+ key-disjoint; L0 distinct seqnums; *)
(* backings / blob files referenced exist; physical table and its virtualization never coexist.        *)
VersionOk(cat, v) ==
  /\ \A n \in Present(v) : n \in Nums(cat) /\ Cardinality(LevelOf(v, n)) = 1
  /\ \A i \in 2..NLv : \A n, m \in v.lv[i] : n # m => Disjoint(Tab(cat, n), Tab(cat, m))
  /\ \A n, m \in v.lv[1] : n # m => Tab(cat, n).sh # Tab(cat, m).sh
  /\ \A n \in Present(v) : /\ (Back(cat, n) # 0 => Back(cat, n) \in v.bk)
                           /\ (Back(cat, n) = 0 => n \notin v.bk)
                           /\ RefIds(cat, n) \subseteq Ids(v.bl)
  /\ \A x, y \in v.bl : x[1] = y[1] => x = y
  /\ v.mk \subseteq {<<l, n>> \in (0..(NLv - 1)) \X Present(v) : n \in v.lv[l + 1]}
EditPre(cat, v, e) ==
  /\ \A d \in e.del : d[1] \in 0..(NLv - 1) /\ d[2] \in v.lv[d[1] + 1]          \* deleted: exists at that level
  /\ \A a \in e.add : a[1] \in 0..(NLv - 1) /\ a[2] \in Nums(cat) /\ a[2] \notin v.lv[a[1] + 1]   \* added: not there
  /\ \A a, c \in e.add : a[2] = c[2] => a = c
  /\ e.cb \cap v.bk = {} /\ e.rb \subseteq v.bk /\ e.rb \cap e.cb = {}
  /\ e.db \subseteq v.bl
  /\ \A x \in e.nb : x[2] \notin Phys(v.bl) /\ (x[1] \in Ids(v.bl) => x[1] \in Ids(e.db))
  /\ \A x, y \in e.nb : (x[1] = y[1] \/ x[2] = y[2]) => x = y
  /\ e.mk \cap (v.mk \ e.del) = {}
  /\ VersionOk(cat, Apply(v, e))
RECURSIVE SeqOkR(_, _, _, _)
SeqOkR(cat, v, es, i) == IF i > Len(es) THEN TRUE ELSE EditPre(cat, v, es[i]) /\ SeqOkR(cat, Apply(v, es[i]), es, i + 1)
(* BulkVersionEdit invariants over one accumulation: a table of the base version deleted from a level is *)
(* not added to that level again; a backing is created / removed once; physical blob files are fresh.   *)
BulkOk(v, es) ==
  /\ \A i, j \in DOMAIN es : i < j => \A d \in es[i].del : ~(d[2] \in v.lv[d[1] + 1] /\ d \in es[j].add)
  /\ \A i, j \in DOMAIN es : i # j => /\ es[i].cb \cap es[j].cb = {} /\ es[i].rb \cap es[j].rb = {}
                                      /\ Phys(es[i].nb) \cap Phys(es[j].nb) = {}
  /\ \A j \in DOMAIN es : es[j].cb \cap v.bk = {}
SeqPre(cat, v, es) == VersionOk(cat, v) /\ SeqOkR(cat, v, es, 1) /\ BulkOk(v, es) /\ ~Accumulate(es).err
Law(v, es) == ApplySeq(v, es) = Apply(v, Accumulate(es))

(* ------------------- JSON (trace / emitted) form -> internal -------------- *)
P2(s) == {<<x[1], x[2]>> : x \in ToSet(s)}
VOf(jv) == [lv |-> [i \in 1..NLv |-> ToSet(jv.lv[i])], bl |-> P2(jv.bl), mk |-> P2(jv.mk), bk |-> ToSet(jv.bk)]
EOf(je) == [del |-> P2(je.del), add |-> P2(je.add), cb |-> {x[1] : x \in ToSet(je.cb)}, rb |-> ToSet(je.rb),
            nb |-> P2(je.nb), db |-> P2(je.db), mk |-> P2(je.mk)]
EsOf(jes) == [i \in DOMAIN jes |-> EOf(jes[i])]
JsonShapeOk(in) ==
  /\ Len(in.v0.lv) = NLv
  /\ \A i, j \in DOMAIN in.tabs : i # j => in.tabs[i].n # in.tabs[j].n
  /\ \A i \in DOMAIN in.tabs : LET t == in.tabs[i] IN t.n > 0 /\ t.lo <= t.hi /\ t.sl <= t.sh /\ t.b >= 0 /\ t.b # t.n
  (* ASSUMPTION (finding on the unchanged tree, reported): Encode writes a table with range keys as tagNewFile5 and   *)
  (* terminates the custom-tag list only if the table has a custom field (creation time, virtual, blob references,   *)
  (* no-RANGEKEYSETs); Decode always reads a custom-tag list after tagNewFile5.  A range-key table with none of these *)
  (* does not round-trip.  pebble always sets CreationTime, so such tables are outside the valid edits.               *)
  /\ \A i \in DOMAIN in.tabs : LET t == in.tabs[i] IN (t.b = 0 => t.sp = 0) /\ (t.rk # 0 => t.lo < t.hi) /\ t.rk \in {0, 1, 2} /\ t.rkk \in {0, 1}
  /\ \A k \in DOMAIN in.es : LET je == in.es[k] IN
        /\ Len(je.del) = Cardinality(P2(je.del)) /\ Len(je.add) = Cardinality(P2(je.add))
        /\ Len(je.cb) = Cardinality(ToSet(je.cb)) /\ Len(je.rb) = Cardinality(ToSet(je.rb))
        /\ Len(je.nb) = Cardinality(P2(je.nb)) /\ Len(je.db) = Cardinality(P2(je.db)) /\ Len(je.mk) = Cardinality(P2(je.mk))
Pre(in) == JsonShapeOk(in) /\ SeqPre(in.tabs, VOf(in.v0), EsOf(in.es))

(* ---------------- the relation between input and real output -------------- *)
(* what Decode(Encode(e)) must contain, per added table: all catalog metadata *)
ExpAdd(cat, a) ==
  LET t == Tab(cat, a[2]) IN
  [l |-> a[1], n |-> t.n, b |-> t.b,
   plo |-> IF t.rk = 2 THEN -1 ELSE t.lo, phi |-> IF t.rk = 2 THEN -1 ELSE t.hi,
   rlo |-> IF t.rk = 0 THEN -1 ELSE t.lo, rhi |-> IF t.rk = 0 THEN -1 ELSE t.hi,
   lo |-> t.lo, hi |-> t.hi, sl |-> t.sl, sh |-> t.sh, sz |-> t.sz, ct |-> t.ct,
   rkk |-> IF t.rk = 0 THEN 0 ELSE t.rkk, refs |-> t.refs, rd |-> t.rd, sp |-> t.sp]
DecOk(cat, je, d) ==
  /\ P2(d.del) = P2(je.del) /\ Len(d.del) = Len(je.del)
  /\ d.add = [k \in DOMAIN je.add |-> ExpAdd(cat, je.add[k])]
  /\ d.cb = je.cb /\ d.rb = je.rb /\ d.nb = je.nb
  /\ ToSet(d.db) = ToSet(je.db) /\ Len(d.db) = Len(je.db)
  /\ d.mk = je.mk /\ d.ex = je.ex
  /\ d.cmp = je.cmp /\ d.log = je.log /\ d.prev = je.prev /\ d.nfn = je.nfn /\ d.lsn = je.lsn
EffBack(cat, n) == IF Back(cat, n) = 0 THEN n ELSE Back(cat, n)
(* per-level table list of a real Version: exactly the spec's set, each with its backing, in level order *)
LevelOk(cat, S, lst, l) ==
  /\ {x[1] : x \in ToSet(lst)} = S /\ Len(lst) = Cardinality(S)
  /\ \A k \in DOMAIN lst : lst[k][2] = EffBack(cat, lst[k][1])
  /\ \A k \in 1..(Len(lst) - 1) : IF l = 0 THEN Tab(cat, lst[k][1]).sh < Tab(cat, lst[k + 1][1]).sh
                                           ELSE Tab(cat, lst[k][1]).hi < Tab(cat, lst[k + 1][1]).lo
RECURSIVE BkFold(_, _, _)
BkFold(bk, ops, i) == IF i > Len(ops) THEN bk ELSE BkFold((bk \ ToSet(ops[i].r)) \cup ToSet(ops[i].a), ops, i + 1)
VerOk(cat, bk0, w, r) ==
  /\ ~r.err
  /\ Len(r.lv) = NLv /\ \A i \in 1..NLv : LevelOk(cat, w.lv[i], r.lv[i], i - 1)
  /\ P2(r.bl) = w.bl /\ Len(r.bl) = Cardinality(w.bl)
  /\ P2(r.mk) = w.mk /\ Len(r.mk) = Cardinality(w.mk)
  /\ BkFold(bk0, r.bkops, 1) = w.bk
VeOk(in, o) ==
  LET cat == in.tabs
      v0 == VOf(in.v0)
      w == ApplySeq(v0, EsOf(in.es)) IN
  /\ ~o.err
  /\ Len(o.dec) = Len(in.es) /\ \A i \in DOMAIN in.es : DecOk(cat, in.es[i], o.dec[i])
  /\ VerOk(cat, v0.bk, w, o.seq)      \* in-memory edits, one at a time              (live DB)
  /\ VerOk(cat, v0.bk, w, o.seqdec)   \* decoded edits, one at a time                (manifest check tool)
  /\ VerOk(cat, v0.bk, w, o.bulk)     \* decoded edits, accumulated, applied to v0
  /\ VerOk(cat, {}, w, o.bulk0)    \* decoded snapshot of v0 + edits, accumulated, applied to the empty version (recovery)

(* ------------------------------ generator -------------------------------- *)
VARIABLES v0, es, cur, ph
vars == <<v0, es, cur, ph>>
EmptyV == [lv |-> [i \in 1..NLv |-> {}], bl |-> {}, mk |-> {}, bk |-> {}]
GN == Nums(GenCat)
NeededBk(v) == {Back(GenCat, n) : n \in {m \in Present(v) : Back(GenCat, m) # 0}}
Init == v0 = EmptyV /\ es = <<>> /\ cur = EmptyV /\ ph = "base"
(* base version: every placement of the catalog's tables; blob files: any superset of the referenced ones *)
Base(pl, bids) ==
  /\ ph = "base"
  /\ LET v1 == [EmptyV EXCEPT !.lv = [i \in 1..NLv |-> {n \in GN : pl[n] = i - 1}]]
         v == [v1 EXCEPT !.bl = {<<id, 10 * id>> : id \in bids}, !.bk = NeededBk(v1)]
     IN /\ VersionOk(GenCat, v)
        /\ v0' = v /\ cur' = v
  /\ ph' = "edits" /\ UNCHANGED es
(* one edit: per table nothing / delete / add-or-move to a level; blob ops; marks; backings follow *)
TabEdit(ch) ==
  [del |-> {<<l, n>> \in GenLevels \X GN : n \in cur.lv[l + 1] /\ ch[n] # -2},
   add |-> {<<l, n>> \in GenLevels \X GN : ch[n] = l}]
Edit(ch, nbids, dbs, rbs, mks) ==
  /\ ph = "edits" /\ Len(es) < MaxEdits
  /\ Cardinality({n \in GN : ch[n] # -2}) <= MaxTabOps
  /\ \A n \in GN : /\ (ch[n] = -1 => n \in Present(cur))
                   /\ (ch[n] >= 0 => n \notin cur.lv[ch[n] + 1])
  /\ LET k == Len(es) + 1
         te == TabEdit(ch)
         e0 == [del |-> te.del, add |-> te.add, cb |-> {}, rb |-> rbs,
                nb |-> {<<id, 10 * id + k>> : id \in nbids}, db |-> dbs, mk |-> mks]
         v1 == Apply(cur, e0)
         e == [e0 EXCEPT !.cb = NeededBk(v1) \ cur.bk]
     IN /\ EditPre(GenCat, cur, e)
        /\ es' = Append(es, e) /\ cur' = Apply(cur, e)
        /\ BulkOk(v0, es') /\ ~Accumulate(es').err
  /\ UNCHANGED <<v0, ph>>
MarkChoices == IF GenMarks THEN {S \in SUBSET {<<l, n>> \in GenLevels \X GN : TRUE} : Cardinality(S) <= 1} ELSE {{}}
Next == \/ \E pl \in [GN -> GenLevels \cup {-1}], bids \in SUBSET GenBlobIds : Base(pl, bids)
        \/ \E ch \in [GN -> GenLevels \cup {-1, -2}], nbids \in SUBSET GenBlobIds, dbs \in SUBSET cur.bl,
              rbs \in SUBSET cur.bk, mks \in MarkChoices : Edit(ch, nbids, dbs, rbs, mks)
Spec == Init /\ [][Next]_vars

Inv == (ph = "edits" /\ SeqPre(GenCat, v0, es)) => Law(v0, es)
(* independent characterisation of the result: a table is at a level iff the last edit touching that   *)
(* (level, table) added it, or none touched it and the base version had it there                        *)
LastOp(l, n) == LET S == {i \in DOMAIN es : <<l, n>> \in es[i].add \cup es[i].del}
                IN IF S = {} THEN 0 ELSE LET m == CHOOSE i \in S : \A j \in S : j <= i IN IF <<l, n>> \in es[m].add THEN 1 ELSE 2
Declarative == ph = "edits" => \A l \in 0..(NLv - 1), n \in GN :
                  (n \in ApplySeq(v0, es).lv[l + 1]) = (LastOp(l, n) = 1 \/ (LastOp(l, n) = 0 /\ n \in v0.lv[l + 1]))
(* the generator only produces valid sequences *)
GenValid == ph = "edits" => SeqPre(GenCat, v0, es)
(* the accumulated bulk edit is in normal form (BulkVersionEdit doc comment) *)
NormalForm == ph = "edits" => LET b == Accumulate(es) IN b.add \cap b.del = {} /\ b.cb \cap b.rb = {}

(* emitted JSON: transport-only fields derived deterministically from the position *)
SeqOfSet(S) == LET RECURSIVE R(_) R(T) == IF T = {} THEN <<>> ELSE LET m == CHOOSE x \in T : \A y \in T : (x[1] < y[1] \/ (x[1] = y[1] /\ x[2] <= y[2])) IN <<m>> \o R(T \ {m}) IN R(S)
SeqOfInts(S) == LET RECURSIVE R(_) R(T) == IF T = {} THEN <<>> ELSE LET m == CHOOSE x \in T : \A y \in T : x <= y IN <<m>> \o R(T \ {m}) IN R(S)
MapSeq(s, F(_)) == [i \in DOMAIN s |-> F(s[i])]
CbRec(b) == <<b, 4096 + b>>
NbRec(x) == <<x[1], x[2], 1000 + x[2], 500 + x[2], 1700000000 + x[2]>>
JE(k) == LET e == es[k] IN
  [del |-> SeqOfSet(e.del), add |-> SeqOfSet(e.add), cb |-> MapSeq(SeqOfInts(e.cb), CbRec), rb |-> SeqOfInts(e.rb),
   nb |-> MapSeq(SeqOfSet(e.nb), NbRec), db |-> SeqOfSet(e.db), mk |-> SeqOfSet(e.mk),
   ex |-> IF k = 2 THEN << <<1, 3, 1, 7>>, <<4, 4, 0, 9>> >> ELSE <<>>,
   cmp |-> IF k = 1 THEN 1 ELSE 0, log |-> IF k % 2 = 1 THEN 100 + k ELSE 0, prev |-> IF k = 3 THEN 7 ELSE 0,
   nfn |-> IF k = 2 THEN 0 ELSE 200 + k, lsn |-> IF k = 1 THEN 0 ELSE 1000 * k]
JV(v) == [lv |-> [i \in 1..NLv |-> SeqOfInts(v.lv[i])], bl |-> SeqOfSet(v.bl), mk |-> SeqOfSet(v.mk), bk |-> SeqOfInts(v.bk)]
Input == [tabs |-> GenCat, v0 |-> JV(v0), es |-> [k \in DOMAIN es |-> JE(k)]]
EmitInv == (Emit /\ ph = "edits" /\ es # <<>>) => PrintT(ToJson(Input))

(* ------------------------ generator catalogs ----------------------------- *)
T(n, b, lo, hi, sl, sh, rk, rkk, refs, sp) ==
  [n |-> n, b |-> b, lo |-> lo, hi |-> hi, sl |-> sl, sh |-> sh, sz |-> 1000 + 13 * n, ct |-> IF n % 2 = 0 THEN 1700000000 + n ELSE 0,
   rk |-> rk, rkk |-> rkk, refs |-> refs, rd |-> Len(refs), sp |-> sp]
(* two / three plain physical tables with disjoint ranges *)
CatPhys2 == << T(1, 0, 10, 19, 1, 5, 0, 0, <<>>, 0), T(2, 0, 30, 39, 6, 9, 1, 0, <<>>, 0) >>
CatPhys3 == CatPhys2 \o << T(3, 0, 50, 59, 10, 12, 2, 1, <<>>, 0) >>
CatPhys4 == CatPhys3 \o << T(4, 0, 15, 35, 13, 13, 0, 0, <<>>, 0) >>       \* overlaps 1 and 2: only on another level
(* excise: physical 1 replaced by virtual 5 and 6 sharing backing 1; 7 virtual on a foreign backing 90 *)
CatExcise == << T(1, 0, 10, 19, 1, 5, 0, 0, <<>>, 0), T(5, 1, 10, 12, 1, 5, 0, 0, <<>>, 0), T(6, 1, 17, 19, 1, 5, 1, 1, <<>>, 1),
                T(7, 90, 30, 39, 20, 20, 0, 0, <<>>, 3) >>
(* blob files: 1 references blob 1; 2 references blobs 1 and 2; 8 virtual piece of 2 with the same references *)
CatBlob == << T(1, 0, 10, 19, 1, 5, 0, 0, << <<1, 100>> >>, 0), T(2, 0, 30, 39, 6, 9, 0, 0, << <<1, 50>>, <<2, 70>> >>, 0),
              T(8, 2, 30, 33, 6, 9, 0, 0, << <<1, 20>>, <<2, 30>> >>, 0) >>
=============================================================================
