-------------------------- MODULE VersionEditsTrace --------------------------
(* C23 binding: "in" = catalog + base version + edit sequence materialised as  *)
(* real VersionEdits by the Go driver; "out" = what Decode(Encode(e)) held for *)
(* every edit and the per-level table lists / blob files / marks / backings of *)
(* the real Versions produced one edit at a time and through one               *)
(* BulkVersionEdit.  TLC decides Pre(in), the spec's own law on that input,    *)
(* and VeOk(in, out).                                                          *)
EXTENDS VersionEdits

Trace == ndJsonDeserialize("trace.ndjson")
VARIABLES tl, cur_in, adm
tvars == <<tl, cur_in, adm, v0, es, cur, ph>>
None == [none |-> TRUE]
Ev == Trace[tl]

TraceInit == tl = 1 /\ cur_in = None /\ adm = FALSE /\ Init /\ TLCSet(1, 0) /\ TLCSet(2, 0)
In == /\ tl <= Len(Trace) /\ Ev.op = "in" /\ cur_in = None
      /\ cur_in' = Ev.c /\ adm' = Pre(Ev.c) /\ tl' = tl + 1
      /\ ((Ev.must => adm') = TRUE)
      (* the spec's law must hold on every admissible input (a failure here is the spec's problem) *)
      /\ ((adm' => Law(VOf(Ev.c.v0), EsOf(Ev.c.es))) = TRUE)
      /\ UNCHANGED vars
Out == /\ tl <= Len(Trace) /\ Ev.op = "out" /\ cur_in # None
       /\ ((adm => VeOk(cur_in, Ev.o)) = TRUE)
       /\ (IF adm THEN TRUE ELSE TLCSet(2, TLCGet(2) + 1))
       /\ cur_in' = None /\ adm' = FALSE /\ tl' = tl + 1
       /\ UNCHANGED vars
TraceNext == In \/ Out
TraceSpec == TraceInit /\ [][TraceNext]_tvars

HWM == IF tl - 1 > TLCGet(1) THEN TLCSet(1, tl - 1) ELSE TRUE
TraceAccepted == PrintT(<<"HWM", TLCGet(1)>>) /\ PrintT(<<"VACUOUS", TLCGet(2)>>) /\ TLCGet(1) = Len(Trace)
=============================================================================
