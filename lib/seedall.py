#!/usr/bin/env python3
"""seedall.py [--jobs N] [--tier quick] [id ...]: run our checks against the kept seeded changes.

For every entry of /verif/seeded/INDEX.json (or the ids given): make a scratch worktree of /repo
(outside /repo and /verif), apply seeded/<id>/patch.diff, run the listed checks with
VERIF_REPO=<worktree> (so /repo itself is never touched), record the exit codes in
seeded/<id>/result.txt and seeded/<id>/meta.json, and remove the worktree.
exit code of a check: 1 = VIOLATION reported (caught), 0 = missed, 2 = inconclusive."""
import concurrent.futures, datetime, json, os, re, subprocess, sys

SEEDED = '/verif/seeded'


def sh(cmd, **kw):
    return subprocess.run(cmd, shell=True, capture_output=True, text=True, **kw)


def one(sid, ent, tier):
    d = os.path.join(SEEDED, sid)
    wt = '/var/tmp/vfy_' + sid
    sh('git -C /repo worktree remove --force %s' % wt)
    r = sh('git -C /repo worktree add --detach %s HEAD -q' % wt)
    if r.returncode != 0:
        return sid, {'error': 'worktree: ' + r.stderr[-300:]}
    res = {}
    try:
        r = sh('git apply %s/patch.diff' % d, cwd=wt)
        if r.returncode != 0:
            return sid, {'error': 'patch does not apply: ' + r.stderr[-300:]}
        r = sh('GOFLAGS=-mod=mod GOPROXY=off go build ./...', cwd=wt)
        if r.returncode != 0:
            return sid, {'error': 'does not compile: ' + r.stderr[-300:]}
        for p in ent['checks']:
            env = dict(os.environ, VERIF_REPO=wt, VERIF_OUTSUFFIX='.' + sid)
            r = subprocess.run('timeout 3400 python3 vcheck run %s --tier %s' % (p, tier), shell=True, cwd='/verif',
                               capture_output=True, text=True, env=env)
            open(os.path.join(d, 'check_%s.log' % p), 'w').write(r.stdout[-20000:] + r.stderr[-4000:])
            res[p] = r.returncode
    finally:
        sh('git -C /repo worktree remove --force %s' % wt)
    return sid, res


def write_meta(sid, ent, res, tier):
    d = os.path.join(SEEDED, sid)
    demo = {}
    old = os.path.join(d, 'result.txt')
    if os.path.exists(old):
        m = re.search(r'demo_without=(\d+) demo_with=(\d+)', open(old).read())
        if m:
            demo = {'exit_without_change': int(m.group(1)), 'exit_with_change': int(m.group(2))}
    democmd = ''
    if os.path.exists(os.path.join(d, 'demo_cmd.txt')):
        ls = [l for l in open(os.path.join(d, 'demo_cmd.txt')).read().splitlines() if l.strip() and not l.startswith('#')]
        democmd = ls[-1] if ls else ''
    verdict = {p: {1: 'caught', 0: 'missed'}.get(rc, 'inconclusive(exit %d)' % rc) for p, rc in res.items() if p != 'error'}
    meta = {
        'id': sid, 'property': ent['property'], 'change': ent['site'], 'needs_to_manifest': ent['needs'],
        'origin': 'independent sub-agent given only the property text and a scratch worktree; nothing from /verif',
        'demonstration': {'cmd': democmd, **demo,
                          'confirmed_by': 'lib/seedcheck.sh in a scratch worktree: demonstration passes without the change and fails with it; the change compiles; the agent ran the touched packages\' tests (see notes.md)'},
        'ran': ['git worktree add /var/tmp/vfy_%s; git apply patch.diff; go build ./...' % sid] +
               ['VERIF_REPO=/var/tmp/vfy_%s python3 vcheck run %s --tier %s' % (sid, p, tier) for p in ent['checks']],
        'checks': verdict,
        'caught_by': sorted(p for p, v in verdict.items() if v == 'caught'),
        'missed_by': sorted(p for p, v in verdict.items() if v == 'missed'),
        'date': datetime.date.today().isoformat(),
    }
    if 'error' in res:
        meta['error'] = res['error']
    json.dump(meta, open(os.path.join(d, 'meta.json'), 'w'), indent=1)
    keep = ''
    if os.path.exists(old):
        m = re.search(r'(demo_without=\d+ demo_with=\d+)', open(old).read())
        keep = m.group(1) if m else ''
    open(old, 'w').write('RESULT id=%s %s checks: %s\n' % (sid, keep, ' '.join('%s=%s' % kv for kv in res.items())))


def main():
    args = sys.argv[1:]
    jobs, tier = 2, 'quick'
    while args and args[0].startswith('--'):
        if args[0] == '--jobs':
            jobs = int(args[1]); args = args[2:]
        elif args[0] == '--tier':
            tier = args[1]; args = args[2:]
        else:
            sys.exit('usage')
    idx = {k: v for k, v in json.load(open(os.path.join(SEEDED, 'INDEX.json'))).items() if not k.startswith('_')}
    ids = args or sorted(idx)
    with concurrent.futures.ThreadPoolExecutor(jobs) as ex:
        futs = [ex.submit(one, sid, idx[sid], tier) for sid in ids]
        for f in concurrent.futures.as_completed(futs):
            sid, res = f.result()
            write_meta(sid, idx[sid], res, tier)
            print('SEED %s %s' % (sid, ' '.join('%s=%s' % kv for kv in res.items())), flush=True)


if __name__ == '__main__':
    main()
