#!/usr/bin/env python3
"""mutprep.py Cxx...: prepare a scratch worktree /var/tmp/mut_<Cxx> and a prompt
/var/tmp/mutout_<Cxx>/prompt.txt for an independent mutation agent (the agent gets only the
property text and its own worktree; nothing from /verif)."""
import json, os, shutil, subprocess, sys

props = {x['id']: x for x in (json.loads(l) for l in open('/verif/properties.jsonl'))}
tmpl = open('/verif/lib/mut_prompt_template.txt').read()
for pid in sys.argv[1:]:
    pr = props[pid]
    out = '/var/tmp/mutout_' + pid
    wt = '/var/tmp/mut_' + pid
    shutil.rmtree(out, ignore_errors=True)
    os.makedirs(out)
    subprocess.run(['git', '-C', '/repo', 'worktree', 'remove', '--force', wt], capture_output=True)
    subprocess.run(['git', '-C', '/repo', 'worktree', 'add', '--detach', wt, 'HEAD', '-q'], check=True)
    body = "%s: %s\n\n%s\n\nQuantified over: %s (%s)" % (
        pid, pr['title'], pr['statement'], ', '.join(pr['quantifier']['over']), pr['quantifier']['text'])
    txt = tmpl.replace('WORKTREE', wt).replace('PROPERTY_TEXT', body).replace('OUTDIR', out).replace('p_ID.diff', 'p_%s.diff' % pid)
    open(out + '/prompt.txt', 'w').write(txt)
    print('prepared', pid)
