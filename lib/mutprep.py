#!/usr/bin/env python3
"""mutprep.py Cxx...: prepare a scratch worktree /var/tmp/mut_<Cxx> and a prompt
/var/tmp/mutout_<Cxx>/prompt.txt for an independent mutation agent (the agent gets only the
property text and its own worktree; nothing from /verif)."""
import json, os, shutil, subprocess, sys

props = {x['id']: x for x in (json.loads(l) for l in open('/verif/properties.jsonl'))}
tmpl = open('/verif/lib/mut_prompt_template.txt').read()
for arg in sys.argv[1:]:
    # "C10" or "C10.2=<ideas already used, to be avoided>"
    avoid = ''
    if '=' in arg:
        arg, avoid = arg.split('=', 1)
    pid = arg.split('.')[0]
    tag = arg.replace('.', '_')
    pr = props[pid]
    out = '/var/tmp/mutout_' + tag
    wt = '/var/tmp/mut_' + tag
    shutil.rmtree(out, ignore_errors=True)
    os.makedirs(out)
    subprocess.run(['git', '-C', '/repo', 'worktree', 'remove', '--force', wt], capture_output=True)
    subprocess.run(['git', '-C', '/repo', 'worktree', 'add', '--detach', wt, 'HEAD', '-q'], check=True)
    body = "%s: %s\n\n%s\n\nQuantified over: %s (%s)" % (
        pid, pr['title'], pr['statement'], ', '.join(pr['quantifier']['over']), pr['quantifier']['text'])
    if avoid:
        body += "\n\n(Another engineer already used this idea; choose a DIFFERENT site and mechanism: %s)" % avoid
    txt = tmpl.replace('WORKTREE', wt).replace('PROPERTY_TEXT', body).replace('OUTDIR', out).replace('p_ID.diff', 'p_%s.diff' % tag)
    open(out + '/prompt.txt', 'w').write(txt)
    print('prepared', tag)
