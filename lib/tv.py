# ad-hoc: run driver for a profile and validate. usage: tv.py PROFILE scripts steps configs [seed]
import sys,glob,time,os,shutil,subprocess
sys.path.insert(0,'/verif/lib')
import vlib
prof,scripts,steps,cfgs=sys.argv[1:5]
seed=sys.argv[5] if len(sys.argv)>5 else '1'
d='/var/tmp/tv_'+prof
shutil.rmtree(d,ignore_errors=True); os.makedirs(d)
env=dict(VERIF_OUT=d,VERIF_PROFILE=prof,VERIF_SCRIPTS=scripts,VERIF_STEPS=steps,VERIF_CONFIGS=cfgs,VERIF_SEED=seed)
t=time.time()
rc,out=vlib.run_driver('/verif/bin/drv/internal_verif_dbdrv.test','TestDrive',env=env)
print('driver rc',rc,'%.1fs'%(time.time()-t)); print('\n'.join(l for l in out.splitlines() if 'DRIVER' in l or 'panic' in l or 'FAIL' in l)[:3000])
files=sorted(glob.glob(d+'/*.ndjson'))
bad=0
# validate all concatenated; on rejection, find the file and continue after it
while files:
    n=vlib.concat_traces(files,d+'/all.nd')
    t=time.time()
    v=vlib.validate_trace('/verif/spec/KV','KVTrace','KVTrace.cfg',d+'/all.nd')
    print('accepted',v.accepted,'hwm',v.hwm,'of',v.total,'%.1fs'%(time.time()-t))
    if v.accepted: break
    if v.tlc.violation or 'Error' in v.tlc.out:
        print(v.tlc.out[-2500:])
    # locate file
    c=0
    for i,f in enumerate(files):
        k=sum(1 for _ in open(f))+1
        if c+k>v.hwm:
            print('REJECT in',f,'line',v.hwm-c+1,':',str(v.rejected_line)[:600]); bad+=1
            files=files[i+1:]; break
        c+=k
    else: break
    if bad>=5: break
print('rejected traces:',bad)
