import sys
sys.path.insert(0,'/verif/lib')
import vlib
try:
    print(vlib.build_driver(sys.argv[1]))
except vlib.Inconclusive as e:
    print(e); sys.exit(2)
