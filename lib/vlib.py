"""Shared machinery for /verif checks: TLC runner, Go driver builder, trace
validation, evidence writer, known findings.  Standard library only."""
import atexit, json, os, re, shutil, subprocess, sys, tempfile, time, hashlib

VERIF = os.path.dirname(os.path.dirname(os.path.abspath(__file__)))
REPO = os.environ.get("VERIF_REPO", "/repo")
SPEC = os.path.join(VERIF, "spec")
OVERLAY = os.path.join(VERIF, "harness", "overlay")
BIN = os.path.join(VERIF, "bin")
OUT = os.path.join(VERIF, "out")
EVID = os.path.join(VERIF, "evidence")
if os.environ.get("VERIF_REPO"):
    # checks run against another tree (a seeded change in a scratch worktree) never touch the
    # evidence and replay files of /repo
    _alt = os.path.join("/var/tmp/verif_alt", hashlib.sha1(os.environ["VERIF_REPO"].encode()).hexdigest()[:8])
    OUT = os.path.join(_alt, "out")
    EVID = os.path.join(_alt, "evidence")
TLAJARS = "/opt/veriftools/tla/tla2tools.jar:/opt/veriftools/tla/CommunityModules-deps.jar"
NCPU = os.cpu_count() or 4


class Inconclusive(Exception):
    """The machinery could not produce a verdict (exit 2, never a violation)."""


def log(*a):
    print(*a, flush=True)


# --------------------------------------------------------------------------
# scratch directories (never /tmp; removed at exit)
_scratch = []


def scratch(prefix="verif."):
    base = "/var/tmp"
    os.makedirs(base, exist_ok=True)
    d = tempfile.mkdtemp(prefix=prefix, dir=base)
    _scratch.append(d)
    return d


def _cleanup():
    for d in _scratch:
        shutil.rmtree(d, ignore_errors=True)


atexit.register(_cleanup)


# --------------------------------------------------------------------------
# TLC
class TLCResult:
    def __init__(self):
        self.rc = None
        self.out = ""
        self.generated = 0
        self.distinct = 0
        self.depth = 0
        self.ok = False            # completed with no error
        self.violation = None      # name of violated invariant/property, "deadlock", ...
        self.coverage = {}         # action name -> (distinct, total)
        self.wall = 0.0
        self.timed_out = False
        self.printed = []          # PrintT output lines

    def summary(self):
        return dict(generated=self.generated, distinct=self.distinct, depth=self.depth,
                    ok=self.ok, violation=self.violation, wall_s=round(self.wall, 2))


_RE_STATES = re.compile(r"(\d+) states generated, (\d+) distinct states found")
_RE_DEPTH = re.compile(r"The depth of the complete state graph search is (\d+)")
_RE_INV = re.compile(r"Error: Invariant (\S+) is violated")
_RE_ACTP = re.compile(r"Error: Action property (\S+) is violated")
_RE_COV = re.compile(r"^<(\w+) line \d+, col \d+ to line \d+, col \d+ of module (\w+)>: (\d+):(\d+)", re.M)
_RE_SIMSTATES = re.compile(r"Progress: (\d+) states checked, (\d+) traces generated")


def tlc(module_dir, module, cfg, *, workers=None, timeout=600, simulate=None, depth=None,
        seed=None, coverage=False, deadlock_check=True, deque=False, heap="6g",
        extra_files=None, extra_args=None, workdir=None, env=None, dump_dot=None):
    """Run TLC on module_dir/module.tla with module_dir/cfg in a scratch copy.
    extra_files: {name: path-or-bytes} placed next to the spec (e.g. trace.ndjson)."""
    wd = workdir or scratch("verif.tlc.")
    for f in os.listdir(module_dir):
        if f.endswith(".tla") or f.endswith(".cfg"):
            shutil.copy(os.path.join(module_dir, f), wd)
    # shared modules
    common = os.path.join(SPEC, "common")
    if os.path.isdir(common):
        for f in os.listdir(common):
            if f.endswith(".tla") and not os.path.exists(os.path.join(wd, f)):
                shutil.copy(os.path.join(common, f), wd)
    for name, src in (extra_files or {}).items():
        dst = os.path.join(wd, name)
        if isinstance(src, bytes):
            open(dst, "wb").write(src)
        else:
            if os.path.abspath(src) != os.path.abspath(dst):
                shutil.copy(src, dst)
    meta = os.path.join(wd, "meta.%d" % int(time.time() * 1000))
    cmd = ["java", "-XX:+UseParallelGC", "-Xmx" + heap, "-Xss256m"]
    if deque:
        cmd.append("-Dtlc2.tool.queue.IStateQueue=StateDeque")
    cmd += ["-cp", TLAJARS, "tlc2.TLC", "-metadir", meta, "-config", cfg,
            "-workers", str(workers or "auto")]
    if not deadlock_check:
        cmd.append("-deadlock")
    if simulate is not None:
        cmd += ["-simulate", simulate]
        if depth:
            cmd += ["-depth", str(depth)]
    if seed is not None:
        cmd += ["-seed", str(seed)]
    if coverage:
        cmd += ["-coverage", "1"]
    if dump_dot:
        cmd += ["-dump", "dot,actionlabels", dump_dot]
    cmd += list(extra_args or [])
    cmd.append(module + ".tla")
    r = TLCResult()
    t0 = time.time()
    e = dict(os.environ)
    e.pop("JAVA_TOOL_OPTIONS", None)
    e.update(env or {})
    try:
        p = subprocess.run(cmd, cwd=wd, stdout=subprocess.PIPE, stderr=subprocess.STDOUT,
                           timeout=timeout, env=e)
        r.rc = p.returncode
        r.out = p.stdout.decode("utf-8", "replace")
    except subprocess.TimeoutExpired as ex:
        r.timed_out = True
        r.out = (ex.stdout or b"").decode("utf-8", "replace")
        subprocess.run(["pkill", "-f", meta], check=False)
    r.wall = time.time() - t0
    shutil.rmtree(meta, ignore_errors=True)
    shutil.rmtree(os.path.join(wd, "states"), ignore_errors=True)
    m = None
    for m in _RE_STATES.finditer(r.out):
        pass
    if m:
        r.generated, r.distinct = int(m.group(1)), int(m.group(2))
    else:
        for m in _RE_SIMSTATES.finditer(r.out):
            pass
        if m:
            r.generated = int(m.group(1))
            r.distinct = int(m.group(2))
    m = _RE_DEPTH.search(r.out)
    if m:
        r.depth = int(m.group(1))
    m = _RE_INV.search(r.out)
    if m:
        r.violation = m.group(1)
    m2 = _RE_ACTP.search(r.out)
    if m2 and not r.violation:
        r.violation = m2.group(1)
    if not r.violation:
        if "Error: Deadlock reached" in r.out:
            r.violation = "deadlock"
        elif "Temporal properties were violated" in r.out:
            r.violation = "temporal"
        elif "is violated" in r.out and "Error:" in r.out:
            mm = re.search(r"Error: (.*is violated.*)", r.out)
            r.violation = mm.group(1) if mm else "violated"
    for m in _RE_COV.finditer(r.out):
        name = m.group(1)
        d, t = int(m.group(3)), int(m.group(4))
        od, ot = r.coverage.get(name, (0, 0))
        r.coverage[name] = (od + d, ot + t)
    r.ok = (not r.timed_out and r.violation is None and
            ("No error has been found" in r.out or (simulate is not None and "Error:" not in r.out
                                                    and r.rc == 0)))
    r.printed = [l for l in r.out.splitlines() if l.startswith('"') or l.startswith("<<") or l.startswith("[") or l.startswith("{")]
    r.workdir = wd
    return r


def tlc_must_pass(module_dir, module, cfg, **kw):
    r = tlc(module_dir, module, cfg, **kw)
    if r.timed_out:
        raise Inconclusive("TLC timed out on %s/%s" % (module, cfg))
    if not r.ok:
        tail = "\n".join(r.out.splitlines()[-60:])
        raise Inconclusive("TLC did not pass on %s/%s (violation=%s)\n%s" % (module, cfg, r.violation, tail))
    return r


def tlc_must_fail(module_dir, module, cfg, expect=None, **kw):
    """Seeded-bug self test: TLC must find a violation (optionally a specific one)."""
    r = tlc(module_dir, module, cfg, **kw)
    if r.timed_out:
        raise Inconclusive("TLC timed out on seeded-bug cfg %s/%s" % (module, cfg))
    if r.violation is None:
        tail = "\n".join(r.out.splitlines()[-40:])
        raise Inconclusive("seeded-bug cfg %s/%s was NOT caught by TLC\n%s" % (module, cfg, tail))
    if expect and r.violation not in (expect if isinstance(expect, (list, tuple, set)) else [expect]):
        raise Inconclusive("seeded-bug cfg %s/%s violated %s, expected %s" % (module, cfg, r.violation, expect))
    return r


def sany(module_dir, module):
    wd = scratch("verif.sany.")
    for f in os.listdir(module_dir):
        if f.endswith(".tla"):
            shutil.copy(os.path.join(module_dir, f), wd)
    p = subprocess.run(["java", "-cp", TLAJARS, "tla2sany.SANY", module + ".tla"], cwd=wd,
                       stdout=subprocess.PIPE, stderr=subprocess.STDOUT, timeout=120)
    out = p.stdout.decode()
    if p.returncode != 0 or "Semantic errors" in out or "Parse Error" in out or "Fatal errors" in out:
        raise Inconclusive("SANY failed on %s:\n%s" % (module, out[-3000:]))
    return True


# --------------------------------------------------------------------------
# Trace validation: concatenated NDJSON traces + a Trace cfg with a high-water mark.
_RE_HWM = re.compile(r'"?HWM"?,\s*(\d+)')


class TraceVerdict:
    def __init__(self):
        self.accepted = False
        self.hwm = 0          # number of trace lines consumed
        self.total = 0
        self.tlc = None
        self.rejected_line = None  # parsed JSON of first unconsumed line


def validate_trace(module_dir, module, cfg, trace_path, *, timeout=900, deque=False, heap="6g", extra_files=None):
    """Runs the Trace spec over trace_path (copied as trace.ndjson).  The spec must
    keep the high-water mark of consumed lines in TLCGet(1) and print <<"HWM", n>>
    from its POSTCONDITION; accepted iff n = number of lines."""
    lines = sum(1 for _ in open(trace_path))
    ef = dict(extra_files or {})
    ef["trace.ndjson"] = trace_path
    r = tlc(module_dir, module, cfg, workers=1, timeout=timeout, deadlock_check=False, deque=deque,
            heap=heap, extra_files=ef)
    v = TraceVerdict()
    v.tlc = r
    v.total = lines
    if r.timed_out:
        raise Inconclusive("trace validation timed out (%s, %d lines)" % (module, lines))
    m = None
    for m in _RE_HWM.finditer(r.out):
        pass
    if not m:
        raise Inconclusive("trace validation produced no HWM line (%s)\n%s" % (module, r.out[-3000:]))
    v.hwm = int(m.group(1))
    if r.violation and r.violation not in ("TraceAccepted",) and "Postcondition" not in (r.violation or ""):
        # an invariant of the spec failed on a state reached by the trace: treat as rejection at hwm
        v.accepted = False
    v.accepted = (v.hwm == lines) and r.violation is None and "Error:" not in r.out
    if not v.accepted and v.hwm < lines:
        with open(trace_path) as f:
            for i, l in enumerate(f):
                if i == v.hwm:
                    try:
                        v.rejected_line = json.loads(l)
                    except Exception:
                        v.rejected_line = l
                    break
    return v


# --------------------------------------------------------------------------
# Go drivers, built from /repo's current working tree through -overlay
def go_env():
    e = dict(os.environ)
    e["GOFLAGS"] = "-mod=mod"
    e["GOPROXY"] = "off"
    e.pop("GOSUMDB", None)
    e.pop("GOTOOLCHAIN", None)
    e.setdefault("GOCACHE", os.path.expanduser("~/.cache/go-build"))
    return e


def overlay_json():
    """Every file under harness/overlay/<rel> appears as /repo/<rel>.  Files are only
    ever added: an overlay path that exists in /repo is an error."""
    rep = {}
    for root, _, files in os.walk(OVERLAY):
        for f in files:
            if not f.endswith(".go"):
                continue
            src = os.path.join(root, f)
            rel = os.path.relpath(src, OVERLAY)
            dst = os.path.join(REPO, rel)
            if os.path.exists(dst):
                raise Inconclusive("overlay file would replace an existing repo file: " + rel)
            rep[dst] = src
    os.makedirs(OUT, exist_ok=True)
    p = os.path.join(OUT, "overlay.%d.json" % os.getpid())
    json.dump({"Replace": rep}, open(p, "w"))
    _tmpfiles.append(p)
    return p


_tmpfiles = []


@atexit.register
def _rm_tmpfiles():
    for p in _tmpfiles:
        try:
            os.remove(p)
        except OSError:
            pass


def build_driver(pkg, name=None, race=False, tags="verif", timeout=1500):
    """go test -c of /repo/<pkg> (with the overlay) -> bin/drv/<name>.test"""
    name = name or pkg.strip("./").replace("/", "_") or "root"
    if race:
        name += ".race"
    if os.environ.get("VERIF_REPO"):
        # builds from an alternative tree never overwrite the binaries of /repo runs (nor those of another tree)
        name += ".alt" + hashlib.sha1(os.environ["VERIF_REPO"].encode()).hexdigest()[:8]
    out = os.path.join(BIN, "drv", name + ".test")
    os.makedirs(os.path.dirname(out), exist_ok=True)
    ov = overlay_json()
    cmd = ["go", "test", "-tags", tags, "-overlay=" + ov, "-vet=off", "-c", "-o", out]
    if race:
        cmd.append("-race")
    cmd.append("./" + pkg.strip("./") if pkg not in (".", "") else ".")
    t0 = time.time()
    p = subprocess.run(cmd, cwd=REPO, env=go_env(), stdout=subprocess.PIPE, stderr=subprocess.STDOUT, timeout=timeout)
    if p.returncode != 0:
        raise Inconclusive("driver build failed for %s:\n%s" % (pkg, p.stdout.decode()[-4000:]))
    log("  built %s in %.1fs" % (name, time.time() - t0))
    return out


def run_driver(binary, test_run, env=None, timeout=1200, args=None, cwd=None):
    """Runs a driver test binary; returns (rc, output)."""
    e = dict(os.environ)
    e.update(env or {})
    cmd = [binary, "-test.run", test_run, "-test.timeout", "%ds" % (timeout + 30), "-test.v"] + list(args or [])
    try:
        p = subprocess.run(cmd, env=e, stdout=subprocess.PIPE, stderr=subprocess.STDOUT, timeout=timeout + 60,
                           cwd=cwd or scratch("verif.drv."))
    except subprocess.TimeoutExpired as ex:
        raise Inconclusive("driver %s timed out after %ds\n%s" % (test_run, timeout, (ex.stdout or b"")[-3000:].decode("utf-8", "replace")))
    return p.returncode, p.stdout.decode("utf-8", "replace")


def pebble_background_panic(out):
    """Did the driver process die because one of PEBBLE'S OWN background goroutines (a flush, a compaction,
    a cleaner) panicked?  That is behaviour of the code under test (a panic inside an API call on the
    driver's goroutine is recovered by the driver and logged as a 'fail' event instead).  Returns None, or
    a short description: only when the panicking goroutine has no frame of the harness and was created by
    pebble itself."""
    i = out.find("\npanic: ")
    if i < 0:
        return None
    seg = out[i + 1:]
    j = seg.find("\ncreated by ")
    if j < 0:
        return None
    k = seg.find("\n", j + 1)
    stack = seg[:k if k > 0 else len(seg)]
    created = seg[j + 1:k if k > 0 else len(seg)]
    if "internal/verif/" in stack or "zz_verif" in stack:
        return None
    if "github.com/cockroachdb/pebble" not in created or "internal/verif" in created or "testing." in created:
        return None
    frames = [l.strip() for l in stack.splitlines() if l.startswith("github.com/cockroachdb/pebble")]
    if not frames:
        return None
    msg = stack.splitlines()[0][:300]
    return "%s | in %s | %s" % (msg, " <- ".join(f.rsplit("(", 1)[0].replace("github.com/cockroachdb/pebble", "pebble") for f in frames[:4]), created.strip()[:160])


# --------------------------------------------------------------------------
# Known findings
def known_findings(prop):
    p = os.path.join(VERIF, "KNOWN_FINDINGS.jsonl")
    res = []
    if os.path.exists(p):
        for l in open(p):
            l = l.strip()
            if not l or l.startswith("#"):
                continue
            e = json.loads(l)
            if e.get("property") == prop and e.get("kind") == "known":
                res.append(e)
    return res


def match_known(prop, signature):
    """signature: dict describing a violation; a known finding matches when every
    key of its 'match' equals the signature's value."""
    for e in known_findings(prop):
        m = e.get("match", {})
        if m and all(signature.get(k) == v for k, v in m.items()):
            return e
    return None


# --------------------------------------------------------------------------
# Evidence + verdict
class Run:
    def __init__(self, prop, tier, seed, level="model_checking"):
        self.prop, self.tier, self.seed, self.level = prop, tier, seed, level
        self.t0 = time.time()
        self.cov = {"samples": []}
        self.assumptions = []
        self.violations = []     # (signature, replay_path, text)
        self.known = []
        self.states = 0
        self.transitions = 0
        self.traces = 0
        self.design = {}
        self.outdir = os.path.join(OUT, prop)
        shutil.rmtree(self.outdir, ignore_errors=True)
        os.makedirs(self.outdir, exist_ok=True)

    def add_design(self, name, r):
        """record a TLC design-level run (exhaustive or simulation)"""
        self.states += r.distinct
        self.transitions += r.generated
        self.design[name] = r.summary()
        if r.coverage:
            zero = sorted(a for a, (d, t) in r.coverage.items() if t == 0)
            self.design[name]["actions"] = {a: t for a, (d, t) in sorted(r.coverage.items())}
            if zero:
                self.design[name]["never_taken"] = zero

    def sample(self, s, cap=6):
        if len(self.cov["samples"]) < cap:
            self.cov["samples"].append(s)

    def violation(self, signature, text, replay_obj=None):
        k = match_known(self.prop, signature)
        if k is not None:
            if k["what"] not in [x["what"] for x in self.known]:
                self.known.append(k)
            return False
        n = len(self.violations)
        path = os.path.join(self.outdir, "violation_%d.json" % n)
        json.dump({"property": self.prop, "signature": signature, "text": text, "replay": replay_obj,
                   "seed": self.seed, "tier": self.tier}, open(path, "w"), indent=1, default=str)
        self.violations.append((signature, path, text))
        return True

    def finish(self):
        cov = self.cov
        cov.setdefault("evaluations", 0)
        cov.setdefault("distinct_nontrivial", 0)
        cov.setdefault("rule", "")
        if self.level == "model_checking":
            cov["states"] = self.states
            cov["transitions"] = self.transitions
            cov["traces_validated_against_impl"] = self.traces
        cov["design_runs"] = self.design
        if self.known:
            cov["known_findings_seen"] = [k["what"] for k in self.known]
        ev = {"property_id": self.prop, "tier": self.tier, "seed": self.seed, "level": self.level,
              "coverage": cov, "assumptions": self.assumptions, "wall_s": round(time.time() - self.t0, 2),
              "violations": len(self.violations)}
        os.makedirs(EVID, exist_ok=True)
        json.dump(ev, open(os.path.join(EVID, self.prop + ".json"), "w"), indent=1, default=str)
        for k in self.known:
            log("KNOWN-FINDING: property=%s %s" % (self.prop, k["what"]))
        for sig, path, text in self.violations[:20]:
            log("VIOLATION property=%s replay=%s" % (self.prop, path))
            log("   " + text[:600])
        return 1 if self.violations else 0


def concat_traces(paths, out_path, reset_line='{"op":"reset"}'):
    n = 0
    with open(out_path, "w") as o:
        for p in paths:
            with open(p) as f:
                first = True
                for l in f:
                    l = l.strip()
                    if not l:
                        continue
                    o.write(l + "\n")
                    n += 1
            o.write(reset_line + "\n")
            n += 1
    return n


def sha(s):
    return hashlib.sha1(s.encode() if isinstance(s, str) else s).hexdigest()[:12]
