#!/usr/bin/env python3
"""seedtable.py: markdown table of the seeded changes and which checks catch them (from seeded/*/meta.json,
falling back to result.txt), for DESIGN.md section 13."""
import glob, json, os, re

SEEDED = '/verif/seeded'
idx = {k: v for k, v in json.load(open(os.path.join(SEEDED, 'INDEX.json'))).items() if not k.startswith('_')}
rows = []
for sid in sorted(idx):
    ent = idx[sid]
    d = os.path.join(SEEDED, sid)
    res = {}
    mp = os.path.join(d, 'meta.json')
    if os.path.exists(mp):
        m = json.load(open(mp))
        for p, v in m.get('checks', {}).items():
            res[p] = v
    elif os.path.exists(os.path.join(d, 'result.txt')):
        for p, rc in re.findall(r'(C\d+)=(\d+)', open(os.path.join(d, 'result.txt')).read().split('checks:')[-1]):
            res[p] = {'1': 'caught', '0': 'missed'}.get(rc, 'inconclusive')
    caught = [p for p in ent['checks'] if res.get(p) == 'caught']
    missed = [p for p in ent['checks'] if res.get(p) == 'missed']
    other = [p for p in ent['checks'] if p not in caught and p not in missed]
    own = ent['property']
    rows.append((sid, own, ent['site'], ', '.join(caught) or '-', ', '.join(missed) or '-', ', '.join(other) or '',
                 'yes' if own in caught else ('NO' if own in missed else '?')))
print('| seeded change | property | site | caught by | not caught by | own check catches |')
print('|---|---|---|---|---|---|')
for r in rows:
    print('| %s | %s | %s | %s | %s%s | %s |' % (r[0], r[1], r[2].replace('|', '/'), r[3], r[4], (' (n/a: ' + r[5] + ')') if r[5] else '', r[6]))
n = len(rows)
own = sum(1 for r in rows if r[6] == 'yes')
anyc = sum(1 for r in rows if r[3] != '-')
print()
print('%d seeded changes; %d caught by the check of the property they were written against; %d caught by at least one check.' % (n, own, anyc))
