# ad-hoc crash run: tc.py CRASHPROFILE checked scripts steps configs [seed] [extra env k=v ...]
import sys,glob,time,os,shutil
sys.path.insert(0,'/verif/lib'); sys.path.insert(0,'/verif')
import vlib
from engines import kv
prof,checked,scripts,steps,cfgs=sys.argv[1:6]
seed=sys.argv[6] if len(sys.argv)>6 else '1'
d='/var/tmp/tc_'+prof
shutil.rmtree(d,ignore_errors=True); os.makedirs(d)
env=dict(VERIF_OUT=d,VERIF_CRASHPROFILE=prof,VERIF_SCRIPTS=scripts,VERIF_STEPS=steps,VERIF_CONFIGS=cfgs,VERIF_SEED=seed)
for kvp in sys.argv[7:]:
    k,v=kvp.split('='); env[k]=v
t=time.time()
rc,out=vlib.run_driver('/verif/bin/drv/internal_verif_dbdrv.test','TestCrash',env=env,timeout=3000)
print('driver rc',rc,'%.1fs'%(time.time()-t)); print('\n'.join(l for l in out.splitlines() if 'DRIVER' in l or 'panic' in l or 'FAIL' in l)[:3000])
files=sorted(glob.glob(d+'/*.ndjson'))
bad=0
cfgb=kv.trace_cfg(checked.split(','))
while files:
    n=vlib.concat_traces(files,d+'/all.nd')
    t=time.time()
    v=vlib.validate_trace('/verif/spec/KV','KVTrace','KVTraceRun.cfg',d+'/all.nd',extra_files={'KVTraceRun.cfg':cfgb},timeout=3000)
    print('accepted',v.accepted,'hwm',v.hwm,'of',v.total,'%.1fs'%(time.time()-t))
    if v.accepted: break
    if v.tlc.violation or ('Error' in v.tlc.out and 'TraceAccepted' not in v.tlc.out):
        print(v.tlc.out[-2500:])
    c=0
    for i,f in enumerate(files):
        k=sum(1 for _ in open(f))+1
        if c+k>v.hwm:
            ev=v.rejected_line
            if isinstance(ev,dict) and 'state' in ev: ev=dict(ev); 
            print('REJECT in',f,'line',v.hwm-c+1,':',str(ev)[:900]); bad+=1
            files=files[i+1:]; break
        c+=k
    else: break
    if bad>=4: break
print('rejected traces:',bad)
