#!/bin/bash
# seedcheck.sh <seedid> <outdir-from-agent> <prop> [<prop>...]: confirm a seeded change and run our checks against it.
# Uses a scratch worktree (VERIF_REPO) so that /repo itself is never touched while other work builds from it.
set -u
id=$1; src=$2; shift 2
wt=/var/tmp/vfy_$id
dst=/verif/seeded/$id
mkdir -p $dst
git -C /repo worktree remove --force $wt >/dev/null 2>&1
git -C /repo worktree add --detach $wt HEAD -q || exit 2
cp $src/patch.diff $dst/patch.diff
# demonstration files: everything in src except patch/notes/logs
rsync -a --include='*/' --include='*.go' --include='demo_cmd.txt' --include='notes.md' --exclude='*' $src/ $dst/
rsync -a --include='*/' --include='*.go' --exclude='*' $src/ $wt/
democmd=$(cat $src/demo_cmd.txt | grep -v '^#' | grep -v '^$' | tail -1)
echo "== demo without change: $democmd"
( cd $wt && timeout 1200 bash -c "$democmd" > $dst/demo_without.log 2>&1 ); rc0=$?
echo "   rc=$rc0"
( cd $wt && git apply $dst/patch.diff ) || { echo "patch does not apply"; exit 2; }
( cd $wt && GOFLAGS=-mod=mod GOPROXY=off go build ./... ) || { echo "does not compile"; exit 2; }
echo "== demo with change"
( cd $wt && timeout 1200 bash -c "$democmd" > $dst/demo_with.log 2>&1 ); rc1=$?
echo "   rc=$rc1"
res=""
for p in "$@"; do
  echo "== our check $p against the change"
  ( cd /verif && VERIF_REPO=$wt timeout 3000 python3 vcheck run $p --tier quick > $dst/check_$p.log 2>&1 ); rc=$?
  grep -m2 "VIOLATION\|INCONCLUSIVE" $dst/check_$p.log | cut -c1-300
  echo "   $p exit=$rc"
  res="$res $p=$rc"
done
echo "RESULT id=$id demo_without=$rc0 demo_with=$rc1 checks:$res" | tee $dst/result.txt
git -C /repo worktree remove --force $wt
git -C /verif checkout -- evidence 2>/dev/null
