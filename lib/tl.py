import sys,glob,json,os,shutil,subprocess
sys.path.insert(0,'/verif/lib'); sys.path.insert(0,'/verif')
import vlib
from engines import kv
seed=sys.argv[1]; cfgs=sys.argv[2]
d='/var/tmp/tl15'; shutil.rmtree(d,ignore_errors=True); os.makedirs(d)
rc,out=vlib.run_driver('/verif/bin/drv/internal_verif_dbdrv.test','TestLSM',env=dict(VERIF_SEED=seed,VERIF_OUT=d,VERIF_SCRIPTS='12',VERIF_STEPS='40',VERIF_CONFIGS=cfgs),timeout=900)
print([l for l in out.splitlines() if 'DRIVER' in l or 'panic' in l][:4])
files=sorted(glob.glob(d+'/L-*.ndjson'))
n=0
while files and n<4:
    vlib.concat_traces(files,d+'/all.nd')
    v=vlib.validate_trace('/verif/spec/KV','KVTrace','R.cfg',d+'/all.nd',extra_files={'R.cfg':kv.trace_cfg(['lsm','c39','view'])},timeout=3000)
    print(v.accepted,v.hwm,v.total,str(v.rejected_line)[:500])
    if v.accepted: break
    if 'TraceAccepted' not in v.tlc.out: print(v.tlc.out[-2000:]); break
    c=0
    for i,f in enumerate(files):
        k=sum(1 for _ in open(f))+1
        if c+k>v.hwm:
            ln=v.hwm-c; L=[json.loads(l) for l in open(f)]
            print(' in',f,'line',ln+1)
            for j in range(max(0,ln-10),ln+1):
                e=L[j]
                if e['op'] in('get','scan','iter'): continue
                if e['op']=='lsm': print('  ',j+1,'lsm phys',e['phys'],'missing',e['missing']); continue
                print('  ',j+1,json.dumps(e)[:200])
            files=files[i+1:]; n+=1; break
        c+=k
