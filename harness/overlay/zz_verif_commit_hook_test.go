//go:build verif && verifhook_commit

// Mode C of the Commit engine: only compiled when /repo carries
// internal/verifhook and the commit Points (hooks/commit.patch); the engine
// passes the build tag verifhook_commit only then.
//
//   - exploration: a seeded scheduler pauses goroutines at every Point while
//     the mode-B stress workload runs; traces are validated by TLC as usual;
//   - directed forced schedules: goroutines are held at armed Points and
//     released in the order of the interleavings behind Commit.tla's Bug_*
//     counterexamples; each schedule yields an ordinary trace for TLC.
package pebble

import (
	"fmt"
	"math/rand/v2"
	"os"
	"path/filepath"
	"runtime"
	"sync"
	"sync/atomic"
	"testing"
	"time"

	"github.com/cockroachdb/pebble/internal/verifhook"
)

// TestVCommitHookExplore: the stress rounds with random pauses at every Point.
func TestVCommitHookExplore(t *testing.T) {
	out := os.Getenv("VERIF_OUT")
	if out == "" {
		t.Skip("VERIF_OUT not set")
	}
	seed := uint64(vCommitEnvInt("VERIF_SEED", 1))
	pct := vCommitEnvInt("VERIF_HOOKYIELD", 20)
	var ctr atomic.Uint64
	hits := sync.Map{}
	verifhook.Install(func(site string) {
		if c, ok := hits.Load(site); ok {
			c.(*atomic.Int64).Add(1)
		} else {
			c := &atomic.Int64{}
			c.Add(1)
			hits.Store(site, c)
		}
		z := (ctr.Add(1) + seed) * 0x9e3779b97f4a7c15
		z = (z ^ (z >> 30)) * 0xbf58476d1ce4e5b9
		z = (z ^ (z >> 27)) * 0x94d049bb133111eb
		z ^= z >> 31
		if int(z%100) >= pct {
			return
		}
		switch (z >> 8) % 4 {
		case 0, 1:
			for i := uint64(0); i < 1+(z>>16)%8; i++ {
				runtime.Gosched()
			}
		case 2:
			time.Sleep(time.Duration(1+(z>>16)%50) * time.Microsecond)
		default:
			time.Sleep(time.Duration(50+(z>>16)%300) * time.Microsecond)
		}
	}, nil)
	defer verifhook.Install(nil, nil)
	rounds := vCommitEnvInt("VERIF_ROUNDS", 4)
	total := 0
	for i := 0; i < rounds; i++ {
		runtime.GOMAXPROCS([]int{2, 4, 8, 3}[i%4])
		n, _ := vCommitRound(t, filepath.Join(out, fmt.Sprintf("hookexp-%d-%03d.ndjson", seed, i)), seed*1000+uint64(i), false)
		total += n
	}
	sites := 0
	hits.Range(func(k, v any) bool {
		sites++
		fmt.Printf("SITE %s %d\n", k, v.(*atomic.Int64).Load())
		return true
	})
	fmt.Printf("DRIVER-DONE rounds=%d events=%d sites=%d\n", rounds, total, sites)
}

// vCommitGate holds the first goroutine that reaches an armed site.
type vCommitGate struct {
	mu      sync.Mutex
	armed   map[string]int
	arrived map[string]chan struct{}
	release map[string]chan struct{}
}

func newVCommitGate() *vCommitGate {
	return &vCommitGate{armed: map[string]int{}, arrived: map[string]chan struct{}{}, release: map[string]chan struct{}{}}
}

func (g *vCommitGate) point(site string) {
	g.mu.Lock()
	if g.armed[site] == 0 {
		g.mu.Unlock()
		return
	}
	g.armed[site]--
	a, r := g.arrived[site], g.release[site]
	g.mu.Unlock()
	close(a)
	<-r
}

func (g *vCommitGate) arm(site string) {
	g.mu.Lock()
	g.armed[site] = 1
	g.arrived[site] = make(chan struct{})
	g.release[site] = make(chan struct{})
	g.mu.Unlock()
}

func (g *vCommitGate) wait(site string) bool {
	g.mu.Lock()
	a := g.arrived[site]
	g.mu.Unlock()
	select {
	case <-a:
		return true
	case <-time.After(10 * time.Second):
		return false
	}
}

func (g *vCommitGate) free(site string) {
	g.mu.Lock()
	r := g.release[site]
	g.mu.Unlock()
	close(r)
}

// TestVCommitHookForced: directed forced schedules; one trace per schedule.
func TestVCommitHookForced(t *testing.T) {
	out := os.Getenv("VERIF_OUT")
	if out == "" {
		t.Skip("VERIF_OUT not set")
	}
	seed := uint64(vCommitEnvInt("VERIF_SEED", 1))
	reps := vCommitEnvInt("VERIF_ROUNDS", 3)
	drift := 0
	n := 0
	for rep := 0; rep < reps; rep++ {
		for _, sc := range []string{"cas-race", "unapplied-head", "reader-two-step", "rotate-under-reader"} {
			g := newVCommitGate()
			verifhook.Install(g.point, nil)
			h := &vCommitHarness{G: 2, K: 4, yieldPct: 0}
			r := rand.New(rand.NewPCG(seed, uint64(rep)))
			if err := h.open(uint64(16<<10)<<uint(rep%3), seed); err != nil {
				t.Fatal(err)
			}
			d := h.d
			meta := vCommitEv{"op": "open", "logseq": uint64(d.mu.versions.logSeqNum.Load()), "vis": uint64(d.mu.versions.visibleSeqNum.Load()),
				"G": h.G, "K": h.K, "rich": false, "seed": seed, "mem": 0, "schedule": sc}
			var last uint64
			ok := true
			var wg sync.WaitGroup
			spawn := func(f func()) {
				wg.Add(1)
				go func() { defer wg.Done(); f() }()
			}
			// some history first
			for i := 0; i < 3; i++ {
				h.commitWith(0, r, i%2, 0)
			}
			h.sampleVis(300, &last)
			switch sc {
			case "cas-race":
				// T1 has dequeued its batch and loaded visibleSeqNum; T2 publishes a later batch; T1 resumes
				// (Bug_StoreNotCAS: a plain store would move visibleSeqNum backwards)
				g.arm("commit.publish.loaded")
				spawn(func() { h.commitWith(1, rand.New(rand.NewPCG(seed, 11)), 0, 0) })
				ok = g.wait("commit.publish.loaded")
				done2 := make(chan struct{})
				spawn(func() { h.commitWith(2, rand.New(rand.NewPCG(seed, 12)), 1, 0); close(done2) })
				select {
				case <-done2:
				case <-time.After(10 * time.Second):
					ok = false
				}
				h.sampleVis(300, &last)
				h.readSnap(201, r)
				g.free("commit.publish.loaded")
				wg.Wait()
				h.sampleVis(300, &last)
			case "unapplied-head":
				// T1 is sequenced but has not applied; T2 (later seqnum) applies and must wait; readers in
				// between see neither (Bug_PublishEarly / Bug_DequeueUnapplied would publish over T1)
				g.arm("commit.beforeApply")
				spawn(func() { h.commitWith(1, rand.New(rand.NewPCG(seed, 21)), 0, 1) })
				ok = g.wait("commit.beforeApply")
				spawn(func() { h.commitWith(2, rand.New(rand.NewPCG(seed, 22)), 1, 0) })
				for i := 0; i < 200; i++ {
					runtime.Gosched()
				}
				time.Sleep(2 * time.Millisecond)
				h.sampleVis(300, &last)
				h.readSnap(201, r)
				h.readIter(202, r, "iter")
				g.free("commit.beforeApply")
				wg.Wait()
			case "reader-two-step":
				// a reader holds its readState while a batch commits and returns, then loads visibleSeqNum
				g.arm("db.newIter.stateLoaded")
				spawn(func() { h.readIter(201, rand.New(rand.NewPCG(seed, 31)), "iter") })
				ok = g.wait("db.newIter.stateLoaded")
				h.commitWith(1, r, 0, 0)
				h.commitWith(1, r, 1, 2)
				g.free("db.newIter.stateLoaded")
				wg.Wait()
			case "rotate-under-reader":
				// same, but the commits in between are a flushable batch (rotation) and a batch into the new memtable
				g.arm("db.newIter.stateLoaded")
				spawn(func() { h.readIter(201, rand.New(rand.NewPCG(seed, 41)), "iter") })
				ok = g.wait("db.newIter.stateLoaded")
				h.commitWith(1, r, 0, 7)
				h.commitWith(1, r, 1, 0)
				h.commitWith(1, r, 0, 0)
				g.free("db.newIter.stateLoaded")
				wg.Wait()
			}
			if !ok {
				// the real goroutines did not reach the armed Point: structural drift, not a verdict
				drift++
				fmt.Printf("DRIFT schedule=%s\n", sc)
			}
			h.readIter(900, r, "quiesce")
			h.readSnap(901, r)
			verifhook.Install(nil, nil)
			if err := d.Close(); err != nil {
				h.fail("close: %v", err)
			}
			if err := h.writeTrace(filepath.Join(out, fmt.Sprintf("forced-%d-%d-%s.ndjson", seed, rep, sc)), meta); err != nil {
				t.Fatal(err)
			}
			n++
		}
	}
	fmt.Printf("DRIVER-DONE schedules=%d drift=%d\n", n, drift)
}
