package wal

// C21 driver (engine "wal"): a real failoverWriter over two crashable-MemFS
// directories behind a gating / error-injecting FS.  A TLC-generated schedule
// (behaviours of Failover.tla) says when records are written, when
// switchToNewDir is called, which pending file operation (create, dir sync,
// write, sync) of which physical log is released or made to fail, when Close is
// called and when the crash clone is taken.  Afterwards the real wal.Scan and
// virtualWALReader read the logical log.  The trace is decided by TLC
// (FailoverTrace).
//
// The schedules come from a model whose recordQueue ring has QCap slots.  Mode
// "real" runs them one real record per model record (the 8192-slot ring never
// fills); mode "small" replaces the queue's buffer by a QCap-slot one, so the
// ring fills, wraps and doubles exactly as in the model; mode "scaled" keeps
// the real ring and writes initialBufferLen/QCap tiny records per model record,
// so the real ring fills, wraps and doubles where the model's does.

import (
	"bufio"
	"bytes"
	"encoding/binary"
	"encoding/json"
	"fmt"
	"io"
	"math/rand/v2"
	"os"
	"path/filepath"
	"strconv"
	"strings"
	"sync"
	"sync/atomic"
	"testing"
	"time"

	"github.com/cockroachdb/errors"
	"github.com/cockroachdb/pebble/batchrepr"
	"github.com/cockroachdb/pebble/internal/base"
	"github.com/cockroachdb/pebble/record"
	"github.com/cockroachdb/pebble/vfs"
	"github.com/prometheus/client_golang/prometheus"
)

type vWalFoTrace struct {
	mu sync.Mutex
	w  *bufio.Writer
}

func (t *vWalFoTrace) logf(format string, args ...any) {
	t.mu.Lock()
	fmt.Fprintf(t.w, format, args...)
	t.w.WriteByte('\n')
	t.mu.Unlock()
}

var vWalFoErrInjected = errors.New("verif: injected I/O failure")

// vWalFoGates: every gated operation parks here until the scheduler releases it.
type vWalFoGates struct {
	mu       sync.Mutex
	pend     map[string][]chan bool // key -> parked operations (send true = fail)
	open     map[string]bool        // file base name -> no gating any more
	failNext map[string]bool        // file base name -> next operation fails
	allOpen  bool
}

func vWalFoNewGates() *vWalFoGates {
	return &vWalFoGates{pend: map[string][]chan bool{}, open: map[string]bool{}, failNext: map[string]bool{}}
}

func (g *vWalFoGates) wait(kind, file string) (fail bool) {
	g.mu.Lock()
	if g.allOpen || g.open[file] {
		fail = g.failNext[file]
		delete(g.failNext, file)
		g.mu.Unlock()
		return fail
	}
	ch := make(chan bool, 1)
	key := kind + ":" + file
	g.pend[key] = append(g.pend[key], ch)
	g.mu.Unlock()
	return <-ch
}

// release lets one parked operation of the key proceed; it waits up to d for one to arrive.
func (g *vWalFoGates) release(kind, file string, fail bool, d time.Duration) bool {
	key := kind + ":" + file
	deadline := time.Now().Add(d)
	for {
		g.mu.Lock()
		if q := g.pend[key]; len(q) > 0 {
			ch := q[0]
			g.pend[key] = q[1:]
			if !fail && g.failNext[file] {
				fail = true
				delete(g.failNext, file)
			}
			g.mu.Unlock()
			ch <- fail
			return true
		}
		g.mu.Unlock()
		if time.Now().After(deadline) {
			return false
		}
		time.Sleep(20 * time.Microsecond)
	}
}

func (g *vWalFoGates) openFile(file string) {
	g.mu.Lock()
	g.open[file] = true
	var chs []chan bool
	for key, q := range g.pend {
		if strings.HasSuffix(key, ":"+file) {
			chs = append(chs, q...)
			delete(g.pend, key)
		}
	}
	g.mu.Unlock()
	for _, ch := range chs {
		ch <- false
	}
}

func (g *vWalFoGates) openAll() {
	g.mu.Lock()
	g.allOpen = true
	var chs []chan bool
	for key, q := range g.pend {
		chs = append(chs, q...)
		delete(g.pend, key)
	}
	g.mu.Unlock()
	for _, ch := range chs {
		ch <- false
	}
}

type vWalFoFS struct {
	vfs.FS
	g *vWalFoGates
}

func (fs *vWalFoFS) Create(name string, category vfs.DiskWriteCategory) (vfs.File, error) {
	base := fs.FS.PathBase(name)
	if fs.g.wait("cr", base) {
		return nil, vWalFoErrInjected
	}
	f, err := fs.FS.Create(name, category)
	if err != nil {
		return nil, err
	}
	return &vWalFoFile{File: f, g: fs.g, base: base}, nil
}

func (fs *vWalFoFS) OpenDir(name string) (vfs.File, error) {
	f, err := fs.FS.OpenDir(name)
	if err != nil {
		return nil, err
	}
	return &vWalFoDir{File: f, g: fs.g, base: fs.FS.PathBase(name)}, nil
}

type vWalFoDir struct {
	vfs.File
	g    *vWalFoGates
	base string
}

func (d *vWalFoDir) Sync() error {
	if d.g.wait("ds", d.base) {
		return vWalFoErrInjected
	}
	return d.File.Sync()
}

type vWalFoFile struct {
	vfs.File
	g    *vWalFoGates
	base string
}

func (f *vWalFoFile) Write(p []byte) (int, error) {
	if f.g.wait("wr", f.base) {
		return 0, vWalFoErrInjected
	}
	return f.File.Write(p)
}
func (f *vWalFoFile) Sync() error {
	if f.g.wait("sy", f.base) {
		return vWalFoErrInjected
	}
	return f.File.Sync()
}
func (f *vWalFoFile) SyncData() error {
	if f.g.wait("sy", f.base) {
		return vWalFoErrInjected
	}
	return f.File.SyncData()
}
func (f *vWalFoFile) SyncTo(length int64) (bool, error) {
	if f.g.wait("sy", f.base) {
		return false, vWalFoErrInjected
	}
	return f.File.SyncTo(length)
}

type vWalFoCase struct {
	ID       int     `json:"id"`
	N        int     `json:"n"`
	Sync     []int   `json:"sync"`     // records requesting sync
	Sizes    []int   `json:"sizes"`    // payload size per record
	LogData  []int   `json:"logdata"`  // records that are count-0 batches
	Steps    [][]any `json:"steps"`    // [op, arg]
	CrashPct int     `json:"crashpct"` // unsynced data percent of the crash clone
	WalSync  bool    `json:"walsync"`
	Src      string  `json:"src"`
	QCap     int     `json:"qcap"` // ring capacity of the generating model (0: not modelled)
	Mode     string  `json:"mode"` // "real" | "small" | "scaled"
}

func vWalFoRecord(seq uint64, count uint32, size int, salt int) []byte {
	b := make([]byte, batchrepr.HeaderLen+size)
	binary.LittleEndian.PutUint64(b[0:8], seq)
	binary.LittleEndian.PutUint32(b[8:12], count)
	for j := batchrepr.HeaderLen; j < len(b); j++ {
		b[j] = byte(1 + (int(seq)*31+j*7+salt)%250)
	}
	return b
}

// a panic of failoverWriter.Close (its own assertions) is recorded as an event; no
// action of FailoverTrace matches it, so TLC rejects the run there.
func vWalFoRecover(t *vWalFoTrace, done *atomic.Bool, ch chan error) {
	if r := recover(); r != nil {
		msg := strings.ReplaceAll(fmt.Sprint(r), `"`, "'")
		if len(msg) > 200 {
			msg = msg[:200]
		}
		t.logf(`{"op":"fpanic","where":"Close","msg":"%s"}`, strings.ReplaceAll(msg, "\n", " "))
		done.Store(true)
		ch <- errors.New("panic")
	}
}

func vWalFoRun(t *vWalFoTrace, c vWalFoCase, rng *rand.Rand) (problem string) {
	const wn = NumWAL(5)
	memFS := vfs.NewCrashableMem()
	names := [numDirIndices]string{"pri", "sec"}
	for _, d := range names {
		if err := memFS.MkdirAll(d, 0755); err != nil {
			return err.Error()
		}
	}
	if f, err := memFS.OpenDir(""); err == nil {
		f.Sync()
		f.Close()
	}
	g := vWalFoNewGates()
	gfs := &vWalFoFS{FS: memFS, g: g}
	var dirs [numDirIndices]dirAndFileHandle
	for i, d := range names {
		dirs[i].Dir = Dir{FS: gfs, Dirname: d}
		f, err := gfs.OpenDir(d)
		if err != nil {
			return err.Error()
		}
		dirs[i].File = f
	}
	fileOf := func(w int) string { return makeLogFilename(wn, LogNameIndex(w)) }
	dirOf := func(w int) string { return names[w%2] }
	isSync := map[int]bool{}
	for _, s := range c.Sync {
		isSync[s] = true
	}
	isLogData := map[int]bool{}
	for _, s := range c.LogData {
		isLogData[s] = true
	}
	// block = real records per model record
	block := 1
	if c.Mode == "scaled" && c.QCap > 0 && initialBufferLen/c.QCap > 1 {
		block = initialBufferLen / c.QCap
	}
	scaled := block > 1
	nr := c.N * block
	// records: seq strictly increasing; a count-0 batch repeats the next sequence number
	recs := make([][]byte, nr+1)
	seqs := make([]uint64, nr+1)
	counts := make([]uint32, nr+1)
	realSync := make([]bool, nr+1)
	seqIndex := make(map[uint64]int, nr)
	seq := uint64(10)
	for i := 1; i <= nr; i++ {
		r := (i-1)/block + 1 // the model record
		size := 30
		if scaled {
			size = (i*7 + c.ID) % 11
		} else if i-1 < len(c.Sizes) {
			size = c.Sizes[i-1]
		}
		if isLogData[r] && !scaled {
			seqs[i], counts[i] = seq, 0
		} else {
			cnt := uint32(1 + r%3)
			seqs[i], counts[i] = seq, cnt
			seqIndex[seq] = i
			seq += uint64(cnt)
		}
		if i == r*block {
			realSync[i] = isSync[r]
		} else {
			realSync[i] = rng.IntN(block) < 2 // a few more sync requests inside a block
		}
		recs[i] = vWalFoRecord(seqs[i], counts[i], size, c.ID)
	}
	t.logf(`{"op":"fstart","id":%d,"n":%d,"walsync":%v,"src":"%s","mode":"%s","qcap":%d,"block":%d}`, c.ID, c.N, c.WalSync, c.Src, c.Mode, c.QCap, block)

	stopper := newStopper()
	created := make(chan struct{}, 1000)
	queueSem := make(chan struct{}, nr+10)
	var ww *failoverWriter
	var closeStarted, closeDone atomic.Bool
	closeCh := make(chan error, 1)
	nwi := 0
	var wgWaiters sync.WaitGroup
	var nWaiters, nReleased atomic.Int64
	written := 0
	crashed := false
	var readFS vfs.FS = memFS
	step := func(op string, arg int) {
		const tmo = 3 * time.Millisecond
		switch op {
		case "SW":
			if nwi == 0 {
				var err error
				ww, err = newFailoverWriter(failoverWriterOpts{
					wn:                          wn,
					primaryDir:                  dirs[primaryDirIndex].Dir,
					secondaryDir:                dirs[secondaryDirIndex].Dir,
					timeSource:                  defaultTime{},
					logCreator:                  simpleLogCreator,
					preallocateSize:             func() int { return 0 },
					queueSemChan:                queueSem,
					stopper:                     stopper,
					failoverWriteAndSyncLatency: prometheus.NewHistogram(prometheus.HistogramOpts{}),
					writerClosed:                func(_ logicalLogWithSizesEtc) {},
					segmentClosed:               func(_ logicalLogWithSizesEtc) {},
					writerCreatedForTest:        created,
					writeWALSyncOffsets:         func() bool { return c.WalSync },
				}, dirs[0])
				if err != nil {
					problem = "newFailoverWriter: " + err.Error()
				} else if c.Mode == "small" && c.QCap > 0 {
					// nothing has been pushed and the creation goroutine is parked at the create gate
					ww.q.mu.Lock()
					ww.q.buffer = make([]recordQueueEntry, c.QCap)
					ww.q.mu.Unlock()
				}
			} else if ww != nil {
				if err := ww.switchToNewDir(dirs[nwi%2]); err != nil {
					problem = "switchToNewDir: " + err.Error()
				}
			}
			t.logf(`{"op":"fswitch","w":%d}`, nwi)
			nwi++
		case "W":
			if ww == nil || closeStarted.Load() || written >= c.N {
				return
			}
			written++
			runStart, runN, runErr := 0, 0, false // consecutive records reported by one fwrote event
			for i := (written-1)*block + 1; i <= written*block; i++ {
				so := SyncOptions{}
				if realSync[i] {
					wg := &sync.WaitGroup{}
					wg.Add(1)
					so = SyncOptions{Done: wg, Err: new(error)}
					queueSem <- struct{}{}
					wgWaiters.Add(1)
					nWaiters.Add(1)
					go func() {
						defer wgWaiters.Done()
						wg.Wait()
						t.logf(`{"op":"freleased","i":%d,"seq":%d,"err":%v}`, i, seqs[i], *so.Err != nil)
						nReleased.Add(1)
					}()
				}
				h, tl := unpackHeadTail(ww.q.headTail.Load())
				capBefore := len(ww.q.buffer) // only push replaces the buffer, and this goroutine is the producer
				_, err := ww.WriteRecord(recs[i], so, nil)
				if runN > 0 && runErr != (err != nil) { // one event = records with the same outcome
					t.logf(`{"op":"fwrote","i":%d,"n":%d,"seq":%d,"count":%d,"sync":false,"err":%v}`, runStart, runN, seqs[runStart], counts[runStart], runErr)
					runN = 0
				}
				if runN == 0 {
					runStart, runErr = i, err != nil
				}
				runN++
				grew := len(ww.q.buffer) != capBefore
				if realSync[i] || grew || i == written*block || counts[i] == 0 {
					t.logf(`{"op":"fwrote","i":%d,"n":%d,"seq":%d,"count":%d,"sync":%v,"err":%v}`, runStart, runN, seqs[runStart], counts[runStart], realSync[i], runErr)
					runN = 0
				}
				if grew {
					t.logf(`{"op":"fgrow","cap":%d,"head":%d,"tail":%d}`, len(ww.q.buffer), h, tl)
				}
			}
		case "CR":
			g.release("cr", fileOf(arg), false, tmo)
		case "CRF":
			if g.release("cr", fileOf(arg), true, tmo) {
				select {
				case <-created:
				case <-time.After(tmo):
				}
			}
		case "DS":
			if g.release("ds", dirOf(arg), false, tmo) {
				// the creation goroutine reports when the writer is installed (or dropped)
				select {
				case <-created:
				case <-time.After(20 * time.Millisecond):
				}
			}
		case "FL":
			// scaled: one flush of the model is every pending block write of the real flush loop
			for k := 0; g.release("wr", fileOf(arg), false, tmo) && scaled && k < 256; k++ {
			}
		case "SY":
			ok := g.release("sy", fileOf(arg), false, tmo)
			for k := 0; !ok && scaled && k < 256 && g.release("wr", fileOf(arg), false, tmo); k++ {
				ok = g.release("sy", fileOf(arg), false, tmo)
			}
			if ok {
				time.Sleep(50 * time.Microsecond) // let the callback pop and the waiters log
			}
		case "FAIL":
			if !g.release("wr", fileOf(arg), true, tmo) && !g.release("sy", fileOf(arg), true, tmo) {
				g.mu.Lock()
				g.failNext[fileOf(arg)] = true
				g.mu.Unlock()
			}
		case "CLOSE":
			if ww == nil || closeStarted.Load() {
				return
			}
			closeStarted.Store(true)
			go func() {
				defer vWalFoRecover(t, &closeDone, closeCh)
				_, err := ww.Close()
				t.logf(`{"op":"fclosed","err":%v}`, err != nil)
				closeDone.Store(true)
				closeCh <- err
			}()
		case "CLW":
			g.openFile(fileOf(arg))
			time.Sleep(100 * time.Microsecond)
		case "CLOSED":
			if !closeStarted.Load() {
				return
			}
			// the model's Close has finished: let the real one finish too
			dl := time.Now().Add(20 * time.Millisecond)
			for !closeDone.Load() && time.Now().Before(dl) {
				time.Sleep(50 * time.Microsecond)
			}
			if !closeDone.Load() {
				g.openAll()
				dl = time.Now().Add(5 * time.Second)
				for !closeDone.Load() && time.Now().Before(dl) {
					time.Sleep(100 * time.Microsecond)
				}
			}
		case "CRASH":
			time.Sleep(100 * time.Microsecond)
			t.logf(`{"op":"fcrash","pct":%d}`, c.CrashPct)
			readFS = memFS.CrashClone(vfs.CrashCloneCfg{UnsyncedDataPercent: c.CrashPct, RNG: rng})
			crashed = true
		case "STOP":
			t.logf(`{"op":"fstop"}`)
		}
	}
	for _, s := range c.Steps {
		op, _ := s[0].(string)
		arg := 0
		if len(s) > 1 {
			if f, ok := s[1].(float64); ok {
				arg = int(f)
			}
		}
		if op == "READ" {
			break
		}
		step(op, arg)
		if problem != "" {
			break
		}
	}
	// wind down: every stalled operation proceeds, Close, stop the goroutines
	g.openAll()
	stuck := false
	if ww != nil {
		if !closeStarted.Load() {
			closeStarted.Store(true)
			go func() {
				defer vWalFoRecover(t, &closeDone, closeCh)
				_, err := ww.Close()
				if !crashed {
					t.logf(`{"op":"fclosed","err":%v}`, err != nil)
				}
				closeDone.Store(true)
				closeCh <- err
			}()
		}
		select {
		case <-closeCh:
		case <-time.After(10 * time.Second):
			stuck = true
		}
	}
	if !stuck {
		stopper.stop()
		done := make(chan struct{})
		go func() { wgWaiters.Wait(); close(done) }()
		select {
		case <-done:
		case <-time.After(5 * time.Second):
		}
		if ww != nil {
			// Close has returned, so popAll has run: a waiter that is still parked was never signalled
			t.logf(`{"op":"fwaiters","pending":%d}`, nWaiters.Load()-nReleased.Load())
		}
	}
	for i := range dirs {
		dirs[i].File.Close()
	}
	if stuck {
		t.logf(`{"op":"fstuck"}`)
		return "stuck"
	}
	// read the logical log with the real Scan + virtualWALReader
	var got []string
	term := "EOF"
	logs, err := Scan(Dir{FS: readFS, Dirname: "pri"}, Dir{FS: readFS, Dirname: "sec"})
	if err != nil {
		term = "SCANERR"
	} else if ll, ok := logs.Get(wn); ok {
		rr := ll.OpenForRead()
		for {
			r, _, err := rr.NextRecord()
			if err != nil {
				switch {
				case errors.Is(err, io.EOF):
					term = "EOF"
				case record.IsInvalidRecord(err):
					term = "INVALID"
				case base.IsCorruptionError(err):
					term = "BADBATCH" // an intact record that is not a batch
				default:
					term = "OTHER"
				}
				break
			}
			data, err := io.ReadAll(r)
			if err != nil {
				term = "OTHER"
				break
			}
			h, _ := batchrepr.ReadHeader(data)
			id := int64(h.SeqNum)
			// transport: the bytes must be those written for that sequence number
			i, match := seqIndex[uint64(h.SeqNum)]
			match = match && counts[i] == h.Count && bytes.Equal(data, recs[i])
			if !match {
				id = -id - 1
			}
			got = append(got, strconv.FormatInt(id, 10))
			if len(got) > nr+10000 {
				term = "OTHER"
				break
			}
		}
		rr.Close()
	}
	// per-segment contents as the plain record reader sees them (informational: shows duplicated tails)
	var segs []string
	if ll, ok := logs.Get(wn); ok && err == nil && !scaled {
		for i := 0; i < ll.NumSegments(); i++ {
			sfs, path := ll.SegmentLocation(i)
			var ss []string
			if f, err := sfs.Open(path); err == nil {
				rr := record.NewReader(f, base.DiskFileNum(wn))
				for len(ss) < 1000 {
					r, err := rr.Next()
					if err != nil {
						break
					}
					data, err := io.ReadAll(r)
					if err != nil {
						break
					}
					if h, ok := batchrepr.ReadHeader(data); ok {
						ss = append(ss, strconv.FormatUint(uint64(h.SeqNum), 10))
					}
				}
				f.Close()
			}
			segs = append(segs, "["+strings.Join(ss, ",")+"]")
		}
	}
	t.logf(`{"op":"fread","seqs":[%s],"term":"%s","crashed":%v,"segs":[%s]}`, strings.Join(got, ","), term, crashed, strings.Join(segs, ","))
	return ""
}

func TestVWalFailover(t *testing.T) {
	out := os.Getenv("VERIF_OUT")
	cf := os.Getenv("VERIF_CASEFILE")
	if out == "" || cf == "" {
		t.Skip("VERIF_OUT / VERIF_CASEFILE not set")
	}
	seed, _ := strconv.ParseUint(os.Getenv("VERIF_SEED"), 10, 64)
	in, err := os.Open(cf)
	if err != nil {
		t.Fatal(err)
	}
	defer in.Close()
	of, err := os.Create(filepath.Join(out, "failover.ndjson"))
	if err != nil {
		t.Fatal(err)
	}
	defer of.Close()
	tr := &vWalFoTrace{w: bufio.NewWriterSize(of, 1<<20)}
	defer tr.w.Flush()
	rng := rand.New(rand.NewPCG(seed, 21))
	sc := bufio.NewScanner(in)
	sc.Buffer(make([]byte, 1<<22), 1<<22)
	n, problems := 0, 0
	for sc.Scan() {
		var c vWalFoCase
		if err := json.Unmarshal(sc.Bytes(), &c); err != nil {
			t.Fatalf("bad case: %v", err)
		}
		if p := vWalFoRun(tr, c, rng); p != "" {
			problems++
			fmt.Printf("C21-PROBLEM case %d: %s\n", c.ID, p)
		}
		tr.logf(`{"op":"reset"}`)
		n++
	}
	fmt.Printf("C21-PROBLEMS %d\n", problems)
	fmt.Printf("DRIVER-DONE cases=%d\n", n)
}
