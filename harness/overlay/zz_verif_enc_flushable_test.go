package pebble

// C31 driver (engine enc), in-package part: for every generated batch
// (VERIF_CASES), newFlushableBatch over it is iterated against a memtable that
// applied the same batch: points forward/backward, SeekGE/SeekLT of every key,
// the flush iterator, range-deletion and range-key fragments.  Both the commit
// path (setSeqNum after construction) and the WAL-replay path (sequence number
// in the repr header, SetRepr) are taken.  Events go to
// /verif/spec/BatchEnc/BatchEncTrace.tla (fb{fb, mem}); the driver executes and
// records, TLC decides.

import (
	"bufio"
	"bytes"
	"encoding/binary"
	"encoding/json"
	"fmt"
	"os"
	"path/filepath"
	"slices"
	"strconv"
	"testing"

	"github.com/cockroachdb/pebble/batchrepr"
	"github.com/cockroachdb/pebble/internal/base"
	"github.com/cockroachdb/pebble/internal/keyspan"
	"github.com/cockroachdb/pebble/internal/testkeys"
)

type vEncEv map[string]any

func vEncInt(x any) int {
	switch v := x.(type) {
	case int:
		return v
	case float64:
		return int(v)
	}
	return 0
}
func (e vEncEv) I(k string) int { return vEncInt(e[k]) }
func (e vEncEv) S(k string) string {
	s, _ := e[k].(string)
	return s
}

func vEncEnvInt(name string, def int) int {
	if s := os.Getenv(name); s != "" {
		if n, err := strconv.Atoi(s); err == nil {
			return n
		}
	}
	return def
}

type vEncUniv struct{ P, S int }

func (u vEncUniv) R() int { return u.P * (u.S + 1) }
func (u vEncUniv) Key(rank int) []byte {
	if rank >= u.R() {
		return []byte("zz")
	}
	p := rank / (u.S + 1)
	pos := rank % (u.S + 1)
	k := []byte{byte('a' + p)}
	if pos == 0 {
		return k
	}
	return append(k, []byte("@"+strconv.Itoa(u.S+1-pos))...)
}
func (u vEncUniv) Suffix(s int) []byte {
	if s == 0 {
		return nil
	}
	return []byte("@" + strconv.Itoa(s))
}
func (u vEncUniv) SuffixNum(b []byte) int {
	if len(b) == 0 {
		return 0
	}
	if b[0] != '@' {
		return -1
	}
	n, err := strconv.Atoi(string(b[1:]))
	if err != nil || n < 1 || n > u.S {
		return -1
	}
	return n
}
func (u vEncUniv) Rank(k []byte) int {
	if bytes.Equal(k, []byte("zz")) {
		return u.R()
	}
	if len(k) == 0 {
		return -1
	}
	p := int(k[0]) - 'a'
	if p < 0 || p >= u.P {
		return -1
	}
	if len(k) == 1 {
		return p * (u.S + 1)
	}
	s := u.SuffixNum(k[1:])
	if s < 1 {
		return -1
	}
	return p*(u.S+1) + (u.S + 1 - s)
}

func vEncVal(id int) []byte { return []byte("v" + strconv.Itoa(id) + ".") }
func vEncDecVal(v []byte) int {
	if len(v) < 3 || v[0] != 'v' || v[len(v)-1] != '.' {
		return -1
	}
	n, err := strconv.Atoi(string(v[1 : len(v)-1]))
	if err != nil {
		return -1
	}
	return n
}

func vEncApplyOp(u vEncUniv, b *Batch, op vEncEv) error {
	switch op.S("o") {
	case "set":
		return b.Set(u.Key(op.I("k")), vEncVal(op.I("v")), nil)
	case "del":
		return b.Delete(u.Key(op.I("k")), nil)
	case "sdel":
		return b.SingleDelete(u.Key(op.I("k")), nil)
	case "delsized":
		return b.DeleteSized(u.Key(op.I("k")), uint32(op.I("sz")), nil)
	case "merge":
		return b.Merge(u.Key(op.I("k")), vEncVal(op.I("v")), nil)
	case "delr":
		return b.DeleteRange(u.Key(op.I("a")), u.Key(op.I("b")), nil)
	case "rkset":
		return b.RangeKeySet(u.Key(op.I("a")), u.Key(op.I("b")), u.Suffix(op.I("s")), vEncVal(op.I("v")), nil)
	case "rkunset":
		return b.RangeKeyUnset(u.Key(op.I("a")), u.Key(op.I("b")), u.Suffix(op.I("s")), nil)
	case "rkdel":
		return b.RangeKeyDelete(u.Key(op.I("a")), u.Key(op.I("b")), nil)
	case "logdata":
		return b.LogData([]byte("L"+strconv.Itoa(op.I("v"))), nil)
	}
	return fmt.Errorf("unknown op %v", op)
}

var vEncKindName = map[base.InternalKeyKind]string{
	base.InternalKeyKindSet: "set", base.InternalKeyKindDelete: "del", base.InternalKeyKindSingleDelete: "sdel",
	base.InternalKeyKindDeleteSized: "delsized", base.InternalKeyKindMerge: "merge", base.InternalKeyKindRangeDelete: "delr",
	base.InternalKeyKindRangeKeySet: "rkset", base.InternalKeyKindRangeKeyUnset: "rkunset", base.InternalKeyKindRangeKeyDelete: "rkdel",
}

func vEncKind(k base.InternalKeyKind) string {
	if n, ok := vEncKindName[k]; ok {
		return n
	}
	return "kind" + strconv.Itoa(int(k))
}

// vEncEntry logs one internal point entry: [rank, seqnum-base, kind, payload].
func vEncEntry(u vEncUniv, kv *base.InternalKV, seqBase base.SeqNum) []any {
	payload := 0
	switch kv.Kind() {
	case base.InternalKeyKindSet, base.InternalKeyKindMerge:
		payload = vEncDecVal(kv.InPlaceValue())
	case base.InternalKeyKindDeleteSized:
		sz, n := binary.Uvarint(kv.InPlaceValue())
		if n <= 0 {
			sz = 1 << 40
		}
		payload = int(sz) - len(kv.K.UserKey) // the wire form stores deletedValueSize + len(key)
	}
	return []any{u.Rank(kv.K.UserKey), int(int64(kv.SeqNum()) - int64(seqBase)), vEncKind(kv.Kind()), payload}
}

func vEncFrags(u vEncUniv, it keyspan.FragmentIterator, seqBase base.SeqNum) ([]any, error) {
	res := []any{}
	if it == nil {
		return res, nil
	}
	defer it.Close()
	s, err := it.First()
	for ; s != nil; s, err = it.Next() {
		keys := []any{}
		for _, k := range s.Keys {
			suf, val := 0, 0
			switch k.Kind() {
			case base.InternalKeyKindRangeKeySet:
				suf, val = u.SuffixNum(k.Suffix), vEncDecVal(k.Value)
			case base.InternalKeyKindRangeKeyUnset:
				suf = u.SuffixNum(k.Suffix)
			}
			keys = append(keys, []any{int(int64(k.SeqNum()) - int64(seqBase)), vEncKind(k.Kind()), suf, val})
		}
		res = append(res, []any{u.Rank(s.Start), u.Rank(s.End), keys})
	}
	return res, err
}

// vEncIterate records everything a flushable presents.
func vEncIterate(u vEncUniv, f flushable, seqBase base.SeqNum) (vEncEv, error) {
	one := func(kv *base.InternalKV) []any {
		if kv == nil {
			return []any{}
		}
		return []any{vEncEntry(u, kv, seqBase)}
	}
	fwd, bwd, fl := []any{}, []any{}, []any{}
	it := f.newIter(nil)
	for kv := it.First(); kv != nil; kv = it.Next() {
		fwd = append(fwd, vEncEntry(u, kv, seqBase))
	}
	for kv := it.Last(); kv != nil; kv = it.Prev() {
		bwd = append(bwd, vEncEntry(u, kv, seqBase))
	}
	sge, slt := []any{}, []any{}
	for k := 0; k < u.R(); k++ {
		sge = append(sge, one(it.SeekGE(u.Key(k), base.SeekGEFlagsNone)))
		slt = append(slt, one(it.SeekLT(u.Key(k), base.SeekLTFlagsNone)))
	}
	if err := it.Close(); err != nil {
		return nil, err
	}
	fit := f.newFlushIter(nil)
	for kv := fit.First(); kv != nil; kv = fit.Next() {
		fl = append(fl, vEncEntry(u, kv, seqBase))
	}
	if err := fit.Close(); err != nil {
		return nil, err
	}
	rd, err := vEncFrags(u, f.newRangeDelIter(nil), seqBase)
	if err != nil {
		return nil, err
	}
	rk, err := vEncFrags(u, f.newRangeKeyIter(nil), seqBase)
	if err != nil {
		return nil, err
	}
	return vEncEv{"fwd": fwd, "bwd": bwd, "sge": sge, "slt": slt, "fl": fl, "rd": rd, "rk": rk}, nil
}

func vEncBuild(u vEncUniv, ops []any) (*Batch, error) {
	b := newBatch(nil)
	for _, o := range ops {
		if err := vEncApplyOp(u, b, vEncEv(o.(map[string]any))); err != nil {
			return nil, err
		}
	}
	return b, nil
}

func vEncNoIter() vEncEv {
	return vEncEv{"fwd": []any{}, "bwd": []any{}, "sge": []any{}, "slt": []any{}, "fl": []any{}, "rd": []any{}, "rk": []any{}}
}

// vEncOne: flushable batch vs memtable for one batch through one path.
func vEncOne(u vEncUniv, ops []any, path string, seqBase base.SeqNum) (ev vEncEv) {
	ev = vEncEv{"op": "fb", "path": path, "fb": vEncNoIter(), "mem": vEncNoIter(), "err": ""}
	defer func() {
		if r := recover(); r != nil {
			ev["err"] = fmt.Sprint("panic: ", r)
		}
	}()
	cmp := testkeys.Comparer
	b, err := vEncBuild(u, ops)
	if err != nil {
		ev["err"] = err.Error()
		return ev
	}
	repr := slices.Clone(b.Repr())
	// the memtable side
	mb := new(Batch)
	if err := mb.SetRepr(slices.Clone(repr)); err != nil {
		ev["err"] = err.Error()
		return ev
	}
	mem := newMemTable(memTableOptions{Options: &Options{Comparer: cmp}, size: 128 << 10, releaseAccountingReservation: func() {}})
	defer mem.free()
	if err := mem.apply(mb, seqBase); err != nil {
		ev["err"] = "memTable.apply: " + err.Error()
		return ev
	}
	// the flushable-batch side
	var fb *flushableBatch
	switch path {
	case "commit": // DB.Apply: newFlushableBatch before the seqnum is known, commitPipeline -> setSeqNum
		fb, err = newFlushableBatch(b, cmp)
		if err == nil {
			fb.setSeqNum(seqBase)
		}
	case "replay": // recovery.go: the WAL record carries the seqnum in its header; SetRepr; newFlushableBatch
		batchrepr.SetSeqNum(repr, seqBase)
		var rb Batch
		rb.db = nil
		if err = rb.SetRepr(repr); err == nil {
			fb, err = newFlushableBatch(&rb, cmp)
		}
	}
	if err != nil {
		ev["err"] = "newFlushableBatch: " + err.Error()
		return ev
	}
	fi, err := vEncIterate(u, fb, seqBase)
	if err != nil {
		ev["err"] = err.Error()
		return ev
	}
	mi, err := vEncIterate(u, mem, seqBase)
	if err != nil {
		ev["err"] = err.Error()
		return ev
	}
	ev["fb"], ev["mem"] = fi, mi
	return ev
}

func TestVEncFlushable(t *testing.T) {
	out := os.Getenv("VERIF_OUT")
	if out == "" {
		t.Skip("VERIF_OUT not set")
	}
	u := vEncUniv{P: vEncEnvInt("VERIF_P", 3), S: vEncEnvInt("VERIF_S", 2)}
	seed := vEncEnvInt("VERIF_SEED", 1)
	f, err := os.Open(os.Getenv("VERIF_CASES"))
	if err != nil {
		t.Fatal(err)
	}
	defer f.Close()
	sc := bufio.NewScanner(f)
	sc.Buffer(make([]byte, 1<<20), 1<<26)
	perFile := vEncEnvInt("VERIF_PERFILE", 300)
	var w *bufio.Writer
	var wf *os.File
	closeW := func() {
		if w != nil {
			w.Flush()
			wf.Close()
		}
	}
	emit := func(e vEncEv) {
		b, err := json.Marshal(e)
		if err != nil {
			panic(err)
		}
		w.Write(b)
		w.WriteByte('\n')
	}
	n, nFiles, nEv := 0, 0, 0
	for sc.Scan() {
		if len(bytes.TrimSpace(sc.Bytes())) == 0 {
			continue
		}
		var cs map[string]any
		if err := json.Unmarshal(sc.Bytes(), &cs); err != nil {
			t.Fatal(err)
		}
		if n%perFile == 0 {
			closeW()
			wf, err = os.Create(filepath.Join(out, fmt.Sprintf("c31fb-%d-%05d.ndjson", seed, nFiles)))
			if err != nil {
				t.Fatal(err)
			}
			w = bufio.NewWriterSize(wf, 1<<20)
			nFiles++
		}
		ops := cs["ops"].([]any)
		emit(vEncEv{"op": "case", "id": n, "pre": cs["pre"], "ops": ops})
		seqBase := base.SeqNum(10 + (n+seed)%7*1000)
		emit(vEncOne(u, ops, "commit", seqBase))
		emit(vEncOne(u, ops, "replay", seqBase))
		nEv += 2
		n++
	}
	closeW()
	fmt.Printf("DRIVER-DONE cases=%d files=%d fb=%d\n", n, nFiles, nEv)
}
