package pebble

// C33 driver (engine sst): builds multi-level layouts from real sstables on a
// MemFS, opens the real levelIter/mergingIter stack (v1) and the real
// levelIterV2/mergingIterV2 stack (v2) over them and records every positioning
// call in the vocabulary of /verif/spec/InternalIter/InternalIterTrace.tla.
// The driver executes and records; TLC decides.

import (
	"bufio"
	"context"
	"encoding/json"
	"fmt"
	"math/rand/v2"
	"os"
	"path/filepath"
	"sort"
	"strconv"
	"testing"

	"github.com/cockroachdb/pebble/internal/base"
	"github.com/cockroachdb/pebble/internal/iterv2"
	"github.com/cockroachdb/pebble/internal/keyspan"
	"github.com/cockroachdb/pebble/internal/manifest"
	"github.com/cockroachdb/pebble/internal/testkeys"
	"github.com/cockroachdb/pebble/objstorage"
	"github.com/cockroachdb/pebble/objstorage/objstorageprovider"
	"github.com/cockroachdb/pebble/sstable"
	"github.com/cockroachdb/pebble/sstable/colblk"
	"github.com/cockroachdb/pebble/vfs"
)

type vSstEv map[string]any

func vSstInt(x any) int {
	switch v := x.(type) {
	case int:
		return v
	case float64:
		return int(v)
	}
	return 0
}
func (e vSstEv) I(k string) int { return vSstInt(e[k]) }
func (e vSstEv) S(k string) string {
	s, _ := e[k].(string)
	return s
}

func vSstEnvInt(name string, def int) int {
	if s := os.Getenv(name); s != "" {
		if n, err := strconv.Atoi(s); err == nil {
			return n
		}
	}
	return def
}

type vSstTrace struct {
	f *os.File
	w *bufio.Writer
	N int
}

func vSstNewTrace(path string) *vSstTrace {
	f, err := os.Create(path)
	if err != nil {
		panic(err)
	}
	return &vSstTrace{f: f, w: bufio.NewWriterSize(f, 1<<20)}
}
func (t *vSstTrace) Emit(e vSstEv) {
	b, err := json.Marshal(e)
	if err != nil {
		panic(err)
	}
	t.w.Write(b)
	t.w.WriteByte('\n')
	t.N++
}
func (t *vSstTrace) Close() { t.w.Flush(); t.f.Close() }

// universe: ranks over P prefixes x (bare + S suffixes), testkeys comparer
type vSstUniv struct {
	P, S int
	back map[string]int
}

func vSstNewUniv(p, s int) *vSstUniv {
	u := &vSstUniv{P: p, S: s, back: map[string]int{}}
	for k := 0; k <= u.R(); k++ {
		u.back[string(u.Key(k))] = k
	}
	return u
}
func (u *vSstUniv) R() int { return u.P * (u.S + 1) }
func (u *vSstUniv) Key(rank int) []byte {
	if rank >= u.R() {
		return []byte("~")
	}
	p, pos := rank/(u.S+1), rank%(u.S+1)
	k := []byte{byte('a' + p), byte('a' + p)}
	if pos == 0 {
		return k
	}
	return append(k, []byte("@"+strconv.Itoa(u.S+1-pos))...)
}
func (u *vSstUniv) Rank(k []byte) int {
	if r, ok := u.back[string(k)]; ok {
		return r
	}
	return -1
}
func vSstVal(id int) []byte {
	if id == 0 {
		return nil
	}
	return []byte("v" + strconv.Itoa(id) + ".")
}
func vSstValID(v []byte) int {
	if len(v) == 0 {
		return 0
	}
	if len(v) < 3 || v[0] != 'v' || v[len(v)-1] != '.' {
		return -1
	}
	n, err := strconv.Atoi(string(v[1 : len(v)-1]))
	if err != nil || n <= 0 {
		return -1
	}
	return n
}

// a file of the layout: points [k, seq, kind, v], fragments [a, b, [seq...]]
type vSstFile struct {
	Pts [][]int `json:"pts"`
	Rd  []any   `json:"rd"`
}

type vSstLayout struct {
	Levels [][]vSstFile
	Snap   int
}

func vSstLayoutFromEv(e vSstEv) *vSstLayout {
	b, _ := json.Marshal(e["levels"])
	l := &vSstLayout{Snap: e.I("snap")}
	if err := json.Unmarshal(b, &l.Levels); err != nil {
		panic(err)
	}
	return l
}

func (l *vSstLayout) Event(stack, cfg string) vSstEv {
	lv := make([][]vSstFile, len(l.Levels))
	for i := range l.Levels {
		lv[i] = l.Levels[i]
		if lv[i] == nil {
			lv[i] = []vSstFile{}
		}
		for j := range lv[i] {
			if lv[i][j].Pts == nil {
				lv[i][j].Pts = [][]int{}
			}
			if lv[i][j].Rd == nil {
				lv[i][j].Rd = []any{}
			}
		}
	}
	return vSstEv{"op": "levels", "stack": stack, "cfg": cfg, "snap": l.Snap, "levels": lv}
}

// vSstNorm passes a layout through JSON so that generated and file layouts have the same dynamic types.
func vSstNorm(l *vSstLayout) *vSstLayout {
	b, err := json.Marshal(l.Event("", ""))
	if err != nil {
		panic(err)
	}
	var raw map[string]any
	if err := json.Unmarshal(b, &raw); err != nil {
		panic(err)
	}
	return vSstLayoutFromEv(vSstEv(raw))
}

type vSstCfg struct {
	Name      string
	Format    sstable.TableFormat
	BlockSize int
	L0        int // how many of the top levels are L0 sublevels
}

var vSstKeySchema = colblk.DefaultKeySchema(testkeys.Comparer, 16)

// vSstBuilt holds the real tables of one layout.
type vSstBuilt struct {
	u       *vSstUniv
	readers []*sstable.Reader
	levels  [][]*manifest.TableMetadata
	cfg     vSstCfg
}

func (b *vSstBuilt) Close() {
	for _, r := range b.readers {
		r.Close()
	}
}

func vSstBuild(u *vSstUniv, l *vSstLayout, cfg vSstCfg) (*vSstBuilt, error) {
	mem := vfs.NewMem()
	b := &vSstBuilt{u: u, cfg: cfg}
	cmp := testkeys.Comparer
	for _, files := range l.Levels {
		var metas []*manifest.TableMetadata
		for _, f := range files {
			tn := base.TableNum(len(b.readers))
			name := fmt.Sprint(tn)
			fh, err := mem.Create(name, vfs.WriteCategoryUnspecified)
			if err != nil {
				return nil, err
			}
			w := sstable.NewRawWriter(objstorageprovider.NewFileWritable(fh), sstable.WriterOptions{
				Comparer: cmp, TableFormat: cfg.Format, BlockSize: cfg.BlockSize, IndexBlockSize: cfg.BlockSize, KeySchema: &vSstKeySchema,
			})
			for _, p := range f.Pts {
				ik := base.MakeInternalKey(u.Key(p[0]), base.SeqNum(p[1]), base.InternalKeyKind(p[2]))
				if err := w.Add(ik, vSstVal(p[3]), false, base.KVMeta{}); err != nil {
					return nil, err
				}
			}
			for _, x := range f.Rd {
				fr := x.([]any)
				sp := keyspan.Span{Start: u.Key(vSstInt(fr[0])), End: u.Key(vSstInt(fr[1]))}
				for _, s := range fr[2].([]any) {
					sp.Keys = append(sp.Keys, keyspan.Key{Trailer: base.MakeTrailer(base.SeqNum(vSstInt(s)), base.InternalKeyKindRangeDelete)})
				}
				if err := w.EncodeSpan(sp); err != nil {
					return nil, err
				}
			}
			if err := w.Close(); err != nil {
				return nil, err
			}
			meta, err := w.Metadata()
			if err != nil {
				return nil, err
			}
			rf, err := mem.Open(name)
			if err != nil {
				return nil, err
			}
			readable, err := objstorage.NewSimpleReadable(rf)
			if err != nil {
				return nil, err
			}
			r, err := sstable.NewReader(context.Background(), readable, sstable.ReaderOptions{
				Comparer: cmp, KeySchemas: sstable.MakeKeySchemas(&vSstKeySchema),
			})
			if err != nil {
				return nil, err
			}
			m := &manifest.TableMetadata{TableNum: tn, Size: meta.Size}
			if meta.HasPointKeys {
				m.ExtendPointKeyBounds(cmp.Compare, meta.SmallestPoint, meta.LargestPoint)
			}
			if meta.HasRangeDelKeys {
				m.ExtendPointKeyBounds(cmp.Compare, meta.SmallestRangeDel, meta.LargestRangeDel)
			}
			m.SeqNums = meta.SeqNums
			m.InitPhysicalBacking()
			b.readers = append(b.readers, r)
			metas = append(metas, m)
		}
		b.levels = append(b.levels, metas)
	}
	return b, nil
}

func (b *vSstBuilt) newIters(
	ctx context.Context, file *manifest.TableMetadata, opts *IterOptions, iio internalIterOpts, kinds iterKinds,
) (iterSet, error) {
	var set iterSet
	r := b.readers[file.TableNum]
	if kinds.Point() {
		it, err := r.NewPointIter(ctx, sstable.IterOptions{
			Lower: opts.GetLowerBound(), Upper: opts.GetUpperBound(), Transforms: file.IterTransforms(),
			Env: iio.readEnv, ReaderProvider: sstable.MakeTrivialReaderProvider(r), BlobContext: sstable.AssertNoBlobHandles,
		})
		if err != nil {
			return iterSet{}, err
		}
		set.point = it
	}
	if kinds.RangeDeletion() {
		rd, err := r.NewRawRangeDelIter(ctx, file.FragmentIterTransforms(), sstable.NoReadEnv)
		if err != nil {
			return iterSet{}, err
		}
		set.rangeDeletion = rd
	}
	return set, nil
}

func (b *vSstBuilt) layer(i, n int) manifest.Layer {
	// top cfg.L0 levels are L0 sublevels (newest = highest sublevel), the rest L1..
	if i < b.cfg.L0 {
		return manifest.L0Sublevel(b.cfg.L0 - 1 - i)
	}
	lv := 1 + i - b.cfg.L0
	if lv > 6 {
		lv = 6
	}
	return manifest.Level(lv)
}

// vSstStack is one opened merging iterator.
type vSstStack struct {
	it    base.InternalIterator
	keep  [][]byte
	stats base.InternalIteratorStats
	succ  []byte
	dead  bool
}

func (b *vSstBuilt) open(stack string, snap int, lower, upper []byte) *vSstStack {
	s := &vSstStack{}
	cmp := testkeys.Comparer
	opts := IterOptions{LowerBound: lower, UpperBound: upper}
	ctx := context.Background()
	n := len(b.levels)
	if stack == "v1" {
		mlevels := make([]mergingIterLevel, 0, n)
		for i, files := range b.levels {
			if len(files) == 0 {
				continue
			}
			slice := manifest.NewLevelSliceKeySorted(cmp.Compare, files)
			li := newLevelIter(ctx, opts, cmp, b.newIters, slice.Iter(), b.layer(i, n), internalIterOpts{})
			mlevels = append(mlevels, mergingIterLevel{iter: li, levelIter: li})
		}
		for i := range mlevels {
			mlevels[i].levelIter.initRangeDel(&mlevels[i])
		}
		m := &mergingIter{}
		m.init(&opts, &s.stats, cmp.Compare, cmp.Split, mlevels...)
		m.snapshot = base.SeqNum(snap)
		s.it = m
		return s
	}
	var iters []iterv2.Iter
	for i, files := range b.levels {
		if len(files) == 0 {
			continue
		}
		slice := manifest.NewLevelSliceKeySorted(cmp.Compare, files)
		files2 := slice.Iter()
		li := newLevelIterV2(ctx, opts, cmp, b.newIters, files2.Filter(manifest.KeyTypePoint), b.layer(i, n), internalIterOpts{})
		iters = append(iters, li)
	}
	m := newMergingIterV2(cmp.Compare, cmp.Split, base.SeqNum(snap), iters...)
	m.lower, m.upper = lower, upper
	m.stats = &s.stats
	s.it = m
	return s
}

// setBounds re-binds the same real merging iterator (Iterator.SetBounds does this to its
// mergingIter, which forwards to every levelIter and from there to the open table iterator).
func (b *vSstBuilt) setBounds(s *vSstStack, lo, hi int) {
	if s.dead {
		return
	}
	defer func() {
		if p := recover(); p != nil {
			s.dead = true
			fmt.Printf("DRIVER-PANIC setb: %v\n", p)
		}
	}()
	lower, upper := vSstBound(b.u, lo, 0), vSstBound(b.u, hi, b.u.R())
	s.keep = append(s.keep, lower, upper)
	s.it.SetBounds(lower, upper)
}

func (b *vSstBuilt) op(s *vSstStack, o string, k int) (res []int) {
	if s.dead {
		return []int{-2}
	}
	defer func() {
		if p := recover(); p != nil {
			s.dead = true
			res = []int{-2}
			fmt.Printf("DRIVER-PANIC %s: %v\n", o, p)
		}
	}()
	it := s.it
	var kv *base.InternalKV
	kb := func() []byte {
		x := b.u.Key(k)
		s.keep = append(s.keep, x)
		return x
	}
	switch o {
	case "first":
		kv = it.First()
	case "last":
		kv = it.Last()
	case "next":
		kv = it.Next()
	case "prev":
		kv = it.Prev()
	case "seekge":
		kv = it.SeekGE(kb(), base.SeekGEFlagsNone)
	case "seeklt":
		kv = it.SeekLT(kb(), base.SeekLTFlagsNone)
	case "seekprefixge":
		key := kb()
		kv = it.SeekPrefixGE(key[:testkeys.Comparer.Split(key)], key, base.SeekGEFlagsNone)
	case "nextprefix":
		kv = it.NextPrefix(s.succ)
	}
	if kv == nil {
		if it.Error() != nil {
			return []int{-1}
		}
		return []int{}
	}
	v, _, err := kv.Value(nil)
	if err != nil {
		return []int{-1}
	}
	uk := kv.K.UserKey
	s.succ = testkeys.Comparer.ImmediateSuccessor(nil, uk[:testkeys.Comparer.Split(uk)])
	return []int{b.u.Rank(uk), int(kv.SeqNum()), int(kv.Kind()), vSstValID(v)}
}

// ---- seeded layouts: logical writes placed into levels by per-key seqnum
// thresholds that are step functions of the key (what compactions of key
// ranges produce), tombstones cut where their level changes, fragmented per
// level, levels cut into files.
//
// dense=true concentrates everything on a window of 2-4 adjacent user keys: many versions of a
// key and several overlapping tombstones (fragments with several sequence numbers) inside ONE
// level, points between them in sequence number, and a read sequence number anywhere in the
// history (snapshots that see only part of a level's tombstones).
func vSstGenLayout(rng *rand.Rand, u *vSstUniv, nl, q int, dense bool) *vSstLayout {
	r := u.R()
	w0, w1 := 0, r // keys are drawn from [w0, w1)
	if dense {
		kw := 2 + rng.IntN(3)
		w0 = rng.IntN(r - kw + 1)
		w1 = w0 + kw
	}
	th := make([][]int, nl+1) // th[i][k]: level i (1-based) holds seqs in (th[i][k], th[i-1][k]]
	th[0] = make([]int, r)
	for k := range th[0] {
		th[0][k] = q + 1
	}
	for i := 1; i <= nl; i++ {
		th[i] = make([]int, r)
		if i == nl {
			continue // 0: everything older lands in the last level
		}
		cut1, cut2 := rng.IntN(r+1), rng.IntN(r+1)
		if cut1 > cut2 {
			cut1, cut2 = cut2, cut1
		}
		vals := []int{rng.IntN(q + 1), rng.IntN(q + 1), rng.IntN(q + 1)}
		for k := 0; k < r; k++ {
			v := vals[0]
			if k >= cut1 {
				v = vals[1]
			}
			if k >= cut2 {
				v = vals[2]
			}
			if v > th[i-1][k] {
				v = th[i-1][k]
			}
			th[i][k] = v
		}
	}
	levelOf := func(k, s int) int {
		for i := 1; i <= nl; i++ {
			if s > th[i][k] {
				return i
			}
		}
		return nl
	}
	pts := make([][][]int, nl+1)
	rds := make([][][3]int, nl+1)
	seen := map[[2]int]bool{}
	kinds := []int{1, 1, 1, 0, 2, 7, 18}
	np := rng.IntN(16)
	if dense {
		np = 3 + rng.IntN(10)
	}
	id := 1
	for i := 0; i < np; i++ {
		k, s := w0+rng.IntN(w1-w0), 1+rng.IntN(q)
		if seen[[2]int{k, s}] {
			continue
		}
		seen[[2]int{k, s}] = true
		kd := kinds[rng.IntN(len(kinds))]
		v := 0
		if kd != 0 && kd != 7 {
			v = id
			id++
		}
		lv := levelOf(k, s)
		pts[lv] = append(pts[lv], []int{k, s, kd, v})
	}
	nr := rng.IntN(5)
	if dense {
		nr = 2 + rng.IntN(4)
	}
	for i := 0; i < nr; i++ {
		a := rng.IntN(r)
		b := a + 1 + rng.IntN(r-a)
		if dense {
			// around the window: may start one key before it and end one key after it
			lo, hi := w0, w1
			if lo > 0 {
				lo--
			}
			if hi < r {
				hi++
			}
			a = lo + rng.IntN(hi-lo)
			b = a + 1 + rng.IntN(hi-a)
		}
		s := 1 + rng.IntN(q)
		start, cur := a, levelOf(a, s)
		for k := a + 1; k <= b; k++ {
			if k == b || levelOf(k, s) != cur {
				rds[cur] = append(rds[cur], [3]int{start, k, s})
				if k < b {
					start, cur = k, levelOf(k, s)
				}
			}
		}
	}
	l := &vSstLayout{Snap: q + 1}
	if rng.IntN(3) == 0 || (dense && rng.IntN(2) == 0) {
		l.Snap = 1 + rng.IntN(q+1)
	}
	for lv := 1; lv <= nl; lv++ {
		p := pts[lv]
		sort.Slice(p, func(i, j int) bool {
			if p[i][0] != p[j][0] {
				return p[i][0] < p[j][0]
			}
			return p[i][1] > p[j][1]
		})
		// fragment the tombstones of the level
		eps := map[int]bool{}
		for _, t := range rds[lv] {
			eps[t[0]], eps[t[1]] = true, true
		}
		var ep []int
		for e := range eps {
			ep = append(ep, e)
		}
		sort.Ints(ep)
		type frag struct {
			a, b int
			seqs []int
		}
		var frags []frag
		for i := 0; i+1 < len(ep); i++ {
			set := map[int]bool{}
			for _, t := range rds[lv] {
				if t[0] <= ep[i] && ep[i+1] <= t[1] {
					set[t[2]] = true
				}
			}
			if len(set) == 0 {
				continue
			}
			var ss []int
			for s := range set {
				ss = append(ss, s)
			}
			sort.Sort(sort.Reverse(sort.IntSlice(ss)))
			frags = append(frags, frag{ep[i], ep[i+1], ss})
		}
		// cut the level into files
		cuts := []int{0}
		for c := 0; c < rng.IntN(3); c++ {
			cuts = append(cuts, 1+rng.IntN(r-1))
		}
		cuts = append(cuts, r)
		sort.Ints(cuts)
		var files []vSstFile
		for c := 0; c+1 < len(cuts); c++ {
			lo, hi := cuts[c], cuts[c+1]
			if lo == hi {
				continue
			}
			f := vSstFile{Pts: [][]int{}, Rd: []any{}}
			for _, e := range p {
				if e[0] >= lo && e[0] < hi {
					f.Pts = append(f.Pts, e)
				}
			}
			for _, fr := range frags {
				a, b := fr.a, fr.b
				if a < lo {
					a = lo
				}
				if b > hi {
					b = hi
				}
				if a < b {
					f.Rd = append(f.Rd, []any{a, b, fr.seqs})
				}
			}
			if len(f.Pts)+len(f.Rd) > 0 {
				files = append(files, f)
			}
		}
		l.Levels = append(l.Levels, files)
	}
	return l
}

type vSstPtState struct {
	lo, hi int
	st     string
	pfx    int
	fwd    bool
}

func (st *vSstPtState) rebind(lo, hi int) {
	*st = vSstPtState{lo: lo, hi: hi, st: "unpos", pfx: -1, fwd: true}
}

// observe updates the contract state from the real result of call o(k).
func (st *vSstPtState) observe(u *vSstUniv, o string, k int, res []int) {
	forward := o != "last" && o != "seeklt" && o != "prev"
	switch o {
	case "first", "last", "seekge", "seeklt":
		st.pfx = -1
	case "seekprefixge":
		st.pfx = k / (u.S + 1)
	}
	st.fwd = forward
	switch {
	case len(res) == 4 && res[0] >= 0:
		st.st = "at"
		if st.pfx >= 0 && res[0]/(u.S+1) != st.pfx {
			st.st = "undef"
		}
	case len(res) == 0 && (st.pfx >= 0 || o == "nextprefix"):
		st.st = "undef"
	case len(res) == 0 && forward:
		st.st = "after"
	case len(res) == 0:
		st.st = "before"
	default:
		st.st = "undef"
	}
}

func (st *vSstPtState) canNext() bool {
	return (st.pfx < 0 && (st.st == "at" || st.st == "before")) || (st.pfx >= 0 && st.st == "at")
}
func (st *vSstPtState) canPrev() bool { return st.pfx < 0 && (st.st == "at" || st.st == "after") }

// vSstNextBounds draws the bounds of a reuse: the window moves forward (mostly to the adjacent
// window), backward, or anywhere.
func vSstNextBounds(rng *rand.Rand, r, lo, hi int) (int, int) {
	switch m := rng.IntN(5); {
	case m <= 1 && hi < r:
		nlo := hi
		if rng.IntN(3) == 0 {
			nlo = hi + rng.IntN(r-hi)
		}
		return nlo, nlo + 1 + rng.IntN(r-nlo)
	case m <= 3 && lo > 0:
		nhi := lo
		if rng.IntN(3) == 0 {
			nhi = 1 + rng.IntN(lo)
		}
		return rng.IntN(nhi), nhi
	}
	nlo := rng.IntN(r)
	return nlo, nlo + 1 + rng.IntN(r-nlo)
}

// vSstGenOps generates in-contract calls while executing them on the leader stack.
func vSstGenOps(rng *rand.Rand, b *vSstBuilt, s *vSstStack, h, lo, hi, n int, tr *vSstTrace) []vSstEv {
	u := b.u
	st := &vSstPtState{}
	st.rebind(lo, hi)
	var script []vSstEv
	for i := 0; i < n; i++ {
		type cand struct {
			o string
			w int
		}
		var cs []cand
		if st.lo == 0 {
			cs = append(cs, cand{"first", 2})
		}
		if st.hi == u.R() {
			cs = append(cs, cand{"last", 2})
		}
		cs = append(cs, cand{"seekge", 4}, cand{"seeklt", 4})
		if st.lo <= u.R()-1 {
			cs = append(cs, cand{"seekprefixge", 2})
		}
		if (st.pfx < 0 && (st.st == "at" || st.st == "before")) || (st.pfx >= 0 && st.st == "at") {
			cs = append(cs, cand{"next", 10})
		}
		if st.pfx < 0 && (st.st == "at" || st.st == "after") {
			cs = append(cs, cand{"prev", 10})
		}
		if st.pfx < 0 && st.st == "at" && st.fwd {
			cs = append(cs, cand{"nextprefix", 3})
		}
		if st.st != "unpos" {
			cs = append(cs, cand{"setb", 2})
		}
		tot := 0
		for _, c := range cs {
			tot += c.w
		}
		pick, o := rng.IntN(tot), ""
		for _, c := range cs {
			if pick < c.w {
				o = c.o
				break
			}
			pick -= c.w
		}
		if o == "setb" {
			nlo, nhi := vSstNextBounds(rng, u.R(), st.lo, st.hi)
			b.setBounds(s, nlo, nhi)
			e := vSstEv{"op": "setb", "h": h, "lo": nlo, "hi": nhi}
			script = append(script, e)
			tr.Emit(e)
			st.rebind(nlo, nhi)
			continue
		}
		k := 0
		switch o {
		case "seekge", "seeklt":
			k = st.lo + rng.IntN(st.hi-st.lo+1)
		case "seekprefixge":
			top := st.hi
			if top > u.R()-1 {
				top = u.R() - 1
			}
			k = st.lo + rng.IntN(top-st.lo+1)
		}
		res := b.op(s, o, k)
		script = append(script, vSstEv{"op": "it", "h": h, "o": o, "k": k, "f": 0})
		tr.Emit(vSstEv{"op": "it", "h": h, "o": o, "k": k, "f": 0, "res": res})
		st.observe(u, o, k, res)
	}
	return script
}

// vSstGenScan generates, while executing on the leader stack, the systematic part of a
// layout's script on iterator h (opened by the caller over [0, R)): a full forward and a full
// reverse scan; at (up to maxKeys of) the user keys seen, a direction switch in both orders
// (SeekGE k, Prev, Next / SeekLT k+1, Next, Prev); then the iterator is REUSED over a sequence
// of windows (SetBounds; forward windows SeekGE+Next.., backward windows SeekLT+Prev..).
func vSstGenScan(rng *rand.Rand, b *vSstBuilt, s *vSstStack, h, maxKeys int, tr *vSstTrace) []vSstEv {
	u := b.u
	st := &vSstPtState{}
	st.rebind(0, u.R())
	var script []vSstEv
	call := func(o string, k int) []int {
		res := b.op(s, o, k)
		script = append(script, vSstEv{"op": "it", "h": h, "o": o, "k": k, "f": 0})
		tr.Emit(vSstEv{"op": "it", "h": h, "o": o, "k": k, "f": 0, "res": res})
		st.observe(u, o, k, res)
		return res
	}
	isKV := func(r []int) bool { return len(r) == 4 && r[0] >= 0 }
	seen := map[int]bool{}
	var keys []int
	for r, n := call("first", 0), 0; isKV(r) && n < 64; n++ {
		if !seen[r[0]] {
			seen[r[0]] = true
			keys = append(keys, r[0])
		}
		r = call("next", 0)
	}
	for r, n := call("last", 0), 0; isKV(r) && n < 64; n++ {
		r = call("prev", 0)
	}
	rng.Shuffle(len(keys), func(i, j int) { keys[i], keys[j] = keys[j], keys[i] })
	if len(keys) > maxKeys {
		keys = keys[:maxKeys]
	}
	for _, k := range keys {
		call("seekge", k)
		if st.canPrev() {
			call("prev", 0)
		}
		if st.canNext() {
			call("next", 0)
		}
		call("seeklt", k+1)
		if st.canNext() {
			call("next", 0)
		}
		if st.canPrev() {
			call("prev", 0)
		}
	}
	// reuse over windows
	set := map[int]bool{}
	for i, n := 0, 2+rng.IntN(4); i < n; i++ {
		set[rng.IntN(u.R()+1)] = true
	}
	var cuts []int
	for c := range set {
		cuts = append(cuts, c)
	}
	sort.Ints(cuts)
	var wins [][2]int
	for i := 0; i+1 < len(cuts); i++ {
		wins = append(wins, [2]int{cuts[i], cuts[i+1]})
	}
	back := rng.IntN(2) == 0
	if back {
		for i, j := 0, len(wins)-1; i < j; i, j = i+1, j-1 {
			wins[i], wins[j] = wins[j], wins[i]
		}
	}
	for _, w := range wins {
		b.setBounds(s, w[0], w[1])
		e := vSstEv{"op": "setb", "h": h, "lo": w[0], "hi": w[1]}
		script = append(script, e)
		tr.Emit(e)
		st.rebind(w[0], w[1])
		limit := 64
		if rng.IntN(3) == 0 {
			limit = rng.IntN(3)
		}
		if back {
			for r, n := call("seeklt", w[1]), 0; isKV(r) && n < limit; n++ {
				r = call("prev", 0)
			}
		} else {
			for r, n := call("seekge", w[0]), 0; isKV(r) && n < limit; n++ {
				r = call("next", 0)
			}
		}
	}
	return script
}

// vSstLeadScan opens iterator h over [0, R) on the leader stack, runs vSstGenScan and returns
// the script (open + calls) for the replays on the other stacks and configurations.
func vSstLeadScan(rng *rand.Rand, b *vSstBuilt, l *vSstLayout, stack string, h, maxKeys int, tr *vSstTrace) []vSstEv {
	s := b.open(stack, l.Snap, nil, nil)
	open := vSstEv{"op": "open", "h": h, "t": "pt", "lo": 0, "hi": b.u.R()}
	tr.Emit(open)
	script := append([]vSstEv{open}, vSstGenScan(rng, b, s, h, maxKeys, tr)...)
	if !s.dead {
		s.it.Close()
	}
	return script
}

func vSstBound(u *vSstUniv, rank, none int) []byte {
	if rank == none {
		return nil
	}
	return u.Key(rank)
}

func vSstReplay(b *vSstBuilt, l *vSstLayout, stack string, script []vSstEv, tr *vSstTrace) {
	tr.Emit(l.Event(stack, b.cfg.Name))
	var s *vSstStack
	for _, e := range script {
		switch e.S("op") {
		case "open":
			if s != nil {
				s.it.Close()
			}
			s = b.open(stack, l.Snap, vSstBound(b.u, e.I("lo"), 0), vSstBound(b.u, e.I("hi"), b.u.R()))
			tr.Emit(vSstEv{"op": "open", "h": e.I("h"), "t": "pt", "lo": e.I("lo"), "hi": e.I("hi")})
		case "setb":
			b.setBounds(s, e.I("lo"), e.I("hi"))
			tr.Emit(vSstEv{"op": "setb", "h": e.I("h"), "lo": e.I("lo"), "hi": e.I("hi")})
		case "it":
			res := b.op(s, e.S("o"), e.I("k"))
			tr.Emit(vSstEv{"op": "it", "h": e.I("h"), "o": e.S("o"), "k": e.I("k"), "f": 0, "res": res})
		}
	}
	if s != nil && !s.dead {
		s.it.Close()
	}
}

func vSstCfgs(tier string) []vSstCfg {
	var r []vSstCfg
	add := func(f sstable.TableFormat, bs, l0 int) {
		r = append(r, vSstCfg{Name: fmt.Sprintf("%s/bs%d/l0=%d", f, bs, l0), Format: f, BlockSize: bs, L0: l0})
	}
	add(sstable.TableFormatMax, 1, 0)
	add(sstable.TableFormatPebblev4, 4096, 2)
	if tier != "quick" {
		add(sstable.TableFormatMinSupported, 32, 1)
		add(sstable.TableFormatMax, 4096, 3)
	}
	return r
}

// TestVSstC33: TLC-generated layouts+scripts (VERIF_SCRIPTFILE, universe
// VERIF_GP x VERIF_GS) and seeded layouts (VERIF_P x VERIF_S), each under
// several table configurations and on both iterator stacks.
func TestVSstC33(t *testing.T) {
	out := os.Getenv("VERIF_OUT")
	if out == "" {
		t.Skip("VERIF_OUT not set")
	}
	seed := uint64(vSstEnvInt("VERIF_SEED", 1))
	tier := os.Getenv("VERIF_TIER")
	cfgs := vSstCfgs(tier)
	stacks := []string{"v1", "v2"}
	nEvents, nLayouts, nFiles := 0, 0, 0
	scanKeys := vSstEnvInt("VERIF_SCANKEYS", 4)
	if sf := os.Getenv("VERIF_SCRIPTFILE"); sf != "" {
		u := vSstNewUniv(vSstEnvInt("VERIF_GP", 2), vSstEnvInt("VERIF_GS", 1))
		f, err := os.Open(sf)
		if err != nil {
			t.Fatal(err)
		}
		tr := vSstNewTrace(filepath.Join(out, fmt.Sprintf("c33g-%d.ndjson", seed)))
		nFiles++
		sc := bufio.NewScanner(f)
		sc.Buffer(make([]byte, 1<<20), 1<<26)
		for sc.Scan() {
			var raw []map[string]any
			if err := json.Unmarshal(sc.Bytes(), &raw); err != nil {
				t.Fatal(err)
			}
			script := make([]vSstEv, len(raw))
			for i := range raw {
				script[i] = vSstEv(raw[i])
			}
			l := vSstLayoutFromEv(script[0])
			nLayouts++
			ops := script[1:]
			srng := rand.New(rand.NewPCG(seed, uint64(nLayouts)))
			led := false
			for _, c := range cfgs {
				b, err := vSstBuild(u, l, c)
				if err != nil {
					fmt.Printf("DRIVER-FAIL build: %v\n", err)
					tr.Emit(vSstEv{"op": "fail", "err": err.Error()})
					continue
				}
				for _, st := range stacks {
					vSstReplay(b, l, st, ops, tr)
					if !led {
						// the first stack also generates the systematic scans of this layout (iterator 9)
						led = true
						ops = append(append([]vSstEv{}, ops...), vSstLeadScan(srng, b, l, st, 9, scanKeys, tr)...)
					}
				}
				b.Close()
			}
		}
		f.Close()
		nEvents += tr.N
		tr.Close()
	}
	u := vSstNewUniv(vSstEnvInt("VERIF_P", 4), vSstEnvInt("VERIF_S", 2))
	rng := rand.New(rand.NewPCG(seed, 0xC33))
	nl := vSstEnvInt("VERIF_LAYOUTS", 30)
	ops := vSstEnvInt("VERIF_OPS", 40)
	tr := vSstNewTrace(filepath.Join(out, fmt.Sprintf("c33d-%d.ndjson", seed)))
	nFiles++
	for i := 0; i < nl; i++ {
		var l *vSstLayout
		if i%2 == 1 {
			l = vSstNorm(vSstGenLayout(rng, u, 1+rng.IntN(3), 4+rng.IntN(5), true))
		} else {
			l = vSstNorm(vSstGenLayout(rng, u, 1+rng.IntN(4), 6+rng.IntN(5), false))
		}
		nLayouts++
		var script []vSstEv
		for ci, c := range cfgs {
			b, err := vSstBuild(u, l, c)
			if err != nil {
				fmt.Printf("DRIVER-FAIL build: %v\n", err)
				tr.Emit(vSstEv{"op": "fail", "err": err.Error()})
				continue
			}
			for si, st := range stacks {
				if ci == 0 && si == 0 {
					// leader: generate while executing
					tr.Emit(l.Event(st, c.Name))
					for h := 1; h <= 2; h++ {
						lo, hi := 0, u.R()
						if h == 2 {
							lo = rng.IntN(u.R())
							hi = lo + 1 + rng.IntN(u.R()-lo)
						}
						s := b.open(st, l.Snap, vSstBound(u, lo, 0), vSstBound(u, hi, u.R()))
						script = append(script, vSstEv{"op": "open", "h": h, "t": "pt", "lo": lo, "hi": hi})
						tr.Emit(vSstEv{"op": "open", "h": h, "t": "pt", "lo": lo, "hi": hi})
						script = append(script, vSstGenOps(rng, b, s, h, lo, hi, ops, tr)...)
						if !s.dead {
							s.it.Close()
						}
					}
					script = append(script, vSstLeadScan(rng, b, l, st, 3, scanKeys, tr)...)
					continue
				}
				vSstReplay(b, l, st, script, tr)
			}
			b.Close()
		}
	}
	nEvents += tr.N
	tr.Close()
	fmt.Printf("DRIVER-DONE traces=%d events=%d layouts=%d configs=%d stacks=2\n", nFiles, nEvents, nLayouts, len(cfgs))
}
