package record

// C18 / C19 driver (engine "wal"), mode A: executes TLC-chosen cases
// (format, record sizes, sync points, mutilation) on the real Writer /
// LogWriter and the real Reader and records, per case, the chunk headers found
// in the files the real writers produced and what the real Reader returned from
// the mutilated bytes.  The verdict is TLC's (RecordLogTrace).

import (
	"bufio"
	"bytes"
	"encoding/binary"
	"encoding/json"
	"fmt"
	"io"
	"os"
	"path/filepath"
	"runtime"
	"strings"
	"sync"
	"testing"

	"github.com/cockroachdb/errors"
	"github.com/cockroachdb/pebble/internal/base"
)

type vWalRLCase struct {
	ID       int    `json:"id"`
	Prop     string `json:"prop"`
	Fmt      string `json:"fmt"`
	LogNum   int    `json:"lognum"`
	Sizes    []int  `json:"sizes"`
	Closed   bool   `json:"closed"`
	Syncs    []int  `json:"syncs"`
	Tail     string `json:"tail"`
	At       int    `json:"at"`
	OldFmt   string `json:"oldfmt"`
	OldLog   int    `json:"oldlog"`
	OldSizes []int  `json:"oldsizes"`
	Dlo      int    `json:"dlo"`
	Dhi      int    `json:"dhi"`
	Dkind    string `json:"dkind"`
}

type vWalMemFile struct{ buf []byte }

func (f *vWalMemFile) Write(p []byte) (int, error) { f.buf = append(f.buf, p...); return len(p), nil }
func (f *vWalMemFile) Sync() error                 { return nil }
func (f *vWalMemFile) Close() error                { return nil }

// payload of record k of the log with number lognum: never zero, never >= 128;
// logs with odd and even numbers use disjoint byte values, so that a byte of an
// older (even-numbered) log never equals the byte of the new (odd-numbered) log
// it replaces.
func vWalPayload(lognum, k, n int) []byte {
	p := make([]byte, n)
	lo := 1 + 60*(lognum%2)
	for j := range p {
		p[j] = byte(lo + (k*7+j*13+lognum*29+(j>>8)*3)%60)
	}
	return p
}

type vWalLog struct {
	unclosed, closed []byte
	recs             [][]byte
}

// vWalWriteLog writes the records with the real writer of the format.
func vWalWriteLog(format string, lognum int, sizes []int, syncs []int) (*vWalLog, error) {
	lg := &vWalLog{}
	for k, n := range sizes {
		lg.recs = append(lg.recs, vWalPayload(lognum, k+1, n))
	}
	f := &vWalMemFile{}
	if format == "legacy" {
		w := NewWriter(f)
		for _, p := range lg.recs {
			if _, err := w.WriteRecord(p); err != nil {
				return nil, err
			}
		}
		if err := w.Close(); err != nil {
			return nil, err
		}
		lg.closed = f.buf
		lg.unclosed = f.buf
		return lg, nil
	}
	isSync := map[int]bool{}
	for _, s := range syncs {
		isSync[s] = true
	}
	w := NewLogWriter(f, base.DiskFileNum(lognum), LogWriterConfig{
		WriteWALSyncOffsets: func() bool { return format == "walsync" },
	})
	for k, p := range lg.recs {
		if isSync[k+1] || k == len(lg.recs)-1 {
			var wg sync.WaitGroup
			var serr error
			wg.Add(1)
			prev := w.syncedOffset.Load()
			if _, err := w.SyncRecord(p, &wg, &serr); err != nil {
				return nil, err
			}
			wg.Wait()
			if serr != nil {
				return nil, serr
			}
			// the flush loop publishes syncedOffset right after releasing the waiter
			for i := 0; i < 20000 && w.syncedOffset.Load() == prev; i++ {
				runtime.Gosched()
			}
		} else if _, err := w.WriteRecord(p); err != nil {
			return nil, err
		}
	}
	// everything written so far has been flushed (the last record was synced):
	// this is the log as a crash before Close leaves it.
	w.flusher.Lock()
	lg.unclosed = append([]byte(nil), f.buf...)
	w.flusher.Unlock()
	if err := w.Close(); err != nil {
		return nil, err
	}
	lg.closed = f.buf
	return lg, nil
}

var vWalPosName = map[chunkPosition]string{fullChunkPosition: "FULL", firstChunkPosition: "FIRST", middleChunkPosition: "MIDDLE", lastChunkPosition: "LAST"}
var vWalFmtName = map[wireFormat]string{legacyWireFormat: "legacy", recyclableWireFormat: "recyclable", walSyncWireFormat: "walsync"}

// vWalDiskFormat is the on-disk format as documented (chunk type byte -> position, wire format,
// header size), written down independently of the code's own table: what the driver observes in a
// file must not depend on the tables of the reader under test.
var vWalDiskFormat = [13]headerFormat{
	0:  {chunkPosition: invalidChunkPosition, wireFormat: invalidWireFormat, headerSize: 0},
	1:  {chunkPosition: fullChunkPosition, wireFormat: legacyWireFormat, headerSize: 7},
	2:  {chunkPosition: firstChunkPosition, wireFormat: legacyWireFormat, headerSize: 7},
	3:  {chunkPosition: middleChunkPosition, wireFormat: legacyWireFormat, headerSize: 7},
	4:  {chunkPosition: lastChunkPosition, wireFormat: legacyWireFormat, headerSize: 7},
	5:  {chunkPosition: fullChunkPosition, wireFormat: recyclableWireFormat, headerSize: 11},
	6:  {chunkPosition: firstChunkPosition, wireFormat: recyclableWireFormat, headerSize: 11},
	7:  {chunkPosition: middleChunkPosition, wireFormat: recyclableWireFormat, headerSize: 11},
	8:  {chunkPosition: lastChunkPosition, wireFormat: recyclableWireFormat, headerSize: 11},
	9:  {chunkPosition: fullChunkPosition, wireFormat: walSyncWireFormat, headerSize: 19},
	10: {chunkPosition: firstChunkPosition, wireFormat: walSyncWireFormat, headerSize: 19},
	11: {chunkPosition: middleChunkPosition, wireFormat: walSyncWireFormat, headerSize: 19},
	12: {chunkPosition: lastChunkPosition, wireFormat: walSyncWireFormat, headerSize: 19},
}

// vWalObserve lists the chunk headers of an intact file by following the length
// fields: [off, hdr, len, pos, fmt, lognum, so].
func vWalObserve(b []byte, lognum int) (string, error) {
	var sb strings.Builder
	sb.WriteString("[")
	first := true
	off := 0
	for off+legacyHeaderSize <= len(b) {
		blkEnd := (off/blockSize + 1) * blockSize
		if blkEnd > len(b) {
			blkEnd = len(b)
		}
		if blkEnd-off < legacyHeaderSize {
			off = (off/blockSize + 1) * blockSize
			continue
		}
		typ := int(b[off+6])
		if typ == 0 {
			off = (off/blockSize + 1) * blockSize
			continue
		}
		if typ >= len(vWalDiskFormat) {
			return "", fmt.Errorf("observe: bad chunk type %d at %d", typ, off)
		}
		hf := vWalDiskFormat[typ]
		ln := int(binary.LittleEndian.Uint16(b[off+4 : off+6]))
		crcv := binary.LittleEndian.Uint32(b[off : off+4])
		ln2, so := lognum, uint64(0)
		if hf.headerSize >= recyclableHeaderSize {
			ln2 = int(binary.LittleEndian.Uint32(b[off+7 : off+11]))
		}
		if hf.headerSize >= walSyncHeaderSize {
			so = binary.LittleEndian.Uint64(b[off+11 : off+19])
		}
		pos := vWalPosName[hf.chunkPosition]
		if typ == recyclableFullChunkEncoding && crcv == 0 && ln == 0 {
			pos = "EOF"
		}
		if !first {
			sb.WriteString(",")
		}
		first = false
		fmt.Fprintf(&sb, `[%d,%d,%d,"%s","%s",%d,%d]`, off, hf.headerSize, ln, pos, vWalFmtName[hf.wireFormat], ln2, so)
		off += hf.headerSize + ln
	}
	sb.WriteString("]")
	return sb.String(), nil
}

func vWalTermName(err error) string {
	switch {
	case err == io.EOF:
		return "EOF"
	case errors.Is(err, ErrUnexpectedEOF):
		return "UEOF"
	case errors.Is(err, ErrInvalidChunk):
		return "INV"
	case errors.Is(err, ErrZeroedChunk):
		return "ZERO"
	}
	return "OTHER"
}

func vWalIntsJSON(a []int) string {
	b, _ := json.Marshal(a)
	if a == nil {
		return "[]"
	}
	return string(b)
}

func TestVWalRecordLog(t *testing.T) {
	out := os.Getenv("VERIF_OUT")
	cf := os.Getenv("VERIF_CASEFILE")
	if out == "" || cf == "" {
		t.Skip("VERIF_OUT / VERIF_CASEFILE not set")
	}
	disableBitFlipCheckForTesting = true
	in, err := os.Open(cf)
	if err != nil {
		t.Fatal(err)
	}
	defer in.Close()
	of, err := os.Create(filepath.Join(out, "recordlog.ndjson"))
	if err != nil {
		t.Fatal(err)
	}
	defer of.Close()
	w := bufio.NewWriterSize(of, 1<<20)
	defer w.Flush()
	cache := map[string]*vWalLog{}
	getLog := func(format string, lognum int, sizes, syncs []int) (*vWalLog, error) {
		key := fmt.Sprintf("%s/%d/%v/%v", format, lognum, sizes, syncs)
		if lg, ok := cache[key]; ok {
			return lg, nil
		}
		lg, err := vWalWriteLog(format, lognum, sizes, syncs)
		if err != nil {
			return nil, err
		}
		if len(cache) > 64 {
			for k := range cache {
				delete(cache, k)
			}
		}
		cache[key] = lg
		return lg, nil
	}
	sc := bufio.NewScanner(in)
	sc.Buffer(make([]byte, 1<<22), 1<<22)
	n := 0
	for sc.Scan() {
		var c vWalRLCase
		if err := json.Unmarshal(sc.Bytes(), &c); err != nil {
			t.Fatalf("bad case line: %v", err)
		}
		lg, err := getLog(c.Fmt, c.LogNum, c.Sizes, c.Syncs)
		if err != nil {
			t.Fatalf("write failed: %v", err)
		}
		base0 := lg.unclosed
		if c.Closed {
			base0 = lg.closed
		}
		newObs, err := vWalObserve(base0, c.LogNum)
		if err != nil {
			t.Fatal(err)
		}
		oldObs, oldLen := "[]", 0
		var old *vWalLog
		if c.Tail == "old" {
			old, err = getLog(c.OldFmt, c.OldLog, c.OldSizes, nil)
			if err != nil {
				t.Fatal(err)
			}
			if oldObs, err = vWalObserve(old.closed, c.OldLog); err != nil {
				t.Fatal(err)
			}
			oldLen = len(old.closed)
		}
		// mutilate
		var mut []byte
		if c.Dkind != "none" {
			mut = append([]byte(nil), base0...)
			for i := c.Dlo; i < c.Dhi && i < len(mut); i++ {
				if c.Dkind == "zero" {
					mut[i] = 0
				} else {
					mut[i] ^= 0x80
				}
			}
		} else {
			at := c.At
			if at > len(base0) {
				at = len(base0)
			}
			mut = append([]byte(nil), base0[:at]...)
			switch c.Tail {
			case "zero":
				mut = append(mut, make([]byte, len(base0)-at)...)
			case "old":
				if len(old.closed) > at {
					mut = append(mut, old.closed[at:]...)
				}
			}
		}
		// read back with the real Reader
		r := NewReader(bytes.NewReader(mut), base.DiskFileNum(c.LogNum))
		var recs []int
		term := ""
		for {
			rr, err := r.Next()
			if err != nil {
				term = vWalTermName(err)
				break
			}
			data, err := io.ReadAll(rr)
			if err != nil {
				term = vWalTermName(err)
				break
			}
			id := -1
			want := len(recs)
			if want < len(lg.recs) && bytes.Equal(data, lg.recs[want]) {
				id = want + 1
			} else {
				for k, p := range lg.recs {
					if bytes.Equal(data, p) {
						id = k + 1
						break
					}
				}
				if id < 0 && old != nil {
					for k, p := range old.recs {
						if bytes.Equal(data, p) {
							id = -(1000 + k + 1)
							break
						}
					}
				}
			}
			recs = append(recs, id)
			if len(recs) > 10000 {
				term = "OTHER"
				break
			}
		}
		fmt.Fprintf(w, `{"op":"rcase","id":%d,"prop":"%s","fmt":"%s","lognum":%d,"sizes":%s,"closed":%v,"tail":"%s","at":%d,"oldlog":%d,"dlo":%d,"dhi":%d,"dkind":"%s","new":%s,"newlen":%d,"old":%s,"oldlen":%d,"recs":%s,"term":"%s"}`+"\n",
			c.ID, c.Prop, c.Fmt, c.LogNum, vWalIntsJSON(c.Sizes), c.Closed, c.Tail, c.At, c.OldLog, c.Dlo, c.Dhi, c.Dkind,
			newObs, len(base0), oldObs, oldLen, vWalIntsJSON(recs), term)
		fmt.Fprintf(w, "{\"op\":\"rresult\"}\n{\"op\":\"rconform\"}\n{\"op\":\"rlayout\"}\n{\"op\":\"reset\"}\n")
		n++
	}
	fmt.Printf("DRIVER-DONE cases=%d\n", n)
}
