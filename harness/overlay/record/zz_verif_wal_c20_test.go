package record

// C20 driver (engine "wal"): runs the real LogWriter over a logging, gating and
// fault-injecting io.Writer/Syncer and a gating wrapper around the pendingSyncs
// interface, and records an NDJSON trace (LogWriterTrace vocabulary):
//
//	start{impl,fmt,minsync}  write{len,err}  syncbegin  syncend{err}
//	record{i,end,sync}  released{i,err,synced}  closed{err}  end{unreleased[]}
//
// The driver only executes and records.  The verdict is TLC's (LogWriterTrace).
// Event order is the order of acquisition of the trace mutex; the file's synced
// offset is monotone, so a waiter that reads it after its wake-up logs a "by now"
// fact that is sound whenever it is too small.

import (
	"bufio"
	"encoding/json"
	"fmt"
	"math/rand"
	"os"
	"path/filepath"
	"runtime"
	"strconv"
	"sync"
	"sync/atomic"
	"testing"
	"time"

	"github.com/cockroachdb/errors"
	"github.com/cockroachdb/pebble/internal/base"
)

type vWalTrace struct {
	mu sync.Mutex
	w  *bufio.Writer
	f  *os.File
	n  int
}

func vWalNewTrace(path string) (*vWalTrace, error) {
	f, err := os.Create(path)
	if err != nil {
		return nil, err
	}
	return &vWalTrace{f: f, w: bufio.NewWriterSize(f, 1<<16)}, nil
}

// logf appends one event; fn (optional) runs inside the trace mutex so a state
// update and its event are one atomic step of the trace.
func (t *vWalTrace) logf(fn func(), format string, args ...any) {
	t.mu.Lock()
	if fn != nil {
		fn()
	}
	fmt.Fprintf(t.w, format, args...)
	t.w.WriteByte('\n')
	t.n++
	t.mu.Unlock()
}

func (t *vWalTrace) close() {
	t.mu.Lock()
	t.w.Flush()
	t.f.Close()
	t.mu.Unlock()
}

var vWalErrInjected = errors.New("verif: injected I/O failure")

// vWalGate is the blocking gate of the flusher goroutine.  The flusher calls
// arrive(site) and blocks until the scheduler (the test goroutine) releases it.
type vWalGate struct {
	enabled bool
	at      chan string   // flusher -> scheduler: arrived at site
	rel     chan struct{} // scheduler -> flusher
	waiting atomic.Bool
	site    atomic.Value
	off     atomic.Bool // set at the end: gates become no-ops
}

func vWalNewGate(enabled bool) *vWalGate {
	return &vWalGate{enabled: enabled, at: make(chan string, 1), rel: make(chan struct{})}
}

func (g *vWalGate) arrive(site string) {
	if !g.enabled || g.off.Load() {
		return
	}
	g.at <- site
	<-g.rel
}

// vWalFile is the io.Writer + syncer + closer handed to the real LogWriter.
type vWalFile struct {
	t       *vWalTrace
	g       *vWalGate
	written int64        // bytes accepted (mutated under t.mu)
	synced  atomic.Int64 // bytes covered by a successful Sync
	nWrite  int
	nSync   int
	failW   int // 1-based index of the Write call that fails (0 = none)
	failS   int // 1-based index of the Sync call that fails
}

func (f *vWalFile) Write(p []byte) (int, error) {
	f.g.arrive("write")
	f.nWrite++
	if f.nWrite == f.failW {
		f.t.logf(nil, `{"op":"write","len":%d,"err":true}`, len(p))
		return 0, vWalErrInjected
	}
	f.t.logf(func() { f.written += int64(len(p)) }, `{"op":"write","len":%d,"err":false}`, len(p))
	return len(p), nil
}

func (f *vWalFile) Sync() error {
	var at int64
	f.t.logf(func() { at = f.written }, `{"op":"syncbegin"}`)
	f.g.arrive("sync")
	f.nSync++
	if f.nSync == f.failS {
		f.t.logf(nil, `{"op":"syncend","err":true}`)
		return vWalErrInjected
	}
	f.t.logf(func() { f.synced.Store(at) }, `{"op":"syncend","err":false}`)
	return nil
}

func (f *vWalFile) Close() error { return nil }

// vWalPS wraps the real pendingSyncs implementation: pure delegation plus gates.
type vWalPS struct {
	inner pendingSyncs
	g     *vWalGate
	// the flusher goroutine id is not available; empty() is also called by the
	// producer side (flusherCond.Unlock in queueBlock), so it has no gate.
}

func (p *vWalPS) push(ps PendingSync) { p.inner.push(ps) }
func (p *vWalPS) setBlocked()         { p.inner.setBlocked() }
func (p *vWalPS) clearBlocked()       { p.inner.clearBlocked() }
func (p *vWalPS) empty() bool         { return p.inner.empty() }
func (p *vWalPS) snapshotForPop() pendingSyncsSnapshot {
	p.g.arrive("snap") // window: after "take pending", before the snapshot
	s := p.inner.snapshotForPop()
	p.g.arrive("readw") // window: after the snapshot, before written.Load()
	return s
}
func (p *vWalPS) pop(snap pendingSyncsSnapshot, err error) error {
	p.g.arrive("pop")
	return p.inner.pop(snap, err)
}

type vWalTimer struct {
	armed atomic.Bool
	f     func()
}

func (t *vWalTimer) Reset(time.Duration) bool { t.armed.Store(true); return true }
func (t *vWalTimer) Stop() bool               { return t.armed.Swap(false) }

type vWalC20Case struct {
	Index    bool   `json:"index"`
	WalSync  bool   `json:"walsync"`
	MinSync  bool   `json:"minsync"`
	Sizes    []int  `json:"sizes"`
	Sync     []bool `json:"sync"`
	FailW    int    `json:"failw"`
	FailS    int    `json:"fails"`
	Gated    bool   `json:"gated"`
	Sched    string `json:"sched"` // optional schedule over P (producer step), F (flusher to next gate), T (timer)
	SchedSrc string `json:"schedsrc"`
}

type vWalRel struct {
	err    error
	synced int64
}

// vWalC20Run executes one case and appends its events to t.
func vWalC20Run(t *vWalTrace, c vWalC20Case, rng *rand.Rand) (stuck bool) {
	g := vWalNewGate(c.Gated)
	file := &vWalFile{t: t, g: g, failW: c.FailW, failS: c.FailS}
	n := len(c.Sizes)
	ends := make([]chan int64, n+1)
	rels := make([]chan vWalRel, n+1)
	for i := 1; i <= n; i++ {
		ends[i] = make(chan int64, 1)
		rels[i] = make(chan vWalRel, 1)
	}
	var mu sync.Mutex
	pendingIdx := map[int]bool{} // index mode: sync-requesting records not yet released
	cfg := LogWriterConfig{
		WriteWALSyncOffsets: func() bool { return c.WalSync },
	}
	if c.MinSync {
		cfg.WALMinSyncInterval = func() time.Duration { return time.Hour }
	}
	if c.Index {
		cfg.ExternalSyncQueueCallback = func(done PendingSyncIndex, err error) {
			s := file.synced.Load()
			mu.Lock()
			var rel []int
			for i := range pendingIdx {
				if int64(i) <= done.Index {
					rel = append(rel, i)
				}
			}
			for _, i := range rel {
				delete(pendingIdx, i)
			}
			mu.Unlock()
			for _, i := range rel {
				rels[i] <- vWalRel{err: err, synced: s}
			}
		}
	} else {
		cfg.QueueSemChan = make(chan struct{}, SyncConcurrency)
	}
	impl := "queue"
	if c.Index {
		impl = "index"
	}
	t.logf(nil, `{"op":"start","impl":"%s","walsync":%v,"minsync":%v,"gated":%v}`, impl, c.WalSync, c.MinSync, c.Gated)
	w := NewLogWriter(file, base.DiskFileNum(7), cfg)
	timer := &vWalTimer{}
	w.afterFunc = func(d time.Duration, f func()) syncTimer {
		timer.f = f
		timer.armed.Store(true)
		return timer
	}
	// Let the flush loop park in cond.Wait, then wrap its pendingSyncs (both
	// references) under the flusher mutex.
	time.Sleep(200 * time.Microsecond)
	w.flusher.Lock()
	ps := &vWalPS{inner: w.flusher.pendingSyncs, g: g}
	w.flusher.pendingSyncs = ps
	w.flusher.ready.q = ps
	w.flusher.Unlock()

	// waiters
	var wgAll sync.WaitGroup
	released := make([]atomic.Bool, n+1)
	for i := 1; i <= n; i++ {
		if !c.Sync[i-1] {
			continue
		}
		wgAll.Add(1)
		go func(i int) {
			defer wgAll.Done()
			r := <-rels[i]
			end := <-ends[i]
			if end < 0 || r.synced < 0 {
				released[i].Store(true) // refused record: never queued, nothing to release
				return
			}
			t.logf(nil, `{"op":"released","i":%d,"err":%v,"synced":%d}`, i, r.err != nil, r.synced)
			released[i].Store(true)
		}(i)
	}

	// producer steps: record 1..n, then close.  Steps run on their own goroutine
	// because queueBlock needs the flusher mutex, which the flusher may hold while
	// it is parked at a gate.
	next := 1
	lastIdx := int64(NoSyncIndex)
	closedCh := make(chan struct{})
	aborted, closeStarted := false, false
	refused := make([]atomic.Bool, n+1)
	payload := make([]byte, 0, 1<<17)
	prodStep := func() bool { // returns false when nothing is left to do
		if next > n || aborted {
			if closeStarted {
				return false
			}
			closeStarted = true
			// Close blocks until the flush loop exits: run it aside so the
			// scheduler can keep releasing the gates.
			go func() {
				var err error
				if c.Index {
					err = w.CloseWithLastQueuedRecord(PendingSyncIndex{Index: lastIdx})
				} else {
					err = w.Close()
				}
				t.logf(nil, `{"op":"closed","err":%v}`, err != nil)
				close(closedCh)
			}()
			return true
		}
		i := next
		next++
		sz := c.Sizes[i-1]
		payload = payload[:0]
		for k := 0; k < sz; k++ {
			payload = append(payload, byte(i*31+k))
		}
		var end int64
		var err error
		var wg *sync.WaitGroup
		if c.Index {
			idx := int64(NoSyncIndex)
			if c.Sync[i-1] {
				idx = int64(i)
				mu.Lock()
				pendingIdx[i] = true
				mu.Unlock()
			}
			psi := PendingSyncIndex{Index: idx}
			end, err = w.SyncRecordGeneralized(payload, &psi)
			if err == nil && c.Sync[i-1] {
				lastIdx = idx
			}
		} else if c.Sync[i-1] {
			wg = &sync.WaitGroup{}
			wg.Add(1)
			errp := new(error)
			go func() {
				wg.Wait()
				s := file.synced.Load() // read first: "synced by now"
				if !refused[i].Load() {
					rels[i] <- vWalRel{err: *errp, synced: s}
				}
			}()
			// the semaphore of commitPipeline
			cfg.QueueSemChan <- struct{}{}
			end, err = w.SyncRecord(payload, wg, errp)
		} else {
			end, err = w.SyncRecord(payload, nil, nil)
		}
		if err != nil {
			// the writer refused the record (an earlier flush error reached w.err):
			// nothing was queued; this and all later records do not exist.
			t.logf(nil, `{"op":"refused","i":%d}`, i)
			refused[i].Store(true)
			if wg != nil {
				wg.Done()
			}
			if c.Index && c.Sync[i-1] {
				mu.Lock()
				delete(pendingIdx, i)
				mu.Unlock()
			}
			for j := i; j <= n; j++ {
				if c.Sync[j-1] {
					rels[j] <- vWalRel{err: err, synced: -1}
					ends[j] <- -1
				}
			}
			aborted = true
			return true
		}
		t.logf(nil, `{"op":"record","i":%d,"end":%d,"sync":%v}`, i, end, c.Sync[i-1])
		if c.Sync[i-1] {
			ends[i] <- end
		}
		return true
	}
	fireTimer := func() {
		if timer.armed.CompareAndSwap(true, false) && timer.f != nil {
			timer.f()
		}
	}

	if !c.Gated {
		// free-running: producer with random yields, timer goroutine
		stopT := make(chan struct{})
		go func() {
			for {
				select {
				case <-stopT:
					return
				default:
				}
				fireTimer()
				time.Sleep(20 * time.Microsecond)
			}
		}()
		for prodStep() {
			switch rng.Intn(4) {
			case 0:
				runtime.Gosched()
			case 1:
				time.Sleep(time.Duration(rng.Intn(60)) * time.Microsecond)
			}
		}
		<-closedCh
		close(stopT)
	} else {
		// gated: one scheduler decides who moves.
		pcmd := make(chan struct{})
		pdone := make(chan bool, 1)
		go func() {
			for range pcmd {
				pdone <- prodStep()
			}
		}()
		pbusy, pfinished := false, false
		pollP := func(d time.Duration) {
			if !pbusy {
				return
			}
			select {
			case more := <-pdone:
				pbusy = false
				if !more {
					pfinished = true
				}
			case <-time.After(d):
			}
		}
		atGate := false
		wait := func(d time.Duration) {
			if atGate {
				return
			}
			select {
			case <-g.at:
				atGate = true
			case <-time.After(d):
			}
		}
		si := 0
		isClosed := func() bool {
			select {
			case <-closedCh:
				return true
			default:
				return false
			}
		}
		for steps := 0; !isClosed(); steps++ {
			if steps > 200000 {
				stuck = true
				break
			}
			var ch byte
			if si < len(c.Sched) {
				ch = c.Sched[si]
				si++
			} else {
				ch = "PFFFT"[rng.Intn(5)]
			}
			pollP(0)
			if (pbusy || pfinished) && ch == 'P' {
				ch = 'F'
			}
			switch ch {
			case 'P':
				pcmd <- struct{}{}
				pbusy = true
				pollP(100 * time.Microsecond)
			case 'T':
				fireTimer()
			default:
				wait(150 * time.Microsecond)
				if atGate {
					atGate = false
					g.rel <- struct{}{}
					wait(150 * time.Microsecond)
				} else if pfinished {
					fireTimer()
				}
			}
		}
		g.off.Store(true)
		// drain a goroutine blocked at a gate, if any
		select {
		case <-g.at:
			g.rel <- struct{}{}
		default:
		}
		if pbusy {
			<-pdone
		}
		close(pcmd)
	}
	// all waiters must have been released by now (Close returned)
	done := make(chan struct{})
	go func() { wgAll.Wait(); close(done) }()
	select {
	case <-done:
	case <-time.After(3 * time.Second):
		stuck = true
	}
	un := "["
	for i := 1; i <= n; i++ {
		if c.Sync[i-1] && !released[i].Load() {
			if len(un) > 1 {
				un += ","
			}
			un += strconv.Itoa(i)
		}
	}
	un += "]"
	t.logf(nil, `{"op":"end","unreleased":%s}`, un)
	return stuck
}

func vWalC20GenCase(rng *rand.Rand) vWalC20Case {
	var c vWalC20Case
	c.Index = rng.Intn(3) == 0
	c.WalSync = rng.Intn(2) == 0
	c.MinSync = rng.Intn(2) == 0
	c.Gated = rng.Intn(4) != 0
	n := 3 + rng.Intn(8)
	for i := 0; i < n; i++ {
		var sz int
		switch r := rng.Intn(20); {
		case r < 11:
			sz = rng.Intn(200)
		case r < 15:
			sz = 3000 + rng.Intn(9000)
		case r < 17:
			sz = blockSize - walSyncHeaderSize - 40 + rng.Intn(80)
		case r < 19:
			sz = blockSize + rng.Intn(blockSize)
		default:
			sz = 2*blockSize + rng.Intn(100)
		}
		c.Sizes = append(c.Sizes, sz)
		c.Sync = append(c.Sync, rng.Intn(5) < 3)
	}
	switch rng.Intn(5) {
	case 0:
		c.FailW = 1 + rng.Intn(4)
	case 1:
		c.FailS = 1 + rng.Intn(3)
	}
	return c
}

func TestVWalC20(t *testing.T) {
	out := os.Getenv("VERIF_OUT")
	if out == "" {
		t.Skip("VERIF_OUT not set")
	}
	seed, _ := strconv.ParseInt(os.Getenv("VERIF_SEED"), 10, 64)
	runs, _ := strconv.Atoi(os.Getenv("VERIF_RUNS"))
	if runs == 0 {
		runs = 100
	}
	perFile, _ := strconv.Atoi(os.Getenv("VERIF_PERFILE"))
	if perFile == 0 {
		perFile = 50
	}
	var scheds []vWalC20Case
	if sf := os.Getenv("VERIF_SCHEDFILE"); sf != "" {
		f, err := os.Open(sf)
		if err != nil {
			t.Fatal(err)
		}
		sc := bufio.NewScanner(f)
		sc.Buffer(make([]byte, 1<<20), 1<<20)
		for sc.Scan() {
			var c vWalC20Case
			if json.Unmarshal(sc.Bytes(), &c) == nil && len(c.Sizes) > 0 {
				scheds = append(scheds, c)
			}
		}
		f.Close()
	}
	rng := rand.New(rand.NewSource(seed))
	cases, err := os.Create(filepath.Join(out, "c20_cases.jsonl"))
	if err != nil {
		t.Fatal(err)
	}
	defer cases.Close()
	var tr *vWalTrace
	stuckN := 0
	total := runs + len(scheds)
	for r := 0; r < total; r++ {
		if r%perFile == 0 {
			if tr != nil {
				tr.close()
			}
			tr, err = vWalNewTrace(filepath.Join(out, fmt.Sprintf("c20_%04d.ndjson", r/perFile)))
			if err != nil {
				t.Fatal(err)
			}
		}
		var c vWalC20Case
		if r < len(scheds) {
			c = scheds[r]
			c.Gated = true
		} else {
			c = vWalC20GenCase(rng)
		}
		b, _ := json.Marshal(c)
		fmt.Fprintf(cases, "%s\n", b)
		if vWalC20Run(tr, c, rng) {
			stuckN++
		}
		tr.logf(nil, `{"op":"reset"}`)
	}
	if tr != nil {
		tr.close()
	}
	fmt.Printf("C20-STUCK %d\n", stuckN)
	fmt.Printf("DRIVER-DONE runs=%d\n", total)
}
