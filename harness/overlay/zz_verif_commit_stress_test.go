// Mode-B driver of the Commit engine of /verif (properties C06, C07, C42).
// It only executes and records: every verdict is taken by TLC over the NDJSON
// trace (spec/Commit/CommitTrace.tla).  In-package so that it can read
// Iterator.seqNum, Snapshot.seqNum, Batch.SeqNum(), visibleSeqNum/logSeqNum and
// wrap DB.mu.log.manager to observe the WAL append order.
//
// No wall-clock time is compared across goroutines: "happened before" facts are
// taken from one global atomic counter that is incremented when a commit
// returns and when the creation of a reader begins.
package pebble

import (
	"bufio"
	"bytes"
	"context"
	"encoding/binary"
	"encoding/json"
	"fmt"
	"math/rand/v2"
	"os"
	"path/filepath"
	"runtime"
	"runtime/pprof"
	"sort"
	"strconv"
	"sync"
	"sync/atomic"
	"testing"
	"time"

	"github.com/cockroachdb/pebble/objstorage/objstorageprovider"
	"github.com/cockroachdb/pebble/record"
	"github.com/cockroachdb/pebble/sstable"
	"github.com/cockroachdb/pebble/vfs"
	"github.com/cockroachdb/pebble/wal"
)

func vCommitEnvInt(name string, def int) int {
	if s := os.Getenv(name); s != "" {
		if v, err := strconv.Atoi(s); err == nil {
			return v
		}
	}
	return def
}

type vCommitEv map[string]any

// vCommitCommitRec is one committed batch / ingest.
type vCommitCommitRec struct {
	Tok, Grp int
	Seq, Cnt uint64
	Kind     string // plain | large | ingest
	Ret      int64  // global clock right after Commit/Ingest returned
	Start    int64  // global clock right before Commit/Ingest was called
	Thr      int
	Ops      []int // C42: per key 1 = set, 2 = delete, 3 = merge
}

type vCommitReadRec struct {
	Kind  string // iter | snap | get | quiesce
	Thr   int
	RSeq  uint64
	Begin int64
	End   int64
	Obs   [][][]int // per group, per key: the tokens of the value, oldest first ([] = absent, [t] = set by t, [..] = merged)
	Grp   int       // get only
	Key   int       // get only
}

type vCommitWalRec struct {
	Seq uint64
	Cnt uint32
}

// WAL order observation: wrap wal.Manager / wal.Writer (WriteRecord calls are
// serialized by commitPipeline.mu, so the append order is the call order).
type vCommitWalMgr struct {
	wal.Manager
	h *vCommitHarness
}

func (m *vCommitWalMgr) Create(wn wal.NumWAL, jobID int) (wal.Writer, error) {
	w, err := m.Manager.Create(wn, jobID)
	if err != nil {
		return nil, err
	}
	return &vCommitWalWriter{Writer: w, h: m.h}, nil
}

type vCommitWalWriter struct {
	wal.Writer
	h *vCommitHarness
}

func (w *vCommitWalWriter) WriteRecord(
	p []byte, opts wal.SyncOptions, ref wal.RefCount,
) (int64, error) {
	if len(p) >= 12 {
		w.h.walMu.Lock()
		w.h.wal = append(w.h.wal, vCommitWalRec{Seq: binary.LittleEndian.Uint64(p[0:8]), Cnt: binary.LittleEndian.Uint32(p[8:12])})
		w.h.walMu.Unlock()
	}
	return w.Writer.WriteRecord(p, opts, ref)
}

type vCommitHarness struct {
	d        *DB
	fs       vfs.FS
	G, K     int
	clk      atomic.Int64
	tok      atomic.Int64
	rich     bool // C42 vocabulary: sets, deletes, merges
	yieldPct int

	walMu sync.Mutex
	wal   []vCommitWalRec

	mu      sync.Mutex
	commits []vCommitCommitRec
	reads   []vCommitReadRec
	vis     [][3]int64 // thr, begin-clock, value  (per-thread order = slice order)
	fails   []string

	ingMu            sync.Mutex
	lastIngSeq       atomic.Uint64
	lastIngFlushable atomic.Bool
	progress         atomic.Int64
}

func (h *vCommitHarness) fail(format string, a ...any) {
	h.mu.Lock()
	h.fails = append(h.fails, fmt.Sprintf(format, a...))
	h.mu.Unlock()
}

func vCommitKey(g, j int) []byte { return []byte(fmt.Sprintf("g%03d.k%02d", g, j)) }

func vCommitParseKey(k []byte) (g, j int, ok bool) {
	if len(k) != 8 || k[0] != 'g' || k[4] != '.' || k[5] != 'k' {
		return 0, 0, false
	}
	g, e1 := strconv.Atoi(string(k[1:4]))
	j, e2 := strconv.Atoi(string(k[6:8]))
	return g, j, e1 == nil && e2 == nil
}

// value = decimal token, '|', padding.  Merged values (default merger concatenates
// operands) look like "tok|pad" "tok|pad" ...: the decoded observation is the
// list of tokens, oldest first.
func vCommitVal(tok, size int) []byte {
	v := []byte(strconv.Itoa(tok) + "|")
	for len(v) < size {
		v = append(v, 'x')
	}
	return append(v, ';')
}

func vCommitDecode(v []byte) ([]int, bool) {
	var res []int
	for _, part := range bytes.Split(v, []byte{';'}) {
		if len(part) == 0 {
			continue
		}
		i := bytes.IndexByte(part, '|')
		if i <= 0 {
			return nil, false
		}
		t, err := strconv.Atoi(string(part[:i]))
		if err != nil {
			return nil, false
		}
		res = append(res, t)
	}
	return res, len(res) > 0
}

func (h *vCommitHarness) yield(r *rand.Rand) {
	if h.yieldPct > 0 && r.IntN(100) < h.yieldPct {
		n := 1 + r.IntN(3)
		for i := 0; i < n; i++ {
			runtime.Gosched()
		}
	}
}

func (h *vCommitHarness) open(memSize uint64, seed uint64) error {
	h.fs = vfs.NewMem()
	opts := &Options{
		FS:                          h.fs,
		MemTableSize:                memSize,
		MemTableStopWritesThreshold: 4,
		L0CompactionThreshold:       2,
		L0StopWritesThreshold:       1000,
		FormatMajorVersion:          internalFormatNewest,
		Logger:                      vCommitQuietLogger{},
	}
	opts.EventListener = &EventListener{
		TableIngested: func(info TableIngestInfo) {
			h.lastIngSeq.Store(uint64(info.GlobalSeqNum))
			h.lastIngFlushable.Store(info.flushable)
		},
	}
	d, err := Open("db", opts)
	if err != nil {
		return err
	}
	h.d = d
	// observe the WAL order
	d.commit.mu.Lock()
	if pct := vCommitEnvInt("VERIF_PIPEYIELD", 0); pct > 0 {
		// seeded random-yield exploration inside the pipeline, without hooks: commitEnv.write
		// and commitEnv.apply are function fields.  A yield after write happens while
		// commitPipeline.mu is held; a yield after apply sits between commitApply and publish.
		var ctr atomic.Uint64
		pick := func() uint64 {
			z := (ctr.Add(1) + seed) * 0x9e3779b97f4a7c15
			z = (z ^ (z >> 30)) * 0xbf58476d1ce4e5b9
			z = (z ^ (z >> 27)) * 0x94d049bb133111eb
			return z ^ (z >> 31)
		}
		pause := func() {
			x := pick()
			if int(x%100) >= pct {
				return
			}
			switch (x >> 8) % 4 {
			case 0, 1:
				for i := uint64(0); i < 1+(x>>16)%8; i++ {
					runtime.Gosched()
				}
			case 2:
				time.Sleep(time.Duration(1+(x>>16)%50) * time.Microsecond)
			default:
				time.Sleep(time.Duration(50+(x>>16)%400) * time.Microsecond)
			}
		}
		origApply, origWrite := d.commit.env.apply, d.commit.env.write
		// A pause AFTER apply (between commitApply and publish) widens the window of the known
		// finding "flush of applied-but-unpublished batches" (see TestVCommitProbeElide); it is
		// therefore off unless VERIF_POSTAPPLY=1.
		postApply := vCommitEnvInt("VERIF_POSTAPPLY", 0) == 1
		d.commit.env.apply = func(b *Batch, mem *memTable) error {
			pause()
			err := origApply(b, mem)
			if postApply {
				pause()
			}
			return err
		}
		d.commit.env.write = func(b *Batch, wg *sync.WaitGroup, e *error) (*memTable, error) {
			m, err := origWrite(b, wg, e)
			pause()
			return m, err
		}
	}
	d.mu.Lock()
	d.mu.log.manager = &vCommitWalMgr{Manager: d.mu.log.manager, h: h}
	d.mu.log.writer = &vCommitWalWriter{Writer: d.mu.log.writer, h: h}
	d.mu.Unlock()
	d.commit.mu.Unlock()
	return nil
}

type vCommitQuietLogger struct{}

func (vCommitQuietLogger) Infof(format string, args ...interface{})  {}
func (vCommitQuietLogger) Errorf(format string, args ...interface{}) {}
func (vCommitQuietLogger) Fatalf(format string, args ...interface{}) {
	panic(fmt.Sprintf("FATAL: "+format, args...))
}

// one batch: all K keys of group g, every value carrying the same token.
// size class: 0 small, 1 medium (fills memtables quickly), 2 just below the
// large-batch threshold, 3 just above it (flushable batch).
func (h *vCommitHarness) commitOne(thr int, r *rand.Rand) {
	h.commitWith(thr, r, r.IntN(h.G), r.IntN(8))
}

// commitWith commits one batch to group g with size class cls (see commitOne).
func (h *vCommitHarness) commitWith(thr int, r *rand.Rand, g int, cls int) {
	d := h.d
	tok := int(h.tok.Add(1))
	thresh := int(d.largeBatchThreshold)
	var vsize int
	switch {
	case cls < 3:
		vsize = 8 + r.IntN(40)
	case cls < 5:
		vsize = thresh / (4 * h.K)
	case cls < 6:
		vsize = thresh/h.K - 64 - r.IntN(32)
	case cls < 7:
		vsize = thresh/h.K - 24 + r.IntN(24) // within a few bytes of the threshold
	default:
		vsize = thresh/h.K + 8 + r.IntN(64)
	}
	if vsize < 8 {
		vsize = 8
	}
	b := d.NewBatch()
	ops := make([]int, h.K)
	val := vCommitVal(tok, vsize)
	for j := 0; j < h.K; j++ {
		op := 1
		if h.rich {
			// merges are never issued to the group that receives ingests (the last one): an iterator that
			// captured its readState before an ingest was installed may legitimately see a later merge
			// without the ingested base value
			switch x := r.IntN(10); {
			case g == h.G-1 && x >= 8:
				op = 1
			case x < 6:
				op = 1
			case x < 8:
				op = 2
			default:
				op = 3
			}
		}
		ops[j] = op
		switch op {
		case 1:
			_ = b.Set(vCommitKey(g, j), val, nil)
		case 2:
			_ = b.Delete(vCommitKey(g, j), nil)
		case 3:
			_ = b.Merge(vCommitKey(g, j), vCommitVal(tok, 8+r.IntN(16)), nil)
		}
	}
	h.yield(r)
	start := h.clk.Add(1)
	var err error
	sync := r.IntN(4) == 0
	if sync && r.IntN(2) == 0 {
		err = d.ApplyNoSyncWait(b, Sync)
		if err == nil {
			err = b.SyncWait()
		}
	} else if sync {
		err = d.Apply(b, Sync)
	} else {
		err = d.Apply(b, NoSync)
	}
	ret := h.clk.Add(1)
	if err != nil {
		h.fail("commit error: %v", err)
		return
	}
	kind := "plain"
	seq := uint64(b.SeqNum())
	if b.flushable != nil {
		// Apply cleared b.data; the flushable batch keeps the sequence number
		kind = "large"
		seq = uint64(b.flushable.seqNum)
	}
	rec := vCommitCommitRec{Tok: tok, Grp: g, Seq: seq, Cnt: uint64(b.Count()), Kind: kind, Ret: ret, Start: start, Thr: thr, Ops: ops}
	h.mu.Lock()
	h.commits = append(h.commits, rec)
	h.mu.Unlock()
	h.progress.Add(1)
	_ = b.Close()
	// a reader created by this goroutine after its Commit returned
	if r.IntN(4) == 0 {
		h.readIter(thr, r, "iter")
	}
}

// one ingest: an sstable holding all K keys of group g with one token
func (h *vCommitHarness) ingestOne(thr int, r *rand.Rand, n int) {
	d := h.d
	g := r.IntN(h.G)
	if h.rich {
		g = h.G - 1
	}
	tok := int(h.tok.Add(1))
	path := fmt.Sprintf("ext/ing-%d-%d.sst", thr, n)
	f, err := h.fs.Create(path, vfs.WriteCategoryUnspecified)
	if err != nil {
		h.fail("ingest create: %v", err)
		return
	}
	w := sstable.NewWriter(objstorageprovider.NewFileWritable(f), sstable.WriterOptions{
		TableFormat: d.FormatMajorVersion().MaxTableFormat(),
	})
	val := vCommitVal(tok, 8+r.IntN(64))
	ops := make([]int, h.K)
	for j := 0; j < h.K; j++ {
		ops[j] = 1
		if err := w.Set(vCommitKey(g, j), val); err != nil {
			h.fail("sst set: %v", err)
			return
		}
	}
	if err := w.Close(); err != nil {
		h.fail("sst close: %v", err)
		return
	}
	h.yield(r)
	h.ingMu.Lock()
	start := h.clk.Add(1)
	err = d.Ingest(context.Background(), []string{path})
	ret := h.clk.Add(1)
	seq := h.lastIngSeq.Load()
	ikind := "ingest"
	if h.lastIngFlushable.Load() {
		ikind = "ingestf" // ingested as a flushable: its ingestSST batch is written to the WAL
	}
	h.ingMu.Unlock()
	if err != nil {
		h.fail("ingest error: %v", err)
		return
	}
	rec := vCommitCommitRec{Tok: tok, Grp: g, Seq: seq, Cnt: 1, Kind: ikind, Ret: ret, Start: start, Thr: thr, Ops: ops}
	h.mu.Lock()
	h.commits = append(h.commits, rec)
	h.mu.Unlock()
	h.progress.Add(1)
}

func (h *vCommitHarness) newObs() [][][]int {
	obs := make([][][]int, h.G)
	for g := range obs {
		obs[g] = make([][]int, h.K)
		for j := range obs[g] {
			obs[g][j] = []int{}
		}
	}
	return obs
}

func (h *vCommitHarness) putObs(obs [][][]int, k, v []byte) bool {
	g, j, ok := vCommitParseKey(k)
	if !ok || g >= h.G || j >= h.K {
		h.fail("unexpected key %q", k)
		return false
	}
	toks, ok := vCommitDecode(v)
	if !ok {
		h.fail("undecodable value for %q: %q", k, v[:min(len(v), 32)])
		return false
	}
	obs[g][j] = toks
	return true
}

func (h *vCommitHarness) scan(it *Iterator, obs [][][]int) bool {
	for ok := it.First(); ok; ok = it.Next() {
		if !h.putObs(obs, it.Key(), it.Value()) {
			return false
		}
	}
	if err := it.Error(); err != nil {
		h.fail("iterator error: %v", err)
		return false
	}
	return true
}

func (h *vCommitHarness) addRead(rr vCommitReadRec) {
	h.mu.Lock()
	h.reads = append(h.reads, rr)
	h.mu.Unlock()
	h.progress.Add(1)
}

// DB.NewIter scan; the iterator's sequence number is read in-package
func (h *vCommitHarness) readIter(thr int, r *rand.Rand, kind string) {
	h.yield(r)
	begin := h.clk.Add(1)
	it, err := h.d.NewIter(nil)
	if err != nil {
		h.fail("NewIter: %v", err)
		return
	}
	rseq := uint64(it.seqNum)
	h.yield(r)
	obs := h.newObs()
	ok := h.scan(it, obs)
	if err := it.Close(); err != nil {
		h.fail("iter close: %v", err)
		return
	}
	if ok {
		h.addRead(vCommitReadRec{Kind: kind, Thr: thr, RSeq: rseq, Begin: begin, End: h.clk.Load(), Obs: obs})
	}
}

// Snapshot reads: all at Snapshot.seqNum; groups are read alternately with
// snapshot Gets and a snapshot iterator.
func (h *vCommitHarness) readSnap(thr int, r *rand.Rand) {
	h.yield(r)
	begin := h.clk.Add(1)
	s := h.d.NewSnapshot()
	rseq := uint64(s.seqNum)
	defer s.Close()
	h.yield(r)
	obs := h.newObs()
	useGets := r.IntN(2) == 0
	if useGets {
		for g := 0; g < h.G; g++ {
			for j := 0; j < h.K; j++ {
				v, closer, err := s.Get(vCommitKey(g, j))
				if err == ErrNotFound {
					continue
				}
				if err != nil {
					h.fail("snapshot get: %v", err)
					return
				}
				ok := h.putObs(obs, vCommitKey(g, j), v)
				closer.Close()
				if !ok {
					return
				}
			}
			if g%2 == 0 {
				h.yield(r)
			}
		}
	} else {
		if r.IntN(2) == 0 {
			for i := 0; i < 1+r.IntN(20); i++ {
				runtime.Gosched()
			}
		}
		it, err := s.NewIter(nil)
		if err != nil {
			h.fail("snapshot iter: %v", err)
			return
		}
		ok := h.scan(it, obs)
		if err := it.Close(); err != nil || !ok {
			if err != nil {
				h.fail("iter close: %v", err)
			}
			return
		}
	}
	h.addRead(vCommitReadRec{Kind: "snap", Thr: thr, RSeq: rseq, Begin: begin, End: h.clk.Load(), Obs: obs})
}

// DB.Get of one key; its sequence number is not observable, so the value of
// visibleSeqNum sampled after the call is logged as an upper bound.
func (h *vCommitHarness) readGet(thr int, r *rand.Rand) {
	g, j := r.IntN(h.G), r.IntN(h.K)
	h.yield(r)
	begin := h.clk.Add(1)
	v, closer, err := h.d.Get(vCommitKey(g, j))
	tok := []int{}
	if err == nil {
		var ok bool
		tok, ok = vCommitDecode(v)
		closer.Close()
		if !ok {
			h.fail("undecodable get value")
			return
		}
	} else if err != ErrNotFound {
		h.fail("get: %v", err)
		return
	}
	after := uint64(h.d.mu.versions.visibleSeqNum.Load())
	h.addRead(vCommitReadRec{Kind: "get", Thr: thr, RSeq: after, Begin: begin, End: h.clk.Load(), Grp: g, Key: j, Obs: [][][]int{{tok}}})
}

func (h *vCommitHarness) sampleVis(thr int, last *uint64) {
	begin := h.clk.Add(1)
	v := uint64(h.d.mu.versions.visibleSeqNum.Load())
	if v != *last || true {
		h.mu.Lock()
		if len(h.vis) < 4000 && (v != *last) {
			h.vis = append(h.vis, [3]int64{int64(thr), begin, int64(v)})
		}
		h.mu.Unlock()
		*last = v
	}
}

func (h *vCommitHarness) writeTrace(path string, meta vCommitEv) error {
	f, err := os.Create(path)
	if err != nil {
		return err
	}
	w := bufio.NewWriter(f)
	emit := func(e vCommitEv) {
		b, _ := json.Marshal(e)
		w.Write(b)
		w.WriteByte('\n')
	}
	emit(meta)
	sort.Slice(h.commits, func(i, j int) bool { return h.commits[i].Seq < h.commits[j].Seq })
	for _, c := range h.commits {
		emit(vCommitEv{"op": "commit", "tok": c.Tok, "grp": c.Grp, "seq": c.Seq, "cnt": c.Cnt, "kind": c.Kind,
			"start": c.Start, "ret": c.Ret, "thr": c.Thr, "ops": c.Ops})
	}
	for i, x := range h.wal {
		emit(vCommitEv{"op": "wal", "i": i + 1, "seq": x.Seq, "cnt": x.Cnt})
	}
	for _, v := range h.vis {
		emit(vCommitEv{"op": "vis", "thr": v[0], "begin": v[1], "v": v[2]})
	}
	for _, r := range h.reads {
		emit(vCommitEv{"op": "read", "kind": r.Kind, "thr": r.Thr, "rseq": r.RSeq, "begin": r.Begin, "end": r.End,
			"grp": r.Grp, "key": r.Key, "obs": r.Obs})
	}
	for _, s := range h.fails {
		emit(vCommitEv{"op": "fail", "msg": s})
	}
	if err := w.Flush(); err != nil {
		return err
	}
	return f.Close()
}

// vCommitRound runs one DB lifetime: phases of concurrent activity separated by
// quiescent barriers; returns the number of trace events.
func vCommitRound(t *testing.T, path string, seed uint64, rich bool) (int, bool) {
	G := vCommitEnvInt("VERIF_GROUPS", 4)
	K := vCommitEnvInt("VERIF_K", 4)
	nCommitters := vCommitEnvInt("VERIF_COMMITTERS", 4)
	nReaders := vCommitEnvInt("VERIF_READERS", 3)
	nIngesters := vCommitEnvInt("VERIF_INGESTERS", 1)
	perPhase := vCommitEnvInt("VERIF_COMMITS", 12)
	phases := vCommitEnvInt("VERIF_PHASES", 3)
	maint := vCommitEnvInt("VERIF_MAINT", 0) // C42: explicit flush / compact / checkpoint / metrics goroutine
	h := &vCommitHarness{G: G, K: K, rich: rich, yieldPct: vCommitEnvInt("VERIF_YIELD", 30)}
	rr := rand.New(rand.NewPCG(seed, 0x5eed))
	memSize := uint64(16<<10) << uint(rr.IntN(3))
	if err := h.open(memSize, seed); err != nil {
		t.Fatalf("open: %v", err)
	}
	_ = h.fs.MkdirAll("ext", 0755)
	d := h.d
	meta := vCommitEv{"op": "open", "logseq": uint64(d.mu.versions.logSeqNum.Load()), "vis": uint64(d.mu.versions.visibleSeqNum.Load()),
		"G": G, "K": K, "rich": rich, "seed": seed, "mem": memSize}

	// watchdog: no progress for a long time = hang -> goroutine dump, observable failure
	stopWD := make(chan struct{})
	hung := atomic.Bool{}
	go func() {
		last := int64(-1)
		idle := 0
		tk := time.NewTicker(500 * time.Millisecond)
		defer tk.Stop()
		for {
			select {
			case <-stopWD:
				return
			case <-tk.C:
				p := h.progress.Load()
				if p == last {
					idle++
				} else {
					idle = 0
					last = p
				}
				if idle >= vCommitEnvInt("VERIF_HANG_TICKS", 60) {
					hung.Store(true)
					fmt.Println("VCOMMIT-HANG: no progress; goroutine dump follows")
					pprof.Lookup("goroutine").WriteTo(os.Stdout, 2)
					h.fail("hang: no progress for %d ticks", idle)
					_ = h.writeTrace(path, meta)
					fmt.Println("VCOMMIT-HANG-END")
					os.Exit(3)
				}
			}
		}
	}()

	for ph := 0; ph < phases; ph++ {
		var wg sync.WaitGroup
		stop := atomic.Bool{}
		var writers sync.WaitGroup
		for c := 0; c < nCommitters; c++ {
			wg.Add(1)
			writers.Add(1)
			go func(thr int) {
				defer wg.Done()
				defer writers.Done()
				r := rand.New(rand.NewPCG(seed, uint64(1000*ph+thr)))
				for i := 0; i < perPhase; i++ {
					h.commitOne(thr, r)
				}
			}(c)
		}
		for c := 0; c < nIngesters; c++ {
			wg.Add(1)
			writers.Add(1)
			go func(thr int) {
				defer wg.Done()
				defer writers.Done()
				r := rand.New(rand.NewPCG(seed, uint64(1000*ph+thr)))
				for i := 0; i < max(1, perPhase/4); i++ {
					h.ingestOne(thr, r, ph*1000+i)
					for y := 0; y < r.IntN(50); y++ {
						runtime.Gosched()
					}
				}
			}(100 + c)
		}
		for c := 0; c < nReaders; c++ {
			wg.Add(1)
			go func(thr int) {
				defer wg.Done()
				r := rand.New(rand.NewPCG(seed, uint64(1000*ph+thr)))
				n := 0
				for !stop.Load() && n < 4*perPhase {
					switch x := r.IntN(10); {
					case x < 4:
						h.readIter(thr, r, "iter")
					case x < 8:
						h.readSnap(thr, r)
					default:
						h.readGet(thr, r)
					}
					n++
				}
			}(200 + c)
		}
		// visibleSeqNum sampler
		wg.Add(1)
		go func() {
			defer wg.Done()
			var last uint64
			for !stop.Load() {
				h.sampleVis(300, &last)
				runtime.Gosched()
			}
		}()
		if maint > 0 {
			wg.Add(1)
			go func() {
				defer wg.Done()
				r := rand.New(rand.NewPCG(seed, uint64(1000*ph+400)))
				n := 0
				for !stop.Load() {
					switch r.IntN(5) {
					case 0:
						if err := d.Flush(); err != nil {
							h.fail("flush: %v", err)
						}
					case 1:
						if _, err := d.AsyncFlush(); err != nil {
							h.fail("asyncflush: %v", err)
						}
					case 2:
						if err := d.Compact(context.Background(), []byte("g"), []byte("h"), r.IntN(2) == 0); err != nil {
							h.fail("compact: %v", err)
						}
					case 3:
						_ = d.Metrics().String()
					case 4:
						dir := fmt.Sprintf("ckpt-%d-%d", ph, n)
						if err := d.Checkpoint(dir); err != nil {
							h.fail("checkpoint: %v", err)
						}
					}
					n++
					h.progress.Add(1)
					for y := 0; y < 20+r.IntN(200); y++ {
						runtime.Gosched()
					}
				}
			}()
		}
		writers.Wait()
		stop.Store(true)
		wg.Wait()
		// quiescent barrier: everything committed has returned
		h.readIter(900, rr, "quiesce")
		h.readSnap(901, rr)
	}
	close(stopWD)
	if err := d.Close(); err != nil {
		h.fail("close: %v", err)
	}
	if err := h.writeTrace(path, meta); err != nil {
		t.Fatalf("trace: %v", err)
	}
	return 1 + len(h.commits) + len(h.wal) + len(h.vis) + len(h.reads) + len(h.fails), len(h.fails) == 0 && !hung.Load()
}

// TestVCommitStress: VERIF_OUT dir, VERIF_SEED, VERIF_ROUNDS, VERIF_RICH=1 for the C42 vocabulary.
func TestVCommitStress(t *testing.T) {
	out := os.Getenv("VERIF_OUT")
	if out == "" {
		t.Skip("VERIF_OUT not set")
	}
	_ = record.SyncConcurrency
	seed := uint64(vCommitEnvInt("VERIF_SEED", 1))
	rounds := vCommitEnvInt("VERIF_ROUNDS", 4)
	rich := vCommitEnvInt("VERIF_RICH", 0) == 1
	if p := vCommitEnvInt("VERIF_PROCS", 0); p > 0 {
		runtime.GOMAXPROCS(p)
	}
	total := 0
	for i := 0; i < rounds; i++ {
		// vary the scheduler's parallelism between rounds: interleavings differ a lot
		if vCommitEnvInt("VERIF_PROCS", 0) == 0 {
			runtime.GOMAXPROCS([]int{2, 4, 8, 3}[i%4])
		}
		n, _ := vCommitRound(t, filepath.Join(out, fmt.Sprintf("commit-%d-%03d.ndjson", seed, i)), seed*1000+uint64(i), rich)
		total += n
	}
	fmt.Printf("DRIVER-DONE rounds=%d events=%d\n", rounds, total)
}

// TestVCommitProbeElide: directed reproduction (no hooks: commitEnv.apply is a
// function field and is wrapped in-package) of the spec-level lead found by TLC
// on Commit.tla (Lead_ElideUnpublished.cfg): a batch that is applied to its
// memtable (writer reference dropped) but not yet published can be flushed; the
// flush elides the older, published version of the same key; a reader created
// in that window sees neither version.
//
// Schedule: Set(k,v1) returns; Set(k,v2) is held between commitApply and
// publish; Flush(); Get(k) / NewIter; release.
func TestVCommitProbeElide(t *testing.T) {
	out := os.Getenv("VERIF_OUT")
	if out == "" {
		t.Skip("VERIF_OUT not set")
	}
	res := vCommitEv{"op": "probe", "name": "elide-unpublished"}
	func() {
		defer func() {
			if p := recover(); p != nil {
				res["panic"] = fmt.Sprint(p)
			}
		}()
		large := vCommitEnvInt("VERIF_PROBE_LARGE", 0) == 1
		fs := vfs.NewMem()
		d, err := Open("db", &Options{FS: fs, MemTableSize: 64 << 10, Logger: vCommitQuietLogger{}, FormatMajorVersion: internalFormatNewest})
		if err != nil {
			t.Fatal(err)
		}
		defer d.Close()
		key := []byte("k")
		// an older flushed version, so that the later compaction has to rewrite (and may zero seqnums)
		if err := d.Set(key, []byte("v0"), NoSync); err != nil {
			t.Fatal(err)
		}
		if err := d.Flush(); err != nil {
			t.Fatal(err)
		}
		if err := d.Set(key, []byte("v1"), NoSync); err != nil {
			t.Fatal(err)
		}
		res["vis_after_v1"] = uint64(d.mu.versions.visibleSeqNum.Load())
		held := make(chan struct{})
		release := make(chan struct{})
		orig := d.commit.env.apply
		var once sync.Once
		d.commit.mu.Lock()
		d.commit.env.apply = func(b *Batch, mem *memTable) error {
			err := orig(b, mem)
			once.Do(func() {
				close(held)
				<-release
			})
			return err
		}
		d.commit.mu.Unlock()
		done := make(chan error, 1)
		go func() {
			v2 := []byte("v2")
			if large {
				v2 = append(v2, bytes.Repeat([]byte("x"), 40<<10)...)
			}
			done <- d.Set(key, v2, NoSync)
		}()
		<-held
		res["vis_in_window"] = uint64(d.mu.versions.visibleSeqNum.Load())
		res["logseq_in_window"] = uint64(d.mu.versions.logSeqNum.Load())
		flushed := make(chan error, 1)
		go func() { flushed <- d.Flush() }()
		select {
		case err := <-flushed:
			res["flush"] = fmt.Sprint(err)
		case <-time.After(5 * time.Second):
			res["flush"] = "did not complete while the commit was held (no window)"
		}
		v, closer, gerr := d.Get(key)
		if gerr == nil {
			res["get"] = string(v[:2])
			closer.Close()
		} else {
			res["get"] = "ERR:" + gerr.Error()
		}
		it, _ := d.NewIter(nil)
		res["iter_seq"] = uint64(it.seqNum)
		if it.First() {
			res["iter"] = string(it.Value()[:2])
		} else {
			res["iter"] = "EMPTY"
		}
		it.Close()
		// second symptom of the same window: a compaction to the bottom level zeroes the sequence
		// number of the unpublished k@v2, which makes it visible to every reader before it is published
		if err := d.Compact(context.Background(), []byte("a"), []byte("z"), false); err != nil {
			res["compact"] = err.Error()
		}
		res["vis_after_compact"] = uint64(d.mu.versions.visibleSeqNum.Load())
		v, closer, gerr = d.Get(key)
		if gerr == nil {
			res["get_after_compact"] = string(v[:2])
			closer.Close()
		} else {
			res["get_after_compact"] = "ERR:" + gerr.Error()
		}
		snap := d.NewSnapshot()
		res["snap_seq"] = uint64(snap.seqNum)
		v, closer, gerr = snap.Get(key)
		if gerr == nil {
			res["snap_get_after_compact"] = string(v[:2])
			closer.Close()
		} else {
			res["snap_get_after_compact"] = "ERR:" + gerr.Error()
		}
		snap.Close()
		close(release)
		res["commit_v2"] = fmt.Sprint(<-done)
		v, closer, gerr = d.Get(key)
		if gerr == nil {
			res["get_after"] = string(v[:2])
			closer.Close()
		} else {
			res["get_after"] = "ERR:" + gerr.Error()
		}
	}()
	b, _ := json.Marshal(res)
	_ = os.WriteFile(filepath.Join(out, "probe-elide.json"), append(b, '\n'), 0644)
	fmt.Printf("PROBE %s\n", b)
	fmt.Println("DRIVER-DONE")
}
