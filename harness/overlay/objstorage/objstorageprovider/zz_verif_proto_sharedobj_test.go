package objstorageprovider

// C41 driver (engine "proto"), mode C without hooks.  N real providers share one
// in-memory remote.Storage; every provider sees it through its own wrapper, and
// every wrapper operation that reads or changes the store (an upload =
// CreateObject + Write* + Close, Size, Delete, List) first blocks at a gate.  The
// scheduler releases exactly one operation at a time, either in the order of a
// TLC-generated schedule (interleavings of SharedObj.tla's state graph, which
// include FAILING operations: the schedule names the provider whose next
// operation fails and, for an upload, whether the error surfaces at
// CreateObject, Write or Close) or in seeded random order with seeded random
// failures (exploration), and logs the operation, its result, the store contents
// after it, every API return, and - after every step - which of the providers
// that successfully created/attached the object (and have not called Remove) can
// still open and read it, together with the markers present in the store.
// Provider 0's Create/Write/Finish is part of the schedule.  A Remove that
// returned an error is called again.  Go only executes and records; TLC
// (SharedObjTrace.tla) judges the trace.

import (
	"bufio"
	"bytes"
	"context"
	"encoding/json"
	"fmt"
	"io"
	"math/rand/v2"
	"os"
	"sort"
	"strconv"
	"strings"
	"testing"

	"github.com/cockroachdb/pebble/internal/base"
	"github.com/cockroachdb/pebble/objstorage"
	"github.com/cockroachdb/pebble/objstorage/remote"
	"github.com/cockroachdb/pebble/vfs"
)

type vProtoSOEvent struct {
	p       int
	typ     string // arrive | done | callret
	kind    string // store operation kind
	name    string
	found   bool
	fail    bool   // the operation was made to fail
	via     string // where the injected error surfaced: create | write | close | fail
	lst     []string
	what    string
	err     error
	release chan string // the scheduler's decision: "" proceed, else the way the operation fails
}

type vProtoSOGate struct {
	free bool // monitor / setup mode: calls pass through (only toggled while every provider goroutine is parked)
	ev   chan vProtoSOEvent
}

var errVProtoSOInjected = fmt.Errorf("verif: injected transient remote storage error")

// enter parks the operation at the gate; plan is the scheduler's decision for it.
func (g *vProtoSOGate) enter(p int, kind, name string) (gated bool, plan string) {
	if g.free {
		return false, ""
	}
	rel := make(chan string, 1)
	g.ev <- vProtoSOEvent{p: p, typ: "arrive", kind: kind, name: name, release: rel}
	return true, <-rel
}

func (g *vProtoSOGate) leave(gated bool, p int, kind, name string, found bool, lst []string, via string) {
	if gated {
		g.ev <- vProtoSOEvent{p: p, typ: "done", kind: kind, name: name, found: found, lst: lst, fail: via != "", via: via}
	}
}

// vProtoSOStore is provider p's view of the shared store.
type vProtoSOStore struct {
	inner remote.Storage
	p     int
	g     *vProtoSOGate
}

var _ remote.Storage = (*vProtoSOStore)(nil)

func (s *vProtoSOStore) Close() error { return nil }
func (s *vProtoSOStore) ReadObject(ctx context.Context, name string) (remote.ObjectReader, int64, error) {
	gated, plan := s.g.enter(s.p, "read", name)
	if plan != "" {
		s.g.leave(gated, s.p, "read", name, false, nil, "fail")
		return nil, 0, errVProtoSOInjected
	}
	r, sz, err := s.inner.ReadObject(ctx, name)
	s.g.leave(gated, s.p, "read", name, err == nil, nil, "")
	return r, sz, err
}

// An upload parks at CreateObject and takes effect at Close, within the same scheduler step (the real
// code performs no other store operation in between).
type vProtoSOWriter struct {
	s     *vProtoSOStore
	name  string
	kind  string
	buf   bytes.Buffer
	gated bool
	plan  string
	done  bool
}

func (w *vProtoSOWriter) Write(b []byte) (int, error) {
	if w.plan == "write" && !w.done {
		w.done = true
		w.s.g.leave(w.gated, w.s.p, w.kind, w.name, false, nil, "write")
		return 0, errVProtoSOInjected
	}
	return w.buf.Write(b)
}
func (w *vProtoSOWriter) Close() error {
	if w.done {
		return nil
	}
	w.done = true
	if w.plan != "" {
		w.s.g.leave(w.gated, w.s.p, w.kind, w.name, false, nil, "close")
		return errVProtoSOInjected
	}
	iw, err := w.s.inner.CreateObject(w.name)
	if err == nil {
		_, err = iw.Write(w.buf.Bytes())
		if cerr := iw.Close(); err == nil {
			err = cerr
		}
	}
	w.s.g.leave(w.gated, w.s.p, w.kind, w.name, err == nil, nil, "")
	return err
}
func (s *vProtoSOStore) CreateObject(name string) (io.WriteCloser, error) {
	kind := "createobj"
	if strings.Contains(name, ".ref.") {
		kind = "createref"
	}
	gated, plan := s.g.enter(s.p, kind, name)
	if plan == "create" {
		s.g.leave(gated, s.p, kind, name, false, nil, "create")
		return nil, errVProtoSOInjected
	}
	return &vProtoSOWriter{s: s, name: name, kind: kind, gated: gated, plan: plan}, nil
}
func (s *vProtoSOStore) List(prefix, delimiter string) ([]string, error) {
	gated, plan := s.g.enter(s.p, "list", prefix)
	if plan != "" {
		s.g.leave(gated, s.p, "list", prefix, false, nil, "fail")
		return nil, errVProtoSOInjected
	}
	l, err := s.inner.List(prefix, delimiter)
	s.g.leave(gated, s.p, "list", prefix, err == nil, l, "")
	return l, err
}
func (s *vProtoSOStore) Delete(name string) error {
	kind := "delobj"
	if strings.Contains(name, ".ref.") {
		kind = "delref"
	}
	gated, plan := s.g.enter(s.p, kind, name)
	if plan != "" {
		s.g.leave(gated, s.p, kind, name, false, nil, "fail")
		return errVProtoSOInjected
	}
	err := s.inner.Delete(name)
	s.g.leave(gated, s.p, kind, name, err == nil, nil, "")
	return err
}
func (s *vProtoSOStore) Size(name string) (int64, error) {
	gated, plan := s.g.enter(s.p, "size", name)
	if plan != "" {
		s.g.leave(gated, s.p, "size", name, false, nil, "fail")
		return 0, errVProtoSOInjected
	}
	sz, err := s.inner.Size(name)
	s.g.leave(gated, s.p, "size", name, err == nil, nil, "")
	return sz, err
}
func (s *vProtoSOStore) IsNotExistError(err error) bool { return s.inner.IsNotExistError(err) }

// ---- one run
type vProtoSORun struct {
	n       int
	g       *vProtoSOGate
	store   remote.Storage
	prov    []objstorage.Provider
	cmd     []chan func() (string, error)
	pending []*vProtoSOEvent // provider blocked at the gate
	incall  []bool
	stage   []int  // 0 idle, 1 backed, 2 create/attach called, 3 have, 4 remove called, 5 finished, 6 Remove returned an error (may be called again)
	attOK   []bool // create/attach returned success and Remove not yet called
	backing [][]byte
	tr      *bufio.Writer
	events  int
	data    []byte
	faults  int
	lost    int // released operations that never reported completion
}

func vProtoSOFileNum(p int) base.DiskFileNum { return base.DiskFileNum(10 + p) }

func (r *vProtoSORun) emit(ev map[string]any) {
	b, err := json.Marshal(ev)
	if err != nil {
		panic(err)
	}
	r.tr.Write(b)
	r.tr.WriteByte('\n')
	r.events++
}

// owner of a ref marker name "<obj>.ref.<creatorID>.<fileNum>" -> provider index
func vProtoSORefOwner(name string) int {
	i := strings.Index(name, ".ref.")
	if i < 0 {
		return -1
	}
	rest := name[i+5:]
	if j := strings.IndexByte(rest, '.'); j >= 0 {
		rest = rest[:j]
	}
	if rest == "" {
		return -1
	}
	id, err := strconv.Atoi(rest)
	if err != nil {
		return -2
	}
	return id - 1
}

func (r *vProtoSORun) storeState() (bool, []int) {
	l, err := r.store.List("", "")
	if err != nil {
		panic(err)
	}
	obj := false
	refs := []int{}
	for _, n := range l {
		if strings.Contains(n, ".ref.") {
			refs = append(refs, vProtoSORefOwner(n))
		} else {
			obj = true
		}
	}
	sort.Ints(refs)
	return obj, refs
}

func vProtoSOOpen(n int, tr *bufio.Writer) *vProtoSORun {
	r := &vProtoSORun{n: n, g: &vProtoSOGate{free: true, ev: make(chan vProtoSOEvent)}, store: remote.NewInMem(), tr: tr}
	r.data = []byte("verif-shared-object-payload")
	for i := 0; i < n; i++ {
		st := DefaultSettings(vfs.NewMem(), "")
		st.Logger = base.NoopLoggerAndTracer{}
		st.Remote.StorageFactory = remote.MakeSimpleFactory(map[remote.Locator]remote.Storage{
			remote.MakeLocator(""): &vProtoSOStore{inner: r.store, p: i, g: r.g},
		})
		st.Remote.CreateOnShared = remote.CreateOnSharedAll
		st.Remote.CreateOnSharedLocator = remote.MakeLocator("")
		p, err := Open(st)
		if err != nil {
			panic(err)
		}
		if err := p.SetCreatorID(objstorage.CreatorID(i + 1)); err != nil {
			panic(err)
		}
		r.prov = append(r.prov, p)
		c := make(chan func() (string, error))
		r.cmd = append(r.cmd, c)
		go func(i int) {
			for f := range c {
				what, err := f()
				r.g.ev <- vProtoSOEvent{p: i, typ: "callret", what: what, err: err}
			}
		}(i)
	}
	r.pending = make([]*vProtoSOEvent, n)
	r.incall = make([]bool, n)
	r.stage = make([]int, n)
	r.attOK = make([]bool, n)
	r.backing = make([][]byte, n)
	r.g.free = false
	return r
}

func (r *vProtoSORun) close() {
	// drain: let every blocked call through
	r.g.free = true
	for p := range r.pending {
		if r.pending[p] != nil {
			r.pending[p].release <- ""
			r.pending[p] = nil
			r.incall[p] = true
		}
	}
	for p := range r.incall {
		for r.incall[p] {
			ev := <-r.g.ev
			if ev.typ == "callret" {
				r.incall[ev.p] = false
			} else if ev.typ == "arrive" {
				ev.release <- ""
			}
		}
	}
	for i, c := range r.cmd {
		close(c)
		_ = r.prov[i].Close()
	}
}

// handle records that provider p is parked at the gate or that its API call returned.
func (r *vProtoSORun) handle(p int, ev vProtoSOEvent) {
	if ev.p != p {
		panic(fmt.Sprintf("event from provider %d while only %d may run", ev.p, p))
	}
	switch ev.typ {
	case "arrive":
		r.pending[p] = &ev
	case "callret":
		r.incall[p] = false
		ok := ev.err == nil
		switch ev.what {
		case "create", "attach":
			if ok {
				r.stage[p] = 3
				r.attOK[p] = true
			} else {
				r.stage[p] = 5
			}
		case "remove":
			if ok {
				r.stage[p] = 5
			} else {
				r.stage[p] = 6
			}
		}
		e := ""
		if ev.err != nil {
			e = ev.err.Error()
			if len(e) > 120 {
				e = e[:120]
			}
		}
		r.emit(map[string]any{"op": "ret", "p": p, "what": ev.what, "ok": ok, "err": e})
	default:
		panic("unexpected event " + ev.typ)
	}
}

// waitFor waits until provider p is parked at the gate or its API call returned.
func (r *vProtoSORun) waitFor(p int) { r.handle(p, <-r.g.ev) }

// canAct: provider p has a next step (a parked store operation, or a next API call whose precondition holds)
func (r *vProtoSORun) canAct(p int) bool {
	if r.pending[p] != nil {
		return true
	}
	switch r.stage[p] {
	case 0:
		return p == 0 || r.attOK[p-1]
	case 1, 3, 6:
		return true
	}
	return false
}

func vProtoSOUpload(kind string) bool { return kind == "createobj" || kind == "createref" }

// step performs provider p's next step; want = "" (the operation succeeds) or the schedule's failing
// action: FailCreate / FailWrite / FailClose (uploads), Fail (other operations), FailAny (exploration:
// vias picks the call at which an upload's error surfaces).  Returns false when p has nothing to do.
func (r *vProtoSORun) step(p int, want string, vias func(kind string) string) bool {
	if !r.canAct(p) {
		return false
	}
	if r.pending[p] == nil {
		switch r.stage[p] {
		case 0:
			if p == 0 {
				// provider 0 creates the object: Create (CreateObject), Write, Finish (Close of the object, then the own ref marker)
				r.stage[p] = 2
				r.incall[p] = true
				r.emit(map[string]any{"op": "call", "p": p, "what": "create"})
				r.cmd[p] <- func() (string, error) {
					w, _, err := r.prov[0].Create(context.Background(), base.FileTypeTable, vProtoSOFileNum(0), objstorage.CreateOptions{PreferSharedStorage: true})
					if err != nil {
						return "create", err
					}
					if err := w.Write(append([]byte(nil), r.data...)); err != nil {
						w.Abort()
						return "create", err
					}
					return "create", w.Finish()
				}
				break
			}
			// local: obtain the backing from p-1 (handle closed immediately so that isProtected does not mask the race)
			if want != "" {
				return false
			}
			q := r.prov[p-1]
			meta, err := q.Lookup(base.FileTypeTable, vProtoSOFileNum(p-1))
			if err != nil {
				panic(err)
			}
			h, err := q.RemoteObjectBacking(&meta)
			if err != nil {
				panic(err)
			}
			b, err := h.Get()
			if err != nil {
				panic(err)
			}
			r.backing[p] = append([]byte(nil), b...)
			h.Close()
			r.stage[p] = 1
			r.emit(map[string]any{"op": "call", "p": p, "what": "backing"})
			r.observe()
			return true
		case 1:
			r.stage[p] = 2
			r.incall[p] = true
			r.emit(map[string]any{"op": "call", "p": p, "what": "attach"})
			b := r.backing[p]
			r.cmd[p] <- func() (string, error) {
				_, err := r.prov[p].AttachRemoteObjects([]objstorage.RemoteObjectToAttach{{
					FileNum: vProtoSOFileNum(p), FileType: base.FileTypeTable, Backing: b}})
				return "attach", err
			}
		case 3, 6:
			r.stage[p] = 4
			r.attOK[p] = false
			r.incall[p] = true
			r.emit(map[string]any{"op": "call", "p": p, "what": "remove"})
			r.cmd[p] <- func() (string, error) {
				return "remove", r.prov[p].Remove(base.FileTypeTable, vProtoSOFileNum(p))
			}
		}
		r.waitFor(p)
		if r.pending[p] == nil {
			// the API call returned without touching the store
			r.observe()
			return true
		}
	}
	// release the parked store operation
	pe := r.pending[p]
	r.pending[p] = nil
	plan := ""
	if want != "" {
		r.faults++
		plan = "fail"
		if vProtoSOUpload(pe.kind) {
			switch want {
			case "FailCreate":
				plan = "create"
			case "FailWrite":
				plan = "write"
			case "FailAny":
				plan = vias(pe.kind)
			default:
				plan = "close"
			}
		}
	}
	pe.release <- plan
	done := <-r.g.ev
	closed := done.p == p && done.typ == "done"
	obj, refs := r.storeState()
	arg := -1
	if pe.kind != "list" {
		arg = vProtoSORefOwner(pe.name)
	}
	lst := []int{}
	if closed {
		for _, n := range done.lst {
			lst = append(lst, vProtoSORefOwner(n))
		}
	}
	sort.Ints(lst)
	// closed = false: the provider went on (next operation / API return) without completing the released one
	// (e.g. an upload whose writer was never closed)
	r.emit(map[string]any{"op": "step", "p": p, "kind": pe.kind, "arg": arg, "found": closed && done.found, "fail": plan != "",
		"via": done.via, "closed": closed, "lst": lst, "obj": obj, "refs": refs})
	if closed {
		r.waitFor(p) // parked at its next store operation, or the API call returned (ret event)
	} else {
		r.lost++
		r.handle(p, done)
	}
	r.observe()
	return true
}

// observe: every provider whose create/attach succeeded and that has not called Remove re-reads the object;
// the store contents (object, markers) are recorded next to it
func (r *vProtoSORun) observe() {
	r.g.free = true
	tested, readable := []int{}, []int{}
	for p := 0; p < r.n; p++ {
		if !r.attOK[p] {
			continue
		}
		tested = append(tested, p)
		rd, err := r.prov[p].OpenForReading(context.Background(), base.FileTypeTable, vProtoSOFileNum(p), objstorage.OpenOptions{})
		if err != nil {
			continue
		}
		buf := make([]byte, rd.Size())
		err = rd.ReadAt(context.Background(), buf, 0)
		rd.Close()
		if err == nil && bytes.Equal(buf, r.data) {
			readable = append(readable, p)
		}
	}
	obj, refs := r.storeState()
	r.g.free = false
	r.emit(map[string]any{"op": "obs", "tested": tested, "readable": readable, "obj": obj, "refs": refs})
}

func (r *vProtoSORun) complete() bool {
	for p := 0; p < r.n; p++ {
		if r.canAct(p) || r.incall[p] {
			return false
		}
	}
	return true
}

// TestVProtoSharedObj: VERIF_OUT, VERIF_N, VERIF_SCHEDULES (file: one JSON [[action, p]...] per line),
// VERIF_EXPLORE (number of random-order runs), VERIF_MAXFAULTS (failing operations per exploration run), VERIF_SEED.
func TestVProtoSharedObj(t *testing.T) {
	out := os.Getenv("VERIF_OUT")
	if out == "" {
		t.Skip("VERIF_OUT not set")
	}
	geti := func(k string, d int) int {
		if v, err := strconv.Atoi(os.Getenv(k)); err == nil {
			return v
		}
		return d
	}
	n := geti("VERIF_N", 3)
	seed := uint64(geti("VERIF_SEED", 1))
	forced, followed, nofollow, forcedFaults, lost := 0, 0, 0, 0, 0
	if sf := os.Getenv("VERIF_SCHEDULES"); sf != "" {
		f, err := os.Create(out + "/forced.ndjson")
		if err != nil {
			t.Fatal(err)
		}
		w := bufio.NewWriterSize(f, 1<<20)
		in, err := os.Open(sf)
		if err != nil {
			t.Fatal(err)
		}
		sc := bufio.NewScanner(in)
		sc.Buffer(make([]byte, 1<<20), 1<<24)
		for sc.Scan() {
			var sched [][]any
			if err := json.Unmarshal(sc.Bytes(), &sched); err != nil {
				t.Fatal(err)
			}
			r := vProtoSOOpen(n, w)
			r.emit(map[string]any{"op": "start", "n": n, "mode": "forced", "id": forced})
			r.observe()
			ok := true
			for _, st := range sched {
				p := int(st[1].(float64))
				want := ""
				if a := st[0].(string); strings.HasPrefix(a, "Fail") {
					want = a
				}
				if !r.step(p, want, nil) {
					// the real providers cannot follow the schedule: provider p has nothing to do
					r.emit(map[string]any{"op": "nofollow", "p": p, "want": st[0]})
					ok = false
					break
				}
			}
			complete := r.complete()
			if ok && !complete {
				// the real providers have more store calls than the spec: release them in index order, logged
				for again, k := true, 0; again && k < 100; k++ {
					again = false
					for p := 0; p < n; p++ {
						if r.pending[p] != nil {
							r.step(p, "", nil)
							again = true
						}
					}
				}
				ok = false
			}
			r.emit(map[string]any{"op": "end", "complete": complete})
			forcedFaults += r.faults
			lost += r.lost
			r.close()
			forced++
			if ok {
				followed++
			} else {
				nofollow++
			}
		}
		in.Close()
		w.Flush()
		f.Close()
	}
	explore := geti("VERIF_EXPLORE", 0)
	maxFaults := geti("VERIF_MAXFAULTS", 2)
	distinct := map[string]bool{}
	exploreFaults, exploreFaulty := 0, 0
	vias := map[string]int{}
	if explore > 0 {
		f, err := os.Create(out + "/explore.ndjson")
		if err != nil {
			t.Fatal(err)
		}
		w := bufio.NewWriterSize(f, 1<<20)
		rng := rand.New(rand.NewPCG(seed, 41))
		pick := func(kind string) string {
			v := []string{"create", "close"}
			if kind == "createobj" {
				v = append(v, "write")
			}
			x := v[rng.IntN(len(v))]
			vias[kind+"/"+x]++
			return x
		}
		for i := 0; i < explore; i++ {
			r := vProtoSOOpen(n, w)
			r.emit(map[string]any{"op": "start", "n": n, "mode": "explore", "id": i})
			r.observe()
			// every other run is fault-free; the others get up to maxFaults failing operations
			budget := 0
			if i%2 == 1 {
				budget = 1 + rng.IntN(maxFaults)
			}
			var order []byte
			for steps := 0; steps < 200; steps++ {
				var can []int
				for p := 0; p < n; p++ {
					if r.canAct(p) {
						can = append(can, p)
					}
				}
				if len(can) == 0 {
					break
				}
				p := can[rng.IntN(len(can))]
				want := ""
				// a local step (obtaining the backing) cannot fail
				local := r.pending[p] == nil && r.stage[p] == 0 && p > 0
				if !local && r.faults < budget && rng.IntN(5) == 0 {
					want = "FailAny"
				}
				order = append(order, byte('0'+p))
				if want != "" {
					order = append(order, '!')
				}
				r.step(p, want, pick)
			}
			distinct[string(order)] = true
			r.emit(map[string]any{"op": "end", "complete": r.complete()})
			exploreFaults += r.faults
			if r.faults > 0 {
				exploreFaulty++
			}
			lost += r.lost
			r.close()
		}
		w.Flush()
		f.Close()
	}
	st, _ := json.Marshal(map[string]any{"forced": forced, "followed": followed, "not_followed": nofollow, "explore_runs": explore,
		"explore_distinct_orders": len(distinct), "n": n, "forced_failing_ops": forcedFaults, "explore_failing_ops": exploreFaults,
		"explore_runs_with_failures": exploreFaulty, "explore_upload_failure_sites": vias, "ops_released_but_never_completed": lost})
	fmt.Printf("DRIVER-STATS %s\n", st)
	fmt.Printf("DRIVER-DONE\n")
}
