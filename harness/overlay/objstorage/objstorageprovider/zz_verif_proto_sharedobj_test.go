package objstorageprovider

// C41 driver (engine "proto"), mode C without hooks.  N real providers share one
// in-memory remote.Storage; every provider sees it through its own wrapper, and
// every wrapper call that reads or changes the store (CreateObject.Close, Size,
// Delete, List) first blocks at a gate.  The scheduler releases exactly one call
// at a time, either in the order of a TLC-generated schedule (every interleaving
// of SharedObj.tla's state graph) or in seeded random order (exploration), and
// logs the call, its result, the store contents after it, every API return, and
// - after every step - which of the providers that successfully created/attached
// the object (and have not called Remove) can still open and read it.  Go only
// executes and records; TLC (SharedObjTrace.tla) judges the trace.

import (
	"bufio"
	"bytes"
	"context"
	"encoding/json"
	"fmt"
	"io"
	"math/rand/v2"
	"os"
	"sort"
	"strconv"
	"strings"
	"testing"

	"github.com/cockroachdb/pebble/internal/base"
	"github.com/cockroachdb/pebble/objstorage"
	"github.com/cockroachdb/pebble/objstorage/remote"
	"github.com/cockroachdb/pebble/vfs"
)

type vProtoSOEvent struct {
	p       int
	typ     string // arrive | done | callret
	kind    string // store call kind
	name    string
	found   bool
	lst     []string
	what    string
	err     error
	release chan struct{}
}

type vProtoSOGate struct {
	free bool // monitor / setup mode: calls pass through (only toggled while every provider goroutine is parked)
	ev   chan vProtoSOEvent
}

func (g *vProtoSOGate) enter(p int, kind, name string) bool {
	if g.free {
		return false
	}
	rel := make(chan struct{})
	g.ev <- vProtoSOEvent{p: p, typ: "arrive", kind: kind, name: name, release: rel}
	<-rel
	return true
}

func (g *vProtoSOGate) leave(gated bool, p int, kind, name string, found bool, lst []string) {
	if gated {
		g.ev <- vProtoSOEvent{p: p, typ: "done", kind: kind, name: name, found: found, lst: lst}
	}
}

// vProtoSOStore is provider p's view of the shared store.
type vProtoSOStore struct {
	inner remote.Storage
	p     int
	g     *vProtoSOGate
}

var _ remote.Storage = (*vProtoSOStore)(nil)

func (s *vProtoSOStore) Close() error { return nil }
func (s *vProtoSOStore) ReadObject(ctx context.Context, name string) (remote.ObjectReader, int64, error) {
	gated := s.g.enter(s.p, "read", name)
	r, sz, err := s.inner.ReadObject(ctx, name)
	s.g.leave(gated, s.p, "read", name, err == nil, nil)
	return r, sz, err
}

type vProtoSOWriter struct {
	s    *vProtoSOStore
	name string
	buf  bytes.Buffer
	done bool
}

func (w *vProtoSOWriter) Write(b []byte) (int, error) { return w.buf.Write(b) }
func (w *vProtoSOWriter) Close() error {
	if w.done {
		return nil
	}
	w.done = true
	kind := "createobj"
	if strings.Contains(w.name, ".ref.") {
		kind = "createref"
	}
	gated := w.s.g.enter(w.s.p, kind, w.name)
	iw, err := w.s.inner.CreateObject(w.name)
	if err == nil {
		_, err = iw.Write(w.buf.Bytes())
		if cerr := iw.Close(); err == nil {
			err = cerr
		}
	}
	w.s.g.leave(gated, w.s.p, kind, w.name, err == nil, nil)
	return err
}
func (s *vProtoSOStore) CreateObject(name string) (io.WriteCloser, error) {
	return &vProtoSOWriter{s: s, name: name}, nil
}
func (s *vProtoSOStore) List(prefix, delimiter string) ([]string, error) {
	gated := s.g.enter(s.p, "list", prefix)
	l, err := s.inner.List(prefix, delimiter)
	s.g.leave(gated, s.p, "list", prefix, err == nil, l)
	return l, err
}
func (s *vProtoSOStore) Delete(name string) error {
	kind := "delobj"
	if strings.Contains(name, ".ref.") {
		kind = "delref"
	}
	gated := s.g.enter(s.p, kind, name)
	err := s.inner.Delete(name)
	s.g.leave(gated, s.p, kind, name, err == nil, nil)
	return err
}
func (s *vProtoSOStore) Size(name string) (int64, error) {
	gated := s.g.enter(s.p, "size", name)
	sz, err := s.inner.Size(name)
	s.g.leave(gated, s.p, "size", name, err == nil, nil)
	return sz, err
}
func (s *vProtoSOStore) IsNotExistError(err error) bool { return s.inner.IsNotExistError(err) }

// ---- one run
type vProtoSORun struct {
	n       int
	g       *vProtoSOGate
	store   remote.Storage
	prov    []objstorage.Provider
	cmd     []chan func() (string, error)
	pending []*vProtoSOEvent // provider blocked at the gate
	incall  []bool
	stage   []int  // 0 idle, 1 backed, 2 attach called, 3 attached (have), 4 remove called, 5 finished
	attOK   []bool // create/attach returned success and Remove not yet called
	backing [][]byte
	tr      *bufio.Writer
	events  int
	data    []byte
}

func vProtoSOFileNum(p int) base.DiskFileNum { return base.DiskFileNum(10 + p) }

func (r *vProtoSORun) emit(ev map[string]any) {
	b, err := json.Marshal(ev)
	if err != nil {
		panic(err)
	}
	r.tr.Write(b)
	r.tr.WriteByte('\n')
	r.events++
}

// owner of a ref marker name "<obj>.ref.<creatorID>.<fileNum>" -> provider index
func vProtoSORefOwner(name string) int {
	i := strings.Index(name, ".ref.")
	if i < 0 {
		return -1
	}
	rest := name[i+5:]
	if j := strings.IndexByte(rest, '.'); j >= 0 {
		rest = rest[:j]
	}
	if rest == "" {
		return -1
	}
	id, err := strconv.Atoi(rest)
	if err != nil {
		return -2
	}
	return id - 1
}

func (r *vProtoSORun) storeState() (bool, []int) {
	l, err := r.store.List("", "")
	if err != nil {
		panic(err)
	}
	obj := false
	refs := []int{}
	for _, n := range l {
		if strings.Contains(n, ".ref.") {
			refs = append(refs, vProtoSORefOwner(n))
		} else {
			obj = true
		}
	}
	sort.Ints(refs)
	return obj, refs
}

func vProtoSOOpen(n int, tr *bufio.Writer) *vProtoSORun {
	r := &vProtoSORun{n: n, g: &vProtoSOGate{free: true, ev: make(chan vProtoSOEvent)}, store: remote.NewInMem(), tr: tr}
	r.data = []byte("verif-shared-object-payload")
	for i := 0; i < n; i++ {
		st := DefaultSettings(vfs.NewMem(), "")
		st.Logger = base.NoopLoggerAndTracer{}
		st.Remote.StorageFactory = remote.MakeSimpleFactory(map[remote.Locator]remote.Storage{
			remote.MakeLocator(""): &vProtoSOStore{inner: r.store, p: i, g: r.g},
		})
		st.Remote.CreateOnShared = remote.CreateOnSharedAll
		st.Remote.CreateOnSharedLocator = remote.MakeLocator("")
		p, err := Open(st)
		if err != nil {
			panic(err)
		}
		if err := p.SetCreatorID(objstorage.CreatorID(i + 1)); err != nil {
			panic(err)
		}
		r.prov = append(r.prov, p)
		c := make(chan func() (string, error))
		r.cmd = append(r.cmd, c)
		go func(i int) {
			for f := range c {
				what, err := f()
				r.g.ev <- vProtoSOEvent{p: i, typ: "callret", what: what, err: err}
			}
		}(i)
	}
	r.pending = make([]*vProtoSOEvent, n)
	r.incall = make([]bool, n)
	r.stage = make([]int, n)
	r.attOK = make([]bool, n)
	r.backing = make([][]byte, n)
	// provider 0 creates the object (object, then its own ref marker)
	w, _, err := r.prov[0].Create(context.Background(), base.FileTypeTable, vProtoSOFileNum(0), objstorage.CreateOptions{PreferSharedStorage: true})
	if err != nil {
		panic(err)
	}
	if err := w.Write(append([]byte(nil), r.data...)); err != nil {
		panic(err)
	}
	if err := w.Finish(); err != nil {
		panic(err)
	}
	r.stage[0] = 3
	r.attOK[0] = true
	r.g.free = false
	return r
}

func (r *vProtoSORun) close() {
	// drain: let every blocked call through
	r.g.free = true
	for p := range r.pending {
		if r.pending[p] != nil {
			close(r.pending[p].release)
			r.pending[p] = nil
			r.incall[p] = true
		}
	}
	for p := range r.incall {
		for r.incall[p] {
			ev := <-r.g.ev
			if ev.typ == "callret" {
				r.incall[ev.p] = false
			}
		}
	}
	for i, c := range r.cmd {
		close(c)
		_ = r.prov[i].Close()
	}
}

// waitFor waits until provider p is parked at the gate or its API call returned.
func (r *vProtoSORun) waitFor(p int) {
	ev := <-r.g.ev
	if ev.p != p {
		panic(fmt.Sprintf("event from provider %d while only %d may run", ev.p, p))
	}
	switch ev.typ {
	case "arrive":
		r.pending[p] = &ev
	case "callret":
		r.incall[p] = false
		ok := ev.err == nil
		switch ev.what {
		case "attach":
			if ok {
				r.stage[p] = 3
				r.attOK[p] = true
			} else {
				r.stage[p] = 5
			}
		case "remove":
			r.stage[p] = 5
		}
		e := ""
		if ev.err != nil {
			e = ev.err.Error()
			if len(e) > 120 {
				e = e[:120]
			}
		}
		r.emit(map[string]any{"op": "ret", "p": p, "what": ev.what, "ok": ok, "err": e})
	default:
		panic("unexpected event " + ev.typ)
	}
}

// canAct: provider p has a next step (a parked store call, or a next API call whose precondition holds)
func (r *vProtoSORun) canAct(p int) bool {
	if r.pending[p] != nil {
		return true
	}
	switch r.stage[p] {
	case 0:
		return p > 0 && r.attOK[p-1]
	case 1, 3:
		return true
	}
	return false
}

// step performs provider p's next step.  Returns false when p has nothing to do.
func (r *vProtoSORun) step(p int) bool {
	if !r.canAct(p) {
		return false
	}
	if r.pending[p] == nil {
		switch r.stage[p] {
		case 0: // local: obtain the backing from p-1 (handle closed immediately so that isProtected does not mask the race)
			q := r.prov[p-1]
			meta, err := q.Lookup(base.FileTypeTable, vProtoSOFileNum(p-1))
			if err != nil {
				panic(err)
			}
			h, err := q.RemoteObjectBacking(&meta)
			if err != nil {
				panic(err)
			}
			b, err := h.Get()
			if err != nil {
				panic(err)
			}
			r.backing[p] = append([]byte(nil), b...)
			h.Close()
			r.stage[p] = 1
			r.emit(map[string]any{"op": "call", "p": p, "what": "backing"})
			r.observe()
			return true
		case 1:
			r.stage[p] = 2
			r.incall[p] = true
			r.emit(map[string]any{"op": "call", "p": p, "what": "attach"})
			b := r.backing[p]
			r.cmd[p] <- func() (string, error) {
				_, err := r.prov[p].AttachRemoteObjects([]objstorage.RemoteObjectToAttach{{
					FileNum: vProtoSOFileNum(p), FileType: base.FileTypeTable, Backing: b}})
				return "attach", err
			}
		case 3:
			r.stage[p] = 4
			r.attOK[p] = false
			r.incall[p] = true
			r.emit(map[string]any{"op": "call", "p": p, "what": "remove"})
			r.cmd[p] <- func() (string, error) {
				return "remove", r.prov[p].Remove(base.FileTypeTable, vProtoSOFileNum(p))
			}
		}
		r.waitFor(p)
		if r.pending[p] == nil {
			// the API call returned without touching the store
			r.observe()
			return true
		}
	}
	// release the parked store call
	pe := r.pending[p]
	r.pending[p] = nil
	close(pe.release)
	done := <-r.g.ev
	if done.p != p || done.typ != "done" {
		panic("expected done event")
	}
	obj, refs := r.storeState()
	arg := -1
	if done.kind != "list" {
		arg = vProtoSORefOwner(done.name)
	}
	lst := []int{}
	for _, n := range done.lst {
		lst = append(lst, vProtoSORefOwner(n))
	}
	sort.Ints(lst)
	r.emit(map[string]any{"op": "step", "p": p, "kind": done.kind, "arg": arg, "found": done.found, "lst": lst, "obj": obj, "refs": refs})
	r.waitFor(p) // parked at its next store call, or the API call returned (ret event)
	r.observe()
	return true
}

// observe: every provider whose create/attach succeeded and that has not called Remove re-reads the object
func (r *vProtoSORun) observe() {
	r.g.free = true
	tested, readable := []int{}, []int{}
	for p := 0; p < r.n; p++ {
		if !r.attOK[p] {
			continue
		}
		tested = append(tested, p)
		rd, err := r.prov[p].OpenForReading(context.Background(), base.FileTypeTable, vProtoSOFileNum(p), objstorage.OpenOptions{})
		if err != nil {
			continue
		}
		buf := make([]byte, rd.Size())
		err = rd.ReadAt(context.Background(), buf, 0)
		rd.Close()
		if err == nil && bytes.Equal(buf, r.data) {
			readable = append(readable, p)
		}
	}
	r.g.free = false
	r.emit(map[string]any{"op": "obs", "tested": tested, "readable": readable})
}

func (r *vProtoSORun) complete() bool {
	for p := 0; p < r.n; p++ {
		if r.canAct(p) || r.incall[p] {
			return false
		}
	}
	return true
}

// TestVProtoSharedObj: VERIF_OUT, VERIF_N, VERIF_SCHEDULES (file: one JSON [[action, p]...] per line),
// VERIF_EXPLORE (number of random-order runs), VERIF_SEED.
func TestVProtoSharedObj(t *testing.T) {
	out := os.Getenv("VERIF_OUT")
	if out == "" {
		t.Skip("VERIF_OUT not set")
	}
	geti := func(k string, d int) int {
		if v, err := strconv.Atoi(os.Getenv(k)); err == nil {
			return v
		}
		return d
	}
	n := geti("VERIF_N", 3)
	seed := uint64(geti("VERIF_SEED", 1))
	forced, followed, nofollow := 0, 0, 0
	if sf := os.Getenv("VERIF_SCHEDULES"); sf != "" {
		f, err := os.Create(out + "/forced.ndjson")
		if err != nil {
			t.Fatal(err)
		}
		w := bufio.NewWriterSize(f, 1<<20)
		in, err := os.Open(sf)
		if err != nil {
			t.Fatal(err)
		}
		sc := bufio.NewScanner(in)
		sc.Buffer(make([]byte, 1<<20), 1<<24)
		for sc.Scan() {
			var sched [][]any
			if err := json.Unmarshal(sc.Bytes(), &sched); err != nil {
				t.Fatal(err)
			}
			r := vProtoSOOpen(n, w)
			r.emit(map[string]any{"op": "start", "n": n, "mode": "forced", "id": forced})
			r.observe()
			ok := true
			for _, st := range sched {
				p := int(st[1].(float64))
				if !r.step(p) {
					// the real providers cannot follow the schedule: provider p has nothing to do
					r.emit(map[string]any{"op": "nofollow", "p": p, "want": st[0]})
					ok = false
					break
				}
			}
			complete := r.complete()
			if ok && !complete {
				// the real providers have more store calls than the spec: release them in index order, logged
				for again := true; again; {
					again = false
					for p := 0; p < n; p++ {
						if r.pending[p] != nil {
							r.step(p)
							again = true
						}
					}
				}
				ok = false
			}
			r.emit(map[string]any{"op": "end", "complete": complete})
			r.close()
			forced++
			if ok {
				followed++
			} else {
				nofollow++
			}
		}
		in.Close()
		w.Flush()
		f.Close()
	}
	explore := geti("VERIF_EXPLORE", 0)
	distinct := map[string]bool{}
	if explore > 0 {
		f, err := os.Create(out + "/explore.ndjson")
		if err != nil {
			t.Fatal(err)
		}
		w := bufio.NewWriterSize(f, 1<<20)
		rng := rand.New(rand.NewPCG(seed, 41))
		for i := 0; i < explore; i++ {
			r := vProtoSOOpen(n, w)
			r.emit(map[string]any{"op": "start", "n": n, "mode": "explore", "id": i})
			r.observe()
			var order []byte
			for steps := 0; steps < 200; steps++ {
				var can []int
				for p := 0; p < n; p++ {
					if r.canAct(p) {
						can = append(can, p)
					}
				}
				if len(can) == 0 {
					break
				}
				p := can[rng.IntN(len(can))]
				order = append(order, byte('0'+p))
				r.step(p)
			}
			distinct[string(order)] = true
			r.emit(map[string]any{"op": "end", "complete": r.complete()})
			r.close()
		}
		w.Flush()
		f.Close()
	}
	st, _ := json.Marshal(map[string]any{"forced": forced, "followed": followed, "not_followed": nofollow, "explore_runs": explore,
		"explore_distinct_orders": len(distinct), "n": n})
	fmt.Printf("DRIVER-STATS %s\n", st)
	fmt.Printf("DRIVER-DONE\n")
}
