package cache

// C34 driver (engine "proto").
// TestVProtoCacheSeq (mode B): seeded random op sequences on a real one-shard
// cache with a capacity of a few values; after EVERY op the driver Peeks every
// key, reads Value.refs() of every value it holds, Cache.Size()/MaxSize(), and
// logs them.  The sequences include the read-turn protocol: a caller that got a
// valid ReadHandle may keep the turn over any number of later ops before it calls
// SetReadValue / SetReadError, and meanwhile other callers ask for the same block
// with a context that is already cancelled (they must come back with the
// context's error), followed by Delete / EvictFile / Set of that block.
// TestVProtoCacheRS (mode C): TLC-generated schedules of
// Arrive/ReadOK/ReadErr/Cancel (a waiter's context is cancelled)/Delete forced
// onto real GetWithReadHandle callers; the block read (the time between
// obtaining a valid ReadHandle and SetReadValue / SetReadError) is the gate.
// TLC (CacheTrace.tla) judges both.

import (
	"bufio"
	"context"
	"encoding/binary"
	"encoding/json"
	"fmt"
	"math/rand/v2"
	"os"
	"sort"
	"strconv"
	"time"

	"github.com/cockroachdb/errors"
	"github.com/cockroachdb/pebble/internal/base"
	"testing"
)

const vProtoCaMaxK = 12 // 4 handle instances x 3 (file, offset) slots

var vProtoCaSlots = [3][2]uint64{{1, 0}, {1, 1}, {2, 0}} // (file, offset)

func vProtoCaAlloc(id, size int) *Value {
	v := Alloc(size)
	b := v.RawBuffer()
	for i := range b {
		b[i] = byte(id)
	}
	binary.LittleEndian.PutUint32(b, uint32(id))
	return v
}

func vProtoCaID(v *Value) int {
	b := v.RawBuffer()
	if len(b) < 8 {
		return -1
	}
	id := int(binary.LittleEndian.Uint32(b))
	if b[len(b)-1] != byte(id) { // canary: the tail still carries the id
		return -2
	}
	return id
}

type vProtoCaSeq struct {
	c       *Cache
	h       [4]*Handle // handle instances; nil = not opened yet or closed
	opened  int
	held    map[int][]*Value
	nextID  int
	resv    []func()
	w       *bufio.Writer
	events  int
	hits    int
	evicted int
	prev    [vProtoCaMaxK]int
	pend    map[int]ReadHandle // key -> read turn obtained and not yet resolved
	focus   int                // key of the most recent read-handle op, 0 = none
	// stats
	rhTurnsKept, rhCancelledWaits, rhCancelledOther, rhResolvedLate, rhAfterInvalidate, rhCancelIssued int
	invalidated                                                                                        map[int]bool // keys invalidated since a cancelled wait
}

func (s *vProtoCaSeq) observe(ev map[string]any) {
	present := make([]int, vProtoCaMaxK)
	for hi := 0; hi < 4; hi++ {
		if s.h[hi] == nil {
			continue
		}
		for si, fo := range vProtoCaSlots {
			if v := s.h[hi].Peek(base.DiskFileNum(fo[0]), fo[1], base.MakeLevel(0), CategoryHidden); v != nil {
				present[hi*3+si] = vProtoCaID(v)
				v.Release()
			}
		}
	}
	held := [][2]int{}
	ids := []int{}
	for id, vs := range s.held {
		if len(vs) > 0 {
			ids = append(ids, id)
		}
	}
	sort.Ints(ids)
	for _, id := range ids {
		held = append(held, [2]int{id, int(s.held[id][0].refs())})
	}
	for k := range present {
		if s.prev[k] != 0 && present[k] == 0 {
			s.evicted++
		}
		s.prev[k] = present[k]
	}
	ev["present"] = present
	ev["held"] = held
	ev["size"] = s.c.Size()
	ev["max"] = s.c.MaxSize()
	ev["resv"] = len(s.resv)
	b, err := json.Marshal(ev)
	if err != nil {
		panic(err)
	}
	s.w.Write(b)
	s.w.WriteByte('\n')
	s.w.Flush() // a use-after-free may kill the process: keep what was observed so far
	s.events++
}

func vProtoCaGeti(k string, d int) int {
	if v, err := strconv.Atoi(os.Getenv(k)); err == nil {
		return v
	}
	return d
}

// TestVProtoCacheSeq: VERIF_OUT, VERIF_SEED, VERIF_SEQS, VERIF_STEPS
func TestVProtoCacheSeq(t *testing.T) {
	out := os.Getenv("VERIF_OUT")
	if out == "" {
		t.Skip("VERIF_OUT not set")
	}
	seed, seqs, steps := vProtoCaGeti("VERIF_SEED", 1), vProtoCaGeti("VERIF_SEQS", 40), vProtoCaGeti("VERIF_STEPS", 120)
	f, err := os.Create(out + "/cache_seq.ndjson")
	if err != nil {
		t.Fatal(err)
	}
	w := bufio.NewWriterSize(f, 1<<20)
	events, hits, evicted := 0, 0, 0
	turnsKept, cancelledWaits, cancelledOther, resolvedLate, afterInval, cancelIssued := 0, 0, 0, 0, 0, 0
	for q := 0; q < seqs; q++ {
		rng := rand.New(rand.NewPCG(uint64(seed), uint64(q)))
		s := &vProtoCaSeq{c: NewWithShards(int64(3000+1000*(q%3)), 1), held: map[int][]*Value{}, nextID: 1, w: w,
			pend: map[int]ReadHandle{}, invalidated: map[int]bool{}}
		s.observe(map[string]any{"op": "newcache", "seq": q})
		openH := func() {
			if s.opened < 4 {
				s.h[s.opened] = s.c.NewHandle()
				s.opened++
				s.observe(map[string]any{"op": "newh"})
			}
		}
		openH()
		live := func() []int {
			var r []int
			for i, h := range s.h {
				if h != nil {
					r = append(r, i)
				}
			}
			return r
		}
		for st := 0; st < steps; st++ {
			lv := live()
			if len(lv) == 0 {
				if s.opened >= 4 {
					break
				}
				openH()
				continue
			}
			hi := lv[rng.IntN(len(lv))]
			si := rng.IntN(3)
			// locality: half of the ops go to the block of the most recent read-handle op
			if s.focus != 0 && s.h[(s.focus-1)/3] != nil && rng.IntN(2) == 0 {
				hi, si = (s.focus-1)/3, (s.focus-1)%3
			}
			fo := vProtoCaSlots[si]
			k := hi*3 + si + 1
			h := s.h[hi]
			// resolve the read turn held for key kk: SetReadValue (3 of 4) or SetReadError
			resolve := func(kk int, forceErr bool) {
				rh := s.pend[kk]
				delete(s.pend, kk)
				if forceErr || rng.IntN(4) == 0 {
					rh.SetReadError(errors.New("verif: injected read error"))
					s.observe(map[string]any{"op": "rherr", "k": kk})
				} else {
					id := s.nextID
					s.nextID++
					vsz := 700 + rng.IntN(900)
					v := vProtoCaAlloc(id, vsz)
					rh.SetReadValue(v)
					s.held[id] = append(s.held[id], v)
					s.observe(map[string]any{"op": "rhset", "k": kk, "id": id, "vsize": vsz})
				}
			}
			pendKeys := func() []int {
				var ks []int
				for kk := range s.pend {
					ks = append(ks, kk)
				}
				sort.Ints(ks)
				return ks
			}
			switch x := rng.IntN(100); {
			case x < 24: // Set
				id := s.nextID
				s.nextID++
				vsz := 700 + rng.IntN(900)
				v := vProtoCaAlloc(id, vsz)
				h.Set(base.DiskFileNum(fo[0]), fo[1], v)
				v.Release()
				if s.invalidated[k] {
					delete(s.invalidated, k)
				}
				s.observe(map[string]any{"op": "set", "k": k, "id": id, "vsize": vsz})
			case x < 46: // Get (keep the reference)
				res := 0
				if v := h.Get(base.DiskFileNum(fo[0]), fo[1], base.MakeLevel(0), CategorySSTableData); v != nil {
					res = vProtoCaID(v)
					s.held[res] = append(s.held[res], v)
					s.hits++
				}
				s.observe(map[string]any{"op": "get", "k": k, "res": res})
			case x < 58: // release one held reference
				var ids []int
				for id, vs := range s.held {
					if len(vs) > 0 {
						ids = append(ids, id)
					}
				}
				if len(ids) == 0 {
					continue
				}
				sort.Ints(ids)
				id := ids[rng.IntN(len(ids))]
				vs := s.held[id]
				vs[len(vs)-1].Release()
				s.held[id] = vs[:len(vs)-1]
				s.observe(map[string]any{"op": "rel", "id": id})
			case x < 66:
				h.Delete(base.DiskFileNum(fo[0]), fo[1])
				if _, ok := s.invalidated[k]; ok {
					s.invalidated[k] = true
				}
				s.observe(map[string]any{"op": "del", "k": k})
			case x < 72:
				h.EvictFile(base.DiskFileNum(fo[0]))
				ks := []int{}
				for sj, fo2 := range vProtoCaSlots {
					if fo2[0] == fo[0] {
						ks = append(ks, hi*3+sj+1)
						if _, ok := s.invalidated[hi*3+sj+1]; ok {
							s.invalidated[hi*3+sj+1] = true
						}
					}
				}
				s.observe(map[string]any{"op": "evictfile", "ks": ks})
			case x < 75: // close the handle after evicting its files, as the file cache does
				// (entries of a closed handle cannot be observed through the API, so they are evicted first to keep
				// the logged refcounts exact); read turns still held on the handle are given up first
				for _, kk := range pendKeys() {
					if (kk-1)/3 == hi {
						resolve(kk, true)
					}
				}
				h.EvictFile(1)
				h.EvictFile(2)
				h.Close()
				s.h[hi] = nil
				s.observe(map[string]any{"op": "closeh", "ks": []int{hi*3 + 1, hi*3 + 2, hi*3 + 3}})
			case x < 79:
				openH()
			case x < 82:
				if len(s.resv) < 2 {
					s.resv = append(s.resv, s.c.Reserve(500+rng.IntN(1500)))
					s.observe(map[string]any{"op": "reserve"})
				}
			case x < 85:
				if len(s.resv) > 0 {
					s.resv[len(s.resv)-1]()
					s.resv = s.resv[:len(s.resv)-1]
					s.observe(map[string]any{"op": "unreserve"})
				}
			case x < 91 && len(s.pend) > 0: // the holder of a read turn finishes its read
				ks := pendKeys()
				kk := ks[rng.IntN(len(ks))]
				s.rhResolvedLate++
				s.focus = kk
				resolve(kk, false)
			default: // GetWithReadHandle
				// While a read turn is held for this block, a caller with a live context would wait for it: such callers
				// come with a context that is already cancelled (also 1 in 4 of the others: the context then plays no role).
				_, turnHeld := s.pend[k]
				cancelled := turnHeld || rng.IntN(4) == 0
				ctx := context.Background()
				if cancelled {
					c2, cancel := context.WithCancel(ctx)
					cancel()
					ctx = c2
				}
				if turnHeld {
					s.rhCancelIssued++
				}
				cv, rh, _, _, _, err := h.GetWithReadHandle(ctx, base.DiskFileNum(fo[0]), fo[1], base.MakeLevel(0), CategorySSTableData)
				res := 0
				if cv != nil {
					res = vProtoCaID(cv)
					s.held[res] = append(s.held[res], cv)
					s.hits++
				}
				if err != nil {
					if turnHeld {
						s.rhCancelledWaits++
						s.invalidated[k] = false
					} else {
						s.rhCancelledOther++
					}
				}
				if s.invalidated[k] {
					s.rhAfterInvalidate++
					delete(s.invalidated, k)
				}
				s.focus = k
				s.observe(map[string]any{"op": "rhget", "k": k, "res": res, "turn": rh.Valid(), "cancelled": cancelled, "err": err != nil})
				if rh.Valid() {
					s.pend[k] = rh
					if rng.IntN(2) == 0 {
						resolve(k, false)
					} else {
						s.rhTurnsKept++
					}
				}
			}
		}
		// give up the read turns still held
		for kk, rh := range s.pend {
			rh.SetReadError(errors.New("verif: end of sequence"))
			delete(s.pend, kk)
		}
		// clean up: release everything
		for id, vs := range s.held {
			for _, v := range vs {
				v.Release()
			}
			delete(s.held, id)
		}
		for _, r := range s.resv {
			r()
		}
		for i, h := range s.h {
			if h != nil {
				h.Close()
				s.h[i] = nil
			}
		}
		s.c.Unref()
		events += s.events
		hits += s.hits
		evicted += s.evicted
		turnsKept += s.rhTurnsKept
		cancelledWaits += s.rhCancelledWaits
		cancelledOther += s.rhCancelledOther
		resolvedLate += s.rhResolvedLate
		afterInval += s.rhAfterInvalidate
		cancelIssued += s.rhCancelIssued
	}
	w.Flush()
	f.Close()
	st, _ := json.Marshal(map[string]any{"seq_sequences": seqs, "seq_events": events, "seq_hits": hits, "seq_evictions_observed": evicted,
		"seq_read_turns_kept": turnsKept, "seq_cancelled_ctx_while_turn_held": cancelIssued, "seq_cancelled_waits": cancelledWaits, "seq_cancelled_ctx_errors_without_wait": cancelledOther,
		"seq_read_turns_resolved_later": resolvedLate, "seq_rhget_after_cancelled_wait_and_invalidation": afterInval})
	fmt.Printf("DRIVER-STATS %s\n", st)
	fmt.Printf("DRIVER-DONE\n")
}

// ---------------------------------------------------------------------------------------------
// mode C: read shard

type vProtoCaRSEvent struct {
	r    int
	code int // value id received, -3 = GetWithReadHandle error; 0 with turn = got the read turn
	turn bool
	rh   ReadHandle
}

type vProtoCaRS struct {
	c       *Cache
	h       *Handle
	ev      chan vProtoCaRSEvent
	started map[int]bool
	done    map[int]bool
	turn    int
	rh      ReadHandle
	valueID int // id set by a successful read (then new arrivals hit)
	nextID  int
	w       *bufio.Writer
	label   map[int]int                // goroutine number -> reader label used in the log (waiters are interchangeable, see relabel)
	cancel  map[int]context.CancelFunc // goroutine number -> cancels that caller's context
}

// relabel: which of several blocked waiters takes the turn after a failed read is the runtime's choice, while the
// schedule names one.  Waiters of one block are indistinguishable, so the labels of the named waiter and of the
// real winner are swapped.
func (s *vProtoCaRS) relabel(want int) {
	if s.turn == 0 || s.turn == want || !s.started[want] || s.done[want] {
		return
	}
	var gw, gt int
	for g, l := range s.label {
		if l == want {
			gw = g
		}
		if l == s.turn {
			gt = g
		}
	}
	s.label[gw], s.label[gt] = s.turn, want
	s.turn = want
}

func (s *vProtoCaRS) emit(ev map[string]any) {
	b, err := json.Marshal(ev)
	if err != nil {
		panic(err)
	}
	s.w.Write(b)
	s.w.WriteByte('\n')
}

func (s *vProtoCaRS) blocked() []int {
	b := []int{}
	for r := range s.started {
		if !s.done[r] && r != s.turn {
			b = append(b, r)
		}
	}
	sort.Ints(b)
	return b
}

func (s *vProtoCaRS) start(r int) {
	s.started[r] = true
	s.label[r] = r
	ctx, cancel := context.WithCancel(context.Background())
	s.cancel[r] = cancel
	go func() {
		cv, rh, _, _, _, err := s.h.GetWithReadHandle(ctx, 1, 0, base.MakeLevel(0), CategorySSTableData)
		switch {
		case err != nil:
			s.ev <- vProtoCaRSEvent{r: r, code: -3}
		case cv != nil:
			id := vProtoCaID(cv)
			cv.Release()
			s.ev <- vProtoCaRSEvent{r: r, code: id}
		default:
			s.ev <- vProtoCaRSEvent{r: r, turn: true, rh: rh}
		}
	}()
}

// collect waits for up to `want` reader events (each within `each`), then drains stragglers briefly.
func (s *vProtoCaRS) collect(want int, each time.Duration) [][2]int {
	rets := [][2]int{}
	handle := func(e vProtoCaRSEvent) {
		e.r = s.label[e.r]
		if e.turn {
			s.turn = e.r
			s.rh = e.rh
			return
		}
		s.done[e.r] = true
		rets = append(rets, [2]int{e.r, e.code})
	}
	for i := 0; i < want; i++ {
		select {
		case e := <-s.ev:
			handle(e)
		case <-time.After(each):
			i = want
		}
	}
	for {
		select {
		case e := <-s.ev:
			handle(e)
			continue
		case <-time.After(300 * time.Microsecond):
		}
		break
	}
	sort.Slice(rets, func(i, j int) bool { return rets[i][0] < rets[j][0] })
	return rets
}

// waitBlocked waits until `n` callers hold the read entry of the key (in-package view), i.e. the new arrival is inside
// waitForReadPermissionOrHandle (or about to be: it can only ever see the state it would see as a waiter).
func (s *vProtoCaRS) waitBlocked(n int) {
	k := makeKey(s.h.id, 1, 0)
	rs := &s.c.getShard(k).readShard
	for i := 0; i < 20000; i++ {
		rs.mu.Lock()
		e, ok := rs.mu.readMap.Get(k)
		cnt := int32(0)
		if ok {
			cnt = e.refCount
		}
		rs.mu.Unlock()
		if int(cnt) >= n {
			return
		}
		time.Sleep(20 * time.Microsecond)
	}
}

func (s *vProtoCaRS) step(act string, r int, nextTurn int, notTurn map[int]bool) bool {
	switch act {
	case "Arrive":
		if s.started[r] {
			return false
		}
		willBlock := s.turn != 0 && s.valueID == 0
		s.start(r)
		var rets [][2]int
		if willBlock {
			s.waitBlocked(1 + len(s.blocked()))
			rets = s.collect(0, 0)
		} else {
			rets = s.collect(1, 2*time.Second)
		}
		s.emit(map[string]any{"op": "arrive", "r": r, "rets": rets, "turn": s.turn, "blocked": s.blocked()})
	case "ReadOK":
		if s.turn != r {
			return false
		}
		id := s.nextID
		s.nextID++
		v := vProtoCaAlloc(id, 64)
		nb := len(s.blocked())
		rh := s.rh
		s.turn, s.rh = 0, ReadHandle{}
		s.done[r] = true
		rh.SetReadValue(v)
		v.Release()
		s.valueID = id
		rets := append([][2]int{{r, id}}, s.collect(nb, 2*time.Second)...)
		sort.Slice(rets, func(i, j int) bool { return rets[i][0] < rets[j][0] })
		s.emit(map[string]any{"op": "readok", "r": r, "id": id, "rets": rets, "turn": s.turn, "blocked": s.blocked()})
	case "ReadErr":
		if s.turn != r {
			return false
		}
		nb := len(s.blocked())
		rh := s.rh
		s.turn, s.rh = 0, ReadHandle{}
		s.done[r] = true
		rh.SetReadError(errors.New("verif: injected read error"))
		want := 0
		if nb > 0 {
			want = 1
		}
		rets := append([][2]int{{r, -1}}, s.collect(want, 2*time.Second)...)
		if nextTurn == 0 && notTurn[s.turn] {
			// the schedule cancels the wait of the reader that really got the turn: it means one of the other waiters
			for _, b := range s.blocked() {
				if !notTurn[b] {
					nextTurn = b
					break
				}
			}
		}
		if nextTurn != 0 {
			s.relabel(nextTurn)
		}
		s.emit(map[string]any{"op": "readerr", "r": r, "rets": rets, "turn": s.turn, "blocked": s.blocked()})
	case "Cancel": // the context of the blocked caller labelled r is cancelled
		if !s.started[r] || s.done[r] || s.turn == r {
			return false
		}
		for g, l := range s.label {
			if l == r {
				s.cancel[g]()
			}
		}
		rets := s.collect(1, 2*time.Second)
		s.emit(map[string]any{"op": "cancel", "r": r, "rets": rets, "turn": s.turn, "blocked": s.blocked()})
	case "Delete": // the block is invalidated
		s.h.Delete(1, 0)
		s.valueID = 0
		rets := s.collect(0, 0)
		s.emit(map[string]any{"op": "rdel", "rets": rets, "turn": s.turn, "blocked": s.blocked()})
	default:
		return false
	}
	return true
}

// TestVProtoCacheRS: VERIF_OUT, VERIF_SCHEDULES, VERIF_READERS
func TestVProtoCacheRS(t *testing.T) {
	out := os.Getenv("VERIF_OUT")
	sf := os.Getenv("VERIF_SCHEDULES")
	if out == "" || sf == "" {
		t.Skip("VERIF_OUT / VERIF_SCHEDULES not set")
	}
	readers := vProtoCaGeti("VERIF_READERS", 3)
	f, err := os.Create(out + "/cache_rs.ndjson")
	if err != nil {
		t.Fatal(err)
	}
	w := bufio.NewWriterSize(f, 1<<20)
	in, err := os.Open(sf)
	if err != nil {
		t.Fatal(err)
	}
	sc := bufio.NewScanner(in)
	sc.Buffer(make([]byte, 1<<20), 1<<24)
	n, followed, stuck := 0, 0, 0
	t0 := time.Now()
	for sc.Scan() {
		var sched [][]any
		if err := json.Unmarshal(sc.Bytes(), &sched); err != nil {
			t.Fatal(err)
		}
		c := NewWithShards(1<<20, 1)
		s := &vProtoCaRS{c: c, h: c.NewHandle(), ev: make(chan vProtoCaRSEvent, 16), started: map[int]bool{}, done: map[int]bool{}, nextID: 1, w: w, label: map[int]int{}, cancel: map[int]context.CancelFunc{}}
		s.emit(map[string]any{"op": "rstart", "readers": readers, "id": n})
		ok := true
		for i, st := range sched {
			act, _ := st[0].(string)
			r := int(st[1].(float64))
			if act != "Arrive" && act != "ReadOK" && act != "ReadErr" && act != "Cancel" && act != "Delete" {
				continue
			}
			nextTurn := 0 // the reader the schedule names as the next turn holder
			notTurn := map[int]bool{}
			for _, st2 := range sched[i+1:] {
				a2, _ := st2[0].(string)
				if a2 == "ReadOK" || a2 == "ReadErr" {
					nextTurn = int(st2[1].(float64))
					break
				}
				if a2 == "Cancel" { // a reader whose wait is cancelled next is not the turn holder
					notTurn[int(st2[1].(float64))] = true
				}
			}
			if !s.step(act, r, nextTurn, notTurn) {
				s.emit(map[string]any{"op": "nofollow", "r": r, "want": act})
				ok = false
				break
			}
		}
		// drain: fail every outstanding turn until nobody is left inside GetWithReadHandle
		for i := 0; i < 20 && (s.turn != 0 || len(s.blocked()) > 0); i++ {
			if s.turn == 0 {
				// callers are inside GetWithReadHandle but nobody holds the read turn: they can never return
				s.emit(map[string]any{"op": "stuck", "blocked": s.blocked()})
				stuck++
				break
			}
			rh := s.rh
			s.done[s.turn] = true
			s.turn, s.rh = 0, ReadHandle{}
			rh.SetReadError(errors.New("verif: drain"))
			s.collect(1, 500*time.Millisecond)
		}
		if stuck >= 3 || time.Since(t0) > 90*time.Second {
			break
		}
		if s.turn == 0 && len(s.blocked()) == 0 {
			s.h.Close()
			c.Unref()
		}
		for _, cf := range s.cancel {
			cf()
		}
		n++
		if ok {
			followed++
		}
	}
	in.Close()
	w.Flush()
	f.Close()
	st, _ := json.Marshal(map[string]any{"rs_schedules": n, "rs_followed": followed, "rs_stuck": stuck})
	fmt.Printf("DRIVER-STATS %s\n", st)
	fmt.Printf("DRIVER-DONE\n")
}
