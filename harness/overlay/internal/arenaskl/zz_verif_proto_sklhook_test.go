//go:build verif && verifhooks

package arenaskl

// C30 driver (engine "proto"), mode C: needs internal/verifhook (hook patch
// /verif/hooks/proto.patch).  K goroutines each run one Skiplist.Add with a
// forced tower height; every goroutine parks at each verifhook.Point (one per
// atomic step of findSplice / addInternal).  The scheduler releases one
// goroutine at a time, following a TLC-generated schedule (a path of
// Skiplist.tla's state graph) or a seeded random order, and after every
// released step logs the site the goroutine was parked at and the real
// per-level forward/backward chains and list height.  TLC (SkiplistTrace.tla,
// Strict) replays the same steps on the model and compares; the run's return
// codes and quiescent traversals are judged as in the hook-free driver.

import (
	"bufio"
	"bytes"
	"encoding/json"
	"fmt"
	"math/rand/v2"
	"os"
	"runtime"
	"strconv"
	"strings"
	"sync"
	"testing"

	"github.com/cockroachdb/pebble/internal/verifhook"
)

type vProtoSkhEvent struct {
	t    int
	site string // "" = Add returned
	res  int
}

type vProtoSkhThread struct {
	id, height int
	release    chan struct{}
}

type vProtoSkhSched struct {
	threads sync.Map // goroutine id -> *vProtoSkhThread
	ev      chan vProtoSkhEvent
}

func vProtoSkhGoid() int64 {
	var buf [64]byte
	n := runtime.Stack(buf[:], false)
	// "goroutine 123 ["
	s := string(buf[:n])
	s = strings.TrimPrefix(s, "goroutine ")
	if i := strings.IndexByte(s, ' '); i > 0 {
		s = s[:i]
	}
	id, _ := strconv.ParseInt(s, 10, 64)
	return id
}

func (sc *vProtoSkhSched) point(site string) {
	v, ok := sc.threads.Load(vProtoSkhGoid())
	if !ok {
		return
	}
	th := v.(*vProtoSkhThread)
	sc.ev <- vProtoSkhEvent{t: th.id, site: site}
	<-th.release
}

func (sc *vProtoSkhSched) value(site string, def int) int {
	v, ok := sc.threads.Load(vProtoSkhGoid())
	if !ok {
		return def
	}
	if site == "height" {
		return v.(*vProtoSkhThread).height
	}
	return def
}

type vProtoSkhRun struct {
	sc      *vProtoSkhSched
	l       *Skiplist
	k       int
	th      []*vProtoSkhThread
	pending []string // site each thread is parked at ("" = finished)
	fin     []bool
	res     []int
	order   []int // completion order
	keys    []int
	levels  int
	w       *bufio.Writer
}

func (r *vProtoSkhRun) emit(ev map[string]any) {
	b, err := json.Marshal(ev)
	if err != nil {
		panic(err)
	}
	r.w.Write(b)
	r.w.WriteByte('\n')
}

func (r *vProtoSkhRun) chains() (fw, bw [][]int) {
	for i := 0; i < r.levels; i++ {
		f, b := []int{}, []int{}
		for n := r.l.getNext(r.l.head, i); n != r.l.tail && len(f) < r.k+2; n = r.l.getNext(n, i) {
			f = append(f, vProtoSkRank(n.getKeyBytes(r.l.arena), n.keyTrailer))
		}
		for n := r.l.getPrev(r.l.tail, i); n != r.l.head && len(b) < r.k+2; n = r.l.getPrev(n, i) {
			b = append(b, vProtoSkRank(n.getKeyBytes(r.l.arena), n.keyTrailer))
		}
		fw = append(fw, f)
		bw = append(bw, b)
	}
	return
}

// wait for the next event of thread t (it is the only one running)
func (r *vProtoSkhRun) wait(t int) {
	ev := <-r.sc.ev
	if ev.t != t {
		panic(fmt.Sprintf("event from thread %d while %d runs", ev.t, t))
	}
	if ev.site == "" {
		r.fin[t] = true
		r.res[t] = ev.res
		r.pending[t] = ""
		r.order = append(r.order, t)
		return
	}
	r.pending[t] = ev.site
}

func vProtoSkhStart(sc *vProtoSkhSched, heights, keys []int, levels int, w *bufio.Writer) *vProtoSkhRun {
	k := len(heights)
	r := &vProtoSkhRun{sc: sc, l: NewSkiplist(newArena(1<<16), bytes.Compare), k: k, pending: make([]string, k+1), fin: make([]bool, k+1),
		res: make([]int, k+1), keys: keys, levels: levels, w: w, th: make([]*vProtoSkhThread, k+1)}
	for t := 1; t <= k; t++ {
		th := &vProtoSkhThread{id: t, height: heights[t-1], release: make(chan struct{})}
		r.th[t] = th
		started := make(chan struct{})
		go func(t int) {
			id := vProtoSkhGoid()
			sc.threads.Store(id, th)
			close(started)
			err := r.l.Add(vProtoSkKey(keys[t-1]), []byte("v"))
			sc.threads.Delete(id)
			res := 1
			if err == ErrRecordExists {
				res = 0
			} else if err != nil {
				res = -1
			}
			sc.ev <- vProtoSkhEvent{t: t, res: res}
		}(t)
		<-started
		r.wait(t) // parked at its first Point
	}
	return r
}

var vProtoSkhResName = map[int]string{1: "ok", 0: "exists", -1: "error"}

// step releases thread t once.  false when t has already finished.
func (r *vProtoSkhRun) step(t int) bool {
	if r.fin[t] {
		return false
	}
	site := r.pending[t]
	r.th[t].release <- struct{}{}
	r.wait(t)
	fw, bw := r.chains()
	r.emit(map[string]any{"op": "step", "t": t, "site": site, "fw": fw, "bw": bw, "hgt": int(r.l.Height())})
	if r.fin[t] {
		r.emit(map[string]any{"op": "ret", "t": t, "res": vProtoSkhResName[r.res[t]]})
	}
	return true
}

func (r *vProtoSkhRun) finish() {
	// drain in index order (only needed when a forced schedule was not followed to the end)
	for t := 1; t <= r.k; t++ {
		for !r.fin[t] {
			r.step(t)
		}
	}
	list := [][5]int{}
	for t := 1; t <= r.k; t++ {
		tick := 0
		for i, o := range r.order {
			if o == t {
				tick = r.k + 1 + i
			}
		}
		list = append(list, [5]int{t, r.keys[t-1], r.res[t], t, tick})
	}
	r.emit(map[string]any{"op": "adds", "round": 0, "testing": false, "list": list})
	lv, blv := vProtoSkLevels(r.l)
	r.emit(map[string]any{"op": "final", "fwd": vProtoSkScanOnce(r.l, true, 1<<20), "bwd": vProtoSkScanOnce(r.l, false, 1<<20), "lv": lv, "blv": blv})
}

var vProtoSkhSite = map[string]string{"FindTop": "findtop", "FindLevel": "find", "NewNode": "newnode", "ReadNP": "readNP", "ReadPN": "readPN",
	"Help": "help", "CasNext": "casNext", "CasPrev": "casPrev", "Refind": "refind", "CasPrevFirst": "casPrevFirst"}

func vProtoSkhInts(s string) []int {
	var r []int
	for _, x := range strings.Split(s, ",") {
		v, err := strconv.Atoi(strings.TrimSpace(x))
		if err != nil {
			panic(err)
		}
		r = append(r, v)
	}
	return r
}

// TestVProtoSkiplistHooks: VERIF_OUT, VERIF_SK_HEIGHTS, VERIF_SK_KEYS, VERIF_SK_LEVELS, VERIF_SCHEDULES, VERIF_EXPLORE, VERIF_SEED
func TestVProtoSkiplistHooks(t *testing.T) {
	out := os.Getenv("VERIF_OUT")
	if out == "" {
		t.Skip("VERIF_OUT not set")
	}
	if !verifhook.Enabled {
		t.Fatal("verifhook not enabled")
	}
	heights := vProtoSkhInts(os.Getenv("VERIF_SK_HEIGHTS"))
	keys := vProtoSkhInts(os.Getenv("VERIF_SK_KEYS"))
	levels, _ := strconv.Atoi(os.Getenv("VERIF_SK_LEVELS"))
	seed, _ := strconv.Atoi(os.Getenv("VERIF_SEED"))
	sc := &vProtoSkhSched{ev: make(chan vProtoSkhEvent)}
	verifhook.Install(sc.point, sc.value)
	defer verifhook.Install(nil, nil)
	forced, followed := 0, 0
	if sf := os.Getenv("VERIF_SCHEDULES"); sf != "" {
		f, err := os.Create(out + "/sklhook_forced.ndjson")
		if err != nil {
			t.Fatal(err)
		}
		w := bufio.NewWriterSize(f, 1<<20)
		in, err := os.Open(sf)
		if err != nil {
			t.Fatal(err)
		}
		scn := bufio.NewScanner(in)
		scn.Buffer(make([]byte, 1<<20), 1<<24)
		for scn.Scan() {
			var sched [][]any
			if err := json.Unmarshal(scn.Bytes(), &sched); err != nil {
				t.Fatal(err)
			}
			r := vProtoSkhStart(sc, heights, keys, levels, w)
			r.emit(map[string]any{"op": "sstart", "k": len(heights), "mode": "forced", "id": forced})
			ok := true
			for _, st := range sched {
				th := int(st[1].(float64))
				if !r.step(th) {
					r.emit(map[string]any{"op": "nofollow", "t": th, "want": st[0]})
					ok = false
					break
				}
			}
			for th := 1; th <= r.k; th++ {
				if !r.fin[th] {
					ok = false
				}
			}
			r.finish()
			forced++
			if ok {
				followed++
			}
		}
		in.Close()
		w.Flush()
		f.Close()
	}
	explore, _ := strconv.Atoi(os.Getenv("VERIF_EXPLORE"))
	distinct := map[string]bool{}
	if explore > 0 {
		f, err := os.Create(out + "/sklhook_explore.ndjson")
		if err != nil {
			t.Fatal(err)
		}
		w := bufio.NewWriterSize(f, 1<<20)
		rng := rand.New(rand.NewPCG(uint64(seed), 30))
		for i := 0; i < explore; i++ {
			r := vProtoSkhStart(sc, heights, keys, levels, w)
			r.emit(map[string]any{"op": "sstart", "k": len(heights), "mode": "explore", "id": i})
			var order []byte
			// phases of stickiness make long runs of one thread as likely as fine interleavings
			stick := rng.IntN(4)
			last := 0
			for {
				var can []int
				for th := 1; th <= r.k; th++ {
					if !r.fin[th] {
						can = append(can, th)
					}
				}
				if len(can) == 0 {
					break
				}
				th := can[rng.IntN(len(can))]
				if last != 0 && !r.fin[last] && rng.IntN(4) < stick {
					th = last
				}
				last = th
				order = append(order, byte('0'+th))
				r.step(th)
			}
			distinct[string(order)] = true
			r.finish()
		}
		w.Flush()
		f.Close()
	}
	st, _ := json.Marshal(map[string]any{"hook_forced": forced, "hook_followed_to_the_end": followed, "hook_explore_runs": explore,
		"hook_explore_distinct_orders": len(distinct)})
	fmt.Printf("DRIVER-STATS %s\n", st)
	fmt.Printf("DRIVER-DONE\n")
}
