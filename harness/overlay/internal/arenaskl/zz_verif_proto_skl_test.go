package arenaskl

// C30 driver (engine "proto"), hook-free binding: real goroutines insert
// overlapping key sets into one Skiplist (with the package's own `testing`
// yield points switched on in half of the rounds) while reader goroutines
// traverse it forward and backward.  Recorded: every Add's return code with a
// start ticket and a completion ticket, every reader traversal with the
// tickets that bound it, and at quiescence the Iterator traversals plus every
// level's next/prev chain.  TLC (SkiplistTrace.tla) judges the record.

import (
	"bufio"
	"bytes"
	"encoding/json"
	"fmt"
	"math/rand/v2"
	"os"
	"strconv"
	"sync"
	"sync/atomic"
	"testing"

	"github.com/cockroachdb/pebble/internal/base"
)

// rank r <-> internal key: user key = r/2 (6 digits), seqnum 2 for even r, 1 for odd r
// (internal keys order by user key ascending, then trailer descending).
func vProtoSkKey(r int) base.InternalKey {
	seq := base.SeqNum(2 - r%2)
	return base.MakeInternalKey([]byte(fmt.Sprintf("%06d", r/2)), seq, base.InternalKeyKindSet)
}

func vProtoSkRank(uk []byte, trailer base.InternalKeyTrailer) int {
	n, err := strconv.Atoi(string(uk))
	if err != nil {
		return -1
	}
	seq := int(trailer >> 8)
	if seq != 1 && seq != 2 {
		return -1
	}
	return 2*n + (2 - seq)
}

type vProtoSkAdd struct{ t, k, res, st, tick int }

type vProtoSkScan struct {
	asc    bool
	seq    []int
	lo, hi int
}

func vProtoSkScanOnce(l *Skiplist, asc bool, limit int) []int {
	it := l.NewIter(base.DefaultSplit, nil, nil)
	defer it.Close()
	seq := []int{}
	if asc {
		for kv := it.First(); kv != nil && len(seq) < limit; kv = it.Next() {
			seq = append(seq, vProtoSkRank(kv.K.UserKey, kv.K.Trailer))
		}
	} else {
		for kv := it.Last(); kv != nil && len(seq) < limit; kv = it.Prev() {
			seq = append(seq, vProtoSkRank(kv.K.UserKey, kv.K.Trailer))
		}
	}
	return seq
}

func vProtoSkLevels(l *Skiplist) (lv, blv [][]int) {
	h := int(l.Height())
	for i := 0; i < h; i++ {
		f, b := []int{}, []int{}
		for n := l.getNext(l.head, i); n != l.tail && len(f) < 1<<20; n = l.getNext(n, i) {
			f = append(f, vProtoSkRank(n.getKeyBytes(l.arena), n.keyTrailer))
		}
		for n := l.getPrev(l.tail, i); n != l.head && len(b) < 1<<20; n = l.getPrev(n, i) {
			b = append(b, vProtoSkRank(n.getKeyBytes(l.arena), n.keyTrailer))
		}
		lv = append(lv, f)
		blv = append(blv, b)
	}
	return
}

// TestVProtoSkiplistExplore: VERIF_OUT, VERIF_SEED, VERIF_ROUNDS, VERIF_THREADS, VERIF_KEYS, VERIF_READERS
func TestVProtoSkiplistExplore(t *testing.T) {
	out := os.Getenv("VERIF_OUT")
	if out == "" {
		t.Skip("VERIF_OUT not set")
	}
	geti := func(k string, d int) int {
		if v, err := strconv.Atoi(os.Getenv(k)); err == nil {
			return v
		}
		return d
	}
	seed := uint64(geti("VERIF_SEED", 1))
	rounds, threads, nkeys, readers := geti("VERIF_ROUNDS", 50), geti("VERIF_THREADS", 6), geti("VERIF_KEYS", 120), geti("VERIF_READERS", 2)
	f, err := os.Create(out + "/skl_explore.ndjson")
	if err != nil {
		t.Fatal(err)
	}
	w := bufio.NewWriterSize(f, 1<<20)
	emit := func(ev map[string]any) {
		b, err := json.Marshal(ev)
		if err != nil {
			panic(err)
		}
		w.Write(b)
		w.WriteByte('\n')
	}
	totalAdds, totalScans, dupAdds, contended := 0, 0, 0, 0
	for round := 0; round < rounds; round++ {
		rng := rand.New(rand.NewPCG(seed, uint64(round)))
		l := NewSkiplist(newArena(4<<20), bytes.Compare)
		l.testing = round%2 == 0
		// key sets: every key has one owner thread; a third of the keys of odd threads are also given to a second odd thread (duplicates)
		per := make([][]int, threads)
		style := round % 3
		for k := 0; k < nkeys; k++ {
			var owner int
			switch style {
			case 0: // interleaved: neighbours belong to different threads
				owner = k % threads
			case 1: // random
				owner = rng.IntN(threads)
			default: // contiguous blocks
				owner = (k * threads / nkeys)
			}
			per[owner] = append(per[owner], k)
			// duplicates only among threads that call Skiplist.Add directly (odd threads): an Inserter's cached
			// splice has its own duplicate probe (TestVProtoSkiplistInserterProbe)
			if owner%2 == 1 && rng.IntN(3) == 0 {
				o2 := 2*rng.IntN(threads/2) + 1
				if o2 != owner && o2 < threads {
					per[o2] = append(per[o2], k)
				}
			}
		}
		for i := range per {
			if style != 2 || rng.IntN(2) == 0 {
				rng.Shuffle(len(per[i]), func(a, b int) { per[i][a], per[i][b] = per[i][b], per[i][a] })
			}
		}
		var startCtr, doneCtr atomic.Int64
		var stop atomic.Bool
		adds := make([][]vProtoSkAdd, threads)
		scans := make([][]vProtoSkScan, readers)
		var wg, rwg sync.WaitGroup
		begin := make(chan struct{})
		for i := 0; i < threads; i++ {
			wg.Add(1)
			go func(i int) {
				defer wg.Done()
				var ins Inserter
				useIns := i%2 == 0
				<-begin
				for _, k := range per[i] {
					st := int(startCtr.Add(1))
					var err error
					if useIns {
						err = ins.Add(l, vProtoSkKey(k), []byte("v"))
					} else {
						err = l.Add(vProtoSkKey(k), []byte("v"))
					}
					tick := int(doneCtr.Add(1))
					res := 1
					if err == ErrRecordExists {
						res = 0
					} else if err != nil {
						res = -1
					}
					adds[i] = append(adds[i], vProtoSkAdd{i, k, res, st, tick})
				}
			}(i)
		}
		for r := 0; r < readers; r++ {
			rwg.Add(1)
			go func(r int) {
				defer rwg.Done()
				<-begin
				for n := 0; !stop.Load() || n < 2; n++ {
					asc := (n+r)%2 == 0
					lo := int(doneCtr.Load())
					seq := vProtoSkScanOnce(l, asc, 1<<20)
					hi := int(startCtr.Load())
					if len(scans[r]) < 40 {
						scans[r] = append(scans[r], vProtoSkScan{asc, seq, lo, hi})
					} else if n%7 == 0 {
						scans[r][20+n%20] = vProtoSkScan{asc, seq, lo, hi}
					}
				}
			}(r)
		}
		close(begin)
		wg.Wait()
		stop.Store(true)
		rwg.Wait()
		list := [][5]int{}
		for i := range adds {
			for _, a := range adds[i] {
				list = append(list, [5]int{a.t, a.k, a.res, a.st, a.tick})
				if a.res == 0 {
					dupAdds++
				}
			}
		}
		totalAdds += len(list)
		emit(map[string]any{"op": "adds", "round": round, "testing": l.testing, "list": list})
		for r := range scans {
			for _, s := range scans[r] {
				emit(map[string]any{"op": "scan", "asc": s.asc, "seq": s.seq, "lo": s.lo, "hi": s.hi})
				totalScans++
				if s.lo > 0 && len(s.seq) < nkeys {
					contended++
				}
			}
		}
		lv, blv := vProtoSkLevels(l)
		emit(map[string]any{"op": "final", "fwd": vProtoSkScanOnce(l, true, 1<<20), "bwd": vProtoSkScanOnce(l, false, 1<<20), "lv": lv, "blv": blv})
	}
	w.Flush()
	f.Close()
	st, _ := json.Marshal(map[string]any{"rounds": rounds, "threads": threads, "keys": nkeys, "readers": readers, "adds": totalAdds,
		"adds_exists": dupAdds, "scans": totalScans, "scans_during_inserts": contended})
	fmt.Printf("DRIVER-STATS %s\n", st)
	fmt.Printf("DRIVER-DONE\n")
}

// TestVProtoSkiplistInserterProbe: sequential Adds through ONE Inserter (cached splice), every sequence of
// VERIF_PROBE_LEN adds over 3 keys.  Same record as a round of the concurrent driver, but with op names
// "padds" / "pfinal" so that TLC reports each rejected sequence instead of stopping at the first.
func TestVProtoSkiplistInserterProbe(t *testing.T) {
	out := os.Getenv("VERIF_OUT")
	if out == "" {
		t.Skip("VERIF_OUT not set")
	}
	ln := 4
	if v, err := strconv.Atoi(os.Getenv("VERIF_PROBE_LEN")); err == nil {
		ln = v
	}
	f, err := os.Create(out + "/skl_probe.ndjson")
	if err != nil {
		t.Fatal(err)
	}
	w := bufio.NewWriter(f)
	n := 1
	for i := 0; i < ln; i++ {
		n *= 3
	}
	for id := 0; id < n; id++ {
		l := NewSkiplist(newArena(1<<16), bytes.Compare)
		var ins Inserter
		list := [][5]int{}
		x := id
		for i := 0; i < ln; i++ {
			k := 2 * (x % 3) // ranks 0, 2, 4: distinct user keys
			x /= 3
			err := ins.Add(l, vProtoSkKey(k), []byte("v"))
			res := 1
			if err == ErrRecordExists {
				res = 0
			} else if err != nil {
				res = -1
			}
			list = append(list, [5]int{0, k, res, 2*i + 1, 2*i + 2})
		}
		lv, blv := vProtoSkLevels(l)
		for _, ev := range []map[string]any{
			{"op": "padds", "id": id, "list": list},
			{"op": "pfinal", "id": id, "fwd": vProtoSkScanOnce(l, true, 1<<20), "bwd": vProtoSkScanOnce(l, false, 1<<20), "lv": lv, "blv": blv},
		} {
			b, _ := json.Marshal(ev)
			w.Write(b)
			w.WriteByte('\n')
		}
	}
	w.Flush()
	f.Close()
	fmt.Printf("DRIVER-STATS {\"probe_sequences\": %d}\n", n)
	fmt.Printf("DRIVER-DONE\n")
}
