package inputsdrv

import (
	"encoding/binary"
	"encoding/json"
	"fmt"
	"io"
	"os"
	"sort"
	"testing"

	"github.com/cockroachdb/pebble/internal/base"
	"github.com/cockroachdb/pebble/internal/compact"
	"github.com/cockroachdb/pebble/internal/keyspan"
	"github.com/cockroachdb/pebble/internal/rangekey"
)

// Shapes shared with spec/CompactStream (field names are the TLA+ record fields).
type c17Pt struct {
	K int   `json:"k"`
	S int   `json:"s"`
	T int   `json:"t"`
	V []int `json:"v"`
	Z int   `json:"z"`
}
type c17Rd struct {
	A  int   `json:"a"`
	B  int   `json:"b"`
	Ss []int `json:"ss"`
}
type c17RkKey struct {
	S int   `json:"s"`
	T int   `json:"t"`
	X int   `json:"x"`
	V []int `json:"v"`
}
type c17Rk struct {
	A  int        `json:"a"`
	B  int        `json:"b"`
	Ks []c17RkKey `json:"ks"`
}
type c17In struct {
	Pts     []c17Pt `json:"pts"`
	Rds     []c17Rd `json:"rds"`
	Rks     []c17Rk `json:"rks"`
	Snaps   []int   `json:"snaps"`
	Elide   int     `json:"elide"`
	Inuse   []int   `json:"inuse"`
	Rkinuse []int   `json:"rkinuse"`
	Bottom  bool    `json:"bottom"`
}
type c17OutKey struct {
	K int   `json:"k"`
	S int   `json:"s"`
	T int   `json:"t"`
	V []int `json:"v"`
}
type c17Out struct {
	Seq []c17OutKey `json:"seq"`
	Rds []c17Rd     `json:"rds"`
	Rks []c17Rk     `json:"rks"`
	Err bool        `json:"err"`
	Msg string      `json:"msg"`
}

// catMerger: a merged value is the concatenation of its operands, oldest first.
type catMerger struct{ buf []byte }

func (m *catMerger) MergeNewer(v []byte) error { m.buf = append(m.buf, v...); return nil }
func (m *catMerger) MergeOlder(v []byte) error {
	m.buf = append(append(make([]byte, 0, len(v)+len(m.buf)), v...), m.buf...)
	return nil
}
func (m *catMerger) Finish(bool) ([]byte, io.Closer, error) { return m.buf, nil, nil }

func c17Suffix(x int) []byte {
	if x == 0 {
		return nil
	}
	return []byte{'@', byte('0' + x)}
}
func c17SuffixRank(b []byte) int {
	if len(b) == 0 {
		return 0
	}
	return int(b[1] - '0')
}

func c17Fragment(spans []keyspan.Span) []keyspan.Span {
	sort.SliceStable(spans, func(i, j int) bool { return base.DefaultComparer.Compare(spans[i].Start, spans[j].Start) < 0 })
	var out []keyspan.Span
	f := keyspan.Fragmenter{Cmp: base.DefaultComparer.Compare, Format: base.DefaultComparer.FormatKey,
		Emit: func(s keyspan.Span) { out = append(out, s.Clone()) }}
	for _, s := range spans {
		f.Add(s)
	}
	f.Finish()
	return out
}

func c17Elision(on int, inuse []int) compact.TombstoneElision {
	if on == 0 {
		return compact.NoTombstoneElision()
	}
	var r []base.UserKeyBounds
	u := append([]int(nil), inuse...)
	sort.Ints(u)
	for _, k := range u {
		r = append(r, base.UserKeyBoundsInclusive(ukey(k), ukey(k)))
	}
	return compact.ElideTombstonesOutsideOf(r)
}

// c17Run feeds one input to the real compaction iterator and records everything it emits.
func c17Run(in *c17In) (out c17Out) {
	out = c17Out{Seq: []c17OutKey{}, Rds: []c17Rd{}, Rks: []c17Rk{}}
	defer func() {
		if r := recover(); r != nil {
			out.Err, out.Msg = true, fmt.Sprint("panic: ", r)
		}
	}()
	var kvs []base.InternalKV
	for _, p := range in.Pts {
		var val []byte
		switch base.InternalKeyKind(p.T) {
		case base.InternalKeyKindSet, base.InternalKeyKindMerge, base.InternalKeyKindSetWithDelete:
			val = idsToBytes(p.V)
		case base.InternalKeyKindDeleteSized:
			switch p.Z {
			case 1: // exact for a one-operand value: len(key) + len(value)
				val = binary.AppendUvarint(nil, 2)
			case 2:
				val = binary.AppendUvarint(nil, 9)
			}
		}
		kvs = append(kvs, base.InternalKV{K: base.MakeInternalKey(ukey(p.K), base.SeqNum(p.S), base.InternalKeyKind(p.T)),
			V: base.MakeInPlaceValue(val)})
	}
	var rds, rks []keyspan.Span
	for _, r := range in.Rds {
		s := keyspan.Span{Start: ukey(r.A), End: ukey(r.B)}
		for _, q := range r.Ss {
			s.Keys = append(s.Keys, keyspan.Key{Trailer: base.MakeTrailer(base.SeqNum(q), base.InternalKeyKindRangeDelete)})
		}
		rds = append(rds, s)
	}
	for _, r := range in.Rks {
		s := keyspan.Span{Start: ukey(r.A), End: ukey(r.B)}
		for _, k := range r.Ks {
			kk := keyspan.Key{Trailer: base.MakeTrailer(base.SeqNum(k.S), base.InternalKeyKind(k.T))}
			if base.InternalKeyKind(k.T) != base.InternalKeyKindRangeKeyDelete {
				kk.Suffix = c17Suffix(k.X)
			}
			if base.InternalKeyKind(k.T) == base.InternalKeyKindRangeKeySet {
				kk.Value = idsToBytes(k.V)
			}
			s.Keys = append(s.Keys, kk)
		}
		rks = append(rks, s)
	}
	var snaps compact.Snapshots
	for _, s := range in.Snaps {
		snaps = append(snaps, base.SeqNum(s))
	}
	cfg := compact.IterConfig{
		Comparer: base.DefaultComparer,
		Merge: func(key, value []byte) (base.ValueMerger, error) {
			return &catMerger{buf: append([]byte(nil), value...)}, nil
		},
		Snapshots:             snaps,
		TombstoneElision:      c17Elision(in.Elide, in.Inuse),
		RangeKeyElision:       c17Elision(in.Elide, in.Rkinuse),
		IsBottommostDataLayer: in.Bottom,
	}
	it := compact.NewIter(cfg, base.NewFakeIter(base.DefaultComparer, kvs),
		keyspan.NewIter(base.DefaultComparer.Compare, c17Fragment(rds)),
		keyspan.NewIter(base.DefaultComparer.Compare, c17Fragment(rks)))
	for kv := it.First(); kv != nil; kv = it.Next() {
		seq := int(999)
		if kv.K.SeqNum() < 999 {
			seq = int(kv.K.SeqNum())
		}
		e := c17OutKey{K: urank(kv.K.UserKey), S: seq, T: int(kv.K.Kind()), V: []int{}}
		switch {
		case kv.K.Kind() == base.InternalKeyKindRangeDelete:
			sp := it.Span()
			r := c17Rd{A: urank(sp.Start), B: urank(sp.End), Ss: []int{}}
			for _, k := range sp.Keys {
				r.Ss = append(r.Ss, int(k.SeqNum()))
			}
			out.Rds = append(out.Rds, r)
		case rangekey.IsRangeKey(kv.K.Kind()):
			sp := it.Span()
			r := c17Rk{A: urank(sp.Start), B: urank(sp.End), Ks: []c17RkKey{}}
			for _, k := range sp.Keys {
				r.Ks = append(r.Ks, c17RkKey{S: int(k.SeqNum()), T: int(k.Kind()), X: c17SuffixRank(k.Suffix), V: bytesToIDs(k.Value)})
			}
			out.Rks = append(out.Rks, r)
		case kv.K.Kind() == base.InternalKeyKindSet || kv.K.Kind() == base.InternalKeyKindMerge ||
			kv.K.Kind() == base.InternalKeyKindSetWithDelete:
			v, _, err := kv.Value(nil)
			if err != nil {
				out.Err, out.Msg = true, err.Error()
			}
			e.V = bytesToIDs(v)
		}
		out.Seq = append(out.Seq, e)
	}
	if err := it.Error(); err != nil {
		out.Err, out.Msg = true, err.Error()
	}
	if err := it.Close(); err != nil {
		out.Err, out.Msg = true, err.Error()
	}
	return out
}

func c17Norm(in *c17In) {
	if in.Pts == nil {
		in.Pts = []c17Pt{}
	}
	if in.Rds == nil {
		in.Rds = []c17Rd{}
	}
	if in.Rks == nil {
		in.Rks = []c17Rk{}
	}
	in.Snaps, in.Inuse, in.Rkinuse = ints(in.Snaps), ints(in.Inuse), ints(in.Rkinuse)
}

// c17Random draws one input from the bounded parameter space (same parameters
// as the TLC generator, larger values).  It does not know the SINGLEDEL
// contract: TLC decides admissibility of every case.
func c17Random(rng randSrc, nk, n, maxRD, maxRK, nsfx int) *c17In {
	in := &c17In{}
	// The shape of a case is drawn first (kind mix, how many user keys share the
	// seqnums, how dense the snapshots are), then its content: deep stacks of one
	// key inside one snapshot stripe, in particular the last one where elision and
	// seqnum zeroing apply, are as likely as wide, finely striped inputs.
	kindMixes := [][]int{
		{1, 1, 1, 0, 0, 2, 2, 7, 18, 23},
		{1, 1, 0, 7, 7, 7, 18, 18, 18, 23}, // what earlier compactions leave behind: SETWITHDEL, SINGLEDEL
		{1, 1, 18, 0, 23, 23, 23, 7, 2},    // DELSIZED (no size / exact / wrong) over every kind
	}
	kinds := kindMixes[rng.Intn(len(kindMixes))]
	nkUsed := 1 + rng.Intn(nk)
	k0 := rng.Intn(nk - nkUsed + 1)
	snapDens := []int{0, 10, 35, 35}[rng.Intn(4)]
	type pt struct{ k, s, t, z int }
	var ps []pt
	dens := 30 + rng.Intn(70)
	for s := 1; s <= n; s++ {
		if rng.Intn(100) >= dens {
			continue
		}
		p := pt{k: k0 + rng.Intn(nkUsed), s: s, t: kinds[rng.Intn(len(kinds))]}
		if p.t == 23 {
			p.z = rng.Intn(3)
		}
		ps = append(ps, p)
	}
	sort.Slice(ps, func(i, j int) bool {
		if ps[i].k != ps[j].k {
			return ps[i].k < ps[j].k
		}
		return ps[i].s > ps[j].s
	})
	for _, p := range ps {
		in.Pts = append(in.Pts, c17Pt{K: p.k, S: p.s, T: p.t, V: []int{p.s}, Z: p.z})
	}
	bounds := func() (int, int) {
		a := rng.Intn(nk)
		return a, a + 1 + rng.Intn(nk-a)
	}
	perm := rng.Perm(n)
	nrd := 0
	if maxRD > 0 {
		nrd = rng.Intn(maxRD + 1)
	}
	for i := 0; i < nrd && i < n; i++ {
		a, b := bounds()
		in.Rds = append(in.Rds, c17Rd{A: a, B: b, Ss: []int{perm[i] + 1}})
	}
	perm = rng.Perm(n)
	nrk := 0
	if maxRK > 0 {
		nrk = rng.Intn(maxRK + 1)
	}
	for i := 0; i < nrk && i < n; i++ {
		a, b := bounds()
		k := c17RkKey{S: perm[i] + 1, T: 19 + rng.Intn(3), V: []int{}}
		if k.T != 19 {
			k.X = rng.Intn(nsfx)
		}
		if k.T == 21 {
			k.V = []int{k.S}
		}
		in.Rks = append(in.Rks, c17Rk{A: a, B: b, Ks: []c17RkKey{k}})
	}
	for s := 1; s <= n+1; s++ {
		if rng.Intn(100) < snapDens {
			in.Snaps = append(in.Snaps, s)
		}
	}
	switch rng.Intn(4) {
	case 0:
	case 1:
		in.Elide = 1
		for k := 0; k < nk; k++ {
			if rng.Intn(2) == 0 {
				in.Inuse = append(in.Inuse, k)
			}
			if rng.Intn(2) == 0 {
				in.Rkinuse = append(in.Rkinuse, k)
			}
		}
	case 2:
		in.Elide = 1
	case 3:
		in.Elide, in.Bottom = 1, true
	}
	c17Norm(in)
	return in
}

type randSrc interface {
	Intn(int) int
	Perm(int) []int
}

// TestC17: VERIF_CASES = file of TLC-generated inputs (one JSON per line, must be
// admissible); VERIF_RANDOM = number of seeded random inputs; VERIF_OUT = trace.
func TestC17(t *testing.T) {
	w, err := newNDWriter(os.Getenv("VERIF_OUT"))
	if err != nil {
		t.Fatal(err)
	}
	defer w.close()
	emit := func(in *c17In, must bool) {
		out := c17Run(in)
		w.put(map[string]any{"op": "in", "must": must, "c": in})
		w.put(map[string]any{"op": "out", "o": out})
	}
	ncases := 0
	if p := os.Getenv("VERIF_CASES"); p != "" {
		err := forEachLine(p, func(line []byte) error {
			var in c17In
			if err := json.Unmarshal(line, &in); err != nil {
				return err
			}
			c17Norm(&in)
			emit(&in, true)
			ncases++
			return nil
		})
		if err != nil {
			t.Fatal(err)
		}
	}
	rng := newRng()
	nr := envInt("VERIF_RANDOM", 0)
	nk, n := envInt("VERIF_NK", 3), envInt("VERIF_N", 6)
	for i := 0; i < nr; i++ {
		emit(c17Random(rng, nk, n, envInt("VERIF_MAXRD", 2), envInt("VERIF_MAXRK", 2), envInt("VERIF_NSFX", 2)), false)
	}
	fmt.Printf("DRIVER-DONE cases=%d random=%d\n", ncases, nr)
}
