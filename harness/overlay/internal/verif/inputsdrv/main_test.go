// Package inputsdrv holds the Go drivers of the "inputs" properties that only
// need APIs public inside the module (C17 compact.Iter, C32 keyspan).  The
// drivers execute cases on the real code and record in/out NDJSON; the verdict
// is TLC's (spec/CompactStream, spec/Spans).
package inputsdrv

import (
	"bufio"
	"encoding/json"
	"fmt"
	"math/rand"
	"os"
	"strconv"
)

func envInt(name string, def int) int {
	if s := os.Getenv(name); s != "" {
		if v, err := strconv.Atoi(s); err == nil {
			return v
		}
	}
	return def
}

func newRng() *rand.Rand { return rand.New(rand.NewSource(int64(envInt("VERIF_SEED", 1)))) }

// ndWriter writes one JSON object per line.
type ndWriter struct {
	f *os.File
	w *bufio.Writer
	n int
}

func newNDWriter(path string) (*ndWriter, error) {
	f, err := os.Create(path)
	if err != nil {
		return nil, err
	}
	return &ndWriter{f: f, w: bufio.NewWriterSize(f, 1<<20)}, nil
}

func (n *ndWriter) put(v any) {
	b, err := json.Marshal(v)
	if err != nil {
		panic(err)
	}
	n.w.Write(b)
	n.w.WriteByte('\n')
	n.n++
}

func (n *ndWriter) close() { n.w.Flush(); n.f.Close() }

// forEachLine calls fn with every non-empty line of the file.
func forEachLine(path string, fn func(line []byte) error) error {
	f, err := os.Open(path)
	if err != nil {
		return err
	}
	defer f.Close()
	sc := bufio.NewScanner(f)
	sc.Buffer(make([]byte, 1<<20), 1<<26)
	for sc.Scan() {
		if len(sc.Bytes()) == 0 {
			continue
		}
		if err := fn(sc.Bytes()); err != nil {
			return err
		}
	}
	return sc.Err()
}

func ints(v []int) []int {
	if v == nil {
		return []int{}
	}
	return v
}

func ukey(k int) []byte { return []byte{byte('a' + k)} }
func urank(b []byte) int {
	if len(b) != 1 {
		panic(fmt.Sprintf("unexpected user key %q", b))
	}
	return int(b[0] - 'a')
}
func idsToBytes(v []int) []byte {
	b := make([]byte, len(v))
	for i, x := range v {
		b[i] = byte(x)
	}
	return b
}
func bytesToIDs(b []byte) []int {
	v := make([]int, len(b))
	for i, x := range b {
		v[i] = int(x)
	}
	return v
}
