package inputsdrv

import (
	"encoding/json"
	"fmt"
	"os"
	"sort"
	"testing"

	"github.com/cockroachdb/pebble/internal/base"
	"github.com/cockroachdb/pebble/internal/keyspan"
	"github.com/cockroachdb/pebble/internal/keyspan/keyspanimpl"
	"github.com/cockroachdb/pebble/internal/rangekeystack"
)

// Shapes shared with spec/Spans.
type c32Key struct {
	S int `json:"s"` // sequence number
	T int `json:"t"` // kind: 19 RANGEKEYDEL, 20 RANGEKEYUNSET, 21 RANGEKEYSET
	X int `json:"x"` // suffix
	V int `json:"v"` // value id (0: no value)
}
type c32Span struct {
	A  int      `json:"a"`
	B  int      `json:"b"`
	Ks []c32Key `json:"ks"`
}
type c32In struct {
	Op     string      `json:"op"`
	Levels [][]c32Span `json:"levels"`
	Lo     int         `json:"lo"`
	Hi     int         `json:"hi"`
	Cut    int         `json:"cut"`
	M      string      `json:"m"` // DefragmentMethod of a defrag case: "internal" | "user"
}

// c32Seek: the fragment (index into Fwd, 0 none, -1 a span that is not one of them) found by SeekGE(k) / SeekLT(k),
// and by a Next / a Prev right after that seek.
type c32Seek struct {
	K  int `json:"k"`
	Ge int `json:"ge"`
	Gn int `json:"gn"`
	Gp int `json:"gp"`
	Lt int `json:"lt"`
	Ln int `json:"ln"`
	Lp int `json:"lp"`
}
type c32Out struct {
	Fwd   []c32Span `json:"fwd"`
	Bwd   []c32Span `json:"bwd"`
	Seeks []c32Seek `json:"seeks"`
	Err   bool      `json:"err"`
	Msg   string    `json:"msg"`
}

func c32Value(v int) []byte {
	if v == 0 {
		return nil
	}
	return []byte{'v', byte('0' + v)}
}

func c32ToSpan(s c32Span, order keyspan.KeysOrder) keyspan.Span {
	sp := keyspan.Span{Start: ukey(s.A), End: ukey(s.B), KeysOrder: order}
	for _, k := range s.Ks {
		sp.Keys = append(sp.Keys, keyspan.Key{Trailer: base.MakeTrailer(base.SeqNum(k.S), base.InternalKeyKind(k.T)),
			Suffix: c17Suffix(k.X), Value: c32Value(k.V)})
	}
	return sp
}

// c32UserView: the case under way iterates in the user view (user-iteration DefragmentMethod), where sequence numbers
// are not part of the observation (which fragment's keys a joined span keeps depends on the direction): recorded as 0.
var c32UserView bool

func c32FromSpan(s *keyspan.Span) c32Span {
	o := c32Span{A: urank(s.Start), B: urank(s.End), Ks: []c32Key{}}
	for _, k := range s.Keys {
		v := 0
		if len(k.Value) == 2 && k.Value[0] == 'v' {
			v = int(k.Value[1] - '0')
		} else if len(k.Value) != 0 {
			v = -1
		}
		q := int(k.SeqNum())
		if c32UserView {
			q = 0
		}
		o.Ks = append(o.Ks, c32Key{S: q, T: int(k.Kind()), X: c17SuffixRank(k.Suffix), V: v})
	}
	return o
}

func c32Fragment(spans []c32Span, cut int) []keyspan.Span {
	var out []keyspan.Span
	f := keyspan.Fragmenter{Cmp: base.DefaultComparer.Compare, Format: base.DefaultComparer.FormatKey,
		Emit: func(s keyspan.Span) { out = append(out, s.Clone()) }}
	cutDone := cut < 0
	for _, s := range spans {
		if !cutDone && s.A >= cut {
			f.Truncate(ukey(cut))
			cutDone = true
		}
		f.Add(c32ToSpan(s, keyspan.ByTrailerDesc))
	}
	if !cutDone {
		f.Truncate(ukey(cut))
	}
	f.Finish()
	return out
}

func c32Find(fwd []c32Span, s *keyspan.Span) int {
	if s == nil {
		return 0
	}
	o := c32FromSpan(s)
	for i := range fwd {
		if fwd[i].A == o.A && fwd[i].B == o.B && len(fwd[i].Ks) == len(o.Ks) {
			same := true
			for j := range o.Ks {
				same = same && fwd[i].Ks[j] == o.Ks[j]
			}
			if same {
				return i + 1
			}
		}
	}
	return -1
}

// c32Walk records what a fragment iterator shows: forward, backward, and seeks to every boundary.
func c32Walk(it keyspan.FragmentIterator, nb int, out *c32Out) {
	s, err := it.First()
	for ; s != nil && err == nil; s, err = it.Next() {
		out.Fwd = append(out.Fwd, c32FromSpan(s))
	}
	if err != nil {
		out.Err, out.Msg = true, err.Error()
	}
	var rev []c32Span
	s, err = it.Last()
	for ; s != nil && err == nil; s, err = it.Prev() {
		rev = append(rev, c32FromSpan(s))
	}
	if err != nil {
		out.Err, out.Msg = true, err.Error()
	}
	for i := len(rev) - 1; i >= 0; i-- {
		out.Bwd = append(out.Bwd, rev[i])
	}
	find := func(s *keyspan.Span, err error) int {
		if err != nil {
			out.Err, out.Msg = true, err.Error()
		}
		return c32Find(out.Fwd, s)
	}
	// every seek is followed by a step in the same and (after the same seek again) in the opposite direction
	for k := 0; k < nb; k++ {
		sk := c32Seek{K: k}
		sk.Ge = find(it.SeekGE(ukey(k)))
		sk.Gn = find(it.Next())
		find(it.SeekGE(ukey(k)))
		sk.Gp = find(it.Prev())
		sk.Lt = find(it.SeekLT(ukey(k)))
		sk.Lp = find(it.Prev())
		find(it.SeekLT(ukey(k)))
		sk.Ln = find(it.Next())
		out.Seeks = append(out.Seeks, sk)
	}
	it.Close()
}

func c32Run(in *c32In, nb int) (out c32Out) {
	out = c32Out{Fwd: []c32Span{}, Bwd: []c32Span{}, Seeks: []c32Seek{}}
	defer func() {
		if r := recover(); r != nil {
			out.Err, out.Msg = true, fmt.Sprint("panic: ", r)
		}
	}()
	cmp := base.DefaultComparer.Compare
	c32UserView = in.Op == "defrag" && in.M == "user"
	switch in.Op {
	case "frag":
		for _, s := range c32Fragment(in.Levels[0], in.Cut) {
			s := s
			out.Fwd = append(out.Fwd, c32FromSpan(&s))
		}
		out.Bwd = out.Fwd
	case "trunc":
		it := keyspan.Truncate(cmp, keyspan.NewIter(cmp, c32Fragment(in.Levels[0], -1)),
			base.UserKeyBoundsEndExclusive(ukey(in.Lo), ukey(in.Hi)))
		c32Walk(it, nb, &out)
	case "merge":
		var iters []keyspan.FragmentIterator
		for _, l := range in.Levels {
			iters = append(iters, keyspan.NewIter(cmp, c32Fragment(l, -1)))
		}
		var m keyspanimpl.MergingIter
		m.Init(base.DefaultComparer, keyspan.NoopTransform, new(keyspanimpl.MergingBuffers), iters...)
		c32Walk(&m, nb, &out)
	case "defrag":
		// the two DefragmentMethods of the tree: keyspan.DefragmentInternal (compactions, internal-key scans; keys by
		// trailer descending) and the user-iteration method of rangekeystack.UserIteratorConfig (spans as its Transform
		// leaves them: sets by suffix ascending)
		var method keyspan.DefragmentMethod = keyspan.DefragmentInternal
		order := keyspan.ByTrailerDesc
		if in.M == "user" {
			method, order = new(rangekeystack.UserIteratorConfig), keyspan.BySuffixAsc
		}
		var spans []keyspan.Span
		for _, s := range in.Levels[0] {
			spans = append(spans, c32ToSpan(s, order))
		}
		var d keyspan.DefragmentingIter
		d.Init(base.DefaultComparer, keyspan.NewIter(cmp, spans), method, keyspan.StaticDefragmentReducer,
			new(keyspan.DefragmentingBuffers))
		c32Walk(&d, nb, &out)
	case "mdefrag":
		// the compaction's range-key input: per-level fragments merged, then defragmented (compaction.go)
		var iters []keyspan.FragmentIterator
		for _, l := range in.Levels {
			var spans []keyspan.Span
			for _, s := range l {
				spans = append(spans, c32ToSpan(s, keyspan.ByTrailerDesc))
			}
			iters = append(iters, keyspan.NewIter(cmp, spans))
		}
		var m keyspanimpl.MergingIter
		m.Init(base.DefaultComparer, keyspan.NoopTransform, new(keyspanimpl.MergingBuffers), iters...)
		var d keyspan.DefragmentingIter
		d.Init(base.DefaultComparer, &m, keyspan.DefragmentInternal, keyspan.StaticDefragmentReducer, new(keyspan.DefragmentingBuffers))
		c32Walk(&d, nb, &out)
	default:
		out.Err, out.Msg = true, "unknown op"
	}
	return out
}

// c32RandKey draws a key with the given seqnum: mostly sets; unsets and deletes carry no value, deletes no suffix.
func c32RandKey(rng randSrc, q int) c32Key {
	switch rng.Intn(6) {
	case 0:
		return c32Key{S: q, T: 19}
	case 1:
		return c32Key{S: q, T: 20, X: rng.Intn(2)}
	}
	return c32Key{S: q, T: 21, X: rng.Intn(2), V: 1 + rng.Intn(2)}
}

// c32RandFrags draws an already fragmented list (one level).  A fragment's keys are often the keys of its left
// neighbour, unchanged or changed in exactly one field (value, suffix, seqnum, kind) of one key, so that the
// decision to join abutting fragments depends on every field.  seqs: the level's seqnums.
func c32RandFrags(rng randSrc, nb, maxKeys int, seqs []int, user bool) []c32Span {
	fresh := func() []c32Key {
		var ks []c32Key
		if user {
			for x := 0; x < 3; x++ {
				if rng.Intn(2) == 0 {
					ks = append(ks, c32Key{S: seqs[rng.Intn(len(seqs))], T: 21, X: x, V: 1 + rng.Intn(2)})
				}
			}
			if len(ks) == 0 {
				ks = append(ks, c32Key{S: seqs[rng.Intn(len(seqs))], T: 21, X: rng.Intn(3), V: 1 + rng.Intn(2)})
			}
			return ks
		}
		n := 1 + rng.Intn(maxKeys)
		for i := 0; i < n; i++ {
			ks = append(ks, c32RandKey(rng, seqs[rng.Intn(len(seqs))]))
		}
		return ks
	}
	norm := func(ks []c32Key) []c32Key {
		if user {
			return ks
		}
		// by trailer descending, one key per trailer
		sort.SliceStable(ks, func(i, j int) bool { return ks[i].S*256+ks[i].T > ks[j].S*256+ks[j].T })
		o := ks[:0]
		for i, k := range ks {
			if i == 0 || k.S != ks[i-1].S || k.T != ks[i-1].T {
				o = append(o, k)
			}
		}
		return o
	}
	var out []c32Span
	var prev []c32Key
	a := rng.Intn(2)
	for a < nb-1 {
		b := a + 1 + rng.Intn(2)
		if b > nb-1 {
			b = nb - 1
		}
		if rng.Intn(6) > 0 {
			var ks []c32Key
			if prev == nil || rng.Intn(4) == 0 {
				ks = fresh()
			} else {
				ks = append(ks, prev...)
				if rng.Intn(3) > 0 { // change one field of one key
					k := &ks[rng.Intn(len(ks))]
					switch rng.Intn(4) {
					case 0:
						if k.T == 21 {
							k.V = 3 - k.V
						}
					case 1:
						if !user && k.T != 19 {
							k.X = 1 - k.X
						}
					case 2:
						k.S = seqs[rng.Intn(len(seqs))]
					case 3:
						if !user {
							*k = c32RandKey(rng, k.S)
						}
					}
				}
			}
			ks = norm(ks)
			out = append(out, c32Span{A: a, B: b, Ks: ks})
			prev = ks
		} else {
			prev = nil
		}
		a = b
	}
	return out
}

func c32Random(rng randSrc, nb, nseq, maxSpans, maxKeys, nlevels int) *c32In {
	ops := []string{"frag", "trunc", "merge", "defrag", "defrag", "mdefrag"}
	in := &c32In{Op: ops[rng.Intn(len(ops))], Cut: -1}
	perm := rng.Perm(nseq)
	next := 0
	mk := func(a, b int) c32Span {
		s := c32Span{A: a, B: b}
		n := 1 + rng.Intn(maxKeys)
		var seqs []int
		for i := 0; i < n && next < nseq; i++ {
			seqs = append(seqs, perm[next]+1)
			next++
		}
		sort.Sort(sort.Reverse(sort.IntSlice(seqs)))
		for _, q := range seqs {
			s.Ks = append(s.Ks, c32RandKey(rng, q))
		}
		return s
	}
	nl := 1
	if in.Op == "merge" || in.Op == "mdefrag" {
		nl = nlevels
	}
	in.Levels = make([][]c32Span, nl)
	switch in.Op {
	case "defrag":
		in.M = []string{"internal", "user"}[rng.Intn(2)]
		in.Levels[0] = c32RandFrags(rng, nb, maxKeys, []int{1, 2, 3}, in.M == "user")
	case "mdefrag":
		// the levels hold disjoint seqnums (newer levels higher ones)
		for l := range in.Levels {
			base := 2 * (nl - 1 - l)
			in.Levels[l] = c32RandFrags(rng, nb, maxKeys, []int{base + 1, base + 2}, false)
		}
	default:
		n := 1 + rng.Intn(maxSpans)
		for i := 0; i < n && next < nseq; i++ {
			a := rng.Intn(nb - 1)
			b := a + 1 + rng.Intn(nb-1-a)
			l := rng.Intn(nl)
			in.Levels[l] = append(in.Levels[l], mk(a, b))
		}
		for l := range in.Levels {
			lv := in.Levels[l]
			sort.SliceStable(lv, func(i, j int) bool { return lv[i].A < lv[j].A })
		}
	}
	switch in.Op {
	case "trunc":
		in.Lo = rng.Intn(nb - 1)
		in.Hi = in.Lo + 1 + rng.Intn(nb-1-in.Lo)
	case "frag":
		in.Cut = rng.Intn(nb+1) - 1
	}
	c32Norm(in)
	return in
}

func c32Norm(in *c32In) {
	if in.Levels == nil {
		in.Levels = [][]c32Span{}
	}
	for i := range in.Levels {
		if in.Levels[i] == nil {
			in.Levels[i] = []c32Span{}
		}
	}
}

// TestC32: same protocol as TestC17.
func TestC32(t *testing.T) {
	w, err := newNDWriter(os.Getenv("VERIF_OUT"))
	if err != nil {
		t.Fatal(err)
	}
	defer w.close()
	nb := envInt("VERIF_NB", 4)
	emit := func(in *c32In, must bool) {
		out := c32Run(in, nb)
		w.put(map[string]any{"op": "in", "must": must, "c": in})
		w.put(map[string]any{"op": "out", "o": out})
	}
	ncases := 0
	if p := os.Getenv("VERIF_CASES"); p != "" {
		err := forEachLine(p, func(line []byte) error {
			var in c32In
			if err := json.Unmarshal(line, &in); err != nil {
				return err
			}
			c32Norm(&in)
			emit(&in, true)
			ncases++
			return nil
		})
		if err != nil {
			t.Fatal(err)
		}
	}
	rng := newRng()
	nr := envInt("VERIF_RANDOM", 0)
	for i := 0; i < nr; i++ {
		emit(c32Random(rng, nb, envInt("VERIF_NSEQ", 8), envInt("VERIF_MAXSPANS", 5), envInt("VERIF_MAXKEYS", 2), envInt("VERIF_NLEVELS", 3)), false)
	}
	fmt.Printf("DRIVER-DONE cases=%d random=%d\n", ncases, nr)
}
