package inputsdrv

import (
	"encoding/json"
	"fmt"
	"os"
	"sort"
	"testing"

	"github.com/cockroachdb/pebble/internal/base"
	"github.com/cockroachdb/pebble/internal/keyspan"
	"github.com/cockroachdb/pebble/internal/keyspan/keyspanimpl"
)

// Shapes shared with spec/Spans.
type c32Key struct {
	S int `json:"s"`
	X int `json:"x"`
}
type c32Span struct {
	A  int      `json:"a"`
	B  int      `json:"b"`
	Ks []c32Key `json:"ks"`
}
type c32In struct {
	Op     string      `json:"op"`
	Levels [][]c32Span `json:"levels"`
	Lo     int         `json:"lo"`
	Hi     int         `json:"hi"`
	Cut    int         `json:"cut"`
}
type c32Seek struct {
	K  int `json:"k"`
	Ge int `json:"ge"`
	Lt int `json:"lt"`
}
type c32Out struct {
	Fwd   []c32Span `json:"fwd"`
	Bwd   []c32Span `json:"bwd"`
	Seeks []c32Seek `json:"seeks"`
	Err   bool      `json:"err"`
	Msg   string    `json:"msg"`
}

func c32ToSpan(s c32Span) keyspan.Span {
	sp := keyspan.Span{Start: ukey(s.A), End: ukey(s.B), KeysOrder: keyspan.ByTrailerDesc}
	for _, k := range s.Ks {
		sp.Keys = append(sp.Keys, keyspan.Key{Trailer: base.MakeTrailer(base.SeqNum(k.S), base.InternalKeyKindRangeKeySet),
			Suffix: c17Suffix(k.X), Value: []byte{byte(k.S)}})
	}
	return sp
}

func c32FromSpan(s *keyspan.Span) c32Span {
	o := c32Span{A: urank(s.Start), B: urank(s.End), Ks: []c32Key{}}
	for _, k := range s.Keys {
		x := c17SuffixRank(k.Suffix)
		if len(k.Value) != 1 || int(k.Value[0]) != int(k.SeqNum()) {
			x = -1 // the value did not travel with its key
		}
		o.Ks = append(o.Ks, c32Key{S: int(k.SeqNum()), X: x})
	}
	return o
}

func c32Fragment(spans []c32Span, cut int) []keyspan.Span {
	var out []keyspan.Span
	f := keyspan.Fragmenter{Cmp: base.DefaultComparer.Compare, Format: base.DefaultComparer.FormatKey,
		Emit: func(s keyspan.Span) { out = append(out, s.Clone()) }}
	cutDone := cut < 0
	for _, s := range spans {
		if !cutDone && s.A >= cut {
			f.Truncate(ukey(cut))
			cutDone = true
		}
		f.Add(c32ToSpan(s))
	}
	if !cutDone {
		f.Truncate(ukey(cut))
	}
	f.Finish()
	return out
}

func c32Find(fwd []c32Span, s *keyspan.Span) int {
	if s == nil {
		return 0
	}
	a, b := urank(s.Start), urank(s.End)
	for i := range fwd {
		if fwd[i].A == a && fwd[i].B == b {
			return i + 1
		}
	}
	return -1
}

// c32Walk records what a fragment iterator shows: forward, backward, and seeks to every boundary.
func c32Walk(it keyspan.FragmentIterator, nb int, out *c32Out) {
	s, err := it.First()
	for ; s != nil && err == nil; s, err = it.Next() {
		out.Fwd = append(out.Fwd, c32FromSpan(s))
	}
	if err != nil {
		out.Err, out.Msg = true, err.Error()
	}
	var rev []c32Span
	s, err = it.Last()
	for ; s != nil && err == nil; s, err = it.Prev() {
		rev = append(rev, c32FromSpan(s))
	}
	if err != nil {
		out.Err, out.Msg = true, err.Error()
	}
	for i := len(rev) - 1; i >= 0; i-- {
		out.Bwd = append(out.Bwd, rev[i])
	}
	for k := 0; k < nb; k++ {
		sk := c32Seek{K: k}
		if s, err = it.SeekGE(ukey(k)); err != nil {
			out.Err, out.Msg = true, err.Error()
		}
		sk.Ge = c32Find(out.Fwd, s)
		if s, err = it.SeekLT(ukey(k)); err != nil {
			out.Err, out.Msg = true, err.Error()
		}
		sk.Lt = c32Find(out.Fwd, s)
		out.Seeks = append(out.Seeks, sk)
	}
	it.Close()
}

func c32Run(in *c32In, nb int) (out c32Out) {
	out = c32Out{Fwd: []c32Span{}, Bwd: []c32Span{}, Seeks: []c32Seek{}}
	defer func() {
		if r := recover(); r != nil {
			out.Err, out.Msg = true, fmt.Sprint("panic: ", r)
		}
	}()
	cmp := base.DefaultComparer.Compare
	switch in.Op {
	case "frag":
		for _, s := range c32Fragment(in.Levels[0], in.Cut) {
			s := s
			out.Fwd = append(out.Fwd, c32FromSpan(&s))
		}
		out.Bwd = out.Fwd
	case "trunc":
		it := keyspan.Truncate(cmp, keyspan.NewIter(cmp, c32Fragment(in.Levels[0], -1)),
			base.UserKeyBoundsEndExclusive(ukey(in.Lo), ukey(in.Hi)))
		c32Walk(it, nb, &out)
	case "merge":
		var iters []keyspan.FragmentIterator
		for _, l := range in.Levels {
			iters = append(iters, keyspan.NewIter(cmp, c32Fragment(l, -1)))
		}
		var m keyspanimpl.MergingIter
		m.Init(base.DefaultComparer, keyspan.NoopTransform, new(keyspanimpl.MergingBuffers), iters...)
		c32Walk(&m, nb, &out)
	case "defrag":
		var spans []keyspan.Span
		for _, s := range in.Levels[0] {
			spans = append(spans, c32ToSpan(s))
		}
		var d keyspan.DefragmentingIter
		d.Init(base.DefaultComparer, keyspan.NewIter(cmp, spans), keyspan.DefragmentInternal, keyspan.StaticDefragmentReducer,
			new(keyspan.DefragmentingBuffers))
		c32Walk(&d, nb, &out)
	default:
		out.Err, out.Msg = true, "unknown op"
	}
	return out
}

func c32Random(rng randSrc, nb, nseq, maxSpans, maxKeys, nlevels int) *c32In {
	ops := []string{"frag", "trunc", "merge", "defrag"}
	in := &c32In{Op: ops[rng.Intn(4)], Cut: -1}
	perm := rng.Perm(nseq)
	next := 0
	mk := func(a, b int) c32Span {
		s := c32Span{A: a, B: b}
		n := 1 + rng.Intn(maxKeys)
		var seqs []int
		for i := 0; i < n && next < nseq; i++ {
			seqs = append(seqs, perm[next]+1)
			next++
		}
		sort.Sort(sort.Reverse(sort.IntSlice(seqs)))
		for _, q := range seqs {
			s.Ks = append(s.Ks, c32Key{S: q, X: rng.Intn(2)})
		}
		return s
	}
	nl := 1
	if in.Op == "merge" {
		nl = nlevels
	}
	in.Levels = make([][]c32Span, nl)
	if in.Op == "defrag" {
		// a fragmented list; neighbours often carry identical keys
		pool := [][]c32Key{{{S: 1, X: 0}}, {{S: 2, X: 1}}, {{S: 2, X: 1}, {S: 1, X: 0}}, {{S: 3, X: 0}, {S: 1, X: 0}}}
		a := rng.Intn(2)
		for a < nb-1 {
			b := a + 1 + rng.Intn(2)
			if b > nb-1 {
				b = nb - 1
			}
			if rng.Intn(5) > 0 {
				in.Levels[0] = append(in.Levels[0], c32Span{A: a, B: b, Ks: pool[rng.Intn(len(pool))]})
			}
			a = b
		}
	} else {
		n := 1 + rng.Intn(maxSpans)
		for i := 0; i < n && next < nseq; i++ {
			a := rng.Intn(nb - 1)
			b := a + 1 + rng.Intn(nb-1-a)
			l := rng.Intn(nl)
			in.Levels[l] = append(in.Levels[l], mk(a, b))
		}
		for l := range in.Levels {
			lv := in.Levels[l]
			sort.SliceStable(lv, func(i, j int) bool { return lv[i].A < lv[j].A })
		}
	}
	switch in.Op {
	case "trunc":
		in.Lo = rng.Intn(nb - 1)
		in.Hi = in.Lo + 1 + rng.Intn(nb-1-in.Lo)
	case "frag":
		in.Cut = rng.Intn(nb+1) - 1
	}
	c32Norm(in)
	return in
}

func c32Norm(in *c32In) {
	if in.Levels == nil {
		in.Levels = [][]c32Span{}
	}
	for i := range in.Levels {
		if in.Levels[i] == nil {
			in.Levels[i] = []c32Span{}
		}
	}
}

// TestC32: same protocol as TestC17.
func TestC32(t *testing.T) {
	w, err := newNDWriter(os.Getenv("VERIF_OUT"))
	if err != nil {
		t.Fatal(err)
	}
	defer w.close()
	nb := envInt("VERIF_NB", 4)
	emit := func(in *c32In, must bool) {
		out := c32Run(in, nb)
		w.put(map[string]any{"op": "in", "must": must, "c": in})
		w.put(map[string]any{"op": "out", "o": out})
	}
	ncases := 0
	if p := os.Getenv("VERIF_CASES"); p != "" {
		err := forEachLine(p, func(line []byte) error {
			var in c32In
			if err := json.Unmarshal(line, &in); err != nil {
				return err
			}
			c32Norm(&in)
			emit(&in, true)
			ncases++
			return nil
		})
		if err != nil {
			t.Fatal(err)
		}
	}
	rng := newRng()
	nr := envInt("VERIF_RANDOM", 0)
	for i := 0; i < nr; i++ {
		emit(c32Random(rng, nb, envInt("VERIF_NSEQ", 8), envInt("VERIF_MAXSPANS", 5), envInt("VERIF_MAXKEYS", 2), envInt("VERIF_NLEVELS", 3)), false)
	}
	fmt.Printf("DRIVER-DONE cases=%d random=%d\n", ncases, nr)
}
