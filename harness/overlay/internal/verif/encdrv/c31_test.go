package encdrv

// C31 driver: every generated batch (TLC-generated, VERIF_CASES) is built on the
// real pebble.Batch and shipped through every transport; each observation is one
// trace event of /verif/spec/BatchEnc/BatchEncTrace.tla.

import (
	"encoding/binary"
	"fmt"
	"math/rand/v2"
	"os"
	"path/filepath"
	"slices"
	"strconv"
	"strings"
	"testing"

	"github.com/cockroachdb/errors"
	"github.com/cockroachdb/pebble"
	"github.com/cockroachdb/pebble/batchrepr"
	"github.com/cockroachdb/pebble/internal/base"
	"github.com/cockroachdb/pebble/internal/rangekey"
	"github.com/cockroachdb/pebble/internal/testkeys"
	"github.com/cockroachdb/pebble/vfs"
)

type quietLogger struct{}

func (quietLogger) Infof(string, ...interface{})  {}
func (quietLogger) Errorf(string, ...interface{}) {}
func (quietLogger) Fatalf(f string, a ...interface{}) {
	panic(fmt.Sprintf("pebble fatal: "+f, a...))
}

func applyOp(u Univ, b *pebble.Batch, op Ev) error {
	switch op.S("o") {
	case "set":
		return b.Set(u.Key(op.I("k")), EncVal(op.I("v")), nil)
	case "del":
		return b.Delete(u.Key(op.I("k")), nil)
	case "sdel":
		return b.SingleDelete(u.Key(op.I("k")), nil)
	case "delsized":
		return b.DeleteSized(u.Key(op.I("k")), uint32(op.I("sz")), nil)
	case "merge":
		return b.Merge(u.Key(op.I("k")), EncVal(op.I("v")), nil)
	case "delr":
		return b.DeleteRange(u.Key(op.I("a")), u.Key(op.I("b")), nil)
	case "rkset":
		return b.RangeKeySet(u.Key(op.I("a")), u.Key(op.I("b")), u.Suffix(op.I("s")), EncVal(op.I("v")), nil)
	case "rkunset":
		return b.RangeKeyUnset(u.Key(op.I("a")), u.Key(op.I("b")), u.Suffix(op.I("s")), nil)
	case "rkdel":
		return b.RangeKeyDelete(u.Key(op.I("a")), u.Key(op.I("b")), nil)
	case "logdata":
		return b.LogData([]byte("L"+strconv.Itoa(op.I("v"))), nil)
	}
	return errors.Newf("unknown op %v", op)
}

func buildBatch(u Univ, b *pebble.Batch, ops []Ev) error {
	for _, op := range ops {
		if err := applyOp(u, b, op); err != nil {
			return err
		}
	}
	return nil
}

// decodeReader turns the records of a real batchrepr.Reader back into ops.
func decodeReader(u Univ, r batchrepr.Reader) (ops []any, errs string) {
	ops = []any{}
	for {
		kind, key, value, ok, err := r.Next()
		if !ok {
			if err != nil {
				errs = err.Error()
			}
			return ops, errs
		}
		switch kind {
		case base.InternalKeyKindSet:
			ops = append(ops, Ev{"o": "set", "k": u.Rank(key), "v": DecVal1(value)})
		case base.InternalKeyKindMerge:
			ops = append(ops, Ev{"o": "merge", "k": u.Rank(key), "v": DecVal1(value)})
		case base.InternalKeyKindDelete:
			ops = append(ops, Ev{"o": "del", "k": u.Rank(key)})
		case base.InternalKeyKindSingleDelete:
			ops = append(ops, Ev{"o": "sdel", "k": u.Rank(key)})
		case base.InternalKeyKindDeleteSized:
			sz, n := binary.Uvarint(value)
			if n <= 0 || n != len(value) {
				sz = 1 << 40
			}
			// the wire form stores deletedValueSize + len(key) (Batch.DeleteSizedDeferred)
			ops = append(ops, Ev{"o": "delsized", "k": u.Rank(key), "sz": int(sz) - len(key)})
		case base.InternalKeyKindRangeDelete:
			ops = append(ops, Ev{"o": "delr", "a": u.Rank(key), "b": u.Rank(value)})
		case base.InternalKeyKindRangeKeySet, base.InternalKeyKindRangeKeyUnset, base.InternalKeyKindRangeKeyDelete:
			sp, err := rangekey.Decode(base.MakeInternalKey(key, 0, kind), value, nil)
			if err != nil {
				return ops, "rangekey.Decode: " + err.Error()
			}
			a, b := u.Rank(sp.Start), u.Rank(sp.End)
			if kind == base.InternalKeyKindRangeKeyDelete {
				ops = append(ops, Ev{"o": "rkdel", "a": a, "b": b})
				break
			}
			for _, k := range sp.Keys {
				if kind == base.InternalKeyKindRangeKeySet {
					ops = append(ops, Ev{"o": "rkset", "a": a, "b": b, "s": u.SuffixNum(k.Suffix), "v": DecVal1(k.Value)})
				} else {
					ops = append(ops, Ev{"o": "rkunset", "a": a, "b": b, "s": u.SuffixNum(k.Suffix)})
				}
			}
		case base.InternalKeyKindLogData:
			id := -1
			if len(key) > 1 && key[0] == 'L' {
				if n, err := strconv.Atoi(string(key[1:])); err == nil {
					id = n
				}
			}
			ops = append(ops, Ev{"o": "logdata", "v": id})
		default:
			ops = append(ops, Ev{"o": "kind" + strconv.Itoa(int(kind))})
		}
	}
}

type c31 struct {
	u       Univ
	t       *Trace
	rng     *rand.Rand
	nLarge  int
	nStates int
	nDecs   int
	tiny    uint64
}

func (c *c31) emitDec(via string, b *pebble.Batch, viaReader bool) {
	var dec []any
	var errs string
	if viaReader {
		dec, errs = decodeReader(c.u, b.Reader())
	}
	repr := b.Repr()
	h, ok := batchrepr.ReadHeader(repr)
	if !ok {
		errs += " bad header"
	}
	if !viaReader {
		dec, errs = decodeReader(c.u, batchrepr.Read(repr))
	}
	c.t.Emit(Ev{"op": "dec", "via": via, "dec": dec, "count": int(b.Count()), "hdr": int(h.Count), "err": errs})
	c.nDecs++
}

func (c *c31) decErr(via string, err any) {
	c.t.Emit(Ev{"op": "dec", "via": via, "dec": []any{}, "count": -1, "hdr": -1, "err": fmt.Sprint(err)})
}

func (c *c31) stateErr(via, cfg string, err any) {
	c.t.Emit(Ev{"op": "state", "via": via, "cfg": cfg, "large": false, "state": Ev{"pts": []any{}, "rks": []any{}}, "err": fmt.Sprint(err)})
}

func (c *c31) opts(fs vfs.FS, large, ro bool) *pebble.Options {
	o := &pebble.Options{
		Comparer:                    testkeys.Comparer,
		FS:                          fs,
		FormatMajorVersion:          pebble.FormatNewest,
		Logger:                      quietLogger{},
		DisableAutomaticCompactions: true,
		ReadOnly:                    ro,
	}
	if large {
		o.MemTableSize = c.tiny
	}
	return o
}

func (c *c31) preOps(pre string) []Ev {
	if pre != "full" {
		return nil
	}
	var ops []Ev
	for k := 0; k < c.u.R(); k++ {
		ops = append(ops, Ev{"o": "set", "k": k, "v": 100 + k})
	}
	return append(ops, Ev{"o": "rkset", "a": 0, "b": c.u.R(), "s": 1, "v": 200})
}

func (c *c31) openPre(fs vfs.FS, large bool, pre string, flushPre bool) (*pebble.DB, error) {
	db, err := pebble.Open("db", c.opts(fs, large, false))
	if err != nil {
		return nil, err
	}
	if ops := c.preOps(pre); len(ops) > 0 {
		b := db.NewBatch()
		if err := buildBatch(c.u, b, ops); err != nil {
			return nil, err
		}
		if err := b.Commit(pebble.Sync); err != nil {
			return nil, err
		}
		b.Close()
		if flushPre {
			if err := db.Flush(); err != nil {
				return nil, err
			}
		}
	}
	return db, nil
}

// dump reads the whole visible state through a Reader (DB or indexed batch).
func (c *c31) dump(rd pebble.Reader) (Ev, error) {
	u := c.u
	pts := make([]any, u.R())
	for k := 0; k < u.R(); k++ {
		v, closer, err := rd.Get(u.Key(k))
		if err == pebble.ErrNotFound {
			pts[k] = []int{}
			continue
		}
		if err != nil {
			return nil, err
		}
		ids, derr := DecVal(v)
		closer.Close()
		if derr != nil {
			ids = []int{-1}
		}
		pts[k] = ids
	}
	rks := make([]any, u.P)
	for p := range rks {
		rks[p] = []any{}
	}
	it, err := rd.NewIter(&pebble.IterOptions{KeyTypes: pebble.IterKeyTypeRangesOnly})
	if err != nil {
		return nil, err
	}
	for ok := it.First(); ok; ok = it.Next() {
		s, e := it.RangeBounds()
		rs, re := u.Rank(s), u.Rank(e)
		ks := []any{}
		for _, k := range it.RangeKeys() {
			ks = append(ks, []int{u.SuffixNum(k.Suffix), DecVal1(k.Value)})
		}
		for p := 0; p < u.P; p++ {
			if pk := p * (u.S + 1); pk >= rs && pk < re {
				rks[p] = ks
			}
		}
	}
	if err := it.Close(); err != nil {
		return nil, err
	}
	return Ev{"pts": pts, "rks": rks}, nil
}

func (c *c31) emitState(via, cfg string, large bool, rd pebble.Reader) {
	st, err := c.dump(rd)
	if err != nil {
		c.stateErr(via, cfg, err)
		return
	}
	c.t.Emit(Ev{"op": "state", "via": via, "cfg": cfg, "large": large, "state": st, "err": ""})
	c.nStates++
	if large {
		c.nLarge++
	}
}

// split cuts ops into consecutive parts (>= 2 parts when there are >= 2 ops).
func (c *c31) split(ops []Ev) [][]Ev {
	if len(ops) < 2 {
		return [][]Ev{ops}
	}
	var parts [][]Ev
	start := 0
	for i := 1; i < len(ops); i++ {
		if c.rng.IntN(3) == 0 {
			parts = append(parts, ops[start:i])
			start = i
		}
	}
	parts = append(parts, ops[start:])
	if len(parts) == 1 {
		cut := 1 + c.rng.IntN(len(ops)-1)
		parts = [][]Ev{ops[:cut], ops[cut:]}
	}
	return parts
}

func guard(onPanic func(r any), f func()) {
	defer func() {
		if r := recover(); r != nil {
			onPanic(r)
		}
	}()
	f()
}

func cfgName(large bool, pre string, flushPre bool) string {
	n := "normal"
	if large {
		n = "tinymem"
	}
	if pre == "full" {
		if flushPre {
			n += "+pre-in-sst"
		} else {
			n += "+pre-in-mem"
		}
	}
	return n
}

// commitGroup: commit -> read -> crash clone -> flush -> read; clone reopened read-only and read-write.
func (c *c31) commitGroup(prefix string, large bool, pre string, flushPre bool, ops []Ev) {
	cfg := cfgName(large, pre, flushPre)
	guard(func(r any) { c.stateErr(prefix, cfg, fmt.Sprint("panic: ", r)) }, func() {
		fs := vfs.NewCrashableMem()
		db, err := c.openPre(fs, large, pre, flushPre)
		if err != nil {
			c.stateErr(prefix, cfg, err)
			return
		}
		b := db.NewBatch()
		if err := buildBatch(c.u, b, ops); err != nil {
			c.stateErr(prefix, cfg, err)
			return
		}
		if err := b.Commit(pebble.Sync); err != nil {
			c.stateErr(prefix, cfg, err)
			return
		}
		isLarge := b.Empty() // a large batch hands its data to the flushable batch
		b.Close()
		c.emitState(prefix, cfg, isLarge, db)
		clone := fs.CrashClone(vfs.CrashCloneCfg{})
		if err := db.Flush(); err != nil {
			c.stateErr(prefix+"_flush", cfg, err)
		} else {
			c.emitState(prefix+"_flush", cfg, isLarge, db)
		}
		if err := db.Close(); err != nil {
			c.stateErr(prefix+"_flush", cfg, err)
		}
		for _, ro := range []bool{true, false} {
			via := prefix + "_replay_rw"
			if ro {
				via = prefix + "_replay_ro"
			}
			db2, err := pebble.Open("db", c.opts(clone, large, ro))
			if err != nil {
				c.stateErr(via, cfg, err)
				continue
			}
			c.emitState(via, cfg, isLarge, db2)
			if err := db2.Close(); err != nil {
				c.stateErr(via, cfg, err)
			}
		}
	})
}

func (c *c31) runCase(id int, pre string, ops []Ev, groups string) {
	u := c.u
	c.t.Emit(Ev{"op": "case", "id": id, "pre": pre, "ops": ops})

	// ---- batch-level transports: Reader, Repr -> SetRepr, Apply
	var repr []byte
	guard(func(r any) { c.decErr("batch", fmt.Sprint("panic: ", r)) }, func() {
		b := new(pebble.Batch)
		if err := buildBatch(u, b, ops); err != nil {
			c.decErr("reader", err)
			return
		}
		c.emitDec("reader", b, true)
		repr = slices.Clone(b.Repr())

		b2 := new(pebble.Batch)
		if err := b2.SetRepr(slices.Clone(repr)); err != nil {
			c.decErr("setrepr", err)
		} else {
			c.emitDec("setrepr", b2, true)
		}
		// a reused Batch object that already holds records
		b3 := new(pebble.Batch)
		b3.Set([]byte("q"), []byte("x"), nil)
		b3.DeleteRange([]byte("q"), []byte("r"), nil)
		if err := b3.SetRepr(slices.Clone(repr)); err != nil {
			c.decErr("setrepr_reused", err)
		} else {
			c.emitDec("setrepr_reused", b3, false)
		}
		// Batch.Apply of the whole batch, of its parts, onto a batch built by API calls, onto a SetRepr'd batch
		dst := new(pebble.Batch)
		if err := dst.Apply(b, nil); err != nil {
			c.decErr("apply1", err)
		} else {
			c.emitDec("apply1", dst, false)
		}
		parts := c.split(ops)
		var pbs []*pebble.Batch
		for _, p := range parts {
			pb := new(pebble.Batch)
			must(buildBatch(u, pb, p))
			pbs = append(pbs, pb)
		}
		dstN := new(pebble.Batch)
		var aerr error
		for _, pb := range pbs {
			if err := dstN.Apply(pb, nil); err != nil {
				aerr = err
			}
		}
		if aerr != nil {
			c.decErr("applyN", aerr)
		} else {
			c.emitDec("applyN", dstN, true)
		}
		dstM := new(pebble.Batch)
		must(buildBatch(u, dstM, parts[0]))
		for _, pb := range pbs[1:] {
			if err := dstM.Apply(pb, nil); err != nil {
				aerr = err
			}
		}
		if aerr != nil {
			c.decErr("applymix", aerr)
		} else {
			c.emitDec("applymix", dstM, false)
		}
		dstS := new(pebble.Batch)
		aerr = dstS.SetRepr(slices.Clone(pbs[0].Repr()))
		for _, pb := range pbs[1:] {
			if err := dstS.Apply(pb, nil); err != nil {
				aerr = err
			}
		}
		if aerr != nil {
			c.decErr("setrepr_apply", aerr)
		} else {
			c.emitDec("setrepr_apply", dstS, false)
		}
	})
	if repr == nil {
		return
	}
	flushPre := id%2 == 0

	// ---- commit / WAL replay, normal memtable and tiny memtable (large-batch path)
	if strings.Contains(groups, "c") {
		c.commitGroup("commit", false, pre, flushPre, ops)
	}
	if strings.Contains(groups, "l") {
		c.commitGroup("large", true, pre, flushPre, ops)
	}
	// ---- Repr -> SetRepr -> DB.Apply
	if strings.Contains(groups, "r") {
		large := id%4 >= 2
		cfg := cfgName(large, pre, flushPre)
		guard(func(r any) { c.stateErr("repr_commit", cfg, fmt.Sprint("panic: ", r)) }, func() {
			db, err := c.openPre(vfs.NewMem(), large, pre, flushPre)
			if err != nil {
				c.stateErr("repr_commit", cfg, err)
				return
			}
			defer db.Close()
			var b *pebble.Batch
			via := "repr_commit_detached"
			if id%2 == 0 {
				b = new(pebble.Batch)
			} else {
				b = db.NewBatch()
				via = "repr_commit_dbbatch"
			}
			if err := b.SetRepr(slices.Clone(repr)); err != nil {
				c.stateErr(via, cfg, err)
				return
			}
			if err := db.Apply(b, pebble.NoSync); err != nil {
				c.stateErr(via, cfg, err)
				return
			}
			isLarge := b.Empty()
			c.emitState(via, cfg, isLarge, db)
			if id%3 == 0 {
				if err := db.Flush(); err != nil {
					c.stateErr(via+"_flush", cfg, err)
					return
				}
				c.emitState(via+"_flush", cfg, isLarge, db)
			}
		})
	}
	// ---- Batch.Apply(parts) into a DB batch -> Commit
	if strings.Contains(groups, "a") {
		large := id%4 == 1 || id%4 == 2
		cfg := cfgName(large, pre, flushPre)
		guard(func(r any) { c.stateErr("apply_commit", cfg, fmt.Sprint("panic: ", r)) }, func() {
			db, err := c.openPre(vfs.NewMem(), large, pre, flushPre)
			if err != nil {
				c.stateErr("apply_commit", cfg, err)
				return
			}
			defer db.Close()
			b := db.NewBatch()
			for _, p := range c.split(ops) {
				pb := new(pebble.Batch)
				must(buildBatch(u, pb, p))
				if err := b.Apply(pb, nil); err != nil {
					c.stateErr("apply_commit", cfg, err)
					return
				}
			}
			c.emitDec("apply_dbbatch", b, true)
			if err := b.Commit(pebble.NoSync); err != nil {
				c.stateErr("apply_commit", cfg, err)
				return
			}
			isLarge := b.Empty()
			b.Close()
			c.emitState("apply_commit", cfg, isLarge, db)
			if id%3 == 1 {
				if err := db.Flush(); err != nil {
					c.stateErr("apply_commit_flush", cfg, err)
					return
				}
				c.emitState("apply_commit_flush", cfg, isLarge, db)
			}
		})
	}
	// ---- indexed batches: built by API calls, by Apply, by SetRepr-less Apply of parts; then committed
	if strings.Contains(groups, "i") {
		cfg := cfgName(false, pre, flushPre)
		guard(func(r any) { c.stateErr("indexed", cfg, fmt.Sprint("panic: ", r)) }, func() {
			db, err := c.openPre(vfs.NewMem(), false, pre, flushPre)
			if err != nil {
				c.stateErr("indexed", cfg, err)
				return
			}
			defer db.Close()
			ib := db.NewIndexedBatch()
			if err := buildBatch(u, ib, ops); err != nil {
				c.stateErr("indexed", cfg, err)
				return
			}
			c.emitState("indexed", cfg, false, ib)
			ib.Close()
			ib2 := db.NewIndexedBatch()
			for _, p := range c.split(ops) {
				pb := new(pebble.Batch)
				must(buildBatch(u, pb, p))
				if err := ib2.Apply(pb, nil); err != nil {
					c.stateErr("indexed_apply", cfg, err)
					return
				}
			}
			c.emitDec("indexed_apply", ib2, true)
			c.emitState("indexed_apply", cfg, false, ib2)
			if err := ib2.Commit(pebble.NoSync); err != nil {
				c.stateErr("indexed_commit", cfg, err)
				return
			}
			ib2.Close()
			c.emitState("indexed_commit", cfg, false, db)
		})
	}
}

// TestC31 replays the generated cases of VERIF_CASES.  VERIF_GROUPS selects the DB-level
// transports of the plain cases (letters of "clrai"); cases marked all=true get every group.
func TestC31(t *testing.T) {
	out := envStr("VERIF_OUT", "")
	if out == "" {
		t.Skip("VERIF_OUT not set")
	}
	u := Univ{P: envInt("VERIF_P", 3), S: envInt("VERIF_S", 2)}
	seed := uint64(envInt("VERIF_SEED", 1))
	cases, err := readJSONL(envStr("VERIF_CASES", ""))
	must(err)
	groups := envStr("VERIF_GROUPS", "clrai")
	rot := envInt("VERIF_ROTATE", 0) // >0: plain cases get only one of the groups, by id
	c := &c31{u: u, rng: rand.New(rand.NewPCG(seed, 31)), tiny: uint64(envInt("VERIF_TINYMEM", 2048))}
	// the smallest memtable size with which a one-record batch takes the large-batch path
	// (largeBatchThreshold = (MemTableSize - empty memtable size) / 2; the latter is not exported)
	if os.Getenv("VERIF_TINYMEM") == "" {
		for _, sz := range []uint64{1152, 1216, 1280, 1408, 1536, 2048} {
			c.tiny = sz
			isLarge := false
			guard(func(any) {}, func() {
				db, err := pebble.Open("db", c.opts(vfs.NewMem(), true, false))
				if err != nil {
					return
				}
				defer db.Close()
				b := db.NewBatch()
				b.Delete([]byte("a"), nil)
				if b.Commit(pebble.NoSync) == nil {
					isLarge = b.Empty()
				}
			})
			if isLarge {
				break
			}
		}
	}
	perFile := envInt("VERIF_PERFILE", 150)
	nFiles := 0
	for i, cs := range cases {
		if i%perFile == 0 {
			if c.t != nil {
				must(c.t.Close())
			}
			c.t, err = NewTrace(filepath.Join(out, fmt.Sprintf("c31-%d-%05d.ndjson", seed, nFiles)))
			must(err)
			nFiles++
		}
		g := groups
		all, _ := cs["all"].(bool)
		if rot > 0 && !all {
			g = string(groups[(i+int(seed))%len(groups)])
		}
		c.runCase(i, cs.S("pre"), cs.Ops("ops"), g)
	}
	if c.t != nil {
		must(c.t.Close())
	}
	fmt.Printf("DRIVER-DONE cases=%d files=%d decs=%d states=%d large=%d tinymem=%d\n", len(cases), nFiles, c.nDecs, c.nStates, c.nLarge, c.tiny)
}
