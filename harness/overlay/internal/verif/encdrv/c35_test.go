package encdrv

// C35 driver: every generated pair / triple of structured keys (TLC-generated,
// VERIF_CASES) is encoded with the real encoders and handed to the real
// comparer functions; results are recorded in the vocabulary of
// /verif/spec/KeyOrder/KeyOrderTrace.tla.  The driver executes and records;
// TLC decides.

import (
	"bytes"
	"cmp"
	"encoding/binary"
	"fmt"
	"path/filepath"
	"runtime/debug"
	"strconv"
	"strings"
	"testing"

	"github.com/cockroachdb/pebble/cockroachkvs"
	"github.com/cockroachdb/pebble/internal/base"
	"github.com/cockroachdb/pebble/internal/testkeys"
)

// SKey is a structured key of KeyOrder.tla.
type SKey struct {
	P []int
	T string
	W int
	L int
	F int
}

func skeyOf(x any) SKey {
	m := x.(map[string]any)
	v := m["v"].(map[string]any)
	k := SKey{T: v["t"].(string), W: int(v["w"].(float64)), L: int(v["l"].(float64)), F: int(v["f"].(float64))}
	for _, d := range m["p"].([]any) {
		k.P = append(k.P, int(d.(float64)))
	}
	return k
}

func (k SKey) JSON() Ev {
	p := make([]int, len(k.P))
	copy(p, k.P)
	return Ev{"p": p, "v": Ev{"t": k.T, "w": k.W, "l": k.L, "f": k.F}}
}

var noKeyJSON = Ev{"p": []int{}, "v": Ev{"t": "none", "w": 0, "l": 0, "f": 0}}

func prefixBytes(p []int) []byte {
	b := make([]byte, len(p))
	for i, d := range p {
		b[i] = byte(d)
	}
	return b
}

var syntheticTail = []byte("_synthetic")

// encode builds the real key bytes of a structured key.
func encode(fam string, k SKey) []byte {
	p := prefixBytes(k.P)
	switch fam {
	case "bytes":
		return p
	case "testkeys":
		if k.T == "none" {
			return p
		}
		b := append(p, testkeys.Suffix(int64(k.W))...)
		if k.F == 1 {
			b = append(b, syntheticTail...)
		}
		return b
	case "crdb":
		var ver []byte
		switch k.T {
		case "none":
		case "mvcc":
			ver = make([]byte, k.F)
			binary.BigEndian.PutUint64(ver, uint64(k.W))
			if k.F >= 12 {
				binary.BigEndian.PutUint32(ver[8:], uint32(k.L))
			}
			if k.F == 13 {
				ver[12] = 1
			}
		case "lock":
			ver = make([]byte, 17)
			ver[0] = byte(k.W)
			ver[16] = byte(k.L)
		}
		key := cockroachkvs.EncodeKey(nil, p, ver)
		// the canonical forms must be what the package's own MVCC encoder produces
		if k.T == "mvcc" && ((k.F == 8 && k.L == 0 && k.W > 0) || (k.F == 12 && k.L > 0)) {
			if alt := cockroachkvs.EncodeMVCCKey(nil, p, uint64(k.W), uint32(k.L)); !bytes.Equal(alt, key) {
				panic(fmt.Sprintf("EncodeMVCCKey %x differs from EncodeKey %x", alt, key))
			}
		}
		return key
	}
	panic("unknown family " + fam)
}

// decode maps real key bytes back to a structured key; ok=false when the bytes are not a valid key of the family.
func decode(fam string, b []byte) (k SKey, ok bool) {
	ints := func(x []byte) []int {
		r := make([]int, len(x))
		for i := range x {
			r[i] = int(x[i])
		}
		return r
	}
	k.T = "none"
	switch fam {
	case "bytes":
		k.P = ints(b)
		return k, true
	case "testkeys":
		i := bytes.LastIndexByte(b, '@')
		if i < 0 {
			k.P = ints(b)
			return k, true
		}
		k.P = ints(b[:i])
		s := b[i+1:]
		if bytes.HasSuffix(s, syntheticTail) {
			k.F = 1
			s = s[:len(s)-len(syntheticTail)]
		}
		n, err := strconv.ParseUint(string(s), 10, 63)
		if err != nil {
			return k, false
		}
		k.T, k.W = "ts", int(n)
		return k, true
	case "crdb":
		roach, ver, dok := cockroachkvs.DecodeEngineKey(b)
		if !dok {
			return k, false
		}
		k.P = ints(roach)
		switch len(ver) {
		case 0:
		case 8, 12, 13:
			k.T, k.F = "mvcc", len(ver)
			k.W = int(binary.BigEndian.Uint64(ver))
			if len(ver) >= 12 {
				k.L = int(binary.BigEndian.Uint32(ver[8:]))
			}
		case 17:
			for _, x := range ver[1:16] {
				if x != 0 {
					return k, false
				}
			}
			k.T, k.F, k.W, k.L = "lock", 17, int(ver[0]), int(ver[16])
		default:
			return k, false
		}
		return k, true
	}
	return k, false
}

func comparerOf(fam string) *base.Comparer {
	switch fam {
	case "bytes":
		return base.DefaultComparer.EnsureDefaults()
	case "testkeys":
		return testkeys.Comparer.EnsureDefaults()
	case "crdb":
		c := cockroachkvs.Comparer
		return c.EnsureDefaults()
	}
	panic("unknown family " + fam)
}

// shortStack names the innermost pebble frames of a panic (for the replay file).
func shortStack() string {
	var fr []string
	for _, l := range strings.Split(string(debug.Stack()), "\n") {
		l = strings.TrimSpace(l)
		if strings.Contains(l, ".go:") && !strings.Contains(l, "/runtime/") && !strings.Contains(l, "/testing/") {
			if !strings.Contains(l, "internal/verif/encdrv") {
				if i := strings.LastIndex(l, " +0x"); i > 0 {
					l = l[:i]
				}
				fr = append(fr, filepath.Base(filepath.Dir(l))+"/"+filepath.Base(l))
			}
		}
		if len(fr) >= 4 {
			break
		}
	}
	return strings.Join(fr, " < ")
}

func sgn(x int) int { return cmp.Compare(x, 0) }

type c35 struct {
	t                                     *Trace
	nPairs, nTriples, nLaws, nUndecodable int
	goMismatch                            int
	seenSucc                              map[string]bool
	n                                     int // event number inside the current file
}

func (c *c35) guarded(op string, base Ev, f func(e Ev)) {
	e := Ev{}
	for k, v := range base {
		e[k] = v
	}
	c.n++
	e["op"], e["err"], e["n"] = op, "", c.n
	func() {
		defer func() {
			if r := recover(); r != nil {
				e["err"] = fmt.Sprint("panic: ", r, " @ ", shortStack())
			}
		}()
		f(e)
	}()
	c.t.Emit(e)
}

func (c *c35) pair(fam string, cs Ev, a, b SKey) {
	cp := comparerOf(fam)
	ka, kb := encode(fam, a), encode(fam, b)
	c.guarded("pair", Ev{"fam": fam, "a": a.JSON(), "b": b.JSON(), "cmp": 9, "cmpba": 9, "eq": false, "spa": -1, "spb": -1,
		"psfx": 9, "rsfx": 9, "rsfxba": 9, "abbr": 0}, func(e Ev) {
		e["cmp"], e["cmpba"] = sgn(cp.Compare(ka, kb)), sgn(cp.Compare(kb, ka))
		e["eq"] = cp.Equal(ka, kb)
		sa, sb := cp.Split(ka), cp.Split(kb)
		e["spa"], e["spb"] = sa, sb
		if sa >= 0 && sa <= len(ka) && sb >= 0 && sb <= len(kb) {
			e["psfx"] = sgn(cp.ComparePointSuffixes(ka[sa:], kb[sb:]))
			e["rsfx"] = sgn(cp.CompareRangeSuffixes(ka[sa:], kb[sb:]))
			e["rsfxba"] = sgn(cp.CompareRangeSuffixes(kb[sb:], ka[sa:]))
		}
		e["abbr"] = cmp.Compare(cp.AbbreviatedKey(ka), cp.AbbreviatedKey(kb))
		// diagnostics only: the generator's prediction
		if e["cmp"] != cs.I("cmp") || e["spa"] != cs.I("spa") {
			c.goMismatch++
		}
	})
	c.nPairs++
	// laws
	if cs.I("cmp") < 0 && len(ka) > 0 && len(kb) > 0 {
		c.guarded("sep", Ev{"fam": fam, "a": a.JSON(), "b": b.JSON(), "ok": false, "k": noKeyJSON, "ka": 9, "kb": 9}, func(e Ev) {
			kk := cp.Separator(nil, ka, kb)
			k, ok := decode(fam, kk)
			if !ok {
				c.nUndecodable++
				return
			}
			e["ok"], e["k"] = true, k.JSON()
			e["ka"], e["kb"] = sgn(cp.Compare(ka, kk)), sgn(cp.Compare(kk, kb))
		})
		c.nLaws++
	}
	sk := fam + string(ka)
	if !c.seenSucc[sk] {
		c.seenSucc[sk] = true
		c.guarded("succ", Ev{"fam": fam, "a": a.JSON(), "ok": false, "k": noKeyJSON, "ka": 9}, func(e Ev) {
			kk := cp.Successor(nil, ka)
			k, ok := decode(fam, kk)
			if !ok {
				c.nUndecodable++
				return
			}
			e["ok"], e["k"] = true, k.JSON()
			e["ka"] = sgn(cp.Compare(ka, kk))
		})
		c.nLaws++
		if a.T == "none" && len(ka) > 0 {
			c.guarded("isucc", Ev{"fam": fam, "a": a.JSON(), "ok": false, "k": noKeyJSON, "ka": 9, "ksplit": false}, func(e Ev) {
				kk := cp.ImmediateSuccessor(nil, ka)
				k, ok := decode(fam, kk)
				if !ok {
					c.nUndecodable++
					return
				}
				e["ok"], e["k"] = true, k.JSON()
				e["ka"] = sgn(cp.Compare(ka, kk))
				e["ksplit"] = cp.Split(kk) == len(kk)
			})
			c.nLaws++
		}
	}
}

func (c *c35) triple(fam string, a, b, x SKey) {
	cp := comparerOf(fam)
	ka, kb, kc := encode(fam, a), encode(fam, b), encode(fam, x)
	c.guarded("triple", Ev{"fam": fam, "a": a.JSON(), "b": b.JSON(), "c": x.JSON(), "ab": 9, "bc": 9, "ac": 9}, func(e Ev) {
		e["ab"], e["bc"], e["ac"] = sgn(cp.Compare(ka, kb)), sgn(cp.Compare(kb, kc)), sgn(cp.Compare(ka, kc))
	})
	c.nTriples++
}

func TestC35(t *testing.T) {
	out := envStr("VERIF_OUT", "")
	if out == "" {
		t.Skip("VERIF_OUT not set")
	}
	seed := envInt("VERIF_SEED", 1)
	cases, err := readJSONL(envStr("VERIF_CASES", ""))
	must(err)
	perFile := envInt("VERIF_PERFILE", 4000)
	c := &c35{seenSucc: map[string]bool{}}
	nFiles := 0
	for i, cs := range cases {
		if i%perFile == 0 {
			if c.t != nil {
				must(c.t.Close())
			}
			c.t, err = NewTrace(filepath.Join(out, fmt.Sprintf("c35-%d-%05d.ndjson", seed, nFiles)))
			c.n = 0
			must(err)
			nFiles++
		}
		fam := cs.S("fam")
		a, b, x := skeyOf(cs["a"]), skeyOf(cs["b"]), skeyOf(cs["c"])
		if x.T == "unset" {
			c.pair(fam, cs, a, b)
		} else {
			c.triple(fam, a, b, x)
		}
	}
	if c.t != nil {
		must(c.t.Close())
	}
	fmt.Printf("DRIVER-DONE cases=%d files=%d pairs=%d triples=%d laws=%d undecodable=%d gomismatch=%d\n",
		len(cases), nFiles, c.nPairs, c.nTriples, c.nLaws, c.nUndecodable, c.goMismatch)
}
