package encdrv

// C35, cockroach columnar key schema: every generated table (VERIF_TABLES) is
// written with the real sstable writer using cockroachkvs.KeySchema
// (cockroachKeyWriter) and read back with the real columnar iterator
// (cockroachKeySeeker): full scan, SeekGE and SeekLT of every probe key.
// Events: table / scan / seek of KeyOrderTrace.tla.

import (
	"context"
	"fmt"
	"path/filepath"
	"testing"

	"github.com/cockroachdb/pebble/cockroachkvs"
	"github.com/cockroachdb/pebble/internal/base"
	"github.com/cockroachdb/pebble/objstorage"
	"github.com/cockroachdb/pebble/sstable"
)

func keysJSON(ks []SKey) []any {
	r := make([]any, len(ks))
	for i := range ks {
		r[i] = ks[i].JSON()
	}
	return r
}

func TestC35Seek(t *testing.T) {
	out := envStr("VERIF_OUT", "")
	if out == "" {
		t.Skip("VERIF_OUT not set")
	}
	seed := envInt("VERIF_SEED", 1)
	tables, err := readJSONL(envStr("VERIF_TABLES", ""))
	must(err)
	c := &c35{seenSucc: map[string]bool{}}
	nFiles := 0
	rotate := func() {
		if c.t != nil {
			must(c.t.Close())
		}
		c.t, err = NewTrace(filepath.Join(out, fmt.Sprintf("c35seek-%d-%04d.ndjson", seed, nFiles)))
		must(err)
		c.n = 0
		nFiles++
	}
	rotate()
	cmp := cockroachkvs.Comparer
	nSeeks, nTables := 0, 0
	for ti, tb := range tables {
		if c.t.N > 15000 {
			rotate()
		}
		var tab, probes []SKey
		for _, x := range tb["tab"].([]any) {
			tab = append(tab, skeyOf(x))
		}
		for _, x := range tb["probes"].([]any) {
			probes = append(probes, skeyOf(x))
		}
		// small blocks: a couple of keys per data block, so seeks cross blocks; large: one block
		for _, bs := range []int{24 + 40*(ti%3), 4096} {
			var rd *sstable.Reader
			c.guarded("table", Ev{"fam": "crdb", "keys": keysJSON(tab), "blocksize": bs}, func(e Ev) {
				obj := &objstorage.MemObj{}
				w := sstable.NewRawWriter(obj, sstable.WriterOptions{
					Comparer: &cmp, KeySchema: &cockroachkvs.KeySchema, TableFormat: sstable.TableFormatMax,
					BlockSize: bs,
				})
				for i, k := range tab {
					ik := base.MakeInternalKey(encode("crdb", k), base.SeqNum(1+i), base.InternalKeyKindSet)
					if err := w.Add(ik, []byte("v"), false, base.KVMeta{}); err != nil {
						w.Close()
						e["err"] = "Add: " + err.Error()
						return
					}
				}
				if err := w.Close(); err != nil {
					e["err"] = "Close: " + err.Error()
					return
				}
				r, err := sstable.NewMemReader(append([]byte(nil), obj.Data()...), sstable.ReaderOptions{
					Comparer: &cmp, KeySchemas: sstable.MakeKeySchemas(&cockroachkvs.KeySchema),
				})
				if err != nil {
					e["err"] = "NewMemReader: " + err.Error()
					return
				}
				rd = r
			})
			if rd == nil {
				continue
			}
			nTables++
			it, err := rd.NewPointIter(context.Background(), sstable.IterOptions{
				FilterBlockSizeLimit: sstable.NeverUseFilterBlock, Env: sstable.NoReadEnv,
				ReaderProvider: sstable.MakeTrivialReaderProvider(rd), BlobContext: sstable.AssertNoBlobHandles,
			})
			must(err)
			one := func(kv *base.InternalKV) ([]any, string) {
				if kv == nil {
					return []any{}, ""
				}
				k, ok := decode("crdb", kv.K.UserKey)
				if !ok {
					return []any{}, fmt.Sprintf("undecodable key %x", kv.K.UserKey)
				}
				return []any{k.JSON()}, ""
			}
			c.guarded("scan", Ev{"res": []any{}}, func(e Ev) {
				res := []any{}
				for kv := it.First(); kv != nil; kv = it.Next() {
					r, errs := one(kv)
					if errs != "" {
						e["err"] = errs
						return
					}
					res = append(res, r[0])
				}
				e["res"] = res
			})
			for _, p := range probes {
				pk := encode("crdb", p)
				for _, o := range []string{"ge", "lt"} {
					c.guarded("seek", Ev{"o": o, "k": p.JSON(), "res": []any{}}, func(e Ev) {
						var kv *base.InternalKV
						if o == "ge" {
							kv = it.SeekGE(pk, base.SeekGEFlagsNone)
						} else {
							kv = it.SeekLT(pk, base.SeekLTFlagsNone)
						}
						r, errs := one(kv)
						e["res"], e["err"] = r, errs
					})
					nSeeks++
				}
			}
			if err := it.Close(); err != nil {
				c.guarded("scan", Ev{"res": []any{}}, func(e Ev) { e["err"] = "iterator Close: " + err.Error() })
			}
			rd.Close()
		}
	}
	must(c.t.Close())
	fmt.Printf("DRIVER-DONE tables=%d written=%d seeks=%d\n", len(tables), nTables, nSeeks)
}
