// Package encdrv drives the real batch encoding (C31) and the real comparers
// (C35) from TLC-generated inputs and records NDJSON traces in the vocabularies
// of /verif/spec/BatchEnc/BatchEncTrace.tla and /verif/spec/KeyOrder/KeyOrderTrace.tla.
// The drivers execute and record; TLC decides.
package encdrv

import (
	"bufio"
	"bytes"
	"encoding/json"
	"fmt"
	"os"
	"strconv"
)

// Univ is the key universe of KV.tla: ranks 0..R-1, R = P*(S+1); testkeys-style keys.
type Univ struct{ P, S int }

func (u Univ) R() int { return u.P * (u.S + 1) }

func (u Univ) Key(rank int) []byte {
	if rank >= u.R() {
		return []byte("zz")
	}
	p := rank / (u.S + 1)
	pos := rank % (u.S + 1)
	k := []byte{byte('a' + p)}
	if pos == 0 {
		return k
	}
	return append(k, []byte("@"+strconv.Itoa(u.S+1-pos))...)
}

func (u Univ) Suffix(s int) []byte {
	if s == 0 {
		return nil
	}
	return []byte("@" + strconv.Itoa(s))
}

// SuffixNum returns -1 for a suffix outside the universe.
func (u Univ) SuffixNum(b []byte) int {
	if len(b) == 0 {
		return 0
	}
	if b[0] != '@' {
		return -1
	}
	n, err := strconv.Atoi(string(b[1:]))
	if err != nil || n < 1 || n > u.S {
		return -1
	}
	return n
}

// Rank maps a user key back to a rank; -1 for a key outside the universe.
func (u Univ) Rank(k []byte) int {
	if bytes.Equal(k, []byte("zz")) {
		return u.R()
	}
	if len(k) == 0 {
		return -1
	}
	p := int(k[0]) - 'a'
	if p < 0 || p >= u.P {
		return -1
	}
	rest := k[1:]
	if len(rest) == 0 {
		return p * (u.S + 1)
	}
	s := u.SuffixNum(rest)
	if s < 1 {
		return -1
	}
	return p*(u.S+1) + (u.S + 1 - s)
}

// values: id -> "v<id>."; merges concatenate, so a value decodes to a list of ids.
func EncVal(id int) []byte { return []byte("v" + strconv.Itoa(id) + ".") }

func DecVal(v []byte) ([]int, error) {
	ids := []int{}
	for len(v) > 0 {
		i := bytes.IndexByte(v, '.')
		if i < 0 || v[0] != 'v' {
			return nil, fmt.Errorf("undecodable value %q", v)
		}
		id, err := strconv.Atoi(string(v[1:i]))
		if err != nil {
			return nil, fmt.Errorf("undecodable value %q", v)
		}
		ids = append(ids, id)
		v = v[i+1:]
	}
	return ids, nil
}

func DecVal1(v []byte) int {
	ids, err := DecVal(v)
	if err != nil || len(ids) != 1 {
		return -1
	}
	return ids[0]
}

// Ev is one trace event / generated op.
type Ev map[string]any

func (e Ev) S(k string) string {
	v, _ := e[k].(string)
	return v
}
func (e Ev) I(k string) int {
	switch v := e[k].(type) {
	case int:
		return v
	case float64:
		return int(v)
	}
	return 0
}
func (e Ev) Ops(k string) []Ev {
	switch v := e[k].(type) {
	case []Ev:
		return v
	case []any:
		r := make([]Ev, len(v))
		for i := range v {
			r[i] = Ev(v[i].(map[string]any))
		}
		return r
	}
	return nil
}

type Trace struct {
	f *os.File
	w *bufio.Writer
	N int
}

func NewTrace(path string) (*Trace, error) {
	f, err := os.Create(path)
	if err != nil {
		return nil, err
	}
	return &Trace{f: f, w: bufio.NewWriterSize(f, 1<<20)}, nil
}

func (t *Trace) Emit(e Ev) {
	b, err := json.Marshal(e)
	if err != nil {
		panic(err)
	}
	t.w.Write(b)
	t.w.WriteByte('\n')
	t.N++
}

func (t *Trace) Close() error {
	if err := t.w.Flush(); err != nil {
		return err
	}
	return t.f.Close()
}

func envInt(name string, def int) int {
	if s := os.Getenv(name); s != "" {
		if n, err := strconv.Atoi(s); err == nil {
			return n
		}
	}
	return def
}

func envStr(name, def string) string {
	if s := os.Getenv(name); s != "" {
		return s
	}
	return def
}

func must(err error) {
	if err != nil {
		panic(err)
	}
}

// readJSONL reads one JSON object per line.
func readJSONL(path string) ([]Ev, error) {
	f, err := os.Open(path)
	if err != nil {
		return nil, err
	}
	defer f.Close()
	var r []Ev
	sc := bufio.NewScanner(f)
	sc.Buffer(make([]byte, 1<<20), 1<<26)
	for sc.Scan() {
		if len(bytes.TrimSpace(sc.Bytes())) == 0 {
			continue
		}
		var e map[string]any
		if err := json.Unmarshal(sc.Bytes(), &e); err != nil {
			return nil, err
		}
		r = append(r, Ev(e))
	}
	return r, sc.Err()
}
