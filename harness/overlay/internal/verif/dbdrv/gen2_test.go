package dbdrv

// Additional profiles and actions: checkpoints (C38), internal scans (C45),
// close/leak accounting (C47), separated values (C44).

func init() {
	extraProfiles = func(add func(Profile)) {
		add(Profile{Name: "C15", W: map[string]int{"write": 45, "ingest": 10, "ingestpair": 8, "excise": 4, "ingestexcise": 3, "maint": 22, "viewiter": 8, "viewop": 6, "close": 6, "snap": 3},
			RangeKeys: 1, MaxSnaps: 2, MaxIters: 3, IterCls: "view", ReadIters: true})
		add(Profile{Name: "C38", W: map[string]int{"write": 50, "ingest": 6, "maint": 12, "checkpoint": 14, "checkpointinner": 8},
			RangeKeys: 1, FlushBeforeIngest: true})
		add(Profile{Name: "C45", W: map[string]int{"write": 50, "ingest": 5, "maint": 12, "scanint": 18, "snap": 6, "close": 3},
			RangeKeys: 1, MaxSnaps: 2})
		add(Profile{Name: "C47", W: map[string]int{"write": 45, "ingest": 6, "excise": 2, "maint": 12, "snap": 6, "viewiter": 8, "viewop": 8, "batchnew": 4, "batchop": 6, "close": 6, "efos": 3, "setopts": 6, "setbounds": 3, "clone": 3},
			RangeKeys: 1, MaxSnaps: 2, MaxIters: 3, IterCls: "view"})
		add(Profile{Name: "C44", W: map[string]int{"write": 50, "ingest": 6, "maint": 18, "snap": 6, "viewiter": 6, "close": 4, "get": 10, "scan": 5},
			ScanLatest: true, GetLatest: 3, ReadSnaps: true, ReadIters: true, RangeKeys: 1, MaxSnaps: 2, MaxIters: 2, IterCls: "view"})
	}
}

func (g *Gen) actCheckpoint() {
	e := Ev{"op": "checkpoint", "flushwal": g.Rng.IntN(2) == 0, "spans": [][]int{}}
	if g.Rng.IntN(3) == 0 {
		a, b := g.pspan()
		e["spans"] = [][]int{{a, b}}
	}
	g.R.Exec(e)
}

// actCheckpointInner: writes issued while a Checkpoint is in progress (after it captured its view):
// an ingestion (a version edit and a sequence number, no WAL record) followed by an ordinary
// commit (a WAL record).  The checkpoint must still open as a prefix of the history.
func (g *Gen) actCheckpointInner() {
	tables, flat := g.ingestTables()
	w := []Ev{g.writeOp(false, map[int]bool{})}
	inner := []Ev{{"op": "ingest", "tables": tables, "ops": flat}, {"op": "commit", "ops": w, "sync": g.Rng.IntN(2) == 0}}
	if g.Rng.IntN(3) == 0 {
		inner = inner[1:]
	}
	e := Ev{"op": "checkpoint", "flushwal": g.Rng.IntN(2) == 0, "spans": [][]int{}, "inner": inner}
	g.preIngest()
	g.R.Exec(e)
	for _, ie := range inner {
		g.track(ie["ops"].([]Ev))
	}
	g.afterWrite()
}

func (g *Gen) actScanInt() {
	src := 0
	if len(g.snaps) > 0 && g.Rng.IntN(3) == 0 {
		s := g.snaps[g.Rng.IntN(len(g.snaps))]
		if !g.snapTaint[s] {
			src = s
		}
	}
	a, b := g.pspan()
	cls := "scanint"
	g.R.Exec(Ev{"op": "scanint", "src": src, "a": a, "b": b, "obsolete": !g.noMerge, "cls": cls})
}
