package dbdrv

import (
	"context"
	"fmt"
	"io"
	"math/rand/v2"
	"sort"
	"strings"
	"time"

	"github.com/cockroachdb/errors"
	"github.com/cockroachdb/pebble"
	"github.com/cockroachdb/pebble/sstable/tablefilters/bloom"
	"github.com/cockroachdb/pebble/internal/testkeys"
	"github.com/cockroachdb/pebble/objstorage/objstorageprovider"
	"github.com/cockroachdb/pebble/sstable"
	"github.com/cockroachdb/pebble/vfs"
)

// Config is one DB configuration of the matrix (DESIGN §3.5).  The model knows
// none of these: the logical result must not depend on them.
type Config struct {
	Name           string
	MemTableSize   uint64
	L0Threshold    int
	SmallFiles     bool // tiny target file sizes / LBaseMaxBytes so that levels hold several files
	FMV            pebble.FormatMajorVersion
	DisableWAL     bool
	ValueSep       bool
	ValSepMin      int // ValueSeparationPolicy.MinimumSize (default 30)
	ValSizes       []int
	AutoCompact    bool
	MaintEvery     int  // force a flush (and sometimes a compaction) every n write steps; 0 = only scripted
	NoLazyCombined bool
	BlockSize      int
	Bloom          bool
	ManifestSize   int64
	Recycle        bool
	Concurrency    int
	MemStop        int  // MemTableStopWritesThreshold (0 = default 2); > 2 lets several flushable ingests queue up
	Remote         bool // remote (in-memory) object storage configured: external ingestion possible
}

func Configs() map[string]Config {
	m := map[string]Config{}
	add := func(c Config) { m[c.Name] = c }
	add(Config{Name: "default", FMV: pebble.FormatNewest, AutoCompact: true})
	add(Config{Name: "flushy", FMV: pebble.FormatNewest, MemTableSize: 64 << 10, L0Threshold: 1, SmallFiles: true,
		AutoCompact: true, MaintEvery: 1, BlockSize: 64, Bloom: true})
	add(Config{Name: "flushy2", FMV: pebble.FormatNewest, MemTableSize: 64 << 10, L0Threshold: 2, SmallFiles: true,
		AutoCompact: true, MaintEvery: 2, BlockSize: 32, ManifestSize: 400})
	add(Config{Name: "manual", FMV: pebble.FormatNewest, MemTableSize: 64 << 10, L0Threshold: 4, SmallFiles: true,
		AutoCompact: false, MaintEvery: 3})
	add(Config{Name: "bigvals", FMV: pebble.FormatNewest, MemTableSize: 64 << 10, L0Threshold: 2, SmallFiles: true,
		AutoCompact: true, ValSizes: []int{0, 0, 300, 0, 9000, 0, 40000}, MaintEvery: 4})
	add(Config{Name: "valsep", FMV: pebble.FormatNewest, MemTableSize: 64 << 10, L0Threshold: 2, SmallFiles: true,
		AutoCompact: true, ValueSep: true, ValSizes: []int{0, 40, 0, 600, 3, 5000}, MaintEvery: 2})
	add(Config{Name: "valsep1", FMV: pebble.FormatNewest, MemTableSize: 64 << 10, L0Threshold: 1, SmallFiles: true,
		AutoCompact: true, ValueSep: true, ValSepMin: 1, ValSizes: []int{0, 40, 0, 600, 3, 5000}, MaintEvery: 1})
	add(Config{Name: "valsepman", FMV: pebble.FormatNewest, MemTableSize: 64 << 10, L0Threshold: 4, SmallFiles: true,
		AutoCompact: false, ValueSep: true, ValSepMin: 100, ValSizes: []int{0, 99, 100, 101, 3000, 20000}, MaintEvery: 2})
	add(Config{Name: "oldfmv", FMV: pebble.FormatMinSupported, MemTableSize: 64 << 10, L0Threshold: 2, SmallFiles: true,
		AutoCompact: true, MaintEvery: 2})
	add(Config{Name: "nowal", FMV: pebble.FormatNewest, DisableWAL: true, MemTableSize: 64 << 10, L0Threshold: 2,
		SmallFiles: true, AutoCompact: true, MaintEvery: 3})
	add(Config{Name: "ext", FMV: pebble.FormatNewest, MemTableSize: 64 << 10, L0Threshold: 2, SmallFiles: true,
		AutoCompact: true, MaintEvery: 3, Remote: true})
	add(Config{Name: "extman", FMV: pebble.FormatNewest, MemTableSize: 64 << 10, L0Threshold: 4, SmallFiles: true,
		AutoCompact: false, MaintEvery: 4, Remote: true, BlockSize: 32})
	add(Config{Name: "nolazy", FMV: pebble.FormatNewest, MemTableSize: 64 << 10, L0Threshold: 2, SmallFiles: true,
		AutoCompact: true, MaintEvery: 2, NoLazyCombined: true})
	return m
}

type handle struct {
	typ   string // snap, efos, batch, iter
	snap  *pebble.Snapshot
	efos  *pebble.EventuallyFileOnlySnapshot
	batch *pebble.Batch
	iter  *pebble.Iterator
	src   int
	cls   string
}

// Runner executes events against one real DB and records the trace.
type Runner struct {
	U     Univ
	Cfg   Config
	VC    ValCodec
	FS    vfs.FS
	Mem   *vfs.MemFS
	Dir   string
	Opts  *pebble.Options
	DB    *pebble.DB
	T     *Trace
	H     map[int]*handle
	Steps int
	// Fatal holds the first driver-level failure (an API call that must succeed
	// returned an error, an undecodable value ...).  These are observable
	// failures of the real code, reported through the trace as a "fail" event
	// that no spec action accepts.
	Fatal   error
	sstN    int
	Listener *pebble.EventListener
	Crash    *crashCtl // crash enumeration (nil outside the crash engine)
	// BeforeIngest, if set, runs once right before the next DB.Ingest call (after the external tables were written)
	BeforeIngest func()
	Hook         *fsHook // set when the filesystem is a countFS with a hook
	noMaint      bool    // suppress the configuration's periodic maintenance (calls issued inside another call)
	// Logger replaces the default logger (whose Fatalf panics)
	Logger pebble.Logger
}

func (r *Runner) MakeOptions() *pebble.Options {
	c := r.Cfg
	o := &pebble.Options{
		Comparer:           testkeys.Comparer,
		FS:                 r.FS,
		FormatMajorVersion: c.FMV,
		KeySchema:          "",
		Logger:             quietLogger{},
	}
	if r.Logger != nil {
		o.Logger = r.Logger
	}
	if c.Remote {
		r.setRemote(o)
	}
	o.BlockPropertyCollectors = []func() pebble.BlockPropertyCollector{sstable.NewTestKeysBlockPropertyCollector}
	if c.MemTableSize != 0 {
		o.MemTableSize = c.MemTableSize
	}
	if c.MemStop != 0 {
		o.MemTableStopWritesThreshold = c.MemStop
	}
	if c.L0Threshold != 0 {
		o.L0CompactionThreshold = c.L0Threshold
		o.L0CompactionFileThreshold = c.L0Threshold
	}
	if c.SmallFiles {
		o.LBaseMaxBytes = 2 << 10
		for i := range o.TargetFileSizes {
			o.TargetFileSizes[i] = 1 << 10
		}
		o.FlushSplitBytes = 1 << 10
	}
	if c.BlockSize != 0 {
		for i := range o.Levels {
			o.Levels[i].BlockSize = c.BlockSize
			o.Levels[i].IndexBlockSize = c.BlockSize
		}
	}
	if c.Bloom {
		for i := range o.Levels {
			o.Levels[i].TableFilterPolicy = func() pebble.TableFilterPolicy { return bloom.FilterPolicy(10) }
		}
	}
	o.DisableWAL = c.DisableWAL
	o.DisableAutomaticCompactions = !c.AutoCompact
	if !c.AutoCompact {
		// nobody compacts L0 behind the client's back: never stall writes on the L0 file count
		o.L0StopWritesThreshold = 1 << 20
	}
	if c.ManifestSize != 0 {
		o.MaxManifestFileSize = c.ManifestSize
	}
	if c.ValueSep {
		o.ValueSeparationPolicy = func() pebble.ValueSeparationPolicy {
			return pebble.ValueSeparationPolicy{
				Enabled:                  true,
				MinimumSize:              valSepMin(c),
				MinimumMVCCGarbageSize:   10,
				MaxBlobReferenceDepth:    3,
				RewriteMinimumAge:        0,
				GarbageRatioLowPriority:  0.10,
				GarbageRatioHighPriority: 0.30,
			}
		}
	}
	if c.Concurrency > 1 {
		n := c.Concurrency
		o.CompactionConcurrencyRange = func() (int, int) { return 1, n }
	}
	if r.Listener != nil {
		o.EventListener = r.Listener
	}
	o.EnsureDefaults()
	if c.NoLazyCombined {
		// private option, only reachable through Parse
		_ = o.Parse("[Options]\n  disable_lazy_combined_iteration=true\n", nil)
	}
	return o
}

type quietLogger struct{}

func (quietLogger) Infof(string, ...interface{})  {}
func (quietLogger) Errorf(string, ...interface{}) {}
func (quietLogger) Fatalf(f string, a ...interface{}) {
	panic(fmt.Sprintf("pebble fatal: "+f, a...))
}

func NewRunner(u Univ, cfg Config, fs vfs.FS, dir string, t *Trace) *Runner {
	r := &Runner{U: u, Cfg: cfg, FS: fs, Dir: dir, T: t, H: map[int]*handle{}}
	r.VC = ValCodec{Sizes: cfg.ValSizes}
	return r
}

func (r *Runner) Open() error {
	r.Opts = r.MakeOptions()
	db, err := pebble.Open(r.Dir, r.Opts)
	if err != nil {
		return err
	}
	r.DB = db
	return nil
}

func (r *Runner) fail(err error) {
	if r.Fatal == nil && err != nil {
		r.Fatal = err
		r.T.Emit(Ev{"op": "fail", "err": err.Error(), "cfg": r.Cfg.Name})
	}
}

// ---------------------------------------------------------------- writes

func (r *Runner) applyOp(b *pebble.Batch, op Ev) error {
	u := r.U
	switch op.S("o") {
	case "set":
		return b.Set(u.Key(op.I("k")), r.VC.Enc(op.I("v")), nil)
	case "del":
		return b.Delete(u.Key(op.I("k")), nil)
	case "sdel":
		return b.SingleDelete(u.Key(op.I("k")), nil)
	case "delsized":
		if r.DB.FormatMajorVersion() < pebble.FormatDeleteSizedAndObsolete {
			return b.Delete(u.Key(op.I("k")), nil)
		}
		return b.DeleteSized(u.Key(op.I("k")), uint32(op.I("sz")), nil)
	case "merge":
		return b.Merge(u.Key(op.I("k")), r.VC.Enc(op.I("v")), nil)
	case "delr":
		return b.DeleteRange(u.Key(op.I("a")), u.Key(op.I("b")), nil)
	case "rkset":
		return b.RangeKeySet(u.Key(op.I("a")), u.Key(op.I("b")), u.Suffix(op.I("s")), r.VC.Enc(op.I("v")), nil)
	case "rkunset":
		return b.RangeKeyUnset(u.Key(op.I("a")), u.Key(op.I("b")), u.Suffix(op.I("s")), nil)
	case "rkdel":
		return b.RangeKeyDelete(u.Key(op.I("a")), u.Key(op.I("b")), nil)
	case "logdata":
		return b.LogData([]byte("logdata"), nil)
	}
	return errors.Newf("unknown op %v", op)
}

func wo(sync bool) *pebble.WriteOptions {
	if sync {
		return pebble.Sync
	}
	return pebble.NoSync
}

// buildSST writes one sstable holding ops (canonical ingest form: range
// deletions, range-key ops, then points with distinct keys in key order).
func (r *Runner) buildSST(ops []Ev) (string, error) {
	r.sstN++
	path := r.FS.PathJoin(r.Dir, fmt.Sprintf("ext-%06d.sst", r.sstN))
	f, err := r.FS.Create(path, vfs.WriteCategoryUnspecified)
	if err != nil {
		return "", err
	}
	fmv := r.DB.FormatMajorVersion()
	wopts := r.Opts.MakeWriterOptions(0, fmv.MaxTableFormat())
	w := sstable.NewWriter(objstorageprovider.NewFileWritable(f), wopts)
	u := r.U
	var pts []Ev
	for _, op := range ops {
		switch op.S("o") {
		case "set", "del", "merge", "sdel":
			pts = append(pts, op)
		}
	}
	sort.SliceStable(pts, func(i, j int) bool { return pts[i].I("k") < pts[j].I("k") })
	for _, op := range pts {
		switch op.S("o") {
		case "set":
			err = w.Set(u.Key(op.I("k")), r.VC.Enc(op.I("v")))
		case "del":
			err = w.Delete(u.Key(op.I("k")))
		case "merge":
			err = w.Merge(u.Key(op.I("k")), r.VC.Enc(op.I("v")))
		}
		if err != nil {
			return "", err
		}
	}
	for _, op := range ops {
		if op.S("o") == "delr" {
			if err = w.DeleteRange(u.Key(op.I("a")), u.Key(op.I("b"))); err != nil {
				return "", err
			}
		}
	}
	var rks []Ev
	for _, op := range ops {
		switch op.S("o") {
		case "rkset", "rkunset", "rkdel":
			rks = append(rks, op)
		}
	}
	sort.SliceStable(rks, func(i, j int) bool { return rks[i].I("a") < rks[j].I("a") })
	for _, op := range rks {
		switch op.S("o") {
		case "rkset":
			err = w.RangeKeySet(u.Key(op.I("a")), u.Key(op.I("b")), u.Suffix(op.I("s")), r.VC.Enc(op.I("v")))
		case "rkunset":
			err = w.RangeKeyUnset(u.Key(op.I("a")), u.Key(op.I("b")), u.Suffix(op.I("s")))
		case "rkdel":
			err = w.RangeKeyDelete(u.Key(op.I("a")), u.Key(op.I("b")))
		}
		if err != nil {
			return "", err
		}
	}
	if err := w.Close(); err != nil {
		return "", err
	}
	return path, nil
}

// ---------------------------------------------------------------- reads

func (r *Runner) get(src int, k int) ([]int, error) {
	key := r.U.Key(k)
	var v []byte
	var c io.Closer
	var err error
	if src == 0 {
		v, c, err = r.DB.Get(key)
	} else {
		h := r.H[src]
		switch h.typ {
		case "snap":
			v, c, err = h.snap.Get(key)
		case "efos":
			v, c, err = h.efos.Get(key)
		case "batch":
			v, c, err = h.batch.Get(key)
		default:
			return nil, errors.Newf("get on handle of type %s", h.typ)
		}
	}
	if errors.Is(err, pebble.ErrNotFound) {
		return []int{}, nil
	}
	if err != nil {
		return nil, err
	}
	ids, derr := r.VC.Dec(v)
	c.Close()
	return ids, derr
}

func (r *Runner) iterOpts(lo, hi, mask, kt int, useFilter bool) *pebble.IterOptions {
	o := &pebble.IterOptions{}
	if lo > 0 {
		o.LowerBound = r.U.Key(lo)
	}
	if hi < r.U.R() {
		o.UpperBound = r.U.Key(hi)
	}
	switch kt {
	case 0:
		o.KeyTypes = pebble.IterKeyTypePointsOnly
	case 1:
		o.KeyTypes = pebble.IterKeyTypeRangesOnly
	case 2:
		o.KeyTypes = pebble.IterKeyTypePointsAndRanges
	}
	if mask > 0 {
		o.RangeKeyMasking.Suffix = r.U.Suffix(mask)
		if useFilter {
			o.RangeKeyMasking.Filter = func() pebble.BlockPropertyFilterMask {
				return sstable.NewTestKeysMaskingFilter()
			}
		}
	}
	return o
}

func (r *Runner) newIter(src int, o *pebble.IterOptions) (*pebble.Iterator, error) {
	if src == 0 {
		return r.DB.NewIter(o)
	}
	h := r.H[src]
	switch h.typ {
	case "snap":
		return h.snap.NewIter(o)
	case "efos":
		return h.efos.NewIter(o)
	case "batch":
		return h.batch.NewIter(o)
	}
	return nil, errors.Newf("newiter on handle of type %s", h.typ)
}

// result of the current iterator position in trace form
func (r *Runner) iterRes(it *pebble.Iterator, valid bool) (Ev, error) {
	if !valid {
		return Ev{"valid": false}, nil
	}
	u := r.U
	hp, hr := it.HasPointAndRange()
	res := Ev{"valid": true, "k": u.Rank(it.Key()), "hp": hp, "hr": hr, "v": []int{}, "rs": -1, "re": -1, "rkeys": [][]int{}}
	if hp {
		v, err := it.ValueAndErr()
		if err != nil {
			return nil, err
		}
		ids, err := r.VC.Dec(v)
		if err != nil {
			return nil, err
		}
		res["v"] = ids
	}
	if hr {
		s, e := it.RangeBounds()
		res["rs"], res["re"] = u.Rank(s), u.Rank(e)
		rk := [][]int{}
		for _, k := range it.RangeKeys() {
			ids, err := r.VC.Dec(k.Value)
			if err != nil {
				return nil, err
			}
			if len(ids) != 1 {
				return nil, errors.Newf("range key value with %d ids", len(ids))
			}
			rk = append(rk, []int{u.SuffixNum(k.Suffix), ids[0]})
		}
		res["rkeys"] = rk
	}
	return res, nil
}

// scan: a fresh unbounded combined iterator, forward; points in iteration order
// and the defragmented range-key spans.
func (r *Runner) scan(src int) (pts []any, rks []any, err error) {
	it, err := r.newIter(src, &pebble.IterOptions{KeyTypes: pebble.IterKeyTypePointsAndRanges})
	if err != nil {
		return nil, nil, err
	}
	defer func() {
		if cerr := it.Close(); err == nil {
			err = cerr
		}
	}()
	pts, rks = []any{}, []any{}
	u := r.U
	for ok := it.First(); ok; ok = it.Next() {
		hp, hr := it.HasPointAndRange()
		if hp {
			v, verr := it.ValueAndErr()
			if verr != nil {
				return nil, nil, verr
			}
			ids, derr := r.VC.Dec(v)
			if derr != nil {
				return nil, nil, derr
			}
			pts = append(pts, []any{u.Rank(it.Key()), ids})
		}
		if hr && it.RangeKeyChanged() {
			s, e := it.RangeBounds()
			ks := []any{}
			for _, k := range it.RangeKeys() {
				ids, derr := r.VC.Dec(k.Value)
				if derr != nil || len(ids) != 1 {
					return nil, nil, errors.Newf("bad range key value %q", k.Value)
				}
				ks = append(ks, []int{u.SuffixNum(k.Suffix), ids[0]})
			}
			rks = append(rks, []any{u.Rank(s), u.Rank(e), ks})
		}
	}
	return pts, rks, it.Error()
}

// ---------------------------------------------------------------- Exec

// Exec executes one event on the real DB, fills in the observed results and
// appends it to the trace.  Script events and generated events share this path.
func (r *Runner) Exec(e Ev) {
	if r.Fatal != nil {
		return
	}
	u := r.U
	ctx := context.Background()
	switch e.S("op") {
	case "commit":
		b := r.DB.NewBatch()
		for _, op := range e.Ops("ops") {
			if err := r.applyOp(b, op); err != nil {
				r.fail(err)
				return
			}
		}
		if r.Cfg.DisableWAL {
			e["sync"] = false // nothing acknowledges durability without a WAL
		}
		r.begin(e)
		err := r.DB.Apply(b, wo(e.B("sync")))
		if err != nil {
			r.end(nil)
			r.fail(errors.Wrap(err, "apply"))
			return
		}
		r.end(e)
		b.Close()
		r.afterWrite()
	case "ingest", "ingestexcise":
		var paths []string
		tables := e["tables"].([][]Ev)
		for _, t := range tables {
			p, err := r.buildSST(t)
			if err != nil {
				r.fail(errors.Wrap(err, "buildSST"))
				return
			}
			paths = append(paths, p)
		}
		out := Ev{"op": e.S("op"), "ops": e["ops"], "sync": !r.Cfg.DisableWAL}
		if e.S("op") == "ingestexcise" {
			out["a"], out["b"] = e.I("a"), e.I("b")
		}
		var err error
		if f := r.BeforeIngest; f != nil {
			r.BeforeIngest = nil
			f() // the external tables are built: start the concurrent job now
		}
		r.begin(out)
		if e.S("op") == "ingest" {
			err = r.DB.Ingest(ctx, paths)
		} else {
			_, err = r.DB.IngestAndExcise(ctx, paths, nil, nil, pebble.KeyRange{Start: u.Key(e.I("a")), End: u.Key(e.I("b"))})
		}
		if err != nil {
			r.end(nil)
			r.fail(errors.Wrap(err, e.S("op")))
			return
		}
		r.end(out)
		r.afterWrite()
	case "extingest":
		r.execExtIngest(e)
	case "excise":
		out := Ev{"op": "excise", "a": e.I("a"), "b": e.I("b"), "sync": !r.Cfg.DisableWAL}
		r.begin(out)
		err := r.DB.Excise(ctx, pebble.KeyRange{Start: u.Key(e.I("a")), End: u.Key(e.I("b"))})
		if err != nil {
			r.end(nil)
			r.fail(errors.Wrap(err, "excise"))
			return
		}
		r.end(out)
		r.afterWrite()
	case "get":
		res, err := r.get(e.I("src"), e.I("k"))
		if err != nil {
			r.fail(errors.Wrapf(err, "get src=%d k=%d", e.I("src"), e.I("k")))
			return
		}
		e["res"] = res
		r.T.Emit(e)
	case "scan":
		pts, rks, err := r.scan(e.I("src"))
		if err != nil {
			r.fail(errors.Wrapf(err, "scan src=%d", e.I("src")))
			return
		}
		e["pts"], e["rks"] = pts, rks
		r.T.Emit(e)
	case "rscan":
		pts, rks, err := r.rscan(e.I("src"))
		if err != nil {
			r.fail(errors.Wrapf(err, "rscan src=%d", e.I("src")))
			return
		}
		e["pts"], e["rks"] = pts, rks
		r.T.Emit(e)
	case "snap":
		r.H[e.I("h")] = &handle{typ: "snap", snap: r.DB.NewSnapshot()}
		r.T.Emit(e)
	case "efos":
		var krs []pebble.KeyRange
		for _, ab := range e["ranges"].([][]int) {
			krs = append(krs, pebble.KeyRange{Start: u.Key(ab[0]), End: u.Key(ab[1])})
		}
		r.H[e.I("h")] = &handle{typ: "efos", efos: r.DB.NewEventuallyFileOnlySnapshot(krs)}
		r.T.Emit(e)
	case "waitfileonly":
		h := r.H[e.I("h")]
		// force the transition: flush, then wait
		if err := r.DB.Flush(); err != nil {
			r.fail(err)
			return
		}
		if err := h.efos.WaitForFileOnlySnapshot(ctx, time.Millisecond); err != nil {
			r.fail(errors.Wrap(err, "WaitForFileOnlySnapshot"))
			return
		}
		r.T.Emit(Ev{"op": "maint", "kind": "waitfileonly"})
	case "batchnew":
		r.H[e.I("h")] = &handle{typ: "batch", batch: r.DB.NewIndexedBatch()}
		r.T.Emit(e)
	case "batchop":
		h := r.H[e.I("h")]
		if err := r.applyOp(h.batch, Ev(e["bop"].(Ev))); err != nil {
			r.fail(err)
			return
		}
		r.T.Emit(e)
	case "batchcommit":
		h := r.H[e.I("h")]
		if err := h.batch.Commit(wo(e.B("sync"))); err != nil {
			r.fail(errors.Wrap(err, "batch commit"))
			return
		}
		h.batch.Close()
		delete(r.H, e.I("h"))
		r.T.Emit(e)
		r.afterWrite()
	case "close":
		h := r.H[e.I("h")]
		var err error
		switch h.typ {
		case "snap":
			err = h.snap.Close()
		case "efos":
			err = h.efos.Close()
		case "batch":
			err = h.batch.Close()
		case "iter":
			err = closeIter(h.iter)
		}
		if err != nil {
			r.fail(errors.Wrapf(err, "close %s", h.typ))
			return
		}
		delete(r.H, e.I("h"))
		r.T.Emit(e)
	case "newiter":
		it, err := r.newIter(e.I("src"), r.iterOpts(e.I("lo"), e.I("hi"), e.I("mask"), e.I("kt"), e.B("filter")))
		if err != nil {
			r.fail(errors.Wrap(err, "newiter"))
			return
		}
		r.H[e.I("h")] = &handle{typ: "iter", iter: it, src: e.I("src"), cls: e.S("cls")}
		r.T.Emit(e)
	case "iter":
		h := r.H[e.I("h")]
		it := h.iter
		var valid bool
		switch e.S("o") {
		case "first":
			valid = it.First()
		case "last":
			valid = it.Last()
		case "seekge":
			valid = it.SeekGE(u.Key(e.I("k")))
		case "seeklt":
			valid = it.SeekLT(u.Key(e.I("k")))
		case "seekprefixge":
			valid = it.SeekPrefixGE(u.Key(e.I("k")))
		case "next":
			valid = it.Next()
		case "prev":
			valid = it.Prev()
		case "nextprefix":
			valid = it.NextPrefix()
		default:
			st, ok := r.iterLim(it, e)
			if !ok {
				r.fail(errors.Newf("unknown iter op %s", e.S("o")))
				return
			}
			valid = st == "valid"
			e["st"] = st
		}
		res, err := r.iterRes(it, valid)
		if err != nil {
			r.fail(errors.Wrapf(err, "iter %s", e.S("o")))
			return
		}
		e["res"] = res
		e["cls"] = h.cls
		e["err"] = it.Error() != nil
		if it.Error() != nil {
			e["errtext"] = it.Error().Error()
		}
		r.T.Emit(e)
	case "setbounds":
		h := r.H[e.I("h")]
		var lo, hi []byte
		if e.I("lo") > 0 {
			lo = u.Key(e.I("lo"))
		}
		if e.I("hi") < u.R() {
			hi = u.Key(e.I("hi"))
		}
		h.iter.SetBounds(lo, hi)
		r.T.Emit(e)
	case "setopts":
		h := r.H[e.I("h")]
		h.iter.SetOptions(r.iterOpts(e.I("lo"), e.I("hi"), e.I("mask"), e.I("kt"), e.B("filter")))
		r.T.Emit(e)
	case "clone":
		h := r.H[e.I("from")]
		it, err := h.iter.Clone(pebble.CloneOptions{
			IterOptions:      r.iterOpts(e.I("lo"), e.I("hi"), e.I("mask"), e.I("kt"), e.B("filter")),
			RefreshBatchView: e.B("refresh"),
		})
		if err != nil {
			r.fail(errors.Wrap(err, "clone"))
			return
		}
		r.H[e.I("h")] = &handle{typ: "iter", iter: it, src: h.src, cls: e.S("cls")}
		r.T.Emit(e)
	case "maint":
		r.maint(e.S("kind"))
	case "checkpoint":
		r.execCheckpoint(e)
	case "scanint":
		r.execScanInt(e)
	default:
		r.fail(errors.Newf("unknown event %v", e))
	}
}

func (r *Runner) maint(kind string) {
	ctx := context.Background()
	var err error
	switch kind {
	case "flush":
		err = r.DB.Flush()
		if err == nil {
			r.T.Emit(Ev{"op": "maint", "kind": kind})
			r.T.Emit(Ev{"op": "durable"})
			if r.Crash != nil {
				r.Crash.afterReturn()
			}
			return
		}
	case "compact":
		err = r.DB.Compact(ctx, r.U.Key(0), r.U.Key(r.U.R()), false)
	case "compactpar":
		err = r.DB.Compact(ctx, r.U.Key(0), r.U.Key(r.U.R()), true)
	case "ratchet":
		if v := r.DB.FormatMajorVersion(); v < pebble.FormatNewest {
			err = r.DB.RatchetFormatMajorVersion(v + 1)
		}
	case "ratchetmax":
		err = r.DB.RatchetFormatMajorVersion(pebble.FormatNewest)
	case "checklevels":
		err = r.DB.CheckLevels(nil)
	case "metrics":
		_ = r.DB.Metrics().String()
	default:
		err = errors.Newf("unknown maintenance kind %s", kind)
	}
	if err != nil {
		r.fail(errors.Wrapf(err, "maint %s", kind))
		return
	}
	r.T.Emit(Ev{"op": "maint", "kind": kind})
}

// afterWrite forces structure according to the configuration.
func (r *Runner) afterWrite() {
	r.Steps++
	if r.Crash != nil {
		r.Crash.afterReturn()
	}
	n := r.Cfg.MaintEvery
	if n == 0 || r.Fatal != nil || r.noMaint {
		return
	}
	if r.Steps%n == 0 {
		r.maint("flush")
	}
	if r.Steps%(3*n) == 0 {
		r.maint("compact")
	}
}

// CloseAll closes every open handle and the DB (C47 observes the error).
func (r *Runner) CloseAll() error {
	var first error
	ids := make([]int, 0, len(r.H))
	for id := range r.H {
		ids = append(ids, id)
	}
	// iterators first, then batches/snapshots
	sort.Slice(ids, func(i, j int) bool {
		a, b := r.H[ids[i]], r.H[ids[j]]
		if (a.typ == "iter") != (b.typ == "iter") {
			return a.typ == "iter"
		}
		return ids[i] < ids[j]
	})
	for _, id := range ids {
		h := r.H[id]
		var err error
		switch h.typ {
		case "iter":
			err = closeIter(h.iter)
		case "snap":
			err = h.snap.Close()
		case "efos":
			err = h.efos.Close()
		case "batch":
			err = h.batch.Close()
		}
		if err != nil && first == nil {
			first = errors.Wrapf(err, "closing %s handle %d", h.typ, id)
		}
	}
	r.H = map[int]*handle{}
	if r.DB != nil {
		if err := r.DB.Close(); err != nil && first == nil {
			first = errors.Wrap(err, "db close")
		}
		r.DB = nil
	}
	return first
}

// Iterator.Close returns the iterator's accumulated (sticky) error; only an
// error that was not already observable through Error() is a close failure.
func closeIter(it *pebble.Iterator) error {
	prior := it.Error()
	err := it.Close()
	if prior != nil {
		return nil
	}
	return err
}

var _ = strings.Join
var _ = rand.IntN
