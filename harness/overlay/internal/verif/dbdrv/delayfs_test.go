package dbdrv

import (
	"strings"
	"sync/atomic"
	"time"

	"github.com/cockroachdb/pebble/vfs"
)

// delayFS holds the caller for a moment right AFTER an fsync returned (and
// sometimes before it): code that captures state before a sync and records
// "synced" after it has its window exactly there, and an in-memory filesystem
// never opens it by itself.
type delayFS struct {
	vfs.FS
	n *atomic.Int64
	// inflight: goroutines currently held before a filesystem write op (in the crash
	// controller's callback); passed: write ops that were let through so far
	inflight, passed *atomic.Int64
}

type delayFile struct {
	vfs.File
	n                *atomic.Int64
	inflight, passed *atomic.Int64
}

func (d delayFS) wrap(f vfs.File, err error) (vfs.File, error) {
	if err != nil {
		return nil, err
	}
	return &delayFile{File: f, n: d.n, inflight: d.inflight, passed: d.passed}, nil
}
func (d delayFS) Create(name string, c vfs.DiskWriteCategory) (vfs.File, error) {
	// A job creating an output table is held for a moment before the file appears (and counts as
	// "in flight" meanwhile), so that a concurrent job's directory sync can land BEFORE the creation
	// and that job's bookkeeping AFTER it (pause() waits for in-flight ops to pass).
	if d.inflight != nil && strings.HasSuffix(name, ".sst") && d.n.Add(1)%2 == 0 {
		d.inflight.Add(1)
		time.Sleep(time.Duration(500+(d.n.Load()*131)%2500) * time.Microsecond)
		f, err := d.FS.Create(name, c)
		d.inflight.Add(-1)
		d.passed.Add(1)
		return d.wrap(f, err)
	}
	return d.wrap(d.FS.Create(name, c))
}
func (d delayFS) OpenDir(name string) (vfs.File, error) { return d.wrap(d.FS.OpenDir(name)) }
func (d delayFS) OpenReadWrite(name string, c vfs.DiskWriteCategory, opts ...vfs.OpenOption) (vfs.File, error) {
	return d.wrap(d.FS.OpenReadWrite(name, c, opts...))
}
func (d delayFS) ReuseForWrite(o, n string, c vfs.DiskWriteCategory) (vfs.File, error) {
	return d.wrap(d.FS.ReuseForWrite(o, n, c))
}

func (f *delayFile) pause() {
	n := f.n.Add(1)
	if n%4 == 0 {
		return
	}
	// If another goroutine is about to perform a write op, let it happen first (bounded wait):
	// that is the interleaving "B acts between A's fsync and A's bookkeeping".
	if f.inflight != nil && f.inflight.Load() > 0 {
		start := f.passed.Load()
		deadline := time.Now().Add(60 * time.Millisecond)
		for f.passed.Load() == start && time.Now().Before(deadline) {
			time.Sleep(50 * time.Microsecond)
		}
		time.Sleep(150 * time.Microsecond)
		return
	}
	time.Sleep(time.Duration(50+(n*37)%400) * time.Microsecond)
}
func (f *delayFile) Sync() error {
	err := f.File.Sync()
	f.pause()
	return err
}
func (f *delayFile) SyncData() error {
	err := f.File.SyncData()
	f.pause()
	return err
}
func (f *delayFile) SyncTo(length int64) (bool, error) {
	full, err := f.File.SyncTo(length)
	f.pause()
	return full, err
}
