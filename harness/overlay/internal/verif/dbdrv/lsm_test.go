package dbdrv

import (
	"context"
	"fmt"
	"os"
	"path/filepath"
	"runtime/debug"
	"sort"
	"strconv"
	"strings"
	"testing"
	"time"

	"github.com/cockroachdb/pebble"
	"github.com/cockroachdb/pebble/vfs"
)

// C15 / C39: the physical structure of the real LSM, logged after every step.
//
//	lsm{files:[[num,level,lo,hi,seqlo,seqhi]...], keys:[[k,seq,height,level]...]}
//	    every table of the current version and every internal point key with its
//	    position (height: memtable queue > L0 sublevels > L1 > ... > L6)
//	pin{h,files} / unpin{h}   the physical table files of the version an iterator pinned
//	removed{num,live}         a table file was removed from the directory; live = the physical
//	                          files of the current version at that instant
//	dirlist{ssts,live,blobs,liveblobs}  quiescent: directory contents vs. the current version

type rmFS struct {
	vfs.FS
	onRemove func(name string)
}

func (f *rmFS) Remove(name string) error {
	err := f.FS.Remove(name)
	if err == nil && f.onRemove != nil {
		f.onRemove(name)
	}
	return err
}

// physical (backing) table file numbers of the current version
func physFiles(db *pebble.DB) []int {
	set := map[int]bool{}
	tables, _ := db.SSTables()
	for _, lvl := range tables {
		for _, t := range lvl {
			set[int(t.BackingSSTNum)] = true
		}
	}
	out := make([]int, 0, len(set))
	for n := range set {
		out = append(out, n)
	}
	sort.Ints(out)
	return out
}

// dumpLSM: the table list and the key scan are two calls; a background flush may install a
// version in between, so the dump is retried until the table list is the same before and after.
func (r *Runner) dumpLSM() (Ev, error) {
	for try := 0; ; try++ {
		before := fmt.Sprint(r.DB.SSTables())
		ev, err := r.dumpLSMOnce()
		if err != nil {
			return nil, err
		}
		if after := fmt.Sprint(r.DB.SSTables()); after == before || try >= 5 {
			if after != before {
				return Ev{"op": "note", "lsm": "unstable"}, nil
			}
			return ev, nil
		}
	}
}

func (r *Runner) dumpLSMOnce() (Ev, error) {
	u := r.U
	files := [][]int{}
	phys := map[int]bool{}
	tables, err := r.DB.SSTables()
	if err != nil {
		return nil, err
	}
	for lvl, ts := range tables {
		for _, t := range ts {
			lo := u.Rank(t.Smallest.UserKey)
			hi := u.Rank(t.Largest.UserKey)
			if t.Largest.IsExclusiveSentinel() {
				hi--
			}
			if hi >= u.R() {
				hi = u.R() - 1
			}
			files = append(files, []int{int(t.FileNum), lvl, lo, hi, int(t.SmallestSeqNum), int(t.LargestSeqNum)})
			phys[int(t.BackingSSTNum)] = true
		}
	}
	keys := [][]int{}
	opts := pebble.ScanInternalOptions{
		IterOptions:         pebble.IterOptions{KeyTypes: pebble.IterKeyTypePointsOnly, LowerBound: u.Key(0), UpperBound: u.Key(u.R())},
		IncludeObsoleteKeys: true,
		VisitPointKey: func(key *pebble.InternalKey, _ pebble.LazyValue, info pebble.IteratorLevel) error {
			height, level := 0, -1
			switch info.Kind {
			case pebble.IteratorLevelFlushable:
				height = 1000 + info.FlushableIndex
			case pebble.IteratorLevelLSM:
				level = info.Level
				if info.Level == 0 {
					height = 100 + info.Sublevel
				} else {
					height = 50 - info.Level
				}
			default:
				return nil
			}
			keys = append(keys, []int{u.Rank(key.UserKey), int(key.SeqNum()), height, level})
			return nil
		},
		VisitRangeDel: func(start, end []byte, seqNum pebble.SeqNum) error { return nil },
	}
	if err := r.DB.ScanInternal(context.Background(), opts); err != nil {
		return nil, err
	}
	pl := make([]int, 0, len(phys))
	for n := range phys {
		pl = append(pl, n)
	}
	sort.Ints(pl)
	// every physical file the version references must be in the directory
	onDisk := map[int]bool{}
	ls, _ := r.FS.List(r.Dir)
	for _, f := range ls {
		if strings.HasSuffix(f, ".sst") && !strings.HasPrefix(f, "ext-") {
			if n, err := strconv.Atoi(strings.TrimSuffix(f, ".sst")); err == nil {
				onDisk[n] = true
			}
		}
	}
	missing := []int{}
	for _, n := range pl {
		if !onDisk[n] {
			missing = append(missing, n)
		}
	}
	return Ev{"op": "lsm", "files": files, "keys": keys, "phys": pl, "missing": missing}, nil
}

// runLSM: a C15/C39 workload.  Manual maintenance only (no automatic compactions) so that
// version changes happen inside the client's own calls, except for flushes of full memtables.
func runLSM(u Univ, cfg Config, seed uint64, steps int, path string) (int, error) {
	t, err := NewTrace(path)
	if err != nil {
		return 0, err
	}
	defer t.Close()
	var r *Runner
	base := vfs.NewMem()
	fs := &rmFS{FS: base}
	fs.onRemove = func(name string) {
		b := filepath.Base(name)
		if !strings.HasSuffix(b, ".sst") || strings.HasPrefix(b, "ext-") || r == nil || r.DB == nil {
			return
		}
		n, perr := strconv.Atoi(strings.TrimSuffix(b, ".sst"))
		if perr != nil {
			return
		}
		// (no DB call from inside the deleter: only record the removal; every later version dump
		// must not reference the file, and no pinned version may reference it now)
		t.Mu.Lock()
		ev := Ev{"op": "removed", "num": n}
		if os.Getenv("VERIF_DEBUG_RM") != "" {
			ev["path"] = name
			ev["stack"] = string(debug.Stack())
		}
		t.Buf = append(t.Buf, ev)
		t.Mu.Unlock()
	}
	r = NewRunner(u, cfg, fs, "db", t)
	r.Logger = crashLogger{}
	if err := r.Open(); err != nil {
		return 0, err
	}
	prof := Profiles()["C15"]
	g := NewGen(r, prof, seed)
	g.pinHook = func(h int, before []int) {
		after := physFiles(r.DB)
		if fmt.Sprint(before) == fmt.Sprint(after) {
			t.Emit(Ev{"op": "pin", "h": h, "files": after})
		}
	}
	func() {
		defer func() {
			if p := recover(); p != nil {
				r.fail(fmt.Errorf("panic: %v", p))
			}
		}()
		for i := 0; i < steps && r.Fatal == nil; i++ {
			g.Step()
			// dump and write under the trace mutex: a removal that happens after the dump was
			// taken must not be logged before it (the deleter's callback blocks on the mutex)
			t.Mu.Lock()
			t.FlushBufLocked()
			ev, derr := r.dumpLSM()
			if derr == nil {
				t.write(ev)
			}
			t.Mu.Unlock()
			if derr != nil {
				r.fail(derr)
				break
			}
		}
	}()
	if r.Fatal == nil {
		// quiescence: close every handle, let the deleter finish, compare directory and version
		for _, it := range append([]*genIter{}, g.iters...) {
			g.closeIter(it)
		}
		for _, h := range append(append([]int{}, g.snaps...), g.efoss...) {
			r.Exec(Ev{"op": "close", "h": h})
		}
		for _, h := range g.batches {
			r.Exec(Ev{"op": "close", "h": h})
		}
		// flushable ingests live in the memtable queue, not yet in the version: flush them in
		if err := r.DB.Flush(); err != nil {
			r.fail(err)
		}
		waitQuiet(r.DB)
		emitDirList(r, t, "quiescent")
		if err := r.CloseAll(); err != nil {
			r.fail(err)
		} else if err := r.Open(); err != nil {
			r.fail(err)
		} else {
			waitQuiet(r.DB)
			emitDirList(r, t, "reopened")
			r.CloseAll()
		}
	}
	return t.N, r.Fatal
}

func emitDirList(r *Runner, t *Trace, when string) {
	list := func() ([]int, int) {
		ssts, blobs := []int{}, 0
		ls, _ := r.FS.List(r.Dir)
		for _, f := range ls {
			if strings.HasPrefix(f, "ext-") {
				continue
			}
			switch filepath.Ext(f) {
			case ".sst":
				if n, err := strconv.Atoi(strings.TrimSuffix(f, ".sst")); err == nil {
					ssts = append(ssts, n)
				}
			case ".blob":
				blobs++
			}
		}
		sort.Ints(ssts)
		return ssts, blobs
	}
	// The property speaks of the directory "once deletions have been processed": a job that just
	// finished may still be handing its obsolete files to the cleaner (there is no API to wait for
	// that hand-over), so the listing is retried for a bounded time while files are still
	// disappearing.  A file that lingers for good is still reported.
	ssts, blobs := list()
	live := physFiles(r.DB)
	for i := 0; i < envInt("VERIF_DIRWAIT", 400) && len(ssts) != len(live); i++ {
		time.Sleep(5 * time.Millisecond)
		r.DB.TestOnlyWaitForCleaning()
		ssts, blobs = list()
		live = physFiles(r.DB)
	}
	m := r.DB.Metrics()
	// pending: tables Pebble itself still counts as obsolete-not-yet-deleted.  "Deletions have been
	// processed" (the property's precondition) is observable only as pending == 0.
	t.Emit(Ev{"op": "dirlist", "when": when, "ssts": ssts, "live": live, "blobs": blobs,
		"liveblobs": int(m.BlobFiles.Live.Total().Count), "pending": int(m.Table.Physical.Obsolete.Total().Count)})
}

// TestLSM: VERIF_OUT, VERIF_SEED, VERIF_SCRIPTS, VERIF_STEPS, VERIF_CONFIGS
func TestLSM(t *testing.T) {
	out := envStr("VERIF_OUT", "")
	if out == "" {
		t.Skip("VERIF_OUT not set")
	}
	u := Univ{P: envInt("VERIF_P", 3), S: envInt("VERIF_S", 3)}
	seed := uint64(envInt("VERIF_SEED", 1))
	scripts := envInt("VERIF_SCRIPTS", 10)
	steps := envInt("VERIF_STEPS", 40)
	cfgNames := splitList(envStr("VERIF_CONFIGS", "manual,valsepman"))
	cfgs := Configs()
	total := 0
	for i := 0; i < scripts; i++ {
		if only := envInt("VERIF_ONLY", -1); only >= 0 && i != only {
			continue
		}
		cn := cfgNames[i%len(cfgNames)]
		cfg := cfgs[cn]
		cfg.MaintEvery = 0
		path := filepath.Join(out, fmt.Sprintf("L-%d-%04d-%s.ndjson", seed, i, cn))
		n, _, _, ferr := guardedCrash(path, func() (int, int, map[string]int, error) {
			n, err := runLSM(u, cfg, seed*7717+uint64(i), steps, path)
			return n, 0, nil, err
		})
		total += n
		if ferr != nil {
			fmt.Fprintf(os.Stdout, "DRIVER-FAIL %s: %v\n", path, ferr)
		}
	}
	fmt.Fprintf(os.Stdout, "DRIVER-DONE traces=%d events=%d\n", scripts, total)
}

// waitQuiet: no flush or compaction in progress and the deleter has drained, twice in a row.
func waitQuiet(db *pebble.DB) {
	quiet := 0
	for i := 0; i < 400 && quiet < 2; i++ {
		m := db.Metrics()
		if m.Compact.NumInProgress == 0 && m.Flush.NumInProgress == 0 {
			db.TestOnlyWaitForCleaning()
			quiet++
		} else {
			quiet = 0
		}
		time.Sleep(5 * time.Millisecond)
	}
}
