package dbdrv

import (
	"fmt"
	"os"
	"path/filepath"
	"runtime"
	"sync/atomic"
	"testing"

	"github.com/cockroachdb/pebble"
	"github.com/cockroachdb/pebble/vfs"
)

// DumpState reads the whole visible state of a DB in the trace's state form:
// pts[k] = value ids of rank k, rks[p] = [[suffix, value]...] of prefix p.
func DumpState(r *Runner) (Ev, error) {
	u := r.U
	pts := make([]any, u.R())
	for k := 0; k < u.R(); k++ {
		ids, err := r.get(0, k)
		if err != nil {
			return nil, err
		}
		pts[k] = ids
	}
	rks := make([]any, u.P)
	for p := range rks {
		rks[p] = []any{}
	}
	it, err := r.DB.NewIter(&pebble.IterOptions{KeyTypes: pebble.IterKeyTypeRangesOnly})
	if err != nil {
		return nil, err
	}
	for ok := it.First(); ok; ok = it.Next() {
		s, e := it.RangeBounds()
		rs, re := u.Rank(s), u.Rank(e)
		ks := []any{}
		for _, k := range it.RangeKeys() {
			ids, derr := r.VC.Dec(k.Value)
			if derr != nil || len(ids) != 1 {
				it.Close()
				return nil, fmt.Errorf("bad range key value %q", k.Value)
			}
			ks = append(ks, []int{u.SuffixNum(k.Suffix), ids[0]})
		}
		for p := 0; p < u.P; p++ {
			if pk := p * (u.S + 1); pk >= rs && pk < re {
				rks[p] = ks
			}
		}
	}
	if err := it.Close(); err != nil {
		return nil, err
	}
	return Ev{"pts": pts, "rks": rks}, nil
}

// runOne runs one generated workload under one configuration and writes its trace.
func runOne(u Univ, cfg Config, prof Profile, seed uint64, steps int, path string) (events int, fatal error) {
	t, err := NewTrace(path)
	if err != nil {
		return 0, err
	}
	defer t.Close()
	var openFiles atomic.Int64
	hook := &fsHook{}
	fs := countFS{FS: vfs.NewMem(), open: &openFiles, hook: hook}
	baseGoroutines := runtime.NumGoroutine()
	r := NewRunner(u, cfg, fs, "db", t)
	r.Hook = hook
	r.Logger = crashLogger{}
	if err := r.Open(); err != nil {
		r.fail(err)
		return t.N, err
	}
	g := NewGen(r, prof, seed)
	g.noMerge = seed%2 == 0
	func() {
		defer func() {
			if p := recover(); p != nil {
				r.fail(fmt.Errorf("panic: %v", p))
			}
		}()
		for i := 0; i < steps && r.Fatal == nil; i++ {
			g.Step()
		}
	}()
	if r.Fatal == nil {
		// final read-back of everything still open, then close (C47) and reopen
		g.afterMaint()
		r.Exec(Ev{"op": "scan", "src": 0, "cls": prof.LatestCls})
	}
	if r.Fatal == nil {
		// what the physical store looks like (evidence for C44: were values really separated?)
		nb, ns := 0, 0
		if ls, err := r.FS.List(r.Dir); err == nil {
			for _, f := range ls {
				switch filepath.Ext(f) {
				case ".blob":
					nb++
				case ".sst":
					ns++
				}
			}
		}
		t.Emit(Ev{"op": "note", "blobfiles": nb, "ssts": ns, "cfg": cfg.Name})
	}
	var cerr error
	func() {
		// DB.Close panics on some leaks (e.g. a file cache with outstanding references): that is a
		// failed Close, not a dead driver
		defer func() {
			if p := recover(); p != nil {
				cerr = fmt.Errorf("panic in Close: %v", p)
			}
		}()
		cerr = r.CloseAll()
	}()
	if r.Fatal == nil {
		// C47: after Close nothing may be left behind: goroutines started by the DB, open
		// files/locks on the filesystem
		ev := Ev{"op": "closedb", "ok": cerr == nil, "goroutines": 0, "openfiles": 0}
		if cerr != nil {
			ev["err"] = cerr.Error()
		} else {
			ev["goroutines"] = settleGoroutines(baseGoroutines)
			ev["openfiles"] = int(openFiles.Load())
		}
		t.Emit(ev)
		if cerr == nil {
			if err := r.Open(); err != nil {
				t.Emit(Ev{"op": "cleanreopen", "ok": false, "err": err.Error(), "state": Ev{"pts": []any{}, "rks": []any{}}})
			} else {
				st, derr := DumpState(r)
				if derr != nil {
					r.fail(derr)
				} else {
					t.Emit(Ev{"op": "cleanreopen", "ok": true, "state": st})
				}
				if err := r.CloseAll(); err != nil {
					r.fail(err)
				}
			}
		}
	} else if r.DB != nil {
		r.DB = nil // leave it; the process ends soon
	}
	return t.N, r.Fatal
}

// TestDrive: random workloads (mode B).  Environment:
//
//	VERIF_PROFILE, VERIF_SEED, VERIF_SCRIPTS, VERIF_STEPS, VERIF_CONFIGS, VERIF_OUT, VERIF_P, VERIF_S
func TestDrive(t *testing.T) {
	out := envStr("VERIF_OUT", "")
	if out == "" {
		t.Skip("VERIF_OUT not set")
	}
	u := Univ{P: envInt("VERIF_P", 3), S: envInt("VERIF_S", 3)}
	prof, ok := Profiles()[envStr("VERIF_PROFILE", "C01")]
	if !ok {
		t.Fatalf("unknown profile")
	}
	seed := uint64(envInt("VERIF_SEED", 1))
	scripts := envInt("VERIF_SCRIPTS", 10)
	steps := envInt("VERIF_STEPS", 40)
	cfgNames := splitList(envStr("VERIF_CONFIGS", "default,flushy"))
	cfgs := Configs()
	total := 0
	for i := 0; i < scripts; i++ {
		for _, cn := range cfgNames {
			cfg, ok := cfgs[cn]
			if !ok {
				t.Fatalf("unknown config %s", cn)
			}
			path := filepath.Join(out, fmt.Sprintf("%s-%d-%04d-%s.ndjson", prof.Name, seed, i, cn))
			// a Logger.Fatalf of the store under test ends this script with a "fail" event (see guardedCrash)
			n, _, _, ferr := guardedCrash(path, func() (int, int, map[string]int, error) {
				n, err := runOne(u, cfg, prof, seed*1000003+uint64(i), steps, path)
				return n, 0, nil, err
			})
			total += n
			if ferr != nil {
				fmt.Fprintf(os.Stdout, "DRIVER-FAIL %s: %v\n", path, ferr)
			}
		}
	}
	fmt.Fprintf(os.Stdout, "DRIVER-DONE traces=%d events=%d\n", scripts*len(cfgNames), total)
}
