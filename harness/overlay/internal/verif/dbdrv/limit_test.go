package dbdrv

import "github.com/cockroachdb/pebble"

// iterLim executes a *WithLimit op; returns the reported validity state.
func (r *Runner) iterLim(it *pebble.Iterator, e Ev) (string, bool) {
	u := r.U
	var lim []byte
	if l := e.I("lim"); l >= 0 {
		lim = u.Key(l)
	}
	var st pebble.IterValidityState
	switch e.S("o") {
	case "seekgel":
		st = it.SeekGEWithLimit(u.Key(e.I("k")), lim)
	case "seekltl":
		st = it.SeekLTWithLimit(u.Key(e.I("k")), lim)
	case "nextl":
		st = it.NextWithLimit(lim)
	case "prevl":
		st = it.PrevWithLimit(lim)
	default:
		return "", false
	}
	switch st {
	case pebble.IterValid:
		return "valid", true
	case pebble.IterAtLimit:
		return "atlimit", true
	}
	return "exhausted", true
}

func (g *Gen) iterLimOp(it *genIter, o string, k, lim int) {
	e := Ev{"op": "iter", "h": it.h, "o": o, "k": k, "lim": lim}
	g.R.Exec(e)
	it.positioned = true
	it.pfxMode = false
	g.lastValid = e.S("st") == "valid"
	if o == "seekgel" || o == "nextl" {
		it.dirlock = "f"
	} else {
		it.dirlock = "b"
	}
}
