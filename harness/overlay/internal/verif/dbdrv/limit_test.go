package dbdrv

import "github.com/cockroachdb/pebble"

// iterLim executes a *WithLimit op; returns the reported validity state.
func (r *Runner) iterLim(it *pebble.Iterator, e Ev) (string, bool) {
	u := r.U
	var lim []byte
	if l := e.I("lim"); l >= 0 {
		lim = u.Key(l)
	}
	var st pebble.IterValidityState
	switch e.S("o") {
	case "seekgel":
		st = it.SeekGEWithLimit(u.Key(e.I("k")), lim)
	case "seekltl":
		st = it.SeekLTWithLimit(u.Key(e.I("k")), lim)
	case "nextl":
		st = it.NextWithLimit(lim)
	case "prevl":
		st = it.PrevWithLimit(lim)
	default:
		return "", false
	}
	switch st {
	case pebble.IterValid:
		return "valid", true
	case pebble.IterAtLimit:
		return "atlimit", true
	}
	return "exhausted", true
}

func (g *Gen) iterLimOp(it *genIter, o string, k, lim int) {
	e := Ev{"op": "iter", "h": it.h, "o": o, "k": k, "lim": lim}
	g.R.Exec(e)
	it.positioned = true
	it.pfxMode = false
	g.lastValid = e.S("st") == "valid"
	g.lastSt = e.S("st")
	if o == "seekgel" || o == "nextl" {
		it.dirlock = "f"
	} else {
		it.dirlock = "b"
	}
}

// actPausedSeek: an iterator paused at a limit, then an ABSOLUTE seek at every key around the
// position it is paused on (the paused key itself included): the shortcuts that reuse a paused
// position must agree with a plain seek.  The pause is re-established before every probe.
func (g *Gen) actPausedSeek() {
	if len(g.iters) == 0 {
		g.actNewIter()
	}
	if len(g.iters) == 0 {
		return
	}
	it := g.iters[g.Rng.IntN(len(g.iters))]
	if it.batch {
		return
	}
	R := g.U.R()
	fwd := g.Rng.IntN(2) == 0
	k := g.Rng.IntN(R + 1)
	if fwd {
		// SeekGEWithLimit(k, lim) pauses when the first key >= k is >= lim
		lim := k + g.Rng.IntN(3)
		if lim > R {
			lim = R
		}
		g.iterLimOp(it, "seekgel", k, lim)
		if g.lastSt != "atlimit" {
			it.dirlock = "f"
			return
		}
		for c := max(0, k-1); c <= min(R, lim+3); c++ {
			g.iterLimOp(it, "seekgel", k, lim)
			g.iterOp(it, "seekge", c)
		}
	} else {
		lim := k - g.Rng.IntN(3)
		if lim < 0 {
			lim = 0
		}
		g.iterLimOp(it, "seekltl", k, lim)
		if g.lastSt != "atlimit" {
			it.dirlock = "b"
			return
		}
		for c := max(0, lim-3); c <= min(R, k+1); c++ {
			g.iterLimOp(it, "seekltl", k, lim)
			g.iterOp(it, "seeklt", c)
		}
	}
	it.dirlock = ""
}
