package dbdrv

import (
	"fmt"
	"sync/atomic"
	"math/rand/v2"
	"os"
	"path/filepath"
	"testing"

	"github.com/cockroachdb/pebble"
	"github.com/cockroachdb/pebble/vfs"
	"github.com/cockroachdb/pebble/vfs/errorfs"
)

// runRatchet: C40.  Open at format major version `from` with data in tables and
// in the WAL, ratchet to `to` with crash probes at every filesystem write op
// (all survival subsets of up to 5 unsynced items), then check the result.
// faultAt > 0: the faultAt-th filesystem write op issued during the ratchet call fails once (an
// injected I/O error, no crash); the failed call is followed by a retry that must succeed and be
// as durable as any successful ratchet.  fired reports whether the fault index was reached.
func runRatchet(u Univ, from, to pebble.FormatMajorVersion, seed uint64, path string, faultAt int) (events, probes int, fired bool, err error) {
	t, err := NewTrace(path)
	if err != nil {
		return 0, 0, false, err
	}
	defer t.Close()
	cfg := Config{Name: fmt.Sprintf("fmv%d", int(from)), FMV: from, MemTableSize: 64 << 10, L0Threshold: 4, SmallFiles: true,
		AutoCompact: seed%2 == 0, ValSizes: []int{0, 0, 300, 3000}, ManifestSize: 600}
	mem := vfs.NewCrashableMem()
	rng := rand.New(rand.NewPCG(seed, seed^0x51ab))
	c := &crashCtl{mem: mem, rng: rng, every: 1, maxSubset: 5, randSub: 2, maxProbes: 3000, opKinds: map[string]int{},
		noWAL: false, fmvlo: int(from), fmvhi: int(from)}
	var faultArmed atomic.Bool
	var faultN atomic.Int64
	faulty := errorfs.InjectorFunc(func(op errorfs.Op) error {
		// not the WAL: a failed WAL write is fatal by design (the commit pipeline panics on it),
		// and the background WAL flusher shares this window with the ratchet
		// nor fsync: fsync errors are unrecoverable by design (Marker.Move panics on a failed
		// directory sync, citing fsyncgate)
		// nor MANIFEST appends: a failed MANIFEST write is fatal by design (Logger.Fatalf)
		if !faultArmed.Load() || !op.Kind.IsWrite() || fileClass(op.Path) == "wal" ||
			(fileClass(op.Path) == "manifest" && op.Kind != errorfs.OpCreate) ||
			op.Kind == errorfs.OpFileSync || op.Kind == errorfs.OpFileSyncData || op.Kind == errorfs.OpFileSyncTo {
			return nil
		}
		if faultN.Add(1) == int64(faultAt) {
			fired = true
			return errorfs.ErrInjected
		}
		return nil
	})
	r := NewRunner(u, cfg, errorfs.Wrap(errorfs.Wrap(mem, faulty), c.injector()), "db", t)
	r.Crash = c
	c.r = r
	c.disabled = true
	if err := r.Open(); err != nil {
		return 0, 0, false, err
	}
	prof := Profile{Name: "C40", W: map[string]int{}, RangeKeys: 1, LatestCls: "latest"}
	g := NewGen(r, prof, seed)
	write := func(n int, sync bool) {
		for i := 0; i < n && r.Fatal == nil; i++ {
			ops := []Ev{}
			touched := map[int]bool{}
			for j := 0; j < 1+rng.IntN(3); j++ {
				ops = append(ops, g.writeOp(true, touched))
			}
			r.Exec(Ev{"op": "commit", "ops": ops, "sync": sync})
			g.track(ops)
		}
	}
	func() {
		defer func() {
			if p := recover(); p != nil {
				r.fail(fmt.Errorf("panic: %v", p))
			}
		}()
		write(6, false)
		r.Exec(Ev{"op": "maint", "kind": "flush"})
		write(4, false)
		r.Exec(Ev{"op": "maint", "kind": "flush"})
		if rng.IntN(2) == 0 {
			r.Exec(Ev{"op": "maint", "kind": "compact"})
		}
		write(3, true) // acknowledged, only in the WAL
		r.Exec(Ev{"op": "scan", "src": 0, "cls": "latest"})
		// the ratchet, probed
		t.Mu.Lock() // bounds change under the trace mutex: never in the middle of a probe
		c.fmvhi = int(to)
		t.Mu.Unlock()
		if faultAt > 0 {
			// one injected error somewhere inside the ratchet (no crash probes during this attempt)
			faultArmed.Store(true)
			ferr := r.DB.RatchetFormatMajorVersion(to)
			faultArmed.Store(false)
			if ferr != nil {
				t.Emit(Ev{"op": "ratchetfail", "from": int(from), "to": int(to), "got": int(r.DB.FormatMajorVersion()), "err": ferr.Error(), "n": faultAt})
			}
		}
		c.disabled = false
		rerr := r.DB.RatchetFormatMajorVersion(to)
		c.disabled = true
		ev := Ev{"op": "ratchet", "from": int(from), "to": int(to), "ok": rerr == nil, "got": int(r.DB.FormatMajorVersion()), "lowerrefused": true}
		if rerr != nil {
			ev["err"] = rerr.Error()
		} else {
			// A probe in progress (another goroutine's FS op) took its clones before the call returned:
			// the acknowledgement is recorded only once that probe is complete.
			t.Mu.Lock()
			c.fmvlo = int(to)
			t.Mu.Unlock()
			// lowering must be refused and must not change the version
			lerr := r.DB.RatchetFormatMajorVersion(from)
			ev["lowerrefused"] = lerr != nil && r.DB.FormatMajorVersion() == to
		}
		t.Emit(ev)
		if rerr != nil {
			return
		}
		// reads unchanged; crash states after the call returned must report >= to
		r.Exec(Ev{"op": "scan", "src": 0, "cls": "latest"})
		c.disabled = false
		c.afterReturn()
		write(2, true)
		c.disabled = true
		r.Exec(Ev{"op": "scan", "src": 0, "cls": "latest"})
	}()
	c.disabled = true
	if r.Fatal == nil {
		cerr := r.CloseAll()
		cev := Ev{"op": "closedb", "ok": cerr == nil, "goroutines": 0, "openfiles": 0}
		if cerr != nil {
			cev["err"] = cerr.Error()
		}
		t.Emit(cev)
		if cerr == nil {
			t.Emit(Ev{"op": "durable"})
			// clean reopen reports at least the new version
			r2 := NewRunner(u, cfg, mem, "db", t)
			if err := r2.Open(); err != nil {
				t.Emit(Ev{"op": "cleanreopen", "ok": false, "err": err.Error(), "state": Ev{"pts": []any{}, "rks": []any{}}, "fmv": 0, "fmvlo": c.fmvlo})
			} else {
				st, derr := DumpState(r2)
				if derr != nil {
					r.fail(derr)
				} else {
					t.Emit(Ev{"op": "cleanreopen", "ok": true, "state": st, "fmv": int(r2.DB.FormatMajorVersion()), "fmvlo": c.fmvlo})
				}
				r2.DB.Close()
			}
		}
	}
	t.Mu.Lock()
	t.FlushBufLocked()
	t.Mu.Unlock()
	return t.N, c.probes, fired, r.Fatal
}

// TestRatchet: VERIF_OUT, VERIF_SEED, VERIF_PAIRS (number of (from,to) pairs; 0 = all)
func TestRatchet(t *testing.T) {
	out := envStr("VERIF_OUT", "")
	if out == "" {
		t.Skip("VERIF_OUT not set")
	}
	u := Univ{P: envInt("VERIF_P", 3), S: envInt("VERIF_S", 3)}
	seed := uint64(envInt("VERIF_SEED", 1))
	rng := rand.New(rand.NewPCG(seed, 77))
	type pair struct{ from, to pebble.FormatMajorVersion }
	var pairs []pair
	for f := pebble.FormatMinSupported; f < pebble.FormatNewest; f++ {
		for to := f + 1; to <= pebble.FormatNewest; to++ {
			pairs = append(pairs, pair{f, to})
		}
	}
	rng.Shuffle(len(pairs), func(i, j int) { pairs[i], pairs[j] = pairs[j], pairs[i] })
	if n := envInt("VERIF_PAIRS", 0); n > 0 && n < len(pairs) {
		// always keep the longest jump and a single step
		keep := []pair{{pebble.FormatMinSupported, pebble.FormatNewest}, {pebble.FormatNewest - 1, pebble.FormatNewest}}
		pairs = append(keep, pairs[:n]...)
	}
	probes, events := 0, 0
	for i, p := range pairs {
		path := filepath.Join(out, fmt.Sprintf("R-%d-%03d-%d-%d.ndjson", seed, i, int(p.from), int(p.to)))
		ne, np, _, ferr := runRatchet(u, p.from, p.to, seed*131+uint64(i), path, 0)
		probes += np
		events += ne
		if ferr != nil {
			fmt.Fprintf(os.Stdout, "DRIVER-FAIL %s: %v\n", path, ferr)
		}
	}
	// single-fault enumeration: every filesystem write op of the ratchet fails once, then a retry
	nf := 0
	maxFaultPairs := envInt("VERIF_FAULTPAIRS", 4)
	for i, p := range pairs {
		if i >= maxFaultPairs {
			break
		}
		for n := 1; n <= 60; n++ {
			path := filepath.Join(out, fmt.Sprintf("RF-%d-%03d-%d-%d-f%02d.ndjson", seed, i, int(p.from), int(p.to), n))
			ne, np, fired, ferr := runRatchet(u, p.from, p.to, seed*131+uint64(i), path, n)
			probes += np
			events += ne
			nf++
			if ferr != nil {
				fmt.Fprintf(os.Stdout, "DRIVER-FAIL %s: %v\n", path, ferr)
			}
			if !fired {
				break
			}
		}
	}
	fmt.Fprintf(os.Stdout, "DRIVER-FAULTRUNS %d\n", nf)
	fmt.Fprintf(os.Stdout, "DRIVER-DONE traces=%d events=%d probes=%d\n", len(pairs)+nf, events, probes)
}
