package dbdrv

import (
	"context"
	"fmt"
	"os"
	"sort"
	"sync"

	"github.com/cockroachdb/errors"
	"github.com/cockroachdb/pebble"
	"github.com/cockroachdb/pebble/objstorage/objstorageprovider"
	"github.com/cockroachdb/pebble/objstorage/remote"
	"github.com/cockroachdb/pebble/sstable"
)

// External ingestion (DB.IngestExternalFiles): a table that lives on "remote" storage is linked
// into the LSM as a virtual table restricted to prefix bounds [a, b), optionally with every key's
// suffix replaced by a synthetic one.  In the vocabulary of the specification this is an ordinary
// "ingest" of the keys AS THE DB MUST SHOW THEM (inside the bounds, suffix replaced): the trace
// event carries those, and the physical file (keys outside the bounds, older suffixes, one data
// block per key) exists only on the implementation side.

const extLocator = "verif-ext"

var (
	remoteMu  sync.Mutex
	remoteFor = map[*Trace]remote.Storage{}
)

// remoteStorage: one in-memory remote store per trace (it must survive reopens of the DB).
func (r *Runner) remoteStorage() remote.Storage {
	remoteMu.Lock()
	defer remoteMu.Unlock()
	s, ok := remoteFor[r.T]
	if !ok {
		s = remote.NewInMem()
		remoteFor[r.T] = s
	}
	return s
}

func (r *Runner) setRemote(o *pebble.Options) {
	o.RemoteStorage = remote.MakeSimpleFactory(map[remote.Locator]remote.Storage{
		remote.MakeLocator(extLocator): r.remoteStorage(),
	})
	o.CreateOnShared = remote.CreateOnSharedNone
}

// execExtIngest: e = {op: extingest, pts: [{o: set|del, k: physical rank, v}], a, b: prefix-boundary
// ranks, syn: synthetic suffix number (0 = none)}.
func (r *Runner) execExtIngest(e Ev) {
	u := r.U
	a, b, syn := e.I("a"), e.I("b"), e.I("syn")
	phys := e["pts"].([]Ev)
	sort.SliceStable(phys, func(i, j int) bool { return phys[i].I("k") < phys[j].I("k") })
	store := r.remoteStorage()
	r.sstN++
	name := fmt.Sprintf("ext-%06d.sst", r.sstN)
	f, err := store.CreateObject(name)
	if err != nil {
		r.fail(errors.Wrap(err, "extingest create"))
		return
	}
	wo := r.Opts.MakeWriterOptions(0, r.DB.FormatMajorVersion().MaxTableFormat()) // level 0: a table written "for the lowest level" marks its tombstones obsolete
	wo.BlockSize = 1 // one data block per key: block-property filters decide key by key
	w := sstable.NewWriter(objstorageprovider.NewRemoteWritable(f), wo)
	var ops []Ev
	for _, op := range phys {
		k := op.I("k")
		switch op.S("o") {
		case "set":
			err = w.Set(u.Key(k), r.VC.Enc(op.I("v")))
		case "del":
			err = w.Delete(u.Key(k))
		}
		if err != nil {
			r.fail(errors.Wrap(err, "extingest write"))
			return
		}
		if k < a || k >= b {
			continue // outside the bounds: must stay invisible
		}
		vk := k
		if syn > 0 {
			vk = (k/(u.S+1))*(u.S+1) + (u.S + 1 - syn)
		}
		vop := Ev{"o": op.S("o"), "k": vk}
		if op.S("o") == "set" {
			vop["v"] = op.I("v")
		}
		ops = append(ops, vop)
	}
	if err := w.Close(); err != nil {
		r.fail(errors.Wrap(err, "extingest close"))
		return
	}
	sz, err := store.Size(name)
	if err != nil {
		r.fail(errors.Wrap(err, "extingest size"))
		return
	}
	ef := pebble.ExternalFile{
		Locator:     remote.MakeLocator(extLocator),
		ObjName:     name,
		Size:        uint64(sz),
		StartKey:    u.Key(a),
		EndKey:      u.Key(b),
		HasPointKey: true,
	}
	if syn > 0 {
		ef.SyntheticSuffix = u.Suffix(syn)
	}
	out := Ev{"op": "ingest", "ops": ops, "sync": !r.Cfg.DisableWAL}
	r.begin(out)
	if _, err := r.DB.IngestExternalFiles(context.Background(), []pebble.ExternalFile{ef}); err != nil {
		r.end(nil)
		r.fail(errors.Wrap(err, "extingest"))
		return
	}
	r.end(out)
	if os.Getenv("VERIF_DEBUG_EXT") != "" {
		fmt.Fprintf(os.Stderr, "EXTINGEST %s a=%d b=%d syn=%d phys=%v\n%s\n", name, a, b, syn, phys, r.DB.DebugString())
		for _, op := range ops {
			v, c, err := r.DB.Get(u.Key(op.I("k")))
			fmt.Fprintf(os.Stderr, "  GET %s -> %.12q %v\n", u.Key(op.I("k")), v, err)
			if c != nil {
				c.Close()
			}
		}
		it, _ := r.DB.NewIter(nil)
		for ok := it.First(); ok; ok = it.Next() {
			fmt.Fprintf(os.Stderr, "  ITER %s = %.12q\n", it.Key(), it.Value())
		}
		it.Close()
	}
	r.afterWrite()
}

// actExtIngest: an external table over a span of prefixes.  With a synthetic suffix the file holds
// one key per prefix, every stored suffix strictly older than the synthetic one (the documented
// contract of ExternalFile.SyntheticSuffix); without it, any keys.
func (g *Gen) actExtIngest() {
	u := g.U
	if !g.R.Cfg.Remote || g.R.DB.FormatMajorVersion() < pebble.FormatSyntheticPrefixSuffix {
		g.actIngest()
		return
	}
	a, b := g.pspan()
	syn := 0
	if u.S >= 2 && g.Rng.IntN(4) != 0 {
		syn = 2 + g.Rng.IntN(u.S-1) // 2..S
	}
	var phys []Ev
	seen := map[int]bool{}
	for p := 0; p < u.P; p++ {
		if g.Rng.IntN(10) < 3 {
			continue
		}
		n := 1
		if syn == 0 {
			n = 1 + g.Rng.IntN(2)
		}
		for i := 0; i < n; i++ {
			var s int
			if syn > 0 {
				s = 1 + g.Rng.IntN(syn-1) // stored suffixes 1..syn-1, all older than syn
			} else {
				s = g.Rng.IntN(u.S + 1) // 0 = bare key
			}
			k := p*(u.S+1) + (u.S+1-s)%(u.S+1)
			if s == 0 {
				k = p * (u.S + 1)
			}
			if seen[k] {
				continue
			}
			seen[k] = true
			if syn == 0 && g.Rng.IntN(6) == 0 {
				phys = append(phys, Ev{"o": "del", "k": k})
			} else {
				phys = append(phys, Ev{"o": "set", "k": k, "v": g.v()})
			}
		}
	}
	inside := 0
	for _, op := range phys {
		if op.I("k") >= a && op.I("k") < b {
			inside++
		}
	}
	if inside == 0 {
		k := a + 1 // suffix S of the first prefix of the span: the oldest version
		if syn > 0 {
			k = a + (u.S + 1 - 1)
		}
		if !seen[k] {
			phys = append(phys, Ev{"o": "set", "k": k, "v": g.v()})
		}
	}
	// what the DB will show, for the SingleDelete bookkeeping
	var vis []Ev
	for _, op := range phys {
		k := op.I("k")
		if k < a || k >= b {
			continue
		}
		if syn > 0 {
			k = (k/(u.S+1))*(u.S+1) + (u.S + 1 - syn)
		}
		vis = append(vis, Ev{"o": op.S("o"), "k": k})
	}
	g.R.Exec(Ev{"op": "extingest", "pts": phys, "a": a, "b": b, "syn": syn})
	g.track(vis)
	g.afterWrite()
}

// actExtMask: the situation range-key masking with a block-property filter has to get right over
// suffix-replaced tables: an external table whose STORED suffixes are older than a range key while
// the suffix the DB shows (the synthetic one) is not; the range key over it; a masking iterator
// with and without the filter walking both ways.
func (g *Gen) actExtMask() {
	u := g.U
	if !g.R.Cfg.Remote || u.S < 2 || g.P.RangeKeys == 0 || g.R.DB.FormatMajorVersion() < pebble.FormatSyntheticPrefixSuffix {
		g.actExtIngest()
		return
	}
	R := u.R()
	syn := 2 + g.Rng.IntN(u.S-1) // 2..S
	var phys, vis []Ev
	for p := 0; p < u.P; p++ {
		s := 1 + g.Rng.IntN(syn-1)
		k := p*(u.S+1) + (u.S + 1 - s)
		phys = append(phys, Ev{"o": "set", "k": k, "v": g.v()})
		vis = append(vis, Ev{"o": "set", "k": p*(u.S+1) + (u.S + 1 - syn)})
	}
	g.R.Exec(Ev{"op": "extingest", "pts": phys, "a": 0, "b": R, "syn": syn})
	g.track(vis)
	g.afterWrite()
	// a range key at suffix r <= syn: it is older than (or as old as) the points as shown
	r := 1 + g.Rng.IntN(syn)
	a, b := g.pspan()
	ops := []Ev{{"o": "rkset", "a": a, "b": b, "s": r, "v": g.v()}}
	g.R.Exec(Ev{"op": "commit", "ops": ops, "sync": false})
	g.track(ops)
	g.afterWrite()
	for _, filter := range []bool{true, false} {
		if len(g.iters) >= max(1, g.P.MaxIters) {
			g.closeIter(g.iters[g.Rng.IntN(len(g.iters))])
		}
		mask := r + g.Rng.IntN(u.S-r+1) // r..S
		it := &genIter{h: g.h(), src: 0, cls: g.P.IterCls, lo: 0, hi: R, kt: 2, mask: mask}
		g.R.Exec(Ev{"op": "newiter", "h": it.h, "src": 0, "cls": it.cls, "lo": 0, "hi": R, "mask": mask, "kt": 2, "filter": filter})
		g.iters = append(g.iters, it)
		g.iterOp(it, "first", 0)
		for n := 0; n < 2*R && g.lastValid; n++ {
			g.iterOp(it, "next", 0)
		}
		g.iterOp(it, "last", 0)
		for n := 0; n < 2*R && g.lastValid; n++ {
			g.iterOp(it, "prev", 0)
		}
		g.iterOp(it, "seekge", g.Rng.IntN(R))
		if g.lastValid {
			g.iterOp(it, "next", 0)
		}
		it.dirlock = ""
	}
}
