package dbdrv

import (
	"math/rand/v2"
	"sort"

	"github.com/cockroachdb/pebble"
)

const pebbleFormatVirtualSSTables = pebble.FormatVirtualSSTables

// Profile weights the random workload towards one property's vocabulary.
type Profile struct {
	Name string
	W    map[string]int
	// read-back after every write step
	ScanLatest bool   // scan(src=0)
	GetLatest  int    // number of random gets on latest
	ReadSnaps  bool   // re-read every open snapshot/efos after every write/maint step
	ReadIters  bool   // re-read through every long-lived ("view") iterator after every write/maint step
	IterCls    string // class label of generated iterators
	LatestCls  string // class label of latest reads
	RangeKeys  int    // weight multiplier for range-key ops (0 = none)
	Masks      bool
	Limits     bool // generate *WithLimit iterator ops
	MaxSnaps   int
	MaxIters   int
	// FlushBeforeIngest: a Flush precedes every direct-to-LSM operation (ingest, excise), so that the
	// profile never builds the known shape "ingest over a commit that is only in the WAL buffer"
	// (KNOWN_FINDINGS C11/C13/C38); a dedicated finding script builds it on purpose
	FlushBeforeIngest bool
}

var extraProfiles func(add func(Profile))

func Profiles() map[string]Profile {
	m := map[string]Profile{}
	add := func(p Profile) {
		if p.LatestCls == "" {
			p.LatestCls = "latest"
		}
		m[p.Name] = p
	}
	if extraProfiles != nil {
		extraProfiles(add)
	}
	add(Profile{Name: "C01", W: map[string]int{"write": 50, "ingest": 8, "excise": 3, "ingestexcise": 3, "maint": 12, "get": 10, "scan": 6, "batchw": 5, "sdelchain": 4, "extingest": 5, "ingestpair": 3},
		ScanLatest: true, GetLatest: 3, RangeKeys: 1})
	add(Profile{Name: "C03", W: map[string]int{"write": 45, "ingest": 6, "maint": 20, "snap": 12, "close": 6, "readsnap": 12},
		ReadSnaps: true, RangeKeys: 1, MaxSnaps: 3})
	add(Profile{Name: "C04", W: map[string]int{"write": 40, "ingest": 6, "excise": 3, "maint": 16, "viewiter": 12, "viewop": 20, "close": 5, "clone": 5, "batchview": 8, "windowscan": 4},
		ReadIters: true, RangeKeys: 1, MaxIters: 3, IterCls: "view"})
	add(Profile{Name: "C05", W: map[string]int{"write": 25, "maint": 6, "batchnew": 10, "batchop": 35, "batchget": 20, "batchscan": 8, "batchiter": 8, "batchend": 8, "leak": 10, "batchview": 8, "pausedseek": 4},
		RangeKeys: 1, LatestCls: "batchleak", MaxIters: 2, Limits: true})
	add(Profile{Name: "C02", W: map[string]int{"write": 25, "maint": 6, "positer": 10, "posop": 70, "close": 4, "setbounds": 6, "setopts": 3, "npsweep": 5, "straddle": 4, "windowscan": 6, "pausedseek": 6},
		RangeKeys: 1, MaxIters: 2, IterCls: "pos", Masks: true, Limits: true})
	add(Profile{Name: "C08", W: map[string]int{"write": 35, "ingest": 8, "maint": 12, "positer": 10, "posop": 50, "close": 4, "scan": 8, "rkabut": 6},
		RangeKeys: 5, MaxIters: 2, IterCls: "rk", ScanLatest: true, LatestCls: "rk"})
	add(Profile{Name: "C09", W: map[string]int{"write": 35, "maint": 12, "positer": 12, "posop": 50, "close": 5, "extingest": 8, "extmask": 6},
		RangeKeys: 4, MaxIters: 2, IterCls: "mask", Masks: true})
	add(Profile{Name: "C14", W: map[string]int{"write": 35, "ingest": 12, "ingestpair": 3, "maint": 30, "snap": 8, "viewiter": 6, "close": 4, "efos": 3, "sdelchain": 4},
		ReadSnaps: true, ReadIters: true, ScanLatest: true, RangeKeys: 1, MaxSnaps: 2, MaxIters: 2, IterCls: "view"})
	add(Profile{Name: "C36", W: map[string]int{"write": 25, "ingest": 25, "excise": 10, "ingestexcise": 10, "maint": 10, "viewiter": 6, "snap": 3, "close": 4, "extingest": 8, "ingestpair": 6},
		ScanLatest: true, GetLatest: 2, ReadIters: true, RangeKeys: 2, MaxIters: 2, MaxSnaps: 1, IterCls: "view"})
	add(Profile{Name: "C37", W: map[string]int{"write": 35, "ingest": 6, "excise": 8, "ingestexcise": 6, "maint": 14, "efos": 10, "waitfileonly": 6, "close": 4},
		ReadSnaps: true, RangeKeys: 1, MaxSnaps: 2})
	return m
}

type genIter struct {
	h          int
	src        int
	cls        string
	lo, hi     int
	mask, kt   int
	positioned bool
	batch      bool
	pfxMode    bool
	dirlock    string // after a *WithLimit op: only continue in that direction (the iterator may be paused)
}

// Gen generates a random workload against a Runner.
type Gen struct {
	R    *Runner
	P    Profile
	Rng  *rand.Rand
	U    Univ
	nv   int
	nh   int
	sets map[int]int  // SETs since the last delete-ish op (SingleDelete contract)
	pois map[int]bool // a MERGE since the last delete-ish op
	snaps, efoss, batches []int
	efosRanges map[int][][]int
	batchOps   map[int][]Ev
	iters      []*genIter
	lastValid  bool
	lastSt     string // validity state reported by the last *WithLimit op
	pinHook    func(h int, before []int) // C39: called after an iterator was created, with the physical files seen just before
	noMerge    bool // no MERGE / SINGLEDEL (collapsing ScanInternal does not support them)
	snapTaint  map[int]bool
}

func NewGen(r *Runner, p Profile, seed uint64) *Gen {
	return &Gen{R: r, P: p, Rng: rand.New(rand.NewPCG(seed, seed^0x9e3779b97f4a7c15)), U: r.U,
		sets: map[int]int{}, pois: map[int]bool{}, efosRanges: map[int][][]int{}, batchOps: map[int][]Ev{}, snapTaint: map[int]bool{}}
}

func (g *Gen) v() int { g.nv++; return g.nv }
func (g *Gen) h() int { g.nh++; return g.nh }
func (g *Gen) key() int {
	return g.Rng.IntN(g.U.R())
}
func (g *Gen) span() (int, int) { // arbitrary key span a<b<=R
	a := g.Rng.IntN(g.U.R())
	b := a + 1 + g.Rng.IntN(g.U.R()-a)
	return a, b
}
func (g *Gen) pspan() (int, int) { // span of prefix boundaries
	P := g.U.P
	a := g.Rng.IntN(P)
	b := a + 1 + g.Rng.IntN(P-a)
	return a * (g.U.S + 1), b * (g.U.S + 1)
}

// track the SingleDelete contract on committed ops
func (g *Gen) track(ops []Ev) {
	for _, op := range ops {
		switch op.S("o") {
		case "set":
			g.sets[op.I("k")]++
		case "merge":
			g.pois[op.I("k")] = true
		case "del", "sdel", "delsized":
			g.sets[op.I("k")] = 0
			g.pois[op.I("k")] = false
		case "delr":
			for k := op.I("a"); k < op.I("b") && k < g.U.R(); k++ {
				g.sets[k] = 0
				g.pois[k] = false
			}
		}
	}
}
func (g *Gen) trackExcise(a, b int) {
	for k := a; k < b && k < g.U.R(); k++ {
		g.sets[k] = 0
		g.pois[k] = false
	}
}

// one random write op; touched guards SingleDelete against same-batch interference
func (g *Gen) writeOp(allowSD bool, touched map[int]bool) Ev {
	rk := g.P.RangeKeys
	for {
		x := g.Rng.IntN(100 + 17*rk)
		switch {
		case x < 45:
			k := g.key()
			touched[k] = true
			return Ev{"o": "set", "k": k, "v": g.v()}
		case x < 58:
			k := g.key()
			touched[k] = true
			return Ev{"o": "del", "k": k}
		case x < 70:
			if g.noMerge {
				continue
			}
			k := g.key()
			touched[k] = true
			return Ev{"o": "merge", "k": k, "v": g.v()}
		case x < 80:
			a, b := g.span()
			for k := a; k < b; k++ {
				touched[k] = true
			}
			return Ev{"o": "delr", "a": a, "b": b}
		case x < 88:
			if !allowSD || g.noMerge {
				continue
			}
			// SingleDelete only where the contract holds: exactly <=1 SET, no MERGE since the last delete
			var cands []int
			for k := 0; k < g.U.R(); k++ {
				if g.sets[k] <= 1 && !g.pois[k] && !touched[k] {
					cands = append(cands, k)
				}
			}
			if len(cands) == 0 {
				continue
			}
			k := cands[g.Rng.IntN(len(cands))]
			touched[k] = true
			return Ev{"o": "sdel", "k": k}
		case x < 94:
			k := g.key()
			touched[k] = true
			return Ev{"o": "delsized", "k": k, "sz": g.Rng.IntN(50)}
		case x < 100:
			if x < 98 {
				continue
			}
			return Ev{"o": "logdata"}
		default:
			y := (x - 100) % 17
			a, b := g.pspan()
			switch {
			case y < 10:
				return Ev{"o": "rkset", "a": a, "b": b, "s": g.Rng.IntN(g.U.S + 1), "v": g.v()}
			case y < 14:
				return Ev{"o": "rkunset", "a": a, "b": b, "s": g.Rng.IntN(g.U.S + 1)}
			default:
				return Ev{"o": "rkdel", "a": a, "b": b}
			}
		}
	}
}

func (g *Gen) actWrite() {
	n := 1 + g.Rng.IntN(4)
	if g.Rng.IntN(10) == 0 {
		n = 5 + g.Rng.IntN(12)
	}
	ops := make([]Ev, 0, n)
	touched := map[int]bool{}
	for i := 0; i < n; i++ {
		ops = append(ops, g.writeOp(true, touched))
	}
	g.R.Exec(Ev{"op": "commit", "ops": ops, "sync": g.Rng.IntN(5) == 0})
	g.track(ops)
	g.afterWrite()
}

// canonical ingest: per table at most one delr, range-key ops, then distinct points;
// tables cover disjoint key ranges.  The equivalent batch lists, per table, delr,
// rkdel, rkunset, rkset, then the points.
func (g *Gen) ingestTables() (tables [][]Ev, flat []Ev) {
	nt := 1 + g.Rng.IntN(2)
	R := g.U.R()
	// split [0,R) at prefix boundaries into nt disjoint regions
	bounds := []int{0, R}
	if nt == 2 {
		mid := (1 + g.Rng.IntN(g.U.P-1)) * (g.U.S + 1)
		bounds = []int{0, mid, R}
	}
	for t := 0; t+1 < len(bounds); t++ {
		lo, hi := bounds[t], bounds[t+1]
		var tbl []Ev
		if g.Rng.IntN(4) == 0 {
			a := lo + g.Rng.IntN(hi-lo)
			b := a + 1 + g.Rng.IntN(hi-a)
			tbl = append(tbl, Ev{"o": "delr", "a": a, "b": b})
		}
		if g.P.RangeKeys > 0 && g.Rng.IntN(3) == 0 {
			// prefix-aligned span inside [lo,hi)
			pl, ph := lo/(g.U.S+1), hi/(g.U.S+1)
			a := pl + g.Rng.IntN(ph-pl)
			b := a + 1 + g.Rng.IntN(ph-a)
			a, b = a*(g.U.S+1), b*(g.U.S+1)
			switch g.Rng.IntN(4) {
			case 0:
				tbl = append(tbl, Ev{"o": "rkdel", "a": a, "b": b})
			case 1:
				tbl = append(tbl, Ev{"o": "rkunset", "a": a, "b": b, "s": g.Rng.IntN(g.U.S + 1)})
			default:
				s := g.Rng.IntN(g.U.S + 1)
				tbl = append(tbl, Ev{"o": "rkset", "a": a, "b": b, "s": s, "v": g.v()})
				// sometimes a second set of the same suffix right after it (abutting spans, one
				// sequence number, different value: the spans must stay distinct) or another suffix
				// over the same span
				if nb := b / (g.U.S + 1); nb < ph && g.Rng.IntN(2) == 0 {
					e := (nb + 1 + g.Rng.IntN(ph-nb)) * (g.U.S + 1)
					tbl = append(tbl, Ev{"o": "rkset", "a": b, "b": e, "s": s, "v": g.v()})
				} else if g.Rng.IntN(2) == 0 {
					tbl = append(tbl, Ev{"o": "rkset", "a": a, "b": b, "s": (s + 1) % (g.U.S + 1), "v": g.v()})
				}
			}
		}
		np := g.Rng.IntN(4)
		if len(tbl) == 0 && np == 0 {
			np = 1
		}
		seen := map[int]bool{}
		var pts []Ev
		for i := 0; i < np; i++ {
			k := lo + g.Rng.IntN(hi-lo)
			if seen[k] {
				continue
			}
			seen[k] = true
			switch g.Rng.IntN(6) {
			case 0:
				pts = append(pts, Ev{"o": "del", "k": k})
			case 1:
				if g.noMerge {
					pts = append(pts, Ev{"o": "set", "k": k, "v": g.v()})
				} else {
					pts = append(pts, Ev{"o": "merge", "k": k, "v": g.v()})
				}
			default:
				pts = append(pts, Ev{"o": "set", "k": k, "v": g.v()})
			}
		}
		sort.Slice(pts, func(i, j int) bool { return pts[i].I("k") < pts[j].I("k") })
		tbl = append(tbl, pts...)
		tables = append(tables, tbl)
		flat = append(flat, tbl...)
	}
	return tables, flat
}

// unknownHistory: the generator continues on a recovered store whose keys have a history it did
// not record (a key may hold several SETs): no SingleDelete on a key before a Delete / DeleteRange
// has reset it (the SingleDelete contract).
func (g *Gen) unknownHistory() {
	for k := 0; k < g.U.R(); k++ {
		g.pois[k] = true
	}
}

func (g *Gen) preIngest() {
	if g.P.FlushBeforeIngest {
		g.R.Exec(Ev{"op": "maint", "kind": "flush"})
	}
}

func (g *Gen) actIngest() {
	g.preIngest()
	tables, flat := g.ingestTables()
	g.R.Exec(Ev{"op": "ingest", "tables": tables, "ops": flat})
	g.track(flat)
	g.afterWrite()
}

func (g *Gen) canExcise() bool {
	return g.R.DB.FormatMajorVersion() >= pebbleFormatVirtualSSTables
}

func (g *Gen) actExcise() {
	if !g.canExcise() {
		g.actWrite()
		return
	}
	a, b := g.pspan()
	g.preIngest()
	g.R.Exec(Ev{"op": "excise", "a": a, "b": b})
	g.trackExcise(a, b)
	g.taintSnaps()
	g.afterWrite()
}

func (g *Gen) actIngestExcise() {
	if !g.canExcise() {
		g.actIngest()
		return
	}
	a, b := g.pspan()
	// tables must lie inside the excise span: build one table within [a,b)
	var tbl []Ev
	seen := map[int]bool{}
	for i := 0; i < 1+g.Rng.IntN(3); i++ {
		k := a + g.Rng.IntN(b-a)
		if k >= g.U.R() || seen[k] {
			continue
		}
		seen[k] = true
		tbl = append(tbl, Ev{"o": "set", "k": k, "v": g.v()})
	}
	if len(tbl) == 0 {
		tbl = append(tbl, Ev{"o": "set", "k": a, "v": g.v()})
	}
	// the table need not lie inside the excise span: sometimes its largest key is exactly the
	// (exclusive) end of the span, sometimes it starts below the span
	if b < g.U.R() && g.Rng.IntN(3) == 0 {
		tbl = append(tbl, Ev{"o": "set", "k": b, "v": g.v()})
	}
	if a > 0 && g.Rng.IntN(5) == 0 {
		tbl = append(tbl, Ev{"o": "set", "k": g.Rng.IntN(a), "v": g.v()})
	}
	sort.Slice(tbl, func(i, j int) bool { return tbl[i].I("k") < tbl[j].I("k") })
	if g.Rng.IntN(2) == 0 && !g.P.FlushBeforeIngest {
		// make the table overlap the memtable: with a WAL the ingestion is then queued as a
		// flushable and applied to the LSM only at the next flush
		w := []Ev{{"o": "set", "k": tbl[g.Rng.IntN(len(tbl))].I("k"), "v": g.v()}}
		g.R.Exec(Ev{"op": "commit", "ops": w, "sync": false})
		g.track(w)
	}
	g.preIngest()
	g.R.Exec(Ev{"op": "ingestexcise", "a": a, "b": b, "tables": [][]Ev{tbl}, "ops": tbl})
	g.trackExcise(a, b)
	g.track(tbl)
	g.taintSnaps()
	g.afterWrite()
}

func (g *Gen) taintSnaps() {
	for _, s := range g.snaps {
		g.snapTaint[s] = true
	}
}

func (g *Gen) actMaint() {
	kinds := []string{"flush", "flush", "compact", "compact", "compactpar", "checklevels", "metrics", "ratchet"}
	g.R.Exec(Ev{"op": "maint", "kind": kinds[g.Rng.IntN(len(kinds))]})
	g.afterMaint()
}

func (g *Gen) readSrc(src int, cls string, tainted bool) {
	if !tainted && g.Rng.IntN(2) == 0 {
		g.scanEither(src, cls)
		return
	}
	for i := 0; i < 3; i++ {
		g.R.Exec(Ev{"op": "get", "src": src, "k": g.key(), "cls": cls})
	}
}

// re-read pinned views after anything that may disturb them
func (g *Gen) rereadViews() {
	if g.P.ReadSnaps {
		for _, s := range g.snaps {
			if g.snapTaint[s] {
				g.R.Exec(Ev{"op": "get", "src": s, "k": g.key(), "cls": "snap"})
			} else {
				g.scanEither(s, "snap")
			}
		}
		for _, s := range g.efoss {
			for _, ab := range g.efosRanges[s] {
				for k := ab[0]; k < ab[1] && k < g.U.R(); k++ {
					g.R.Exec(Ev{"op": "get", "src": s, "k": k, "cls": "efos"})
				}
			}
		}
	}
	if g.P.ReadIters {
		for _, it := range g.iters {
			if it.cls != "view" {
				continue
			}
			g.walkIter(it)
		}
	}
}

// full walk through an open iterator (first, next... or last, prev...), plus a seek
func (g *Gen) walkIter(it *genIter) {
	if g.Rng.IntN(2) == 0 {
		g.iterOp(it, "first", 0)
		for i := 0; i < g.U.R()+g.U.P+1; i++ {
			if !g.lastValid {
				break
			}
			g.iterOp(it, "next", 0)
		}
	} else {
		g.iterOp(it, "last", 0)
		for i := 0; i < g.U.R()+g.U.P+1; i++ {
			if !g.lastValid {
				break
			}
			g.iterOp(it, "prev", 0)
		}
	}
	g.iterOp(it, "seekge", g.key())
}

var _ = 0

// forward or backward full scan
func (g *Gen) scanEither(src int, cls string) {
	if g.Rng.IntN(3) == 0 {
		g.R.Exec(Ev{"op": "rscan", "src": src, "cls": cls})
	} else {
		g.R.Exec(Ev{"op": "scan", "src": src, "cls": cls})
	}
}

func (g *Gen) afterWrite() {
	if g.R.Fatal != nil {
		return
	}
	if g.P.ScanLatest {
		g.scanEither(0, g.P.LatestCls)
	}
	for i := 0; i < g.P.GetLatest; i++ {
		g.R.Exec(Ev{"op": "get", "src": 0, "k": g.key(), "cls": g.P.LatestCls})
	}
	g.rereadViews()
}

func (g *Gen) afterMaint() {
	if g.R.Fatal != nil {
		return
	}
	if g.P.ScanLatest {
		g.R.Exec(Ev{"op": "scan", "src": 0, "cls": g.P.LatestCls})
	}
	g.rereadViews()
}

func (g *Gen) actSnap() {
	if len(g.snaps) >= max(1, g.P.MaxSnaps) {
		g.actClose()
		return
	}
	h := g.h()
	g.R.Exec(Ev{"op": "snap", "h": h})
	g.snaps = append(g.snaps, h)
}

func (g *Gen) actEfos() {
	if len(g.efoss) >= 2 {
		g.actClose()
		return
	}
	h := g.h()
	a, b := g.pspan()
	ranges := [][]int{{a, b}}
	g.R.Exec(Ev{"op": "efos", "h": h, "ranges": ranges})
	g.efoss = append(g.efoss, h)
	g.efosRanges[h] = ranges
}

func (g *Gen) actWaitFileOnly() {
	if len(g.efoss) == 0 {
		g.actEfos()
		return
	}
	g.R.Exec(Ev{"op": "waitfileonly", "h": g.efoss[g.Rng.IntN(len(g.efoss))]})
	g.afterMaint()
}

func remove(xs []int, x int) []int {
	out := xs[:0]
	for _, y := range xs {
		if y != x {
			out = append(out, y)
		}
	}
	return out
}

func (g *Gen) closeIter(it *genIter) {
	if g.pinHook != nil {
		// before the Close: the deleter may remove the files the moment Close drops the reference
		g.R.T.Emit(Ev{"op": "unpin", "h": it.h})
	}
	g.R.Exec(Ev{"op": "close", "h": it.h})
	out := g.iters[:0]
	for _, x := range g.iters {
		if x != it {
			out = append(out, x)
		}
	}
	g.iters = out
}

func (g *Gen) actClose() {
	n := len(g.snaps) + len(g.efoss) + len(g.iters)
	if n == 0 {
		return
	}
	i := g.Rng.IntN(n)
	switch {
	case i < len(g.snaps):
		h := g.snaps[i]
		g.closeItersOn(h)
		g.R.Exec(Ev{"op": "close", "h": h})
		g.snaps = remove(g.snaps, h)
	case i < len(g.snaps)+len(g.efoss):
		h := g.efoss[i-len(g.snaps)]
		// close iterators on this efos first
		for _, it := range append([]*genIter{}, g.iters...) {
			if it.src == h {
				g.closeIter(it)
			}
		}
		g.R.Exec(Ev{"op": "close", "h": h})
		g.efoss = remove(g.efoss, h)
	default:
		g.closeIter(g.iters[i-len(g.snaps)-len(g.efoss)])
	}
}

func (g *Gen) actReadLatest(scan bool) {
	if scan {
		g.R.Exec(Ev{"op": "scan", "src": 0, "cls": g.P.LatestCls})
	} else {
		g.R.Exec(Ev{"op": "get", "src": 0, "k": g.key(), "cls": g.P.LatestCls})
	}
}

func (g *Gen) actReadSnap() {
	if len(g.snaps) == 0 {
		g.actSnap()
		return
	}
	s := g.snaps[g.Rng.IntN(len(g.snaps))]
	g.readSrc(s, "snap", g.snapTaint[s])
}

// ---- iterators

func (g *Gen) iterParams() (lo, hi, mask, kt int, filter bool) {
	R := g.U.R()
	lo, hi = 0, R
	switch g.Rng.IntN(4) {
	case 0:
		lo, hi = g.span()
	case 1:
		lo = g.Rng.IntN(R)
	}
	kt = 2
	switch g.Rng.IntN(6) {
	case 0:
		kt = 0
	case 1:
		kt = 1
	}
	if g.P.RangeKeys == 0 {
		kt = 0
	}
	if g.P.Masks && kt == 2 && g.Rng.IntN(2) == 0 {
		mask = 1 + g.Rng.IntN(g.U.S)
		filter = g.Rng.IntN(2) == 0
	}
	return
}

func (g *Gen) newIterOn(src int, cls string, batch bool) *genIter {
	lo, hi, mask, kt, filter := g.iterParams()
	it := &genIter{h: g.h(), src: src, cls: cls, lo: lo, hi: hi, mask: mask, kt: kt, batch: batch}
	var before []int
	if g.pinHook != nil {
		before = physFiles(g.R.DB)
	}
	g.R.Exec(Ev{"op": "newiter", "h": it.h, "src": src, "cls": cls, "lo": lo, "hi": hi, "mask": mask, "kt": kt, "filter": filter})
	if g.pinHook != nil && src == 0 && g.R.Fatal == nil {
		g.pinHook(it.h, before)
	}
	g.iters = append(g.iters, it)
	return it
}

func (g *Gen) actNewIter() {
	if len(g.iters) >= max(1, g.P.MaxIters) {
		g.closeIter(g.iters[g.Rng.IntN(len(g.iters))])
	}
	src := 0
	// sometimes on a (clean) snapshot
	if len(g.snaps) > 0 && g.Rng.IntN(4) == 0 {
		s := g.snaps[g.Rng.IntN(len(g.snaps))]
		if !g.snapTaint[s] {
			src = s
		}
	}
	g.newIterOn(src, g.P.IterCls, false)
}

var absOps = []string{"first", "last", "seekge", "seekge", "seeklt", "seekprefixge"}
var relOps = []string{"next", "next", "next", "prev", "prev", "nextprefix"}

func (g *Gen) iterOp(it *genIter, o string, k int) {
	e := Ev{"op": "iter", "h": it.h, "o": o, "k": k}
	g.R.Exec(e)
	it.positioned = true
	switch o {
	case "seekprefixge":
		it.pfxMode = true
	case "first", "last", "seekge", "seeklt":
		it.pfxMode = false
	}
	g.lastValid = false
	if res, ok := e["res"].(Ev); ok {
		g.lastValid = res.B("valid")
	}
}

func (g *Gen) actIterOp() {
	if len(g.iters) == 0 {
		g.actNewIter()
	}
	if len(g.iters) == 0 {
		return
	}
	it := g.iters[g.Rng.IntN(len(g.iters))]
	n := 1 + g.Rng.IntN(6)
	for i := 0; i < n; i++ {
		lim := g.P.Limits && g.Rng.IntN(3) == 0
		if !it.positioned || g.Rng.IntN(3) == 0 {
			if lim {
				o := []string{"seekgel", "seekltl"}[g.Rng.IntN(2)]
				g.iterLimOp(it, o, g.Rng.IntN(g.U.R()+1), g.Rng.IntN(g.U.R()+1))
				continue
			}
			o := absOps[g.Rng.IntN(len(absOps))]
			k := g.Rng.IntN(g.U.R() + 1)
			if o == "seekprefixge" && k >= g.U.R() {
				k = g.U.R() - 1
			}
			if o == "first" || o == "last" {
				k = 0
			}
			g.iterOp(it, o, k)
			it.dirlock = ""
		} else if it.dirlock != "" || lim {
			// continue in the locked direction (plain or limited); a plain step ends the lock
			fwd := it.dirlock == "f" || (it.dirlock == "" && g.Rng.IntN(2) == 0)
			if it.pfxMode && !fwd {
				fwd = true
			}
			switch {
			case lim && fwd:
				g.iterLimOp(it, "nextl", 0, g.Rng.IntN(g.U.R()+1))
			case lim && !fwd:
				g.iterLimOp(it, "prevl", 0, g.Rng.IntN(g.U.R()+1))
			case fwd:
				g.iterOp(it, "next", 0)
				it.dirlock = ""
			default:
				g.iterOp(it, "prev", 0)
				it.dirlock = ""
			}
		} else {
			g.iterOp(it, relOps[g.Rng.IntN(len(relOps))], 0)
		}
	}
}

func (g *Gen) actSetBounds() {
	if len(g.iters) == 0 {
		return
	}
	it := g.iters[g.Rng.IntN(len(g.iters))]
	lo, hi := 0, g.U.R()
	if g.Rng.IntN(3) > 0 {
		lo, hi = g.span()
	}
	it.lo, it.hi = lo, hi
	it.positioned = false
	g.R.Exec(Ev{"op": "setbounds", "h": it.h, "lo": lo, "hi": hi})
}

func (g *Gen) actSetOpts() {
	if len(g.iters) == 0 {
		return
	}
	it := g.iters[g.Rng.IntN(len(g.iters))]
	lo, hi, mask, kt, filter := g.iterParams()
	it.lo, it.hi, it.mask, it.kt = lo, hi, mask, kt
	it.positioned = false
	g.R.Exec(Ev{"op": "setopts", "h": it.h, "lo": lo, "hi": hi, "mask": mask, "kt": kt, "filter": filter})
}

func (g *Gen) actClone() {
	if len(g.iters) == 0 {
		return
	}
	if len(g.iters) >= max(1, g.P.MaxIters)+1 {
		g.closeIter(g.iters[g.Rng.IntN(len(g.iters))])
		if len(g.iters) == 0 {
			return
		}
	}
	from := g.iters[g.Rng.IntN(len(g.iters))]
	lo, hi, mask, kt, filter := g.iterParams()
	it := &genIter{h: g.h(), src: from.src, cls: from.cls, lo: lo, hi: hi, mask: mask, kt: kt, batch: from.batch}
	g.R.Exec(Ev{"op": "clone", "h": it.h, "from": from.h, "cls": from.cls, "refresh": from.batch && g.Rng.IntN(2) == 0,
		"lo": lo, "hi": hi, "mask": mask, "kt": kt, "filter": filter})
	g.iters = append(g.iters, it)
	g.walkIter(it)
}

// ---- indexed batches

func (g *Gen) actBatchNew() {
	if len(g.batches) >= 2 {
		g.actBatchEnd()
		return
	}
	h := g.h()
	g.R.Exec(Ev{"op": "batchnew", "h": h})
	g.batches = append(g.batches, h)
}

func (g *Gen) pickBatch() int {
	if len(g.batches) == 0 {
		g.actBatchNew()
	}
	return g.batches[g.Rng.IntN(len(g.batches))]
}

func (g *Gen) actBatchOp() {
	h := g.pickBatch()
	op := g.writeOp(false, map[int]bool{})
	g.R.Exec(Ev{"op": "batchop", "h": h, "bop": op})
	g.batchOps[h] = append(g.batchOps[h], op)
}

func (g *Gen) actBatchGet() {
	h := g.pickBatch()
	g.R.Exec(Ev{"op": "get", "src": h, "k": g.key(), "cls": "batch"})
}

func (g *Gen) actBatchScan() {
	h := g.pickBatch()
	g.R.Exec(Ev{"op": "scan", "src": h, "cls": "batch"})
}

func (g *Gen) closeItersOn(src int) {
	for _, it := range append([]*genIter{}, g.iters...) {
		if it.src == src {
			g.closeIter(it)
		}
	}
}

func (g *Gen) actBatchEnd() {
	if len(g.batches) == 0 {
		return
	}
	h := g.batches[g.Rng.IntN(len(g.batches))]
	g.closeItersOn(h)
	if g.Rng.IntN(3) == 0 {
		g.R.Exec(Ev{"op": "close", "h": h}) // dropped without commit: no effect
	} else {
		g.R.Exec(Ev{"op": "batchcommit", "h": h, "sync": false})
		g.track(g.batchOps[h])
	}
	delete(g.batchOps, h)
	g.batches = remove(g.batches, h)
	g.R.Exec(Ev{"op": "scan", "src": 0, "cls": g.P.LatestCls})
	g.afterWrite()
}

// an iterator over an indexed batch ("view" class): sees the batch as of creation
func (g *Gen) actBatchView() {
	h := g.pickBatch()
	for i := 0; i < 1+g.Rng.IntN(3); i++ {
		g.actBatchOpOn(h)
	}
	if len(g.iters) >= max(1, g.P.MaxIters) {
		g.closeIter(g.iters[g.Rng.IntN(len(g.iters))])
	}
	it := g.newIterOn(h, "view", true)
	g.walkIter(it)
	// mutate the batch afterwards: the iterator must not see it until refreshed
	g.actBatchOpOn(h)
	g.walkIter(it)
	if g.Rng.IntN(2) == 0 {
		lo, hi, mask, kt, filter := g.iterParams()
		it.lo, it.hi, it.mask, it.kt = lo, hi, mask, kt
		g.R.Exec(Ev{"op": "setopts", "h": it.h, "lo": lo, "hi": hi, "mask": mask, "kt": kt, "filter": filter})
		g.walkIter(it)
	}
	// refresh through SetOptions with UNCHANGED options right after seeks (the fast paths that keep
	// positioning state): limited seek (possibly paused), batch mutation, SetOptions, seek again
	for j := 0; j < 2; j++ {
		k := g.Rng.IntN(g.U.R())
		if g.Rng.IntN(2) == 0 {
			g.iterLimOp(it, "seekgel", k, k+1+g.Rng.IntN(g.U.R()-k))
		} else {
			g.iterOp(it, "seekge", k)
		}
		g.actBatchOpOn(h)
		g.R.Exec(Ev{"op": "setopts", "h": it.h, "lo": it.lo, "hi": it.hi, "mask": it.mask, "kt": it.kt, "filter": false})
		k2 := k + g.Rng.IntN(g.U.R()-k)
		if g.Rng.IntN(2) == 0 {
			g.iterLimOp(it, "seekgel", k2, k2+1+g.Rng.IntN(g.U.R()-k2))
		} else {
			g.iterOp(it, "seekge", k2)
		}
		it.dirlock = ""
		g.iterOp(it, "first", 0)
	}
}

func (g *Gen) actBatchOpOn(h int) {
	op := g.writeOp(false, map[int]bool{})
	g.R.Exec(Ev{"op": "batchop", "h": h, "bop": op})
	g.batchOps[h] = append(g.batchOps[h], op)
}

// batch iterator of the profile's class (C05: "batch")
func (g *Gen) actBatchIter() {
	h := g.pickBatch()
	it := g.newIterOn(h, "batch", true)
	g.walkIter(it)
	g.closeIter(it)
}

// DB reads while a batch with uncommitted ops is open (no leak before Commit)
func (g *Gen) actLeak() {
	g.R.Exec(Ev{"op": "scan", "src": 0, "cls": g.P.LatestCls})
	g.R.Exec(Ev{"op": "get", "src": 0, "k": g.key(), "cls": g.P.LatestCls})
}

// a direct commit made through an indexed batch is still a write
func (g *Gen) actBatchWrite() {
	h := g.h()
	g.R.Exec(Ev{"op": "batchnew", "h": h})
	var ops []Ev
	for i := 0; i < 1+g.Rng.IntN(3); i++ {
		op := g.writeOp(false, map[int]bool{})
		g.R.Exec(Ev{"op": "batchop", "h": h, "bop": op})
		ops = append(ops, op)
	}
	g.R.Exec(Ev{"op": "batchcommit", "h": h, "sync": false})
	g.track(ops)
	g.afterWrite()
}

// Step performs one weighted random action.
func (g *Gen) Step() {
	tot := 0
	names := make([]string, 0, len(g.P.W))
	for n := range g.P.W {
		names = append(names, n)
	}
	sort.Strings(names)
	for _, n := range names {
		tot += g.P.W[n]
	}
	x := g.Rng.IntN(tot)
	var act string
	for _, n := range names {
		if x < g.P.W[n] {
			act = n
			break
		}
		x -= g.P.W[n]
	}
	switch act {
	case "write":
		g.actWrite()
	case "ingest":
		g.actIngest()
	case "excise":
		g.actExcise()
	case "ingestexcise":
		g.actIngestExcise()
	case "maint":
		g.actMaint()
	case "get":
		g.actReadLatest(false)
	case "scan":
		g.actReadLatest(true)
	case "snap":
		g.actSnap()
	case "efos":
		g.actEfos()
	case "waitfileonly":
		g.actWaitFileOnly()
	case "close":
		g.actClose()
	case "readsnap":
		g.actReadSnap()
	case "viewiter", "positer":
		g.actNewIter()
	case "viewop", "posop":
		g.actIterOp()
	case "extingest":
		g.actExtIngest()
	case "extmask":
		g.actExtMask()
	case "pausedseek":
		g.actPausedSeek()
	case "rkabut":
		g.actRkAbut()
	case "ingestpair":
		g.actIngestPair()
	case "checkpointinner":
		g.actCheckpointInner()
	case "straddle":
		g.actStraddle()
	case "sdelchain":
		g.actSdelChain()
	case "windowscan":
		g.actWindowScan()
	case "npsweep":
		if len(g.iters) == 0 {
			g.actNewIter()
		}
		if len(g.iters) > 0 {
			g.npSweep(g.iters[g.Rng.IntN(len(g.iters))])
		}
	case "setbounds":
		g.actSetBounds()
	case "setopts":
		g.actSetOpts()
	case "clone":
		g.actClone()
	case "batchnew":
		g.actBatchNew()
	case "batchop":
		g.actBatchOp()
	case "batchget":
		g.actBatchGet()
	case "batchscan":
		g.actBatchScan()
	case "batchiter":
		g.actBatchIter()
	case "batchend":
		g.actBatchEnd()
	case "batchview":
		g.actBatchView()
	case "leak":
		g.actLeak()
	case "batchw":
		g.actBatchWrite()
	case "checkpoint":
		g.actCheckpoint()
	case "scanint":
		g.actScanInt()
	}
}
