package dbdrv

import (
	"bufio"
	"encoding/json"
	"fmt"
	"os"
	"path/filepath"
	"testing"

	"github.com/cockroachdb/pebble/vfs"
)

// norm converts a JSON-decoded script event into the typed form Exec expects.
func norm(m map[string]any) Ev {
	e := Ev{}
	for k, v := range m {
		switch k {
		case "ops":
			e[k] = normOps(v)
		case "tables":
			var ts [][]Ev
			for _, t := range v.([]any) {
				ts = append(ts, normOps(t))
			}
			e[k] = ts
		case "bop":
			e[k] = norm(v.(map[string]any))
		case "ranges":
			var rs [][]int
			for _, ab := range v.([]any) {
				p := ab.([]any)
				rs = append(rs, []int{int(p[0].(float64)), int(p[1].(float64))})
			}
			e[k] = rs
		default:
			if f, ok := v.(float64); ok {
				e[k] = int(f)
			} else {
				e[k] = v
			}
		}
	}
	return e
}

func normOps(v any) []Ev {
	var ops []Ev
	for _, o := range v.([]any) {
		ops = append(ops, norm(o.(map[string]any)))
	}
	return ops
}

// runScript replays one TLC-generated behaviour (mode A) under one configuration.
// The script supplies the calls; read-backs required by the profile are added by
// the driver; everything observed goes to the trace.
func runScript(u Univ, cfg Config, prof Profile, script []map[string]any, path string) (int, error) {
	t, err := NewTrace(path)
	if err != nil {
		return 0, err
	}
	defer t.Close()
	r := NewRunner(u, cfg, vfs.NewMem(), "db", t)
	r.Logger = crashLogger{}
	if err := r.Open(); err != nil {
		r.fail(err)
		return t.N, err
	}
	g := NewGen(r, prof, 1)
	func() {
		defer func() {
			if p := recover(); p != nil {
				r.fail(fmt.Errorf("panic: %v", p))
			}
		}()
		for _, m := range script {
			if r.Fatal != nil {
				break
			}
			e := norm(m)
			switch e.S("op") {
			case "excise", "ingestexcise":
				if !g.canExcise() {
					continue
				}
			}
			r.Exec(e)
			switch e.S("op") {
			case "commit", "ingest", "excise", "ingestexcise", "batchcommit":
				g.afterWrite()
			case "maint":
				g.afterMaint()
			case "snap":
				g.snaps = append(g.snaps, e.I("h"))
			case "newiter":
				g.iters = append(g.iters, &genIter{h: e.I("h"), src: e.I("src"), cls: e.S("cls")})
			}
		}
		if r.Fatal == nil {
			g.afterMaint()
			r.Exec(Ev{"op": "scan", "src": 0, "cls": prof.LatestCls})
		}
	}()
	cerr := r.CloseAll()
	if r.Fatal == nil {
		ev := Ev{"op": "closedb", "ok": cerr == nil}
		if cerr != nil {
			ev["err"] = cerr.Error()
		}
		t.Emit(ev)
	}
	return t.N, r.Fatal
}

// TestScript: VERIF_SCRIPTFILE holds one JSON array of events per line.
func TestScript(t *testing.T) {
	out := envStr("VERIF_OUT", "")
	sf := envStr("VERIF_SCRIPTFILE", "")
	if out == "" || sf == "" {
		t.Skip("VERIF_OUT / VERIF_SCRIPTFILE not set")
	}
	u := Univ{P: envInt("VERIF_P", 3), S: envInt("VERIF_S", 3)}
	prof, ok := Profiles()[envStr("VERIF_PROFILE", "C01")]
	if !ok {
		t.Fatalf("unknown profile")
	}
	cfgNames := splitList(envStr("VERIF_CONFIGS", "default,flushy"))
	cfgs := Configs()
	f, err := os.Open(sf)
	if err != nil {
		t.Fatal(err)
	}
	defer f.Close()
	sc := bufio.NewScanner(f)
	sc.Buffer(make([]byte, 1<<20), 1<<26)
	total, n := 0, 0
	ncfg := envInt("VERIF_SCRIPT_NCFG", 2)
	for i := 0; sc.Scan(); i++ {
		var script []map[string]any
		if err := json.Unmarshal(sc.Bytes(), &script); err != nil {
			t.Fatalf("script %d: %v", i, err)
		}
		// rotate configurations over scripts; every script runs under two of them
		for j := 0; j < ncfg && j < len(cfgNames); j++ {
			cn := cfgNames[(i+j)%len(cfgNames)]
			path := filepath.Join(out, fmt.Sprintf("S-%s-%05d-%s.ndjson", prof.Name, i, cn))
			k, _, _, ferr := guardedCrash(path, func() (int, int, map[string]int, error) {
				k, err := runScript(u, cfgs[cn], prof, script, path)
				return k, 0, nil, err
			})
			total += k
			n++
			if ferr != nil {
				fmt.Fprintf(os.Stdout, "DRIVER-FAIL %s: %v\n", path, ferr)
			}
		}
	}
	fmt.Fprintf(os.Stdout, "DRIVER-DONE traces=%d events=%d\n", n, total)
}
