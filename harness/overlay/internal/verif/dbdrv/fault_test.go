package dbdrv

import (
	"context"
	"fmt"
	"math/rand/v2"
	"os"
	"path/filepath"

	"sync"
	"sync/atomic"
	"testing"
	"time"

	"github.com/cockroachdb/errors"
	"github.com/cockroachdb/pebble"
	"github.com/cockroachdb/pebble/vfs"
	"github.com/cockroachdb/pebble/vfs/errorfs"
)

// C43: injected I/O faults.
//
// Faults are injected through errorfs on a seeded subset of operations:
//   mode "read":  reads of table/blob files fail while the client reads
//   mode "bg":    writes/syncs/creates of table and blob files fail (flushes and
//                 compactions fail in the background and are retried)
//   mode "fatal": writes/syncs of WAL and MANIFEST fail; Pebble treats those as
//                 fatal (Logger.Fatalf) which is modelled as a crash: the goroutine
//                 is stopped, the DB abandoned, the filesystem crash-cloned and reopened
// Every read logs either an error or its result ("fget"/"fscan" events); after the
// faults stop the full state is read back and, for "fatal", a crash clone is reopened.

var errInjected = errors.New("verif: injected I/O fault")

func ctxBG() context.Context { return context.Background() }

type faultCtl struct {
	mu      sync.Mutex
	rng     *rand.Rand
	mode    string
	on      atomic.Bool
	pct     int
	budget  int
	n       int
	byClass map[string]int
}

func (f *faultCtl) injector() errorfs.Injector {
	return errorfs.InjectorFunc(func(op errorfs.Op) error {
		if !f.on.Load() {
			return nil
		}
		cls := fileClass(op.Path)
		hit := false
		switch f.mode {
		case "read":
			hit = op.Kind.IsRead() && (cls == "sst" || cls == "blob") && op.Kind != errorfs.OpOpen
		case "bg":
			hit = op.Kind.IsWrite() && (cls == "sst" || cls == "blob") && op.Kind != errorfs.OpRemove
		case "fatal":
			hit = (op.Kind == errorfs.OpFileWrite || op.Kind == errorfs.OpFileSync || op.Kind == errorfs.OpFileSyncData ||
				op.Kind == errorfs.OpFileSyncTo) && (cls == "wal" || cls == "manifest")
		}
		if !hit {
			return nil
		}
		f.mu.Lock()
		defer f.mu.Unlock()
		if f.budget <= 0 || f.rng.IntN(100) >= f.pct {
			return nil
		}
		f.budget-- // faults are transient: a bounded number per client step, so retries eventually succeed
		f.n++
		f.byClass[cls+"/"+opName(op.Kind)]++
		return errInjected
	})
}

// fatalLogger turns Logger.Fatalf into "this goroutine stops and the DB is dead".
type fatalLogger struct{ dead *atomic.Bool }

func (fatalLogger) Infof(string, ...interface{})  {}
func (fatalLogger) Errorf(string, ...interface{}) {}
func (l fatalLogger) Fatalf(string, ...interface{}) {
	l.dead.Store(true)
	select {} // park this goroutine for good: running its deferred unlocks (Goexit) is not safe
}

// call runs f on its own goroutine so that a Fatalf inside it (Goexit) is survivable.
// Once the DB is dead (a goroutine was stopped inside Pebble, possibly holding locks
// or owing a wake-up) the call may never return: it is abandoned after a grace period.
func call(dead *atomic.Bool, f func()) (completed bool) {
	done := make(chan bool, 1)
	go func() {
		ok := false
		defer func() {
			// Pebble panics on a failed WAL write (commitWrite): like Logger.Fatalf, that is the
			// store dying of an I/O error; the filesystem is then treated as after a crash
			if p := recover(); p != nil {
				dead.Store(true)
				ok = false
			}
			done <- ok
		}()
		f()
		ok = true
	}()
	tick := time.NewTicker(20 * time.Millisecond)
	defer tick.Stop()
	deadTicks := 0
	for {
		select {
		case ok := <-done:
			return ok
		case <-tick.C:
			if dead.Load() {
				deadTicks++
				if deadTicks > 10 {
					return false
				}
			}
		}
	}
}

func runFault(u Univ, cfg Config, mode string, seed uint64, steps int, path string) (int, int, map[string]int, error) {
	t, err := NewTrace(path)
	if err != nil {
		return 0, 0, nil, err
	}
	defer t.Close()
	mem := vfs.NewCrashableMem()
	rng := rand.New(rand.NewPCG(seed, seed^0xfa17))
	fc := &faultCtl{rng: rand.New(rand.NewPCG(seed, 99)), mode: mode, pct: 8 + rng.IntN(25), byClass: map[string]int{}}
	var dead atomic.Bool
	var r *Runner
	open := func(m *vfs.MemFS) error {
		r = NewRunner(u, cfg, errorfs.Wrap(m, fc.injector()), "db", t)
		r.Opts = r.MakeOptions()
		r.Opts.Logger = fatalLogger{dead: &dead}
		db, err := pebble.Open(r.Dir, r.Opts)
		if err != nil {
			return err
		}
		r.DB = db
		return nil
	}
	if err := open(mem); err != nil {
		return 0, 0, nil, err
	}
	prof := Profile{Name: "C43", W: map[string]int{}, RangeKeys: 1, LatestCls: "latest"}
	g := NewGen(r, prof, seed)
	winLen := 0
	reads := func(cls string) {
		// point reads and a scan, each logging error-or-result
		for i := 0; i < 3; i++ {
			k := g.key()
			var ids []int
			var gerr error
			if !call(&dead, func() { ids, gerr = r.get(0, k) }) {
				return
			}
			ev := Ev{"op": "fget", "src": 0, "k": k, "cls": cls, "err": gerr != nil, "res": []int{}}
			if gerr == nil {
				ev["res"] = ids
			} else if !errors.Is(gerr, errInjected) {
				ev["errtext"] = gerr.Error()
			}
			t.Emit(ev)
		}
		var pts, rks []any
		var serr error
		if !call(&dead, func() { pts, rks, serr = r.scan(0) }) {
			return
		}
		ev := Ev{"op": "fscan", "src": 0, "cls": cls, "err": serr != nil, "pts": []any{}, "rks": []any{}}
		if serr == nil {
			ev["pts"], ev["rks"] = pts, rks
		}
		t.Emit(ev)
	}
	crashAndReopen := func(why string) bool {
		// the DB is dead (fatal error): whatever is on the filesystem is what a crash leaves
		fc.on.Store(false)
		items := mem.UnsyncedItems()
		_ = items
		clone := mem.CrashCloneWith(func(string, bool, int) bool { return rng.IntN(2) == 0 })
		mem = clone
		dead.Store(false)
		if err := open(mem); err != nil {
			t.Emit(Ev{"op": "reopen", "ok": false, "err": why + ": " + err.Error(), "state": Ev{"pts": []any{}, "rks": []any{}}, "pend": []Ev{},
				"dur": false, "hasfiles": false, "files": []int{}, "vallowed": [][]int{}, "fmv": 0, "fmvlo": 0, "fmvhi": 999})
			return false
		}
		st, derr := DumpState(r)
		if derr != nil {
			r.fail(derr)
			return false
		}
		t.Emit(Ev{"op": "reopen", "ok": true, "state": st, "pend": pendOf(r), "dur": false, "why": why, "hasfiles": false, "files": []int{},
			"vallowed": [][]int{}, "fmv": int(r.DB.FormatMajorVersion()), "fmvlo": 0, "fmvhi": 999})
		nv := g.nv
		g = NewGen(r, prof, seed+uint64(g.nv))
		g.unknownHistory()
		g.nv = nv
		winLen = 0
		return true
	}
	// probe: what a crash right now would recover (nothing unsynced survives / everything survives)
	probe := func(at string) {
		for _, keepAll := range []bool{false, true} {
			clone := mem.CrashCloneWith(func(string, bool, int) bool { return keepAll })
			r2 := NewRunner(u, cfg, clone, "db", t)
			ev := Ev{"op": "crashprobe", "ok": false, "state": Ev{"pts": []any{}, "rks": []any{}}, "pend": []Ev{}, "dur": false, "hasfiles": false,
				"files": []int{}, "vallowed": [][]int{}, "fmv": 0, "fmvlo": 0, "fmvhi": 999, "at": at, "choice": fmt.Sprint(keepAll), "unsynced": 1}
			if err := r2.Open(); err != nil {
				ev["err"] = err.Error()
			} else if st, derr := DumpState(r2); derr != nil {
				ev["err"] = derr.Error()
				r2.DB.Close()
			} else {
				ev["ok"], ev["state"] = true, st
				r2.DB.Close()
			}
			t.Emit(ev)
		}
	}
	for i := 0; i < steps && r.Fatal == nil; i++ {
		x := rng.IntN(100)
		nBefore := fc.n
		fc.mu.Lock()
		fc.budget = 1 + rng.IntN(3)
		fc.mu.Unlock()
		fc.on.Store(mode != "read") // read faults only while reading
		switch {
		case x < 14:
			var ferr error
			ok := call(&dead, func() { ferr = r.DB.Flush() })
			if ok && ferr == nil && !dead.Load() {
				t.Emit(Ev{"op": "maint", "kind": "flush"})
				t.Emit(Ev{"op": "durable"})
				winLen = 0
			} else if ok {
				t.Emit(Ev{"op": "maint", "kind": "flush-failed"})
			}
		case x < 22:
			ok := call(&dead, func() { _ = r.DB.Compact(ctxBG(), u.Key(0), u.Key(u.R()), false) })
			if ok {
				t.Emit(Ev{"op": "maint", "kind": "compact-under-faults"})
			}
		default:
			n := 1 + rng.IntN(3)
			ops := make([]Ev, 0, n)
			touched := map[int]bool{}
			for j := 0; j < n; j++ {
				ops = append(ops, g.writeOp(true, touched))
			}
			sync := rng.IntN(3) == 0
			e := Ev{"op": "commit", "ops": ops, "sync": sync}
			b := r.DB.NewBatch()
			for _, op := range ops {
				if err := r.applyOp(b, op); err != nil {
					r.fail(err)
				}
			}
			var aerr error
			setPend(r, []Ev{e})
			ok := call(&dead, func() { aerr = r.DB.Apply(b, wo(sync)) })
			if ok && aerr == nil && !dead.Load() {
				setPend(r, nil)
				t.Emit(e)
				g.track(ops)
				winLen++
			} else if ok && aerr != nil && !dead.Load() {
				// a failed Apply without a fatal error must have had no effect
				setPend(r, nil)
				t.Emit(Ev{"op": "note", "apply_error": aerr.Error()})
			}
			// else: fatal during the call: the entry stays "in flight" for the reopen
		}
		if dead.Load() {
			if !crashAndReopen("fatal I/O error") {
				break
			}
			setPend(r, nil)
			continue
		}
		// reads: under read faults for mode "read", otherwise with faults paused
		fc.on.Store(mode == "read")
		reads("fault")
		fc.on.Store(false)
		if mode == "fatal" && fc.n > nBefore {
			// a WAL/MANIFEST fault was injected and the store carried on: whatever it acknowledged
			// since must already be recoverable
			setPend(r, nil)
			probe("after a survived fault")
		}
		if mode == "read" || rng.IntN(3) == 0 {
			// with the faults off everything must read correctly (a background failure must not corrupt the LSM)
			// (an operation of a background goroutine that was already in flight when the faults
			// stopped may still deliver its injected error to a reader that joins it - e.g. a file-cache
			// entry being initialised; an error is an allowed answer, a PERSISTENT one is not)
			pts, rks, serr := r.scan(0)
			for retry := 0; serr != nil && retry < 5; retry++ {
				time.Sleep(2 * time.Millisecond)
				pts, rks, serr = r.scan(0)
			}
			if serr != nil {
				r.fail(errors.Wrap(serr, "scan after faults stopped"))
				break
			}
			t.Emit(Ev{"op": "scan", "src": 0, "cls": "fault", "pts": pts, "rks": rks})
			if cerr := r.DB.CheckLevels(nil); cerr != nil {
				r.fail(errors.Wrap(cerr, "CheckLevels after faults stopped"))
				break
			}
		}
		if winLen >= 8 {
			// (through call: a sticky WAL error of an earlier fault can make even this fault-free
			// Flush fatal - rotateWAL - and the caller's goroutine is then parked for good)
			fc.on.Store(false)
			var ferr error
			ok := call(&dead, func() { ferr = r.DB.Flush() })
			if ok && ferr == nil && !dead.Load() {
				t.Emit(Ev{"op": "maint", "kind": "flush"})
				t.Emit(Ev{"op": "durable"})
				winLen = 0
			}
			if dead.Load() {
				if !crashAndReopen("fatal I/O error (sticky)") {
					break
				}
				setPend(r, nil)
			}
		}
	}
	fc.on.Store(false)
	if r.Fatal == nil && !dead.Load() {
		// after the faults stop: a crash clone must reopen to a prefix containing everything acknowledged
		setPend(r, nil)
		for _, keepAll := range []bool{false, true} {
			clone := mem.CrashCloneWith(func(string, bool, int) bool { return keepAll })
			r2 := NewRunner(u, cfg, clone, "db", t)
			ev := Ev{"op": "crashprobe", "ok": false, "state": Ev{"pts": []any{}, "rks": []any{}}, "pend": []Ev{}, "dur": false, "hasfiles": false,
				"files": []int{}, "vallowed": [][]int{}, "fmv": 0, "fmvlo": 0, "fmvhi": 999, "at": "after faults stopped", "choice": fmt.Sprint(keepAll), "unsynced": 1}
			if err := r2.Open(); err != nil {
				ev["err"] = err.Error()
			} else if st, derr := DumpState(r2); derr != nil {
				ev["err"] = derr.Error()
				r2.DB.Close()
			} else {
				ev["ok"], ev["state"] = true, st
				r2.DB.Close()
			}
			t.Emit(ev)
		}
		r.CloseAll()
	}
	return t.N, fc.n, fc.byClass, r.Fatal
}

// the entry in flight when a fatal error killed the call (it may or may not have reached the WAL)
var pendMu sync.Mutex
var pendMap = map[*Runner][]Ev{}

func setPend(r *Runner, p []Ev) {
	pendMu.Lock()
	defer pendMu.Unlock()
	for k := range pendMap {
		delete(pendMap, k)
	}
	if p != nil {
		pendMap[r] = p
	}
}
func pendOf(r *Runner) []Ev {
	pendMu.Lock()
	defer pendMu.Unlock()
	for _, p := range pendMap {
		return p
	}
	return []Ev{}
}

// TestFault: VERIF_OUT, VERIF_SEED, VERIF_SCRIPTS, VERIF_STEPS
func TestFault(t *testing.T) {
	out := envStr("VERIF_OUT", "")
	if out == "" {
		t.Skip("VERIF_OUT not set")
	}
	u := Univ{P: envInt("VERIF_P", 3), S: envInt("VERIF_S", 3)}
	seed := uint64(envInt("VERIF_SEED", 1))
	scripts := envInt("VERIF_SCRIPTS", 9)
	steps := envInt("VERIF_STEPS", 40)
	cfgs := crashConfigs()
	cfgNames := []string{"crash1", "crash2", "crashvs", "crashbig"}
	modes := []string{"read", "bg", "fatal"}
	events, faults := 0, 0
	by := map[string]int{}
	for i := 0; i < scripts; i++ {
		mode := modes[i%len(modes)]
		cn := cfgNames[(i/len(modes))%len(cfgNames)]
		if mode == "fatal" && (i/len(modes))%2 == 0 {
			cn = "crashbig" // WAL faults matter most where records span several blocks
		}
		path := filepath.Join(out, fmt.Sprintf("F-%s-%d-%04d-%s.ndjson", mode, seed, i, cn))
		ne, nf, b, ferr := runFault(u, cfgs[cn], mode, seed*977+uint64(i), steps, path)
		events += ne
		faults += nf
		for k, v := range b {
			by[mode+":"+k] += v
		}
		if ferr != nil {
			fmt.Fprintf(os.Stdout, "DRIVER-FAIL %s: %v\n", path, ferr)
		}
	}
	fmt.Fprintf(os.Stdout, "DRIVER-FAULTS %v\n", by)
	fmt.Fprintf(os.Stdout, "DRIVER-DONE traces=%d events=%d probes=%d\n", scripts, events, faults)
}
