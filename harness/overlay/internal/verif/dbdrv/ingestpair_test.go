package dbdrv

// actIngestPair: two ingestions back to back whose tables TOUCH at one user key.  A write to a key
// of the first table right before it makes the first ingestion overlap the memtable (with a WAL it
// is then queued as a flushable ingest and its flush runs in the background); the second table's
// smallest key is the first table's largest key.  The second ingestion must be ordered after the
// first wherever the first currently lives (queue, L0, below).
func (g *Gen) actIngestPair() {
	R := g.U.R()
	if R < 3 {
		g.actIngest()
		return
	}
	lo := g.Rng.IntN(R - 1)
	hi := lo + 1 + g.Rng.IntN(R-1-lo) // lo < hi <= R-1
	// overlap with the memtable: a fresh write to a key inside the first table
	mk := lo + g.Rng.IntN(hi-lo+1)
	ops := []Ev{{"o": "set", "k": mk, "v": g.v()}}
	g.R.Exec(Ev{"op": "commit", "ops": ops, "sync": false})
	g.track(ops)
	t1 := []Ev{{"o": "set", "k": lo, "v": g.v()}}
	if mk != lo && mk != hi {
		t1 = append(t1, Ev{"o": "set", "k": mk, "v": g.v()})
	}
	t1 = append(t1, Ev{"o": "set", "k": hi, "v": g.v()})
	g.R.Exec(Ev{"op": "ingest", "tables": [][]Ev{t1}, "ops": t1})
	g.track(t1)
	t2 := []Ev{{"o": "set", "k": hi, "v": g.v()}}
	if hi+1 < R && g.Rng.IntN(2) == 0 {
		t2 = append(t2, Ev{"o": "set", "k": hi + 1 + g.Rng.IntN(R-hi-1), "v": g.v()})
	}
	g.R.Exec(Ev{"op": "ingest", "tables": [][]Ev{t2}, "ops": t2})
	g.track(t2)
	g.afterWrite()
}

// actRkAbut: one ingested table holding range keys that ABUT with the same suffix (and, inside
// one table, the same sequence number) but different values, then a real (non-move) compaction of
// that table.  Compactions defragment with a stricter rule than user iteration does; the spans
// must stay distinct wherever their values differ.
func (g *Gen) actRkAbut() {
	u := g.U
	if g.P.RangeKeys == 0 || u.P < 2 {
		g.actIngest()
		return
	}
	g.preIngest()
	s := g.Rng.IntN(u.S + 1)
	n := 2 + g.Rng.IntN(min(2, u.P-1)) // 2..3 abutting spans, one prefix each
	p0 := g.Rng.IntN(u.P - n + 1)
	var tbl []Ev
	for j := 0; j < n; j++ {
		a, b := (p0+j)*(u.S+1), (p0+j+1)*(u.S+1)
		tbl = append(tbl, Ev{"o": "rkset", "a": a, "b": b, "s": s, "v": g.v()})
		if g.Rng.IntN(3) == 0 {
			// a second suffix over the same span, equal on both sides of the boundary or not
			tbl = append(tbl, Ev{"o": "rkset", "a": a, "b": b, "s": (s + 1) % (u.S + 1), "v": g.v()})
		}
	}
	g.R.Exec(Ev{"op": "ingest", "tables": [][]Ev{tbl}, "ops": tbl})
	g.track(tbl)
	// a point inside the first span, flushed, so that compacting the range is not a move
	ops := []Ev{{"o": "set", "k": p0*(u.S+1) + g.Rng.IntN(u.S+1), "v": g.v()}}
	g.R.Exec(Ev{"op": "commit", "ops": ops, "sync": false})
	g.track(ops)
	g.R.Exec(Ev{"op": "maint", "kind": "flush"})
	g.R.Exec(Ev{"op": "maint", "kind": "compact"})
	g.afterWrite()
	g.afterMaint()
}
