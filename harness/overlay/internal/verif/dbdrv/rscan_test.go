package dbdrv

import (
	"github.com/cockroachdb/errors"
	"github.com/cockroachdb/pebble"
)

// rscan: a fresh unbounded combined iterator walked backwards (Last, Prev...): points in
// iteration order (descending) and the range-key spans met.
func (r *Runner) rscan(src int) (pts []any, rks []any, err error) {
	it, err := r.newIter(src, &pebble.IterOptions{KeyTypes: pebble.IterKeyTypePointsAndRanges})
	if err != nil {
		return nil, nil, err
	}
	defer func() {
		if cerr := it.Close(); err == nil {
			err = cerr
		}
	}()
	pts, rks = []any{}, []any{}
	u := r.U
	for ok := it.Last(); ok; ok = it.Prev() {
		hp, hr := it.HasPointAndRange()
		if hp {
			v, verr := it.ValueAndErr()
			if verr != nil {
				return nil, nil, verr
			}
			ids, derr := r.VC.Dec(v)
			if derr != nil {
				return nil, nil, derr
			}
			pts = append(pts, []any{u.Rank(it.Key()), ids})
		}
		if hr && it.RangeKeyChanged() {
			s, e := it.RangeBounds()
			ks := []any{}
			for _, k := range it.RangeKeys() {
				ids, derr := r.VC.Dec(k.Value)
				if derr != nil || len(ids) != 1 {
					return nil, nil, errors.Newf("bad range key value %q", k.Value)
				}
				ks = append(ks, []int{u.SuffixNum(k.Suffix), ids[0]})
			}
			rks = append(rks, []any{u.Rank(s), u.Rank(e), ks})
		}
	}
	return pts, rks, it.Error()
}

// npSweep: SeekGE to every key followed by NextPrefix, and a First + NextPrefix chain (C02).
func (g *Gen) npSweep(it *genIter) {
	for k := 0; k < g.U.R(); k++ {
		g.iterOp(it, "seekge", k)
		g.iterOp(it, "nextprefix", 0)
	}
	g.iterOp(it, "first", 0)
	for i := 0; i < g.U.P+1 && g.lastValid; i++ {
		g.iterOp(it, "nextprefix", 0)
	}
	it.dirlock = ""
}

// actStraddle: two flushes of disjoint, adjacent key slices whose boundary lies inside a
// prefix: the two tables share a level (an L0 sublevel) and the prefix's versions straddle
// them.  Then every NextPrefix / Next / Prev / seek path across that boundary is walked.
func (g *Gen) actStraddle() {
	R := g.U.R()
	k := 2 + g.Rng.IntN(R-3)
	for _, span := range [][2]int{{0, k}, {k, R}} {
		var ops []Ev
		for x := span[0]; x < span[1]; x++ {
			if g.Rng.IntN(5) > 0 {
				ops = append(ops, Ev{"o": "set", "k": x, "v": g.v()})
			}
		}
		if len(ops) == 0 {
			ops = append(ops, Ev{"o": "set", "k": span[0], "v": g.v()})
		}
		g.R.Exec(Ev{"op": "commit", "ops": ops, "sync": false})
		g.track(ops)
		g.R.Exec(Ev{"op": "maint", "kind": "flush"})
	}
	if len(g.iters) >= max(1, g.P.MaxIters) {
		g.closeIter(g.iters[g.Rng.IntN(len(g.iters))])
	}
	it := &genIter{h: g.h(), src: 0, cls: g.P.IterCls, lo: 0, hi: R, kt: 0}
	g.R.Exec(Ev{"op": "newiter", "h": it.h, "src": 0, "cls": it.cls, "lo": 0, "hi": R, "mask": 0, "kt": 0, "filter": false})
	g.iters = append(g.iters, it)
	g.npSweep(it)
	g.walkIter(it)
	for x := 0; x < R; x++ {
		g.iterOp(it, "seeklt", x+1)
		g.iterOp(it, "next", 0)
		g.iterOp(it, "next", 0)
	}
}
