package dbdrv

import (
	"github.com/cockroachdb/errors"
	"github.com/cockroachdb/pebble"
)

// rscan: a fresh unbounded combined iterator walked backwards (Last, Prev...): points in
// iteration order (descending) and the range-key spans met.
func (r *Runner) rscan(src int) (pts []any, rks []any, err error) {
	it, err := r.newIter(src, &pebble.IterOptions{KeyTypes: pebble.IterKeyTypePointsAndRanges})
	if err != nil {
		return nil, nil, err
	}
	defer func() {
		if cerr := it.Close(); err == nil {
			err = cerr
		}
	}()
	pts, rks = []any{}, []any{}
	u := r.U
	for ok := it.Last(); ok; ok = it.Prev() {
		hp, hr := it.HasPointAndRange()
		if hp {
			v, verr := it.ValueAndErr()
			if verr != nil {
				return nil, nil, verr
			}
			ids, derr := r.VC.Dec(v)
			if derr != nil {
				return nil, nil, derr
			}
			pts = append(pts, []any{u.Rank(it.Key()), ids})
		}
		if hr && it.RangeKeyChanged() {
			s, e := it.RangeBounds()
			ks := []any{}
			for _, k := range it.RangeKeys() {
				ids, derr := r.VC.Dec(k.Value)
				if derr != nil || len(ids) != 1 {
					return nil, nil, errors.Newf("bad range key value %q", k.Value)
				}
				ks = append(ks, []int{u.SuffixNum(k.Suffix), ids[0]})
			}
			rks = append(rks, []any{u.Rank(s), u.Rank(e), ks})
		}
	}
	return pts, rks, it.Error()
}

// npSweep: SeekGE to every key followed by NextPrefix, and a First + NextPrefix chain (C02).
func (g *Gen) npSweep(it *genIter) {
	for k := 0; k < g.U.R(); k++ {
		g.iterOp(it, "seekge", k)
		g.iterOp(it, "nextprefix", 0)
	}
	g.iterOp(it, "first", 0)
	for i := 0; i < g.U.P+1 && g.lastValid; i++ {
		g.iterOp(it, "nextprefix", 0)
	}
	it.dirlock = ""
}

// actStraddle: two flushes of disjoint, adjacent key slices whose boundary lies inside a
// prefix: the two tables share a level (an L0 sublevel) and the prefix's versions straddle
// them.  Then every NextPrefix / Next / Prev / seek path across that boundary is walked.
func (g *Gen) actStraddle() {
	R := g.U.R()
	k := 2 + g.Rng.IntN(R-3)
	for _, span := range [][2]int{{0, k}, {k, R}} {
		var ops []Ev
		for x := span[0]; x < span[1]; x++ {
			if g.Rng.IntN(5) > 0 {
				ops = append(ops, Ev{"o": "set", "k": x, "v": g.v()})
			}
		}
		if len(ops) == 0 {
			ops = append(ops, Ev{"o": "set", "k": span[0], "v": g.v()})
		}
		g.R.Exec(Ev{"op": "commit", "ops": ops, "sync": false})
		g.track(ops)
		g.R.Exec(Ev{"op": "maint", "kind": "flush"})
	}
	if len(g.iters) >= max(1, g.P.MaxIters) {
		g.closeIter(g.iters[g.Rng.IntN(len(g.iters))])
	}
	it := &genIter{h: g.h(), src: 0, cls: g.P.IterCls, lo: 0, hi: R, kt: 0}
	g.R.Exec(Ev{"op": "newiter", "h": it.h, "src": 0, "cls": it.cls, "lo": 0, "hi": R, "mask": 0, "kt": 0, "filter": false})
	g.iters = append(g.iters, it)
	g.npSweep(it)
	g.walkIter(it)
	for x := 0; x < R; x++ {
		g.iterOp(it, "seeklt", x+1)
		g.iterOp(it, "next", 0)
		g.iterOp(it, "next", 0)
	}
}

// actSdelChain: the internal kinds a later compaction receives as input.  An old SET pushed to
// the bottom; DEL + SET in one memtable (flushed as SETWITHDEL); then SINGLEDEL (within its
// contract: one SET since the last delete); then everything compacted together.  Variants:
// with/without the intermediate flushes, a MERGE chain, a DELSIZED.
func (g *Gen) actSdelChain() {
	if g.noMerge {
		return
	}
	k := g.key()
	one := func(ops ...Ev) {
		g.R.Exec(Ev{"op": "commit", "ops": ops, "sync": false})
		g.track(ops)
		g.afterWrite()
	}
	maint := func(kind string) {
		g.R.Exec(Ev{"op": "maint", "kind": kind})
	}
	one(Ev{"o": "set", "k": k, "v": g.v()})
	maint("flush")
	maint("compact")
	switch g.Rng.IntN(3) {
	case 0:
		one(Ev{"o": "del", "k": k}, Ev{"o": "set", "k": k, "v": g.v()})
	case 1:
		one(Ev{"o": "del", "k": k})
		one(Ev{"o": "set", "k": k, "v": g.v()})
	default:
		one(Ev{"o": "delsized", "k": k, "sz": 3}, Ev{"o": "set", "k": k, "v": g.v()})
	}
	if g.Rng.IntN(3) > 0 {
		maint("flush")
	}
	one(Ev{"o": "sdel", "k": k})
	if g.Rng.IntN(2) == 0 {
		maint("flush")
	}
	maint("compact")
	g.afterMaint()
	g.R.Exec(Ev{"op": "get", "src": 0, "k": k, "cls": g.P.LatestCls})
	g.R.Exec(Ev{"op": "scan", "src": 0, "cls": g.P.LatestCls})
}

// actWindowScan: one iterator reused over adjacent windows [a,b), [b,c), ... through SetBounds,
// forward (SeekGE lower, Next...) and backward (SeekLT upper, Prev...): the usage pattern the
// table iterators optimise (bounds moving monotonically, the next seek in the loaded block).
func (g *Gen) actWindowScan() {
	R := g.U.R()
	if len(g.iters) >= max(1, g.P.MaxIters) {
		g.closeIter(g.iters[g.Rng.IntN(len(g.iters))])
	}
	it := &genIter{h: g.h(), src: 0, cls: g.P.IterCls, lo: 0, hi: R, kt: 0}
	if g.P.RangeKeys > 0 && g.Rng.IntN(3) == 0 {
		it.kt = 2
	}
	g.R.Exec(Ev{"op": "newiter", "h": it.h, "src": 0, "cls": it.cls, "lo": 0, "hi": R, "mask": 0, "kt": it.kt, "filter": false})
	g.iters = append(g.iters, it)
	// window boundaries
	cuts := []int{0}
	for x := 1; x < R; x++ {
		if g.Rng.IntN(3) == 0 {
			cuts = append(cuts, x)
		}
	}
	cuts = append(cuts, R)
	if g.Rng.IntN(2) == 0 {
		for i := 0; i+1 < len(cuts); i++ {
			g.R.Exec(Ev{"op": "setbounds", "h": it.h, "lo": cuts[i], "hi": cuts[i+1]})
			it.lo, it.hi = cuts[i], cuts[i+1]
			g.iterOp(it, "seekge", cuts[i])
			for n := 0; n < R+2 && g.lastValid; n++ {
				g.iterOp(it, "next", 0)
			}
		}
	} else {
		for i := len(cuts) - 1; i > 0; i-- {
			g.R.Exec(Ev{"op": "setbounds", "h": it.h, "lo": cuts[i-1], "hi": cuts[i]})
			it.lo, it.hi = cuts[i-1], cuts[i]
			g.iterOp(it, "seeklt", cuts[i])
			for n := 0; n < R+2 && g.lastValid; n++ {
				g.iterOp(it, "prev", 0)
			}
		}
	}
	it.dirlock = ""
}
