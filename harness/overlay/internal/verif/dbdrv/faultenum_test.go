package dbdrv

import (
	"context"
	"fmt"
	"os"
	"path/filepath"
	"sync/atomic"
	"testing"

	"github.com/cockroachdb/pebble/vfs"
	"github.com/cockroachdb/pebble/vfs/errorfs"
)

// TestFaultEnum (C43, fault enumeration): a small fixed history (two flushed
// tables with points, a merge, a range deletion and a range key; values large
// enough for blob files under value separation), then exactly ONE injected
// fault: the n-th read (or the n-th write/sync/create) on a table or blob file
// during Flush + manual Compact, for every n.  Whatever the maintenance call
// returns, with the fault gone the DB must read exactly the model state.
func TestFaultEnum(t *testing.T) {
	out := envStr("VERIF_OUT", "")
	if out == "" {
		t.Skip("VERIF_OUT not set")
	}
	u := Univ{P: envInt("VERIF_P", 3), S: envInt("VERIF_S", 3)}
	maxN := int32(envInt("VERIF_MAXN", 80))
	traces, cases := 0, 0
	for _, cn := range []string{"crash2", "crashvs", "crashold"} {
		cfg := crashConfigs()[cn]
		cfg.AutoCompact = false
		for _, kind := range []string{"read", "write"} {
			path := filepath.Join(out, fmt.Sprintf("E-%s-%s.ndjson", cn, kind))
			tr, err := NewTrace(path)
			if err != nil {
				t.Fatal(err)
			}
			traces++
			for n := int32(0); n < maxN; n++ {
				var cnt atomic.Int32
				var on atomic.Bool
				var hit errorfs.Op
				inj := errorfs.InjectorFunc(func(op errorfs.Op) error {
					c := fileClass(op.Path)
					if !on.Load() || (c != "sst" && c != "blob") {
						return nil
					}
					if kind == "read" && (!op.Kind.IsRead() || op.Kind == errorfs.OpOpen) {
						return nil
					}
					if kind == "write" && (!op.Kind.IsWrite() || op.Kind == errorfs.OpRemove) {
						return nil
					}
					if cnt.Add(1)-1 == n {
						hit = op
						return errInjected
					}
					return nil
				})
				r := NewRunner(u, cfg, errorfs.Wrap(vfs.NewMem(), inj), "db", tr)
				if err := r.Open(); err != nil {
					t.Fatal(err)
				}
				r.Exec(Ev{"op": "commit", "sync": false, "ops": []Ev{
					{"o": "set", "k": 10, "v": 3}, {"o": "set", "k": 1, "v": 5}, {"o": "rkset", "a": 0, "b": 8, "s": 0, "v": 2}, {"o": "set", "k": 6, "v": 1}}})
				r.Exec(Ev{"op": "maint", "kind": "flush"})
				r.Exec(Ev{"op": "commit", "sync": false, "ops": []Ev{
					{"o": "set", "k": 3, "v": 11}, {"o": "merge", "k": 10, "v": 9}, {"o": "delr", "a": 5, "b": 8}, {"o": "set", "k": 11, "v": 7}}})
				on.Store(true)
				_ = r.DB.Flush()
				_ = r.DB.Compact(context.Background(), u.Key(0), u.Key(u.R()), false)
				on.Store(false)
				fired := cnt.Load() > n
				if fired {
					tr.Emit(Ev{"op": "maint", "kind": fmt.Sprintf("%s-fault n=%d %s %s+%d", kind, n, opName(hit.Kind), filepath.Base(hit.Path), hit.Offset)})
					r.Exec(Ev{"op": "scan", "src": 0, "cls": "fault"})
					for k := 0; k < u.R(); k++ {
						r.Exec(Ev{"op": "get", "src": 0, "k": k, "cls": "fault"})
					}
					if cerr := r.DB.CheckLevels(nil); cerr != nil {
						r.fail(cerr)
					}
					cases++
				}
				if r.Fatal == nil {
					r.CloseAll()
				} else {
					fmt.Fprintf(os.Stdout, "DRIVER-FAIL %s n=%d: %v\n", path, n, r.Fatal)
				}
				tr.Emit(Ev{"op": "reset"})
				if !fired {
					break
				}
			}
			tr.Close()
		}
	}
	fmt.Fprintf(os.Stdout, "DRIVER-DONE traces=%d events=0 probes=%d\n", traces, cases)
}
