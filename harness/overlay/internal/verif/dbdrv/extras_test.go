package dbdrv

import (
	"context"
	"fmt"
	"io"
	"os"
	"runtime"
	"sort"
	"sync/atomic"
	"time"

	"github.com/cockroachdb/errors"
	"github.com/cockroachdb/pebble"
	"github.com/cockroachdb/pebble/rangekey"
	"github.com/cockroachdb/pebble/vfs"
)

// ---------------------------------------------------------------- C47: leak accounting

// countFS counts files (and locks) that are open.
type countFS struct {
	vfs.FS
	open *atomic.Int64
	hook *fsHook
}

// fsHook lets the driver run client calls at a chosen point INSIDE another call (on that call's
// own goroutine): e.g. writes issued while a Checkpoint is between capturing its view and copying files.
type fsHook struct {
	onMkdirAll func(dir string)
}

func (c countFS) MkdirAll(dir string, perm os.FileMode) error {
	if c.hook != nil && c.hook.onMkdirAll != nil {
		c.hook.onMkdirAll(dir)
	}
	return c.FS.MkdirAll(dir, perm)
}

type countFile struct {
	vfs.File
	open   *atomic.Int64
	closed atomic.Bool
}

func (f *countFile) Close() error {
	if f.closed.CompareAndSwap(false, true) {
		f.open.Add(-1)
	}
	return f.File.Close()
}

type countCloser struct {
	io.Closer
	open   *atomic.Int64
	closed atomic.Bool
}

func (c *countCloser) Close() error {
	if c.closed.CompareAndSwap(false, true) {
		c.open.Add(-1)
	}
	return c.Closer.Close()
}

func (c countFS) wrap(f vfs.File, err error) (vfs.File, error) {
	if err != nil {
		return nil, err
	}
	c.open.Add(1)
	return &countFile{File: f, open: c.open}, nil
}
func (c countFS) Create(name string, cat vfs.DiskWriteCategory) (vfs.File, error) {
	return c.wrap(c.FS.Create(name, cat))
}
func (c countFS) Open(name string, opts ...vfs.OpenOption) (vfs.File, error) {
	return c.wrap(c.FS.Open(name, opts...))
}
func (c countFS) OpenReadWrite(name string, cat vfs.DiskWriteCategory, opts ...vfs.OpenOption) (vfs.File, error) {
	return c.wrap(c.FS.OpenReadWrite(name, cat, opts...))
}
func (c countFS) OpenDir(name string) (vfs.File, error) { return c.wrap(c.FS.OpenDir(name)) }
func (c countFS) ReuseForWrite(oldname, newname string, cat vfs.DiskWriteCategory) (vfs.File, error) {
	return c.wrap(c.FS.ReuseForWrite(oldname, newname, cat))
}
func (c countFS) Lock(name string) (io.Closer, error) {
	l, err := c.FS.Lock(name)
	if err != nil {
		return nil, err
	}
	c.open.Add(1)
	return &countCloser{Closer: l, open: c.open}, nil
}

// settleGoroutines waits (bounded) for the goroutine count to come back to base.
func settleGoroutines(base int) int {
	deadline := time.Now().Add(2 * time.Second)
	for {
		n := runtime.NumGoroutine()
		if n <= base || time.Now().After(deadline) {
			return max(0, n-base)
		}
		time.Sleep(2 * time.Millisecond)
	}
}

// ---------------------------------------------------------------- C38: checkpoints

func (r *Runner) execCheckpoint(e Ev) {
	r.sstN++
	dir := fmt.Sprintf("ckpt-%04d", r.sstN)
	var opts []pebble.CheckpointOption
	flushwal := e.B("flushwal")
	if flushwal {
		opts = append(opts, pebble.WithFlushedWAL())
	}
	spans, _ := e["spans"].([][]int)
	if len(spans) > 0 {
		var cs []pebble.CheckpointSpan
		for _, ab := range spans {
			cs = append(cs, pebble.CheckpointSpan{Start: r.U.Key(ab[0]), End: r.U.Key(ab[1])})
		}
		opts = append(opts, pebble.WithRestrictToSpans(cs))
	}
	if spans == nil {
		spans = [][]int{}
	}
	// without a WAL there is nothing WithFlushedWAL can flush: the checkpoint holds what was flushed
	// (Options.DisableWAL: no durability before a Flush), so the event carries the effective flag
	out := Ev{"op": "checkpoint", "flushwal": flushwal && !r.Cfg.DisableWAL, "spans": spans, "ok": false, "state": Ev{"pts": []any{}, "rks": []any{}}, "during": 0}
	if inner, _ := e["inner"].([]Ev); len(inner) > 0 && r.Hook != nil {
		// the inner calls run inside Checkpoint, right after it captured its view and released the
		// DB mutex (its first filesystem step is creating the destination directory)
		r.Hook.onMkdirAll = func(d string) {
			if r.FS.PathBase(d) != dir {
				return
			}
			r.Hook.onMkdirAll = nil
			r.noMaint = true
			for _, ie := range inner {
				r.Exec(ie)
			}
			r.noMaint = false
			out["during"] = len(inner)
		}
		defer func() { r.Hook.onMkdirAll = nil }()
	}
	if err := r.DB.Checkpoint(dir, opts...); err != nil {
		out["err"] = "checkpoint: " + err.Error()
		r.T.Emit(out)
		return
	}
	r2 := NewRunner(r.U, r.Cfg, r.FS, dir, r.T)
	r2.Logger = r.Logger
	if err := r2.Open(); err != nil {
		out["err"] = "open checkpoint: " + err.Error()
		r.T.Emit(out)
		return
	}
	st, err := DumpState(r2)
	cerr := r2.DB.Close()
	if err != nil || cerr != nil {
		out["err"] = fmt.Sprintf("read checkpoint: %v %v", err, cerr)
		r.T.Emit(out)
		return
	}
	out["ok"] = true
	out["state"] = st
	r.T.Emit(out)
}

// ---------------------------------------------------------------- C45: ScanInternal + replay

type siItem struct {
	seq  uint64
	ord  int // range deletions / range-key deletes first within one sequence number
	n    int
	op   func(b *pebble.Batch) error
}

// execScanInt scans the internal keys of [a,b) from src and writes them into an
// empty DB (oldest first); the visible state of that DB inside the span is logged.
func (r *Runner) execScanInt(e Ev) {
	u := r.U
	a, b := e.I("a"), e.I("b")
	obsolete := e.B("obsolete")
	var items []siItem
	n := 0
	add := func(seq uint64, ord int, op func(b *pebble.Batch) error) {
		n++
		items = append(items, siItem{seq: seq, ord: ord, n: n, op: op})
	}
	opts := pebble.ScanInternalOptions{
		IterOptions: pebble.IterOptions{
			KeyTypes:   pebble.IterKeyTypePointsAndRanges,
			LowerBound: u.Key(a),
			UpperBound: u.Key(b),
		},
		IncludeObsoleteKeys: obsolete,
		VisitPointKey: func(key *pebble.InternalKey, value pebble.LazyValue, _ pebble.IteratorLevel) error {
			k := append([]byte(nil), key.UserKey...)
			v, _, err := value.Value(nil)
			if err != nil {
				return err
			}
			v = append([]byte(nil), v...)
			kind := key.Kind()
			add(uint64(key.SeqNum()), 1, func(b *pebble.Batch) error {
				switch kind {
				case pebble.InternalKeyKindSet, pebble.InternalKeyKindSetWithDelete:
					return b.Set(k, v, nil)
				case pebble.InternalKeyKindMerge:
					return b.Merge(k, v, nil)
				case pebble.InternalKeyKindDelete, pebble.InternalKeyKindDeleteSized:
					return b.Delete(k, nil)
				case pebble.InternalKeyKindSingleDelete:
					return b.SingleDelete(k, nil)
				}
				return errors.Newf("unexpected point kind %s", kind)
			})
			return nil
		},
		VisitRangeDel: func(start, end []byte, seqNum pebble.SeqNum) error {
			s, en := append([]byte(nil), start...), append([]byte(nil), end...)
			add(uint64(seqNum), 0, func(b *pebble.Batch) error { return b.DeleteRange(s, en, nil) })
			return nil
		},
		VisitRangeKey: func(start, end []byte, keys []rangekey.Key) error {
			s, en := append([]byte(nil), start...), append([]byte(nil), end...)
			for _, k := range keys {
				suf, val := append([]byte(nil), k.Suffix...), append([]byte(nil), k.Value...)
				kind := k.Kind()
				ord := 1
				if kind == pebble.InternalKeyKindRangeKeyDelete {
					ord = 0
				}
				add(uint64(k.SeqNum()), ord, func(b *pebble.Batch) error {
					switch kind {
					case pebble.InternalKeyKindRangeKeySet:
						return b.RangeKeySet(s, en, suf, val, nil)
					case pebble.InternalKeyKindRangeKeyUnset:
						return b.RangeKeyUnset(s, en, suf, nil)
					case pebble.InternalKeyKindRangeKeyDelete:
						return b.RangeKeyDelete(s, en, nil)
					}
					return errors.Newf("unexpected range key kind %s", kind)
				})
			}
			return nil
		},
	}
	ctx := context.Background()
	var err error
	src := e.I("src")
	if src == 0 {
		err = r.DB.ScanInternal(ctx, opts)
	} else {
		h := r.H[src]
		switch h.typ {
		case "snap":
			err = h.snap.ScanInternal(ctx, opts)
		case "efos":
			err = h.efos.ScanInternal(ctx, opts)
		default:
			err = errors.Newf("scaninternal on %s", h.typ)
		}
	}
	if err != nil {
		r.fail(errors.Wrap(err, "ScanInternal"))
		return
	}
	// oldest first; within a sequence number range deletions first, then in visit order reversed
	// (ScanInternal visits a user key's versions newest first)
	sort.SliceStable(items, func(i, j int) bool {
		if items[i].seq != items[j].seq {
			return items[i].seq < items[j].seq
		}
		if items[i].ord != items[j].ord {
			return items[i].ord < items[j].ord
		}
		return items[i].n > items[j].n
	})
	r2 := NewRunner(u, r.Cfg, vfs.NewMem(), "replica", r.T)
	r2.Logger = r.Logger
	if err := r2.Open(); err != nil {
		r.fail(errors.Wrap(err, "open replica"))
		return
	}
	for _, it := range items {
		bt := r2.DB.NewBatch()
		if err := it.op(bt); err != nil {
			r.fail(errors.Wrap(err, "replay op"))
			return
		}
		if err := r2.DB.Apply(bt, pebble.NoSync); err != nil {
			r.fail(errors.Wrap(err, "replay apply"))
			return
		}
		bt.Close()
	}
	st, derr := DumpState(r2)
	cerr := r2.DB.Close()
	if derr != nil || cerr != nil {
		r.fail(errors.Newf("replica read: %v %v", derr, cerr))
		return
	}
	e["state"] = st
	e["items"] = len(items)
	r.T.Emit(e)
}

func valSepMin(c Config) int {
	if c.ValSepMin > 0 {
		return c.ValSepMin
	}
	return 30
}
