// Package dbdrv drives the real Pebble DB from scripts and random workloads and
// records NDJSON traces in the vocabulary of /verif/spec/KV/KVTrace.tla.
package dbdrv

import (
	"bufio"
	"bytes"
	"encoding/json"
	"fmt"
	"os"
	"strconv"
	"strings"
	"sync"
)

// Univ is the key universe of KV.tla: ranks 0..R-1, R = P*(S+1).
type Univ struct{ P, S int }

func (u Univ) R() int { return u.P * (u.S + 1) }

// Key returns the user key of a rank; rank R (or beyond) maps to a key that
// sorts after every key of the universe.
func (u Univ) Key(rank int) []byte {
	if rank >= u.R() {
		return []byte("zz")
	}
	if rank < 0 {
		panic("negative rank")
	}
	p := rank / (u.S + 1)
	pos := rank % (u.S + 1)
	k := []byte{byte('a' + p)}
	if pos == 0 {
		return k
	}
	return append(k, []byte("@"+strconv.Itoa(u.S+1-pos))...)
}

func (u Univ) Suffix(s int) []byte {
	if s == 0 {
		return nil
	}
	return []byte("@" + strconv.Itoa(s))
}

func (u Univ) SuffixNum(b []byte) int {
	if len(b) == 0 {
		return 0
	}
	n, err := strconv.Atoi(string(b[1:]))
	if err != nil {
		panic(fmt.Sprintf("bad suffix %q", b))
	}
	return n
}

// Rank maps a user key produced by the DB back to a rank.  ImmediateSuccessor
// forms ("b\x00") and the past-the-end key map to the start of the next prefix.
func (u Univ) Rank(k []byte) int {
	if len(k) == 0 {
		panic("empty key")
	}
	if bytes.Equal(k, []byte("zz")) {
		return u.R()
	}
	p := int(k[0] - 'a')
	rest := k[1:]
	if len(rest) == 0 {
		if p >= u.P {
			return u.R()
		}
		return p * (u.S + 1)
	}
	if rest[0] == 0 { // ImmediateSuccessor of the prefix
		if p+1 >= u.P {
			return u.R()
		}
		return (p + 1) * (u.S + 1)
	}
	if rest[0] != '@' {
		panic(fmt.Sprintf("unexpected key %q", k))
	}
	s, err := strconv.Atoi(string(rest[1:]))
	if err != nil || s < 1 || s > u.S {
		panic(fmt.Sprintf("unexpected key %q", k))
	}
	return p*(u.S+1) + (u.S + 1 - s)
}

// Values: id -> "v<id>" + padding + "."; merges concatenate, so a value decodes
// to the sequence of ids.  Padding depends on the id only (sizes straddle the
// value-separation and large-batch thresholds chosen by the configuration).
type ValCodec struct {
	Sizes []int // padding sizes, indexed by id % len
}

func (c ValCodec) Enc(id int) []byte {
	pad := 0
	if len(c.Sizes) > 0 {
		pad = c.Sizes[id%len(c.Sizes)]
	}
	var b bytes.Buffer
	b.WriteString("v")
	b.WriteString(strconv.Itoa(id))
	if pad > 0 {
		// deterministic, compressible-but-not-trivial padding
		for i := 0; i < pad; i++ {
			b.WriteByte(byte('A' + (id+i*7)%23))
		}
	}
	b.WriteByte('.')
	return b.Bytes()
}

// Dec returns the ids of a (possibly merged) value and verifies the padding
// byte for byte, so value corruption is not mistaken for a correct read.
func (c ValCodec) Dec(v []byte) ([]int, error) {
	ids := []int{}
	for len(v) > 0 {
		i := bytes.IndexByte(v, '.')
		if i < 0 || v[0] != 'v' {
			return nil, fmt.Errorf("undecodable value %q", trunc(v))
		}
		part := v[1:i]
		j := 0
		for j < len(part) && part[j] >= '0' && part[j] <= '9' {
			j++
		}
		id, err := strconv.Atoi(string(part[:j]))
		if err != nil {
			return nil, fmt.Errorf("undecodable value %q", trunc(v))
		}
		if !bytes.Equal(c.Enc(id), v[:i+1]) {
			return nil, fmt.Errorf("value bytes differ from what was written for id %d: %q", id, trunc(v[:i+1]))
		}
		ids = append(ids, id)
		v = v[i+1:]
	}
	return ids, nil
}

func trunc(b []byte) string {
	if len(b) > 40 {
		return string(b[:40]) + "..."
	}
	return string(b)
}

// Ev is one trace event / script command.
type Ev map[string]any

func (e Ev) S(k string) string {
	v, _ := e[k].(string)
	return v
}
func (e Ev) I(k string) int {
	switch v := e[k].(type) {
	case int:
		return v
	case float64:
		return int(v)
	case json.Number:
		n, _ := v.Int64()
		return int(n)
	}
	return 0
}
func (e Ev) B(k string) bool {
	v, _ := e[k].(bool)
	return v
}
func (e Ev) Ops(k string) []Ev {
	switch v := e[k].(type) {
	case []Ev:
		return v
	case []any:
		r := make([]Ev, len(v))
		for i := range v {
			r[i] = Ev(v[i].(map[string]any))
		}
		return r
	}
	return nil
}

// Trace writes NDJSON.
type Trace struct {
	f *os.File
	w *bufio.Writer
	N int
	// Mu orders trace lines against events buffered by other goroutines
	// (crash probes taken inside filesystem callbacks): Emit holds it, and
	// first writes everything in Buf.
	Mu  sync.Mutex
	Buf []Ev
}

func NewTrace(path string) (*Trace, error) {
	f, err := os.Create(path)
	if err != nil {
		return nil, err
	}
	return &Trace{f: f, w: bufio.NewWriterSize(f, 1<<20)}, nil
}

func (t *Trace) Emit(e Ev) {
	t.Mu.Lock()
	defer t.Mu.Unlock()
	t.FlushBufLocked()
	t.write(e)
}

// FlushBufLocked writes the buffered events; t.Mu must be held.
func (t *Trace) FlushBufLocked() {
	for _, b := range t.Buf {
		t.write(b)
	}
	t.Buf = t.Buf[:0]
}

func (t *Trace) write(e Ev) {
	b, err := json.Marshal(e)
	if err != nil {
		panic(err)
	}
	t.w.Write(b)
	t.w.WriteByte('\n')
	t.N++
}

func (t *Trace) Close() error {
	if err := t.w.Flush(); err != nil {
		return err
	}
	return t.f.Close()
}

func envInt(name string, def int) int {
	if s := os.Getenv(name); s != "" {
		n, err := strconv.Atoi(s)
		if err == nil {
			return n
		}
	}
	return def
}

func envStr(name, def string) string {
	if s := os.Getenv(name); s != "" {
		return s
	}
	return def
}

func splitList(s string) []string {
	var r []string
	for _, x := range strings.Split(s, ",") {
		x = strings.TrimSpace(x)
		if x != "" {
			r = append(r, x)
		}
	}
	return r
}
