package dbdrv

import (
	"encoding/json"
	"fmt"
	"math/rand/v2"
	"os"
	"path/filepath"
	"sort"
	"strings"
	"sync/atomic"
	"testing"
	"time"

	"github.com/cockroachdb/errors"
	"github.com/cockroachdb/pebble"
	"github.com/cockroachdb/pebble/internal/manifest"
	"github.com/cockroachdb/pebble/record"
	"github.com/cockroachdb/pebble/vfs"
	"github.com/cockroachdb/pebble/vfs/atomicfs"
	"github.com/cockroachdb/pebble/vfs/errorfs"
)

// crashCtl takes crash clones of the crashable MemFS under the DB at
// filesystem-operation granularity, reopens each clone with the real Open and
// records the recovered state as a "crashprobe" trace event.
//
// Ordering (no wall clock): a probe reads the in-flight entry and takes its clone
// while holding Trace.Mu; the main goroutine sets/clears the in-flight entry and
// emits every trace line under the same mutex, and Emit first writes buffered
// probes.  So a probe lands before the event of the call it interrupted (with
// pend = [that entry]) or after it (pend = []), consistently with what the
// clone can contain.
type crashCtl struct {
	r       *Runner
	mem     *vfs.MemFS
	rng     *rand.Rand
	pending []Ev
	opN     int
	probes  int
	// selection
	every     int    // probe before every n-th write op (1 = all)
	classes   string // "" = all files; else comma list of classes probed always: manifest,marker,dir
	maxSubset int    // exhaustive subsets when #unsynced <= maxSubset
	randSub   int    // extra random subsets per probe point
	maxProbes int
	durRead   bool // C13: take an OnlyReadGuaranteedDurable read right before post-return probes
	inProbe   bool
	opKinds   map[string]int
	noWAL     bool
	wantFiles bool // C22: also recover every clone read-only and record the recovered version's tables
	disabled  bool
	jitter, inflight, passed atomic.Int64
	holdFlush                atomic.Bool // burst steps: hold back background table creation
	bgInFlight               atomic.Bool // the driver started a flush that has not returned yet
	durN         int // C13: durable-only reads taken (rotates the way the iterator is obtained)
	fmvlo, fmvhi int // C40: format major version bounds a recovered store must respect
}

func fileClass(path string) string {
	b := filepath.Base(path)
	switch {
	case strings.HasPrefix(b, "MANIFEST"):
		return "manifest"
	case strings.HasPrefix(b, "marker."):
		return "marker"
	case strings.HasSuffix(b, ".log"):
		return "wal"
	case strings.HasSuffix(b, ".sst"):
		return "sst"
	case strings.HasSuffix(b, ".blob"):
		return "blob"
	case strings.HasPrefix(b, "OPTIONS"):
		return "options"
	case b == "db" || b == "" || b == "." || b == "wal2":
		return "dir"
	}
	return "other"
}

func (c *crashCtl) injector() errorfs.Injector {
	return errorfs.InjectorFunc(func(op errorfs.Op) error {
		if !op.Kind.IsWrite() || c.disabled {
			return nil
		}
		if c.holdFlush.Load() && op.Kind == errorfs.OpCreate && strings.HasSuffix(op.Path, ".sst") &&
			!strings.HasPrefix(filepath.Base(op.Path), "ext-") {
			// a background job's output table is held back while the client builds up a queue of
			// flushable ingests (bounded: the client may itself be waiting for this flush)
			deadline := time.Now().Add(400 * time.Millisecond)
			for c.holdFlush.Load() && time.Now().Before(deadline) {
				time.Sleep(200 * time.Microsecond)
			}
		}
		c.inflight.Add(1)
		c.before(op)
		c.inflight.Add(-1)
		c.passed.Add(1)
		// Schedule perturbation: an fsync is where the storage protocol has its windows (state
		// captured before the sync, recorded after it).  Holding the caller here for a moment
		// (outside the trace mutex) lets concurrent jobs - a flush, a compaction, an ingest -
		// run into that window, which an in-memory filesystem otherwise never opens.
		if op.Kind == errorfs.OpFileSync || op.Kind == errorfs.OpFileSyncData || op.Kind == errorfs.OpFileSyncTo {
			if n := c.jitter.Add(1); n%3 != 0 {
				time.Sleep(time.Duration(50+(n*37)%400) * time.Microsecond)
			}
		}
		return nil
	})
}

// before is called on whatever goroutine performs the FS write op, before the op.
func (c *crashCtl) before(op errorfs.Op) {
	t := c.r.T
	t.Mu.Lock()
	defer t.Mu.Unlock()
	if c.inProbe {
		return
	}
	c.opN++
	cls := fileClass(op.Path)
	if op.Kind == errorfs.OpFileSync || op.Kind == errorfs.OpFileSyncData || op.Kind == errorfs.OpFileSyncTo {
		cls = cls + "-sync"
	}
	c.opKinds[cls]++
	always := c.classes != "" && (strings.Contains(c.classes, strings.TrimSuffix(cls, "-sync")))
	if !always && (c.every <= 0 || c.opN%c.every != 0) {
		return
	}
	if c.probes >= c.maxProbes {
		return
	}
	c.probeLocked(fmt.Sprintf("before op %d %s %s", c.opN, opName(op.Kind), filepath.Base(op.Path)), cls, false)
}

func opName(k errorfs.OpKind) string {
	switch k {
	case errorfs.OpCreate:
		return "create"
	case errorfs.OpLink:
		return "link"
	case errorfs.OpRemove:
		return "remove"
	case errorfs.OpRename:
		return "rename"
	case errorfs.OpReuseForWrite:
		return "reuse"
	case errorfs.OpMkdirAll:
		return "mkdir"
	case errorfs.OpFileWrite, errorfs.OpFileWriteAt:
		return "write"
	case errorfs.OpFileSync, errorfs.OpFileSyncData, errorfs.OpFileSyncTo:
		return "sync"
	case errorfs.OpFileClose:
		return "close"
	}
	return fmt.Sprintf("op%d", int(k))
}

// afterReturn: the call returned on the main goroutine.
func (c *crashCtl) afterReturn() {
	if c.disabled {
		return
	}
	t := c.r.T
	if c.durRead {
		// C13: what an OnlyReadGuaranteedDurable iterator shows now, then the crash states of now
		st, err := c.durableRead()
		t.Mu.Lock()
		if err != nil {
			t.Buf = append(t.Buf, Ev{"op": "fail", "err": "durable-only read: " + err.Error(), "cfg": c.r.Cfg.Name})
		} else {
			t.Buf = append(t.Buf, Ev{"op": "durread", "state": st})
		}
		c.probeLocked("after return (durable read)", "return", true)
		t.Mu.Unlock()
		return
	}
	t.Mu.Lock()
	c.probeLocked("after return", "return", false)
	t.Mu.Unlock()
}

func (c *crashCtl) durableRead() (Ev, error) {
	r := c.r
	u := r.U
	pts := make([]any, u.R())
	for k := range pts {
		pts[k] = []int{}
	}
	rks := make([]any, u.P)
	for p := range rks {
		rks[p] = []any{}
	}
	// Three ways to an iterator carrying the option: NewIter with it, an ordinary (already used)
	// iterator switched by SetOptions, and a Clone of an ordinary iterator given the option.
	durOpts := &pebble.IterOptions{KeyTypes: pebble.IterKeyTypePointsAndRanges, OnlyReadGuaranteedDurable: true}
	c.durN++
	var it *pebble.Iterator
	var err error
	switch c.durN % 3 {
	case 0:
		it, err = r.DB.NewIter(durOpts)
	case 1:
		it, err = r.DB.NewIter(&pebble.IterOptions{KeyTypes: pebble.IterKeyTypePointsAndRanges})
		if err == nil {
			it.First()
			it.SetOptions(durOpts)
		}
	default:
		var base *pebble.Iterator
		base, err = r.DB.NewIter(&pebble.IterOptions{KeyTypes: pebble.IterKeyTypePointsAndRanges})
		if err == nil {
			base.First()
			it, err = base.Clone(pebble.CloneOptions{IterOptions: durOpts})
			if cerr := base.Close(); err == nil && cerr != nil {
				it.Close()
				err = cerr
			}
		}
	}
	if err != nil {
		return nil, err
	}
	for ok := it.First(); ok; ok = it.Next() {
		hp, hr := it.HasPointAndRange()
		if hp {
			v, verr := it.ValueAndErr()
			if verr != nil {
				it.Close()
				return nil, verr
			}
			ids, derr := r.VC.Dec(v)
			if derr != nil {
				it.Close()
				return nil, derr
			}
			pts[u.Rank(it.Key())] = ids
		}
		if hr && it.RangeKeyChanged() {
			s, e := it.RangeBounds()
			rs, re := u.Rank(s), u.Rank(e)
			ks := []any{}
			for _, k := range it.RangeKeys() {
				ids, derr := r.VC.Dec(k.Value)
				if derr != nil || len(ids) != 1 {
					it.Close()
					return nil, fmt.Errorf("bad range key value")
				}
				ks = append(ks, []int{u.SuffixNum(k.Suffix), ids[0]})
			}
			for p := 0; p < u.P; p++ {
				if pk := p * (u.S + 1); pk >= rs && pk < re {
					rks[p] = ks
				}
			}
		}
	}
	if err := it.Close(); err != nil {
		return nil, err
	}
	return Ev{"pts": pts, "rks": rks}, nil
}

type survival struct {
	name string
	keep func(path string, isDir bool, block int) bool
}

// choices of which unsynced items survive
func (c *crashCtl) choices(items []vfs.VerifUnsyncedItem) []survival {
	key := func(p string, d bool, b int) string { return fmt.Sprintf("%s|%v|%d", p, d, b) }
	out := []survival{
		{"none", func(string, bool, int) bool { return false }},
	}
	n := len(items)
	if n == 0 {
		return out
	}
	out = append(out, survival{"all", func(string, bool, int) bool { return true }})
	mk := func(name string, set map[string]bool) survival {
		return survival{name, func(p string, d bool, b int) bool { return set[key(p, d, b)] }}
	}
	if n <= c.maxSubset {
		for m := 1; m < (1<<n)-1; m++ {
			set := map[string]bool{}
			for i, it := range items {
				if m&(1<<i) != 0 {
					set[key(it.Path, it.IsDirEntry, it.Block)] = true
				}
			}
			out = append(out, mk(fmt.Sprintf("subset-%b", m), set))
		}
		return out
	}
	// singletons and all-but-one (bounded), then seeded random subsets and "torn tail" prefixes
	lim := min(n, 6)
	for _, i := range c.rng.Perm(n)[:lim] {
		it := items[i]
		out = append(out, mk("only-"+key(it.Path, it.IsDirEntry, it.Block), map[string]bool{key(it.Path, it.IsDirEntry, it.Block): true}))
		set := map[string]bool{}
		for j, o := range items {
			if j != i {
				set[key(o.Path, o.IsDirEntry, o.Block)] = true
			}
		}
		out = append(out, mk("allbut-"+key(it.Path, it.IsDirEntry, it.Block), set))
	}
	for k := 0; k < c.randSub; k++ {
		set := map[string]bool{}
		pct := 20 + c.rng.IntN(70)
		for _, o := range items {
			if c.rng.IntN(100) < pct {
				set[key(o.Path, o.IsDirEntry, o.Block)] = true
			}
		}
		out = append(out, mk(fmt.Sprintf("rand-%d", k), set))
	}
	// torn tail: all directory entries, and for every file only a prefix of its unsynced blocks
	{
		set := map[string]bool{}
		cut := map[string]int{}
		for _, o := range items {
			if o.IsDirEntry {
				set[key(o.Path, true, o.Block)] = true
			} else if _, ok := cut[o.Path]; !ok {
				cut[o.Path] = c.rng.IntN(4)
			}
		}
		seen := map[string]int{}
		for _, o := range items {
			if !o.IsDirEntry {
				if seen[o.Path] < cut[o.Path] {
					set[key(o.Path, false, o.Block)] = true
				}
				seen[o.Path]++
			}
		}
		out = append(out, mk("torn-tail", set))
	}
	return out
}

// probeLocked: Trace.Mu is held.  Clones, reopens, dumps, buffers the events.
func (c *crashCtl) probeLocked(at, cls string, dur bool) {
	c.inProbe = true
	defer func() { c.inProbe = false }()
	items := c.mem.UnsyncedItems()
	pend := append([]Ev{}, c.pending...)
	fmvlo, fmvhi := c.fmvlo, c.fmvhi
	var chainA [][]int
	if c.wantFiles {
		chainA = manifestVersions(c.mem.CrashCloneWith(func(string, bool, int) bool { return true }), c.r.Dir)
	}
	var evs []Ev
	for _, ch := range c.choices(items) {
		if c.probes >= c.maxProbes {
			break
		}
		c.probes++
		clone := c.mem.CrashCloneWith(ch.keep)
		ev := c.reopenDump(clone)
		if c.wantFiles {
			c.readOnlyFiles(c.mem.CrashCloneWith(ch.keep), ev)
		}
		ev["op"] = "crashprobe"
		ev["pend"] = pend
		ev["at"] = at
		ev["fclass"] = cls
		ev["choice"] = ch.name
		ev["unsynced"] = len(items)
		ev["dur"] = dur
		ev["fmvlo"], ev["fmvhi"] = fmvlo, fmvhi
		ev["vallowed"] = [][]int{}
		evs = append(evs, ev)
	}
	if c.wantFiles {
		// C22: the versions the MANIFEST of the (uncrashed) store describes right now.  A crash
		// may lose at most the edit in flight: allowed = the last two versions of the chain
		// (computed before and after taking the clones, since another goroutine's FS op that
		// had already started may complete in between); at a quiescent point of a
		// configuration without background work only the last one.
		chainB := manifestVersions(c.mem.CrashCloneWith(func(string, bool, int) bool { return true }), c.r.Dir)
		// (not while the driver itself keeps a background flush in flight: CONC and burst steps)
		strict := cls == "return" && !c.r.Cfg.AutoCompact && !c.bgInFlight.Load()
		allowed := [][]int{}
		for _, ch := range [][][]int{chainA, chainB} {
			n := len(ch)
			if n > 0 {
				allowed = append(allowed, ch[n-1])
			}
			if n > 1 && !strict {
				allowed = append(allowed, ch[n-2])
			}
		}
		for _, ev := range evs {
			ev["vallowed"] = allowed
			ev["strict"] = strict
		}
	}
	c.r.T.Buf = append(c.r.T.Buf, evs...)
}

// manifestVersions decodes the current MANIFEST of fs and returns the table-number
// set of the version after each edit.
func manifestVersions(fs vfs.FS, dir string) [][]int {
	name, err := atomicfs.ReadMarker(fs, dir, "manifest")
	if err != nil || name == "" {
		return nil
	}
	f, err := fs.Open(fs.PathJoin(dir, name))
	if err != nil {
		return nil
	}
	defer f.Close()
	rr := record.NewReader(f, 0)
	cur := map[int]bool{}
	var chain [][]int
	for {
		r, err := rr.Next()
		if err != nil {
			break
		}
		var ve manifest.VersionEdit
		if err := ve.Decode(r); err != nil {
			break
		}
		for d := range ve.DeletedTables {
			delete(cur, int(d.FileNum))
		}
		for _, nt := range ve.NewTables {
			cur[int(nt.Meta.TableNum)] = true
		}
		v := make([]int, 0, len(cur))
		for n := range cur {
			v = append(v, n)
		}
		sort.Ints(v)
		chain = append(chain, v)
	}
	return chain
}

// reopenDump opens a crash clone with the real Open and dumps the whole state.
func (c *crashCtl) reopenDump(clone *vfs.MemFS) (ev Ev) {
	empty := Ev{"pts": []any{}, "rks": []any{}}
	ev = Ev{"ok": false, "state": empty, "hasfiles": false, "files": []int{}, "fmv": 0}
	defer func() {
		if p := recover(); p != nil {
			ev["ok"] = false
			ev["err"] = fmt.Sprintf("panic during recovery: %v", p)
		}
	}()
	r2 := NewRunner(c.r.U, c.r.Cfg, clone, c.r.Dir, c.r.T)
	r2.Logger = c.r.Logger
	if err := r2.Open(); err != nil {
		ev["err"] = "open: " + err.Error()
		return ev
	}
	st, err := DumpState(r2)
	if err != nil {
		ev["err"] = "dump: " + err.Error()
		r2.DB.Close()
		return ev
	}
	ev["state"] = st
	ev["fmv"] = int(r2.DB.FormatMajorVersion())
	if err := r2.DB.Close(); err != nil {
		ev["err"] = "close of recovered db: " + err.Error()
		return ev
	}
	ev["ok"] = true
	return ev
}

func sstNums(db *pebble.DB) []int {
	nums := []int{}
	tables, _ := db.SSTables()
	for _, lvl := range tables {
		for _, t := range lvl {
			nums = append(nums, int(t.FileNum))
		}
	}
	sort.Ints(nums)
	return nums
}

func (r *Runner) begin(entry Ev) {
	if r.Crash == nil {
		return
	}
	r.T.Mu.Lock()
	r.T.FlushBufLocked()
	r.Crash.pending = []Ev{entry}
	r.T.Mu.Unlock()
}

// end: the call returned; probes taken during it are written (with pend = [entry]) and the
// entry's own event right after them, atomically, so that no later probe can precede it.
func (r *Runner) end(e Ev) {
	r.T.Mu.Lock()
	r.T.FlushBufLocked()
	if r.Crash != nil {
		r.Crash.pending = nil
	}
	if e != nil {
		r.T.write(e)
	}
	r.T.Mu.Unlock()
}

// crashProfile: the workload of the crash engine.
type crashProfile struct {
	name      string
	syncPct   int // percentage of commits with Sync
	flushPct  int
	ingestPct int
	excisePct int
	compactPct int
	bigPct    int
	finding   bool // allow direct-to-LSM ingest/excise while earlier commits are not durable
	flushOnly bool // make earlier commits durable by Flush only (C13: the durable-only view ignores memtables)
	reopenPct int  // continue from a crash clone
	burstPct  int  // several ingestions back to back over a non-empty memtable (flushable ingests pending together)
	concPct   int  // a direct ingest issued while a flush runs (two jobs creating and syncing objects at once)
}

func crashProfiles() map[string]crashProfile {
	return map[string]crashProfile{
		"C10": {name: "C10", syncPct: 45, flushPct: 10, ingestPct: 6, excisePct: 3, compactPct: 6, bigPct: 6, reopenPct: 3, concPct: 8, burstPct: 6},
		"C11": {name: "C11", syncPct: 25, flushPct: 8, ingestPct: 6, excisePct: 3, compactPct: 6, bigPct: 14, reopenPct: 5, burstPct: 6},
		"C11F": {name: "C11F", syncPct: 25, flushPct: 4, ingestPct: 14, excisePct: 6, compactPct: 4, bigPct: 4, finding: true},
		"C12": {name: "C12", syncPct: 0, flushPct: 20, ingestPct: 0, excisePct: 0, compactPct: 8, bigPct: 8, reopenPct: 3, concPct: 10},
		"C13": {name: "C13", syncPct: 20, flushPct: 14, ingestPct: 5, excisePct: 2, compactPct: 6, bigPct: 6, flushOnly: true},
		"C13F": {name: "C13F", syncPct: 20, flushPct: 6, ingestPct: 14, excisePct: 4, compactPct: 4, bigPct: 4, finding: true},
		// CONC: mostly "two jobs at once" steps (a flush in the background while the client ingests)
		"CONC": {name: "CONC", syncPct: 10, flushPct: 6, ingestPct: 0, excisePct: 0, compactPct: 6, bigPct: 6, reopenPct: 2, concPct: 45},
		"C22": {name: "C22", syncPct: 0, flushPct: 22, ingestPct: 8, excisePct: 4, compactPct: 14, bigPct: 6, reopenPct: 3, concPct: 8},
	}
}

// runCrash runs one crash-enumeration workload.
func runCrash(u Univ, cfg Config, cp crashProfile, seed uint64, steps int, path string, tune func(*crashCtl)) (int, int, map[string]int, error) {
	t, err := NewTrace(path)
	if err != nil {
		return 0, 0, nil, err
	}
	defer t.Close()
	mem := vfs.NewCrashableMem()
	rng := rand.New(rand.NewPCG(seed, seed^0xabcdef))
	var r *Runner
	c := &crashCtl{mem: mem, rng: rng, every: 1, maxSubset: 4, randSub: 2, maxProbes: 4000, opKinds: map[string]int{}, noWAL: cfg.DisableWAL}
	tune(c)
	open := func(m *vfs.MemFS) error {
		c.mem = m
		fs := errorfs.Wrap(delayFS{FS: m, n: &c.jitter, inflight: &c.inflight, passed: &c.passed}, c.injector())
		r = NewRunner(u, cfg, fs, "db", t)
		r.Crash = c
		c.r = r
		r.Logger = crashLogger{}
		return r.Open()
	}
	c.disabled = true // the initial Open of an empty directory is not interesting
	if err := open(mem); err != nil {
		return 0, 0, nil, err
	}
	c.disabled = false
	prof := Profile{Name: cp.name, W: map[string]int{}, RangeKeys: 1, LatestCls: "latest"}
	g := NewGen(r, prof, seed)
	unacked := 0 // commits since the last point where everything was acknowledged durable
	winLen := 0  // entries since the last Flush / reopen (the window TLC has to consider)
	flush := func() {
		r.Exec(Ev{"op": "maint", "kind": "flush"})
		unacked, winLen = 0, 0
	}
	// makeDurable: a Sync commit (acknowledges the whole WAL so far) or a Flush
	makeDurable := func() {
		if !cp.flushOnly && !cfg.DisableWAL && rng.IntN(2) == 0 {
			r.Exec(Ev{"op": "commit", "ops": []Ev{{"o": "logdata"}}, "sync": true})
			winLen++
			unacked = 0
		} else {
			flush()
		}
	}
	needDurable := func() bool {
		if cp.finding {
			return false
		}
		if cp.flushOnly {
			return winLen > 0
		}
		return unacked > 0
	}
	func() {
		defer func() {
			if p := recover(); p != nil {
				r.fail(fmt.Errorf("panic: %v", p))
			}
		}()
		for i := 0; i < steps && r.Fatal == nil; i++ {
			x := rng.IntN(100)
			switch {
			case x < cp.flushPct:
				flush()
			case x < cp.flushPct+cp.compactPct:
				r.Exec(Ev{"op": "maint", "kind": "compact"})
				c.afterReturn()
			case x < cp.flushPct+cp.compactPct+cp.ingestPct:
				if needDurable() {
					// direct-to-LSM ingests are durable at once: keep the history a prefix by
					// making everything before them durable first (see KNOWN_FINDINGS)
					makeDurable()
				}
				tables, flat := g.ingestTables()
				r.Exec(Ev{"op": "ingest", "tables": tables, "ops": flat})
				g.track(flat)
				winLen++
			case x < cp.flushPct+cp.compactPct+cp.ingestPct+cp.excisePct:
				if !g.canExcise() {
					continue
				}
				if needDurable() {
					makeDurable()
				}
				a, b := g.pspan()
				r.Exec(Ev{"op": "excise", "a": a, "b": b})
				g.trackExcise(a, b)
				winLen++
			case x >= 100-cp.concPct-cp.burstPct && x < 100-cp.concPct:
				// a burst of ingestions over a busy memtable: with a WAL each one that overlaps the
				// memtable is queued as a flushable ingest (recorded in its own WAL), so a crash can
				// find several of them pending at once
				if needDurable() {
					makeDurable()
				}
				touched := map[int]bool{}
				ops := []Ev{g.writeOp(false, touched), g.writeOp(false, touched), g.writeOp(false, touched)}
				sync := !cfg.DisableWAL
				r.Exec(Ev{"op": "commit", "ops": ops, "sync": sync})
				g.track(ops)
				winLen++
				if !sync {
					flush()
				}
				c.holdFlush.Store(true)
				c.bgInFlight.Store(true)
				for j := 0; j < 2+rng.IntN(2) && r.Fatal == nil; j++ {
					tables, flat := g.ingestTables()
					r.Exec(Ev{"op": "ingest", "tables": tables, "ops": flat})
					g.track(flat)
					winLen++
				}
				c.holdFlush.Store(false)
				flush() // waits for the queued flushables as well
				c.bgInFlight.Store(false)
			case x >= 100-cp.concPct:
				// two jobs at once: a flush running in the background while the client ingests a table
				// on other keys (both create objects and sync the directory)
				if winLen == 0 {
					ops := []Ev{g.writeOp(false, map[int]bool{})}
					r.Exec(Ev{"op": "commit", "ops": ops, "sync": !cfg.DisableWAL})
					g.track(ops)
					winLen++
				} else if needDurable() {
					makeDurable()
				}
				var done <-chan struct{}
				var ferr error
				r.BeforeIngest = func() { c.bgInFlight.Store(true); done, ferr = r.DB.AsyncFlush() }
				tables, flat := g.ingestTables()
				r.Exec(Ev{"op": "ingest", "tables": tables, "ops": flat})
				if r.Fatal != nil {
					return
				}
				g.track(flat)
				winLen++
				if ferr != nil {
					c.bgInFlight.Store(false)
				}
				if ferr == nil {
					<-done
					c.bgInFlight.Store(false)
					t.Emit(Ev{"op": "maint", "kind": "flush"})
					t.Emit(Ev{"op": "durable"})
					unacked, winLen = 0, 0
					c.afterReturn()
				}
			case x < cp.flushPct+cp.compactPct+cp.ingestPct+cp.excisePct+cp.reopenPct:
				// crash for real and continue on the clone
				items := c.mem.UnsyncedItems()
				chs := c.choices(items)
				ch := chs[rng.IntN(len(chs))]
				t.Mu.Lock()
				c.inProbe = true
				clone := c.mem.CrashCloneWith(ch.keep)
				c.inProbe = false
				t.Mu.Unlock()
				c.disabled = true
				old := r
				old.CloseAll()
				if err := open(clone); err != nil {
					t.Emit(Ev{"op": "reopen", "ok": false, "err": err.Error(), "state": Ev{"pts": []any{}, "rks": []any{}}, "pend": []Ev{}, "dur": false, "hasfiles": false, "files": []int{}, "vallowed": [][]int{}})
					r.Fatal = err
					return
				}
				st, derr := DumpState(r)
				if derr != nil {
					r.fail(derr)
					return
				}
				rev := Ev{"op": "reopen", "ok": true, "state": st, "pend": []Ev{}, "dur": false, "choice": ch.name, "hasfiles": false, "files": []int{}, "vallowed": [][]int{}}
				t.Emit(rev)
				c.disabled = false
				nv := g.nv
				g = NewGen(r, prof, seed+uint64(i))
				g.unknownHistory()
				g.nv = nv
				unacked, winLen = 0, 0
			default:
				n := 1 + rng.IntN(3)
				if rng.IntN(100) < cp.bigPct {
					n = 6 + rng.IntN(10)
				}
				ops := make([]Ev, 0, n)
				touched := map[int]bool{}
				for j := 0; j < n; j++ {
					ops = append(ops, g.writeOp(true, touched))
				}
				sync := rng.IntN(100) < cp.syncPct
				r.Exec(Ev{"op": "commit", "ops": ops, "sync": sync})
				g.track(ops)
				if sync && !cfg.DisableWAL {
					unacked = 0
				} else {
					unacked++
				}
				winLen++
				if unacked >= 5 || winLen >= 9 {
					// keep the window of possibly-lost entries small
					flush()
				}
			}
		}
	}()
	// Close (C12: with the WAL enabled everything committed before a successful Close survives)
	if r.Fatal == nil {
		c.disabled = true
		cerr := r.CloseAll()
		ev := Ev{"op": "closedb", "ok": cerr == nil}
		if cerr != nil {
			ev["err"] = cerr.Error()
		}
		t.Emit(ev)
		if cerr == nil && !cfg.DisableWAL {
			t.Emit(Ev{"op": "durable"})
			t.Mu.Lock()
			c.disabled = false
			c.pending = nil
			c.probeLocked("after close", "return", false)
			t.FlushBufLocked()
			t.Mu.Unlock()
		}
	} else {
		c.disabled = true
	}
	t.Mu.Lock()
	t.FlushBufLocked()
	t.Mu.Unlock()
	return t.N, c.probes, c.opKinds, r.Fatal
}

// TestCrash: VERIF_CRASHPROFILE, VERIF_SEED, VERIF_SCRIPTS, VERIF_STEPS, VERIF_CONFIGS, VERIF_OUT,
// VERIF_EVERY, VERIF_CLASSES, VERIF_MAXSUBSET, VERIF_MAXPROBES
func TestCrash(t *testing.T) {
	out := envStr("VERIF_OUT", "")
	if out == "" {
		t.Skip("VERIF_OUT not set")
	}
	u := Univ{P: envInt("VERIF_P", 3), S: envInt("VERIF_S", 3)}
	cp, ok := crashProfiles()[envStr("VERIF_CRASHPROFILE", "C10")]
	if !ok {
		t.Fatalf("unknown crash profile")
	}
	seed := uint64(envInt("VERIF_SEED", 1))
	scripts := envInt("VERIF_SCRIPTS", 4)
	steps := envInt("VERIF_STEPS", 30)
	cfgNames := splitList(envStr("VERIF_CONFIGS", "crash1"))
	cfgs := crashConfigs()
	tune := func(c *crashCtl) {
		c.every = envInt("VERIF_EVERY", 1)
		c.classes = envStr("VERIF_CLASSES", "")
		c.maxSubset = envInt("VERIF_MAXSUBSET", 4)
		c.randSub = envInt("VERIF_RANDSUB", 2)
		c.maxProbes = envInt("VERIF_MAXPROBES", 3000)
		c.durRead = envInt("VERIF_DURREAD", 0) == 1
		c.wantFiles = envInt("VERIF_FILES", 0) == 1
	}
	totalEv, totalProbes := 0, 0
	kinds := map[string]int{}
	n := 0
	for i := 0; i < scripts; i++ {
		cn := cfgNames[i%len(cfgNames)]
		cfg, ok := cfgs[cn]
		if !ok {
			t.Fatalf("unknown config %s", cn)
		}
		path := filepath.Join(out, fmt.Sprintf("K-%s-%d-%04d-%s.ndjson", cp.name, seed, i, cn))
		ne, np, ks, ferr := guardedCrash(path, func() (int, int, map[string]int, error) {
			return runCrash(u, cfg, cp, seed*7919+uint64(i), steps, path, tune)
		})
		totalEv += ne
		totalProbes += np
		n++
		for k, v := range ks {
			kinds[k] += v
		}
		if ferr != nil {
			fmt.Fprintf(os.Stdout, "DRIVER-FAIL %s: %v\n", path, ferr)
		}
	}
	var ks []string
	for k, v := range kinds {
		ks = append(ks, fmt.Sprintf("%s=%d", k, v))
	}
	sort.Strings(ks)
	fmt.Fprintf(os.Stdout, "DRIVER-OPS %s\n", strings.Join(ks, " "))
	fmt.Fprintf(os.Stdout, "DRIVER-DONE traces=%d events=%d probes=%d\n", n, totalEv, totalProbes)
}

// crashConfigs: configurations that make the storage protocol busy: tiny memtables
// (WAL rotation, recycling), tiny MANIFEST size limit (rotation), small files.
func crashConfigs() map[string]Config {
	m := map[string]Config{}
	add := func(c Config) { m[c.Name] = c }
	add(Config{Name: "crash1", FMV: pebble.FormatNewest, MemTableSize: 64 << 10, L0Threshold: 2, SmallFiles: true, MemStop: 6,
		AutoCompact: true, ValSizes: []int{0, 0, 500, 0, 9000, 0, 20000}, ManifestSize: 300})
	add(Config{Name: "crash2", FMV: pebble.FormatNewest, MemTableSize: 64 << 10, L0Threshold: 4, SmallFiles: true,
		AutoCompact: false, ValSizes: []int{0, 100, 0, 12000}, ManifestSize: 1 << 20})
	add(Config{Name: "crashvs", FMV: pebble.FormatNewest, MemTableSize: 64 << 10, L0Threshold: 2, SmallFiles: true, MemStop: 6,
		AutoCompact: true, ValueSep: true, ValSizes: []int{0, 40, 0, 600, 3, 5000}, ManifestSize: 500})
	add(Config{Name: "crashold", FMV: pebble.FormatMinSupported, MemTableSize: 64 << 10, L0Threshold: 2, SmallFiles: true,
		AutoCompact: true, ValSizes: []int{0, 0, 500, 9000}, ManifestSize: 300})
	// values longer than a 32 KiB WAL block: every such record has queued full blocks besides its tail
	add(Config{Name: "crashbig", FMV: pebble.FormatNewest, MemTableSize: 1 << 20, L0Threshold: 2, SmallFiles: true,
		AutoCompact: true, ValSizes: []int{0, 40000, 0, 70000, 300, 33000}, ManifestSize: 600})
	add(Config{Name: "crashnowal", FMV: pebble.FormatNewest, DisableWAL: true, MemTableSize: 64 << 10, L0Threshold: 4,
		SmallFiles: true, AutoCompact: false, ValSizes: []int{0, 0, 500, 9000}, ManifestSize: 300})
	add(Config{Name: "crashnowalauto", FMV: pebble.FormatNewest, DisableWAL: true, MemTableSize: 64 << 10, L0Threshold: 2,
		SmallFiles: true, AutoCompact: true, ValSizes: []int{0, 0, 500, 9000}, ManifestSize: 300})
	return m
}

// readOnlyFiles opens a clone read-only (no flush of replayed WALs, no background
// work, nothing written), so the table set is exactly the version recovery read
// from the MANIFEST.
func (c *crashCtl) readOnlyFiles(clone *vfs.MemFS, ev Ev) {
	defer func() {
		if p := recover(); p != nil {
			ev["ok"] = false
			ev["err"] = fmt.Sprintf("panic during read-only recovery: %v", p)
		}
	}()
	r2 := NewRunner(c.r.U, c.r.Cfg, clone, c.r.Dir, c.r.T)
	r2.Logger = c.r.Logger
	r2.Opts = r2.MakeOptions()
	r2.Opts.ReadOnly = true
	db, err := pebble.Open(r2.Dir, r2.Opts)
	if err != nil {
		ev["ok"] = false
		ev["err"] = "read-only open: " + err.Error()
		return
	}
	ev["hasfiles"] = true
	ev["files"] = sstNums(db)
	db.Close()
}

// crashFatal: the message of the first Logger.Fatalf of the store under test in the current script
// (Pebble calls it for what it regards as corruption, e.g. a table or blob file the MANIFEST
// names and the directory does not have).
var crashFatal atomic.Pointer[string]

// crashLogger parks the goroutine that hit a fatal condition (running its deferred unlocks is
// not safe) and leaves the message for guardedCrash.
type crashLogger struct{}

func (crashLogger) Infof(string, ...interface{})  {}
func (crashLogger) Errorf(string, ...interface{}) {}
func (crashLogger) Fatalf(f string, a ...interface{}) {
	msg := fmt.Sprintf("pebble fatal: "+f, a...)
	crashFatal.CompareAndSwap(nil, &msg)
	select {}
}

// guardedCrash runs one script; if the store died (Fatalf) the script's goroutine may never
// return: it is abandoned after a grace period and a "fail" event is appended to the trace
// file, which the specification rejects.
func guardedCrash(path string, f func() (int, int, map[string]int, error)) (int, int, map[string]int, error) {
	crashFatal.Store(nil)
	type res struct {
		ne, np int
		ks     map[string]int
		err    error
	}
	done := make(chan res, 1)
	go func() {
		// a panic of an API call on the script's own goroutine (e.g. Open of a cleanly closed
		// store) ends the script with a "fail" event, like a Fatalf
		defer func() {
			if p := recover(); p != nil {
				msg := fmt.Sprintf("panic in an API call: %v", p)
				crashFatal.CompareAndSwap(nil, &msg)
				done <- res{0, 0, map[string]int{}, errors.New(msg)}
			}
		}()
		ne, np, ks, err := f()
		done <- res{ne, np, ks, err}
	}()
	tick := time.NewTicker(20 * time.Millisecond)
	defer tick.Stop()
	grace := 0
	for {
		select {
		case r := <-done:
			if m := crashFatal.Load(); m != nil {
				appendFail(path, *m)
				if r.err == nil {
					r.err = errors.New(*m)
				}
			}
			return r.ne, r.np, r.ks, r.err
		case <-tick.C:
			if m := crashFatal.Load(); m != nil {
				if grace++; grace > 100 {
					appendFail(path, *m)
					return 0, 0, map[string]int{}, errors.New(*m)
				}
			}
		}
	}
}

func appendFail(path, msg string) {
	// the abandoned script never flushed its buffered writer: drop a torn last line
	if data, err := os.ReadFile(path); err == nil && len(data) > 0 && data[len(data)-1] != '\n' {
		if i := strings.LastIndexByte(string(data), '\n'); i >= 0 {
			os.Truncate(path, int64(i+1))
		} else {
			os.Truncate(path, 0)
		}
	}
	fh, err := os.OpenFile(path, os.O_APPEND|os.O_WRONLY|os.O_CREATE, 0o644)
	if err != nil {
		return
	}
	defer fh.Close()
	b, _ := json.Marshal(Ev{"op": "fail", "err": msg})
	fh.Write(append(b, '\n'))
}
